#!/bin/bash
# helper: build + run a harness quickly  (usage: b.sh c14 [tier])
set -e
n=$1; tier=${2:-quick}
cd /verif && python3 -c "import check" 2>/dev/null || true
python3 - <<PY
import importlib.machinery, importlib.util, sys
sys.argv=['check']
l=importlib.machinery.SourceFileLoader('chk','/verif/check'); s=importlib.util.spec_from_loader('chk',l); m=importlib.util.module_from_spec(s); l.exec_module(m)
m.write_overlay()
PY
cd /repo
export GOFLAGS=-mod=mod GOPROXY=off GOTOOLCHAIN=auto GONOSUMDB='*' GONOSUMCHECK=1
go build -tags verif -overlay /verif/.build/overlay.json -o /verif/.build/bin/h_$n ./internal/verifharness/$n
mkdir -p /verif/.build/run/man-$n
cd /repo && time /verif/.build/bin/h_$n -seed ${SEED:-1} -tier $tier -ops /verif/.build/run/man-$n/ops.txt -res /verif/.build/run/man-$n/go.out -stats /verif/.build/run/man-$n/stats.json
