import TinkVerif.Model.BigIntBytes
import Driver.Util
/-! Line protocol for the big-integer byte-string helpers (C12, first token `N`):
    the models of `ec.BigIntBytesToFixedSizeBuffer`, `signature.Pad`, `AdjustEncodingLengths`,
    `big.Int.Bytes()`, and the EC point / coordinate helpers of the proto serializers. -/
namespace Driver.Bi
open TinkVerif TinkVerif.BigIntBytes

def showOpt : Option Bytes → String
  | some b => tokOfBytes b
  | none => "err"

def showKey (k : RsaKey) : String :=
  " ".intercalate ([k.n, k.e, k.p, k.q, k.d, k.dp, k.dq, k.crt].map tokOfBytes)

def key8 (n e p q d dp dq crt : String) : Option RsaKey := do
  let n ← bytesOfTok? n
  let e ← bytesOfTok? e
  let p ← bytesOfTok? p
  let q ← bytesOfTok? q
  let d ← bytesOfTok? d
  let dp ← bytesOfTok? dp
  let dq ← bytesOfTok? dq
  let crt ← bytesOfTok? crt
  pure { n := n, e := e, p := p, q := q, d := d, dp := dp, dq := dq, crt := crt }

def handle (toks : List String) : Option String :=
  match toks with
  | ["tofixed", b, n] => do pure (showOpt (toFixed (← bytesOfTok? b) (← n.toNat?)))
  | ["pad", b, n] => do pure (showOpt (pad (← bytesOfTok? b) (← n.toNat?)))
  | ["minimal", b] => do pure (tokOfBytes (minimal (← bytesOfTok? b)))
  | ["natbytes", v] => do pure (tokOfBytes (natBytes (← v.toNat?)))
  | ["curve", bits] => do
    match coordinateSizeForCurve (← bits.toNat?) with
    | some n => pure (toString n)
    | none => pure "err"
  | ["ecproto", cs, c] => do pure (showOpt (protoCoord (← bytesOfTok? c) (← cs.toNat?)))
  | ["ecparse", cs, f] => do pure (showOpt (parseCoord (← bytesOfTok? f) (← cs.toNat?)))
  | ["privval", cs, f] => do pure (showOpt (privateKeyValue (← bytesOfTok? f) (← cs.toNat?)))
  | ["coords", cs, pt] => do
    match pointCoords (← bytesOfTok? pt) (← cs.toNat?) with
    | some (x, y) => pure s!"{tokOfBytes x} {tokOfBytes y}"
    | none => pure "err"
  | ["encpoint", cs, x, y] => do
    match encodePoint (← bytesOfTok? x) (← bytesOfTok? y) (← cs.toNat?) with
    | some p => pure (tokOfBytes p)
    | none => pure "panic"
  | ["eckeyser", cs, pt, d] => do
    match ecSerialize { point := (← bytesOfTok? pt), d := (← bytesOfTok? d) } (← cs.toNat?) with
    | some pr => pure s!"{tokOfBytes pr.x} {tokOfBytes pr.y} {tokOfBytes pr.keyValue}"
    | none => pure "err"
  | ["eckeyparse", cs, style, x, y, d] => do
    let st ← if style == "e" then some true else if style == "c" then some false else none
    match ecParse { x := (← bytesOfTok? x), y := (← bytesOfTok? y), keyValue := (← bytesOfTok? d) }
        (← cs.toNat?) st with
    | some k => pure s!"{tokOfBytes k.point} {tokOfBytes k.d}"
    | none => pure "err"
  | ["rsaadjust", n, p, q, d, dp, dq, crt] => do
    match adjustEncodingLengths (← bytesOfTok? n) (← bytesOfTok? p) (← bytesOfTok? q)
        (← bytesOfTok? d) (← bytesOfTok? dp) (← bytesOfTok? dq) (← bytesOfTok? crt) with
    | .ok a => pure s!"{tokOfBytes a.d} {tokOfBytes a.dp} {tokOfBytes a.dq} {tokOfBytes a.crt}"
    | .error f => pure s!"err {f}"
  | ["rsaser", n, e, p, q, d, dp, dq, crt] => do
    let k ← key8 n e p q d dp dq crt
    match rsaSerialize k with
    | .ok pr => pure (showKey pr)
    | .error f => pure s!"err {f}"
  | ["rsaparse", jwt, n, e, p, q, d, dp, dq, crt] => do
    let pr ← key8 n e p q d dp dq crt
    pure (showKey (rsaParse pr (← Driver.bool? jwt)))
  | _ => none

end Driver.Bi
