import TinkVerif.Model.Keyset
import Driver.Manager
/-! Line protocol for the keyset structural gate (C14/C13). -/
namespace Driver.Ks
open TinkVerif TinkVerif.Keyset

/-- key token: hasKeyData:material:status:keyId:prefixType:parseOk (numbers; booleans as 0/1) -/
def pkey? (s : String) : Option PKey :=
  match s.splitOn ":" with
  | [d, m, st, id, p, ok] => do
    pure { hasKeyData := ← Driver.bool? d, material := ← m.toNat?, status := ← st.toNat?, keyId := ← id.toNat?,
           prefixType := ← p.toNat?, parseOk := ← Driver.bool? ok }
  | _ => none

def keyset? (primary keys : String) : Option PKeyset := do
  let p ← primary.toNat?
  let ks ← if keys == "-" then some [] else (keys.splitOn ";").mapM pkey?
  pure { primaryKeyId := p, keys := ks }

def showHandle (h : Option Manager.Handle) : String :=
  match h with
  | none => "err"
  | some es => "ok " ++ ";".intercalate (es.map fun e =>
      s!"{e.id}:{Driver.Mgr.statusCode e.status}:{if e.isPrimary then 1 else 0}")

def handle (toks : List String) : Option String :=
  match toks with
  | ["validate", p, ks] => do pure (if validate (← keyset? p ks) then "ok" else "err")
  | ["handle", p, ks] => do pure (showHandle (handleOf (← keyset? p ks)))
  | ["nosecrets", p, ks] => do pure (showHandle (noSecretsHandle (← keyset? p ks)))
  | ["hassecrets", p, ks] => do pure (if hasSecrets (← keyset? p ks) then "1" else "0")
  | _ => none

end Driver.Ks
