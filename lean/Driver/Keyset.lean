import TinkVerif.Model.Keyset
import TinkVerif.Model.KeysetInfo
import Driver.Manager
/-! Line protocol for the keyset structural gate (C14/C13). -/
namespace Driver.Ks
open TinkVerif TinkVerif.Keyset

/-- key token: hasKeyData:material:status:keyId:prefixType:parseOk (numbers; booleans as 0/1) -/
def pkey? (s : String) : Option PKey :=
  match s.splitOn ":" with
  | [d, m, st, id, p, ok] => do
    pure { hasKeyData := ← Driver.bool? d, material := ← m.toNat?, status := ← st.toNat?, keyId := ← id.toNat?,
           prefixType := ← p.toNat?, parseOk := ← Driver.bool? ok }
  | _ => none

def keyset? (primary keys : String) : Option PKeyset := do
  let p ← primary.toNat?
  let ks ← if keys == "-" then some [] else (keys.splitOn ";").mapM pkey?
  pure { primaryKeyId := p, keys := ks }

def showHandle (h : Option Manager.Handle) : String :=
  match h with
  | none => "err"
  | some es => "ok " ++ ";".intercalate (es.map fun e =>
      s!"{e.id}:{Driver.Mgr.statusCode e.status}:{if e.isPrimary then 1 else 0}")

/-- key-with-material token: typeUrlHex:valueHex:material:status:keyId:prefixType ("-" = empty bytes;
    numbers are the varint values on the wire) -/
def fkey? (s : String) : Option KInfo.FKey :=
  match s.splitOn ":" with
  | [u, v, m, st, id, p] => do
    pure { typeUrl := ← bytesOfTok? u, value := ← bytesOfTok? v, material := ← m.toNat?, status := ← st.toNat?,
           keyId := ← id.toNat?, prefixType := ← p.toNat? }
  | _ => none

/-- keyset-with-material token: primary|key;key;… ("-" for no keys) -/
def fkeyset? (s : String) : Option KInfo.FKeyset :=
  match s.splitOn "|" with
  | [p, keys] => do
    let ks ← if keys == "-" then some [] else (keys.splitOn ";").mapM fkey?
    pure { primary := ← p.toNat?, keys := ks }
  | _ => none

def showFKeyset (ks : KInfo.FKeyset) : String :=
  s!"{ks.primary}|" ++ (if ks.keys.isEmpty then "-" else ";".intercalate (ks.keys.map fun k =>
    s!"{tokOfBytes k.typeUrl}:{tokOfBytes k.value}:{k.material}:{k.status}:{k.keyId}:{k.prefixType}"))

def handle (toks : List String) : Option String :=
  match toks with
  | ["validate", p, ks] => do pure (if validate (← keyset? p ks) then "ok" else "err")
  | ["handle", p, ks] => do pure (showHandle (handleOf (← keyset? p ks)))
  | ["nosecrets", p, ks] => do pure (showHandle (noSecretsHandle (← keyset? p ks)))
  | ["hassecrets", p, ks] => do pure (if hasSecrets (← keyset? p ks) then "1" else "0")
  -- C13 (Model/KeysetInfo.lean): keysets with key material; answers are hex of the wire encoding
  | ["info", t] => do pure (tokOfBytes (Wire.encode (KInfo.info (← fkeyset? t))))
  | ["ksbytes", t] => do pure (tokOfBytes (Wire.encode (KInfo.toWire (← fkeyset? t))))
  | ["encks", ct, t] => do pure (tokOfBytes (Wire.encode (KInfo.encryptedKeyset (← bytesOfTok? ct) (← fkeyset? t))))
  | ["encbin", ct] => do pure (tokOfBytes (Wire.encode (KInfo.binaryForm (← bytesOfTok? ct))))
  | ["rdks", b] => do
    match KInfo.parseKeyset (← bytesOfTok? b) with
    | none => pure "reject"
    | some ks => pure ("ok " ++ showFKeyset ks)
  | ["ctof", b] => do
    match Wire.decode (← bytesOfTok? b) with
    | none => pure "reject"
    | some m => pure ("ok " ++ tokOfBytes (KInfo.ciphertextOf m))
  | ["utf8", b] => do pure (if KInfo.utf8Valid (← bytesOfTok? b) then "1" else "0")
  | _ => none

end Driver.Ks
