import TinkVerif.Model.Sig
import TinkVerif.Prim.Ec
import TinkVerif.Prim.Der
import TinkVerif.Model.DerList
import TinkVerif.Prim.Curve25519
import TinkVerif.Prim.Rsa
import TinkVerif.Prim.Slhdsa
import TinkVerif.Model.Slh
import Driver.Sym
/-! Line protocol for classical signature verification (C03) and SLH-DSA (C16). -/
namespace Driver.Sg
open TinkVerif TinkVerif.Prim TinkVerif.Sig Driver.Sym

def ba (b : Bytes) : ByteArray := b.toByteArray
def hx (a : ByteArray) : String := tokOfBytes a.toList

def curve? : String → Option Curve
  | "P256" => some p256 | "P384" => some p384 | "P521" => some p521 | _ => none

def sigHash? : String → Option HashAlg
  | "SHA256" => some .sha256 | "SHA384" => some .sha384 | "SHA512" => some .sha512 | _ => none

/-- raw ECDSA verification with tink's two encodings. The DER branch runs the proved strict DER
    model `TinkVerif.DerList.decSig` (round trip + canonicity: `Props/C03Der.lean`). -/
def ecdsaRaw (c : Curve) (n : Nat) (a : HashAlg) (enc : String) (qx qy : Nat) (sig msg : Bytes) : Bool :=
  let digest := hash a (ba msg)
  if enc == "DER" then
    match DerList.decSig sig with
    | some (r, s) => ecdsaVerifyRaw c qx qy digest r s
    | none => false
  else
    match p1363Decode n sig with
    | some (r, s) => ecdsaVerifyRaw c qx qy digest r s
    | none => false

def b01 (b : Bool) : String := if b then "1" else "0"

/-- Message argument of the SLH-DSA `…x` ops (LARGE MESSAGES section of c16): an ordinary token or the compact
    `@<len>:<seedhex>` of `Driver.Sym.genTok?` (byte i = seed[i mod |seed|] + i + (i >> 8)), optionally followed by any
    number of `^<pos>:<hh>` (xor the byte `hh` into position `pos`; out of range = malformed). -/
def slhMsgTok? (s : String) : Option ByteArray :=
  match s.splitOn "^" with
  | [] => none
  | base :: muts => do
    let mut a := ba (← genTok? base)
    for m in muts do
      match m.splitOn ":" with
      | [pos, x] =>
        let i ← pos.toNat?
        match (← bytesOfTok? x) with
        | [v] => if i < a.size then a := a.set! i (a.get! i ^^^ v) else failure
        | _ => failure
      | _ => failure
    pure a

/-- `md idx_tree idx_leaf base_2^a(md)` of a message digest, as text. -/
def slhSplitText (p : Slhdsa.Params) (digest : ByteArray) : String :=
  let (md, t, l) := Slhdsa.digestSplit p digest
  s!"{hx digest} {hx md} {t} {l} {Driver.showNatList (Slhdsa.base2b md p.a p.k).toList}"

def handle (toks : List String) : Option String :=
  match toks with
  | ["ecdsa", cv, h, enc, v, id, qx, qy, msg, sig] => do
    let c ← curve? cv
    let n ← scalarLen cv
    let a ← sigHash? h
    let pre := outputPrefix (← Variant.ofCode? v) (← id.toNat?)
    let qx := Bytes.toNatBE (← bytesOfTok? qx)
    let qy := Bytes.toNatBE (← bytesOfTok? qy)
    pure (b01 (fullVerify pre (← Variant.ofCode? v) (ecdsaRaw c n a enc qx qy) (← bytesOfTok? sig) (← bytesOfTok? msg)))
  | ["ed25519", v, id, pub, msg, sig] => do
    let pre := outputPrefix (← Variant.ofCode? v) (← id.toNat?)
    let pub ← bytesOfTok? pub
    pure (b01 (fullVerify pre (← Variant.ofCode? v) (fun s m => ed25519Verify (ba pub) (ba m) (ba s)) (← bytesOfTok? sig) (← bytesOfTok? msg)))
  | ["pkcs1", h, v, id, n, e, msg, sig] => do
    let a ← sigHash? h
    let pre := outputPrefix (← Variant.ofCode? v) (← id.toNat?)
    let n := Bytes.toNatBE (← bytesOfTok? n)
    let e := Bytes.toNatBE (← bytesOfTok? e)
    pure (b01 (fullVerify pre (← Variant.ofCode? v) (fun s m => rsaPkcs1Verify a n e (ba m) (ba s)) (← bytesOfTok? sig) (← bytesOfTok? msg)))
  | ["pss", h, salt, v, id, n, e, msg, sig] => do
    let a ← sigHash? h
    let pre := outputPrefix (← Variant.ofCode? v) (← id.toNat?)
    let n := Bytes.toNatBE (← bytesOfTok? n)
    let e := Bytes.toNatBE (← bytesOfTok? e)
    let salt ← salt.toNat?
    pure (b01 (fullVerify pre (← Variant.ofCode? v) (fun s m => rsaPssVerify a salt n e (ba m) (ba s)) (← bytesOfTok? sig) (← bytesOfTok? msg)))
  -- strict DER: the proved List model (Model/DerList.lean), cross-checked with the ByteArray reference
  | ["der", sig] => do
    let sig ← bytesOfTok? sig
    let m := DerList.decSig sig
    if m != derDecodeEcdsaStrict (ba sig) then pure "MODEL-REFERENCE-MISMATCH"
    else match m with
      | some (r, s) => pure s!"ok {r} {s}"
      | none => pure "err"
  | ["derenc", r, s] => do
    let e := DerList.encSig (← r.toNat?) (← s.toNat?)
    pure (if e == (derEncodeEcdsa (← r.toNat?) (← s.toNat?)).toList then tokOfBytes e else "MODEL-REFERENCE-MISMATCH")
  -- SLH-DSA (FIPS 205)
  | ["slhkeygen", name, skSeed, skPrf, pkSeed] => do
    let p ← Slhdsa.Params.ofName? name
    let (sk, pk) := Slhdsa.keyGenInternal p (ba (← bytesOfTok? skSeed)) (ba (← bytesOfTok? skPrf)) (ba (← bytesOfTok? pkSeed))
    pure s!"ok {hx sk} {hx pk}"
  | ["slhsign", name, sk, msg, addrnd] => do
    let p ← Slhdsa.Params.ofName? name
    let sig := Slhdsa.signInternal p (ba (← bytesOfTok? msg)) (ba (← bytesOfTok? sk)) (ba (← bytesOfTok? addrnd))
    pure (if sig.size == 0 then "err" else s!"ok {hx sig}")
  | ["slhverify", name, pk, msg, sig] => do
    let p ← Slhdsa.Params.ofName? name
    pure (b01 (Slhdsa.verifyInternal p (ba (← bytesOfTok? msg)) (ba (← bytesOfTok? sig)) (ba (← bytesOfTok? pk))))
  | ["slhfmt", ctx, msg] => do
    match Slhdsa.formatMessage (ba (← bytesOfTok? ctx)) (ba (← bytesOfTok? msg)) with
    | some m => pure s!"ok {hx m}"
    | none => pure "err"
  -- support functions: the proved List models (Model/Slh.lean), cross-checked with the reference
  | ["slhtoint", b] => do
    let b ← bytesOfTok? b
    let m := Slh.toInt b
    pure (if m == Slhdsa.toInt (ba b) then toString m else "MODEL-REFERENCE-MISMATCH")
  | ["slhtobyte", x, n] => do
    let r := Slh.toByte (← x.toNat?) (← n.toNat?)
    pure (if r == (Slhdsa.toByte (← x.toNat?) (← n.toNat?)).toList then tokOfBytes r else "MODEL-REFERENCE-MISMATCH")
  | ["slhbase2b", x, b, outLen] => do
    let xb ← bytesOfTok? x
    let r := Slh.base2b xb (← b.toNat?) (← outLen.toNat?)
    pure (if r == (Slhdsa.base2b (ba xb) (← b.toNat?) (← outLen.toNat?)).toList then Driver.showNatList r else "MODEL-REFERENCE-MISMATCH")
  | ["slhsplit", name, digest] => do
    let p ← Slhdsa.Params.ofName? name
    let (md, t, l) := Slhdsa.digestSplit p (ba (← bytesOfTok? digest))
    pure s!"{hx md} {t} {l}"
  -- ---------- the external interface (Algorithms 22 / 24) with compact message tokens: LARGE MESSAGES of c16 ----------
  | ["slhverifyx", name, pk, ctx, msg, sig] => do
    let p ← Slhdsa.Params.ofName? name
    pure (b01 (Slhdsa.verify p (← slhMsgTok? msg) (ba (← bytesOfTok? sig)) (ba (← bytesOfTok? ctx)) (ba (← bytesOfTok? pk))))
  | ["slhsignx", name, sk, ctx, msg, addrnd] => do
    let p ← Slhdsa.Params.ofName? name
    match Slhdsa.sign p (← slhMsgTok? msg) (ba (← bytesOfTok? ctx)) (ba (← bytesOfTok? sk)) (ba (← bytesOfTok? addrnd)) with
    | some sig => pure (if sig.size == 0 then "err" else s!"ok {hx sig}")
    | none => pure "err"
  -- the message-dependent part of slh_sign: R = PRF_msg(SK.prf, addrnd, M'), digest = H_msg(R, PK.seed, PK.root, M') and its split
  | ["slhdigestx", name, sk, addrnd, ctx, msg] => do
    let p ← Slhdsa.Params.ofName? name
    let sk := ba (← bytesOfTok? sk)
    let addrnd := ba (← bytesOfTok? addrnd)
    let n := p.n
    if sk.size ≠ 4 * n ∨ addrnd.size ≠ n then pure "err" else
    match Slhdsa.formatMessage (ba (← bytesOfTok? ctx)) (← slhMsgTok? msg) with
    | none => pure "err"
    | some m' =>
      let hf := p.hashFamily
      let r := hf.PRFmsg (sk.extract n (2 * n)) addrnd m'
      pure s!"ok {hx r} {slhSplitText p (hf.Hmsg r (sk.extract (2 * n) (3 * n)) (sk.extract (3 * n) (4 * n)) m')}"
  -- the message-dependent part of slh_verify: digest = H_msg(R, PK.seed, PK.root, M') for a given R, and its split
  | ["slhhmsgx", name, pk, r, ctx, msg] => do
    let p ← Slhdsa.Params.ofName? name
    let pk := ba (← bytesOfTok? pk)
    let r := ba (← bytesOfTok? r)
    let n := p.n
    if pk.size ≠ 2 * n ∨ r.size ≠ n then pure "err" else
    match Slhdsa.formatMessage (ba (← bytesOfTok? ctx)) (← slhMsgTok? msg) with
    | none => pure "err"
    | some m' => pure s!"ok {slhSplitText p (p.hashFamily.Hmsg r (pk.extract 0 n) (pk.extract n (2 * n)) m')}"
  | _ => none

end Driver.Sg
