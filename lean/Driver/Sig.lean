import TinkVerif.Model.Sig
import TinkVerif.Prim.Ec
import TinkVerif.Prim.Der
import TinkVerif.Model.DerList
import TinkVerif.Prim.Curve25519
import TinkVerif.Prim.Rsa
import TinkVerif.Prim.Slhdsa
import TinkVerif.Model.Slh
import Driver.Sym
/-! Line protocol for classical signature verification (C03) and SLH-DSA (C16). -/
namespace Driver.Sg
open TinkVerif TinkVerif.Prim TinkVerif.Sig Driver.Sym

def ba (b : Bytes) : ByteArray := b.toByteArray
def hx (a : ByteArray) : String := tokOfBytes a.toList

def curve? : String → Option Curve
  | "P256" => some p256 | "P384" => some p384 | "P521" => some p521 | _ => none

def sigHash? : String → Option HashAlg
  | "SHA256" => some .sha256 | "SHA384" => some .sha384 | "SHA512" => some .sha512 | _ => none

/-- raw ECDSA verification with tink's two encodings. The DER branch runs the proved strict DER
    model `TinkVerif.DerList.decSig` (round trip + canonicity: `Props/C03Der.lean`). -/
def ecdsaRaw (c : Curve) (n : Nat) (a : HashAlg) (enc : String) (qx qy : Nat) (sig msg : Bytes) : Bool :=
  let digest := hash a (ba msg)
  if enc == "DER" then
    match DerList.decSig sig with
    | some (r, s) => ecdsaVerifyRaw c qx qy digest r s
    | none => false
  else
    match p1363Decode n sig with
    | some (r, s) => ecdsaVerifyRaw c qx qy digest r s
    | none => false

def b01 (b : Bool) : String := if b then "1" else "0"

def handle (toks : List String) : Option String :=
  match toks with
  | ["ecdsa", cv, h, enc, v, id, qx, qy, msg, sig] => do
    let c ← curve? cv
    let n ← scalarLen cv
    let a ← sigHash? h
    let pre := outputPrefix (← Variant.ofCode? v) (← id.toNat?)
    let qx := Bytes.toNatBE (← bytesOfTok? qx)
    let qy := Bytes.toNatBE (← bytesOfTok? qy)
    pure (b01 (fullVerify pre (← Variant.ofCode? v) (ecdsaRaw c n a enc qx qy) (← bytesOfTok? sig) (← bytesOfTok? msg)))
  | ["ed25519", v, id, pub, msg, sig] => do
    let pre := outputPrefix (← Variant.ofCode? v) (← id.toNat?)
    let pub ← bytesOfTok? pub
    pure (b01 (fullVerify pre (← Variant.ofCode? v) (fun s m => ed25519Verify (ba pub) (ba m) (ba s)) (← bytesOfTok? sig) (← bytesOfTok? msg)))
  | ["pkcs1", h, v, id, n, e, msg, sig] => do
    let a ← sigHash? h
    let pre := outputPrefix (← Variant.ofCode? v) (← id.toNat?)
    let n := Bytes.toNatBE (← bytesOfTok? n)
    let e := Bytes.toNatBE (← bytesOfTok? e)
    pure (b01 (fullVerify pre (← Variant.ofCode? v) (fun s m => rsaPkcs1Verify a n e (ba m) (ba s)) (← bytesOfTok? sig) (← bytesOfTok? msg)))
  | ["pss", h, salt, v, id, n, e, msg, sig] => do
    let a ← sigHash? h
    let pre := outputPrefix (← Variant.ofCode? v) (← id.toNat?)
    let n := Bytes.toNatBE (← bytesOfTok? n)
    let e := Bytes.toNatBE (← bytesOfTok? e)
    let salt ← salt.toNat?
    pure (b01 (fullVerify pre (← Variant.ofCode? v) (fun s m => rsaPssVerify a salt n e (ba m) (ba s)) (← bytesOfTok? sig) (← bytesOfTok? msg)))
  -- strict DER: the proved List model (Model/DerList.lean), cross-checked with the ByteArray reference
  | ["der", sig] => do
    let sig ← bytesOfTok? sig
    let m := DerList.decSig sig
    if m != derDecodeEcdsaStrict (ba sig) then pure "MODEL-REFERENCE-MISMATCH"
    else match m with
      | some (r, s) => pure s!"ok {r} {s}"
      | none => pure "err"
  | ["derenc", r, s] => do
    let e := DerList.encSig (← r.toNat?) (← s.toNat?)
    pure (if e == (derEncodeEcdsa (← r.toNat?) (← s.toNat?)).toList then tokOfBytes e else "MODEL-REFERENCE-MISMATCH")
  -- SLH-DSA (FIPS 205)
  | ["slhkeygen", name, skSeed, skPrf, pkSeed] => do
    let p ← Slhdsa.Params.ofName? name
    let (sk, pk) := Slhdsa.keyGenInternal p (ba (← bytesOfTok? skSeed)) (ba (← bytesOfTok? skPrf)) (ba (← bytesOfTok? pkSeed))
    pure s!"ok {hx sk} {hx pk}"
  | ["slhsign", name, sk, msg, addrnd] => do
    let p ← Slhdsa.Params.ofName? name
    let sig := Slhdsa.signInternal p (ba (← bytesOfTok? msg)) (ba (← bytesOfTok? sk)) (ba (← bytesOfTok? addrnd))
    pure (if sig.size == 0 then "err" else s!"ok {hx sig}")
  | ["slhverify", name, pk, msg, sig] => do
    let p ← Slhdsa.Params.ofName? name
    pure (b01 (Slhdsa.verifyInternal p (ba (← bytesOfTok? msg)) (ba (← bytesOfTok? sig)) (ba (← bytesOfTok? pk))))
  | ["slhfmt", ctx, msg] => do
    match Slhdsa.formatMessage (ba (← bytesOfTok? ctx)) (ba (← bytesOfTok? msg)) with
    | some m => pure s!"ok {hx m}"
    | none => pure "err"
  -- support functions: the proved List models (Model/Slh.lean), cross-checked with the reference
  | ["slhtoint", b] => do
    let b ← bytesOfTok? b
    let m := Slh.toInt b
    pure (if m == Slhdsa.toInt (ba b) then toString m else "MODEL-REFERENCE-MISMATCH")
  | ["slhtobyte", x, n] => do
    let r := Slh.toByte (← x.toNat?) (← n.toNat?)
    pure (if r == (Slhdsa.toByte (← x.toNat?) (← n.toNat?)).toList then tokOfBytes r else "MODEL-REFERENCE-MISMATCH")
  | ["slhbase2b", x, b, outLen] => do
    let xb ← bytesOfTok? x
    let r := Slh.base2b xb (← b.toNat?) (← outLen.toNat?)
    pure (if r == (Slhdsa.base2b (ba xb) (← b.toNat?) (← outLen.toNat?)).toList then Driver.showNatList r else "MODEL-REFERENCE-MISMATCH")
  | ["slhsplit", name, digest] => do
    let p ← Slhdsa.Params.ofName? name
    let (md, t, l) := Slhdsa.digestSplit p (ba (← bytesOfTok? digest))
    pure s!"{hx md} {t} {l}"
  | _ => none

end Driver.Sg
