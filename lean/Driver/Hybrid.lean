import TinkVerif.Model.Hpke
import TinkVerif.Prim.Ec
import TinkVerif.Prim.EcP224
import TinkVerif.Prim.Curve25519
import TinkVerif.Prim.Keccak
import Driver.Aead
import Driver.Sig
/-! Line protocol for hybrid encryption (C06): HPKE base mode and ECIES-AEAD-HKDF, computed by the Lean
    model over the reference curves / hashes / AEADs. -/
namespace Driver.Hy
open TinkVerif TinkVerif.Prim TinkVerif.Hpke Driver.Sym Driver.AeadD

def kdfOf? : String → Option (Kdf × Nat)
  | "SHA256" => some ({ mac := hmacM .sha256, hashLen := 32 }, 1)
  | "SHA384" => some ({ mac := hmacM .sha384, hashLen := 48 }, 2)
  | "SHA512" => some ({ mac := hmacM .sha512, hashLen := 64 }, 3)
  | _ => none

def noRaw : Aead.Raw := { nonceLen := 12, overhead := 16, sealF := fun _ _ _ => [], openF := fun _ _ _ => none }

/-- (aead id, key length, nonce length, raw AEAD under a key) -/
def aeadOf? : String → Option (Nat × Nat × Nat × (Bytes → Aead.Raw))
  | "AES128GCM" => some (1, 16, 12, fun k => (gcmRaw? k).getD noRaw)
  | "AES256GCM" => some (2, 32, 12, fun k => (gcmRaw? k).getD noRaw)
  | "CHACHA" => some (3, 32, 12, fun k => chachaRaw k)
  | _ => none

def curveOf? : String → Option (Curve × Nat × Kdf)   -- curve, kem id, the KEM's own KDF
  | "P256" => some (p256, 0x10, { mac := hmacM .sha256, hashLen := 32 })
  | "P384" => some (p384, 0x11, { mac := hmacM .sha384, hashLen := 48 })
  | "P521" => some (p521, 0x12, { mac := hmacM .sha512, hashLen := 64 })
  | _ => none

def pointBytes (c : Curve) (p : Point) : Bytes := (c.pointEncodeUncompressed p).toList

/-- DHKEM over a NIST curve -/
def nistKem (c : Curve) (kemId : Nat) (k : Kdf) : Kem :=
  { id := kemId, nEnc := 2 * c.byteLen + 1,
    encapWith := fun eph pkR =>
      match c.pointDecode (ba pkR) with
      | some (.affine qx qy) =>
        let d := Bytes.toNatBE eph
        match ecdh c d qx qy with
        | some dh =>
          let enc := pointBytes c (c.baseMul d)
          (dhkemSecret k kemId dh.toList enc pkR).map fun ss => (ss, enc)
        | none => none
      | _ => none
    decap := fun enc skR =>
      if enc.length ≠ 2 * c.byteLen + 1 ∨ enc.head? ≠ some 4 then none else
      match c.pointDecode (ba enc) with
      | some (.affine qx qy) =>
        let d := Bytes.toNatBE skR
        match ecdh c d qx qy with
        | some dh => dhkemSecret k kemId dh.toList enc (pointBytes c (c.baseMul d))
        | none => none
      | _ => none }

def x25519Kem : Kem :=
  let k : Kdf := { mac := hmacM .sha256, hashLen := 32 }
  { id := 0x20, nEnc := 32,
    encapWith := fun eph pkR =>
      match x25519Checked (ba eph) (ba pkR) with
      | some dh =>
        let enc := (x25519Base (ba eph)).toList
        (dhkemSecret k 0x20 dh.toList enc pkR).map fun ss => (ss, enc)
      | none => none
    decap := fun enc skR =>
      match x25519Checked (ba skR) (ba enc) with
      | some dh => dhkemSecret k 0x20 dh.toList enc (x25519Base (ba skR)).toList
      | none => none }

/-- ML-KEM: the shared secret comes from Go's crypto/mlkem (declared trusted) -/
def mlkemKem (kemId nEnc : Nat) (ss : Bytes) : Kem :=
  { id := kemId, nEnc := nEnc, encapWith := fun _ _ => none, decap := fun _ _ => some ss }

/-- X-Wing: ML-KEM half supplied by the harness; X25519 half, key expansion and combiner computed here -/
def xwingKem (ssM : Bytes) : Kem :=
  { id := 0x647a, nEnc := 1120, encapWith := fun _ _ => none,
    decap := fun enc skR =>
      if enc.length ≠ 1120 ∨ skR.length ≠ 32 then none else
      let (_, skX) := xwingExpand (fun m n => (shake256 (ba m) n).toList) skR
      let ctX := enc.drop 1088
      match x25519Checked (ba skX) (ba ctX) with
      | some ssX => some (xwingCombine (fun m => (sha3_256 (ba m)).toList) ssM ssX.toList ctX (x25519Base (ba skX)).toList)
      | none => none }

def kemOf? (name : String) (aux : Option Bytes) : Option Kem :=
  match name with
  | "X25519" => some x25519Kem
  | "XWING" => aux.map xwingKem
  | "MLKEM768" => aux.map (mlkemKem 0x41 1088)
  | "MLKEM1024" => aux.map (mlkemKem 0x42 1568)
  | _ => (curveOf? name).map fun (c, id, k) => nistKem c id k

def suite? (kem kdf aead : String) (aux : Option Bytes) : Option Suite := do
  let km ← kemOf? kem aux
  let (kd, kdfId) ← kdfOf? kdf
  let (aeadId, keyLen, nonceLen, raw) ← aeadOf? aead
  pure { kem := km, kdf := kd, kdfId := kdfId, aeadId := aeadId, keyLen := keyLen, nonceLen := nonceLen, aead := raw }

/-- DEM of ECIES: key length and (enc with explicit randomness, dec), all with RAW framing and empty ad -/
def dem? : List String → Option (Nat × (Bytes → Bytes → Bytes → Bytes) × (Bytes → Bytes → Option Bytes) × List String)
  | "gcm" :: klen :: rest => do
    let n ← klen.toNat?
    pure (n, (fun key rnd pt => match gcmRaw? key with
                | some r => ({ pre := [], raw := r } : Aead.Full).encryptWith rnd pt []
                | none => []),
             (fun key ct => match gcmRaw? key with
                | some r => ({ pre := [], raw := r } : Aead.Full).decrypt ct []
                | none => none), rest)
  | "ctrhmac" :: al :: hl :: h :: iv :: tag :: rest => do
    let al ← al.toNat?; let hl ← hl.toNat?; let a ← hashAlg? h; let iv ← iv.toNat?; let tag ← tag.toNat?
    let mk (key : Bytes) : Option Aead.EtM := (aesE? (key.take al)).map fun E =>
      { pre := [], E := E, mac := hmacM a (key.drop al), ivLen := iv, tagLen := tag }
    pure (al + hl, (fun key rnd pt => match mk key with | some m => m.encryptWith rnd pt [] | none => []),
                   (fun key ct => match mk key with | some m => m.decrypt ct [] | none => none), rest)
  | "siv" :: rest =>
    some (64, (fun key _ pt => match aesE? (key.take 32), aesE? (key.drop 32) with
                | some e1, some e2 => Siv.encrypt e1 e2 [] pt []
                | _, _ => []),
              (fun key ct => match aesE? (key.take 32), aesE? (key.drop 32) with
                | some e1, some e2 => Siv.decrypt e1 e2 [] ct []
                | _, _ => none), rest)
  | _ => none

/-- point encodings of hybrid/subtle: U = uncompressed (04‖x‖y), C = compressed, L = legacy crunchy (x‖y) -/
def pointEnc (c : Curve) (fmt : String) (p : Point) : Bytes :=
  match fmt with
  | "C" => (c.pointEncodeCompressed p).toList
  | "L" => (pointBytes c p).drop 1
  | _ => pointBytes c p

def pointDec (c : Curve) (fmt : String) (b : Bytes) : Option Point :=
  match fmt with
  | "L" => if b.length ≠ 2 * c.byteLen then none else c.pointDecode (ba (4 :: b))
  | "C" => if b.length ≠ c.byteLen + 1 ∨ (b.head? ≠ some 2 ∧ b.head? ≠ some 3) then none else c.pointDecode (ba b)
  | _ => if b.length ≠ 2 * c.byteLen + 1 ∨ b.head? ≠ some 4 then none else c.pointDecode (ba b)

def headerSize (c : Curve) (fmt : String) : Nat :=
  match fmt with | "C" => c.byteLen + 1 | "L" => 2 * c.byteLen | _ => 2 * c.byteLen + 1

/-! ### hybrid/subtle driven directly (every curve `subtle.GetCurve` admits, P-224 included)

`curveS?` / `pointDecG` are the P-224-capable counterparts of `curveOf?` / `pointDec`: compressed points
are decompressed with the general square root of `TinkVerif.Prim.EcP224` (the P-224 prime is 1 mod 4). -/

def curveS? : String → Option Curve
  | "P224" => some p224
  | "P256" => some p256
  | "P384" => some p384
  | "P521" => some p521
  | _ => none

def pointDecG (c : Curve) (fmt : String) (b : Bytes) : Option Point :=
  match fmt with
  | "L" => if b.length ≠ 2 * c.byteLen then none else c.pointDecodeG (ba (4 :: b))
  | "C" => if b.length ≠ c.byteLen + 1 ∨ (b.head? ≠ some 2 ∧ b.head? ≠ some 3) then none else c.pointDecodeG (ba b)
  | "U" => if b.length ≠ 2 * c.byteLen + 1 ∨ b.head? ≠ some 4 then none else c.pointDecodeG (ba b)
  | _ => none

/-- `ECIESHKDFRecipientKem.decapsulate`: PointDecode, ComputeSharedSecret, HKDF over kem ‖ x(d·P) -/
def kemKeyG (c : Curve) (a : HashAlg) (fmt : String) (salt info : Bytes) (keyLen d : Nat) (kemBytes : Bytes) : Option Bytes :=
  match pointDecG c fmt kemBytes with
  | some (.affine qx qy) =>
    match ecdh c d qx qy with
    | some dh => eciesKey (hmacM a) a.digestLen kemBytes dh.toList salt info keyLen
    | none => none
  | _ => none

def fixedTok (c : Curve) (x : Nat) : String := tokOfBytes (i2osp x c.byteLen).toList

def handle (toks : List String) : Option String :=
  match toks with
  | ["hpkedec", kem, kdf, aead, v, id, skR, ct, info, aux] => do
    let aux ← optBytes? aux
    match suite? kem kdf aead aux with
    | none => pure "err"
    | some s =>
      let pre := outputPrefix (← Variant.ofCode? v) (← id.toNat?)
      let skR ← bytesOfTok? skR
      let info ← bytesOfTok? info
      pure (okR (fullOpen pre (fun c => open_ s skR c info) (← bytesOfTok? ct)))
  | ["hpkeenc", kem, kdf, aead, v, id, pkR, eph, pt, info] => do
    match suite? kem kdf aead none with
    | none => pure "err"
    | some s =>
      let pre := outputPrefix (← Variant.ofCode? v) (← id.toNat?)
      pure (okB (fullSealWith pre (sealWith s (← bytesOfTok? eph) (← bytesOfTok? pkR) (← bytesOfTok? pt) (← bytesOfTok? info))))
  | "eciesdec" :: cv :: h :: fmt :: rest => do
    let (c, _, _) ← curveOf? cv
    let a ← hashAlg? h
    let (keyLen, _, demDec, rest) ← dem? rest
    match rest with
    | [salt, v, id, d, ct, info] =>
      let pre := outputPrefix (← Variant.ofCode? v) (← id.toNat?)
      let salt ← bytesOfTok? salt
      let info ← bytesOfTok? info
      let d := Bytes.toNatBE (← bytesOfTok? d)
      let keyOf := fun (kemBytes : Bytes) =>
        match pointDec c fmt kemBytes with
        | some (.affine qx qy) =>
          match ecdh c d qx qy with
          | some dh => eciesKey (hmacM a) a.digestLen kemBytes dh.toList salt info keyLen
          | none => none
        | _ => none
      pure (okR (fullOpen pre (eciesOpen (headerSize c fmt) keyOf demDec) (← bytesOfTok? ct)))
    | _ => none
  | "eciesenc" :: cv :: h :: fmt :: rest => do
    let (c, _, _) ← curveOf? cv
    let a ← hashAlg? h
    let (keyLen, demEnc, _, rest) ← dem? rest
    match rest with
    | [salt, v, id, pk, eph, rnd, pt, info] =>
      let pre := outputPrefix (← Variant.ofCode? v) (← id.toNat?)
      let salt ← bytesOfTok? salt
      let info ← bytesOfTok? info
      let e := Bytes.toNatBE (← bytesOfTok? eph)
      match pointDec c "U" (← bytesOfTok? pk) with
      | some (.affine qx qy) =>
        match ecdh c e qx qy with
        | some dh =>
          let kemBytes := pointEnc c fmt (c.baseMul e)
          match eciesKey (hmacM a) a.digestLen kemBytes dh.toList salt info keyLen with
          | some key => pure s!"ok {tokOfBytes (pre ++ eciesSeal kemBytes (demEnc key (← bytesOfTok? rnd)) (← bytesOfTok? pt))}"
          | none => pure "err"
        | none => pure "err"
      | _ => pure "err"
    | _ => none
  | ["xwingpub", sk] => do
    -- X25519 half of the public key and the ML-KEM seed derived from a 32-byte X-Wing secret key
    let (seedM, skX) := xwingExpand (fun m n => (shake256 (ba m) n).toList) (← bytesOfTok? sk)
    pure s!"{tokOfBytes seedM} {tokOfBytes (x25519Base (ba skX)).toList}"
  -- hybrid/subtle, all four NIST curves (see `curveS?`)
  | ["sptdec", cv, fmt, enc] => do
    -- subtle.PointDecode
    let c ← curveS? cv
    match pointDecG c fmt (← bytesOfTok? enc) with
    | some (.affine x y) => pure s!"ok {fixedTok c x} {fixedTok c y}"
    | _ => pure "reject"
  | ["sptenc", cv, fmt, x, y] => do
    -- subtle.PointEncode of the affine point (x, y), coordinates as big-endian integers of any length
    let c ← curveS? cv
    let x := Bytes.toNatBE (← bytesOfTok? x)
    let y := Bytes.toNatBE (← bytesOfTok? y)
    if fmt ≠ "U" ∧ fmt ≠ "C" ∧ fmt ≠ "L" then none
    else if c.onCurve x y then pure s!"ok {tokOfBytes (pointEnc c fmt (.affine x y))}" else pure "reject"
  | ["sdh", cv, d, x, y] => do
    -- subtle.ComputeSharedSecret: x coordinate of d·(x, y); off-curve points and the point at infinity are errors
    let c ← curveS? cv
    let d := Bytes.toNatBE (← bytesOfTok? d)
    let x := Bytes.toNatBE (← bytesOfTok? x)
    let y := Bytes.toNatBE (← bytesOfTok? y)
    pure (okR ((ecdh c d x y).map (·.toList)))
  | ["spub", cv, d] => do
    -- subtle.GetECPrivateKey: the public point d·G
    let c ← curveS? cv
    match c.baseMul (Bytes.toNatBE (← bytesOfTok? d)) with
    | .affine x y => pure s!"ok {fixedTok c x} {fixedTok c y}"
    | .infinity => pure "infinity"
  | ["skem", cv, h, fmt, salt, d, kem, info, keyLen] => do
    -- the symmetric key ECIESHKDFRecipientKem derives from the KEM bytes
    let c ← curveS? cv
    let a ← hashAlg? h
    pure (okR (kemKeyG c a fmt (← bytesOfTok? salt) (← bytesOfTok? info) (← keyLen.toNat?)
      (Bytes.toNatBE (← bytesOfTok? d)) (← bytesOfTok? kem)))
  | "seciesdec" :: cv :: h :: fmt :: rest => do
    let c ← curveS? cv
    let a ← hashAlg? h
    let (keyLen, _, demDec, rest) ← dem? rest
    match rest with
    | [salt, v, id, d, ct, info] =>
      let pre := outputPrefix (← Variant.ofCode? v) (← id.toNat?)
      let salt ← bytesOfTok? salt
      let info ← bytesOfTok? info
      let d := Bytes.toNatBE (← bytesOfTok? d)
      pure (okR (fullOpen pre (eciesOpen (headerSize c fmt) (kemKeyG c a fmt salt info keyLen d) demDec) (← bytesOfTok? ct)))
    | _ => none
  | "seciesenc" :: cv :: h :: fmt :: rest => do
    let c ← curveS? cv
    let a ← hashAlg? h
    let (keyLen, demEnc, _, rest) ← dem? rest
    match rest with
    | [salt, v, id, pk, eph, rnd, pt, info] =>
      let pre := outputPrefix (← Variant.ofCode? v) (← id.toNat?)
      let salt ← bytesOfTok? salt
      let info ← bytesOfTok? info
      let e := Bytes.toNatBE (← bytesOfTok? eph)
      match pointDecG c "U" (← bytesOfTok? pk) with
      | some (.affine qx qy) =>
        match ecdh c e qx qy with
        | some dh =>
          let kemBytes := pointEnc c fmt (c.baseMul e)
          match eciesKey (hmacM a) a.digestLen kemBytes dh.toList salt info keyLen with
          | some key => pure s!"ok {tokOfBytes (pre ++ eciesSeal kemBytes (demEnc key (← bytesOfTok? rnd)) (← bytesOfTok? pt))}"
          | none => pure "err"
        | none => pure "err"
      | _ => pure "err"
    | _ => none
  | _ => none

end Driver.Hy
