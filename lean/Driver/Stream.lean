import TinkVerif.Model.Stream
import Driver.Util
/-! Line protocol for the streaming state machines (C07), with the toy segment cipher that the
    Go harness implements identically. -/
namespace Driver.Strm
open TinkVerif TinkVerif.Stream

def fnv32 (b : Bytes) : UInt32 :=
  b.foldl (fun h x => (h ^^^ x.toUInt32) * 16777619) 2166136261

def toyKeystream (nonce : Bytes) (n : Nat) : Bytes :=
  (List.range n).map fun j => (nonce.getD (j % nonce.length) 0) + UInt8.ofNat (j * 7 % 256)

def toyEnc (nonce seg : Bytes) : Bytes :=
  Bytes.xor seg (toyKeystream nonce seg.length) ++ Bytes.be32 (fnv32 (nonce ++ seg)).toNat

def toyDec (nonce ct : Bytes) : Option Bytes :=
  if ct.length < 4 then none else
  let body := ct.take (ct.length - 4)
  let seg := Bytes.xor body (toyKeystream nonce body.length)
  if Bytes.be32 (fnv32 (nonce ++ seg)).toNat = ct.drop (ct.length - 4) then some seg else none

def toyCipher (nonceSize : Nat) (pre : Bytes) : Cipher :=
  { enc := fun i last seg => match segmentNonce nonceSize pre i last with
      | some n => toyEnc n seg | none => []
    dec := fun i last ct => match segmentNonce nonceSize pre i last with
      | some n => toyDec n ct | none => none }

structure St where
  P : Params := { ptSeg := 1, off := 0, overhead := 4 }
  C : Cipher := toyCipher 12 []
  fault : Fault := none
  w : WState := WState.init
  errAtEnd : Bool := false
  r : RState := RState.init []

instance : Inhabited St := ⟨{}⟩

def werr : WErr → String
  | .closed => "closed" | .tooMany => "toomany" | .io => "io"

def rout : ROut → String
  | .data d => s!"data {tokOfBytes d}" | .eof => "eof"
  | .err .io => "err io" | .err .tooMany => "err toomany" | .err .auth => "err auth"

def handle (st : St) (toks : List String) : Option (St × String) :=
  match toks with
  | ["wnew", ptSeg, off, nsz, pre, fail] => do
    let ptSeg ← ptSeg.toNat?; let off ← off.toNat?; let nsz ← nsz.toNat?
    let pre ← bytesOfTok? pre
    let fail ← optNat? fail
    -- NewWriter: `NonceSize - len(NoncePrefix) < 5` is rejected (signed arithmetic)
    if nsz < pre.length + 5 then pure (st, "err nonce") else
    pure ({ st with P := { ptSeg, off, overhead := 4 }, C := toyCipher nsz pre, fault := fail, w := WState.init }, "ok")
  | ["write", p] => do
    let p ← bytesOfTok? p
    let (w', n, e) := write st.P st.C st.fault st.w p
    pure ({ st with w := w' }, s!"{n} {match e with | none => "ok" | some e => werr e}")
  | ["close"] =>
    let (w', e) := close st.C st.fault st.w
    some ({ st with w := w' }, match e with | none => "ok" | some e => werr e)
  | ["sink"] => some (st, tokOfBytes st.w.output)
  | ["rnew", ptSeg, off, nsz, pre, eae, src] => do
    let ptSeg ← ptSeg.toNat?; let off ← off.toNat?; let nsz ← nsz.toNat?
    let pre ← bytesOfTok? pre
    let eae ← bool? eae
    let src ← bytesOfTok? src
    if nsz < pre.length + 5 then pure (st, "err nonce") else
    pure ({ st with P := { ptSeg, off, overhead := 4 }, C := toyCipher nsz pre, errAtEnd := eae, r := RState.init src }, "ok")
  | ["read", cap] => do
    let cap ← cap.toNat?
    let (r', o) := read st.P st.C st.errAtEnd st.r cap
    pure ({ st with r := r' }, rout o)
  | ["encode", ptSeg, off, nsz, pre, pt] => do
    -- the documented format, computed from the specification function (not the state machine)
    let ptSeg ← ptSeg.toNat?; let off ← off.toNat?; let nsz ← nsz.toNat?
    let pre ← bytesOfTok? pre
    let pt ← bytesOfTok? pt
    pure (st, tokOfBytes (encodeStream { ptSeg, off, overhead := 4 } (toyCipher nsz pre) pt))
  | _ => none

end Driver.Strm
