import TinkVerif.Model.Heap
import Driver.Util
/-! Line protocol for the slice/heap model (C19). -/
namespace Driver.Hp
open TinkVerif TinkVerif.Heap

def handle (toks : List String) : Option String :=
  match toks with
  | ["append", arr, off, len, cap, bs] => do
    -- one array `arr`; slice (off, len, cap) of it; append bs. Answer: inplace|realloc, the array afterwards, the result value
    let a ← bytesOfTok? arr
    let s : Slice := { arr := 0, off := ← off.toNat?, len := ← len.toNat?, cap := ← cap.toNat? }
    let bs ← bytesOfTok? bs
    if s.len > s.cap ∨ s.off + s.cap > a.length then pure "invalid-slice" else
    let (h', r) := append [a] s bs
    pure s!"{if r.arr == 0 then "inplace" else "realloc"} {tokOfBytes (Heap.array h' 0)} {tokOfBytes (Heap.read h' r)}"
  | ["concat", arr, off, len, cap, bs] => do
    let a ← bytesOfTok? arr
    let s : Slice := { arr := 0, off := ← off.toNat?, len := ← len.toNat?, cap := ← cap.toNat? }
    let bs ← bytesOfTok? bs
    if s.len > s.cap ∨ s.off + s.cap > a.length then pure "invalid-slice" else
    let (h1, t) := alloc [a] bs 0
    let (h', r) := concat h1 [s, t]
    pure s!"{if r.arr == 0 then "inplace" else "realloc"} {tokOfBytes (Heap.array h' 0)} {tokOfBytes (Heap.read h' r)}"
  | ["copy", arr, off, len, src] => do
    let a ← bytesOfTok? arr
    let src ← bytesOfTok? src
    let d : Slice := { arr := 0, off := ← off.toNat?, len := ← len.toNat?, cap := ← len.toNat? }
    if d.off + d.len > a.length then pure "invalid-slice" else
    let (h1, t) := alloc [a] src 0
    pure (tokOfBytes (Heap.array (copy h1 d t) 0))
  | "contract" :: _ =>
    -- the C19 contract: every API operation is `Clean` — no caller-visible array written, nothing retained, nothing aliased
    pure "clean"
  | _ => none

end Driver.Hp
