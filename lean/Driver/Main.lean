import Driver.Manager
import Driver.Stream
import Driver.Stream2
import Driver.Sym
import Driver.Aead
import Driver.Keyset
import Driver.Wrap
import Driver.Jwt
import Driver.Mldsa
import Driver.Sig
import Driver.Hybrid
import Driver.Derive
import Driver.Proto
import Driver.Rand
import Driver.Heap
import Driver.BigInt
/-!
  `tvdrv`: one line in, one line out. The first token selects the model.
  Unknown or malformed lines answer `bad-op` (never a default).
-/
open TinkVerif

structure DState where
  mgr : Driver.Mgr.St := {}
  strm : Driver.Strm.St := {}
  wrap : Driver.Wr.St := []
  jwt : Driver.Jw.St := {}

def dispatch (st : DState) (line : String) : DState × String :=
  let toks := (line.trimAscii.toString.splitOn " ").filter (· ≠ "")
  -- a leading "!" marks a property-level line (the model side is the independent reference)
  let toks := match toks with
    | t :: rest => (if t.startsWith "!" then (t.drop 1).toString else t) :: rest
    | [] => []
  match toks with
  | "M" :: rest =>
    match Driver.Mgr.handle st.mgr rest with
    | some (m, out) => ({ st with mgr := m }, out)
    | none => (st, "bad-op")
  | "S" :: rest =>
    match Driver.Strm.handle st.strm rest with
    | some (m, out) => ({ st with strm := m }, out)
    | none => (st, "bad-op")
  | "T" :: rest =>
    match Driver.Strm2.handle rest with
    | some out => (st, out)
    | none => (st, "bad-op")
  | "A" :: rest =>
    match Driver.AeadD.handle rest with
    | some out => (st, out)
    | none => (st, "bad-op")
  | "W" :: rest =>
    match Driver.Wr.handle st.wrap rest with
    | some (w, out) => ({ st with wrap := w }, out)
    | none => (st, "bad-op")
  | "J" :: rest =>
    match Driver.Jw.handle st.jwt rest with
    | some (j, out) => ({ st with jwt := j }, out)
    | none => (st, "bad-op")
  | "D" :: rest =>
    match Driver.Ml.handle rest with
    | some out => (st, out)
    | none => (st, "bad-op")
  | "G" :: rest =>
    match Driver.Sg.handle rest with
    | some out => (st, out)
    | none => (st, "bad-op")
  | "H" :: rest =>
    match Driver.Hy.handle rest with
    | some out => (st, out)
    | none => (st, "bad-op")
  | "V" :: rest =>
    match Driver.Dv.handle rest with
    | some out => (st, out)
    | none => (st, "bad-op")
  | "Q" :: _ =>
    -- C18: the model's answer for any batch of concurrent calls on a shared primitive is "every result equals
    -- the sequential one" (Props/C18 `interleave_eq_sequential`)
    (st, "seq")
  | "B" :: rest =>
    match Driver.Hp.handle rest with
    | some out => (st, out)
    | none => (st, "bad-op")
  | "R" :: rest =>
    match Driver.Rn.handle rest with
    | some out => (st, out)
    | none => (st, "bad-op")
  | "P" :: rest =>
    match Driver.Pr.handle rest with
    | some out => (st, out)
    | none => (st, "bad-op")
  | "K" :: rest =>
    match Driver.Ks.handle rest with
    | some out => (st, out)
    | none => (st, "bad-op")
  | "X" :: rest =>
    match Driver.Sym.handle rest with
    | some out => (st, out)
    | none => (st, "bad-op")
  | "N" :: rest =>
    match Driver.Bi.handle rest with
    | some out => (st, out)
    | none => (st, "bad-op")
  | _ => (st, "bad-op")

partial def loop (hIn hOut : IO.FS.Stream) (st : DState) : IO Unit := do
  let line ← hIn.getLine
  if line.isEmpty then return ()
  if line.trimAscii.toString.isEmpty then
    loop hIn hOut st
  else if line.startsWith "#" then
    -- case delimiters are echoed so that op and result streams stay aligned
    hOut.putStrLn line.trimAscii.toString
    loop hIn hOut st
  else
    let (st', out) := dispatch st line
    hOut.putStrLn out
    loop hIn hOut st'

def main : IO Unit := do
  let hIn ← IO.getStdin
  let hOut ← IO.getStdout
  loop hIn hOut {}
  hOut.flush
