import TinkVerif.Model.Aead
import TinkVerif.Prim.Gcm
import TinkVerif.Prim.ChaCha
import TinkVerif.Prim.Polyval
import Driver.Sym
/-! Line protocol for the AEAD models (C01/C02/C20), instantiated with the reference primitives. -/
namespace Driver.AeadD
open TinkVerif TinkVerif.Prim TinkVerif.Aead Driver.Sym

def ba (b : Bytes) : ByteArray := b.toByteArray

def gcmRaw? (key : Bytes) : Option Raw :=
  (AesKey.ofBytes? (ba key)).map fun k =>
    { nonceLen := 12, overhead := 16,
      sealF := fun n p a => (gcmSeal k (ba n) (ba p) (ba a)).toList,
      openF := fun n c a => (gcmOpen k (ba n) (ba c) (ba a)).map (·.toList) }

def chachaRaw (key : Bytes) : Raw :=
  { nonceLen := 12, overhead := 16,
    sealF := fun n p a => (chacha20poly1305Seal (ba key) (ba n) (ba p) (ba a)).toList,
    openF := fun n c a => (chacha20poly1305Open (ba key) (ba n) (ba c) (ba a)).map (·.toList) }

def xchachaRaw (key : Bytes) : Raw :=
  { nonceLen := 24, overhead := 16,
    sealF := fun n p a => (xchacha20poly1305Seal (ba key) (ba n) (ba p) (ba a)).toList,
    openF := fun n c a => (xchacha20poly1305Open (ba key) (ba n) (ba c) (ba a)).map (·.toList) }

def aesAny (key blk : Bytes) : Bytes :=
  match AesKey.ofBytes? (ba key) with
  | some k => (k.encryptBlock (ba blk)).toList
  | none => []

def gcmSivModel (keyLen : Nat) : GcmSiv :=
  { aes := aesAny, polyval := fun h d => (polyval (ba h) (ba d)).toList, keyLen := keyLen }

/-- a parsed AEAD configuration: encryption with explicit randomness, decryption, length of the
    random field -/
structure Cfg where
  enc : Bytes → Bytes → Bytes → Bytes
  dec : Bytes → Bytes → Option Bytes
  rndLen : Nat

/-- parse a configuration from the head of the token list; returns the rest -/
def cfg? : List String → Option (Cfg × List String)
  | "gcm" :: key :: v :: id :: rest => do
    let key ← bytesOfTok? key
    if key.length ≠ 16 ∧ key.length ≠ 32 then none else
    let raw ← gcmRaw? key
    let f : Full := { pre := outputPrefix (← Variant.ofCode? v) (← id.toNat?), raw := raw }
    pure ({ enc := f.encryptWith, dec := f.decrypt, rndLen := 12 }, rest)
  | "chacha" :: key :: v :: id :: rest => do
    let key ← bytesOfTok? key
    if key.length ≠ 32 then none else
    let f : Full := { pre := outputPrefix (← Variant.ofCode? v) (← id.toNat?), raw := chachaRaw key }
    pure ({ enc := f.encryptWith, dec := f.decrypt, rndLen := 12 }, rest)
  | "xchacha" :: key :: v :: id :: rest => do
    let key ← bytesOfTok? key
    if key.length ≠ 32 then none else
    let f : Full := { pre := outputPrefix (← Variant.ofCode? v) (← id.toNat?), raw := xchachaRaw key }
    pure ({ enc := f.encryptWith, dec := f.decrypt, rndLen := 24 }, rest)
  | "ctrhmac" :: aesKey :: macKey :: h :: ivLen :: tagLen :: v :: id :: rest => do
    let aesKey ← bytesOfTok? aesKey
    let macKey ← bytesOfTok? macKey
    let a ← hashAlg? h
    let ivLen ← ivLen.toNat?
    let tagLen ← tagLen.toNat?
    if aesKey.length ≠ 16 ∧ aesKey.length ≠ 32 then none else
    if ivLen < 12 ∨ ivLen > 16 then none else
    if !Mac.validHmacParams a.digestLen macKey.length tagLen then none else
    let E ← aesE? aesKey
    let m : EtM := { pre := outputPrefix (← Variant.ofCode? v) (← id.toNat?), E := E,
                     mac := hmacM a macKey, ivLen := ivLen, tagLen := tagLen }
    pure ({ enc := m.encryptWith, dec := m.decrypt, rndLen := ivLen }, rest)
  | "gcmsiv" :: key :: v :: id :: rest => do
    let key ← bytesOfTok? key
    if key.length ≠ 16 ∧ key.length ≠ 32 then none else
    let g := gcmSivModel key.length
    let pre := outputPrefix (← Variant.ofCode? v) (← id.toNat?)
    pure ({ enc := fun rnd pt ad => g.fullEncryptWith pre key rnd pt ad,
            dec := fun ct ad => g.fullDecrypt pre key ct ad, rndLen := 12 }, rest)
  | "xaes" :: key :: saltLen :: v :: id :: rest => do
    let key ← bytesOfTok? key
    let saltLen ← saltLen.toNat?
    if key.length ≠ 32 then none else
    if saltLen < 8 ∨ saltLen > 12 then none else
    let E ← aesE? key
    let x : Xaes := { pre := outputPrefix (← Variant.ofCode? v) (← id.toNat?), E := E,
                      gcm := fun k => (gcmRaw? k).getD { nonceLen := 12, overhead := 16, sealF := fun _ _ _ => [], openF := fun _ _ _ => none },
                      saltLen := saltLen }
    pure ({ enc := x.encryptWith, dec := x.decrypt, rndLen := saltLen + 12 }, rest)
  | _ => none

def handle (toks : List String) : Option String :=
  match toks with
  | "enc" :: rest => do
    match cfg? rest with
    | none => pure "err"
    | some (c, [rnd, pt, ad]) =>
      let rnd ← bytesOfTok? rnd
      if rnd.length ≠ c.rndLen then pure "badrnd" else
      pure s!"ok {tokOfBytes (c.enc rnd (← bytesOfTok? pt) (← bytesOfTok? ad))}"
    | _ => none
  | "dec" :: rest => do
    match cfg? rest with
    | none => pure "err"
    | some (c, [ct, ad]) => pure (okR (c.dec (← bytesOfTok? ct) (← bytesOfTok? ad)))
    | _ => none
  | ["envparse", ct] => do
    match envelopeParse (← bytesOfTok? ct) with
    | none => pure "reject"
    | some (d, p) => pure s!"ok {tokOfBytes d} {tokOfBytes p}"
  | ["envser", dek, payload] => do
    pure (okB (envelopeSerialize (← bytesOfTok? dek) (← bytesOfTok? payload)))
  | ["aadbits", n] => do
    -- the block that closes the encrypt-then-MAC input `EtM.macInput ad payload = ad ‖ payload ‖ be64(8·|ad|)`
    -- for an associated data of n bytes: read off the definition itself (zero-filled ad, empty payload) where
    -- that is feasible, the same expression `Bytes.be64 (8 * n)` for sizes that cannot be materialised
    let n ← n.toNat?
    if n ≤ 4096 then pure (tokOfBytes ((EtM.macInput (Bytes.zeros n) []).drop n))
    else pure (tokOfBytes (Bytes.be64 (8 * n)))
  | ["polydot", a, b] => do
    pure (tokOfBytes (polyvalMulSpec (ba (← bytesOfTok? a)) (ba (← bytesOfTok? b))).toList)
  | _ => none

end Driver.AeadD
