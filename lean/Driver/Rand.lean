import TinkVerif.Model.Rand
import TinkVerif.Prim.Rsa
import TinkVerif.Prim.Curve25519
import Driver.Util
import Driver.Sig
/-! Line protocol for the randomness-consumption model (C20). -/
namespace Driver.Rn
open TinkVerif TinkVerif.Rand TinkVerif.Prim Driver.Sg

def natList? (s : String) : Option (List Nat) :=
  if s == "-" then some [] else (s.splitOn ",").mapM (·.toNat?)

/-- a finite tape window as a `Tape` (zero beyond the window, never reached by a well-formed line) -/
def tapeOf (w : Bytes) : Tape := fun i => w.getD i 0

/-- the PSS salt carried by a signature (RFC 8017 §9.1.2 steps 5–11), when the signature verifies -/
def pssSalt (a : HashAlg) (saltLen n e : Nat) (msg sig : ByteArray) : Option ByteArray :=
  if !rsaPssVerify a saltLen n e msg sig then none else
  match rsaPublicOp n e sig with
  | none => none
  | some emFull =>
    let emBits := natBitLen n - 1
    let emLen := (emBits + 7) / 8
    let em := emFull.extract (emFull.size - emLen) emFull.size
    let hLen := a.digestLen
    let dbLen := emLen - hLen - 1
    let h := em.extract dbLen (dbLen + hLen)
    let dbMask := mgf1 a h dbLen
    let salt : ByteArray := Id.run do
      let mut out := ByteArray.emptyWithCapacity saltLen
      for i in [dbLen - saltLen : dbLen] do
        out := out.push (em.get! i ^^^ dbMask.get! i)
      return out
    some salt

def handle (toks : List String) : Option String :=
  match toks with
  | ["field", p, n, ct] => do
    pure (tokOfBytes (fieldAt (← bytesOfTok? ct) (← p.toNat?) (← n.toNat?)))
  | ["hdr", keySize, hdr] => do
    let (salt, np) := streamHeaderFields (← keySize.toNat?) (← bytesOfTok? hdr)
    pure s!"{tokOfBytes salt} {tokOfBytes np}"
  | ["hist", window, ns] => do
    -- the fields a history of draws of lengths `ns` gets from the tape window
    let w ← bytesOfTok? window
    let ns ← natList? ns
    if ns.sum ≠ w.length then pure s!"consumed-mismatch want={ns.sum} window={w.length}" else
    pure (" ".intercalate ((fields (tapeOf w) 0 ns).map tokOfBytes))
  | ["id", unavail, draws] => do
    match Manager.drawId (← natList? unavail) (← natList? draws) with
    | some d => pure (toString d)
    | none => pure "stuck"
  | ["word", b] => do pure (toString (Bytes.toNatBE (← bytesOfTok? b)))
  | ["x25519pub", sk] => do pure (tokOfBytes (x25519Base (ba (← bytesOfTok? sk))).toList)
  | ["psssalt", h, saltLen, n, e, msg, sig] => do
    let a ← Driver.Sg.sigHash? h
    match pssSalt a (← saltLen.toNat?) (Bytes.toNatBE (← bytesOfTok? n)) (Bytes.toNatBE (← bytesOfTok? e)) (ba (← bytesOfTok? msg)) (ba (← bytesOfTok? sig)) with
    | some s => pure s!"ok {tokOfBytes s.toList}"
    | none => pure "reject"
  | _ => none

end Driver.Rn
