import TinkVerif.Model.Wrap
import Driver.Manager
/-! Line protocol for the keyset-level selection rule (C05). The single-key acceptance relation is
    supplied per probe as a bit vector measured on the real single-key primitives. -/
namespace Driver.Wr
open TinkVerif TinkVerif.Wrap TinkVerif.Manager

abbrev St := List (WEntry Nat)

def entry? (idx : Nat) (s : String) : Option (WEntry Nat) :=
  match s.splitOn ":" with
  | [id, st, p, pre] => do
    pure { id := ← id.toNat?, status := ← Driver.Mgr.status? st, isPrimary := ← Driver.bool? p,
           pre := ← bytesOfTok? pre, key := idx }
  | _ => none

def entries? (s : String) : Option St :=
  if s == "-" then some [] else
  let parts := s.splitOn ";"
  (List.zip (List.range parts.length) parts).mapM fun (i, p) => entry? i p

def bitsAcc (bits : String) : Nat → Bytes → Bytes → Bool :=
  let a := bits.toList.toArray
  fun k _ _ => a.getD k '0' == '1'

def mkY (pre : Bytes) (len : Nat) : Bytes := pre ++ Bytes.zeros (len - pre.length)

def showId : Option Nat → String
  | some id => s!"ok {id}"
  | none => "reject"

def showOk : Option Nat → String
  | some _ => "ok"
  | none => "reject"

def handle (st : St) (toks : List String) : Option (St × String) :=
  match toks with
  | ["keys", es] => do pure (← entries? es, "ok")
  | ["accept", pre, len, bits] => do
    pure (st, showId (accept (bitsAcc bits) st (mkY (← bytesOfTok? pre) (← len.toNat?)) []))
  | ["mac", pre, len, bits] => do
    pure (st, showId (macAccept (bitsAcc bits) st (mkY (← bytesOfTok? pre) (← len.toNat?)) []))
  | ["tryall", bits] => some (st, showId (tryAll (bitsAcc bits) st [] []))
  -- verdict only (harnesses without a monitoring client cannot observe which key worked)
  | ["acceptb", pre, len, bits] => do
    pure (st, showOk (accept (bitsAcc bits) st (mkY (← bytesOfTok? pre) (← len.toNat?)) []))
  | ["macb", pre, len, bits] => do
    pure (st, showOk (macAccept (bitsAcc bits) st (mkY (← bytesOfTok? pre) (← len.toNat?)) []))
  | ["producer"] => some (st, match producer st with | some e => s!"ok {e.id} {tokOfBytes e.pre}" | none => "none")
  | ["prfids"] => some (st, s!"{Driver.showNatList (Driver.sortNat (prfIds st))} | {match producer st with | some e => toString e.id | none => "-"}")
  | _ => none

end Driver.Wr
