import TinkVerif.Model.StreamKeys
import TinkVerif.Model.Hmac
import Driver.Aead
import Driver.Sym
/-!
  Line protocol `T …` (C07, harness c07b): the AES-GCM-HKDF and AES-CTR-HMAC streaming formats of
  Model/StreamKeys.lean instantiated with the reference primitives (HKDF over the RFC 2104 model and
  the reference hashes, reference AES-GCM, AES block function, HMAC).

    T new <gcm|ctr> <params…> <ikmHex>                                   -> ok | err      (constructor guards)
    T dec <gcm|ctr> <params…> <ikmHex> <adHex> <ctHex>                   -> ok <ptHex> | reject | err
    T enc <gcm|ctr> <params…> <ikmHex> <adHex> <saltHex> <prefixHex> <ptHex> -> ok <ctHex> | err
    T encsha <gcm|ctr> <params…> <ikmHex> <adHex> <saltHex> <prefixHex> <pt: hex or @len:seedhex>
                                                                         -> ok <|ct|> <headerHex> <sha256(ct)> | err
    params  gcm: <keySize> <hkdfHash> <segSize> <firstSegmentOffset>
            ctr: <keySize> <hkdfHash> <tagAlg> <tagSize> <segSize> <firstSegmentOffset>
  `err` = the parameters are refused by the constructor (or salt/prefix have the wrong length).
-/
namespace Driver.Strm2
open TinkVerif TinkVerif.Prim TinkVerif.StreamKeys Driver.Sym

def hkdfOf (a : HashAlg) (ikm salt info : Bytes) (len : Nat) : Option Bytes :=
  Hmac.computeHKDF (hmacM a) a.digestLen ikm salt info len

def gcm? (key : Bytes) : Option ((Bytes → Bytes → Bytes → Bytes) × (Bytes → Bytes → Bytes → Option Bytes)) :=
  if key.length ≠ 16 ∧ key.length ≠ 32 then none
  else (Driver.AeadD.gcmRaw? key).map fun r => (r.sealF, r.openF)

/-- parse `<gcm|ctr> <params…> <ikm>`; `some none` = constructor error -/
def fmt? : List String → Option (Option Format × List String)
  | "gcm" :: ks :: h :: seg :: off :: ikm :: rest => do
    let ks ← ks.toNat?; let a ← hashAlg? h; let seg ← seg.toNat?; let off ← off.toNat?
    let ikm ← bytesOfTok? ikm
    if !gcmNewOk ikm.length ks seg off then pure (none, rest)
    else pure (some (gcmHkdf (hkdfOf a) gcm? ikm ks seg off), rest)
  | "ctr" :: ks :: h :: ta :: ts :: seg :: off :: ikm :: rest => do
    let ks ← ks.toNat?; let a ← hashAlg? h; let ta ← hashAlg? ta; let ts ← ts.toNat?
    let seg ← seg.toNat?; let off ← off.toNat?
    let ikm ← bytesOfTok? ikm
    if !ctrNewOk ikm.length ks ta.digestLen ts seg off then pure (none, rest)
    else pure (some (ctrHmac (hkdfOf a) aesE? (hmacM ta) ikm ks ts seg off), rest)
  | _ => none

def handle (toks : List String) : Option String :=
  match toks with
  | "new" :: rest => do
    match ← fmt? rest with
    | (none, []) => pure "err"
    | (some _, []) => pure "ok"
    | _ => none
  | "dec" :: rest => do
    match ← fmt? rest with
    | (none, [_, _]) => pure "err"
    | (some F, [ad, ct]) => pure (okR (F.decrypt (← bytesOfTok? ad) (← bytesOfTok? ct)))
    | _ => none
  | "enc" :: rest => do
    match ← fmt? rest with
    | (none, [_, _, _, _]) => pure "err"
    | (some F, [ad, salt, pre, pt]) =>
      pure (okB (F.encrypt (← bytesOfTok? ad) (← bytesOfTok? salt) (← bytesOfTok? pre) (← bytesOfTok? pt)))
    | _ => none
  -- large streams (harness c07b, huge.go): the plaintext is a compact `@<len>:<seedhex>` token (`genTok?`), the answer
  -- names the ciphertext by length, header and SHA-256 instead of megabytes of hex
  | "encsha" :: rest => do
    match ← fmt? rest with
    | (none, [_, _, _, _]) => pure "err"
    | (some F, [ad, salt, pre, pt]) =>
      match F.encrypt (← bytesOfTok? ad) (← bytesOfTok? salt) (← bytesOfTok? pre) (← genTok? pt) with
      | none => pure "err"
      | some ct => pure s!"ok {ct.length} {tokOfBytes (ct.take F.headerLen)} {sha256Hex ct}"
    | _ => none
  | _ => none

end Driver.Strm2
