import TinkVerif.Model.Manager
import Driver.Util
/-! Line protocol for the keyset-manager model (C11, reused by C05/C17). -/
namespace Driver.Mgr
open TinkVerif TinkVerif.Manager

structure St where
  mgrs : Array MState := #[]
  handles : Array (Option Handle) := #[]
  deriving Inhabited

def statusCode : Status → String
  | .unknown => "U" | .enabled => "E" | .disabled => "D" | .destroyed => "X"

def status? : String → Option Status
  | "U" => some .unknown | "E" => some .enabled | "D" => some .disabled | "X" => some .destroyed
  | _ => none

def showEntries (es : List MEntry) : String :=
  if es.isEmpty then "-" else
  ";".intercalate (es.map fun e => s!"{e.id}:{statusCode e.status}:{if e.isPrimary then 1 else 0}:{e.key}")

def showOut : Out → String
  | .okId id => s!"ok {id}" | .ok => "ok" | .err => "err" | .stuck => "stuck"

def opt? (s : String) : Option KOpt :=
  if s == "p" then some .asPrimary
  else if s.startsWith "s" then (status? (s.drop 1).toString).map .withStatus
  else if s.startsWith "f" then ((s.drop 1).toString.toNat?).map .withFixedID
  else none

def opts? (s : String) : Option (List KOpt) :=
  if s == "-" then some [] else (s.splitOn ",").mapM opt?

def entry? (s : String) : Option MEntry :=
  match s.splitOn ":" with
  | [id, stt, p, k] => do
    pure { id := ← id.toNat?, status := ← status? stt, isPrimary := ← bool? p, key := ← k.toNat? }
  | _ => none

def entries? (s : String) : Option (List MEntry) :=
  if s == "-" then some [] else (s.splitOn ";").mapM entry?

def setAt {α} [Inhabited α] (a : Array α) (i : Nat) (x : α) : Array α :=
  if i < a.size then a.set! i x else (a ++ Array.replicate (i - a.size) default).push x

def doStep (st : St) (m : Nat) (op : Op) : St × String :=
  let s := st.mgrs.getD m init
  let (s', out) := step s op
  ({ st with mgrs := setAt st.mgrs m s' }, showOut out)

def handle (st : St) (toks : List String) : Option (St × String) :=
  match toks with
  | ["reset"] => pure ({}, "ok")
  | ["new", m] => do
    let m ← m.toNat?
    pure ({ st with mgrs := setAt st.mgrs m init }, "ok")
  | ["add", m, tmplOk, genOk, key, draws] => do
    pure (doStep st (← m.toNat?) (.add (← bool? tmplOk) (← bool? genOk) (← key.toNat?) (← natList? draws)))
  | ["addkey", m, keyNil, key, idReq, draws] => do
    pure (doStep st (← m.toNat?) (.addKey (← bool? keyNil) (← key.toNat?) (← optNat? idReq) (← natList? draws)))
  | ["addopts", m, keyNil, key, idReq, opts, draws] => do
    pure (doStep st (← m.toNat?) (.addKeyOpts (← bool? keyNil) (← key.toNat?) (← optNat? idReq) (← opts? opts) (← natList? draws)))
  | ["setprimary", m, id] => do pure (doStep st (← m.toNat?) (.setPrimary (← id.toNat?)))
  | ["enable", m, id] => do pure (doStep st (← m.toNat?) (.enable (← id.toNat?)))
  | ["disable", m, id] => do pure (doStep st (← m.toNat?) (.disable (← id.toNat?)))
  | ["delete", m, id] => do pure (doStep st (← m.toNat?) (.delete (← id.toNat?)))
  | ["handle", m, h] => do
    let m ← m.toNat?
    let h ← h.toNat?
    let r := Manager.handle (st.mgrs.getD m init)
    pure ({ st with handles := setAt st.handles h r }, if r.isSome then "ok" else "err")
  | ["fromhandle", h, m] => do
    let m ← m.toNat?
    let h ← h.toNat?
    match st.handles.getD h none with
    | none => pure (st, "nohandle")
    | some hd => pure ({ st with mgrs := setAt st.mgrs m (fromHandle hd) }, "ok")
  | ["defhandle", h, es] => do
    let h ← h.toNat?
    let es ← entries? es
    pure ({ st with handles := setAt st.handles h (some es) }, "ok")
  | ["dump", m] => do
    let s := st.mgrs.getD (← m.toNat?) init
    pure (st, s!"{showEntries s.entries} | {showNatList (sortNat s.unavail.eraseDups)}")
  | ["hdump", h] => do
    match st.handles.getD (← h.toNat?) none with
    | none => pure (st, "nohandle")
    | some hd =>
      let p := match Handle.primary hd with | some e => toString e.id | none => "-"
      pure (st, s!"{showEntries hd} | {p}")
  | _ => none

end Driver.Mgr
