import TinkVerif.Model.Manager
import Driver.Util
/-! Line protocol for the keyset-manager model (C11, reused by C05/C17). -/
namespace Driver.Mgr
open TinkVerif TinkVerif.Manager

structure St where
  mgrs : Array MState := #[]
  handles : Array (Option Handle) := #[]
  /-- keyset annotations (canonical token, "-" = none) held by each manager / carried by each handle.
  Annotations are outside `MState`: they are replaced as a whole by `setann`, copied to a handle by `handle`
  and dropped by `fromhandle`; no manager op reads them. -/
  anns : Array String := #[]
  hanns : Array String := #[]
  deriving Inhabited

def statusCode : Status → String
  | .unknown => "U" | .enabled => "E" | .disabled => "D" | .destroyed => "X"

def status? : String → Option Status
  | "U" => some .unknown | "E" => some .enabled | "D" => some .disabled | "X" => some .destroyed
  | _ => none

def showEntries (es : List MEntry) : String :=
  if es.isEmpty then "-" else
  ";".intercalate (es.map fun e => s!"{e.id}:{statusCode e.status}:{if e.isPrimary then 1 else 0}:{e.key}")

def showOut : Out → String
  | .okId id => s!"ok {id}" | .ok => "ok" | .err => "err" | .stuck => "stuck"

def opt? (s : String) : Option KOpt :=
  if s == "p" then some .asPrimary
  else if s.startsWith "s" then (status? (s.drop 1).toString).map .withStatus
  else if s.startsWith "f" then ((s.drop 1).toString.toNat?).map .withFixedID
  else none

def opts? (s : String) : Option (List KOpt) :=
  if s == "-" then some [] else (s.splitOn ",").mapM opt?

def entry? (s : String) : Option MEntry :=
  match s.splitOn ":" with
  | [id, stt, p, k] => do
    pure { id := ← id.toNat?, status := ← status? stt, isPrimary := ← bool? p, key := ← k.toNat? }
  | _ => none

def entries? (s : String) : Option (List MEntry) :=
  if s == "-" then some [] else (s.splitOn ";").mapM entry?

def setAt {α} [Inhabited α] (a : Array α) (i : Nat) (x : α) : Array α :=
  if i < a.size then a.set! i x else (a ++ Array.replicate (i - a.size) default).push x

def annOf (a : Array String) (i : Nat) : String :=
  let s := a.getD i "-"
  if s.isEmpty then "-" else s

def doStep (st : St) (m : Nat) (op : Op) : St × String :=
  let s := st.mgrs.getD m init
  let (s', out) := step s op
  ({ st with mgrs := setAt st.mgrs m s' }, showOut out)

def handle (st : St) (toks : List String) : Option (St × String) :=
  match toks with
  | ["reset"] => pure ({}, "ok")
  | ["new", m] => do
    let m ← m.toNat?
    pure ({ st with mgrs := setAt st.mgrs m init, anns := setAt st.anns m "-" }, "ok")
  | ["add", m, tmplOk, genOk, key, draws] => do
    pure (doStep st (← m.toNat?) (.add (← bool? tmplOk) (← bool? genOk) (← key.toNat?) (← natList? draws)))
  | ["addkey", m, keyNil, key, idReq, draws] => do
    pure (doStep st (← m.toNat?) (.addKey (← bool? keyNil) (← key.toNat?) (← optNat? idReq) (← natList? draws)))
  | ["addopts", m, keyNil, key, idReq, opts, draws] => do
    pure (doStep st (← m.toNat?) (.addKeyOpts (← bool? keyNil) (← key.toNat?) (← optNat? idReq) (← opts? opts) (← natList? draws)))
  | ["setprimary", m, id] => do pure (doStep st (← m.toNat?) (.setPrimary (← id.toNat?)))
  | ["enable", m, id] => do pure (doStep st (← m.toNat?) (.enable (← id.toNat?)))
  | ["disable", m, id] => do pure (doStep st (← m.toNat?) (.disable (← id.toNat?)))
  | ["delete", m, id] => do pure (doStep st (← m.toNat?) (.delete (← id.toNat?)))
  | ["handle", m, h] => do
    let m ← m.toNat?
    let h ← h.toNat?
    let r := Manager.handle (st.mgrs.getD m init)
    let a := if r.isSome then annOf st.anns m else "-"
    pure ({ st with handles := setAt st.handles h r, hanns := setAt st.hanns h a }, if r.isSome then "ok" else "err")
  | ["fromhandle", h, m] => do
    let m ← m.toNat?
    let h ← h.toNat?
    match st.handles.getD h none with
    | none => pure (st, "nohandle")
    | some hd => pure ({ st with mgrs := setAt st.mgrs m (fromHandle hd), anns := setAt st.anns m "-" }, "ok")
  | ["defhandle", h, es] => do
    let h ← h.toNat?
    let es ← entries? es
    pure ({ st with handles := setAt st.handles h (some es), hanns := setAt st.hanns h "-" }, "ok")
  | ["dump", m] => do
    let s := st.mgrs.getD (← m.toNat?) init
    pure (st, s!"{showEntries s.entries} | {showNatList (sortNat s.unavail.eraseDups)}")
  | ["hdump", h] => do
    match st.handles.getD (← h.toNat?) none with
    | none => pure (st, "nohandle")
    | some hd =>
      let p := match Handle.primary hd with | some e => toString e.id | none => "-"
      pure (st, s!"{showEntries hd} | {p}")
  -- annotations (C11 round 3b): `setann m a src` replaces manager m's annotations (src = provenance of the
  -- caller's map, ignored), `annmut i kind` is a mutation of a caller-side map after it was passed to
  -- SetAnnotations (no effect on any manager or handle), `hann h` = annotations handle h was created with.
  | ["setann", m, a, _src] => do
    pure ({ st with anns := setAt st.anns (← m.toNat?) a }, "ok")
  | ["annmut", _i, _kind] => pure (st, "ok")
  | ["hann", h] => do
    let h ← h.toNat?
    match st.handles.getD h none with
    | none => pure (st, "nohandle")
    | some _ => pure (st, annOf st.hanns h)
  | _ => none

end Driver.Mgr
