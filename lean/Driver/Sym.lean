import TinkVerif.Model.Cmac
import TinkVerif.Model.Mac
import TinkVerif.Model.Hmac
import TinkVerif.Model.Siv
import TinkVerif.Model.Kwp
import TinkVerif.Prim.Hash
import TinkVerif.Prim.Aes
import Driver.Util
/-! Line protocol for MAC / PRF / DAEAD / AEAD models instantiated with the reference primitives. -/
namespace Driver.Sym
open TinkVerif TinkVerif.Prim

def hashAlg? : String → Option HashAlg
  | "SHA1" => some .sha1 | "SHA224" => some .sha224 | "SHA256" => some .sha256
  | "SHA384" => some .sha384 | "SHA512" => some .sha512 | _ => none

/-- AES under `key` as a function on 16-byte lists -/
def aesE? (key : Bytes) : Option (Bytes → Bytes) :=
  (AesKey.ofBytes? key.toByteArray).map fun k => fun b => (k.encryptBlock b.toByteArray).toList

def aesD? (key : Bytes) : Option (Bytes → Bytes) :=
  (AesKey.ofBytes? key.toByteArray).map fun k => fun b => (k.decryptBlock b.toByteArray).toList

def hmacL (a : HashAlg) (key msg : Bytes) : Bytes := (hmac a key.toByteArray msg.toByteArray).toList

/-- the full HMAC primitive of mac/hmac (or `mac/subtle` with variant RAW); `none` = constructor error -/
def fullHmac? (a : HashAlg) (key : Bytes) (tagSize : Nat) (v : Variant) (id : Nat) : Option Mac.FullMac :=
  if Mac.validHmacParams a.digestLen key.length tagSize then
    some { pre := outputPrefix v id, variant := v, raw := fun m => (hmacL a key m).take tagSize }
  else none

/-- `strict`: the key-level guard (key size exactly 32) of `aescmac.NewMAC`; the subtle API only
    needs a valid AES key size and 10 ≤ tag ≤ 16. -/
def fullCmac? (strict : Bool) (key : Bytes) (tagSize : Nat) (v : Variant) (id : Nat) : Option Mac.FullMac :=
  if (strict && !Mac.validCmacParams key.length tagSize) || tagSize < 10 || tagSize > 16 || key.length < 16 then none
  else (aesE? key).map fun E =>
    { pre := outputPrefix v id, variant := v, raw := fun m => (Cmac.compute E m).take tagSize }

/-- generic RFC 2104 HMAC (Model) over the reference hash -/
def hmacM (a : HashAlg) (key msg : Bytes) : Bytes :=
  Hmac.hmac (fun b => (hash a b.toByteArray).toList) a.blockLen key msg

def optBytes? (s : String) : Option (Option Bytes) :=
  if s == "~" then some none else (bytesOfTok? s).map some

def okB (o : Option Bytes) : String := match o with | none => "err" | some b => s!"ok {tokOfBytes b}"
def okR (o : Option Bytes) : String := match o with | none => "reject" | some b => s!"ok {tokOfBytes b}"

def okTag (m : Option Mac.FullMac) (msg : Bytes) : String :=
  match m with
  | none => "err"
  | some m => s!"ok {tokOfBytes (m.compute msg)}"

def okVerify (m : Option Mac.FullMac) (tag msg : Bytes) : String :=
  match m with
  | none => "err"
  | some m => if m.verify tag msg then "ok" else "reject"

/-! ### compact message descriptions (LARGE-SIZES sections of c04 / c08 / c15)

  A byte-string argument of the `…gen` ops is either an ordinary token or `@<len>:<seedhex>`: the `len` bytes
  `i ↦ (seed[i mod |seed|] + i + (i >> 8)) mod 256` (seed `-` = no seed byte, i.e. 0). The harnesses generate the
  same bytes with the same three-term sum, so megabyte inputs travel as a dozen characters. -/
def genBytes (seed : Bytes) (n : Nat) : Bytes :=
  let s := seed.toArray
  let m := s.size
  (List.range n).map fun i => UInt8.ofNat ((if m = 0 then 0 else (s[i % m]!).toNat) + i + (i >>> 8))

def genTok? (s : String) : Option Bytes :=
  if s.startsWith "@" then
    match (s.drop 1).toString.splitOn ":" with
    | [l, sd] => do
      let n ← l.toNat?
      let seed ← bytesOfTok? sd
      pure (genBytes seed n)
    | _ => none
  else bytesOfTok? s

def sha256Hex (b : Bytes) : String := tokOfBytes (hash .sha256 b.toByteArray).toList


def handle (toks : List String) : Option String :=
  match toks with
  | ["hmac", h, key, ts, v, id, msg] => do
    pure (okTag (fullHmac? (← hashAlg? h) (← bytesOfTok? key) (← ts.toNat?) (← Variant.ofCode? v) (← id.toNat?)) (← bytesOfTok? msg))
  | ["hmacv", h, key, ts, v, id, tag, msg] => do
    pure (okVerify (fullHmac? (← hashAlg? h) (← bytesOfTok? key) (← ts.toNat?) (← Variant.ofCode? v) (← id.toNat?)) (← bytesOfTok? tag) (← bytesOfTok? msg))
  | ["cmac", strict, key, ts, v, id, msg] => do
    pure (okTag (fullCmac? (← bool? strict) (← bytesOfTok? key) (← ts.toNat?) (← Variant.ofCode? v) (← id.toNat?)) (← bytesOfTok? msg))
  | ["cmacv", strict, key, ts, v, id, tag, msg] => do
    pure (okVerify (fullCmac? (← bool? strict) (← bytesOfTok? key) (← ts.toNat?) (← Variant.ofCode? v) (← id.toNat?)) (← bytesOfTok? tag) (← bytesOfTok? msg))
  | ["cmacspec", key, msg] => do
    -- RFC 4493 written from the RFC (not the Go loop): must agree with the implementation model
    let E ← aesE? (← bytesOfTok? key)
    pure (tokOfBytes (Cmac.spec E (← bytesOfTok? msg)))
  | ["xorend", key, data, last] => do
    let E ← aesE? (← bytesOfTok? key)
    match Cmac.xorEndAndCompute E (← bytesOfTok? data) (← bytesOfTok? last) with
    | none => pure "err"
    | some t => pure s!"ok {tokOfBytes t}"
  | ["xorendspec", key, data, last] => do
    let E ← aesE? (← bytesOfTok? key)
    pure (tokOfBytes (Cmac.compute E (Cmac.xorend (← bytesOfTok? data) (← bytesOfTok? last))))
  | ["prf", "hmac", h, key, inp, n] => do
    let a ← hashAlg? h
    let n ← n.toNat?
    if n > a.digestLen then pure "err" else
    pure (okB (some ((hmacM a (← bytesOfTok? key) (← bytesOfTok? inp)).take n)))
  | ["prf", "hkdf", h, key, salt, inp, n] => do
    let a ← hashAlg? h
    -- x/crypto hkdf: nil salt = hashLen zero bytes (same HMAC key as the empty string)
    pure (okB (Hmac.hkdf (hmacM a) a.digestLen (← bytesOfTok? key) (← bytesOfTok? salt) (← bytesOfTok? inp) (← n.toNat?)))
  | ["prf", "cmac", key, inp, n] => do
    let n ← n.toNat?
    let E ← aesE? (← bytesOfTok? key)
    if n > 16 then pure "err" else pure (okB (some ((Cmac.compute E (← bytesOfTok? inp)).take n)))
  | ["hkdf", h, key, salt, info, n] => do
    let a ← hashAlg? h
    pure (okB (Hmac.computeHKDF (hmacM a) a.digestLen (← bytesOfTok? key) (← bytesOfTok? salt) (← bytesOfTok? info) (← n.toNat?)))
  | ["siv", key, v, id, pt, ad] => do
    let key ← bytesOfTok? key
    if key.length ≠ 64 then pure "err" else
    let E1 ← aesE? (key.take 32); let E2 ← aesE? (key.drop 32)
    pure s!"ok {tokOfBytes (Siv.encrypt E1 E2 (outputPrefix (← Variant.ofCode? v) (← id.toNat?)) (← bytesOfTok? pt) (← bytesOfTok? ad))}"
  | ["sivd", key, v, id, ct, ad] => do
    let key ← bytesOfTok? key
    if key.length ≠ 64 then pure "err" else
    let E1 ← aesE? (key.take 32); let E2 ← aesE? (key.drop 32)
    pure (okR (Siv.decrypt E1 E2 (outputPrefix (← Variant.ofCode? v) (← id.toNat?)) (← bytesOfTok? ct) (← bytesOfTok? ad)))
  | ["s2v", key, msg, ad] => do
    let E ← aesE? (← bytesOfTok? key)
    pure (tokOfBytes (Siv.s2v E (← bytesOfTok? msg) (← bytesOfTok? ad)))
  | ["s2vspec", key, msg, ad] => do
    let E ← aesE? (← bytesOfTok? key)
    pure (tokOfBytes (Siv.s2vSpec E (← bytesOfTok? msg) (← bytesOfTok? ad)))
  | ["kwp", kek, data] => do
    let kek ← bytesOfTok? kek
    if kek.length ≠ 16 ∧ kek.length ≠ 32 then pure "err" else
    let E ← aesE? kek
    pure (okB (Kwp.wrap E (← bytesOfTok? data)))
  | ["kwpu", kek, w] => do
    let kek ← bytesOfTok? kek
    if kek.length ≠ 16 ∧ kek.length ≠ 32 then pure "err" else
    let D ← aesD? kek
    pure (okR (Kwp.unwrap D (← bytesOfTok? w)))
  | ["kwpraw", kek, s] => do
    -- the RFC 3394 / RFC 5649 wrapping function W applied to an ARBITRARY block string A‖P1…Pn (no AIV /
    -- length / padding preparation): lets the harness build wrappings of malformed plaintexts. n = 1 is the
    -- single-block ECB case of RFC 5649 §4.1.
    let kek ← bytesOfTok? kek
    if kek.length ≠ 16 ∧ kek.length ≠ 32 then pure "err" else
    let E ← aesE? kek
    let s ← bytesOfTok? s
    if s.length % 8 ≠ 0 ∨ s.length < 16 then pure "err" else
    if s.length = 16 then pure s!"ok {tokOfBytes (E s)}" else
    let st := Kwp.W E { A := s.take 8, R := Kwp.semiblocks (s.drop 8) }
    pure s!"ok {tokOfBytes (st.A ++ st.R.flatten)}"
  | ["sivctr", k2, iv, data] => do
    -- the CTR layer of AES-SIV alone: bits 31 and 63 of the 16-byte IV cleared, then the big-endian
    -- 128-bit counter key stream (Model/Siv.clearBits, Model/Ctr.xorBE) — reaches counter carries that
    -- S2V outputs hit only with negligible probability
    let k2 ← bytesOfTok? k2
    if k2.length ≠ 32 then pure "err" else
    let E2 ← aesE? k2
    let iv ← bytesOfTok? iv
    if iv.length ≠ 16 then pure "err" else
    pure s!"ok {tokOfBytes (Ctr.xorBE E2 (Siv.clearBits iv) (← bytesOfTok? data))}"
  -- ---------- the same ops with `genTok?` arguments (compact megabyte inputs) ----------
  | ["gen", n, seed] => do
    pure (tokOfBytes (genBytes (← bytesOfTok? seed) (← n.toNat?)))
  | ["gensha", n, seed] => do
    pure (sha256Hex (genBytes (← bytesOfTok? seed) (← n.toNat?)))
  | ["hmacgen", h, key, ts, v, id, msg] => do
    pure (okTag (fullHmac? (← hashAlg? h) (← genTok? key) (← ts.toNat?) (← Variant.ofCode? v) (← id.toNat?)) (← genTok? msg))
  | ["hmacvgen", h, key, ts, v, id, tag, msg] => do
    pure (okVerify (fullHmac? (← hashAlg? h) (← genTok? key) (← ts.toNat?) (← Variant.ofCode? v) (← id.toNat?)) (← bytesOfTok? tag) (← genTok? msg))
  | ["cmacgen", strict, key, ts, v, id, msg] => do
    pure (okTag (fullCmac? (← bool? strict) (← bytesOfTok? key) (← ts.toNat?) (← Variant.ofCode? v) (← id.toNat?)) (← genTok? msg))
  | ["cmacvgen", strict, key, ts, v, id, tag, msg] => do
    pure (okVerify (fullCmac? (← bool? strict) (← bytesOfTok? key) (← ts.toNat?) (← Variant.ofCode? v) (← id.toNat?)) (← bytesOfTok? tag) (← genTok? msg))
  | ["cmacspecgen", key, msg] => do
    let E ← aesE? (← bytesOfTok? key)
    pure (tokOfBytes (Cmac.spec E (← genTok? msg)))
  | ["xorendspecgen", key, data, last] => do
    let E ← aesE? (← bytesOfTok? key)
    pure (tokOfBytes (Cmac.compute E (Cmac.xorend (← genTok? data) (← bytesOfTok? last))))
  | ["prfgen", "hmac", h, key, inp, n] => do
    let a ← hashAlg? h
    let n ← n.toNat?
    if n > a.digestLen then pure "err" else
    pure (okB (some ((hmacM a (← genTok? key) (← genTok? inp)).take n)))
  | ["prfgen", "hkdf", h, key, salt, inp, n] => do
    let a ← hashAlg? h
    pure (okB (Hmac.hkdf (hmacM a) a.digestLen (← genTok? key) (← genTok? salt) (← genTok? inp) (← n.toNat?)))
  | ["prfgen", "cmac", key, inp, n] => do
    let n ← n.toNat?
    let E ← aesE? (← bytesOfTok? key)
    if n > 16 then pure "err" else pure (okB (some ((Cmac.compute E (← genTok? inp)).take n)))
  | ["hkdfgen", h, key, salt, info, n] => do
    let a ← hashAlg? h
    pure (okB (Hmac.computeHKDF (hmacM a) a.digestLen (← genTok? key) (← genTok? salt) (← genTok? info) (← n.toNat?)))
  | ["sivgen", key, v, id, pt, ad] => do
    -- answer: ciphertext length, prefix ‖ SIV, SHA-256 (reference hash) of the whole ciphertext
    let key ← bytesOfTok? key
    if key.length ≠ 64 then pure "err" else
    let E1 ← aesE? (key.take 32); let E2 ← aesE? (key.drop 32)
    let pre := outputPrefix (← Variant.ofCode? v) (← id.toNat?)
    let ct := Siv.encrypt E1 E2 pre (← genTok? pt) (← genTok? ad)
    pure s!"ok {ct.length} {tokOfBytes (ct.take (pre.length + 16))} {sha256Hex ct}"
  | ["s2vspecgen", key, msg, ad] => do
    let E ← aesE? (← bytesOfTok? key)
    pure (tokOfBytes (Siv.s2vSpec E (← genTok? msg) (← genTok? ad)))
  | _ => none

end Driver.Sym
