import TinkVerif.Model.Cmac
import TinkVerif.Model.Mac
import TinkVerif.Prim.Hash
import TinkVerif.Prim.Aes
import Driver.Util
/-! Line protocol for MAC / PRF / DAEAD / AEAD models instantiated with the reference primitives. -/
namespace Driver.Sym
open TinkVerif TinkVerif.Prim

def hashAlg? : String → Option HashAlg
  | "SHA1" => some .sha1 | "SHA224" => some .sha224 | "SHA256" => some .sha256
  | "SHA384" => some .sha384 | "SHA512" => some .sha512 | _ => none

/-- AES under `key` as a function on 16-byte lists -/
def aesE? (key : Bytes) : Option (Bytes → Bytes) :=
  (AesKey.ofBytes? key.toByteArray).map fun k => fun b => (k.encryptBlock b.toByteArray).toList

def aesD? (key : Bytes) : Option (Bytes → Bytes) :=
  (AesKey.ofBytes? key.toByteArray).map fun k => fun b => (k.decryptBlock b.toByteArray).toList

def hmacL (a : HashAlg) (key msg : Bytes) : Bytes := (hmac a key.toByteArray msg.toByteArray).toList

/-- the full HMAC primitive of mac/hmac (or `mac/subtle` with variant RAW); `none` = constructor error -/
def fullHmac? (a : HashAlg) (key : Bytes) (tagSize : Nat) (v : Variant) (id : Nat) : Option Mac.FullMac :=
  if Mac.validHmacParams a.digestLen key.length tagSize then
    some { pre := outputPrefix v id, variant := v, raw := fun m => (hmacL a key m).take tagSize }
  else none

/-- `strict`: the key-level guard (key size exactly 32) of `aescmac.NewMAC`; the subtle API only
    needs a valid AES key size and 10 ≤ tag ≤ 16. -/
def fullCmac? (strict : Bool) (key : Bytes) (tagSize : Nat) (v : Variant) (id : Nat) : Option Mac.FullMac :=
  if (strict && !Mac.validCmacParams key.length tagSize) || tagSize < 10 || tagSize > 16 || key.length < 16 then none
  else (aesE? key).map fun E =>
    { pre := outputPrefix v id, variant := v, raw := fun m => (Cmac.compute E m).take tagSize }

def okTag (m : Option Mac.FullMac) (msg : Bytes) : String :=
  match m with
  | none => "err"
  | some m => s!"ok {tokOfBytes (m.compute msg)}"

def okVerify (m : Option Mac.FullMac) (tag msg : Bytes) : String :=
  match m with
  | none => "err"
  | some m => if m.verify tag msg then "ok" else "reject"

def handle (toks : List String) : Option String :=
  match toks with
  | ["hmac", h, key, ts, v, id, msg] => do
    pure (okTag (fullHmac? (← hashAlg? h) (← bytesOfTok? key) (← ts.toNat?) (← Variant.ofCode? v) (← id.toNat?)) (← bytesOfTok? msg))
  | ["hmacv", h, key, ts, v, id, tag, msg] => do
    pure (okVerify (fullHmac? (← hashAlg? h) (← bytesOfTok? key) (← ts.toNat?) (← Variant.ofCode? v) (← id.toNat?)) (← bytesOfTok? tag) (← bytesOfTok? msg))
  | ["cmac", strict, key, ts, v, id, msg] => do
    pure (okTag (fullCmac? (← bool? strict) (← bytesOfTok? key) (← ts.toNat?) (← Variant.ofCode? v) (← id.toNat?)) (← bytesOfTok? msg))
  | ["cmacv", strict, key, ts, v, id, tag, msg] => do
    pure (okVerify (fullCmac? (← bool? strict) (← bytesOfTok? key) (← ts.toNat?) (← Variant.ofCode? v) (← id.toNat?)) (← bytesOfTok? tag) (← bytesOfTok? msg))
  | ["cmacspec", key, msg] => do
    -- RFC 4493 written from the RFC (not the Go loop): must agree with the implementation model
    let E ← aesE? (← bytesOfTok? key)
    pure (tokOfBytes (Cmac.spec E (← bytesOfTok? msg)))
  | ["xorend", key, data, last] => do
    let E ← aesE? (← bytesOfTok? key)
    match Cmac.xorEndAndCompute E (← bytesOfTok? data) (← bytesOfTok? last) with
    | none => pure "err"
    | some t => pure s!"ok {tokOfBytes t}"
  | _ => none

end Driver.Sym
