import TinkVerif.Gen.MldsaAlgebra
import TinkVerif.Prim.Mldsa
import TinkVerif.Model.MldsaPack
import Driver.Util
/-! Line protocol for ML-DSA (C10): the regenerated scalar functions (translation validation) and the
    FIPS 204 reference implementation. -/
namespace Driver.Ml
open TinkVerif TinkVerif.Prim TinkVerif.Prim.Mldsa

namespace G
export TinkVerif.Gen.Mldsa (reduceOnce add sub neg mul power2Round scalePower2 divBy2Gamma2 decompose highBits lowBits makeHint useHint centeredAbs centeredMax zetas)
end G

def ba (b : Bytes) : ByteArray := b.toByteArray
def hx (a : ByteArray) : String := tokOfBytes a.toList

def params? : String → Option Params
  | "44" => some mldsa44 | "65" => some mldsa65 | "87" => some mldsa87 | _ => none

def okBA : Option ByteArray → String
  | some a => s!"ok {hx a}"
  | none => "err"

/-- regenerated scalar functions, evaluated on numbers -/
def scalar (toks : List String) : Option String :=
  match toks with
  | ["reduceOnce", a] => do pure (toString (G.reduceOnce (← a.toNat?)))
  | ["add", a, b] => do pure (toString (G.add (← a.toNat?) (← b.toNat?)))
  | ["sub", a, b] => do pure (toString (G.sub (← a.toNat?) (← b.toNat?)))
  | ["neg", a] => do pure (toString (G.neg (← a.toNat?)))
  | ["mul", a, b] => do pure (toString (G.mul (← a.toNat?) (← b.toNat?)))
  | ["power2Round", a] => do let r := G.power2Round (← a.toNat?); pure s!"{r.1} {r.2}"
  | ["scalePower2", a] => do pure (toString (G.scalePower2 (← a.toNat?)))
  | ["divBy2Gamma2", a, g] => do pure (toString (G.divBy2Gamma2 (← a.toNat?) (← g.toNat?)))
  | ["decompose", a, g] => do let r := G.decompose (← a.toNat?) (← g.toNat?); pure s!"{r.1} {r.2}"
  | ["highBits", a, g] => do pure (toString (G.highBits (← a.toNat?) (← g.toNat?)))
  | ["lowBits", a, g] => do pure (toString (G.lowBits (← a.toNat?) (← g.toNat?)))
  | ["makeHint", z, g, r] => do pure (toString (G.makeHint (← z.toNat?) (← g.toNat?) (← r.toNat?)))
  | ["useHint", a, g, h] => do pure (toString (G.useHint (← a.toNat?) (← g.toNat?) (← h.toNat?)))
  | ["centeredAbs", a] => do pure (toString (G.centeredAbs (← a.toNat?)))
  | ["centeredMax", a, b] => do pure (toString (G.centeredMax (← a.toNat?) (← b.toNat?)))
  | ["zeta", k] => do pure (toString (G.zetas.getD (← k.toNat?) 0))
  | _ => none

/-- boundary signatures: `zmax` ‖z‖∞ = γ1−β−1 exactly (must verify); `hintmax` hint count = ω
    (must verify); `zover` ‖z‖∞ = γ1−β exactly (must be rejected) -/
def craft (p : Params) (sk mPrime rnd : ByteArray) (kind : String) : Option ByteArray :=
  match kind with
  | "zmax" => signInternalWith p sk mPrime rnd fun _ z _ => z == p.gamma1 - p.beta - 1
  | "hintmax" => signInternalWith p sk mPrime rnd fun _ _ h => h == p.omega
  | "zover" =>
    match skDecode p sk with
    | none => none
    | some parts =>
      signCore p parts (H (parts.tr ++ mPrime) 64) rnd (fun _ z _ => z == p.gamma1 - p.beta) signFuel (p.gamma1 - p.beta + 1)
  | _ => none

/-! packing codecs: the list model `Model/MldsaPack.lean` (laws in `Props/C10Pack.lean`) -/
namespace MP
export TinkVerif.Model.MldsaPack (simpleBitPack simpleBitUnpack bitPack bitUnpack hintBitPackGo hintBitUnpack w1Encode positions)
end MP

/-- a 0/1 polynomial with ones at the listed positions (positions ≥ 256 make the line a `bad-op`) -/
def hintPoly? (pos : List Nat) : Option (List Nat) :=
  if pos.all (· < 256) then some ((List.range 256).map fun j => if pos.contains j then 1 else 0) else none

/-- `spack bits w` · `sunpack bits hex` · `bpack a b w` · `bunpack a b hex` · `hpack ω k pos₀ … pos_{k-1}` ·
    `hunpack ω k hex` → `ok pos₀ … pos_{k-1}` | `reject` · `w1enc bits w₀ … w_{k-1}` -/
def codec (toks : List String) : Option String :=
  match toks with
  | ["spack", bits, w] => do pure (tokOfBytes (MP.simpleBitPack (← bits.toNat?) (← natList? w)))
  | ["sunpack", bits, e] => do pure (showNatList (MP.simpleBitUnpack (← bits.toNat?) (← bytesOfTok? e)))
  | ["bpack", a, b, w] => do pure (tokOfBytes (MP.bitPack (← a.toNat?) (← b.toNat?) (← natList? w)))
  | ["bunpack", a, b, e] => do pure (showNatList (MP.bitUnpack (← a.toNat?) (← b.toNat?) (← bytesOfTok? e)))
  | "hpack" :: omega :: k :: polys => do
    let h ← polys.mapM fun s => do hintPoly? (← natList? s)
    if h.length != (← k.toNat?) then none
    pure (tokOfBytes (MP.hintBitPackGo (← omega.toNat?) h))
  | ["hunpack", omega, k, e] => do
    match MP.hintBitUnpack (← omega.toNat?) (← k.toNat?) (← bytesOfTok? e) with
    | some h => pure ("ok " ++ " ".intercalate (h.map fun p => showNatList (MP.positions p)))
    | none => pure "reject"
  | "w1enc" :: bits :: polys => do
    pure (tokOfBytes (MP.w1Encode (← bits.toNat?) (← polys.mapM natList?)))
  | _ => none

/-! sampling layer (FIPS 204 §7.3), straight from the reference:
    `rejntt ρ32 s r` → 256 coefficients of RejNTTPoly(ρ ‖ s ‖ r) (s, r one byte each: Â[r][s] of ExpandA) ·
    `rejbounded η ρ′64 r` → RejBoundedPoly(ρ′ ‖ IntegerToBytes(r, 2)), residues mod q ·
    `sampleinball set c̃` → SampleInBall with the set's τ, residues mod q ·
    `expandmask set ρ″64 κ` → the l polynomials of ExpandMask(ρ″, κ), residues mod q, one token each (κ + l ≤ 65536) ·
    `c3b b0 b1 b2` → CoeffFromThreeBytes: `ok z` | `reject` ·  `chb η b` → CoeffFromHalfByte: `ok z` | `reject` -/
def showPoly (w : Array Nat) : String := showNatList w.toList

def sampling (toks : List String) : Option String :=
  match toks with
  | ["rejntt", rho, s, r] => do
    let rho ← bytesOfTok? rho
    let s ← s.toNat?
    let r ← r.toNat?
    if rho.length != 32 || s ≥ 256 || r ≥ 256 then none
    pure (showPoly (rejNTTPoly (ba rho ++ integerToBytes s 1 ++ integerToBytes r 1)))
  | ["rejbounded", eta, rho, r] => do
    let rho ← bytesOfTok? rho
    let eta ← eta.toNat?
    let r ← r.toNat?
    if rho.length != 64 || r ≥ 65536 || !(eta == 2 || eta == 4) then none
    pure (showPoly (rejBoundedPoly eta (ba rho ++ integerToBytes r 2)))
  | ["sampleinball", set, ct] => do
    let p ← params? set
    pure (showPoly (sampleInBall p.tau (ba (← bytesOfTok? ct))))
  | ["expandmask", set, rho, kappa] => do
    let p ← params? set
    let rho ← bytesOfTok? rho
    let kappa ← kappa.toNat?
    if rho.length != 64 || kappa + p.l > 65536 then none
    pure (" ".intercalate ((expandMask p (ba rho) kappa).toList.map showPoly))
  | ["c3b", b0, b1, b2] => do
    let b0 ← b0.toNat?
    let b1 ← b1.toNat?
    let b2 ← b2.toNat?
    if b0 ≥ 256 || b1 ≥ 256 || b2 ≥ 256 then none
    match coeffFromThreeBytes (UInt8.ofNat b0) (UInt8.ofNat b1) (UInt8.ofNat b2) with
    | some z => pure s!"ok {z}"
    | none => pure "reject"
  | ["chb", eta, b] => do
    let eta ← eta.toNat?
    let b ← b.toNat?
    if b ≥ 16 || !(eta == 2 || eta == 4) then none
    match coeffFromHalfByte eta b with
    | some z => pure s!"ok {z}"
    | none => pure "reject"
  | _ => none

/-! Search for messages whose signing run sits on a rejection bound of the loop of Algorithm 7 — only a SEARCH aid:
    the harness signs the found message with the real code and compares the bytes with `sign` (the untouched
    reference). `signTrace` repeats the loop body of `signCore` with the reference's functions and records, per
    attempt, the four quantities the loop compares: ‖z‖∞, ‖r0‖∞, ‖ct0‖∞ and the number of hints. -/
structure Attempt where
  zN : Nat
  r0N : Nat
  ct0N : Nat
  ones : Nat
  deriving Inhabited

def Attempt.passZ (p : Params) (a : Attempt) : Bool := a.zN < p.gamma1 - p.beta
def Attempt.passR (p : Params) (a : Attempt) : Bool := a.r0N < p.gamma2 - p.beta
def Attempt.passC (p : Params) (a : Attempt) : Bool := a.ct0N < p.gamma2
def Attempt.passH (p : Params) (a : Attempt) : Bool := a.ones ≤ p.omega
def Attempt.accepted (p : Params) (a : Attempt) : Bool := a.passZ p && a.passR p && a.passC p && a.passH p

/-- the attempts of the signing loop up to and including the first accepted one -/
def signTrace (p : Params) (sk : SkParts) (mu rnd : ByteArray) (fuel : Nat := 1000) : Array Attempt := Id.run do
  let s1h := vecNTT sk.s1
  let s2h := vecNTT sk.s2
  let t0h := vecNTT sk.t0
  let A := expandA p sk.rho
  let rho'' := H (sk.key ++ rnd ++ mu) 64
  let mut kappa := 0
  let mut tr : Array Attempt := #[]
  for _ in [0:fuel] do
    let y := expandMask p rho'' kappa
    let w := vecNTTInv (matVecNTT A (vecNTT y))
    let w1 := w.map fun wi => wi.map (highBits p.gamma2)
    let ctilde := H (mu ++ w1Encode p w1) p.ctildeSize
    let c := sampleInBall p.tau ctilde
    let ch := ntt c
    let cs1 := vecNTTInv (scalarVecNTT ch s1h)
    let cs2 := vecNTTInv (scalarVecNTT ch s2h)
    let z := vecAdd y cs1
    let wcs2 := vecSub w cs2
    let r0 := wcs2.map fun wi => wi.map fun r => ofInt (lowBits p.gamma2 r)
    let ct0 := vecNTTInv (scalarVecNTT ch t0h)
    let r := vecAdd wcs2 ct0
    let h : Array Poly := Array.ofFn (n := p.k) fun i =>
      Array.ofFn (n := 256) fun j =>
        if makeHint p.gamma2 (negq ct0[i.val]![j.val]!) r[i.val]![j.val]! then 1 else 0
    let a : Attempt := { zN := infNormVec z, r0N := infNormVec r0, ct0N := infNormVec ct0, ones := countOnes h }
    tr := tr.push a
    if a.accepted p then return tr
    kappa := kappa + p.l
  return tr

/-- does the attempt sit on the named edge while every OTHER comparison passes?  `…-accept`: the largest value
    the comparison lets through (the attempt is the accepted one); `…-reject`: the smallest value it refuses. -/
def onEdge (p : Params) (kind : String) (a : Attempt) : Bool :=
  match kind with
  | "z-accept" => a.zN + 1 == p.gamma1 - p.beta && a.passR p && a.passC p && a.passH p
  | "z-reject" => a.zN == p.gamma1 - p.beta && a.passR p && a.passC p && a.passH p
  | "r0-accept" => a.r0N + 1 == p.gamma2 - p.beta && a.passZ p && a.passC p && a.passH p
  | "r0-reject" => a.r0N == p.gamma2 - p.beta && a.passZ p && a.passC p && a.passH p
  | "ct0-accept" => a.ct0N + 1 == p.gamma2 && a.passZ p && a.passR p && a.passH p
  | "ct0-reject" => a.ct0N == p.gamma2 && a.passZ p && a.passR p && a.passH p
  | "h-accept" => a.ones == p.omega && a.passZ p && a.passR p && a.passC p
  | "h-reject" => a.ones == p.omega + 1 && a.passZ p && a.passR p && a.passC p
  | _ => false

def decimalBytes (n : Nat) : ByteArray := (toString n).toUTF8

/-- `signscan set sk prefix from count kind`: the first i in [from, from+count) such that deterministic signing
    (rnd = 0³²) of M′ = 00 00 ‖ prefix ‖ decimal(i) has an attempt on the edge `kind` → `ok i attempt-index
    attempts`, else `none`. -/
def signScan (p : Params) (sk : ByteArray) (pre : ByteArray) (fro count : Nat) (kind : String) : String :=
  match skDecode p sk with
  | none => "err"
  | some parts => Id.run do
    let rnd : ByteArray := ⟨Array.replicate 32 0⟩
    for i in [fro:fro + count] do
      let mPrime := integerToBytes 0 2 ++ pre ++ decimalBytes i
      let tr := signTrace p parts (H (parts.tr ++ mPrime) 64) rnd
      for j in [0:tr.size] do
        if onEdge p kind tr[j]! then return s!"ok {i} {j + 1} {tr.size}"
    return "none"

def handle (toks : List String) : Option String :=
  match toks with
  | "s" :: rest => scalar rest
  | "spack" :: _ | "sunpack" :: _ | "bpack" :: _ | "bunpack" :: _ | "hpack" :: _ | "hunpack" :: _ | "w1enc" :: _ =>
    codec toks
  | "rejntt" :: _ | "rejbounded" :: _ | "sampleinball" :: _ | "expandmask" :: _ | "c3b" :: _ | "chb" :: _ =>
    sampling toks
  | ["keygen", set, seed] => do
    let p ← params? set
    let (pk, sk) := keyGenInternal p (ba (← bytesOfTok? seed))
    pure s!"ok {hx pk} {hx sk}"
  | ["sign", set, sk, m, rnd] => do
    pure (okBA (signInternal (← params? set) (ba (← bytesOfTok? sk)) (ba (← bytesOfTok? m)) (ba (← bytesOfTok? rnd))))
  | ["signmu", set, sk, mu, rnd] => do
    pure (okBA (signMuInternal (← params? set) (ba (← bytesOfTok? sk)) (ba (← bytesOfTok? mu)) (ba (← bytesOfTok? rnd))))
  | ["verify", set, pk, m, sig] => do
    pure (if verifyInternal (← params? set) (ba (← bytesOfTok? pk)) (ba (← bytesOfTok? m)) (ba (← bytesOfTok? sig)) then "1" else "0")
  | ["verifymu", set, pk, mu, sig] => do
    pure (if verifyMuInternal (← params? set) (ba (← bytesOfTok? pk)) (ba (← bytesOfTok? mu)) (ba (← bytesOfTok? sig)) then "1" else "0")
  | ["fmt", ctx, msg] => do pure (okBA (formatMessage (ba (← bytesOfTok? ctx)) (ba (← bytesOfTok? msg))))
  | ["mu", set, pk, m] => do pure (hx (computeMu (← params? set) (ba (← bytesOfTok? pk)) (ba (← bytesOfTok? m))))
  | ["craft", set, sk, m, rnd, kind] => do
    pure (okBA (craft (← params? set) (ba (← bytesOfTok? sk)) (ba (← bytesOfTok? m)) (ba (← bytesOfTok? rnd)) kind))
  | ["signscan", set, sk, pre, fro, count, kind] => do
    pure (signScan (← params? set) (ba (← bytesOfTok? sk)) (ba (← bytesOfTok? pre)) (← fro.toNat?) (← count.toNat?) kind)
  | _ => none

end Driver.Ml
