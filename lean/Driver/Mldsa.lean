import TinkVerif.Gen.MldsaAlgebra
import TinkVerif.Prim.Mldsa
import TinkVerif.Model.MldsaPack
import Driver.Util
/-! Line protocol for ML-DSA (C10): the regenerated scalar functions (translation validation) and the
    FIPS 204 reference implementation. -/
namespace Driver.Ml
open TinkVerif TinkVerif.Prim TinkVerif.Prim.Mldsa

namespace G
export TinkVerif.Gen.Mldsa (reduceOnce add sub neg mul power2Round scalePower2 divBy2Gamma2 decompose highBits lowBits makeHint useHint centeredAbs centeredMax zetas)
end G

def ba (b : Bytes) : ByteArray := b.toByteArray
def hx (a : ByteArray) : String := tokOfBytes a.toList

def params? : String → Option Params
  | "44" => some mldsa44 | "65" => some mldsa65 | "87" => some mldsa87 | _ => none

def okBA : Option ByteArray → String
  | some a => s!"ok {hx a}"
  | none => "err"

/-- regenerated scalar functions, evaluated on numbers -/
def scalar (toks : List String) : Option String :=
  match toks with
  | ["reduceOnce", a] => do pure (toString (G.reduceOnce (← a.toNat?)))
  | ["add", a, b] => do pure (toString (G.add (← a.toNat?) (← b.toNat?)))
  | ["sub", a, b] => do pure (toString (G.sub (← a.toNat?) (← b.toNat?)))
  | ["neg", a] => do pure (toString (G.neg (← a.toNat?)))
  | ["mul", a, b] => do pure (toString (G.mul (← a.toNat?) (← b.toNat?)))
  | ["power2Round", a] => do let r := G.power2Round (← a.toNat?); pure s!"{r.1} {r.2}"
  | ["scalePower2", a] => do pure (toString (G.scalePower2 (← a.toNat?)))
  | ["divBy2Gamma2", a, g] => do pure (toString (G.divBy2Gamma2 (← a.toNat?) (← g.toNat?)))
  | ["decompose", a, g] => do let r := G.decompose (← a.toNat?) (← g.toNat?); pure s!"{r.1} {r.2}"
  | ["highBits", a, g] => do pure (toString (G.highBits (← a.toNat?) (← g.toNat?)))
  | ["lowBits", a, g] => do pure (toString (G.lowBits (← a.toNat?) (← g.toNat?)))
  | ["makeHint", z, g, r] => do pure (toString (G.makeHint (← z.toNat?) (← g.toNat?) (← r.toNat?)))
  | ["useHint", a, g, h] => do pure (toString (G.useHint (← a.toNat?) (← g.toNat?) (← h.toNat?)))
  | ["centeredAbs", a] => do pure (toString (G.centeredAbs (← a.toNat?)))
  | ["centeredMax", a, b] => do pure (toString (G.centeredMax (← a.toNat?) (← b.toNat?)))
  | ["zeta", k] => do pure (toString (G.zetas.getD (← k.toNat?) 0))
  | _ => none

/-- boundary signatures: `zmax` ‖z‖∞ = γ1−β−1 exactly (must verify); `hintmax` hint count = ω
    (must verify); `zover` ‖z‖∞ = γ1−β exactly (must be rejected) -/
def craft (p : Params) (sk mPrime rnd : ByteArray) (kind : String) : Option ByteArray :=
  match kind with
  | "zmax" => signInternalWith p sk mPrime rnd fun _ z _ => z == p.gamma1 - p.beta - 1
  | "hintmax" => signInternalWith p sk mPrime rnd fun _ _ h => h == p.omega
  | "zover" =>
    match skDecode p sk with
    | none => none
    | some parts =>
      signCore p parts (H (parts.tr ++ mPrime) 64) rnd (fun _ z _ => z == p.gamma1 - p.beta) signFuel (p.gamma1 - p.beta + 1)
  | _ => none

/-! packing codecs: the list model `Model/MldsaPack.lean` (laws in `Props/C10Pack.lean`) -/
namespace MP
export TinkVerif.Model.MldsaPack (simpleBitPack simpleBitUnpack bitPack bitUnpack hintBitPackGo hintBitUnpack w1Encode positions)
end MP

/-- a 0/1 polynomial with ones at the listed positions (positions ≥ 256 make the line a `bad-op`) -/
def hintPoly? (pos : List Nat) : Option (List Nat) :=
  if pos.all (· < 256) then some ((List.range 256).map fun j => if pos.contains j then 1 else 0) else none

/-- `spack bits w` · `sunpack bits hex` · `bpack a b w` · `bunpack a b hex` · `hpack ω k pos₀ … pos_{k-1}` ·
    `hunpack ω k hex` → `ok pos₀ … pos_{k-1}` | `reject` · `w1enc bits w₀ … w_{k-1}` -/
def codec (toks : List String) : Option String :=
  match toks with
  | ["spack", bits, w] => do pure (tokOfBytes (MP.simpleBitPack (← bits.toNat?) (← natList? w)))
  | ["sunpack", bits, e] => do pure (showNatList (MP.simpleBitUnpack (← bits.toNat?) (← bytesOfTok? e)))
  | ["bpack", a, b, w] => do pure (tokOfBytes (MP.bitPack (← a.toNat?) (← b.toNat?) (← natList? w)))
  | ["bunpack", a, b, e] => do pure (showNatList (MP.bitUnpack (← a.toNat?) (← b.toNat?) (← bytesOfTok? e)))
  | "hpack" :: omega :: k :: polys => do
    let h ← polys.mapM fun s => do hintPoly? (← natList? s)
    if h.length != (← k.toNat?) then none
    pure (tokOfBytes (MP.hintBitPackGo (← omega.toNat?) h))
  | ["hunpack", omega, k, e] => do
    match MP.hintBitUnpack (← omega.toNat?) (← k.toNat?) (← bytesOfTok? e) with
    | some h => pure ("ok " ++ " ".intercalate (h.map fun p => showNatList (MP.positions p)))
    | none => pure "reject"
  | "w1enc" :: bits :: polys => do
    pure (tokOfBytes (MP.w1Encode (← bits.toNat?) (← polys.mapM natList?)))
  | _ => none

/-! sampling layer (FIPS 204 §7.3), straight from the reference:
    `rejntt ρ32 s r` → 256 coefficients of RejNTTPoly(ρ ‖ s ‖ r) (s, r one byte each: Â[r][s] of ExpandA) ·
    `rejbounded η ρ′64 r` → RejBoundedPoly(ρ′ ‖ IntegerToBytes(r, 2)), residues mod q ·
    `sampleinball set c̃` → SampleInBall with the set's τ, residues mod q ·
    `expandmask set ρ″64 κ` → the l polynomials of ExpandMask(ρ″, κ), residues mod q, one token each (κ + l ≤ 65536) ·
    `c3b b0 b1 b2` → CoeffFromThreeBytes: `ok z` | `reject` ·  `chb η b` → CoeffFromHalfByte: `ok z` | `reject` -/
def showPoly (w : Array Nat) : String := showNatList w.toList

def sampling (toks : List String) : Option String :=
  match toks with
  | ["rejntt", rho, s, r] => do
    let rho ← bytesOfTok? rho
    let s ← s.toNat?
    let r ← r.toNat?
    if rho.length != 32 || s ≥ 256 || r ≥ 256 then none
    pure (showPoly (rejNTTPoly (ba rho ++ integerToBytes s 1 ++ integerToBytes r 1)))
  | ["rejbounded", eta, rho, r] => do
    let rho ← bytesOfTok? rho
    let eta ← eta.toNat?
    let r ← r.toNat?
    if rho.length != 64 || r ≥ 65536 || !(eta == 2 || eta == 4) then none
    pure (showPoly (rejBoundedPoly eta (ba rho ++ integerToBytes r 2)))
  | ["sampleinball", set, ct] => do
    let p ← params? set
    pure (showPoly (sampleInBall p.tau (ba (← bytesOfTok? ct))))
  | ["expandmask", set, rho, kappa] => do
    let p ← params? set
    let rho ← bytesOfTok? rho
    let kappa ← kappa.toNat?
    if rho.length != 64 || kappa + p.l > 65536 then none
    pure (" ".intercalate ((expandMask p (ba rho) kappa).toList.map showPoly))
  | ["c3b", b0, b1, b2] => do
    let b0 ← b0.toNat?
    let b1 ← b1.toNat?
    let b2 ← b2.toNat?
    if b0 ≥ 256 || b1 ≥ 256 || b2 ≥ 256 then none
    match coeffFromThreeBytes (UInt8.ofNat b0) (UInt8.ofNat b1) (UInt8.ofNat b2) with
    | some z => pure s!"ok {z}"
    | none => pure "reject"
  | ["chb", eta, b] => do
    let eta ← eta.toNat?
    let b ← b.toNat?
    if b ≥ 16 || !(eta == 2 || eta == 4) then none
    match coeffFromHalfByte eta b with
    | some z => pure s!"ok {z}"
    | none => pure "reject"
  | _ => none

def handle (toks : List String) : Option String :=
  match toks with
  | "s" :: rest => scalar rest
  | "spack" :: _ | "sunpack" :: _ | "bpack" :: _ | "bunpack" :: _ | "hpack" :: _ | "hunpack" :: _ | "w1enc" :: _ =>
    codec toks
  | "rejntt" :: _ | "rejbounded" :: _ | "sampleinball" :: _ | "expandmask" :: _ | "c3b" :: _ | "chb" :: _ =>
    sampling toks
  | ["keygen", set, seed] => do
    let p ← params? set
    let (pk, sk) := keyGenInternal p (ba (← bytesOfTok? seed))
    pure s!"ok {hx pk} {hx sk}"
  | ["sign", set, sk, m, rnd] => do
    pure (okBA (signInternal (← params? set) (ba (← bytesOfTok? sk)) (ba (← bytesOfTok? m)) (ba (← bytesOfTok? rnd))))
  | ["signmu", set, sk, mu, rnd] => do
    pure (okBA (signMuInternal (← params? set) (ba (← bytesOfTok? sk)) (ba (← bytesOfTok? mu)) (ba (← bytesOfTok? rnd))))
  | ["verify", set, pk, m, sig] => do
    pure (if verifyInternal (← params? set) (ba (← bytesOfTok? pk)) (ba (← bytesOfTok? m)) (ba (← bytesOfTok? sig)) then "1" else "0")
  | ["verifymu", set, pk, mu, sig] => do
    pure (if verifyMuInternal (← params? set) (ba (← bytesOfTok? pk)) (ba (← bytesOfTok? mu)) (ba (← bytesOfTok? sig)) then "1" else "0")
  | ["fmt", ctx, msg] => do pure (okBA (formatMessage (ba (← bytesOfTok? ctx)) (ba (← bytesOfTok? msg))))
  | ["mu", set, pk, m] => do pure (hx (computeMu (← params? set) (ba (← bytesOfTok? pk)) (ba (← bytesOfTok? m))))
  | ["craft", set, sk, m, rnd, kind] => do
    pure (okBA (craft (← params? set) (ba (← bytesOfTok? sk)) (ba (← bytesOfTok? m)) (ba (← bytesOfTok? rnd)) kind))
  | _ => none

end Driver.Ml
