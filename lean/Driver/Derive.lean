import TinkVerif.Model.Derive
import Driver.Sym
import Driver.Manager
/-! Line protocol for keyset derivation (C17). -/
namespace Driver.Dv
open TinkVerif TinkVerif.Derive TinkVerif.Manager Driver.Sym

/-- entry token: id:S:p:idReq:key  (idReq "-" = none) -/
def dentry? (s : String) : Option DEntry :=
  match s.splitOn ":" with
  | [id, st, p, r, k] => do
    pure { id := ← id.toNat?, status := ← Driver.Mgr.status? st, isPrimary := ← Driver.bool? p,
           idReq := ← Driver.optNat? r, key := ← k.toNat? }
  | _ => none

def handle (toks : List String) : Option String :=
  match toks with
  | ["derive", es] => do
    let es ← if es == "-" then some [] else (es.splitOn ";").mapM dentry?
    match deriveKeyset es with
    | none => pure "err"
    | some h => pure s!"ok {Driver.Mgr.showEntries h}"
  | ["material", h, prfKey, prfSalt, salt, need] => do
    let a ← hashAlg? h
    pure (tokOfBytes (material (hmacM a) a.digestLen (← bytesOfTok? prfKey) (← bytesOfTok? prfSalt) (← bytesOfTok? salt) (← need.toNat?)))
  | _ => none

end Driver.Dv
