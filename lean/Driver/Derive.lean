import TinkVerif.Model.Derive
import Driver.Sym
import Driver.Manager
/-! Line protocol for keyset derivation (C17). -/
namespace Driver.Dv
open TinkVerif TinkVerif.Derive TinkVerif.Manager Driver.Sym

/-- entry token: id:S:p:idReq:key  (idReq "-" = none) -/
def dentry? (s : String) : Option DEntry :=
  match s.splitOn ":" with
  | [id, st, p, r, k] => do
    pure { id := ← id.toNat?, status := ← Driver.Mgr.status? st, isPrimary := ← Driver.bool? p,
           idReq := ← Driver.optNat? r, key := ← k.toNat? }
  | _ => none

/-- The variant a serialized PRF-based deriver key yields (C17 "same prefix type"): the keyset entry's output prefix
    type `outer` and the embedded derived-key template's `inner` (tink.proto numbering: 1 TINK, 2 LEGACY, 3 RAW,
    4 CRUNCHY; 0 UNKNOWN_PREFIX, 5 WITH_ID_REQUIREMENT and anything else belong to no derivable key type) must be the
    same value, and one the derived key type has. HMAC and Ed25519 have all four; the AEAD / DAEAD types have no
    LEGACY keys and read LEGACY as CRUNCHY (same prefix, same computation); PRF and streaming keys are RAW only. -/
def entryVariant? (kind : String) (outer inner : Int) : Option String :=
  if outer ≠ inner then none else
  if kind == "hmac" ∨ kind == "ed25519" then
    if outer = 1 then some "T" else if outer = 2 then some "L" else if outer = 3 then some "R"
    else if outer = 4 then some "C" else none
  else if kind == "aesgcm" ∨ kind == "xchacha" ∨ kind == "aessiv" then
    if outer = 1 then some "T" else if outer = 2 ∨ outer = 4 then some "C" else if outer = 3 then some "R" else none
  else if kind == "hkdfprf" ∨ kind == "hmacprf" ∨ kind == "aesgcmhkdf" then
    if outer = 3 then some "R" else none
  else none

/-- entry token of `accept`: kind:outer:inner -/
def pentry? (s : String) : Option (String × Int × Int) :=
  match s.splitOn ":" with
  | [k, o, i] => do pure (k, ← o.toInt?, ← i.toInt?)
  | _ => none

/-- entry token of `derivef`: id:S:p:idReq:key:f  (f = 1: the entry's own key derivation fails — a derived key size
    beyond the HKDF output limit, a derived key type without key deriver) -/
def dfentry? (s : String) : Option (DEntry × Bool) :=
  match s.splitOn ":" with
  | [id, st, p, r, k, f] => do
    pure ({ id := ← id.toNat?, status := ← Driver.Mgr.status? st, isPrimary := ← Driver.bool? p,
            idReq := ← Driver.optNat? r, key := ← k.toNat? }, ← Driver.bool? f)
  | _ => none

/-- `DeriveKeyset` over a deriver keyset some of whose entries cannot be derived: the call fails as a whole as soon as
    one ENABLED entry fails (whatever its position or primary flag); entries that are not ENABLED are never derived, so
    their failure is not seen. There is no partial result. -/
def deriveKeysetF (es : List (DEntry × Bool)) : Option Handle :=
  if es.any (fun ef => ef.2 && decide (ef.1.status = .enabled)) then none
  else deriveKeyset (es.map (·.1))

def handle (toks : List String) : Option String :=
  match toks with
  | ["derivef", es] => do
    let es ← if es == "-" then some [] else (es.splitOn ";").mapM dfentry?
    match deriveKeysetF es with
    | none => pure "err"
    | some h => pure s!"ok {Driver.Mgr.showEntries h}"
  | ["hkdfkey", h, prfKey, prfSalt, salt, need] => do
    -- key material with the RFC 5869 output limit: no key beyond 255·hashLen bytes
    let a ← hashAlg? h
    match Hmac.hkdf (hmacM a) a.digestLen (← bytesOfTok? prfKey) (← bytesOfTok? prfSalt) (← bytesOfTok? salt) (← need.toNat?) with
    | none => pure "err"
    | some kb => pure (tokOfBytes kb)
  | ["accept", es] => do
    -- the ENABLED entries of a serialized deriver keyset: all acceptable → the derived keys' variants, else rejected
    let es ← (es.splitOn ";").mapM pentry?
    match es.mapM (fun (k, o, i) => entryVariant? k o i) with
    | none => pure "reject"
    | some vs => pure s!"ok {";".intercalate vs}"
  | ["derive", es] => do
    let es ← if es == "-" then some [] else (es.splitOn ";").mapM dentry?
    match deriveKeyset es with
    | none => pure "err"
    | some h => pure s!"ok {Driver.Mgr.showEntries h}"
  | ["material", h, prfKey, prfSalt, salt, need] => do
    let a ← hashAlg? h
    pure (tokOfBytes (material (hmacM a) a.digestLen (← bytesOfTok? prfKey) (← bytesOfTok? prfSalt) (← bytesOfTok? salt) (← need.toNat?)))
  | _ => none

end Driver.Dv
