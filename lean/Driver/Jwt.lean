import TinkVerif.Model.Jwt
import Driver.Util
/-! Line protocol for the JWT decision model (C09). Strings travel as hex of their UTF-8 bytes and are
    mapped byte-wise to characters (injective, so equality is preserved). -/
namespace Driver.Jw
open TinkVerif TinkVerif.Jwt

def strOfTok? (s : String) : Option String :=
  (bytesOfTok? s).map fun b => String.ofList (b.map fun x => Char.ofNat x.toNat)

def optStr? (s : String) : Option (Option String) :=
  if s == "~" then some none else (strOfTok? s).map some

def int? (s : String) : Option Int :=
  if s.startsWith "-" then (s.drop 1).toString.toNat?.map fun n => -(n : Int) else s.toNat?.map fun n => (n : Int)

def item? (s : String) : Option Item :=
  if s == "o" then some .other
  else if s.startsWith "s" then (strOfTok? (s.drop 1).toString).map fun x => .str x true
  else if s.startsWith "S" then (strOfTok? (s.drop 1).toString).map fun x => .str x false
  else none

/-- value tokens: n | t | f | #<mant>e<exp> | s<hex> | S<hex> (invalid UTF-8) | a<item|item|…> (a alone = empty) | o -/
def val? (s : String) : Option Val :=
  if s == "n" then some .null
  else if s == "t" then some (.bool true)
  else if s == "f" then some (.bool false)
  else if s == "o" then some .obj
  else if s.startsWith "#" then
    match (s.drop 1).toString.splitOn "e" with
    | [m, e] => do pure (.num (← int? m) (← int? e))
    | _ => none
  else if s.startsWith "s" then (strOfTok? (s.drop 1).toString).map fun x => .str x true
  else if s.startsWith "S" then (strOfTok? (s.drop 1).toString).map fun x => .str x false
  else if s.startsWith "a" then
    let body := (s.drop 1).toString
    if body.isEmpty then some (.arr []) else (body.splitOn "|").mapM item? |>.map .arr
  else none

/-- object tokens: "~" (not an object), "{}" (empty), or comma-separated <keyhex>=<val> -/
def obj? (s : String) : Option (Option Obj) :=
  if s == "~" then some none
  else if s == "{}" then some (some [])
  else ((s.splitOn ",").mapM fun (kv : String) =>
    match kv.splitOn "=" with
    | [k, v] => do pure ((← strOfTok? k), (← val? v))
    | _ => none).map some

structure St where
  keys : List (Nat × KeyCfg) := []
  opts : Option VOpts := none

def showOutcome : Outcome × Option Nat → String
  | (.accept, some id) => s!"accept {id}"
  | (.accept, none) => "accept ?"
  | (.verificationErr, _) => "verr"
  | (.validationErr, _) => "valerr"

def handle (st : St) (toks : List String) : Option (St × String) :=
  match toks with
  | ["reset"] => some ({}, "ok")
  | ["key", id, alg, tk, ck] => do
    let k : KeyCfg := { alg := ← strOfTok? alg, tinkKid := ← optStr? tk, customKid := ← optStr? ck }
    pure ({ st with keys := st.keys ++ [(← id.toNat?, k)] }, "ok")
  | ["opts", et, ei, ea, eas, it, ia, ii, ame, eiat, skew, now] => do
    let o : VOpts := { expectedTyp := ← optStr? et, expectedIss := ← optStr? ei, expectedAud := ← optStr? ea,
                       expectedAuds := ← optStr? eas, ignoreTyp := ← Driver.bool? it, ignoreAud := ← Driver.bool? ia,
                       ignoreIss := ← Driver.bool? ii, allowMissingExp := ← Driver.bool? ame,
                       expectIat := ← Driver.bool? eiat, skewNs := ← int? skew, nowNs := ← int? now }
    let v := newValidator o
    pure ({ st with opts := v }, if v.isSome then "ok" else "err")
  | ["verify", compact, header, payload, bits] => do
    let c ← strOfTok? compact
    let t : Token := { compact := c.toList, header := ← obj? header, payload := ← obj? payload }
    let bitsA := bits.toList.toArray
    let keys := (List.zip (List.range st.keys.length) st.keys).map fun (i, (id, k)) => (id, k, bitsA.getD i '0' == '1')
    match st.opts with
    | none => pure (st, "noval")
    | some v => pure (st, showOutcome (verifyKeyset keys t v))
  | ["split", compact] => do
    let c ← strOfTok? compact
    pure (st, match splitSignedCompact c.toList with
      | none => "err"
      | some (u, s) => s!"ok {u.length} {s.length}")
  | _ => none

end Driver.Jw
