import TinkVerif.Model.ProtoWire
import Driver.Util
/-! Line protocol for the protobuf wire codec (C12): decode a serialized message with the strict
    decoder, dump its fields, and re-encode. -/
namespace Driver.Pr
open TinkVerif TinkVerif.Wire

def showVal : Val → String
  | .varint n => s!"v{n}"
  | .fixed64 b => s!"q{tokOfBytes b}"
  | .bytes b => s!"b{tokOfBytes b}"
  | .fixed32 b => s!"d{tokOfBytes b}"

def showMsg (m : Msg) : String :=
  if m.isEmpty then "-" else ",".intercalate (m.map fun (f, v) => s!"{f}:{showVal v}")

def val? (s : String) : Option Val :=
  let body := (s.drop 1).toString
  if s.startsWith "v" then body.toNat?.map .varint
  else if s.startsWith "q" then (bytesOfTok? body).map .fixed64
  else if s.startsWith "b" then (bytesOfTok? body).map .bytes
  else if s.startsWith "d" then (bytesOfTok? body).map .fixed32
  else none

def msg? (s : String) : Option Msg :=
  if s == "-" then some [] else
  (s.splitOn ",").mapM fun (fv : String) =>
    match fv.splitOn ":" with
    | [f, v] => do pure ((← f.toNat?), (← val? v))
    | _ => none

def handle (toks : List String) : Option String :=
  match toks with
  | ["wire", b] => do
    -- decode, and check that re-encoding is byte-identical (canonical form)
    let b ← bytesOfTok? b
    match decode b with
    | none => pure "reject"
    | some m => pure (if encode m == b then s!"ok {showMsg m}" else "NOT-CANONICAL")
  | ["enc", m] => do pure (tokOfBytes (encode (← msg? m)))
  | ["varint", n] => do pure (tokOfBytes (encVarint (← n.toNat?)))
  | _ => none

end Driver.Pr
