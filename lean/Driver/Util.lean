import TinkVerif.Base.Bytes
/-! Shared helpers for the line-protocol driver (core Lean only). -/
namespace Driver
open TinkVerif

def natList? (s : String) : Option (List Nat) :=
  if s == "-" then some [] else (s.splitOn ",").mapM (·.toNat?)

def showNatList (l : List Nat) : String :=
  if l.isEmpty then "-" else ",".intercalate (l.map toString)

def bool? (s : String) : Option Bool :=
  if s == "1" then some true else if s == "0" then some false else none

def optNat? (s : String) : Option (Option Nat) :=
  if s == "-" then some none else s.toNat?.map some

def sortNat (l : List Nat) : List Nat := (l.toArray.qsort (· < ·)).toList

end Driver
