import TinkVerif.Base.Bytes
import TinkVerif.Model.Manager
import TinkVerif.Lemmas.Manager
import TinkVerif.Props.C11
