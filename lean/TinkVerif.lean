import TinkVerif.Base.Bytes
import TinkVerif.Model.Manager
import TinkVerif.Lemmas.Manager
import TinkVerif.Props.C11
import TinkVerif.Model.Stream
import TinkVerif.Lemmas.Stream
import TinkVerif.Props.C07
