/-
  AES (FIPS-197) reference implementation: AES-128/192/256, block encrypt and decrypt.

  Core Lean only.  Nothing is proved here; the code is validated by the FIPS-197 appendix
  vectors (`TinkVerif/Kat/Aes.lean`) and by agreement with Go's `crypto/aes` on random inputs.

  Implementation: the S-box is *computed* (multiplicative inverse in GF(2^8) followed by the
  affine map of FIPS-197 §5.1.1), the four 32-bit round tables are derived from it, and the key
  schedule (§5.2) is expanded once into `AesKey`.  Decryption uses the "equivalent inverse
  cipher" (§5.3.5).  State columns are big-endian `UInt32` words.
-/
import TinkVerif.Base.Bytes

namespace TinkVerif.Prim

namespace AesImpl

/-- multiplication by `x` in GF(2^8) = GF(2)[x]/(x^8+x^4+x^3+x+1). -/
@[inline] def xtime (x : UInt8) : UInt8 :=
  (x <<< 1) ^^^ (if x &&& 0x80 != 0 then 0x1b else 0)

/-- multiplication in GF(2^8). -/
def gmul (a b : UInt8) : UInt8 := Id.run do
  let mut a := a
  let mut b := b
  let mut r : UInt8 := 0
  for _ in [0:8] do
    if b &&& 1 != 0 then r := r ^^^ a
    a := xtime a
    b := b >>> 1
  return r

@[inline] def rotl8 (x : UInt8) (n : UInt8) : UInt8 := (x <<< n) ||| (x >>> (8 - n))

/-- FIPS-197 S-box: `S(0) = 0x63`, `S(a) = affine(a⁻¹)`.  The inverses are enumerated by walking
    `p = 3^i` and `q = 3^{-i}` (3 generates GF(2^8)^*, and `0xf6 = 3⁻¹`). -/
def sbox : ByteArray := Id.run do
  let mut t : ByteArray := ⟨Array.replicate 256 (0 : UInt8)⟩
  let mut p : UInt8 := 1
  let mut q : UInt8 := 1
  for _ in [0:255] do
    p := gmul p 3
    q := gmul q 0xf6
    let s := q ^^^ rotl8 q 1 ^^^ rotl8 q 2 ^^^ rotl8 q 3 ^^^ rotl8 q 4 ^^^ 0x63
    t := t.set! p.toNat s
  t := t.set! 0 0x63
  return t

/-- inverse S-box. -/
def invSbox : ByteArray := Id.run do
  let mut t : ByteArray := ⟨Array.replicate 256 (0 : UInt8)⟩
  for i in [0:256] do
    t := t.set! (sbox[i]!).toNat (UInt8.ofNat i)
  return t

@[inline] def w32 (a b c d : UInt8) : UInt32 :=
  (a.toUInt32 <<< 24) ||| (b.toUInt32 <<< 16) ||| (c.toUInt32 <<< 8) ||| d.toUInt32

@[inline] def rotr32 (x : UInt32) (n : UInt32) : UInt32 := (x >>> n) ||| (x <<< (32 - n))

/-- `te0[a]` = MixColumns applied to the column `(S a, 0, 0, 0)`, i.e. `(2·S a, S a, S a, 3·S a)`. -/
def te0 : Array UInt32 := Id.run do
  let mut t : Array UInt32 := Array.emptyWithCapacity 256
  for i in [0:256] do
    let s := sbox[i]!
    t := t.push (w32 (gmul s 2) s s (gmul s 3))
  return t
def te1 : Array UInt32 := te0.map (rotr32 · 8)
def te2 : Array UInt32 := te0.map (rotr32 · 16)
def te3 : Array UInt32 := te0.map (rotr32 · 24)

/-- `td0[a]` = InvMixColumns applied to `(S⁻¹ a, 0, 0, 0)`, i.e. `(14·s, 9·s, 13·s, 11·s)`. -/
def td0 : Array UInt32 := Id.run do
  let mut t : Array UInt32 := Array.emptyWithCapacity 256
  for i in [0:256] do
    let s := invSbox[i]!
    t := t.push (w32 (gmul s 14) (gmul s 9) (gmul s 13) (gmul s 11))
  return t
def td1 : Array UInt32 := td0.map (rotr32 · 8)
def td2 : Array UInt32 := td0.map (rotr32 · 16)
def td3 : Array UInt32 := td0.map (rotr32 · 24)

@[inline] def b0 (x : UInt32) : Nat := (x >>> 24).toNat
@[inline] def b1 (x : UInt32) : Nat := ((x >>> 16) &&& 0xff).toNat
@[inline] def b2 (x : UInt32) : Nat := ((x >>> 8) &&& 0xff).toNat
@[inline] def b3 (x : UInt32) : Nat := (x &&& 0xff).toNat

@[inline] def sb (i : Nat) : UInt32 := (sbox[i]!).toUInt32
@[inline] def isb (i : Nat) : UInt32 := (invSbox[i]!).toUInt32

/-- SubWord (FIPS-197 §5.2). -/
def subWord (x : UInt32) : UInt32 :=
  (sb (b0 x) <<< 24) ||| (sb (b1 x) <<< 16) ||| (sb (b2 x) <<< 8) ||| sb (b3 x)

/-- InvMixColumns of one column (used to derive the decryption round keys). -/
def invMixWord (x : UInt32) : UInt32 :=
  td0[(sbox[b0 x]!).toNat]! ^^^ td1[(sbox[b1 x]!).toNat]! ^^^
  td2[(sbox[b2 x]!).toNat]! ^^^ td3[(sbox[b3 x]!).toNat]!

/-- KeyExpansion (FIPS-197 §5.2): `nk` key words → `4·(nk+7)` round-key words. -/
def expandKey (key : ByteArray) (nk : Nat) : Array UInt32 := Id.run do
  let total := 4 * (nk + 7)
  let mut w : Array UInt32 := Array.emptyWithCapacity total
  for i in [0:nk] do
    w := w.push (w32 key[4*i]! key[4*i+1]! key[4*i+2]! key[4*i+3]!)
  let mut rcon : UInt8 := 1
  for i in [nk:total] do
    let mut t := w[i-1]!
    if i % nk == 0 then
      t := subWord ((t <<< 8) ||| (t >>> 24)) ^^^ (rcon.toUInt32 <<< 24)
      rcon := xtime rcon
    else if nk > 6 && i % nk == 4 then
      t := subWord t
    w := w.push (w[i-nk]! ^^^ t)
  return w

/-- round keys of the equivalent inverse cipher (FIPS-197 §5.3.5): reversed round order, with
    InvMixColumns applied to all but the first and last round key. -/
def invertKey (enc : Array UInt32) (rounds : Nat) : Array UInt32 := Id.run do
  let mut d : Array UInt32 := Array.emptyWithCapacity enc.size
  for r in [0:rounds+1] do
    for j in [0:4] do
      let x := enc[4*(rounds - r) + j]!
      d := d.push (if r == 0 || r == rounds then x else invMixWord x)
  return d

end AesImpl

/-- An expanded AES key: `rounds` ∈ {10,12,14}, `enc`/`dec` hold `4·(rounds+1)` words each. -/
structure AesKey where
  rounds : Nat
  enc : Array UInt32
  dec : Array UInt32
  deriving Inhabited

namespace AesKey
open AesImpl

/-- Expand a 16-, 24- or 32-byte key; any other length is rejected. -/
def ofBytes? (k : ByteArray) : Option AesKey :=
  if k.size == 16 || k.size == 24 || k.size == 32 then
    let nk := k.size / 4
    let enc := expandKey k nk
    some { rounds := nk + 6, enc := enc, dec := invertKey enc (nk + 6) }
  else none

/-- `n` full rounds (SubBytes, ShiftRows, MixColumns via the `te` tables, AddRoundKey with the
    words at offset `i`), then the final round without MixColumns.  (Plain recursion with `UInt32`
    arguments: compiled to a loop over unboxed machine words.) -/
def encRounds (rk : Array UInt32) : Nat → Nat → UInt32 → UInt32 → UInt32 → UInt32 →
    UInt32 × UInt32 × UInt32 × UInt32
  | 0, i, s0, s1, s2, s3 =>
    let t0 := ((sb (b0 s0) <<< 24) ||| (sb (b1 s1) <<< 16) ||| (sb (b2 s2) <<< 8) ||| sb (b3 s3)) ^^^ rk[i]!
    let t1 := ((sb (b0 s1) <<< 24) ||| (sb (b1 s2) <<< 16) ||| (sb (b2 s3) <<< 8) ||| sb (b3 s0)) ^^^ rk[i+1]!
    let t2 := ((sb (b0 s2) <<< 24) ||| (sb (b1 s3) <<< 16) ||| (sb (b2 s0) <<< 8) ||| sb (b3 s1)) ^^^ rk[i+2]!
    let t3 := ((sb (b0 s3) <<< 24) ||| (sb (b1 s0) <<< 16) ||| (sb (b2 s1) <<< 8) ||| sb (b3 s2)) ^^^ rk[i+3]!
    (t0, t1, t2, t3)
  | n+1, i, s0, s1, s2, s3 =>
    let t0 := te0[b0 s0]! ^^^ te1[b1 s1]! ^^^ te2[b2 s2]! ^^^ te3[b3 s3]! ^^^ rk[i]!
    let t1 := te0[b0 s1]! ^^^ te1[b1 s2]! ^^^ te2[b2 s3]! ^^^ te3[b3 s0]! ^^^ rk[i+1]!
    let t2 := te0[b0 s2]! ^^^ te1[b1 s3]! ^^^ te2[b2 s0]! ^^^ te3[b3 s1]! ^^^ rk[i+2]!
    let t3 := te0[b0 s3]! ^^^ te1[b1 s0]! ^^^ te2[b2 s1]! ^^^ te3[b3 s2]! ^^^ rk[i+3]!
    encRounds rk n (i+4) t0 t1 t2 t3

/-- inverse rounds of the equivalent inverse cipher (`td` tables), then the final round. -/
def decRounds (rk : Array UInt32) : Nat → Nat → UInt32 → UInt32 → UInt32 → UInt32 →
    UInt32 × UInt32 × UInt32 × UInt32
  | 0, i, s0, s1, s2, s3 =>
    let t0 := ((isb (b0 s0) <<< 24) ||| (isb (b1 s3) <<< 16) ||| (isb (b2 s2) <<< 8) ||| isb (b3 s1)) ^^^ rk[i]!
    let t1 := ((isb (b0 s1) <<< 24) ||| (isb (b1 s0) <<< 16) ||| (isb (b2 s3) <<< 8) ||| isb (b3 s2)) ^^^ rk[i+1]!
    let t2 := ((isb (b0 s2) <<< 24) ||| (isb (b1 s1) <<< 16) ||| (isb (b2 s0) <<< 8) ||| isb (b3 s3)) ^^^ rk[i+2]!
    let t3 := ((isb (b0 s3) <<< 24) ||| (isb (b1 s2) <<< 16) ||| (isb (b2 s1) <<< 8) ||| isb (b3 s0)) ^^^ rk[i+3]!
    (t0, t1, t2, t3)
  | n+1, i, s0, s1, s2, s3 =>
    let t0 := td0[b0 s0]! ^^^ td1[b1 s3]! ^^^ td2[b2 s2]! ^^^ td3[b3 s1]! ^^^ rk[i]!
    let t1 := td0[b0 s1]! ^^^ td1[b1 s0]! ^^^ td2[b2 s3]! ^^^ td3[b3 s2]! ^^^ rk[i+1]!
    let t2 := td0[b0 s2]! ^^^ td1[b1 s1]! ^^^ td2[b2 s0]! ^^^ td3[b3 s3]! ^^^ rk[i+2]!
    let t3 := td0[b0 s3]! ^^^ td1[b1 s2]! ^^^ td2[b2 s1]! ^^^ td3[b3 s0]! ^^^ rk[i+3]!
    decRounds rk n (i+4) t0 t1 t2 t3

/-- Cipher (FIPS-197 §5.1) on four big-endian column words. -/
def encryptWords (k : AesKey) (a0 a1 a2 a3 : UInt32) : UInt32 × UInt32 × UInt32 × UInt32 :=
  let rk := k.enc
  encRounds rk (k.rounds - 1) 4 (a0 ^^^ rk[0]!) (a1 ^^^ rk[1]!) (a2 ^^^ rk[2]!) (a3 ^^^ rk[3]!)

/-- EqInvCipher (FIPS-197 §5.3.5) on four big-endian column words. -/
def decryptWords (k : AesKey) (a0 a1 a2 a3 : UInt32) : UInt32 × UInt32 × UInt32 × UInt32 :=
  let rk := k.dec
  decRounds rk (k.rounds - 1) 4 (a0 ^^^ rk[0]!) (a1 ^^^ rk[1]!) (a2 ^^^ rk[2]!) (a3 ^^^ rk[3]!)

end AesKey

namespace AesImpl

/-- byte `i`, or 0 beyond the end. -/
@[inline] def gb (b : ByteArray) (i : Nat) : UInt8 := if h : i < b.size then b[i]'h else 0

/-- big-endian 32-bit load at byte offset `i` (bytes beyond the end read as 0). -/
@[inline] def loadBE32 (b : ByteArray) (i : Nat) : UInt32 :=
  w32 (gb b i) (gb b (i+1)) (gb b (i+2)) (gb b (i+3))

/-- append the big-endian bytes of `x`. -/
@[inline] def pushBE32 (o : ByteArray) (x : UInt32) : ByteArray :=
  (((o.push (x >>> 24).toUInt8).push (x >>> 16).toUInt8).push (x >>> 8).toUInt8).push x.toUInt8

/-- zero-pad / truncate to exactly 16 bytes (identity on well-formed blocks). -/
def fit16 (b : ByteArray) : ByteArray :=
  if b.size == 16 then b
  else Id.run do
    let mut o := ByteArray.emptyWithCapacity 16
    for i in [0:16] do
      o := o.push (gb b i)
    return o

end AesImpl

open AesImpl in
/-- AES block encryption, 16 bytes → 16 bytes (input is zero-padded/truncated to 16 bytes). -/
def AesKey.encryptBlock (k : AesKey) (b : ByteArray) : ByteArray :=
  let b := fit16 b
  let (t0, t1, t2, t3) := k.encryptWords (loadBE32 b 0) (loadBE32 b 4) (loadBE32 b 8) (loadBE32 b 12)
  pushBE32 (pushBE32 (pushBE32 (pushBE32 (ByteArray.emptyWithCapacity 16) t0) t1) t2) t3

open AesImpl in
/-- AES block decryption, 16 bytes → 16 bytes. -/
def AesKey.decryptBlock (k : AesKey) (b : ByteArray) : ByteArray :=
  let b := fit16 b
  let (t0, t1, t2, t3) := k.decryptWords (loadBE32 b 0) (loadBE32 b 4) (loadBE32 b 8) (loadBE32 b 12)
  pushBE32 (pushBE32 (pushBE32 (pushBE32 (ByteArray.emptyWithCapacity 16) t0) t1) t2) t3

end TinkVerif.Prim
