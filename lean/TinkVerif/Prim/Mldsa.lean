/-
  ML-DSA (FIPS 204, August 2024) — executable reference, written from the standard's
  Algorithms 1–49 and named after them.  Core Lean only.

  Conventions
  * `Poly` is an `Array Nat` of exactly 256 coefficients, each in `[0, q)`.  A "signed" polynomial
    of the standard (s₁, s₂, t₀, y, z, r₀, c, …) is stored by its residues mod q; `centered`
    gives `· mod± q` back as an `Int`, `infNorm` is ‖·‖∞ of the standard.
  * Vectors are `Array Poly`, the matrix Â is `Array (Array Poly)` (row major: `A[r][s]`).
  * Byte strings are `ByteArray`; bit strings of the standard never materialise: the packing
    functions fuse IntegerToBits/BitsToBytes (little-endian bit order, §7.1) in an accumulator.
  * No function is `partial`: the three rejection samplers and the signing loop take fuel.  The
    samplers squeeze the XOF one rate-sized block at a time, which yields the same byte stream as
    the standard's byte-by-byte squeezing.
-/
import TinkVerif.Base.Bytes
import TinkVerif.Prim.Keccak

namespace TinkVerif.Prim.Mldsa

/-! ### Parameters (FIPS 204 §4, Table 1 and Table 2) -/

/-- the modulus q = 2²³ − 2¹³ + 1 -/
def q : Nat := 8380417
/-- number of dropped bits of t -/
def d : Nat := 13
/-- 512-th root of unity mod q -/
def zeta : Nat := 1753

/-- bitlen of the standard (§2.3): number of bits of `n`, 0 for 0. -/
def bitlen (n : Nat) : Nat := if n = 0 then 0 else n.log2 + 1

structure Params where
  k : Nat
  l : Nat
  eta : Nat
  tau : Nat
  beta : Nat
  gamma1 : Nat
  gamma2 : Nat
  omega : Nat
  lambda : Nat
  deriving Repr, DecidableEq

def mldsa44 : Params :=
  { k := 4, l := 4, eta := 2, tau := 39, beta := 78, gamma1 := 2^17, gamma2 := (q - 1) / 88,
    omega := 80, lambda := 128 }
def mldsa65 : Params :=
  { k := 6, l := 5, eta := 4, tau := 49, beta := 196, gamma1 := 2^19, gamma2 := (q - 1) / 32,
    omega := 55, lambda := 192 }
def mldsa87 : Params :=
  { k := 8, l := 7, eta := 2, tau := 60, beta := 120, gamma1 := 2^19, gamma2 := (q - 1) / 32,
    omega := 75, lambda := 256 }

namespace Params
/-- length of c̃ in bytes: λ/4 -/
def ctildeSize (p : Params) : Nat := p.lambda / 4
/-- bits per coefficient of s₁, s₂ in sk: bitlen(2η) -/
def etaBits (p : Params) : Nat := bitlen (2 * p.eta)
/-- bits per coefficient of z in σ: 1 + bitlen(γ₁ − 1) -/
def zBits (p : Params) : Nat := 1 + bitlen (p.gamma1 - 1)
/-- bits per coefficient of w₁: bitlen((q−1)/(2γ₂) − 1) -/
def w1Bits (p : Params) : Nat := bitlen ((q - 1) / (2 * p.gamma2) - 1)
/-- bits per coefficient of t₁: bitlen(q−1) − d = 10 -/
def t1Bits (_ : Params) : Nat := bitlen (q - 1) - d
def pkSize (p : Params) : Nat := 32 + 32 * p.k * p.t1Bits
def skSize (p : Params) : Nat := 32 + 32 + 64 + 32 * ((p.l + p.k) * p.etaBits + d * p.k)
def sigSize (p : Params) : Nat := p.ctildeSize + p.l * 32 * p.zBits + p.omega + p.k
end Params

/-! ### Arithmetic in Z_q and R_q -/

abbrev Poly := Array Nat

def zeroPoly : Poly := Array.replicate 256 0

/-- force 256 coefficients, each reduced mod q -/
def Poly.normalize (w : Array Nat) : Poly := Array.ofFn (n := 256) fun i => w.getD i.val 0 % q

/-- `a mod± q` for `a ∈ [0, q)` (q odd: result in [−(q−1)/2, (q−1)/2]). -/
def centered (a : Nat) : Int := if a ≤ (q - 1) / 2 then (a : Int) else (a : Int) - (q : Int)

/-- residue in `[0, q)` of an integer -/
def ofInt (x : Int) : Nat := (x % (q : Int)).toNat

/-- |a mod± q| -/
def absCentered (a : Nat) : Nat := if a ≤ (q - 1) / 2 then a else q - a

/-- ‖w‖∞ (§2.3) -/
def infNorm (w : Poly) : Nat := w.foldl (fun m a => max m (absCentered a)) 0
def infNormVec (v : Array Poly) : Nat := v.foldl (fun m w => max m (infNorm w)) 0

@[inline] def addq (a b : Nat) : Nat := (a + b) % q
@[inline] def subq (a b : Nat) : Nat := (a + q - b) % q
@[inline] def mulq (a b : Nat) : Nat := (a * b) % q
@[inline] def negq (a : Nat) : Nat := (q - a) % q

def Poly.add (a b : Poly) : Poly := Array.ofFn (n := 256) fun i => addq a[i.val]! b[i.val]!
def Poly.sub (a b : Poly) : Poly := Array.ofFn (n := 256) fun i => subq a[i.val]! b[i.val]!
def Poly.neg (a : Poly) : Poly := a.map negq
/-- coefficientwise product (the ∘ of T_q, Algorithm 45 MultiplyNTT) -/
def Poly.mulNTT (a b : Poly) : Poly := Array.ofFn (n := 256) fun i => mulq a[i.val]! b[i.val]!
def Poly.scale (c : Nat) (a : Poly) : Poly := a.map (mulq c)

def vecAdd (a b : Array Poly) : Array Poly := Array.ofFn (n := a.size) fun i => a[i.val]!.add b[i.val]!
def vecSub (a b : Array Poly) : Array Poly := Array.ofFn (n := a.size) fun i => a[i.val]!.sub b[i.val]!

/-- modular exponentiation by squaring -/
def powMod (b e : Nat) : Nat := Id.run do
  let mut r := 1
  let mut b := b % q
  let mut e := e
  for _ in [0:64] do
    if e == 0 then break
    if e % 2 == 1 then r := r * b % q
    b := b * b % q
    e := e / 2
  return r

/-- BitRev₈ (§7.5) -/
def bitRev8 (m : Nat) : Nat := Id.run do
  let mut r := 0
  let mut m := m
  for _ in [0:8] do
    r := 2 * r + m % 2
    m := m / 2
  return r

/-- zetas[m] = ζ^BitRev₈(m) mod q (Appendix B) -/
def zetas : Array Nat := (Array.range 256).map fun m => powMod zeta (bitRev8 m)

/-- Algorithm 41 NTT (input is normalised to 256 coefficients mod q first). -/
def ntt (w : Array Nat) : Array Nat := Id.run do
  let mut w := Poly.normalize w
  let mut m := 0
  let mut len := 128
  for _ in [0:8] do                       -- while len ≥ 1
    let mut start := 0
    for _ in [0:128 / len] do             -- while start < 256
      m := m + 1
      let z := zetas[m]!
      for j in [start:start + len] do
        let t := mulq z w[j + len]!
        let wj := w[j]!
        w := w.set! (j + len) (subq wj t)
        w := w.set! j (addq wj t)
      start := start + 2 * len
    len := len / 2
  return w

/-- Algorithm 42 NTT⁻¹, f = 256⁻¹ mod q = 8347681. -/
def nttInv (w : Array Nat) : Array Nat := Id.run do
  let mut w := Poly.normalize w
  let mut m := 256
  let mut len := 1
  for _ in [0:8] do                       -- while len < 256
    let mut start := 0
    for _ in [0:128 / len] do             -- while start < 256
      m := m - 1
      let z := negq zetas[m]!
      for j in [start:start + len] do
        let t := w[j]!
        let u := w[j + len]!
        w := w.set! j (addq t u)
        w := w.set! (j + len) (mulq z (subq t u))
      start := start + 2 * len
    len := 2 * len
  let f := 8347681
  return w.map (mulq f)

def vecNTT (v : Array Poly) : Array Poly := v.map ntt
def vecNTTInv (v : Array Poly) : Array Poly := v.map nttInv

/-- Algorithm 48 MatrixVectorNTT: Â ∘ v̂ -/
def matVecNTT (A : Array (Array Poly)) (v : Array Poly) : Array Poly :=
  A.map fun row => Id.run do
    let mut acc := zeroPoly
    for s in [0:row.size] do
      acc := acc.add (row[s]!.mulNTT v[s]!)
    return acc

/-- Algorithm 47 ScalarVectorNTT: ĉ ∘ v̂ -/
def scalarVecNTT (c : Poly) (v : Array Poly) : Array Poly := v.map (c.mulNTT ·)

/-! ### Rounding and hints (§7.4) -/

/-- Algorithm 35 Power2Round: `r ↦ (r₁, r₀)` with `r mod q = r₁·2ᵈ + r₀`, `r₀ ∈ (−2ᵈ⁻¹, 2ᵈ⁻¹]`. -/
def power2Round (r : Nat) : Nat × Int :=
  let rp := r % q
  let m := rp % 2^d
  let r0 : Int := if m ≤ 2^(d-1) then (m : Int) else (m : Int) - (2^d : Nat)
  ((((rp : Int) - r0) / ((2^d : Nat) : Int)).toNat, r0)

/-- Algorithm 36 Decompose: `r ↦ (r₁, r₀)` with `r mod q = r₁·2γ₂ + r₀`, except at the wrap-around. -/
def decompose (gamma2 : Nat) (r : Nat) : Nat × Int :=
  let rp := r % q
  let alpha := 2 * gamma2
  let m := rp % alpha
  let r0 : Int := if m ≤ gamma2 then (m : Int) else (m : Int) - (alpha : Int)
  if (rp : Int) - r0 = (q : Int) - 1 then (0, r0 - 1)
  else ((((rp : Int) - r0) / (alpha : Int)).toNat, r0)

/-- Algorithm 37 HighBits -/
def highBits (gamma2 : Nat) (r : Nat) : Nat := (decompose gamma2 r).1
/-- Algorithm 38 LowBits -/
def lowBits (gamma2 : Nat) (r : Nat) : Int := (decompose gamma2 r).2

/-- Algorithm 39 MakeHint; `z`, `r` are residues mod q. -/
def makeHint (gamma2 : Nat) (z r : Nat) : Bool :=
  let r1 := highBits gamma2 r
  let v1 := highBits gamma2 (addq (r % q) (z % q))
  r1 != v1

/-- Algorithm 40 UseHint -/
def useHint (gamma2 : Nat) (h : Bool) (r : Nat) : Nat :=
  let m := (q - 1) / (2 * gamma2)
  let (r1, r0) := decompose gamma2 r
  if h && r0 > 0 then (r1 + 1) % m
  else if h && r0 ≤ 0 then (r1 + m - 1) % m
  else r1

/-! ### Bit packing (§7.1, §7.2).  All packers append to an accumulator `out`. -/

/-- append the low `c` bits of each of the values, little-endian bit order; `c ≤ 32`, and
`256·c` is a multiple of 8 for 256 values so no partial byte remains. -/
def packBitsInto (out : ByteArray) (vals : Array Nat) (c : Nat) : ByteArray := Id.run do
  let mut out := out
  let mut acc : Nat := 0
  let mut nbits : Nat := 0
  for v in vals do
    acc := acc ||| ((v % (1 <<< c)) <<< nbits)
    nbits := nbits + c
    for _ in [0:nbits / 8] do
      out := out.push (UInt8.ofNat (acc % 256))
      acc := acc >>> 8
    nbits := nbits % 8
  if nbits > 0 then out := out.push (UInt8.ofNat (acc % 256))
  return out

/-- read 256 values of `c` bits each from `v` starting at byte offset `off`
(missing bytes read as 0). -/
def unpackBits (v : ByteArray) (off : Nat) (c : Nat) : Array Nat := Id.run do
  let mut w : Array Nat := Array.mkEmpty 256
  let mut acc : Nat := 0
  let mut nbits : Nat := 0
  let mut pos := off
  for _ in [0:256] do
    for _ in [0:(c + 7 - nbits) / 8] do     -- while nbits < c
      acc := acc ||| ((v.get! pos).toNat <<< nbits)
      nbits := nbits + 8
      pos := pos + 1
    w := w.push (acc % (1 <<< c))
    acc := acc >>> c
    nbits := nbits - c
  return w

/-- Algorithm 16 SimpleBitPack(w, b): coefficients in [0, b], bitlen b bits each. -/
def simpleBitPackInto (out : ByteArray) (w : Poly) (b : Nat) : ByteArray :=
  packBitsInto out w (bitlen b)
def simpleBitPack (w : Poly) (b : Nat) : ByteArray :=
  simpleBitPackInto (ByteArray.emptyWithCapacity (32 * bitlen b)) w b

/-- Algorithm 17 BitPack(w, a, b): coefficients (mod q) representing values in [−a, b];
packs b − wᵢ in bitlen(a+b) bits. -/
def bitPackInto (out : ByteArray) (w : Poly) (a b : Nat) : ByteArray :=
  packBitsInto out (w.map fun wi => subq (b % q) wi) (bitlen (a + b))
def bitPack (w : Poly) (a b : Nat) : ByteArray :=
  bitPackInto (ByteArray.emptyWithCapacity (32 * bitlen (a + b))) w a b

/-- Algorithm 18 SimpleBitUnpack(v, b), reading `32·bitlen b` bytes of `v` from offset `off`. -/
def simpleBitUnpack (v : ByteArray) (b : Nat) (off : Nat := 0) : Poly :=
  unpackBits v off (bitlen b)

/-- Algorithm 19 BitUnpack(v, a, b), reading `32·bitlen(a+b)` bytes of `v` from offset `off`;
result coefficients are `b − z` as residues mod q (they lie in [b − 2^c + 1, b]). -/
def bitUnpack (v : ByteArray) (a b : Nat) (off : Nat := 0) : Poly :=
  (unpackBits v off (bitlen (a + b))).map fun z => subq (b % q) (z % q)

/-- Algorithm 20 HintBitPack: `h` is a vector of k polynomials with coefficients 0/1 having at
most ω ones in total; output ω + k bytes. -/
def hintBitPack (omega : Nat) (h : Array Poly) : ByteArray := Id.run do
  let k := h.size
  let mut y : ByteArray := ⟨Array.replicate (omega + k) 0⟩
  let mut index := 0
  for i in [0:k] do
    for j in [0:256] do
      if h[i]![j]! != 0 then
        y := y.set! index (UInt8.ofNat j)
        index := index + 1
    y := y.set! (omega + i) (UInt8.ofNat index)
  return y

/-- Algorithm 21 HintBitUnpack on the ω + k bytes of `y` starting at `off`; `none` is ⊥. -/
def hintBitUnpack (omega k : Nat) (y : ByteArray) (off : Nat := 0) : Option (Array Poly) := Id.run do
  if y.size < off + omega + k then return none
  let yb (i : Nat) : Nat := (y.get! (off + i)).toNat
  let mut h : Array Poly := Array.replicate k zeroPoly
  let mut index := 0
  for i in [0:k] do
    let lim := yb (omega + i)
    if lim < index || lim > omega then return none
    let first := index
    let mut hi := zeroPoly
    for _ in [0:omega] do                  -- while Index < y[ω + i]
      if index < lim then
        if index > first then
          if yb (index - 1) ≥ yb index then return none
        hi := hi.set! (yb index) 1
        index := index + 1
    h := h.set! i hi
  for i in [index:omega] do
    if yb i != 0 then return none
  return some h

/-- number of non-zero coefficients in a vector -/
def countOnes (h : Array Poly) : Nat :=
  h.foldl (fun n w => w.foldl (fun n a => if a != 0 then n + 1 else n) n) 0

/-! ### Encodings (§7.2) -/

/-- Algorithm 22 pkEncode -/
def pkEncode (p : Params) (rho : ByteArray) (t1 : Array Poly) : ByteArray := Id.run do
  let mut pk := (ByteArray.emptyWithCapacity p.pkSize) ++ rho
  for i in [0:p.k] do
    pk := simpleBitPackInto pk t1[i]! (2^p.t1Bits - 1)
  return pk

/-- Algorithm 23 pkDecode (length must be `p.pkSize`). -/
def pkDecode (p : Params) (pk : ByteArray) : ByteArray × Array Poly :=
  let rho := pk.extract 0 32
  let t1 := (Array.range p.k).map fun i => simpleBitUnpack pk (2^p.t1Bits - 1) (32 + 32 * p.t1Bits * i)
  (rho, t1)

/-- Algorithm 24 skEncode -/
def skEncode (p : Params) (rho key tr : ByteArray) (s1 s2 t0 : Array Poly) : ByteArray := Id.run do
  let mut sk := (ByteArray.emptyWithCapacity p.skSize) ++ rho ++ key ++ tr
  for i in [0:p.l] do
    sk := bitPackInto sk s1[i]! p.eta p.eta
  for i in [0:p.k] do
    sk := bitPackInto sk s2[i]! p.eta p.eta
  for i in [0:p.k] do
    sk := bitPackInto sk t0[i]! (2^(d-1) - 1) (2^(d-1))
  return sk

structure SkParts where
  rho : ByteArray
  key : ByteArray
  tr : ByteArray
  s1 : Array Poly
  s2 : Array Poly
  t0 : Array Poly

/-- Algorithm 25 skDecode, literally: no range check on s₁, s₂ (a 3- or 4-bit field may decode to
a value below −η; the standard says skDecode "should only be run on trusted inputs").
`none` only if the length is wrong. -/
def skDecodeRaw (p : Params) (sk : ByteArray) : Option SkParts :=
  if sk.size != p.skSize then none else
  let rho := sk.extract 0 32
  let key := sk.extract 32 64
  let tr := sk.extract 64 128
  let sb := 32 * p.etaBits
  let s1 := (Array.range p.l).map fun i => bitUnpack sk p.eta p.eta (128 + sb * i)
  let o2 := 128 + sb * p.l
  let s2 := (Array.range p.k).map fun i => bitUnpack sk p.eta p.eta (o2 + sb * i)
  let o3 := o2 + sb * p.k
  let t0 := (Array.range p.k).map fun i => bitUnpack sk (2^(d-1) - 1) (2^(d-1)) (o3 + 32 * d * i)
  some { rho, key, tr, s1, s2, t0 }

/-- Algorithm 25 skDecode with input validation: `none` if the length is wrong or if a
coefficient of s₁ or s₂ decodes outside [−η, η] ("malformed input" of the standard). -/
def skDecode (p : Params) (sk : ByteArray) : Option SkParts :=
  match skDecodeRaw p sk with
  | none => none
  | some parts =>
    if infNormVec parts.s1 > p.eta || infNormVec parts.s2 > p.eta then none else some parts

/-- Algorithm 26 sigEncode; z given by residues mod q with ‖z‖∞ < γ₁. -/
def sigEncode (p : Params) (ctilde : ByteArray) (z : Array Poly) (h : Array Poly) : ByteArray := Id.run do
  let mut s := (ByteArray.emptyWithCapacity p.sigSize) ++ ctilde
  for i in [0:p.l] do
    s := bitPackInto s z[i]! (p.gamma1 - 1) p.gamma1
  return s ++ hintBitPack p.omega h

/-- Algorithm 27 sigDecode (length must be `p.sigSize`); `none` iff the hint is ⊥. -/
def sigDecode (p : Params) (sig : ByteArray) : Option (ByteArray × Array Poly × Array Poly) :=
  let ctilde := sig.extract 0 p.ctildeSize
  let zb := 32 * p.zBits
  let z := (Array.range p.l).map fun i => bitUnpack sig (p.gamma1 - 1) p.gamma1 (p.ctildeSize + zb * i)
  match hintBitUnpack p.omega p.k sig (p.ctildeSize + zb * p.l) with
  | none => none
  | some h => some (ctilde, z, h)

/-- Algorithm 28 w1Encode -/
def w1Encode (p : Params) (w1 : Array Poly) : ByteArray := Id.run do
  let mut out := ByteArray.emptyWithCapacity (32 * p.k * p.w1Bits)
  for i in [0:p.k] do
    out := simpleBitPackInto out w1[i]! ((q - 1) / (2 * p.gamma2) - 1)
  return out

/-! ### Hashing and pseudorandom sampling (§7.3).  H = SHAKE256, G = SHAKE128. -/

def H (m : ByteArray) (n : Nat) : ByteArray := shake256 m n

/-- IntegerToBytes(x, n) (Algorithm 11) -/
def integerToBytes (x n : Nat) : ByteArray := ⟨(Array.range n).map fun i => UInt8.ofNat (x / 256^i % 256)⟩

/-- rejection-sampling fuel, in XOF blocks (never reached in practice: the loops stop as soon
as the polynomial is complete) -/
def sampleFuel : Nat := 100000

/-- Algorithm 29 SampleInBall(ρ): polynomial with τ coefficients ±1 and the rest 0. -/
def sampleInBall (tau : Nat) (rho : ByteArray) : Poly := Id.run do
  let (s, ctx0) := (Xof.shake256 rho).squeeze 8
  -- h = BytesToBits(s): h[b] is bit (b mod 8) of byte b/8
  let hbit (b : Nat) : Bool := (s.get! (b / 8)).toNat / 2^(b % 8) % 2 == 1
  let mut ctx := ctx0
  let mut c := zeroPoly
  let mut i := 256 - tau
  for _ in [0:sampleFuel] do
    if i ≥ 256 then break
    let (buf, ctx') := ctx.squeeze 136
    ctx := ctx'
    for jb in buf.data do
      let j := jb.toNat
      if i < 256 && j ≤ i then             -- bytes with j > i are rejected
        c := c.set! i c[j]!
        c := c.set! j (if hbit (i + tau - 256) then q - 1 else 1)
        i := i + 1
  return c

/-- Algorithm 14 CoeffFromThreeBytes -/
def coeffFromThreeBytes (b0 b1 b2 : UInt8) : Option Nat :=
  let b2' := b2.toNat % 128
  let z := 65536 * b2' + 256 * b1.toNat + b0.toNat
  if z < q then some z else none

/-- Algorithm 15 CoeffFromHalfByte (result as residue mod q) -/
def coeffFromHalfByte (eta : Nat) (b : Nat) : Option Nat :=
  if eta == 2 && b < 15 then some (subq 2 (b % 5))
  else if eta == 4 && b < 9 then some (subq 4 b)
  else none

/-- Algorithm 30 RejNTTPoly(ρ), ρ of 34 bytes. -/
def rejNTTPoly (rho : ByteArray) : Poly := Id.run do
  let mut ctx := Xof.shake128 rho
  let mut a : Poly := Array.mkEmpty 256
  for _ in [0:sampleFuel] do
    if a.size ≥ 256 then break
    let (buf, ctx') := ctx.squeeze 168       -- 56 groups of three bytes
    ctx := ctx'
    for t in [0:56] do
      if a.size < 256 then
        match coeffFromThreeBytes (buf.get! (3*t)) (buf.get! (3*t+1)) (buf.get! (3*t+2)) with
        | some z => a := a.push z
        | none => pure ()
  return a

/-- Algorithm 31 RejBoundedPoly(ρ), ρ of 66 bytes. -/
def rejBoundedPoly (eta : Nat) (rho : ByteArray) : Poly := Id.run do
  let mut ctx := Xof.shake256 rho
  let mut a : Poly := Array.mkEmpty 256
  for _ in [0:sampleFuel] do
    if a.size ≥ 256 then break
    let (buf, ctx') := ctx.squeeze 136
    ctx := ctx'
    for zb in buf.data do
      let z := zb.toNat
      if a.size < 256 then
        match coeffFromHalfByte eta (z % 16) with
        | some z0 => a := a.push z0
        | none => pure ()
      if a.size < 256 then
        match coeffFromHalfByte eta (z / 16) with
        | some z1 => a := a.push z1
        | none => pure ()
  return a

/-- Algorithm 32 ExpandA -/
def expandA (p : Params) (rho : ByteArray) : Array (Array Poly) :=
  (Array.range p.k).map fun r => (Array.range p.l).map fun s =>
    rejNTTPoly (rho ++ integerToBytes s 1 ++ integerToBytes r 1)

/-- Algorithm 33 ExpandS -/
def expandS (p : Params) (rho : ByteArray) : Array Poly × Array Poly :=
  let s1 := (Array.range p.l).map fun r => rejBoundedPoly p.eta (rho ++ integerToBytes r 2)
  let s2 := (Array.range p.k).map fun r => rejBoundedPoly p.eta (rho ++ integerToBytes (r + p.l) 2)
  (s1, s2)

/-- Algorithm 34 ExpandMask(ρ, μ) -/
def expandMask (p : Params) (rho : ByteArray) (mu : Nat) : Array Poly :=
  let c := 1 + bitlen (p.gamma1 - 1)
  (Array.range p.l).map fun r =>
    let rho' := rho ++ integerToBytes (mu + r) 2
    let v := H rho' (32 * c)
    bitUnpack v (p.gamma1 - 1) p.gamma1

/-! ### Key generation, signing, verification (§6) -/

/-- Algorithm 6 ML-DSA.KeyGen_internal(ξ); returns (pk, sk). -/
def keyGenInternal (p : Params) (xi32 : ByteArray) : ByteArray × ByteArray :=
  let seed := H (xi32 ++ integerToBytes p.k 1 ++ integerToBytes p.l 1) 128
  let rho := seed.extract 0 32
  let rho' := seed.extract 32 96
  let key := seed.extract 96 128
  let A := expandA p rho
  let (s1, s2) := expandS p rho'
  let t := vecAdd (vecNTTInv (matVecNTT A (vecNTT s1))) s2
  let t1 := t.map fun w => w.map fun r => (power2Round r).1
  let t0 := t.map fun w => w.map fun r => ofInt (power2Round r).2
  let pk := pkEncode p rho t1
  let tr := H pk 64
  let sk := skEncode p rho key tr s1 s2 t0
  (pk, sk)

/-- default bound on the number of iterations of the signing loop (FIPS 204 Appendix C allows
implementations to bound it, with at least 814 iterations).  κ stays below 2¹⁶. -/
def signFuel : Nat := 4096

/-- Lines 2–33 of Algorithm 7 starting from a given μ.  A candidate (z, h) that passes the
standard's checks of lines 23 and 28 is additionally filtered by
`accept κ ‖z‖∞ (number of ones in h)`, with κ the counter used for this attempt's ExpandMask.
`zBound` is the bound of line 23 on ‖z‖∞ (γ₁ − β in the standard); passing a larger value
(≤ γ₁) yields "signatures" that a correct verifier must reject, for negative boundary tests. -/
def signCore (p : Params) (sk : SkParts) (mu : ByteArray) (rnd : ByteArray)
    (accept : Nat → Nat → Nat → Bool) (fuel : Nat := signFuel)
    (zBound : Nat := p.gamma1 - p.beta) : Option ByteArray := Id.run do
  let s1h := vecNTT sk.s1
  let s2h := vecNTT sk.s2
  let t0h := vecNTT sk.t0
  let A := expandA p sk.rho
  let rho'' := H (sk.key ++ rnd ++ mu) 64
  let mut kappa := 0
  for _ in [0:fuel] do
    let y := expandMask p rho'' kappa
    let w := vecNTTInv (matVecNTT A (vecNTT y))
    let w1 := w.map fun wi => wi.map (highBits p.gamma2)
    let ctilde := H (mu ++ w1Encode p w1) p.ctildeSize
    let c := sampleInBall p.tau ctilde
    let ch := ntt c
    let cs1 := vecNTTInv (scalarVecNTT ch s1h)
    let cs2 := vecNTTInv (scalarVecNTT ch s2h)
    let z := vecAdd y cs1
    let wcs2 := vecSub w cs2
    let r0 := wcs2.map fun wi => wi.map fun r => ofInt (lowBits p.gamma2 r)
    let zNorm := infNormVec z
    if zNorm ≥ zBound || infNormVec r0 ≥ p.gamma2 - p.beta then
      pure ()                              -- (z, h) ← ⊥
    else
      let ct0 := vecNTTInv (scalarVecNTT ch t0h)
      let r := vecAdd wcs2 ct0
      let h : Array Poly := Array.ofFn (n := p.k) fun i =>
        Array.ofFn (n := 256) fun j =>
          if makeHint p.gamma2 (negq ct0[i.val]![j.val]!) r[i.val]![j.val]! then 1 else 0
      let ones := countOnes h
      if infNormVec ct0 ≥ p.gamma2 || ones > p.omega then
        pure ()                            -- (z, h) ← ⊥
      else if accept kappa zNorm ones then
        return some (sigEncode p ctilde z h)
    kappa := kappa + p.l
  return none

/-- μ ← H(H(pk, 64) ‖ M′, 64) (Algorithm 7 line 6 / Algorithm 8 lines 6–7 with tr = H(pk, 64)). -/
def computeMu (_p : Params) (pk mPrime : ByteArray) : ByteArray := H (H pk 64 ++ mPrime) 64

/-- Algorithm 7 with the extra acceptance filter (see `signCore`). -/
def signInternalWith (p : Params) (sk mPrime rnd32 : ByteArray)
    (accept : (kappa : Nat) → (zInfNorm : Nat) → (hintCount : Nat) → Bool) : Option ByteArray :=
  if rnd32.size != 32 then none else
  match skDecode p sk with
  | none => none
  | some parts => signCore p parts (H (parts.tr ++ mPrime) 64) rnd32 accept

/-- Algorithm 7 ML-DSA.Sign_internal(sk, M′, rnd).  `none` only for malformed `sk`/`rnd` or
after `signFuel` rejected attempts. -/
def signInternal (p : Params) (sk mPrime rnd32 : ByteArray) : Option ByteArray :=
  signInternalWith p sk mPrime rnd32 fun _ _ _ => true

/-- Algorithm 7 entered at line 7 with an externally computed μ (64 bytes), with filter. -/
def signMuInternalWith (p : Params) (sk mu64 rnd32 : ByteArray)
    (accept : Nat → Nat → Nat → Bool) : Option ByteArray :=
  if rnd32.size != 32 || mu64.size != 64 then none else
  match skDecode p sk with
  | none => none
  | some parts => signCore p parts mu64 rnd32 accept

def signMuInternal (p : Params) (sk mu64 rnd32 : ByteArray) : Option ByteArray :=
  signMuInternalWith p sk mu64 rnd32 fun _ _ _ => true

/-- Algorithm 8 lines 1–5 and 8–13 for a given μ. -/
def verifyMuInternal (p : Params) (pk mu64 sig : ByteArray) : Bool :=
  if pk.size != p.pkSize || sig.size != p.sigSize || mu64.size != 64 then false else
  let (rho, t1) := pkDecode p pk
  match sigDecode p sig with
  | none => false
  | some (ctilde, z, h) =>
    let A := expandA p rho
    let c := sampleInBall p.tau ctilde
    let ch := ntt c
    let t1d := t1.map fun w => ntt (w.scale (2^d))
    let wApprox := vecNTTInv (vecSub (matVecNTT A (vecNTT z)) (scalarVecNTT ch t1d))
    let w1' : Array Poly := Array.ofFn (n := p.k) fun i =>
      Array.ofFn (n := 256) fun j =>
        useHint p.gamma2 (h[i.val]![j.val]! != 0) wApprox[i.val]![j.val]!
    let ctilde' := H (mu64 ++ w1Encode p w1') p.ctildeSize
    infNormVec z < p.gamma1 - p.beta && ctilde.data == ctilde'.data

/-- Algorithm 8 ML-DSA.Verify_internal(pk, M′, σ); `false` also for wrong pk/σ lengths. -/
def verifyInternal (p : Params) (pk mPrime sig : ByteArray) : Bool :=
  if pk.size != p.pkSize then false else
  verifyMuInternal p pk (computeMu p pk mPrime) sig

/-- M′ of Algorithms 2 and 3 (pure ML-DSA): 0x00 ‖ |ctx| ‖ ctx ‖ M; `none` if |ctx| > 255. -/
def formatMessage (ctx msg : ByteArray) : Option ByteArray :=
  if ctx.size > 255 then none
  else some (integerToBytes 0 1 ++ integerToBytes ctx.size 1 ++ ctx ++ msg)

end TinkVerif.Prim.Mldsa
