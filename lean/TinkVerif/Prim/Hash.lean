/-
  SHA-1, SHA-224/256, SHA-384/512 (FIPS 180-4), HMAC (RFC 2104), HKDF (RFC 5869), MGF1 (RFC 8017 B.2.1)
  — executable reference. Core Lean only.

  Speed: the chaining value and the 16-word message window are structures of unboxed scalar fields,
  and the round function is unrolled 16 rounds at a time (`Array UInt64` would box every element).
-/
import TinkVerif.Base.Bytes

namespace TinkVerif.Prim

inductive HashAlg | sha1 | sha224 | sha256 | sha384 | sha512
  deriving DecidableEq, Repr

def HashAlg.digestLen : HashAlg → Nat
  | .sha1 => 20 | .sha224 => 28 | .sha256 => 32 | .sha384 => 48 | .sha512 => 64

def HashAlg.blockLen : HashAlg → Nat
  | .sha1 => 64 | .sha224 => 64 | .sha256 => 64 | .sha384 => 128 | .sha512 => 128

namespace ShaImpl

/-! ### 32-bit words (SHA-1, SHA-224, SHA-256) -/

/-- sixteen consecutive message-schedule words -/
structure W32 where
  (w0 w1 w2 w3 w4 w5 w6 w7 w8 w9 w10 w11 w12 w13 w14 w15 : UInt32)

/-- eight 32-bit chaining words -/
structure S32 where
  (a b c d e f g h : UInt32)

@[inline] private def rotr32 (x : UInt32) (n : UInt32) : UInt32 := (x >>> n) ||| (x <<< (32 - n))
@[inline] private def rotl32 (x : UInt32) (n : UInt32) : UInt32 := (x <<< n) ||| (x >>> (32 - n))

@[inline] private def be32 (b : ByteArray) (o : Nat) : UInt32 :=
  ((b.get! o).toUInt32 <<< 24) ||| ((b.get! (o+1)).toUInt32 <<< 16) |||
  ((b.get! (o+2)).toUInt32 <<< 8) ||| (b.get! (o+3)).toUInt32

/-- the 64-byte block of `b` at offset `off` as 16 big-endian words -/
def W32.load (b : ByteArray) (off : Nat) : W32 :=
  { w0 := be32 b (off + 0)
    w1 := be32 b (off + 4)
    w2 := be32 b (off + 8)
    w3 := be32 b (off + 12)
    w4 := be32 b (off + 16)
    w5 := be32 b (off + 20)
    w6 := be32 b (off + 24)
    w7 := be32 b (off + 28)
    w8 := be32 b (off + 32)
    w9 := be32 b (off + 36)
    w10 := be32 b (off + 40)
    w11 := be32 b (off + 44)
    w12 := be32 b (off + 48)
    w13 := be32 b (off + 52)
    w14 := be32 b (off + 56)
    w15 := be32 b (off + 60) }

@[inline] private def push32 (o : ByteArray) (x : UInt32) : ByteArray :=
  (((o.push (x >>> 24).toUInt8).push (x >>> 16).toUInt8).push (x >>> 8).toUInt8).push x.toUInt8

/-! #### SHA-256 -/

def k256 : Array UInt32 := #[
  0x428a2f98, 0x71374491, 0xb5c0fbcf, 0xe9b5dba5, 0x3956c25b, 0x59f111f1, 0x923f82a4, 0xab1c5ed5,
  0xd807aa98, 0x12835b01, 0x243185be, 0x550c7dc3, 0x72be5d74, 0x80deb1fe, 0x9bdc06a7, 0xc19bf174,
  0xe49b69c1, 0xefbe4786, 0x0fc19dc6, 0x240ca1cc, 0x2de92c6f, 0x4a7484aa, 0x5cb0a9dc, 0x76f988da,
  0x983e5152, 0xa831c66d, 0xb00327c8, 0xbf597fc7, 0xc6e00bf3, 0xd5a79147, 0x06ca6351, 0x14292967,
  0x27b70a85, 0x2e1b2138, 0x4d2c6dfc, 0x53380d13, 0x650a7354, 0x766a0abb, 0x81c2c92e, 0x92722c85,
  0xa2bfe8a1, 0xa81a664b, 0xc24b8b70, 0xc76c51a3, 0xd192e819, 0xd6990624, 0xf40e3585, 0x106aa070,
  0x19a4c116, 0x1e376c08, 0x2748774c, 0x34b0bcb5, 0x391c0cb3, 0x4ed8aa4a, 0x5b9cca4f, 0x682e6ff3,
  0x748f82ee, 0x78a5636f, 0x84c87814, 0x8cc70208, 0x90befffa, 0xa4506ceb, 0xbef9a3f7, 0xc67178f2
]

@[inline] private def ssig0 (x : UInt32) : UInt32 := rotr32 x 7 ^^^ rotr32 x 18 ^^^ (x >>> 3)
@[inline] private def ssig1 (x : UInt32) : UInt32 := rotr32 x 17 ^^^ rotr32 x 19 ^^^ (x >>> 10)
@[inline] private def bsig0 (x : UInt32) : UInt32 := rotr32 x 2 ^^^ rotr32 x 13 ^^^ rotr32 x 22
@[inline] private def bsig1 (x : UInt32) : UInt32 := rotr32 x 6 ^^^ rotr32 x 11 ^^^ rotr32 x 25
@[inline] private def ch32 (x y z : UInt32) : UInt32 := (x &&& y) ^^^ (~~~x &&& z)
@[inline] private def maj32 (x y z : UInt32) : UInt32 := (x &&& y) ^^^ (x &&& z) ^^^ (y &&& z)

/-- words `W[t+16] … W[t+31]` from `W[t] … W[t+15]` -/
def sha256Sched (w : W32) : W32 :=
  let n0 := ssig1 w.w14 + w.w9 + ssig0 w.w1 + w.w0
  let n1 := ssig1 w.w15 + w.w10 + ssig0 w.w2 + w.w1
  let n2 := ssig1 n0 + w.w11 + ssig0 w.w3 + w.w2
  let n3 := ssig1 n1 + w.w12 + ssig0 w.w4 + w.w3
  let n4 := ssig1 n2 + w.w13 + ssig0 w.w5 + w.w4
  let n5 := ssig1 n3 + w.w14 + ssig0 w.w6 + w.w5
  let n6 := ssig1 n4 + w.w15 + ssig0 w.w7 + w.w6
  let n7 := ssig1 n5 + n0 + ssig0 w.w8 + w.w7
  let n8 := ssig1 n6 + n1 + ssig0 w.w9 + w.w8
  let n9 := ssig1 n7 + n2 + ssig0 w.w10 + w.w9
  let n10 := ssig1 n8 + n3 + ssig0 w.w11 + w.w10
  let n11 := ssig1 n9 + n4 + ssig0 w.w12 + w.w11
  let n12 := ssig1 n10 + n5 + ssig0 w.w13 + w.w12
  let n13 := ssig1 n11 + n6 + ssig0 w.w14 + w.w13
  let n14 := ssig1 n12 + n7 + ssig0 w.w15 + w.w14
  let n15 := ssig1 n13 + n8 + ssig0 n0 + w.w15
  ⟨n0, n1, n2, n3, n4, n5, n6, n7, n8, n9, n10, n11, n12, n13, n14, n15⟩

/-- rounds `base … base+15` with message words `w` -/
def sha256R16 (s : S32) (w : W32) (base : Nat) : S32 :=
  let t1 := s.h + bsig1 s.e + ch32 s.e s.f s.g + k256[base + 0]! + w.w0
  let t2 := bsig0 s.a + maj32 s.a s.b s.c
  let e0 := s.d + t1
  let a0 := t1 + t2
  let t1 := s.g + bsig1 e0 + ch32 e0 s.e s.f + k256[base + 1]! + w.w1
  let t2 := bsig0 a0 + maj32 a0 s.a s.b
  let e1 := s.c + t1
  let a1 := t1 + t2
  let t1 := s.f + bsig1 e1 + ch32 e1 e0 s.e + k256[base + 2]! + w.w2
  let t2 := bsig0 a1 + maj32 a1 a0 s.a
  let e2 := s.b + t1
  let a2 := t1 + t2
  let t1 := s.e + bsig1 e2 + ch32 e2 e1 e0 + k256[base + 3]! + w.w3
  let t2 := bsig0 a2 + maj32 a2 a1 a0
  let e3 := s.a + t1
  let a3 := t1 + t2
  let t1 := e0 + bsig1 e3 + ch32 e3 e2 e1 + k256[base + 4]! + w.w4
  let t2 := bsig0 a3 + maj32 a3 a2 a1
  let e4 := a0 + t1
  let a4 := t1 + t2
  let t1 := e1 + bsig1 e4 + ch32 e4 e3 e2 + k256[base + 5]! + w.w5
  let t2 := bsig0 a4 + maj32 a4 a3 a2
  let e5 := a1 + t1
  let a5 := t1 + t2
  let t1 := e2 + bsig1 e5 + ch32 e5 e4 e3 + k256[base + 6]! + w.w6
  let t2 := bsig0 a5 + maj32 a5 a4 a3
  let e6 := a2 + t1
  let a6 := t1 + t2
  let t1 := e3 + bsig1 e6 + ch32 e6 e5 e4 + k256[base + 7]! + w.w7
  let t2 := bsig0 a6 + maj32 a6 a5 a4
  let e7 := a3 + t1
  let a7 := t1 + t2
  let t1 := e4 + bsig1 e7 + ch32 e7 e6 e5 + k256[base + 8]! + w.w8
  let t2 := bsig0 a7 + maj32 a7 a6 a5
  let e8 := a4 + t1
  let a8 := t1 + t2
  let t1 := e5 + bsig1 e8 + ch32 e8 e7 e6 + k256[base + 9]! + w.w9
  let t2 := bsig0 a8 + maj32 a8 a7 a6
  let e9 := a5 + t1
  let a9 := t1 + t2
  let t1 := e6 + bsig1 e9 + ch32 e9 e8 e7 + k256[base + 10]! + w.w10
  let t2 := bsig0 a9 + maj32 a9 a8 a7
  let e10 := a6 + t1
  let a10 := t1 + t2
  let t1 := e7 + bsig1 e10 + ch32 e10 e9 e8 + k256[base + 11]! + w.w11
  let t2 := bsig0 a10 + maj32 a10 a9 a8
  let e11 := a7 + t1
  let a11 := t1 + t2
  let t1 := e8 + bsig1 e11 + ch32 e11 e10 e9 + k256[base + 12]! + w.w12
  let t2 := bsig0 a11 + maj32 a11 a10 a9
  let e12 := a8 + t1
  let a12 := t1 + t2
  let t1 := e9 + bsig1 e12 + ch32 e12 e11 e10 + k256[base + 13]! + w.w13
  let t2 := bsig0 a12 + maj32 a12 a11 a10
  let e13 := a9 + t1
  let a13 := t1 + t2
  let t1 := e10 + bsig1 e13 + ch32 e13 e12 e11 + k256[base + 14]! + w.w14
  let t2 := bsig0 a13 + maj32 a13 a12 a11
  let e14 := a10 + t1
  let a14 := t1 + t2
  let t1 := e11 + bsig1 e14 + ch32 e14 e13 e12 + k256[base + 15]! + w.w15
  let t2 := bsig0 a14 + maj32 a14 a13 a12
  let e15 := a11 + t1
  let a15 := t1 + t2
  ⟨a15, a14, a13, a12, e15, e14, e13, e12⟩

def sha256Compress (s : S32) (b : ByteArray) (off : Nat) : S32 :=
  let w := W32.load b off
  let t := sha256R16 s w 0
  let w := sha256Sched w
  let t := sha256R16 t w 16
  let w := sha256Sched w
  let t := sha256R16 t w 32
  let w := sha256Sched w
  let t := sha256R16 t w 48
  ⟨s.a + t.a, s.b + t.b, s.c + t.c, s.d + t.d, s.e + t.e, s.f + t.f, s.g + t.g, s.h + t.h⟩

def sha256Init : S32 := ⟨0x6a09e667, 0xbb67ae85, 0x3c6ef372, 0xa54ff53a, 0x510e527f, 0x9b05688c, 0x1f83d9ab, 0x5be0cd19⟩
def sha224Init : S32 := ⟨0xc1059ed8, 0x367cd507, 0x3070dd17, 0xf70e5939, 0xffc00b31, 0x68581511, 0x64f98fa7, 0xbefa4fa4⟩

def S32.toBytes (s : S32) : ByteArray :=
  push32 (push32 (push32 (push32 (push32 (push32 (push32 (push32 (ByteArray.emptyWithCapacity 32)
    s.a) s.b) s.c) s.d) s.e) s.f) s.g) s.h

/-! #### SHA-1 (the chaining value uses fields `a … e` of `S32`; `f g h` stay 0) -/

@[inline] private def sha1F (t : Nat) (b c d : UInt32) : UInt32 :=
  if t < 20 then (b &&& c) ||| (~~~b &&& d)
  else if t < 40 then b ^^^ c ^^^ d
  else if t < 60 then (b &&& c) ||| (b &&& d) ||| (c &&& d)
  else b ^^^ c ^^^ d

@[inline] private def sha1K (t : Nat) : UInt32 :=
  if t < 20 then 0x5a827999 else if t < 40 then 0x6ed9eba1 else if t < 60 then 0x8f1bbcdc else 0xca62c1d6

def sha1Sched (w : W32) : W32 :=
  let n0 := rotl32 (w.w13 ^^^ w.w8 ^^^ w.w2 ^^^ w.w0) 1
  let n1 := rotl32 (w.w14 ^^^ w.w9 ^^^ w.w3 ^^^ w.w1) 1
  let n2 := rotl32 (w.w15 ^^^ w.w10 ^^^ w.w4 ^^^ w.w2) 1
  let n3 := rotl32 (n0 ^^^ w.w11 ^^^ w.w5 ^^^ w.w3) 1
  let n4 := rotl32 (n1 ^^^ w.w12 ^^^ w.w6 ^^^ w.w4) 1
  let n5 := rotl32 (n2 ^^^ w.w13 ^^^ w.w7 ^^^ w.w5) 1
  let n6 := rotl32 (n3 ^^^ w.w14 ^^^ w.w8 ^^^ w.w6) 1
  let n7 := rotl32 (n4 ^^^ w.w15 ^^^ w.w9 ^^^ w.w7) 1
  let n8 := rotl32 (n5 ^^^ n0 ^^^ w.w10 ^^^ w.w8) 1
  let n9 := rotl32 (n6 ^^^ n1 ^^^ w.w11 ^^^ w.w9) 1
  let n10 := rotl32 (n7 ^^^ n2 ^^^ w.w12 ^^^ w.w10) 1
  let n11 := rotl32 (n8 ^^^ n3 ^^^ w.w13 ^^^ w.w11) 1
  let n12 := rotl32 (n9 ^^^ n4 ^^^ w.w14 ^^^ w.w12) 1
  let n13 := rotl32 (n10 ^^^ n5 ^^^ w.w15 ^^^ w.w13) 1
  let n14 := rotl32 (n11 ^^^ n6 ^^^ n0 ^^^ w.w14) 1
  let n15 := rotl32 (n12 ^^^ n7 ^^^ n1 ^^^ w.w15) 1
  ⟨n0, n1, n2, n3, n4, n5, n6, n7, n8, n9, n10, n11, n12, n13, n14, n15⟩

def sha1R16 (s : S32) (w : W32) (base : Nat) : S32 :=
  let a0 := rotl32 s.a 5 + sha1F (base + 0) s.b s.c s.d + s.e + sha1K (base + 0) + w.w0
  let c0 := rotl32 s.b 30
  let a1 := rotl32 a0 5 + sha1F (base + 1) s.a c0 s.c + s.d + sha1K (base + 1) + w.w1
  let c1 := rotl32 s.a 30
  let a2 := rotl32 a1 5 + sha1F (base + 2) a0 c1 c0 + s.c + sha1K (base + 2) + w.w2
  let c2 := rotl32 a0 30
  let a3 := rotl32 a2 5 + sha1F (base + 3) a1 c2 c1 + c0 + sha1K (base + 3) + w.w3
  let c3 := rotl32 a1 30
  let a4 := rotl32 a3 5 + sha1F (base + 4) a2 c3 c2 + c1 + sha1K (base + 4) + w.w4
  let c4 := rotl32 a2 30
  let a5 := rotl32 a4 5 + sha1F (base + 5) a3 c4 c3 + c2 + sha1K (base + 5) + w.w5
  let c5 := rotl32 a3 30
  let a6 := rotl32 a5 5 + sha1F (base + 6) a4 c5 c4 + c3 + sha1K (base + 6) + w.w6
  let c6 := rotl32 a4 30
  let a7 := rotl32 a6 5 + sha1F (base + 7) a5 c6 c5 + c4 + sha1K (base + 7) + w.w7
  let c7 := rotl32 a5 30
  let a8 := rotl32 a7 5 + sha1F (base + 8) a6 c7 c6 + c5 + sha1K (base + 8) + w.w8
  let c8 := rotl32 a6 30
  let a9 := rotl32 a8 5 + sha1F (base + 9) a7 c8 c7 + c6 + sha1K (base + 9) + w.w9
  let c9 := rotl32 a7 30
  let a10 := rotl32 a9 5 + sha1F (base + 10) a8 c9 c8 + c7 + sha1K (base + 10) + w.w10
  let c10 := rotl32 a8 30
  let a11 := rotl32 a10 5 + sha1F (base + 11) a9 c10 c9 + c8 + sha1K (base + 11) + w.w11
  let c11 := rotl32 a9 30
  let a12 := rotl32 a11 5 + sha1F (base + 12) a10 c11 c10 + c9 + sha1K (base + 12) + w.w12
  let c12 := rotl32 a10 30
  let a13 := rotl32 a12 5 + sha1F (base + 13) a11 c12 c11 + c10 + sha1K (base + 13) + w.w13
  let c13 := rotl32 a11 30
  let a14 := rotl32 a13 5 + sha1F (base + 14) a12 c13 c12 + c11 + sha1K (base + 14) + w.w14
  let c14 := rotl32 a12 30
  let a15 := rotl32 a14 5 + sha1F (base + 15) a13 c14 c13 + c12 + sha1K (base + 15) + w.w15
  let c15 := rotl32 a13 30
  ⟨a15, a14, c15, c14, c13, 0, 0, 0⟩

def sha1Compress (s : S32) (b : ByteArray) (off : Nat) : S32 :=
  let w := W32.load b off
  let t := sha1R16 s w 0
  let w := sha1Sched w
  let t := sha1R16 t w 16
  let w := sha1Sched w
  let t := sha1R16 t w 32
  let w := sha1Sched w
  let t := sha1R16 t w 48
  let w := sha1Sched w
  let t := sha1R16 t w 64
  ⟨s.a + t.a, s.b + t.b, s.c + t.c, s.d + t.d, s.e + t.e, 0, 0, 0⟩

def sha1Init : S32 := ⟨0x67452301, 0xefcdab89, 0x98badcfe, 0x10325476, 0xc3d2e1f0, 0, 0, 0⟩

/-! ### 64-bit words (SHA-384, SHA-512) -/

structure W64 where
  (w0 w1 w2 w3 w4 w5 w6 w7 w8 w9 w10 w11 w12 w13 w14 w15 : UInt64)

structure S64 where
  (a b c d e f g h : UInt64)

@[inline] private def rotr64 (x : UInt64) (n : UInt64) : UInt64 := (x >>> n) ||| (x <<< (64 - n))

@[inline] private def be64 (b : ByteArray) (o : Nat) : UInt64 :=
  ((b.get! o).toUInt64 <<< 56) ||| ((b.get! (o+1)).toUInt64 <<< 48) |||
  ((b.get! (o+2)).toUInt64 <<< 40) ||| ((b.get! (o+3)).toUInt64 <<< 32) |||
  ((b.get! (o+4)).toUInt64 <<< 24) ||| ((b.get! (o+5)).toUInt64 <<< 16) |||
  ((b.get! (o+6)).toUInt64 <<< 8) ||| (b.get! (o+7)).toUInt64

/-- the 128-byte block of `b` at offset `off` as 16 big-endian words -/
def W64.load (b : ByteArray) (off : Nat) : W64 :=
  { w0 := be64 b (off + 0)
    w1 := be64 b (off + 8)
    w2 := be64 b (off + 16)
    w3 := be64 b (off + 24)
    w4 := be64 b (off + 32)
    w5 := be64 b (off + 40)
    w6 := be64 b (off + 48)
    w7 := be64 b (off + 56)
    w8 := be64 b (off + 64)
    w9 := be64 b (off + 72)
    w10 := be64 b (off + 80)
    w11 := be64 b (off + 88)
    w12 := be64 b (off + 96)
    w13 := be64 b (off + 104)
    w14 := be64 b (off + 112)
    w15 := be64 b (off + 120) }

@[inline] private def push64 (o : ByteArray) (x : UInt64) : ByteArray :=
  (((((((o.push (x >>> 56).toUInt8).push (x >>> 48).toUInt8).push (x >>> 40).toUInt8).push
    (x >>> 32).toUInt8).push (x >>> 24).toUInt8).push (x >>> 16).toUInt8).push
    (x >>> 8).toUInt8).push x.toUInt8

def k512 : Array UInt64 := #[
  0x428a2f98d728ae22, 0x7137449123ef65cd, 0xb5c0fbcfec4d3b2f, 0xe9b5dba58189dbbc,
  0x3956c25bf348b538, 0x59f111f1b605d019, 0x923f82a4af194f9b, 0xab1c5ed5da6d8118,
  0xd807aa98a3030242, 0x12835b0145706fbe, 0x243185be4ee4b28c, 0x550c7dc3d5ffb4e2,
  0x72be5d74f27b896f, 0x80deb1fe3b1696b1, 0x9bdc06a725c71235, 0xc19bf174cf692694,
  0xe49b69c19ef14ad2, 0xefbe4786384f25e3, 0x0fc19dc68b8cd5b5, 0x240ca1cc77ac9c65,
  0x2de92c6f592b0275, 0x4a7484aa6ea6e483, 0x5cb0a9dcbd41fbd4, 0x76f988da831153b5,
  0x983e5152ee66dfab, 0xa831c66d2db43210, 0xb00327c898fb213f, 0xbf597fc7beef0ee4,
  0xc6e00bf33da88fc2, 0xd5a79147930aa725, 0x06ca6351e003826f, 0x142929670a0e6e70,
  0x27b70a8546d22ffc, 0x2e1b21385c26c926, 0x4d2c6dfc5ac42aed, 0x53380d139d95b3df,
  0x650a73548baf63de, 0x766a0abb3c77b2a8, 0x81c2c92e47edaee6, 0x92722c851482353b,
  0xa2bfe8a14cf10364, 0xa81a664bbc423001, 0xc24b8b70d0f89791, 0xc76c51a30654be30,
  0xd192e819d6ef5218, 0xd69906245565a910, 0xf40e35855771202a, 0x106aa07032bbd1b8,
  0x19a4c116b8d2d0c8, 0x1e376c085141ab53, 0x2748774cdf8eeb99, 0x34b0bcb5e19b48a8,
  0x391c0cb3c5c95a63, 0x4ed8aa4ae3418acb, 0x5b9cca4f7763e373, 0x682e6ff3d6b2b8a3,
  0x748f82ee5defb2fc, 0x78a5636f43172f60, 0x84c87814a1f0ab72, 0x8cc702081a6439ec,
  0x90befffa23631e28, 0xa4506cebde82bde9, 0xbef9a3f7b2c67915, 0xc67178f2e372532b,
  0xca273eceea26619c, 0xd186b8c721c0c207, 0xeada7dd6cde0eb1e, 0xf57d4f7fee6ed178,
  0x06f067aa72176fba, 0x0a637dc5a2c898a6, 0x113f9804bef90dae, 0x1b710b35131c471b,
  0x28db77f523047d84, 0x32caab7b40c72493, 0x3c9ebe0a15c9bebc, 0x431d67c49c100d4c,
  0x4cc5d4becb3e42b6, 0x597f299cfc657e2a, 0x5fcb6fab3ad6faec, 0x6c44198c4a475817
]

@[inline] private def ssig0' (x : UInt64) : UInt64 := rotr64 x 1 ^^^ rotr64 x 8 ^^^ (x >>> 7)
@[inline] private def ssig1' (x : UInt64) : UInt64 := rotr64 x 19 ^^^ rotr64 x 61 ^^^ (x >>> 6)
@[inline] private def bsig0' (x : UInt64) : UInt64 := rotr64 x 28 ^^^ rotr64 x 34 ^^^ rotr64 x 39
@[inline] private def bsig1' (x : UInt64) : UInt64 := rotr64 x 14 ^^^ rotr64 x 18 ^^^ rotr64 x 41
@[inline] private def ch64 (x y z : UInt64) : UInt64 := (x &&& y) ^^^ (~~~x &&& z)
@[inline] private def maj64 (x y z : UInt64) : UInt64 := (x &&& y) ^^^ (x &&& z) ^^^ (y &&& z)

/-- words `W[t+16] … W[t+31]` from `W[t] … W[t+15]` -/
def sha512Sched (w : W64) : W64 :=
  let n0 := ssig1' w.w14 + w.w9 + ssig0' w.w1 + w.w0
  let n1 := ssig1' w.w15 + w.w10 + ssig0' w.w2 + w.w1
  let n2 := ssig1' n0 + w.w11 + ssig0' w.w3 + w.w2
  let n3 := ssig1' n1 + w.w12 + ssig0' w.w4 + w.w3
  let n4 := ssig1' n2 + w.w13 + ssig0' w.w5 + w.w4
  let n5 := ssig1' n3 + w.w14 + ssig0' w.w6 + w.w5
  let n6 := ssig1' n4 + w.w15 + ssig0' w.w7 + w.w6
  let n7 := ssig1' n5 + n0 + ssig0' w.w8 + w.w7
  let n8 := ssig1' n6 + n1 + ssig0' w.w9 + w.w8
  let n9 := ssig1' n7 + n2 + ssig0' w.w10 + w.w9
  let n10 := ssig1' n8 + n3 + ssig0' w.w11 + w.w10
  let n11 := ssig1' n9 + n4 + ssig0' w.w12 + w.w11
  let n12 := ssig1' n10 + n5 + ssig0' w.w13 + w.w12
  let n13 := ssig1' n11 + n6 + ssig0' w.w14 + w.w13
  let n14 := ssig1' n12 + n7 + ssig0' w.w15 + w.w14
  let n15 := ssig1' n13 + n8 + ssig0' n0 + w.w15
  ⟨n0, n1, n2, n3, n4, n5, n6, n7, n8, n9, n10, n11, n12, n13, n14, n15⟩

/-- rounds `base … base+15` with message words `w` -/
def sha512R16 (s : S64) (w : W64) (base : Nat) : S64 :=
  let t1 := s.h + bsig1' s.e + ch64 s.e s.f s.g + k512[base + 0]! + w.w0
  let t2 := bsig0' s.a + maj64 s.a s.b s.c
  let e0 := s.d + t1
  let a0 := t1 + t2
  let t1 := s.g + bsig1' e0 + ch64 e0 s.e s.f + k512[base + 1]! + w.w1
  let t2 := bsig0' a0 + maj64 a0 s.a s.b
  let e1 := s.c + t1
  let a1 := t1 + t2
  let t1 := s.f + bsig1' e1 + ch64 e1 e0 s.e + k512[base + 2]! + w.w2
  let t2 := bsig0' a1 + maj64 a1 a0 s.a
  let e2 := s.b + t1
  let a2 := t1 + t2
  let t1 := s.e + bsig1' e2 + ch64 e2 e1 e0 + k512[base + 3]! + w.w3
  let t2 := bsig0' a2 + maj64 a2 a1 a0
  let e3 := s.a + t1
  let a3 := t1 + t2
  let t1 := e0 + bsig1' e3 + ch64 e3 e2 e1 + k512[base + 4]! + w.w4
  let t2 := bsig0' a3 + maj64 a3 a2 a1
  let e4 := a0 + t1
  let a4 := t1 + t2
  let t1 := e1 + bsig1' e4 + ch64 e4 e3 e2 + k512[base + 5]! + w.w5
  let t2 := bsig0' a4 + maj64 a4 a3 a2
  let e5 := a1 + t1
  let a5 := t1 + t2
  let t1 := e2 + bsig1' e5 + ch64 e5 e4 e3 + k512[base + 6]! + w.w6
  let t2 := bsig0' a5 + maj64 a5 a4 a3
  let e6 := a2 + t1
  let a6 := t1 + t2
  let t1 := e3 + bsig1' e6 + ch64 e6 e5 e4 + k512[base + 7]! + w.w7
  let t2 := bsig0' a6 + maj64 a6 a5 a4
  let e7 := a3 + t1
  let a7 := t1 + t2
  let t1 := e4 + bsig1' e7 + ch64 e7 e6 e5 + k512[base + 8]! + w.w8
  let t2 := bsig0' a7 + maj64 a7 a6 a5
  let e8 := a4 + t1
  let a8 := t1 + t2
  let t1 := e5 + bsig1' e8 + ch64 e8 e7 e6 + k512[base + 9]! + w.w9
  let t2 := bsig0' a8 + maj64 a8 a7 a6
  let e9 := a5 + t1
  let a9 := t1 + t2
  let t1 := e6 + bsig1' e9 + ch64 e9 e8 e7 + k512[base + 10]! + w.w10
  let t2 := bsig0' a9 + maj64 a9 a8 a7
  let e10 := a6 + t1
  let a10 := t1 + t2
  let t1 := e7 + bsig1' e10 + ch64 e10 e9 e8 + k512[base + 11]! + w.w11
  let t2 := bsig0' a10 + maj64 a10 a9 a8
  let e11 := a7 + t1
  let a11 := t1 + t2
  let t1 := e8 + bsig1' e11 + ch64 e11 e10 e9 + k512[base + 12]! + w.w12
  let t2 := bsig0' a11 + maj64 a11 a10 a9
  let e12 := a8 + t1
  let a12 := t1 + t2
  let t1 := e9 + bsig1' e12 + ch64 e12 e11 e10 + k512[base + 13]! + w.w13
  let t2 := bsig0' a12 + maj64 a12 a11 a10
  let e13 := a9 + t1
  let a13 := t1 + t2
  let t1 := e10 + bsig1' e13 + ch64 e13 e12 e11 + k512[base + 14]! + w.w14
  let t2 := bsig0' a13 + maj64 a13 a12 a11
  let e14 := a10 + t1
  let a14 := t1 + t2
  let t1 := e11 + bsig1' e14 + ch64 e14 e13 e12 + k512[base + 15]! + w.w15
  let t2 := bsig0' a14 + maj64 a14 a13 a12
  let e15 := a11 + t1
  let a15 := t1 + t2
  ⟨a15, a14, a13, a12, e15, e14, e13, e12⟩

def sha512Compress (s : S64) (b : ByteArray) (off : Nat) : S64 :=
  let w := W64.load b off
  let t := sha512R16 s w 0
  let w := sha512Sched w
  let t := sha512R16 t w 16
  let w := sha512Sched w
  let t := sha512R16 t w 32
  let w := sha512Sched w
  let t := sha512R16 t w 48
  let w := sha512Sched w
  let t := sha512R16 t w 64
  ⟨s.a + t.a, s.b + t.b, s.c + t.c, s.d + t.d, s.e + t.e, s.f + t.f, s.g + t.g, s.h + t.h⟩

def sha512Init : S64 := ⟨0x6a09e667f3bcc908, 0xbb67ae8584caa73b, 0x3c6ef372fe94f82b, 0xa54ff53a5f1d36f1,
  0x510e527fade682d1, 0x9b05688c2b3e6c1f, 0x1f83d9abfb41bd6b, 0x5be0cd19137e2179⟩
def sha384Init : S64 := ⟨0xcbbb9d5dc1059ed8, 0x629a292a367cd507, 0x9159015a3070dd17, 0x152fecd8f70e5939,
  0x67332667ffc00b31, 0x8eb44a8768581511, 0xdb0c2e0d64f98fa7, 0x47b5481dbefa4fa4⟩

def S64.toBytes (s : S64) : ByteArray :=
  push64 (push64 (push64 (push64 (push64 (push64 (push64 (push64 (ByteArray.emptyWithCapacity 64)
    s.a) s.b) s.c) s.d) s.e) s.f) s.g) s.h

/-! ### Merkle–Damgård driver -/

/-- The final one or two blocks: the unprocessed tail of `m` (from `off`), `0x80`, zeros, and the
bit length of `m` as a big-endian integer of `lenBytes` bytes. -/
def padTail (m : ByteArray) (off blockLen lenBytes : Nat) : ByteArray := Id.run do
  let rem := m.size - off
  let total := if rem + 1 + lenBytes ≤ blockLen then blockLen else 2 * blockLen
  let mut t := ByteArray.emptyWithCapacity total
  t := m.copySlice off t 0 rem
  t := t.push 0x80
  for _ in [rem + 1 : total - 8] do
    t := t.push 0
  -- message lengths are < 2^64 bits: the upper half of a 16-byte length field is zero
  t := push64 t (UInt64.ofNat (m.size * 8))
  return t

@[specialize] def mdRun {σ : Type} (compress : σ → ByteArray → Nat → σ) (init : σ)
    (blockLen lenBytes : Nat) (m : ByteArray) : σ := Id.run do
  let nfull := m.size / blockLen
  let mut s := init
  for i in [0:nfull] do
    s := compress s m (i * blockLen)
  let tail := padTail m (nfull * blockLen) blockLen lenBytes
  s := compress s tail 0
  if tail.size > blockLen then
    s := compress s tail blockLen
  return s

end ShaImpl

open ShaImpl

def sha1 (m : ByteArray) : ByteArray := ((mdRun sha1Compress sha1Init 64 8 m).toBytes).extract 0 20
def sha224 (m : ByteArray) : ByteArray := ((mdRun sha256Compress sha224Init 64 8 m).toBytes).extract 0 28
def sha256 (m : ByteArray) : ByteArray := (mdRun sha256Compress sha256Init 64 8 m).toBytes
def sha384 (m : ByteArray) : ByteArray := ((mdRun sha512Compress sha384Init 128 16 m).toBytes).extract 0 48
def sha512 (m : ByteArray) : ByteArray := (mdRun sha512Compress sha512Init 128 16 m).toBytes

def hash : HashAlg → ByteArray → ByteArray
  | .sha1 => sha1 | .sha224 => sha224 | .sha256 => sha256 | .sha384 => sha384 | .sha512 => sha512

/-- HMAC (RFC 2104). Keys longer than the block length are hashed first. -/
def hmac (a : HashAlg) (key msg : ByteArray) : ByteArray := Id.run do
  let bl := a.blockLen
  let k := if key.size > bl then hash a key else key
  let mut ipad := ByteArray.emptyWithCapacity (bl + msg.size)
  let mut opad := ByteArray.emptyWithCapacity (bl + a.digestLen)
  for i in [0:bl] do
    let kb : UInt8 := if i < k.size then k.get! i else 0
    ipad := ipad.push (kb ^^^ 0x36)
    opad := opad.push (kb ^^^ 0x5c)
  return hash a (opad ++ hash a (ipad ++ msg))

/-- HKDF-Extract (RFC 5869 §2.2): `PRK = HMAC(salt, IKM)`. The salt is used as given. -/
def hkdfExtract (a : HashAlg) (salt ikm : ByteArray) : ByteArray := hmac a salt ikm

/-- HKDF-Expand (RFC 5869 §2.3): `T(i) = HMAC(PRK, T(i-1) ‖ info ‖ byte i)`, `i = 1, 2, …`, truncated
to `len` bytes. No check of `len ≤ 255·hashLen`; the counter byte wraps mod 256. -/
def hkdfExpand (a : HashAlg) (prk info : ByteArray) (len : Nat) : ByteArray := Id.run do
  let hl := a.digestLen
  let n := (len + hl - 1) / hl
  let mut t := ByteArray.empty
  let mut okm := ByteArray.emptyWithCapacity (n * hl)
  let mut ctr : UInt8 := 1
  for _ in [0:n] do
    t := hmac a prk ((t ++ info).push ctr)
    okm := okm ++ t
    ctr := ctr + 1
  return okm.extract 0 len

def hkdf (a : HashAlg) (ikm salt info : ByteArray) (len : Nat) : ByteArray :=
  hkdfExpand a (hkdfExtract a salt ikm) info len

/-- MGF1 (RFC 8017 B.2.1): `hash(seed ‖ be32 0) ‖ hash(seed ‖ be32 1) ‖ …` truncated to `len`. -/
def mgf1 (a : HashAlg) (seed : ByteArray) (len : Nat) : ByteArray := Id.run do
  let hl := a.digestLen
  let n := (len + hl - 1) / hl
  let mut out := ByteArray.emptyWithCapacity (n * hl)
  for c in [0:n] do
    let c32 := UInt32.ofNat c
    let blk := (((seed.push (c32 >>> 24).toUInt8).push (c32 >>> 16).toUInt8).push
      (c32 >>> 8).toUInt8).push c32.toUInt8
    out := out ++ hash a blk
  return out.extract 0 len

end TinkVerif.Prim
