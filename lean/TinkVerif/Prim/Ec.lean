/-
  Reference short-Weierstrass elliptic-curve arithmetic (NIST P-256, P-384, P-521) over `Nat`,
  ECDSA verification (FIPS 186-4 §6.4 / SEC 1 §4.1.4) and ECDH (SEC 1 §3.3.1).

  Executable reference code, core Lean only. Nothing here is constant time; it is only ever used
  on public data / test data to cross-check another implementation.
-/
import TinkVerif.Base.Bytes

namespace TinkVerif.Prim

/-! ### Octet-string / integer conversions (RFC 8017 §4 names) -/

/-- big-endian bytes → natural number (OS2IP). -/
def os2ip (b : ByteArray) : Nat := Id.run do
  let mut acc : Nat := 0
  for x in b do
    acc := (acc <<< 8) ||| x.toNat
  return acc

/-- natural number → exactly `len` big-endian bytes (I2OSP); the value is taken mod 256^len. -/
def i2osp (x len : Nat) : ByteArray := Id.run do
  let mut out := ByteArray.emptyWithCapacity len
  for i in [0:len] do
    out := out.push (x >>> (8 * (len - 1 - i))).toUInt8
  return out

/-- little-endian bytes → natural number. -/
def os2ipLE (b : ByteArray) : Nat := Id.run do
  let mut acc : Nat := 0
  for i in [0:b.size] do
    acc := (acc <<< 8) ||| (b.get! (b.size - 1 - i)).toNat
  return acc

/-- natural number → exactly `len` little-endian bytes (value mod 256^len). -/
def i2ospLE (x len : Nat) : ByteArray := Id.run do
  let mut out := ByteArray.emptyWithCapacity len
  for i in [0:len] do
    out := out.push (x >>> (8 * i)).toUInt8
  return out

/-- number of significant bits (`0` for `0`). -/
def natBitLen (x : Nat) : Nat := if x = 0 then 0 else x.log2 + 1

/-- byte-wise equality of byte strings (lengths must agree). -/
def bytesEq (a b : ByteArray) : Bool := a.data == b.data

/-! ### Modular arithmetic -/

/-- `b^e mod m` by left-to-right square-and-multiply. `m = 0` yields `0`. -/
def modPow (b e m : Nat) : Nat :=
  if m = 0 then 0 else Id.run do
    let b := b % m
    let nbits := natBitLen e
    let mut acc : Nat := 1 % m
    for i in [0:nbits] do
      acc := acc * acc % m
      if e.testBit (nbits - 1 - i) then
        acc := acc * b % m
    return acc

/-- extended Euclid on `(r0, r1)` with Bézout coefficients `(t0, t1)` of `a` modulo `m`. -/
def modInvLoop : Nat → Nat → Nat → Int → Int → Nat × Int
  | 0, r0, _, t0, _ => (r0, t0)
  | fuel+1, r0, r1, t0, t1 =>
    if r1 = 0 then (r0, t0)
    else
      let q := r0 / r1
      modInvLoop fuel r1 (r0 - q * r1) t1 (t0 - (q : Int) * t1)

/-- inverse of `a` modulo `m` (in `[0, m)`); `0` when `a` is not invertible. -/
def modInv (a m : Nat) : Nat :=
  if m ≤ 1 then 0 else
    let (g, t) := modInvLoop (2 * natBitLen m + 4) m (a % m) 0 1
    if g = 1 then (t % (m : Int)).toNat else 0

@[inline] def subMod (a b p : Nat) : Nat := (a + p - b % p) % p

/-! ### Curves -/

/-- `y² = x³ + a·x + b` over `GF(p)`, base point `(gx, gy)` of prime order `n`;
    `byteLen = ⌈log₂ p / 8⌉` is the size of an encoded coordinate. -/
structure Curve where
  p : Nat
  a : Nat
  b : Nat
  gx : Nat
  gy : Nat
  n : Nat
  byteLen : Nat
  deriving Repr, BEq

def p256 : Curve where
  p  := 0xffffffff00000001000000000000000000000000ffffffffffffffffffffffff
  a  := 0xffffffff00000001000000000000000000000000fffffffffffffffffffffffc
  b  := 0x5ac635d8aa3a93e7b3ebbd55769886bc651d06b0cc53b0f63bce3c3e27d2604b
  gx := 0x6b17d1f2e12c4247f8bce6e563a440f277037d812deb33a0f4a13945d898c296
  gy := 0x4fe342e2fe1a7f9b8ee7eb4a7c0f9e162bce33576b315ececbb6406837bf51f5
  n  := 0xffffffff00000000ffffffffffffffffbce6faada7179e84f3b9cac2fc632551
  byteLen := 32

def p384 : Curve where
  p  := 0xfffffffffffffffffffffffffffffffffffffffffffffffffffffffffffffffeffffffff0000000000000000ffffffff
  a  := 0xfffffffffffffffffffffffffffffffffffffffffffffffffffffffffffffffeffffffff0000000000000000fffffffc
  b  := 0xb3312fa7e23ee7e4988e056be3f82d19181d9c6efe8141120314088f5013875ac656398d8a2ed19d2a85c8edd3ec2aef
  gx := 0xaa87ca22be8b05378eb1c71ef320ad746e1d3b628ba79b9859f741e082542a385502f25dbf55296c3a545e3872760ab7
  gy := 0x3617de4a96262c6f5d9e98bf9292dc29f8f41dbd289a147ce9da3113b5f0b8c00a60b1ce1d7e819d7a431d7c90ea0e5f
  n  := 0xffffffffffffffffffffffffffffffffffffffffffffffffc7634d81f4372ddf581a0db248b0a77aecec196accc52973
  byteLen := 48

def p521 : Curve where
  p  := 2 ^ 521 - 1
  a  := 2 ^ 521 - 4
  b  := 0x0051953eb9618e1c9a1f929a21a0b68540eea2da725b99b315f3b8b489918ef109e156193951ec7e937b1652c0bd3bb1bf073573df883d2c34f1ef451fd46b503f00
  gx := 0x00c6858e06b70404e9cd9e3ecb662395b4429c648139053fb521f828af606b4d3dbaa14b5e77efe75928fe1dc127a2ffa8de3348b3c1856a429bf97e7e31c2e5bd66
  gy := 0x011839296a789a3bc0045c8a5fb42c7d1bd998f54449579b446817afbd17273e662c97ee72995ef42640c550b9013fad0761353c7086a272c24088be94769fd16650
  n  := 0x01fffffffffffffffffffffffffffffffffffffffffffffffffffffffffffffffffa51868783bf2f966b7fcc0148f709a5d03bb5c9b8899c47aebb6fb71e91386409
  byteLen := 66

/-- affine point or the point at infinity. -/
inductive Point where
  | infinity
  | affine (x y : Nat)
  deriving Repr, BEq, DecidableEq, Inhabited

namespace Point
def isInfinity : Point → Bool
  | infinity => true
  | _ => false
def x? : Point → Option Nat
  | infinity => none
  | affine x _ => some x
def y? : Point → Option Nat
  | infinity => none
  | affine _ y => some y
end Point

/-- Jacobian coordinates `(X : Y : Z)` ↦ `(X/Z², Y/Z³)`; `Z = 0` is the point at infinity. -/
structure JPoint where
  x : Nat
  y : Nat
  z : Nat
  deriving Repr, Inhabited

namespace Curve

/-- coordinates reduced (`x, y < p`) and `y² = x³ + a·x + b (mod p)`. -/
def onCurve (c : Curve) (x y : Nat) : Bool :=
  decide (x < c.p) && decide (y < c.p) &&
    (y * y % c.p == ((x * x % c.p + c.a) % c.p * x + c.b) % c.p)

/-- `infinity` counts as a valid group element. -/
def validPoint (c : Curve) : Point → Bool
  | .infinity => true
  | .affine x y => c.onCurve x y

def jInfinity : JPoint := ⟨1, 1, 0⟩

def toJacobian (_c : Curve) : Point → JPoint
  | .infinity => jInfinity
  | .affine x y => ⟨x, y, 1⟩

def fromJacobian (c : Curve) (P : JPoint) : Point :=
  if P.z % c.p = 0 then .infinity
  else
    let zi := modInv P.z c.p
    let zi2 := zi * zi % c.p
    .affine (P.x * zi2 % c.p) (P.y * (zi2 * zi % c.p) % c.p)

/-- Jacobian doubling, general `a`. -/
def jDouble (c : Curve) (P : JPoint) : JPoint :=
  let p := c.p
  if P.z = 0 || P.y = 0 then jInfinity
  else
    let yy := P.y * P.y % p
    let s := 4 * P.x * yy % p
    let zz := P.z * P.z % p
    let m := (3 * (P.x * P.x % p) + c.a * (zz * zz % p)) % p
    let x3 := subMod (m * m % p) (2 * s) p
    let y3 := subMod (m * subMod s x3 p % p) (8 * (yy * yy % p)) p
    let z3 := 2 * P.y * P.z % p
    ⟨x3, y3, z3⟩

/-- Jacobian addition; complete (handles infinity, `P = Q`, `P = −Q`). -/
def jAdd (c : Curve) (P Q : JPoint) : JPoint :=
  let p := c.p
  if P.z = 0 then Q
  else if Q.z = 0 then P
  else
    let z1z1 := P.z * P.z % p
    let z2z2 := Q.z * Q.z % p
    let u1 := P.x * z2z2 % p
    let u2 := Q.x * z1z1 % p
    let s1 := P.y * (z2z2 * Q.z % p) % p
    let s2 := Q.y * (z1z1 * P.z % p) % p
    if u1 = u2 then
      if s1 = s2 then jDouble c P else jInfinity
    else
      let h := subMod u2 u1 p
      let r := subMod s2 s1 p
      let hh := h * h % p
      let hhh := hh * h % p
      let v := u1 * hh % p
      let x3 := subMod (subMod (r * r % p) hhh p) (2 * v) p
      let y3 := subMod (r * subMod v x3 p % p) (s1 * hhh % p) p
      let z3 := h * (P.z * Q.z % p) % p
      ⟨x3, y3, z3⟩

/-- left-to-right double-and-add. -/
def jMul (c : Curve) (k : Nat) (P : JPoint) : JPoint := Id.run do
  let nbits := natBitLen k
  let mut acc := jInfinity
  for i in [0:nbits] do
    acc := jDouble c acc
    if k.testBit (nbits - 1 - i) then
      acc := jAdd c acc P
  return acc

/-- `k1·P1 + k2·P2` by interleaved double-and-add (Shamir's trick). -/
def jMul2 (c : Curve) (k1 : Nat) (P1 : JPoint) (k2 : Nat) (P2 : JPoint) : JPoint := Id.run do
  let p12 := jAdd c P1 P2
  let nbits := max (natBitLen k1) (natBitLen k2)
  let mut acc := jInfinity
  for i in [0:nbits] do
    acc := jDouble c acc
    let j := nbits - 1 - i
    match k1.testBit j, k2.testBit j with
    | true, true => acc := jAdd c acc p12
    | true, false => acc := jAdd c acc P1
    | false, true => acc := jAdd c acc P2
    | false, false => pure ()
  return acc

/-- reduce coordinates mod p (callers normally pass reduced, on-curve points). -/
def normPoint (c : Curve) : Point → Point
  | .infinity => .infinity
  | .affine x y => .affine (x % c.p) (y % c.p)

def add (c : Curve) (P Q : Point) : Point :=
  c.fromJacobian (c.jAdd (c.toJacobian (c.normPoint P)) (c.toJacobian (c.normPoint Q)))

def double (c : Curve) (P : Point) : Point :=
  c.fromJacobian (c.jDouble (c.toJacobian (c.normPoint P)))

def neg (c : Curve) : Point → Point
  | .infinity => .infinity
  | .affine x y => .affine (x % c.p) ((c.p - y % c.p) % c.p)

/-- scalar multiplication `k·P` for any `k : Nat`. -/
def mul (c : Curve) (k : Nat) (P : Point) : Point :=
  c.fromJacobian (c.jMul k (c.toJacobian (c.normPoint P)))

def base (c : Curve) : Point := .affine c.gx c.gy

/-- `k·G`. -/
def baseMul (c : Curve) (k : Nat) : Point := c.mul k c.base

/-- square root mod `p` for `p ≡ 3 (mod 4)`; `none` for non-residues. -/
def sqrtMod (c : Curve) (v : Nat) : Option Nat :=
  let v := v % c.p
  let r := modPow v ((c.p + 1) / 4) c.p
  if r * r % c.p = v then some r else none

/-- point with abscissa `x` and the requested parity of `y` (SEC 1 §2.3.4). -/
def decompress (c : Curve) (x : Nat) (yOdd : Bool) : Option Point :=
  if x ≥ c.p then none
  else
    let rhs := ((x * x % c.p + c.a) % c.p * x + c.b) % c.p
    match c.sqrtMod rhs with
    | none => none
    | some y =>
      let y := if (y % 2 == 1) == yOdd then y else (c.p - y) % c.p
      -- `y = 0` has no odd representative
      if (y % 2 == 1) == yOdd then some (.affine x y) else none

/-- `04 ‖ X ‖ Y` (SEC 1 §2.3.3); infinity is encoded as the single byte `00`. -/
def pointEncodeUncompressed (c : Curve) : Point → ByteArray
  | .infinity => ByteArray.mk #[0]
  | .affine x y => (ByteArray.mk #[4]) ++ i2osp x c.byteLen ++ i2osp y c.byteLen

/-- `02/03 ‖ X`. -/
def pointEncodeCompressed (c : Curve) : Point → ByteArray
  | .infinity => ByteArray.mk #[0]
  | .affine x y => (ByteArray.mk #[if y % 2 == 1 then 3 else 2]) ++ i2osp x c.byteLen

/-- SEC 1 §2.3.4 decoding of an uncompressed or compressed point. The infinity encoding `00`,
    unreduced coordinates and off-curve points are rejected (as in Go's `elliptic.Unmarshal`). -/
def pointDecode (c : Curve) (b : ByteArray) : Option Point :=
  if b.size = 0 then none
  else
    let tag := b.get! 0
    if tag = 4 then
      if b.size ≠ 1 + 2 * c.byteLen then none
      else
        let x := os2ip (b.extract 1 (1 + c.byteLen))
        let y := os2ip (b.extract (1 + c.byteLen) b.size)
        if c.onCurve x y then some (.affine x y) else none
    else if tag = 2 || tag = 3 then
      if b.size ≠ 1 + c.byteLen then none
      else c.decompress (os2ip (b.extract 1 b.size)) (tag = 3)
    else none

end Curve

/-! ### ECDSA verification -/

/-- leftmost `min(bitlen n, 8·|digest|)` bits of the digest as an integer
    (FIPS 186-4 §6.4, SEC 1 §4.1.3 step 5). -/
def ecdsaDigestToNat (n : Nat) (digest : ByteArray) : Nat :=
  let nBits := natBitLen n
  let dBits := 8 * digest.size
  let e := os2ip digest
  if dBits > nBits then e >>> (dBits - nBits) else e

/-- ECDSA verification of `(r, s)` on a pre-hashed message for public key `(qx, qy)`.
    Rejects keys that are not reduced on-curve affine points, and `r, s ∉ [1, n−1]`. -/
def ecdsaVerifyRaw (c : Curve) (qx qy : Nat) (digest : ByteArray) (r s : Nat) : Bool :=
  if !(c.onCurve qx qy) then false
  else if r = 0 || s = 0 || r ≥ c.n || s ≥ c.n then false
  else
    let z := ecdsaDigestToNat c.n digest
    let w := modInv s c.n
    let u1 := z % c.n * w % c.n
    let u2 := r * w % c.n
    let g := c.toJacobian c.base
    let q : JPoint := ⟨qx, qy, 1⟩
    match c.fromJacobian (c.jMul2 u1 g u2 q) with
    | .infinity => false
    | .affine x _ => x % c.n == r

/-- IEEE P1363 signature `r ‖ s`, each exactly `byteLen(n)` bytes. -/
def ecdsaVerifyP1363 (c : Curve) (qx qy : Nat) (digest sig : ByteArray) : Bool :=
  let k := (natBitLen c.n + 7) / 8
  if sig.size ≠ 2 * k then false
  else ecdsaVerifyRaw c qx qy digest (os2ip (sig.extract 0 k)) (os2ip (sig.extract k (2 * k)))

/-! ### ECDH -/

/-- x-coordinate of `d·Q` as `byteLen` big-endian bytes; `none` if `Q` is not a (reduced)
    on-curve point or the product is the point at infinity. -/
def ecdh (c : Curve) (d : Nat) (qx qy : Nat) : Option ByteArray :=
  if !(c.onCurve qx qy) then none
  else
    match c.mul d (.affine qx qy) with
    | .infinity => none
    | .affine x _ => some (i2osp x c.byteLen)

/-- public key `d·G` in uncompressed form; `none` unless `1 ≤ d < n`. -/
def ecPublicFromPrivate (c : Curve) (d : Nat) : Option ByteArray :=
  if d = 0 || d ≥ c.n then none
  else some (c.pointEncodeUncompressed (c.baseMul d))

end TinkVerif.Prim
