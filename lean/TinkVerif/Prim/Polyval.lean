/-
  POLYVAL (RFC 8452 §3) — bit-level specification and a faster executable version.

  Core Lean only.  RFC 8452 §3: the field is GF(2^128) = GF(2)[x] / (x^128 + x^127 + x^126 +
  x^121 + 1); a 16-byte string is a field element by reading it as a little-endian integer whose
  bit `i` is the coefficient of `x^i`;

      dot(a, b) = a · b · x^-128              (x^-128 = x^127 + x^124 + x^121 + x^114 + 1)
      POLYVAL(H, X_1, …, X_s) = S_s   where  S_0 = 0,  S_j = dot(S_{j-1} + X_j, H).

  `polyvalMulSpec` is a literal transcription over `Nat` (polynomials over GF(2) are naturals, bit
  `i` = coefficient of `x^i`): schoolbook carry-less multiplication, long-division reduction by
  the field polynomial, and multiplication by the published constant `x^-128`.  All recursion is
  structural, nothing is table- or word-optimised; it is written to be read (and reasoned about),
  not to be fast.  `polyvalSpec` is the Horner fold over it.

  `polyval` computes the same function with a bit-serial shift-and-xor recursion on `UInt64` pairs
  (interleaved multiply-and-divide-by-`x`), which is what the driver uses on long inputs.  The two
  are compared on RFC 8452 vectors and random inputs in `TinkVerif/Kat/Polyval.lean`.
-/
import TinkVerif.Base.Bytes

namespace TinkVerif.Prim

namespace PolyvalSpec

/-- carry-less (GF(2)[x]) product of `a` with the low `n` bits of `b`:
    `⊕_{i < n, b_i = 1} a·x^i`. -/
def clmul (a b : Nat) : Nat → Nat
  | 0 => 0
  | n+1 => (if b.testBit n then a <<< n else 0) ^^^ clmul a b n

/-- the field polynomial `x^128 + x^127 + x^126 + x^121 + 1`. -/
def fieldPoly : Nat := 2^128 + 2^127 + 2^126 + 2^121 + 1

/-- remainder of `c` modulo `fieldPoly` for `deg c < 128 + n`: long division, cancelling the
    coefficients of `x^(128+n-1)`, …, `x^128` in turn. -/
def polyMod (c : Nat) : Nat → Nat
  | 0 => c
  | n+1 => polyMod (if c.testBit (128 + n) then c ^^^ (fieldPoly <<< n) else c) n

/-- product in the field of two reduced elements (`a, b < 2^128`, so `deg (a·b) < 256`). -/
def mulMod (a b : Nat) : Nat := polyMod (clmul a b 128) 128

/-- `x^-128` as published in RFC 8452 §3. -/
def xInv128 : Nat := 2^127 + 2^124 + 2^121 + 2^114 + 1

/-- `x^128 mod fieldPoly = x^127 + x^126 + x^121 + 1` (used only to check `xInv128` in the KATs). -/
def x128 : Nat := 2^127 + 2^126 + 2^121 + 1

/-- RFC 8452 `dot(a, b) = a·b·x^-128` on field elements given as naturals `< 2^128`. -/
def dot (a b : Nat) : Nat := mulMod (mulMod a b) xInv128

/-- 16 bytes (shorter inputs are zero-extended, longer ones truncated) → field element. -/
def decode (b : ByteArray) : Nat := Bytes.toNatLE (b.toList.take 16)

/-- field element → 16 little-endian bytes. -/
def encode (n : Nat) : ByteArray := Bytes.toByteArray (Bytes.ofNatLE 16 n)

/-- Horner fold over naturals: `S ← dot(S ⊕ X, H)` for the blocks in order. -/
def horner (h : Nat) : Nat → List Nat → Nat
  | s, [] => s
  | s, x :: xs => horner h (dot (s ^^^ x) h) xs

/-- the 16-byte blocks of `data` (last one zero-extended) as field elements. -/
def blocks (data : ByteArray) : List Nat :=
  (Bytes.chunks 16 data.toList).map Bytes.toNatLE

end PolyvalSpec

/-- RFC 8452 `dot(a, b)` on 16-byte little-endian field elements — the bit-level specification. -/
def polyvalMulSpec (a b : ByteArray) : ByteArray :=
  PolyvalSpec.encode (PolyvalSpec.dot (PolyvalSpec.decode a) (PolyvalSpec.decode b))

/-- POLYVAL(H, X_1, …, X_s) as the Horner fold of the specification `dot` (slow; reference). -/
def polyvalSpec (h : ByteArray) (data : ByteArray) : ByteArray :=
  PolyvalSpec.encode (PolyvalSpec.horner (PolyvalSpec.decode h) 0 (PolyvalSpec.blocks data))

namespace PolyvalImpl

/-- byte `i`, or 0 beyond the end. -/
@[inline] def gb (b : ByteArray) (i : Nat) : UInt8 := if h : i < b.size then b[i]'h else 0

@[inline] def loadLE64 (b : ByteArray) (i : Nat) : UInt64 :=
  (gb b i).toUInt64 ||| ((gb b (i+1)).toUInt64 <<< 8) ||| ((gb b (i+2)).toUInt64 <<< 16) |||
  ((gb b (i+3)).toUInt64 <<< 24) ||| ((gb b (i+4)).toUInt64 <<< 32) |||
  ((gb b (i+5)).toUInt64 <<< 40) ||| ((gb b (i+6)).toUInt64 <<< 48) ||| ((gb b (i+7)).toUInt64 <<< 56)

def pushLE64 (o : ByteArray) (x : UInt64) : ByteArray := Id.run do
  let mut o := o
  for i in [0:8] do
    o := o.push (x >>> (UInt64.ofNat (8*i))).toUInt8
  return o

/-- `n` steps of the bit-serial multiply-and-divide for the low `n` bits of `w`.  For each bit
    `a_i` (lowest first): `Z ← Z ⊕ a_i·b`, then `Z ← Z / x` — exact division after adding the field
    polynomial `P` when the constant coefficient is set, i.e.
    `(Z ⊕ P) >> 1 = (Z >> 1) ⊕ (x^127 + x^126 + x^125 + x^120)`.
    (Plain recursion with `UInt64` arguments: compiled to a loop over unboxed machine words.) -/
def dotWord (blo bhi : UInt64) : Nat → UInt64 → UInt64 → UInt64 → UInt64 × UInt64
  | 0, zlo, zhi, _ => (zlo, zhi)
  | n+1, zlo, zhi, w =>
    let m := 0 - (w &&& 1)
    let zlo := zlo ^^^ (blo &&& m)
    let zhi := zhi ^^^ (bhi &&& m)
    let r := 0 - (zlo &&& 1)
    dotWord blo bhi n ((zlo >>> 1) ||| (zhi <<< 63)) ((zhi >>> 1) ^^^ (r &&& 0xe100000000000000)) (w >>> 1)

/-- `dot` on `(lo, hi)` word pairs (`lo` = coefficients `x^0..x^63`).  The term `a_i·b` is divided
    by `x` exactly `128 - i` times, so the result is `a·b·x^-128`. -/
@[inline] def dot (alo ahi blo bhi : UInt64) : UInt64 × UInt64 :=
  let (zlo, zhi) := dotWord blo bhi 64 0 0 alo
  dotWord blo bhi 64 zlo zhi ahi

/-- Horner fold over `n` blocks starting at byte offset `off` (missing bytes read as 0). -/
def fold (hlo hhi : UInt64) (data : ByteArray) : Nat → Nat → UInt64 → UInt64 → UInt64 × UInt64
  | 0, _, slo, shi => (slo, shi)
  | n+1, off, slo, shi =>
    let (lo, hi) := dot (slo ^^^ loadLE64 data off) (shi ^^^ loadLE64 data (off + 8)) hlo hhi
    fold hlo hhi data n (off + 16) lo hi

end PolyvalImpl

open PolyvalImpl in
/-- `dot(a, b)` via the bit-serial word implementation (same function as `polyvalMulSpec`). -/
def polyvalMul (a b : ByteArray) : ByteArray :=
  let (lo, hi) := dot (loadLE64 a 0) (loadLE64 a 8) (loadLE64 b 0) (loadLE64 b 8)
  pushLE64 (pushLE64 (ByteArray.emptyWithCapacity 16) lo) hi

open PolyvalImpl in
/-- POLYVAL(H, X_1, …, X_s) over the 16-byte blocks of `data` (RFC 8452 §3).  `data` is expected
    to be a whole number of blocks; a trailing short block is zero-extended. -/
def polyval (h : ByteArray) (data : ByteArray) : ByteArray :=
  let (slo, shi) := fold (loadLE64 h 0) (loadLE64 h 8) data ((data.size + 15) / 16) 0 0 0
  pushLE64 (pushLE64 (ByteArray.emptyWithCapacity 16) slo) shi

end TinkVerif.Prim
