/-
  Reference X25519 (RFC 7748) and Ed25519 (RFC 8032 §5.1) over `Nat`.

  `ed25519Verify` follows the acceptance rules of Go's `crypto/ed25519`:
  * `S` must be canonical (`S < L`);
  * the public key `A` is decoded permissively: the `y` coordinate may be unreduced (`y ≥ p`,
    it is reduced mod p) and the sign bit may be set when `x = 0`; decoding fails only when
    `x² = (y²−1)/(d·y²+1)` has no solution;
  * `k = SHA-512(R_bytes ‖ A_bytes ‖ msg) mod L` over the byte strings exactly as given;
  * cofactor-less equation, checked by re-encoding: accept iff `enc([S]B − [k]A) = R_bytes`
    (hence a non-canonical `R_bytes` is never accepted).
  Not constant time; reference use only.
-/
import TinkVerif.Prim.Ec
import TinkVerif.Prim.Hash

namespace TinkVerif.Prim

/-- `2^255 − 19`. -/
def p25519 : Nat := 2 ^ 255 - 19

/-! ### X25519 -/

/-- RFC 7748 §5 `decodeScalar25519`. -/
def x25519Clamp (k : ByteArray) : Nat :=
  let v := os2ipLE k
  ((v % 2 ^ 255) / 8 * 8) ||| 2 ^ 254

/-- Montgomery ladder on the u-coordinate: `k·u` for an already decoded scalar `k < 2^255`. -/
def x25519Ladder (k u : Nat) : Nat := Id.run do
  let p := p25519
  let x1 := u % p
  let mut x2 : Nat := 1
  let mut z2 : Nat := 0
  let mut x3 : Nat := x1
  let mut z3 : Nat := 1
  let mut swap := false
  for i in [0:255] do
    let t := 254 - i
    let kt := k.testBit t
    if swap != kt then
      (x2, x3) := (x3, x2)
      (z2, z3) := (z3, z2)
    swap := kt
    let a := (x2 + z2) % p
    let aa := a * a % p
    let b := subMod x2 z2 p
    let bb := b * b % p
    let e := subMod aa bb p
    let c := (x3 + z3) % p
    let d := subMod x3 z3 p
    let da := d * a % p
    let cb := c * b % p
    let s := (da + cb) % p
    let m := subMod da cb p
    x3 := s * s % p
    z3 := x1 * (m * m % p) % p
    x2 := aa * bb % p
    z2 := e * ((aa + 121665 * e) % p) % p
  if swap then
    (x2, x3) := (x3, x2)
    (z2, z3) := (z3, z2)
  return x2 * modPow z2 (p - 2) p % p

/-- RFC 7748 X25519: 32-byte scalar (clamped here), 32-byte u-coordinate (top bit masked,
    unreduced values accepted). Low-order inputs give the all-zero output (no error here; see
    `x25519Checked`). Inputs of the wrong length give the empty string. -/
def x25519 (scalar32 u32 : ByteArray) : ByteArray :=
  if scalar32.size ≠ 32 || u32.size ≠ 32 then ByteArray.empty
  else
    let k := x25519Clamp scalar32
    let u := os2ipLE u32 % 2 ^ 255
    i2ospLE (x25519Ladder k u) 32

def x25519BasePoint : ByteArray := i2ospLE 9 32

def x25519Base (scalar32 : ByteArray) : ByteArray := x25519 scalar32 x25519BasePoint

/-- like `x25519` but `none` on wrong lengths or an all-zero shared secret
    (the check made by Go's `crypto/ecdh` and `curve25519.X25519`). -/
def x25519Checked (scalar32 u32 : ByteArray) : Option ByteArray :=
  let r := x25519 scalar32 u32
  if r.size ≠ 32 || r.data.all (· == 0) then none else some r

/-! ### edwards25519 -/

/-- `−121665/121666 mod p`. -/
def ed25519D : Nat := 0x52036cee2b6ffe738cc740797779e89800700a4d4141d8ab75eb4dca135978a3
/-- `2^((p−1)/4) mod p`, a square root of −1. -/
def ed25519SqrtM1 : Nat := 0x2b8324804fc1df0b2b4d00993dfbd7a72f431806ad2fe478c4ee1b274a0ea0b0
/-- order of the prime-order subgroup. -/
def ed25519L : Nat := 2 ^ 252 + 27742317777372353535851937790883648493
def ed25519Bx : Nat := 0x216936d3cd6e53fec0a4e231fdd6dc5c692cc7609525a7b2c9562d608f25d51a
def ed25519By : Nat := 0x6666666666666666666666666666666666666666666666666666666666666658

/-- extended twisted Edwards coordinates: `x = X/Z, y = Y/Z, x·y = T/Z`. -/
structure EdPoint where
  x : Nat
  y : Nat
  z : Nat
  t : Nat
  deriving Repr, Inhabited

namespace EdPoint

def identity : EdPoint := ⟨0, 1, 1, 0⟩

def ofAffine (x y : Nat) : EdPoint := ⟨x, y, 1, x * y % p25519⟩

def base : EdPoint := ofAffine ed25519Bx ed25519By

def neg (P : EdPoint) : EdPoint :=
  let p := p25519
  ⟨(p - P.x) % p, P.y, P.z, (p - P.t) % p⟩

/-- RFC 8032 §5.1.4 unified addition (complete on edwards25519). -/
def add (P Q : EdPoint) : EdPoint :=
  let p := p25519
  let a := subMod P.y P.x p * subMod Q.y Q.x p % p
  let b := (P.y + P.x) * (Q.y + Q.x) % p
  let c := P.t * (2 * ed25519D % p) % p * Q.t % p
  let d := 2 * P.z * Q.z % p
  let e := subMod b a p
  let f := subMod d c p
  let g := (d + c) % p
  let h := (b + a) % p
  ⟨e * f % p, g * h % p, f * g % p, e * h % p⟩

/-- RFC 8032 §5.1.4 doubling. -/
def double (P : EdPoint) : EdPoint :=
  let p := p25519
  let a := P.x * P.x % p
  let b := P.y * P.y % p
  let c := 2 * P.z * P.z % p
  let h := (a + b) % p
  let xy := (P.x + P.y) % p
  let e := subMod h (xy * xy % p) p
  let g := subMod a b p
  let f := (c + g) % p
  ⟨e * f % p, g * h % p, f * g % p, e * h % p⟩

/-- `k·P`, left-to-right double-and-add, any `k`. -/
def mul (k : Nat) (P : EdPoint) : EdPoint := Id.run do
  let nbits := natBitLen k
  let mut acc := identity
  for i in [0:nbits] do
    acc := acc.double
    if k.testBit (nbits - 1 - i) then
      acc := acc.add P
  return acc

/-- `k1·P1 + k2·P2` by interleaved double-and-add. -/
def mul2 (k1 : Nat) (P1 : EdPoint) (k2 : Nat) (P2 : EdPoint) : EdPoint := Id.run do
  let p12 := P1.add P2
  let nbits := max (natBitLen k1) (natBitLen k2)
  let mut acc := identity
  for i in [0:nbits] do
    acc := acc.double
    let j := nbits - 1 - i
    match k1.testBit j, k2.testBit j with
    | true, true => acc := acc.add p12
    | true, false => acc := acc.add P1
    | false, true => acc := acc.add P2
    | false, false => pure ()
  return acc

def toAffine (P : EdPoint) : Nat × Nat :=
  let p := p25519
  let zi := modInv P.z p
  (P.x * zi % p, P.y * zi % p)

/-- projective equality. -/
def eq (P Q : EdPoint) : Bool :=
  let p := p25519
  P.x * Q.z % p == Q.x * P.z % p && P.y * Q.z % p == Q.y * P.z % p

/-- `−x² + y² = 1 + d·x²·y²` for the affine image. -/
def onCurve (P : EdPoint) : Bool :=
  let p := p25519
  let (x, y) := P.toAffine
  let xx := x * x % p
  let yy := y * y % p
  subMod yy xx p == (1 + ed25519D * xx % p * yy) % p

/-- RFC 8032 §5.1.2: canonical 32-byte encoding (little-endian `y`, sign of `x` in the top bit). -/
def encode (P : EdPoint) : ByteArray :=
  let (x, y) := P.toAffine
  i2ospLE (y + (x % 2) * 2 ^ 255) 32

/-- RFC 8032 §5.1.3 decoding with Go's permissive rules when `strict = false`
    (unreduced `y` accepted and reduced; `x = 0` with sign bit set accepted).
    With `strict = true` both are rejected, as the RFC requires. -/
def decode (b : ByteArray) (strict : Bool := false) : Option EdPoint :=
  if b.size ≠ 32 then none
  else
    let p := p25519
    let v := os2ipLE b
    let sign := v.testBit 255
    let yRaw := v % 2 ^ 255
    if strict && yRaw ≥ p then none
    else
      let y := yRaw % p
      let yy := y * y % p
      let u := subMod yy 1 p
      let w := (ed25519D * yy + 1) % p
      -- candidate root x = u·w³·(u·w⁷)^((p−5)/8)
      let w3 := w * w % p * w % p
      let w7 := w3 * w3 % p * w % p
      let x := u * w3 % p * modPow (u * w7 % p) ((p - 5) / 8) p % p
      let wxx := w * (x * x % p) % p
      let root? : Option Nat :=
        if wxx == u then some x
        else if wxx == (p - u) % p then some (x * ed25519SqrtM1 % p)
        else none
      match root? with
      | none => none
      | some x =>
        if strict && x == 0 && sign then none
        else
          -- non-negative (even) root first, then apply the sign bit; −0 = 0
          let x := if x % 2 == 1 then p - x else x
          let x := if sign then (p - x) % p else x
          some (ofAffine x y)

end EdPoint

/-- RFC 8032 §5.1.5: secret scalar `s` (clamped low half of SHA-512(seed)) and the prefix. -/
def ed25519ExpandSeed (seed32 : ByteArray) : Nat × ByteArray :=
  let h := sha512 seed32
  let lo := os2ipLE (h.extract 0 32)
  let s := ((lo % 2 ^ 255) / 8 * 8) % 2 ^ 254 + 2 ^ 254
  (s, h.extract 32 64)

/-- public key for a 32-byte seed (empty string on a wrong seed length). -/
def ed25519PublicFromSeed (seed32 : ByteArray) : ByteArray :=
  if seed32.size ≠ 32 then ByteArray.empty
  else
    let (s, _) := ed25519ExpandSeed seed32
    (EdPoint.base.mul s).encode

/-- RFC 8032 §5.1.6 deterministic signature (empty string on a wrong seed length). -/
def ed25519Sign (seed32 msg : ByteArray) : ByteArray :=
  if seed32.size ≠ 32 then ByteArray.empty
  else
    let (s, prefix_) := ed25519ExpandSeed seed32
    let pub := (EdPoint.base.mul s).encode
    let r := os2ipLE (sha512 (prefix_ ++ msg)) % ed25519L
    let rEnc := (EdPoint.base.mul r).encode
    let k := os2ipLE (sha512 (rEnc ++ pub ++ msg)) % ed25519L
    rEnc ++ i2ospLE ((r + k * s) % ed25519L) 32

/-- Ed25519 verification with Go's acceptance rules (see the file header). -/
def ed25519Verify (pub32 msg sig64 : ByteArray) : Bool :=
  if pub32.size ≠ 32 || sig64.size ≠ 64 then false
  else
    let rBytes := sig64.extract 0 32
    let s := os2ipLE (sig64.extract 32 64)
    if s ≥ ed25519L then false
    else
      match EdPoint.decode pub32 with
      | none => false
      | some a =>
        let k := os2ipLE (sha512 (rBytes ++ pub32 ++ msg)) % ed25519L
        let r' := EdPoint.mul2 s EdPoint.base k a.neg
        bytesEq r'.encode rBytes

end TinkVerif.Prim
