/-
  ChaCha20, HChaCha20, Poly1305, ChaCha20-Poly1305 (RFC 8439) and XChaCha20-Poly1305
  (draft-irtf-cfrg-xchacha-03) reference implementation.

  Core Lean only.  Validated by the RFC / draft vectors (`TinkVerif/Kat/ChaCha.lean`) and by
  agreement with `golang.org/x/crypto/{chacha20,chacha20poly1305,poly1305}` on random inputs.

  ChaCha works on sixteen `UInt32` words.  Poly1305 exists twice: `poly1305Spec` is written
  directly over `Nat` (arithmetic mod 2^130 - 5, exactly as in RFC 8439 §2.5.1); `poly1305`, which
  the AEADs use, runs the block loop on five 26-bit limbs and is about ten times faster.
-/
import TinkVerif.Base.Bytes

namespace TinkVerif.Prim

namespace ChaChaImpl

/-- ChaCha state: 16 little-endian words. -/
structure St where
  x0 : UInt32
  x1 : UInt32
  x2 : UInt32
  x3 : UInt32
  x4 : UInt32
  x5 : UInt32
  x6 : UInt32
  x7 : UInt32
  x8 : UInt32
  x9 : UInt32
  x10 : UInt32
  x11 : UInt32
  x12 : UInt32
  x13 : UInt32
  x14 : UInt32
  x15 : UInt32
  deriving Inhabited

@[inline] def rotl (x : UInt32) (n : UInt32) : UInt32 := (x <<< n) ||| (x >>> (32 - n))

/-- quarter round (RFC 8439 §2.1). -/
@[inline] def qr (a b c d : UInt32) : UInt32 × UInt32 × UInt32 × UInt32 :=
  let a := a + b; let d := rotl (d ^^^ a) 16
  let c := c + d; let b := rotl (b ^^^ c) 12
  let a := a + b; let d := rotl (d ^^^ a) 8
  let c := c + d; let b := rotl (b ^^^ c) 7
  (a, b, c, d)

/-- one column round followed by one diagonal round (RFC 8439 §2.3). -/
def doubleRound (s : St) : St :=
  let (x0, x4, x8,  x12) := qr s.x0 s.x4 s.x8  s.x12
  let (x1, x5, x9,  x13) := qr s.x1 s.x5 s.x9  s.x13
  let (x2, x6, x10, x14) := qr s.x2 s.x6 s.x10 s.x14
  let (x3, x7, x11, x15) := qr s.x3 s.x7 s.x11 s.x15
  let (x0, x5, x10, x15) := qr x0 x5 x10 x15
  let (x1, x6, x11, x12) := qr x1 x6 x11 x12
  let (x2, x7, x8,  x13) := qr x2 x7 x8  x13
  let (x3, x4, x9,  x14) := qr x3 x4 x9  x14
  { x0, x1, x2, x3, x4, x5, x6, x7, x8, x9, x10, x11, x12, x13, x14, x15 }

/-- the 20 rounds (10 double rounds), without the final feed-forward addition. -/
def rounds20 (s : St) : St := Id.run do
  let mut s := s
  for _ in [0:10] do
    s := doubleRound s
  return s

@[inline] def St.add (a b : St) : St :=
  { x0 := a.x0 + b.x0, x1 := a.x1 + b.x1, x2 := a.x2 + b.x2, x3 := a.x3 + b.x3,
    x4 := a.x4 + b.x4, x5 := a.x5 + b.x5, x6 := a.x6 + b.x6, x7 := a.x7 + b.x7,
    x8 := a.x8 + b.x8, x9 := a.x9 + b.x9, x10 := a.x10 + b.x10, x11 := a.x11 + b.x11,
    x12 := a.x12 + b.x12, x13 := a.x13 + b.x13, x14 := a.x14 + b.x14, x15 := a.x15 + b.x15 }

/-- byte `i`, or 0 beyond the end. -/
@[inline] def gb (b : ByteArray) (i : Nat) : UInt8 := if h : i < b.size then b[i]'h else 0

/-- little-endian 32-bit load (bytes beyond the end read as 0). -/
@[inline] def loadLE32 (b : ByteArray) (i : Nat) : UInt32 :=
  (gb b i).toUInt32 ||| ((gb b (i+1)).toUInt32 <<< 8) |||
  ((gb b (i+2)).toUInt32 <<< 16) ||| ((gb b (i+3)).toUInt32 <<< 24)

@[inline] def pushLE32 (o : ByteArray) (x : UInt32) : ByteArray :=
  (((o.push x.toUInt8).push (x >>> 8).toUInt8).push (x >>> 16).toUInt8).push (x >>> 24).toUInt8

/-- "expand 32-byte k" ‖ key ‖ last four words. -/
@[inline] def initState (key : ByteArray) (w12 w13 w14 w15 : UInt32) : St :=
  { x0 := 0x61707865, x1 := 0x3320646e, x2 := 0x79622d32, x3 := 0x6b206574,
    x4 := loadLE32 key 0, x5 := loadLE32 key 4, x6 := loadLE32 key 8, x7 := loadLE32 key 12,
    x8 := loadLE32 key 16, x9 := loadLE32 key 20, x10 := loadLE32 key 24, x11 := loadLE32 key 28,
    x12 := w12, x13 := w13, x14 := w14, x15 := w15 }

/-- append `data[off .. off+64] ⊕ serialize(s)`; requires nothing of `data` (missing bytes read 0). -/
def xorBlock (o : ByteArray) (data : ByteArray) (off : Nat) (s : St) : ByteArray :=
  let o := pushLE32 o (loadLE32 data off ^^^ s.x0)
  let o := pushLE32 o (loadLE32 data (off+4) ^^^ s.x1)
  let o := pushLE32 o (loadLE32 data (off+8) ^^^ s.x2)
  let o := pushLE32 o (loadLE32 data (off+12) ^^^ s.x3)
  let o := pushLE32 o (loadLE32 data (off+16) ^^^ s.x4)
  let o := pushLE32 o (loadLE32 data (off+20) ^^^ s.x5)
  let o := pushLE32 o (loadLE32 data (off+24) ^^^ s.x6)
  let o := pushLE32 o (loadLE32 data (off+28) ^^^ s.x7)
  let o := pushLE32 o (loadLE32 data (off+32) ^^^ s.x8)
  let o := pushLE32 o (loadLE32 data (off+36) ^^^ s.x9)
  let o := pushLE32 o (loadLE32 data (off+40) ^^^ s.x10)
  let o := pushLE32 o (loadLE32 data (off+44) ^^^ s.x11)
  let o := pushLE32 o (loadLE32 data (off+48) ^^^ s.x12)
  let o := pushLE32 o (loadLE32 data (off+52) ^^^ s.x13)
  let o := pushLE32 o (loadLE32 data (off+56) ^^^ s.x14)
  pushLE32 o (loadLE32 data (off+60) ^^^ s.x15)

/-- little-endian 64-bit load (bytes beyond the end read as 0). -/
@[inline] def loadLE64 (b : ByteArray) (i : Nat) : UInt64 :=
  (loadLE32 b i).toUInt64 ||| ((loadLE32 b (i+4)).toUInt64 <<< 32)

@[inline] def pushLE64 (o : ByteArray) (x : UInt64) : ByteArray :=
  pushLE32 (pushLE32 o x.toUInt32) (x >>> 32).toUInt32

/-- the prime 2^130 - 5. -/
def p1305 : Nat := 2^130 - 5

/-- zero padding up to a multiple of 16. -/
def pad16 (o : ByteArray) (n : Nat) : ByteArray := Id.run do
  let mut o := o
  for _ in [0:(16 - n % 16) % 16] do
    o := o.push 0
  return o

/-- RFC 8439 §2.8: `ad ‖ pad16 ‖ ct ‖ pad16 ‖ le64(|ad|) ‖ le64(|ct|)`. -/
def macData (ad ct : ByteArray) : ByteArray :=
  let o := ByteArray.emptyWithCapacity (ad.size + ct.size + 48)
  let o := pad16 (o ++ ad) ad.size
  let o := pad16 (o ++ ct) ct.size
  pushLE64 (pushLE64 o (UInt64.ofNat ad.size)) (UInt64.ofNat ct.size)

end ChaChaImpl

open ChaChaImpl

/-- ChaCha20 block function (RFC 8439 §2.3): 32-byte key, 12-byte nonce, 32-bit block counter →
    64 bytes of key stream. -/
def chacha20Block (key nonce : ByteArray) (counter : UInt32) : ByteArray :=
  let s := initState key counter (loadLE32 nonce 0) (loadLE32 nonce 4) (loadLE32 nonce 8)
  xorBlock (ByteArray.emptyWithCapacity 64) ByteArray.empty 0 ((rounds20 s).add s)

/-- ChaCha20 encryption (RFC 8439 §2.4): XOR `data` with the key stream starting at block
    `counter` (the counter wraps mod 2^32). -/
def chacha20Xor (key nonce : ByteArray) (counter : UInt32) (data : ByteArray) : ByteArray := Id.run do
  let n0 := loadLE32 nonce 0
  let n1 := loadLE32 nonce 4
  let n2 := loadLE32 nonce 8
  let mut out := ByteArray.emptyWithCapacity (data.size + 64)
  let mut c := counter
  let full := data.size / 64
  for i in [0:full] do
    let s := initState key c n0 n1 n2
    out := xorBlock out data (64*i) ((rounds20 s).add s)
    c := c + 1
  if data.size % 64 != 0 then
    let s := initState key c n0 n1 n2
    out := xorBlock out data (64*full) ((rounds20 s).add s)
    out := out.extract 0 data.size
  return out

/-- HChaCha20 (draft-irtf-cfrg-xchacha §2.2): 32-byte key, 16-byte nonce → 32-byte subkey
    (words 0..3 and 12..15 of the state after 20 rounds, no feed-forward). -/
def hchacha20 (key nonce16 : ByteArray) : ByteArray :=
  let s := rounds20 (initState key (loadLE32 nonce16 0) (loadLE32 nonce16 4)
                                   (loadLE32 nonce16 8) (loadLE32 nonce16 12))
  let o := ByteArray.emptyWithCapacity 32
  let o := pushLE32 (pushLE32 (pushLE32 (pushLE32 o s.x0) s.x1) s.x2) s.x3
  pushLE32 (pushLE32 (pushLE32 (pushLE32 o s.x12) s.x13) s.x14) s.x15

/-- Poly1305 (RFC 8439 §2.5), transcribed directly over `Nat`: one-time key `r ‖ s` (32 bytes),
    16-byte tag.  Reference for `poly1305` below (same function, about ten times slower). -/
def poly1305Spec (key32 msg : ByteArray) : ByteArray := Id.run do
  let r : Nat := ((loadLE64 key32 0).toNat + ((loadLE64 key32 8).toNat <<< 64))
                  &&& 0x0ffffffc0ffffffc0ffffffc0fffffff
  let s : Nat := (loadLE64 key32 16).toNat + ((loadLE64 key32 24).toNat <<< 64)
  let mut acc : Nat := 0
  let full := msg.size / 16
  for i in [0:full] do
    let n := (loadLE64 msg (16*i)).toNat + ((loadLE64 msg (16*i+8)).toNat <<< 64) + (1 <<< 128)
    acc := ((acc + n) * r) % p1305
  let rem := msg.size % 16
  if rem != 0 then
    let n := (loadLE64 msg (16*full)).toNat + ((loadLE64 msg (16*full+8)).toNat <<< 64)
              + (1 <<< (8 * rem))
    acc := ((acc + n) * r) % p1305
  let t := acc + s
  let lo := UInt64.ofNat (t % 2^64)
  let hi := UInt64.ofNat ((t >>> 64) % 2^64)
  return pushLE64 (pushLE64 (ByteArray.emptyWithCapacity 16) lo) hi

namespace ChaChaImpl

/-- Poly1305 accumulator: `h = h0 + h1·2^26 + h2·2^52 + h3·2^78 + h4·2^104` (limbs may carry a few
    excess bits between steps; the value is only determined mod 2^130 - 5). -/
structure Acc where
  h0 : UInt64
  h1 : UInt64
  h2 : UInt64
  h3 : UInt64
  h4 : UInt64

/-- `n` steps `h ← (h + m)·r mod 2^130 - 5` over the 16-byte blocks of `msg` from offset `off`, in
    radix 2^26 (`r = Σ r_i·2^(26 i)`, `2^130 ≡ 5`).  `hibit` is the block's 2^128 bit expressed in
    the top limb (`2^24`), or 0 when the caller has already placed the padding byte.  With
    `h_i < 2^27` and `r_i < 2^26` every column sum stays below 2^59, so `UInt64` never overflows.
    (Plain recursion with `UInt64` arguments: compiled to a loop over unboxed machine words.) -/
def polyBlocks (r0 r1 r2 r3 r4 hibit : UInt64) (msg : ByteArray) :
    Nat → Nat → UInt64 → UInt64 → UInt64 → UInt64 → UInt64 → Acc
  | 0, _, h0, h1, h2, h3, h4 => { h0, h1, h2, h3, h4 }
  | n+1, off, h0, h1, h2, h3, h4 =>
    let lo := loadLE64 msg off
    let hi := loadLE64 msg (off + 8)
    let m : UInt64 := 0x3ffffff
    -- h += block
    let h0 := h0 + (lo &&& m)
    let h1 := h1 + ((lo >>> 26) &&& m)
    let h2 := h2 + (((lo >>> 52) ||| (hi <<< 12)) &&& m)
    let h3 := h3 + ((hi >>> 14) &&& m)
    let h4 := h4 + ((hi >>> 40) ||| hibit)
    -- h *= r, folding 2^130 ≡ 5
    let s1 := r1 * 5
    let s2 := r2 * 5
    let s3 := r3 * 5
    let s4 := r4 * 5
    let d0 := h0*r0 + h1*s4 + h2*s3 + h3*s2 + h4*s1
    let d1 := h0*r1 + h1*r0 + h2*s4 + h3*s3 + h4*s2
    let d2 := h0*r2 + h1*r1 + h2*r0 + h3*s4 + h4*s3
    let d3 := h0*r3 + h1*r2 + h2*r1 + h3*r0 + h4*s4
    let d4 := h0*r4 + h1*r3 + h2*r2 + h3*r1 + h4*r0
    -- carry propagation
    let d1 := d1 + (d0 >>> 26)
    let d2 := d2 + (d1 >>> 26)
    let d3 := d3 + (d2 >>> 26)
    let d4 := d4 + (d3 >>> 26)
    let g0 := (d0 &&& m) + (d4 >>> 26) * 5
    let g1 := (d1 &&& m) + (g0 >>> 26)
    polyBlocks r0 r1 r2 r3 r4 hibit msg n (off + 16) (g0 &&& m) g1 (d2 &&& m) (d3 &&& m) (d4 &&& m)

end ChaChaImpl

/-- Poly1305 (RFC 8439 §2.5): one-time key `r ‖ s` (32 bytes), 16-byte tag.  The block loop runs
    on five 26-bit limbs; clamping, the final reduction mod 2^130 - 5 and the addition of `s` are
    done over `Nat`. -/
def poly1305 (key32 msg : ByteArray) : ByteArray :=
  let rlo := loadLE64 key32 0 &&& 0x0ffffffc0fffffff
  let rhi := loadLE64 key32 8 &&& 0x0ffffffc0ffffffc
  let m : UInt64 := 0x3ffffff
  let r0 := rlo &&& m
  let r1 := (rlo >>> 26) &&& m
  let r2 := ((rlo >>> 52) ||| (rhi <<< 12)) &&& m
  let r3 := (rhi >>> 14) &&& m
  let r4 := rhi >>> 40
  let full := msg.size / 16
  let a := polyBlocks r0 r1 r2 r3 r4 0x1000000 msg full 0 0 0 0 0 0
  let rem := msg.size % 16
  let a :=
    if rem == 0 then a
    else
      -- last block: message bytes, then 0x01, then zeros (the 2^(8·rem) bit of RFC 8439)
      let last := pad16 ((msg.extract (16*full) msg.size).push 1) (rem + 1)
      polyBlocks r0 r1 r2 r3 r4 0 last 1 0 a.h0 a.h1 a.h2 a.h3 a.h4
  let h : Nat := a.h0.toNat + (a.h1.toNat <<< 26) + (a.h2.toNat <<< 52) + (a.h3.toNat <<< 78)
                  + (a.h4.toNat <<< 104)
  let s : Nat := (loadLE64 key32 16).toNat + ((loadLE64 key32 24).toNat <<< 64)
  let t := h % p1305 + s
  pushLE64 (pushLE64 (ByteArray.emptyWithCapacity 16) (UInt64.ofNat (t % 2^64)))
    (UInt64.ofNat ((t >>> 64) % 2^64))

/-- AEAD_CHACHA20_POLY1305 encryption (RFC 8439 §2.8): returns `ct ‖ tag`. -/
def chacha20poly1305Seal (key nonce12 pt ad : ByteArray) : ByteArray :=
  let otk := (chacha20Block key nonce12 0).extract 0 32
  let ct := chacha20Xor key nonce12 1 pt
  ct ++ poly1305 otk (macData ad ct)

/-- AEAD_CHACHA20_POLY1305 decryption of `ct ‖ tag`; `none` if too short or the tag is wrong. -/
def chacha20poly1305Open (key nonce12 ct ad : ByteArray) : Option ByteArray :=
  if ct.size < 16 then none
  else
    let n := ct.size - 16
    let body := ct.extract 0 n
    let otk := (chacha20Block key nonce12 0).extract 0 32
    if poly1305 otk (macData ad body) == ct.extract n ct.size then
      some (chacha20Xor key nonce12 1 body)
    else none

/-- XChaCha20-Poly1305: subkey = HChaCha20(key, nonce[0:16]), nonce12 = 00000000 ‖ nonce[16:24]. -/
def xchacha20poly1305Seal (key nonce24 pt ad : ByteArray) : ByteArray :=
  let sub := hchacha20 key (nonce24.extract 0 16)
  let n12 := (ByteArray.emptyWithCapacity 12 |>.push 0 |>.push 0 |>.push 0 |>.push 0) ++ nonce24.extract 16 24
  chacha20poly1305Seal sub n12 pt ad

def xchacha20poly1305Open (key nonce24 ct ad : ByteArray) : Option ByteArray :=
  let sub := hchacha20 key (nonce24.extract 0 16)
  let n12 := (ByteArray.emptyWithCapacity 12 |>.push 0 |>.push 0 |>.push 0 |>.push 0) ++ nonce24.extract 16 24
  chacha20poly1305Open sub n12 ct ad

end TinkVerif.Prim
