/-
  GHASH and AES-GCM (NIST SP 800-38D) reference implementation.

  Core Lean only.  Validated by the GCM specification test cases (`TinkVerif/Kat/Gcm.lean`) and
  by agreement with Go's `crypto/cipher` (`NewGCM`, `NewGCMWithNonceSize`, `NewGCMWithTagSize`).

  Field elements of GF(2^128) are pairs `(a, b)` of `UInt64`: `a` is the big-endian value of
  bytes 0..7, `b` of bytes 8..15.  In GCM's bit order the coefficient of `x^i` is bit `63 - i` of
  `a` for `i < 64` and bit `127 - i` of `b` otherwise, so multiplying by `x` is a right shift,
  and `x^128 = x^7 + x^2 + x + 1` folds back in as `0xe1 <<< 56` on `a`.

  GHASH uses a per-key table of the 16 products `n(x)·H` for the 4-bit polynomials `n`, and
  Horner's rule over the nibbles of the multiplicand, highest degree first.
-/
import TinkVerif.Prim.Aes

namespace TinkVerif.Prim

namespace GcmImpl
open AesImpl

/-- `(a, b) ↦ (a, b)·x` in GF(2^128), GCM bit order. -/
@[inline] def mulX (a b : UInt64) : UInt64 × UInt64 :=
  let a' := (a >>> 1) ^^^ (if b &&& 1 != 0 then 0xe100000000000000 else 0)
  let b' := (b >>> 1) ||| (a <<< 63)
  (a', b')

/-- `redTable[m]` = the `a` word of `(0, m)·x^4` for a 4-bit `m`: what the four coefficients
    `x^124..x^127` become after multiplication by `x^4` (the `b` word is always 0). -/
def redTable : Array UInt64 := Id.run do
  let mut t : Array UInt64 := Array.emptyWithCapacity 16
  for m in [0:16] do
    let mut a : UInt64 := 0
    let mut b : UInt64 := UInt64.ofNat m
    for _ in [0:4] do
      let (a', b') := mulX a b
      a := a'; b := b'
    t := t.push a
  return t

/-- Per-key table: entry `v` (4 bits; bit 3 is the coefficient of `x^0`, bit 0 of `x^3`) holds
    the two words of `v(x)·H`. -/
structure GhashKey where
  ta : Array UInt64
  tb : Array UInt64
  deriving Inhabited

def GhashKey.ofWords (ha hb : UInt64) : GhashKey := Id.run do
  let (h1a, h1b) := mulX ha hb
  let (h2a, h2b) := mulX h1a h1b
  let (h3a, h3b) := mulX h2a h2b
  let mut ta : Array UInt64 := Array.emptyWithCapacity 16
  let mut tb : Array UInt64 := Array.emptyWithCapacity 16
  for v in [0:16] do
    let mut a : UInt64 := 0
    let mut b : UInt64 := 0
    if v &&& 8 != 0 then
      a := a ^^^ ha
      b := b ^^^ hb
    if v &&& 4 != 0 then
      a := a ^^^ h1a
      b := b ^^^ h1b
    if v &&& 2 != 0 then
      a := a ^^^ h2a
      b := b ^^^ h2b
    if v &&& 1 != 0 then
      a := a ^^^ h3a
      b := b ^^^ h3b
    ta := ta.push a
    tb := tb.push b
  return { ta := ta, tb := tb }

/-- Horner steps for the `n` low nibbles of `w`, highest degree (lowest nibble) first:
    `Z ← Z·x^4 ⊕ nibble(x)·H`.  (Plain recursion with `UInt64` arguments: compiled to a loop over
    unboxed machine words.) -/
def GhashKey.mulWord (k : GhashKey) : Nat → UInt64 → UInt64 → UInt64 → UInt64 × UInt64
  | 0, za, zb, _ => (za, zb)
  | n+1, za, zb, w =>
    let m := (zb &&& 0xf).toNat
    let zb' := (zb >>> 4) ||| (za <<< 60)
    let za' := (za >>> 4) ^^^ redTable[m]!
    let i := (w &&& 0xf).toNat
    k.mulWord n (za' ^^^ k.ta[i]!) (zb' ^^^ k.tb[i]!) (w >>> 4)

/-- `(ya, yb) ↦ (ya, yb)·H`: bytes 8..15 hold the higher-degree coefficients, so `yb` goes first. -/
@[inline] def GhashKey.mul (k : GhashKey) (ya yb : UInt64) : UInt64 × UInt64 :=
  let (za, zb) := k.mulWord 16 0 0 yb
  k.mulWord 16 za zb ya

/-- big-endian 64-bit load (bytes beyond the end read as 0). -/
@[inline] def loadBE64 (b : ByteArray) (i : Nat) : UInt64 :=
  ((loadBE32 b i).toUInt64 <<< 32) ||| (loadBE32 b (i+4)).toUInt64

@[inline] def pushBE64 (o : ByteArray) (x : UInt64) : ByteArray :=
  pushBE32 (pushBE32 o (x >>> 32).toUInt32) x.toUInt32

/-- absorb `n` whole blocks starting at byte offset `off`: `Y ← (Y ⊕ X_i)·H`. -/
def GhashKey.absorb (k : GhashKey) (data : ByteArray) : Nat → Nat → UInt64 → UInt64 → UInt64 × UInt64
  | 0, _, ya, yb => (ya, yb)
  | n+1, off, ya, yb =>
    let (a, b) := k.mul (ya ^^^ loadBE64 data off) (yb ^^^ loadBE64 data (off + 8))
    k.absorb data n (off + 16) a b

/-- absorb `data`, zero-padded to a whole number of 16-byte blocks. -/
def GhashKey.update (k : GhashKey) (ya yb : UInt64) (data : ByteArray) : UInt64 × UInt64 :=
  let full := data.size / 16
  let (ya, yb) := k.absorb data full 0 ya yb
  let rem := data.size % 16
  if rem == 0 then (ya, yb)
  else
    let last := fit16 (data.extract (16*full) data.size)
    k.mul (ya ^^^ loadBE64 last 0) (yb ^^^ loadBE64 last 8)

/-- GHASH_H(A, C) = absorb pad(A), pad(C), then `[len A]_64 ‖ [len C]_64` (bit lengths). -/
def GhashKey.ghash (k : GhashKey) (ad ct : ByteArray) : UInt64 × UInt64 :=
  let (a, b) := k.update 0 0 ad
  let (a, b) := k.update a b ct
  k.mul (a ^^^ UInt64.ofNat (8 * ad.size)) (b ^^^ UInt64.ofNat (8 * ct.size))

/-- CTR mode with a 32-bit big-endian counter in the last word (`inc32`), starting at the counter
    block `(c0, c1, c2, c3)`. -/
def ctr32 (k : AesKey) (c0 c1 c2 c3 : UInt32) (data : ByteArray) : ByteArray := Id.run do
  let mut out := ByteArray.emptyWithCapacity data.size
  let mut c := c3
  let full := data.size / 16
  for i in [0:full] do
    let (k0, k1, k2, k3) := k.encryptWords c0 c1 c2 c
    c := c + 1
    let o := 16 * i
    out := pushBE32 out (loadBE32 data o ^^^ k0)
    out := pushBE32 out (loadBE32 data (o+4) ^^^ k1)
    out := pushBE32 out (loadBE32 data (o+8) ^^^ k2)
    out := pushBE32 out (loadBE32 data (o+12) ^^^ k3)
  let rem := data.size % 16
  if rem != 0 then
    let (k0, k1, k2, k3) := k.encryptWords c0 c1 c2 c
    let ks := pushBE32 (pushBE32 (pushBE32 (pushBE32 (ByteArray.emptyWithCapacity 16) k0) k1) k2) k3
    for j in [0:rem] do
      out := out.push (gb data (16*full + j) ^^^ gb ks j)
  return out

/-- The pieces of one GCM invocation shared by seal and open: returns the CTR transform of `data`
    and the full 16-byte tag computed over `ad` and the ciphertext (`data` itself when
    `dataIsCt`, else the CTR output). -/
def gcmCore (k : AesKey) (nonce data ad : ByteArray) (dataIsCt : Bool) : ByteArray × ByteArray :=
  let (h0, h1, h2, h3) := k.encryptWords 0 0 0 0
  let hk := GhashKey.ofWords ((h0.toUInt64 <<< 32) ||| h1.toUInt64) ((h2.toUInt64 <<< 32) ||| h3.toUInt64)
  -- pre-counter block J0
  let (j0, j1, j2, j3) : UInt32 × UInt32 × UInt32 × UInt32 :=
    if nonce.size == 12 then
      (loadBE32 nonce 0, loadBE32 nonce 4, loadBE32 nonce 8, 1)
    else
      let (a, b) := hk.ghash ByteArray.empty nonce
      ((a >>> 32).toUInt32, a.toUInt32, (b >>> 32).toUInt32, b.toUInt32)
  let out := ctr32 k j0 j1 j2 (j3 + 1) data
  let (sa, sb) := hk.ghash ad (if dataIsCt then data else out)
  let (e0, e1, e2, e3) := k.encryptWords j0 j1 j2 j3
  let ta := sa ^^^ ((e0.toUInt64 <<< 32) ||| e1.toUInt64)
  let tb := sb ^^^ ((e2.toUInt64 <<< 32) ||| e3.toUInt64)
  (out, pushBE64 (pushBE64 (ByteArray.emptyWithCapacity 16) ta) tb)

end GcmImpl

open GcmImpl AesImpl in
/-- GHASH_H(A, C) of SP 800-38D §6.4 with the GCM framing: `pad16(ad) ‖ pad16(ct) ‖
    [8·|ad|]_64 ‖ [8·|ct|]_64`.  `h` is the 16-byte hash subkey (zero-padded/truncated to 16). -/
def ghash (h : ByteArray) (ad ct : ByteArray) : ByteArray :=
  let h := fit16 h
  let hk := GhashKey.ofWords (loadBE64 h 0) (loadBE64 h 8)
  let (a, b) := hk.ghash ad ct
  pushBE64 (pushBE64 (ByteArray.emptyWithCapacity 16) a) b

open GcmImpl in
/-- AES-GCM authenticated encryption: returns `ct ‖ tag[0:tagLen]` (`tagLen ≤ 16`; larger values
    behave as 16).  Nonce: 12 bytes → `J0 = nonce ‖ 00000001`; any other length →
    `J0 = GHASH_H({}, nonce)`.  (SP 800-38D requires `|nonce| ≥ 1`; this is not checked.) -/
def gcmSeal (k : AesKey) (nonce pt ad : ByteArray) (tagLen : Nat := 16) : ByteArray :=
  let (ct, tag) := gcmCore k nonce pt ad false
  ct ++ tag.extract 0 tagLen

open GcmImpl in
/-- AES-GCM authenticated decryption of `ct ‖ tag`; `none` if the input is shorter than the tag,
    `tagLen > 16`, or the tag does not verify. -/
def gcmOpen (k : AesKey) (nonce ctAndTag ad : ByteArray) (tagLen : Nat := 16) : Option ByteArray :=
  if tagLen > 16 || ctAndTag.size < tagLen then none
  else
    let n := ctAndTag.size - tagLen
    let ct := ctAndTag.extract 0 n
    let (pt, tag) := gcmCore k nonce ct ad true
    if tag.extract 0 tagLen == ctAndTag.extract n ctAndTag.size then some pt else none

end TinkVerif.Prim
