/-
  SLH-DSA (FIPS 205, August 2024) — executable reference, written from the standard.
  Core Lean only.  Algorithm numbers in the comments are those of FIPS 205.

  Layout
  * §4.1–4.3  toInt / toByte / base_2b, ADRS (32-byte form + the 22-byte compressed form)
  * §11       the six tweakable hash functions, bundled in `HashFamily` (generic) and in `Ctx`
              (a family specialised to one parameter set and one PK.seed)
  * §5–§8     WOTS+, XMSS, hypertree, FORS (generic over `Ctx`)
  * §9        slh_keygen_internal / slh_sign_internal / slh_verify_internal
  * §10       the pure (non-pre-hash) message formatting and the external sign/verify wrappers

  Nothing is proved here; the file is validated by the KATs in `TinkVerif/Kat/Slhdsa.lean` and by
  a compiled cross-check against tink-go on random inputs.
-/
import TinkVerif.Base.Bytes
import TinkVerif.Prim.Hash
import TinkVerif.Prim.Keccak

namespace TinkVerif.Prim.Slhdsa

/-! ## §4.1  integer / byte-string conversions -/

/-- Algorithm 2 `toInt(X, n)`: big-endian byte string → integer (`n = X.size`). -/
def toInt (b : ByteArray) : Nat := b.foldl (fun acc x => acc * 256 + x.toNat) 0

/-- Algorithm 3 `toByte(x, n)`: the `n`-byte big-endian encoding of `x mod 256^n`. -/
def toByte (x n : Nat) : ByteArray := Id.run do
  let mut out : ByteArray := ⟨Array.replicate n 0⟩
  let mut total := x
  for i in [0:n] do
    out := out.set! (n - 1 - i) (UInt8.ofNat (total % 256))
    total := total / 256
  return out

@[inline] private def byteAt (x : ByteArray) (i : Nat) : UInt8 :=
  if h : i < x.size then x[i] else 0

/-- Algorithm 4 `base_2^b(X, b, out_len)`.  `X` must have at least `⌈out_len·b/8⌉` bytes
(missing bytes read as zero). -/
def base2b (x : ByteArray) (b outLen : Nat) : Array Nat := Id.run do
  let mut inp := 0
  let mut bits := 0
  let mut total := 0
  let mut out : Array Nat := Array.mkEmpty outLen
  for _ in [0:outLen] do
    -- `while bits < b`: every pass adds 8 bits, so ⌈b/8⌉ passes are enough
    for _ in [0:(b + 7) / 8] do
      if bits < b then
        total := (total <<< 8) + (byteAt x inp).toNat
        inp := inp + 1
        bits := bits + 8
    bits := bits - b
    out := out.push ((total >>> bits) % 2 ^ b)
  return out

/-! ## §4.2–4.3  addresses -/

/-- Address types (Table 1). -/
def WOTS_HASH : Nat := 0
def WOTS_PK : Nat := 1
def TREE : Nat := 2
def FORS_TREE : Nat := 3
def FORS_ROOTS : Nat := 4
def WOTS_PRF : Nat := 5
def FORS_PRF : Nat := 6

/-- The all-zero 32-byte address `toByte(0, 32)`. -/
def adrsZero : ByteArray := toByte 0 32

/-- `ADRS[off : off+len] ← toByte(v, len)`. -/
def adrsPut (adrs : ByteArray) (off len v : Nat) : ByteArray :=
  (toByte v len).copySlice 0 adrs off len

/-- `ADRS[off : off+4] ← toByte(v, 4)` (same as `adrsPut adrs off 4 v`, without the temporary). -/
@[inline] def adrsPut32 (adrs : ByteArray) (off v : Nat) : ByteArray :=
  let a := adrs.set! off (UInt8.ofNat (v >>> 24))
  let a := a.set! (off + 1) (UInt8.ofNat (v >>> 16))
  let a := a.set! (off + 2) (UInt8.ofNat (v >>> 8))
  a.set! (off + 3) (UInt8.ofNat v)

/-- `ADRS.setLayerAddress(l)`: `ADRS[0:4]`. -/
def setLayerAddress (adrs : ByteArray) (l : Nat) : ByteArray := adrsPut32 adrs 0 l
/-- `ADRS.setTreeAddress(t)`: `ADRS[4:16]`. -/
def setTreeAddress (adrs : ByteArray) (t : Nat) : ByteArray := adrsPut adrs 4 12 t
/-- `ADRS.setTypeAndClear(Y)`: `ADRS[16:20] ← Y`, `ADRS[20:32] ← 0`. -/
def setTypeAndClear (adrs : ByteArray) (y : Nat) : ByteArray :=
  adrsPut32 (adrsPut32 (adrsPut32 (adrsPut32 adrs 16 y) 20 0) 24 0) 28 0
/-- `ADRS.setKeyPairAddress(i)`: `ADRS[20:24]`. -/
def setKeyPairAddress (adrs : ByteArray) (i : Nat) : ByteArray := adrsPut32 adrs 20 i
/-- `ADRS.setChainAddress(i)`: `ADRS[24:28]`. -/
def setChainAddress (adrs : ByteArray) (i : Nat) : ByteArray := adrsPut32 adrs 24 i
/-- `ADRS.setTreeHeight(i)`: `ADRS[24:28]`. -/
def setTreeHeight (adrs : ByteArray) (i : Nat) : ByteArray := adrsPut32 adrs 24 i
/-- `ADRS.setHashAddress(i)`: `ADRS[28:32]`. -/
def setHashAddress (adrs : ByteArray) (i : Nat) : ByteArray := adrsPut32 adrs 28 i
/-- `ADRS.setTreeIndex(i)`: `ADRS[28:32]`. -/
def setTreeIndex (adrs : ByteArray) (i : Nat) : ByteArray := adrsPut32 adrs 28 i
/-- `ADRS.getKeyPairAddress()`. -/
def getKeyPairAddress (adrs : ByteArray) : Nat := toInt (adrs.extract 20 24)
/-- `ADRS.getTreeIndex()`. -/
def getTreeIndex (adrs : ByteArray) : Nat := toInt (adrs.extract 28 32)

/-- §11.2: the 22-byte compressed address `ADRS[3] ‖ ADRS[8:16] ‖ ADRS[19] ‖ ADRS[20:32]`. -/
def compressAdrs (adrs : ByteArray) : ByteArray :=
  adrs.extract 3 4 ++ adrs.extract 8 16 ++ adrs.extract 19 20 ++ adrs.extract 20 32

/-! ## §11  parameter sets and hash functions -/

/-- A parameter set (Table 2).  `hp` is `h' = h/d`; `m` is the `H_msg` output length. -/
structure Params where
  name : String
  isShake : Bool
  n : Nat
  h : Nat
  d : Nat
  hp : Nat
  a : Nat
  k : Nat
  lgw : Nat
  m : Nat
  deriving Repr, BEq, Inhabited

namespace Params

def w (p : Params) : Nat := 2 ^ p.lgw
/-- `len_1 = ⌈8n / lg_w⌉` (eq. 5.1). -/
def len1 (p : Params) : Nat := (8 * p.n + p.lgw - 1) / p.lgw
/-- `len_2 = ⌊log2(len_1·(w−1)) / lg_w⌋ + 1` (eq. 5.2). -/
def len2 (p : Params) : Nat := Nat.log2 (p.len1 * (p.w - 1)) / p.lgw + 1
/-- `len = len_1 + len_2` (eq. 5.3). -/
def len (p : Params) : Nat := p.len1 + p.len2
/-- byte length of `md`: `⌈k·a / 8⌉`. -/
def mdLen (p : Params) : Nat := (p.k * p.a + 7) / 8
/-- byte length of the tree-index part of the digest: `⌈(h − h/d) / 8⌉`. -/
def treeIdxLen (p : Params) : Nat := (p.h - p.hp + 7) / 8
/-- byte length of the leaf-index part of the digest: `⌈h / (8d)⌉`. -/
def leafIdxLen (p : Params) : Nat := (p.hp + 7) / 8
/-- `m` recomputed from its definition (equals `p.m` for the twelve approved sets). -/
def mDerived (p : Params) : Nat := p.mdLen + p.treeIdxLen + p.leafIdxLen
def forsSigSize (p : Params) : Nat := p.k * (1 + p.a) * p.n
def xmssSigSize (p : Params) : Nat := (p.len + p.hp) * p.n
def htSigSize (p : Params) : Nat := p.d * p.xmssSigSize
/-- signature length `(1 + k(1+a) + h + d·len)·n`. -/
def sigSize (p : Params) : Nat := p.n + p.forsSigSize + p.htSigSize
def pkSize (p : Params) : Nat := 2 * p.n
def skSize (p : Params) : Nat := 4 * p.n

end Params

private def mkP (name : String) (isShake : Bool) (n h d hp a k lgw m : Nat) : Params :=
  { name, isShake, n, h, d, hp, a, k, lgw, m }

def SHA2_128s : Params := mkP "SLH-DSA-SHA2-128s" false 16 63 7 9 12 14 4 30
def SHAKE_128s : Params := mkP "SLH-DSA-SHAKE-128s" true 16 63 7 9 12 14 4 30
def SHA2_128f : Params := mkP "SLH-DSA-SHA2-128f" false 16 66 22 3 6 33 4 34
def SHAKE_128f : Params := mkP "SLH-DSA-SHAKE-128f" true 16 66 22 3 6 33 4 34
def SHA2_192s : Params := mkP "SLH-DSA-SHA2-192s" false 24 63 7 9 14 17 4 39
def SHAKE_192s : Params := mkP "SLH-DSA-SHAKE-192s" true 24 63 7 9 14 17 4 39
def SHA2_192f : Params := mkP "SLH-DSA-SHA2-192f" false 24 66 22 3 8 33 4 42
def SHAKE_192f : Params := mkP "SLH-DSA-SHAKE-192f" true 24 66 22 3 8 33 4 42
def SHA2_256s : Params := mkP "SLH-DSA-SHA2-256s" false 32 64 8 8 14 22 4 47
def SHAKE_256s : Params := mkP "SLH-DSA-SHAKE-256s" true 32 64 8 8 14 22 4 47
def SHA2_256f : Params := mkP "SLH-DSA-SHA2-256f" false 32 68 17 4 9 35 4 49
def SHAKE_256f : Params := mkP "SLH-DSA-SHAKE-256f" true 32 68 17 4 9 35 4 49

/-- The twelve approved parameter sets, in the order of Table 2. -/
def allParams : List Params :=
  [SHA2_128s, SHAKE_128s, SHA2_128f, SHAKE_128f, SHA2_192s, SHAKE_192s,
   SHA2_192f, SHAKE_192f, SHA2_256s, SHAKE_256s, SHA2_256f, SHAKE_256f]

/-- Look a parameter set up by its FIPS 205 name, e.g. `"SLH-DSA-SHA2-128s"`. -/
def Params.ofName? (s : String) : Option Params := allParams.find? (·.name == s)

/-- The six functions of §11, for one parameter set.  `adrs` is always the full 32-byte address
(the SHA2 instantiation compresses it itself). -/
structure HashFamily where
  /-- `H_msg(R, PK.seed, PK.root, M)` → `m` bytes -/
  Hmsg : (r pkSeed pkRoot msg : ByteArray) → ByteArray
  /-- `PRF(PK.seed, SK.seed, ADRS)` → `n` bytes -/
  PRF : (pkSeed skSeed adrs : ByteArray) → ByteArray
  /-- `PRF_msg(SK.prf, opt_rand, M)` → `n` bytes -/
  PRFmsg : (skPrf optRand msg : ByteArray) → ByteArray
  /-- `F(PK.seed, ADRS, M_1)` → `n` bytes -/
  F : (pkSeed adrs m1 : ByteArray) → ByteArray
  /-- `H(PK.seed, ADRS, M_2)` → `n` bytes -/
  H : (pkSeed adrs m2 : ByteArray) → ByteArray
  /-- `T_l(PK.seed, ADRS, M_l)` → `n` bytes -/
  T : (pkSeed adrs ml : ByteArray) → ByteArray

/-- §11.1: SLH-DSA using SHAKE. -/
def shakeFamily (n m : Nat) : HashFamily where
  Hmsg r pkSeed pkRoot msg := shake256 (r ++ pkSeed ++ pkRoot ++ msg) m
  PRF pkSeed skSeed adrs := shake256 (pkSeed ++ adrs ++ skSeed) n
  PRFmsg skPrf optRand msg := shake256 (skPrf ++ optRand ++ msg) n
  F pkSeed adrs m1 := shake256 (pkSeed ++ adrs ++ m1) n
  H pkSeed adrs m2 := shake256 (pkSeed ++ adrs ++ m2) n
  T pkSeed adrs ml := shake256 (pkSeed ++ adrs ++ ml) n

/-- `Trunc_n(SHA-256(PK.seed ‖ toByte(0, 64−n) ‖ ADRS^c ‖ M))`. -/
def sha256Tweak (n : Nat) (pkSeed adrs m : ByteArray) : ByteArray :=
  (sha256 (pkSeed ++ toByte 0 (64 - n) ++ compressAdrs adrs ++ m)).extract 0 n

/-- `Trunc_n(SHA-512(PK.seed ‖ toByte(0, 128−n) ‖ ADRS^c ‖ M))`. -/
def sha512Tweak (n : Nat) (pkSeed adrs m : ByteArray) : ByteArray :=
  (sha512 (pkSeed ++ toByte 0 (128 - n) ++ compressAdrs adrs ++ m)).extract 0 n

/-- §11.2.1: SLH-DSA using SHA2 for security category 1 (`n = 16`). -/
def sha2Cat1Family (n m : Nat) : HashFamily where
  Hmsg r pkSeed pkRoot msg :=
    mgf1 .sha256 (r ++ pkSeed ++ sha256 (r ++ pkSeed ++ pkRoot ++ msg)) m
  PRF pkSeed skSeed adrs := sha256Tweak n pkSeed adrs skSeed
  PRFmsg skPrf optRand msg := (hmac .sha256 skPrf (optRand ++ msg)).extract 0 n
  F := sha256Tweak n
  H := sha256Tweak n
  T := sha256Tweak n

/-- §11.2.2: SLH-DSA using SHA2 for security categories 3 and 5 (`n = 24, 32`). -/
def sha2Cat35Family (n m : Nat) : HashFamily where
  Hmsg r pkSeed pkRoot msg :=
    mgf1 .sha512 (r ++ pkSeed ++ sha512 (r ++ pkSeed ++ pkRoot ++ msg)) m
  PRF pkSeed skSeed adrs := sha256Tweak n pkSeed adrs skSeed
  PRFmsg skPrf optRand msg := (hmac .sha512 skPrf (optRand ++ msg)).extract 0 n
  F := sha256Tweak n
  H := sha512Tweak n
  T := sha512Tweak n

/-- The hash family of a parameter set. -/
def Params.hashFamily (p : Params) : HashFamily :=
  if p.isShake then shakeFamily p.n p.m
  else if p.n = 16 then sha2Cat1Family p.n p.m
  else sha2Cat35Family p.n p.m

/-- A parameter set together with `PK.seed` and the four tweakable hashes specialised to it
(every call inside one key generation / signature / verification uses the same `PK.seed`). -/
structure Ctx where
  p : Params
  pkSeed : ByteArray
  PRF : (skSeed adrs : ByteArray) → ByteArray
  F : (adrs m1 : ByteArray) → ByteArray
  H : (adrs m2 : ByteArray) → ByteArray
  T : (adrs ml : ByteArray) → ByteArray

/-- Specialise a family by simply applying each function to `PK.seed` (no precomputation). -/
def Ctx.ofFamily (p : Params) (hf : HashFamily) (pkSeed : ByteArray) : Ctx where
  p := p
  pkSeed := pkSeed
  PRF := hf.PRF pkSeed
  F := hf.F pkSeed
  H := hf.H pkSeed
  T := hf.T pkSeed

/-- The literal context: the functions of §11 exactly as written in `hashFamily`. -/
def Params.ctxSpec (p : Params) (pkSeed : ByteArray) : Ctx := Ctx.ofFamily p p.hashFamily pkSeed

/-! ### Fast paths

The functions below compute exactly the same values as `shakeFamily` / `sha2Cat1Family` /
`sha2Cat35Family` (the compiled cross-check compares both against tink-go on random inputs) but
avoid re-hashing the constant first block `PK.seed ‖ toByte(0, 64−n)` (resp. `128−n`) and the
temporary concatenations. -/

private def zeroBlock : ByteArray := ⟨Array.replicate 256 0⟩

@[inline] private def pushBE64 (o : ByteArray) (x : UInt64) : ByteArray :=
  ((((((((o.push (x >>> 56).toUInt8).push (x >>> 48).toUInt8).push (x >>> 40).toUInt8).push
    (x >>> 32).toUInt8).push (x >>> 24).toUInt8).push (x >>> 16).toUInt8).push
    (x >>> 8).toUInt8).push x.toUInt8)

@[inline] private def pushLE64 (o : ByteArray) (x : UInt64) : ByteArray :=
  ((((((((o.push x.toUInt8).push (x >>> 8).toUInt8).push (x >>> 16).toUInt8).push
    (x >>> 24).toUInt8).push (x >>> 32).toUInt8).push (x >>> 40).toUInt8).push
    (x >>> 48).toUInt8).push (x >>> 56).toUInt8)

/-- `ADRS^c ‖ M ‖ 0x80 ‖ 0…0 ‖ bitlen`: everything that follows the first (constant) block of
`SHA-x(PK.seed ‖ toByte(0, blockLen−n) ‖ ADRS^c ‖ M)`, including the Merkle–Damgård padding for
the total length `blockLen + 22 + |M|`.  `lenBytes` is 8 for SHA-256 and 16 for SHA-512. -/
def sha2Tail (blockLen lenBytes : Nat) (adrs m : ByteArray) : ByteArray :=
  let restLen := 22 + m.size
  let zeros := (blockLen - (restLen + 1 + lenBytes) % blockLen) % blockLen
  let b := ByteArray.emptyWithCapacity (restLen + 1 + zeros + lenBytes)
  let b := adrs.copySlice 3 b 0 1
  let b := adrs.copySlice 8 b 1 8
  let b := adrs.copySlice 19 b 9 13
  let b := m.copySlice 0 b 22 m.size
  let b := b.push 0x80
  let b := zeroBlock.copySlice 0 b b.size (zeros + lenBytes - 8)
  pushBE64 b (UInt64.ofNat ((blockLen + restLen) * 8))

/-- Continue SHA-256 from chaining value `st` over the already padded `tail`; `Trunc_n`. -/
def sha256Finish (st : ShaImpl.S32) (tail : ByteArray) (n : Nat) : ByteArray := Id.run do
  let mut s := st
  for i in [0:tail.size / 64] do
    s := ShaImpl.sha256Compress s tail (i * 64)
  return s.toBytes.extract 0 n

/-- Continue SHA-512 from chaining value `st` over the already padded `tail`; `Trunc_n`. -/
def sha512Finish (st : ShaImpl.S64) (tail : ByteArray) (n : Nat) : ByteArray := Id.run do
  let mut s := st
  for i in [0:tail.size / 128] do
    s := ShaImpl.sha512Compress s tail (i * 128)
  return s.toBytes.extract 0 n

/-- SHA2 context with the chaining values after the first block precomputed
(requires `|PK.seed| = n ≤ 64`). -/
def sha2Ctx (p : Params) (pkSeed : ByteArray) : Ctx :=
  let n := p.n
  let st256 := ShaImpl.sha256Compress ShaImpl.sha256Init (pkSeed ++ toByte 0 (64 - n)) 0
  let f := fun (adrs m : ByteArray) => sha256Finish st256 (sha2Tail 64 8 adrs m) n
  if n = 16 then
    { p, pkSeed, PRF := fun skSeed adrs => f adrs skSeed, F := f, H := f, T := f }
  else
    let st512 := ShaImpl.sha512Compress ShaImpl.sha512Init (pkSeed ++ toByte 0 (128 - n)) 0
    let g := fun (adrs m : ByteArray) => sha512Finish st512 (sha2Tail 128 16 adrs m) n
    { p, pkSeed, PRF := fun skSeed adrs => f adrs skSeed, F := f, H := g, T := g }

/-- `SHAKE256(a ‖ b ‖ c, 8n)`, single-permutation fast path when the input fits one rate block
(`< 136` bytes) and `n ≤ 32`. -/
def shake3 (n : Nat) (a b c : ByteArray) : ByteArray :=
  let len := a.size + b.size + c.size
  if len < 136 ∧ n ≤ 32 then
    let blk := a.copySlice 0 (zeroBlock.extract 0 136) 0 a.size
    let blk := b.copySlice 0 blk a.size b.size
    let blk := c.copySlice 0 blk (a.size + b.size) c.size
    let blk := blk.set! len 0x1F
    let blk := blk.set! 135 (blk.get! 135 ||| 0x80)
    let s := (KState.zero.xorBlock blk 0 17).permute
    let o := ByteArray.emptyWithCapacity 32
    let o := pushLE64 (pushLE64 (pushLE64 (pushLE64 o s.a0) s.a1) s.a2) s.a3
    if n = 32 then o else o.extract 0 n
  else shake256 (a ++ b ++ c) n

def shakeCtx (p : Params) (pkSeed : ByteArray) : Ctx :=
  let f := fun (adrs m : ByteArray) => shake3 p.n pkSeed adrs m
  { p, pkSeed, PRF := fun skSeed adrs => f adrs skSeed, F := f, H := f, T := f }

/-- The context used by key generation, signing and verification: the fast paths when
`|PK.seed| = n`, the literal functions otherwise. -/
def Params.ctx (p : Params) (pkSeed : ByteArray) : Ctx :=
  if pkSeed.size = p.n ∧ p.n ≤ 32 then
    if p.isShake then shakeCtx p pkSeed else sha2Ctx p pkSeed
  else p.ctxSpec pkSeed

/-! ## §5  WOTS+ -/

/-- Algorithm 5 `chain(X, i, s, PK.seed, ADRS)`. -/
def chain (c : Ctx) (x : ByteArray) (i s : Nat) (adrs : ByteArray) : ByteArray := Id.run do
  let mut tmp := x
  let mut adrs := adrs
  for j in [i:i + s] do
    adrs := setHashAddress adrs j
    tmp := c.F adrs tmp
  return tmp

/-- The `len_2` base-`w` checksum digits appended to the `len_1` message digits
(Algorithm 7 lines 2–7 = Algorithm 8 lines 2–7). -/
def wotsChecksumDigits (p : Params) (msgDigits : Array Nat) : Array Nat :=
  let csum := msgDigits.foldl (fun acc d => acc + (p.w - 1 - d)) 0
  let csum := csum <<< ((8 - ((p.len2 * p.lgw) % 8)) % 8)
  base2b (toByte csum ((p.len2 * p.lgw + 7) / 8)) p.lgw p.len2

/-- All `len` base-`w` digits signed by WOTS+ for the `n`-byte message `m`. -/
def wotsDigits (p : Params) (m : ByteArray) : Array Nat :=
  let msg := base2b m p.lgw p.len1
  msg ++ wotsChecksumDigits p msg

/-- Algorithm 6 `wots_pkGen(SK.seed, PK.seed, ADRS)`. -/
def wotsPkGen (c : Ctx) (skSeed adrs : ByteArray) : ByteArray := Id.run do
  let p := c.p
  let mut adrs := adrs
  let mut skAdrs := setTypeAndClear adrs WOTS_PRF
  skAdrs := setKeyPairAddress skAdrs (getKeyPairAddress adrs)
  let mut tmp := ByteArray.emptyWithCapacity (p.len * p.n)
  for i in [0:p.len] do
    skAdrs := setChainAddress skAdrs i
    let sk := c.PRF skSeed skAdrs
    adrs := setChainAddress adrs i
    tmp := tmp ++ chain c sk 0 (p.w - 1) adrs
  let mut pkAdrs := setTypeAndClear adrs WOTS_PK
  pkAdrs := setKeyPairAddress pkAdrs (getKeyPairAddress adrs)
  return c.T pkAdrs tmp

/-- Algorithm 7 `wots_sign(M, SK.seed, PK.seed, ADRS)`. -/
def wotsSign (c : Ctx) (m skSeed adrs : ByteArray) : ByteArray := Id.run do
  let p := c.p
  let msg := wotsDigits p m
  let mut adrs := adrs
  let mut skAdrs := setTypeAndClear adrs WOTS_PRF
  skAdrs := setKeyPairAddress skAdrs (getKeyPairAddress adrs)
  let mut sig := ByteArray.emptyWithCapacity (p.len * p.n)
  for i in [0:p.len] do
    skAdrs := setChainAddress skAdrs i
    let sk := c.PRF skSeed skAdrs
    adrs := setChainAddress adrs i
    sig := sig ++ chain c sk 0 msg[i]! adrs
  return sig

/-- Algorithm 8 `wots_pkFromSig(sig, M, PK.seed, ADRS)`; `sig` has `len·n` bytes. -/
def wotsPkFromSig (c : Ctx) (sig m adrs : ByteArray) : ByteArray := Id.run do
  let p := c.p
  let msg := wotsDigits p m
  let mut adrs := adrs
  let mut tmp := ByteArray.emptyWithCapacity (p.len * p.n)
  for i in [0:p.len] do
    adrs := setChainAddress adrs i
    let d := msg[i]!
    tmp := tmp ++ chain c (sig.extract (i * p.n) ((i + 1) * p.n)) d (p.w - 1 - d) adrs
  let mut pkAdrs := setTypeAndClear adrs WOTS_PK
  pkAdrs := setKeyPairAddress pkAdrs (getKeyPairAddress adrs)
  return c.T pkAdrs tmp

/-! ## §6  XMSS -/

/-- Algorithm 9 `xmss_node(SK.seed, i, z, PK.seed, ADRS)`. -/
def xmssNode (c : Ctx) (skSeed : ByteArray) (i : Nat) : (z : Nat) → (adrs : ByteArray) → ByteArray
  | 0, adrs =>
    let adrs := setTypeAndClear adrs WOTS_HASH
    let adrs := setKeyPairAddress adrs i
    wotsPkGen c skSeed adrs
  | z + 1, adrs =>
    let lnode := xmssNode c skSeed (2 * i) z adrs
    let rnode := xmssNode c skSeed (2 * i + 1) z adrs
    let adrs := setTypeAndClear adrs TREE
    let adrs := setTreeHeight adrs (z + 1)
    let adrs := setTreeIndex adrs i
    c.H adrs (lnode ++ rnode)

/-- Algorithm 10 `xmss_sign(M, SK.seed, idx, PK.seed, ADRS)` → `sig ‖ AUTH`, `(len + h')·n` bytes. -/
def xmssSign (c : Ctx) (m skSeed : ByteArray) (idx : Nat) (adrs : ByteArray) : ByteArray := Id.run do
  let p := c.p
  let mut auth := ByteArray.emptyWithCapacity (p.hp * p.n)
  for j in [0:p.hp] do
    let k := (idx / 2 ^ j) ^^^ 1
    auth := auth ++ xmssNode c skSeed k j adrs
  let mut adrs := setTypeAndClear adrs WOTS_HASH
  adrs := setKeyPairAddress adrs idx
  let sig := wotsSign c m skSeed adrs
  return sig ++ auth

/-- Algorithm 11 `xmss_pkFromSig(idx, SIG_XMSS, M, PK.seed, ADRS)`. -/
def xmssPkFromSig (c : Ctx) (idx : Nat) (sigXmss m adrs : ByteArray) : ByteArray := Id.run do
  let p := c.p
  let n := p.n
  let mut adrs := setTypeAndClear adrs WOTS_HASH
  adrs := setKeyPairAddress adrs idx
  let sig := sigXmss.extract 0 (p.len * n)
  let auth := sigXmss.extract (p.len * n) ((p.len + p.hp) * n)
  let mut node := wotsPkFromSig c sig m adrs
  adrs := setTypeAndClear adrs TREE
  adrs := setTreeIndex adrs idx
  for k in [0:p.hp] do
    adrs := setTreeHeight adrs (k + 1)
    let authK := auth.extract (k * n) ((k + 1) * n)
    if (idx / 2 ^ k) % 2 = 0 then
      adrs := setTreeIndex adrs (getTreeIndex adrs / 2)
      node := c.H adrs (node ++ authK)
    else
      adrs := setTreeIndex adrs ((getTreeIndex adrs - 1) / 2)
      node := c.H adrs (authK ++ node)
  return node

/-! ## §7  hypertree -/

/-- Algorithm 12 `ht_sign(M, SK.seed, PK.seed, idx_tree, idx_leaf)`. -/
def htSign (c : Ctx) (m skSeed : ByteArray) (idxTree idxLeaf : Nat) : ByteArray := Id.run do
  let p := c.p
  let mut idxTree := idxTree
  let mut idxLeaf := idxLeaf
  let mut adrs := setTreeAddress adrsZero idxTree
  let mut sigTmp := xmssSign c m skSeed idxLeaf adrs
  let mut sigHt := sigTmp
  let mut root := xmssPkFromSig c idxLeaf sigTmp m adrs
  for j in [1:p.d] do
    idxLeaf := idxTree % 2 ^ p.hp
    idxTree := idxTree >>> p.hp
    adrs := setLayerAddress adrs j
    adrs := setTreeAddress adrs idxTree
    sigTmp := xmssSign c root skSeed idxLeaf adrs
    sigHt := sigHt ++ sigTmp
    if j < p.d - 1 then
      root := xmssPkFromSig c idxLeaf sigTmp root adrs
  return sigHt

/-- Algorithm 13 `ht_verify(M, SIG_HT, PK.seed, idx_tree, idx_leaf, PK.root)`. -/
def htVerify (c : Ctx) (m sigHt : ByteArray) (idxTree idxLeaf : Nat) (pkRoot : ByteArray) : Bool :=
  Id.run do
    let p := c.p
    let sz := p.xmssSigSize
    let mut idxTree := idxTree
    let mut idxLeaf := idxLeaf
    let mut adrs := setTreeAddress adrsZero idxTree
    let mut node := xmssPkFromSig c idxLeaf (sigHt.extract 0 sz) m adrs
    for j in [1:p.d] do
      idxLeaf := idxTree % 2 ^ p.hp
      idxTree := idxTree >>> p.hp
      adrs := setLayerAddress adrs j
      adrs := setTreeAddress adrs idxTree
      node := xmssPkFromSig c idxLeaf (sigHt.extract (j * sz) ((j + 1) * sz)) node adrs
    return node == pkRoot

/-! ## §8  FORS -/

/-- Algorithm 14 `fors_skGen(SK.seed, PK.seed, ADRS, idx)`. -/
def forsSkGen (c : Ctx) (skSeed adrs : ByteArray) (idx : Nat) : ByteArray :=
  let skAdrs := setTypeAndClear adrs FORS_PRF
  let skAdrs := setKeyPairAddress skAdrs (getKeyPairAddress adrs)
  let skAdrs := setTreeIndex skAdrs idx
  c.PRF skSeed skAdrs

/-- Algorithm 15 `fors_node(SK.seed, i, z, PK.seed, ADRS)`. -/
def forsNode (c : Ctx) (skSeed : ByteArray) (i : Nat) : (z : Nat) → (adrs : ByteArray) → ByteArray
  | 0, adrs =>
    let sk := forsSkGen c skSeed adrs i
    let adrs := setTreeHeight adrs 0
    let adrs := setTreeIndex adrs i
    c.F adrs sk
  | z + 1, adrs =>
    let lnode := forsNode c skSeed (2 * i) z adrs
    let rnode := forsNode c skSeed (2 * i + 1) z adrs
    let adrs := setTreeHeight adrs (z + 1)
    let adrs := setTreeIndex adrs i
    c.H adrs (lnode ++ rnode)

/-- Algorithm 16 `fors_sign(md, SK.seed, PK.seed, ADRS)` → `k·(1+a)·n` bytes. -/
def forsSign (c : Ctx) (md skSeed adrs : ByteArray) : ByteArray := Id.run do
  let p := c.p
  let indices := base2b md p.a p.k
  let mut sig := ByteArray.emptyWithCapacity p.forsSigSize
  for i in [0:p.k] do
    let idx := indices[i]!
    sig := sig ++ forsSkGen c skSeed adrs (i * 2 ^ p.a + idx)
    for j in [0:p.a] do
      let s := (idx / 2 ^ j) ^^^ 1
      sig := sig ++ forsNode c skSeed (i * 2 ^ (p.a - j) + s) j adrs
  return sig

/-- Algorithm 17 `fors_pkFromSig(SIG_FORS, md, PK.seed, ADRS)`. -/
def forsPkFromSig (c : Ctx) (sigFors md adrs : ByteArray) : ByteArray := Id.run do
  let p := c.p
  let n := p.n
  let indices := base2b md p.a p.k
  let mut adrs := adrs
  let mut roots := ByteArray.emptyWithCapacity (p.k * n)
  for i in [0:p.k] do
    let idx := indices[i]!
    let base := i * (p.a + 1) * n
    let sk := sigFors.extract base (base + n)
    adrs := setTreeHeight adrs 0
    adrs := setTreeIndex adrs (i * 2 ^ p.a + idx)
    let mut node := c.F adrs sk
    for j in [0:p.a] do
      let authJ := sigFors.extract (base + (j + 1) * n) (base + (j + 2) * n)
      adrs := setTreeHeight adrs (j + 1)
      if (idx / 2 ^ j) % 2 = 0 then
        adrs := setTreeIndex adrs (getTreeIndex adrs / 2)
        node := c.H adrs (node ++ authJ)
      else
        adrs := setTreeIndex adrs ((getTreeIndex adrs - 1) / 2)
        node := c.H adrs (authJ ++ node)
    roots := roots ++ node
  let mut pkAdrs := setTypeAndClear adrs FORS_ROOTS
  pkAdrs := setKeyPairAddress pkAdrs (getKeyPairAddress adrs)
  return c.T pkAdrs roots

/-! ## §9  SLH-DSA internal functions -/

/-- Algorithm 18 `slh_keygen_internal(SK.seed, SK.prf, PK.seed)` →
`(SK = SK.seed ‖ SK.prf ‖ PK.seed ‖ PK.root, PK = PK.seed ‖ PK.root)`.
The three inputs must have `n` bytes each. -/
def keyGenInternal (p : Params) (skSeed skPrf pkSeed : ByteArray) : ByteArray × ByteArray :=
  let c := p.ctx pkSeed
  let adrs := setLayerAddress adrsZero (p.d - 1)
  let pkRoot := xmssNode c skSeed 0 p.hp adrs
  (skSeed ++ skPrf ++ pkSeed ++ pkRoot, pkSeed ++ pkRoot)

/-- Algorithm 19 lines 6–10 / Algorithm 20 lines 8–12: split the `m`-byte digest into
`(md, idx_tree, idx_leaf)`. -/
def digestSplit (p : Params) (digest : ByteArray) : ByteArray × Nat × Nat :=
  let l1 := p.mdLen
  let l2 := p.treeIdxLen
  let l3 := p.leafIdxLen
  let md := digest.extract 0 l1
  let tmpIdxTree := digest.extract l1 (l1 + l2)
  let tmpIdxLeaf := digest.extract (l1 + l2) (l1 + l2 + l3)
  let idxTree := toInt tmpIdxTree % 2 ^ (p.h - p.hp)
  let idxLeaf := toInt tmpIdxLeaf % 2 ^ p.hp
  (md, idxTree, idxLeaf)

/-- Algorithm 19 `slh_sign_internal(M, SK, addrnd)`.  Pass `addrnd = PK.seed` for the
deterministic variant.  Returns the empty string if `sk` or `addrnd` has the wrong length. -/
def signInternal (p : Params) (msg sk addrnd : ByteArray) : ByteArray :=
  let n := p.n
  if sk.size ≠ 4 * n ∨ addrnd.size ≠ n then ByteArray.empty else
  let skSeed := sk.extract 0 n
  let skPrf := sk.extract n (2 * n)
  let pkSeed := sk.extract (2 * n) (3 * n)
  let pkRoot := sk.extract (3 * n) (4 * n)
  let hf := p.hashFamily
  let c := p.ctx pkSeed
  let optRand := addrnd
  let r := hf.PRFmsg skPrf optRand msg
  let digest := hf.Hmsg r pkSeed pkRoot msg
  let (md, idxTree, idxLeaf) := digestSplit p digest
  let adrs := setTreeAddress adrsZero idxTree
  let adrs := setTypeAndClear adrs FORS_TREE
  let adrs := setKeyPairAddress adrs idxLeaf
  let sigFors := forsSign c md skSeed adrs
  let pkFors := forsPkFromSig c sigFors md adrs
  let sigHt := htSign c pkFors skSeed idxTree idxLeaf
  r ++ sigFors ++ sigHt

/-- Algorithm 20 `slh_verify_internal(M, SIG, PK)`; `false` on wrong lengths. -/
def verifyInternal (p : Params) (msg sig pk : ByteArray) : Bool :=
  let n := p.n
  if sig.size ≠ p.sigSize ∨ pk.size ≠ 2 * n then false else
  let pkSeed := pk.extract 0 n
  let pkRoot := pk.extract n (2 * n)
  let hf := p.hashFamily
  let c := p.ctx pkSeed
  let r := sig.extract 0 n
  let sigFors := sig.extract n (n + p.forsSigSize)
  let sigHt := sig.extract (n + p.forsSigSize) p.sigSize
  let digest := hf.Hmsg r pkSeed pkRoot msg
  let (md, idxTree, idxLeaf) := digestSplit p digest
  let adrs := setTreeAddress adrsZero idxTree
  let adrs := setTypeAndClear adrs FORS_TREE
  let adrs := setKeyPairAddress adrs idxLeaf
  let pkFors := forsPkFromSig c sigFors md adrs
  htVerify c pkFors sigHt idxTree idxLeaf pkRoot

/-! ## §10  external (pure) interface -/

/-- Algorithm 22 line 8 / Algorithm 24 line 4: `M' = toByte(0,1) ‖ toByte(|ctx|,1) ‖ ctx ‖ M`;
`none` if `|ctx| > 255`. -/
def formatMessage (ctx msg : ByteArray) : Option ByteArray :=
  if ctx.size > 255 then none
  else some (toByte 0 1 ++ toByte ctx.size 1 ++ ctx ++ msg)

/-- Algorithm 22 `slh_sign(M, ctx, SK)` with the randomizer supplied by the caller
(`addrnd = PK.seed` gives the deterministic variant). -/
def sign (p : Params) (msg ctx sk addrnd : ByteArray) : Option ByteArray :=
  (formatMessage ctx msg).map fun m' => signInternal p m' sk addrnd

/-- Deterministic `slh_sign`: `opt_rand = PK.seed`. -/
def signDeterministic (p : Params) (msg ctx sk : ByteArray) : Option ByteArray :=
  sign p msg ctx sk (sk.extract (2 * p.n) (3 * p.n))

/-- Algorithm 24 `slh_verify(M, SIG, ctx, PK)`. -/
def verify (p : Params) (msg sig ctx pk : ByteArray) : Bool :=
  match formatMessage ctx msg with
  | none => false
  | some m' => verifyInternal p m' sig pk

end TinkVerif.Prim.Slhdsa
