/-
  Keccak-f[1600], SHA3-256/512, SHAKE128/256 (FIPS 202) — executable reference.
  Core Lean only.  The 25 lanes live in a structure of unboxed `UInt64` fields and the round
  function is fully unrolled (an `Array UInt64` would box every lane on each write).
  Lane numbering: `a(x+5y)` is lane (x,y) of FIPS 202; bytes are little-endian within a lane.
-/
import TinkVerif.Base.Bytes

namespace TinkVerif.Prim

/-- Keccak state: 25 lanes of 64 bits, lane index `x + 5*y`. -/
structure KState where
  (a0 a1 a2 a3 a4 a5 a6 a7 a8 a9 a10 a11 a12 a13 a14 a15 a16 a17 a18 a19 a20 a21 a22 a23 a24 : UInt64)

namespace KState

def zero : KState :=
  ⟨0, 0, 0, 0, 0, 0, 0, 0, 0, 0, 0, 0, 0, 0, 0, 0, 0, 0, 0, 0, 0, 0, 0, 0, 0⟩

@[inline] private def rotl (x : UInt64) (n : UInt64) : UInt64 := (x <<< n) ||| (x >>> (64 - n))

/-- One round: θ, ρ, π, χ, ι. -/
def round (s : KState) (rc : UInt64) : KState :=
  let c0 := s.a0 ^^^ s.a5 ^^^ s.a10 ^^^ s.a15 ^^^ s.a20
  let c1 := s.a1 ^^^ s.a6 ^^^ s.a11 ^^^ s.a16 ^^^ s.a21
  let c2 := s.a2 ^^^ s.a7 ^^^ s.a12 ^^^ s.a17 ^^^ s.a22
  let c3 := s.a3 ^^^ s.a8 ^^^ s.a13 ^^^ s.a18 ^^^ s.a23
  let c4 := s.a4 ^^^ s.a9 ^^^ s.a14 ^^^ s.a19 ^^^ s.a24
  let d0 := c4 ^^^ rotl c1 1
  let d1 := c0 ^^^ rotl c2 1
  let d2 := c1 ^^^ rotl c3 1
  let d3 := c2 ^^^ rotl c4 1
  let d4 := c3 ^^^ rotl c0 1
  let t0 := s.a0 ^^^ d0
  let t1 := s.a1 ^^^ d1
  let t2 := s.a2 ^^^ d2
  let t3 := s.a3 ^^^ d3
  let t4 := s.a4 ^^^ d4
  let t5 := s.a5 ^^^ d0
  let t6 := s.a6 ^^^ d1
  let t7 := s.a7 ^^^ d2
  let t8 := s.a8 ^^^ d3
  let t9 := s.a9 ^^^ d4
  let t10 := s.a10 ^^^ d0
  let t11 := s.a11 ^^^ d1
  let t12 := s.a12 ^^^ d2
  let t13 := s.a13 ^^^ d3
  let t14 := s.a14 ^^^ d4
  let t15 := s.a15 ^^^ d0
  let t16 := s.a16 ^^^ d1
  let t17 := s.a17 ^^^ d2
  let t18 := s.a18 ^^^ d3
  let t19 := s.a19 ^^^ d4
  let t20 := s.a20 ^^^ d0
  let t21 := s.a21 ^^^ d1
  let t22 := s.a22 ^^^ d2
  let t23 := s.a23 ^^^ d3
  let t24 := s.a24 ^^^ d4
  let b0 := t0
  let b16 := rotl t5 36
  let b7 := rotl t10 3
  let b23 := rotl t15 41
  let b14 := rotl t20 18
  let b10 := rotl t1 1
  let b1 := rotl t6 44
  let b17 := rotl t11 10
  let b8 := rotl t16 45
  let b24 := rotl t21 2
  let b20 := rotl t2 62
  let b11 := rotl t7 6
  let b2 := rotl t12 43
  let b18 := rotl t17 15
  let b9 := rotl t22 61
  let b5 := rotl t3 28
  let b21 := rotl t8 55
  let b12 := rotl t13 25
  let b3 := rotl t18 21
  let b19 := rotl t23 56
  let b15 := rotl t4 27
  let b6 := rotl t9 20
  let b22 := rotl t14 39
  let b13 := rotl t19 8
  let b4 := rotl t24 14
  { a0 := b0 ^^^ (~~~b1 &&& b2) ^^^ rc
    a1 := b1 ^^^ (~~~b2 &&& b3)
    a2 := b2 ^^^ (~~~b3 &&& b4)
    a3 := b3 ^^^ (~~~b4 &&& b0)
    a4 := b4 ^^^ (~~~b0 &&& b1)
    a5 := b5 ^^^ (~~~b6 &&& b7)
    a6 := b6 ^^^ (~~~b7 &&& b8)
    a7 := b7 ^^^ (~~~b8 &&& b9)
    a8 := b8 ^^^ (~~~b9 &&& b5)
    a9 := b9 ^^^ (~~~b5 &&& b6)
    a10 := b10 ^^^ (~~~b11 &&& b12)
    a11 := b11 ^^^ (~~~b12 &&& b13)
    a12 := b12 ^^^ (~~~b13 &&& b14)
    a13 := b13 ^^^ (~~~b14 &&& b10)
    a14 := b14 ^^^ (~~~b10 &&& b11)
    a15 := b15 ^^^ (~~~b16 &&& b17)
    a16 := b16 ^^^ (~~~b17 &&& b18)
    a17 := b17 ^^^ (~~~b18 &&& b19)
    a18 := b18 ^^^ (~~~b19 &&& b15)
    a19 := b19 ^^^ (~~~b15 &&& b16)
    a20 := b20 ^^^ (~~~b21 &&& b22)
    a21 := b21 ^^^ (~~~b22 &&& b23)
    a22 := b22 ^^^ (~~~b23 &&& b24)
    a23 := b23 ^^^ (~~~b24 &&& b20)
    a24 := b24 ^^^ (~~~b20 &&& b21) }

def roundConstants : Array UInt64 := #[
  0x0000000000000001, 0x0000000000008082, 0x800000000000808A, 0x8000000080008000,
  0x000000000000808B, 0x0000000080000001, 0x8000000080008081, 0x8000000000008009,
  0x000000000000008A, 0x0000000000000088, 0x0000000080008009, 0x000000008000000A,
  0x000000008000808B, 0x800000000000008B, 0x8000000000008089, 0x8000000000008003,
  0x8000000000008002, 0x8000000000000080, 0x000000000000800A, 0x800000008000000A,
  0x8000000080008081, 0x8000000000008080, 0x0000000080000001, 0x8000000080008008
]

/-- Keccak-f[1600]: 24 rounds. -/
def permute (s : KState) : KState := Id.run do
  let mut s := s
  for rc in roundConstants do
    s := round s rc
  return s

/-- little-endian 64-bit load at byte offset `o`. -/
@[inline] private def ld (b : ByteArray) (o : Nat) : UInt64 :=
  (b.get! o).toUInt64 ||| ((b.get! (o+1)).toUInt64 <<< 8) ||| ((b.get! (o+2)).toUInt64 <<< 16) |||
  ((b.get! (o+3)).toUInt64 <<< 24) ||| ((b.get! (o+4)).toUInt64 <<< 32) |||
  ((b.get! (o+5)).toUInt64 <<< 40) ||| ((b.get! (o+6)).toUInt64 <<< 48) |||
  ((b.get! (o+7)).toUInt64 <<< 56)

/-- XOR the first `n` lanes (`8*n` bytes of `b` starting at `off`) into the state. -/
def xorBlock (s : KState) (b : ByteArray) (off : Nat) (n : Nat) : KState :=
  { a0 := if 0 < n then s.a0 ^^^ ld b (off + 0) else s.a0
    a1 := if 1 < n then s.a1 ^^^ ld b (off + 8) else s.a1
    a2 := if 2 < n then s.a2 ^^^ ld b (off + 16) else s.a2
    a3 := if 3 < n then s.a3 ^^^ ld b (off + 24) else s.a3
    a4 := if 4 < n then s.a4 ^^^ ld b (off + 32) else s.a4
    a5 := if 5 < n then s.a5 ^^^ ld b (off + 40) else s.a5
    a6 := if 6 < n then s.a6 ^^^ ld b (off + 48) else s.a6
    a7 := if 7 < n then s.a7 ^^^ ld b (off + 56) else s.a7
    a8 := if 8 < n then s.a8 ^^^ ld b (off + 64) else s.a8
    a9 := if 9 < n then s.a9 ^^^ ld b (off + 72) else s.a9
    a10 := if 10 < n then s.a10 ^^^ ld b (off + 80) else s.a10
    a11 := if 11 < n then s.a11 ^^^ ld b (off + 88) else s.a11
    a12 := if 12 < n then s.a12 ^^^ ld b (off + 96) else s.a12
    a13 := if 13 < n then s.a13 ^^^ ld b (off + 104) else s.a13
    a14 := if 14 < n then s.a14 ^^^ ld b (off + 112) else s.a14
    a15 := if 15 < n then s.a15 ^^^ ld b (off + 120) else s.a15
    a16 := if 16 < n then s.a16 ^^^ ld b (off + 128) else s.a16
    a17 := if 17 < n then s.a17 ^^^ ld b (off + 136) else s.a17
    a18 := if 18 < n then s.a18 ^^^ ld b (off + 144) else s.a18
    a19 := if 19 < n then s.a19 ^^^ ld b (off + 152) else s.a19
    a20 := if 20 < n then s.a20 ^^^ ld b (off + 160) else s.a20
    a21 := if 21 < n then s.a21 ^^^ ld b (off + 168) else s.a21
    a22 := if 22 < n then s.a22 ^^^ ld b (off + 176) else s.a22
    a23 := if 23 < n then s.a23 ^^^ ld b (off + 184) else s.a23
    a24 := if 24 < n then s.a24 ^^^ ld b (off + 192) else s.a24 }

@[inline] private def pushLE (o : ByteArray) (x : UInt64) : ByteArray :=
  ((((((((o.push x.toUInt8).push (x >>> 8).toUInt8).push (x >>> 16).toUInt8).push
    (x >>> 24).toUInt8).push (x >>> 32).toUInt8).push (x >>> 40).toUInt8).push
    (x >>> 48).toUInt8).push (x >>> 56).toUInt8)

/-- The whole state as 200 bytes. -/
def toBytes (s : KState) : ByteArray :=
  let o := ByteArray.emptyWithCapacity 200
  let o := pushLE o s.a0
  let o := pushLE o s.a1
  let o := pushLE o s.a2
  let o := pushLE o s.a3
  let o := pushLE o s.a4
  let o := pushLE o s.a5
  let o := pushLE o s.a6
  let o := pushLE o s.a7
  let o := pushLE o s.a8
  let o := pushLE o s.a9
  let o := pushLE o s.a10
  let o := pushLE o s.a11
  let o := pushLE o s.a12
  let o := pushLE o s.a13
  let o := pushLE o s.a14
  let o := pushLE o s.a15
  let o := pushLE o s.a16
  let o := pushLE o s.a17
  let o := pushLE o s.a18
  let o := pushLE o s.a19
  let o := pushLE o s.a20
  let o := pushLE o s.a21
  let o := pushLE o s.a22
  let o := pushLE o s.a23
  let o := pushLE o s.a24
  o

end KState

/-- Absorb `m` with rate `rate` bytes (a multiple of 8, < 200) and domain/padding byte `ds`
(0x06 for SHA-3, 0x1F for SHAKE); returns the state after the last permutation, i.e. ready for
squeezing its first `rate` bytes. -/
def keccakAbsorb (rate : Nat) (ds : UInt8) (m : ByteArray) : KState := Id.run do
  let lanes := rate / 8
  let nfull := m.size / rate
  let mut s := KState.zero
  for i in [0:nfull] do
    s := (s.xorBlock m (i * rate) lanes).permute
  let off := nfull * rate
  let rem := m.size - off
  let mut last := ByteArray.emptyWithCapacity rate
  for j in [0:rem] do
    last := last.push (m.get! (off + j))
  last := last.push ds
  for _ in [rem+1:rate] do
    last := last.push 0
  last := last.set! (rate - 1) (last.get! (rate - 1) ||| 0x80)
  return (s.xorBlock last 0 lanes).permute

/-- Incremental squeezer. `buf` holds the current output block (`rate` bytes), `pos` is the number
of its bytes already handed out. -/
structure Xof where
  s : KState
  rate : Nat
  buf : ByteArray
  pos : Nat

namespace Xof

def init (rate : Nat) (ds : UInt8) (m : ByteArray) : Xof :=
  let s := keccakAbsorb rate ds m
  { s := s, rate := rate, buf := s.toBytes.extract 0 rate, pos := 0 }

def shake128 (m : ByteArray) : Xof := init 168 0x1F m
def shake256 (m : ByteArray) : Xof := init 136 0x1F m

/-- Next `n` output bytes; successive calls return consecutive parts of the output stream. -/
def squeeze (x : Xof) (n : Nat) : ByteArray × Xof := Id.run do
  let mut s := x.s
  let mut buf := x.buf
  let mut pos := x.pos
  let mut out := ByteArray.emptyWithCapacity n
  let mut need := n
  -- each iteration but possibly the first yields ≥ 1 byte … `n + 1` iterations always suffice
  for _ in [0:n+1] do
    if need == 0 then break
    if pos ≥ x.rate then
      s := s.permute
      buf := s.toBytes.extract 0 x.rate
      pos := 0
    let k := min need (x.rate - pos)
    out := buf.copySlice pos out out.size k
    pos := pos + k
    need := need - k
  return (out, { x with s := s, buf := buf, pos := pos })

end Xof

def sha3_256 (m : ByteArray) : ByteArray := (keccakAbsorb 136 0x06 m).toBytes.extract 0 32
def sha3_512 (m : ByteArray) : ByteArray := (keccakAbsorb 72 0x06 m).toBytes.extract 0 64
def shake128 (m : ByteArray) (outLen : Nat) : ByteArray := ((Xof.shake128 m).squeeze outLen).1
def shake256 (m : ByteArray) (outLen : Nat) : ByteArray := ((Xof.shake256 m).squeeze outLen).1

end TinkVerif.Prim
