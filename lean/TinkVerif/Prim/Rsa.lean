/-
  Reference RSA signature verification (RFC 8017): RSASSA-PKCS1-v1_5 (§8.2.2) and
  RSASSA-PSS (§8.1.2) with MGF1 over the message hash and an exact salt length.
  No restrictions on key size or public exponent are imposed here (callers / Go impose theirs).
-/
import TinkVerif.Prim.Ec
import TinkVerif.Prim.Hash

namespace TinkVerif.Prim

/-- DER prefix of `DigestInfo` (RFC 8017 §9.2 note 1): everything up to the digest octets. -/
def digestInfoPrefix : HashAlg → ByteArray
  | .sha1   => ⟨#[0x30, 0x21, 0x30, 0x09, 0x06, 0x05, 0x2b, 0x0e, 0x03, 0x02, 0x1a, 0x05, 0x00, 0x04, 0x14]⟩
  | .sha224 => ⟨#[0x30, 0x2d, 0x30, 0x0d, 0x06, 0x09, 0x60, 0x86, 0x48, 0x01, 0x65, 0x03, 0x04, 0x02, 0x04, 0x05, 0x00, 0x04, 0x1c]⟩
  | .sha256 => ⟨#[0x30, 0x31, 0x30, 0x0d, 0x06, 0x09, 0x60, 0x86, 0x48, 0x01, 0x65, 0x03, 0x04, 0x02, 0x01, 0x05, 0x00, 0x04, 0x20]⟩
  | .sha384 => ⟨#[0x30, 0x41, 0x30, 0x0d, 0x06, 0x09, 0x60, 0x86, 0x48, 0x01, 0x65, 0x03, 0x04, 0x02, 0x02, 0x05, 0x00, 0x04, 0x30]⟩
  | .sha512 => ⟨#[0x30, 0x51, 0x30, 0x0d, 0x06, 0x09, 0x60, 0x86, 0x48, 0x01, 0x65, 0x03, 0x04, 0x02, 0x03, 0x05, 0x00, 0x04, 0x40]⟩

/-- byte length `k` of the modulus. -/
def rsaModLen (n : Nat) : Nat := (natBitLen n + 7) / 8

/-- RSAVP1 + I2OSP: `none` unless `|sig| = k` and `s < n`; otherwise `s^e mod n` as `k` bytes. -/
def rsaPublicOp (n e : Nat) (sig : ByteArray) : Option ByteArray :=
  let k := rsaModLen n
  if n = 0 || sig.size ≠ k then none
  else
    let s := os2ip sig
    if s ≥ n then none else some (i2osp (modPow s e n) k)

/-- EMSA-PKCS1-v1_5 encoding of an already computed digest (RFC 8017 §9.2);
    `none` when `emLen < tLen + 11`. -/
def emsaPkcs1Encode (a : HashAlg) (digest : ByteArray) (emLen : Nat) : Option ByteArray :=
  let t := digestInfoPrefix a ++ digest
  if emLen < t.size + 11 then none
  else
    let ps : ByteArray := ⟨Array.replicate (emLen - t.size - 3) 0xff⟩
    some ((ByteArray.mk #[0x00, 0x01]) ++ ps ++ (ByteArray.mk #[0x00]) ++ t)

/-- RSASSA-PKCS1-v1_5 verification on a pre-computed digest (encode-then-compare). -/
def rsaPkcs1VerifyDigest (a : HashAlg) (n e : Nat) (digest sig : ByteArray) : Bool :=
  if digest.size ≠ a.digestLen then false
  else
    match rsaPublicOp n e sig, emsaPkcs1Encode a digest (rsaModLen n) with
    | some em, some em' => bytesEq em em'
    | _, _ => false

/-- RSASSA-PKCS1-v1_5 verification (RFC 8017 §8.2.2). -/
def rsaPkcs1Verify (a : HashAlg) (n e : Nat) (msg sig : ByteArray) : Bool :=
  rsaPkcs1VerifyDigest a n e (hash a msg) sig

/-- EMSA-PSS-VERIFY (RFC 8017 §9.1.2) on `mHash`, with `EM` of length `⌈emBits/8⌉`. -/
def emsaPssVerify (a : HashAlg) (saltLen : Nat) (mHash em : ByteArray) (emBits : Nat) : Bool :=
  let hLen := a.digestLen
  let emLen := (emBits + 7) / 8
  if em.size ≠ emLen || mHash.size ≠ hLen then false
  else if emLen < hLen + saltLen + 2 then false                      -- step 3
  else if em.get! (emLen - 1) ≠ 0xbc then false                      -- step 4
  else
    let dbLen := emLen - hLen - 1
    let maskedDB := em.extract 0 dbLen                               -- step 5
    let h := em.extract dbLen (dbLen + hLen)
    let zeroBits := 8 * emLen - emBits
    let topMask : UInt8 := (0xff : UInt8) >>> zeroBits.toUInt8
    if (maskedDB.get! 0) &&& (~~~ topMask) ≠ 0 then false            -- step 6
    else
      let dbMask := mgf1 a h dbLen                                   -- step 7
      let db : ByteArray := Id.run do                                -- step 8
        let mut out := ByteArray.emptyWithCapacity dbLen
        for i in [0:dbLen] do
          out := out.push (maskedDB.get! i ^^^ dbMask.get! i)
        return out
      let db := db.set! 0 (db.get! 0 &&& topMask)                    -- step 9
      let psLen := emLen - hLen - saltLen - 2
      let psOk := (List.range psLen).all fun i => db.get! i == 0     -- step 10
      if !psOk || db.get! psLen ≠ 0x01 then false
      else
        let salt := db.extract (psLen + 1) dbLen                     -- step 11
        let m' := (ByteArray.mk (Array.replicate 8 0)) ++ mHash ++ salt  -- step 12
        bytesEq (hash a m') h                                        -- steps 13, 14

/-- RSASSA-PSS verification on a pre-computed digest. -/
def rsaPssVerifyDigest (a : HashAlg) (saltLen : Nat) (n e : Nat) (mHash sig : ByteArray) : Bool :=
  match rsaPublicOp n e sig with
  | none => false
  | some emFull =>
    -- `emFull` has k bytes; EM = I2OSP(m, emLen) with emLen = ⌈(modBits−1)/8⌉, which is k−1
    -- when modBits ≡ 1 (mod 8): then the leading byte must be zero ("integer too large").
    let emBits := natBitLen n - 1
    let emLen := (emBits + 7) / 8
    let k := emFull.size
    if emLen > k then false
    else
      let lead := emFull.extract 0 (k - emLen)
      if !(lead.data.all (· == 0)) then false
      else emsaPssVerify a saltLen mHash (emFull.extract (k - emLen) k) emBits

/-- RSASSA-PSS verification (RFC 8017 §8.1.2), MGF1 with the same hash, exact salt length. -/
def rsaPssVerify (a : HashAlg) (saltLen : Nat) (n e : Nat) (msg sig : ByteArray) : Bool :=
  rsaPssVerifyDigest a saltLen n e (hash a msg) sig

end TinkVerif.Prim
