/-
  Strict DER (X.690 §10) encoding/decoding of `ECDSA-Sig-Value ::= SEQUENCE { r INTEGER, s INTEGER }`
  (RFC 3279 §2.2.3). The decoder accepts exactly the canonical encodings of pairs of
  non-negative integers, i.e. `derDecodeEcdsaStrict b = some (r, s) ↔ b = derEncodeEcdsa r s`
  (for values whose encodings are shorter than 2^32 bytes).
-/
import TinkVerif.Prim.Ec

namespace TinkVerif.Prim

/-- DER length octets: short form below 128, otherwise minimal long form. -/
def derEncodeLen (n : Nat) : ByteArray :=
  if n < 128 then ByteArray.mk #[n.toUInt8]
  else
    let k := (natBitLen n + 7) / 8
    (ByteArray.mk #[(0x80 + k).toUInt8]) ++ i2osp n k

/-- DER `INTEGER` for a non-negative value: minimal big-endian two's complement. -/
def derEncodeNat (x : Nat) : ByteArray :=
  -- one extra bit for the sign; `0` is encoded as a single zero octet
  let k := natBitLen x / 8 + 1
  (ByteArray.mk #[0x02]) ++ derEncodeLen k ++ i2osp x k

def derEncodeEcdsa (r s : Nat) : ByteArray :=
  let body := derEncodeNat r ++ derEncodeNat s
  (ByteArray.mk #[0x30]) ++ derEncodeLen body.size ++ body

/-- reads one TLV with the given single-octet tag at offset `off`;
    returns the content and the offset just past it. Only definite, minimal lengths
    (at most 4 length octets). -/
def derReadTlv (b : ByteArray) (off : Nat) (tag : UInt8) : Option (ByteArray × Nat) :=
  if off + 2 > b.size then none
  else if b.get! off ≠ tag then none
  else
    let l0 := (b.get! (off + 1)).toNat
    if l0 < 0x80 then
      let start := off + 2
      if start + l0 > b.size then none
      else some (b.extract start (start + l0), start + l0)
    else
      let k := l0 - 0x80
      -- 0x80 is the indefinite form; more than 4 length octets is not supported
      if k = 0 || k > 4 then none
      else if off + 2 + k > b.size then none
      else
        let lenBytes := b.extract (off + 2) (off + 2 + k)
        let len := os2ip lenBytes
        -- minimality: no leading zero octet, and long form only from 128 upwards
        if lenBytes.get! 0 = 0 then none
        else if len < 128 then none
        else
          let start := off + 2 + k
          if start + len > b.size then none
          else some (b.extract start (start + len), start + len)

/-- content octets of a DER INTEGER → non-negative value; rejects empty, negative and
    non-minimal encodings. -/
def derNatOfIntegerContent (c : ByteArray) : Option Nat :=
  if c.size = 0 then none
  else if (c.get! 0) &&& 0x80 ≠ 0 then none            -- negative
  else if c.size > 1 && c.get! 0 = 0 && (c.get! 1) &&& 0x80 = 0 then none  -- superfluous 00
  else some (os2ip c)

/-- strict DER decoding of `SEQUENCE { INTEGER r, INTEGER s }` with `r, s ≥ 0`. -/
def derDecodeEcdsaStrict (b : ByteArray) : Option (Nat × Nat) := do
  let (body, e) ← derReadTlv b 0 0x30
  if e ≠ b.size then none
  let (rc, o1) ← derReadTlv body 0 0x02
  let (sc, o2) ← derReadTlv body o1 0x02
  if o2 ≠ body.size then none
  let r ← derNatOfIntegerContent rc
  let s ← derNatOfIntegerContent sc
  pure (r, s)

end TinkVerif.Prim
