/-
  NIST P-224 (secp224r1, FIPS 186-4 D.1.2.2 / SEC 2 §2.3.1) for the reference curve arithmetic of
  `TinkVerif.Prim.Ec`, and point decompression that does not assume `p ≡ 3 (mod 4)`.

  `Curve.sqrtMod` of `Ec.lean` computes `v^((p+1)/4)`, which is a square root only for
  `p ≡ 3 (mod 4)` (P-256, P-384, P-521). The P-224 prime is `2^224 − 2^96 + 1 ≡ 1 (mod 4)` (indeed
  `p − 1 = 2^96 · q`), so square roots are taken with Tonelli–Shanks here. The candidate root is
  always squared and compared at the end, so a wrong candidate can only turn into `none`.

  Executable reference code, core Lean only; used on public / test data only.
-/
import TinkVerif.Prim.Ec

namespace TinkVerif.Prim

def p224 : Curve where
  p  := 0xffffffffffffffffffffffffffffffff000000000000000000000001
  a  := 0xfffffffffffffffffffffffffffffffefffffffffffffffffffffffe
  b  := 0xb4050a850c04b3abf54132565044b0b7d7bfd8ba270b39432355ffb4
  gx := 0xb70e0cbd6bb4bf7f321390b94a03c1d356c21122343280d6115c1d21
  gy := 0xbd376388b5f723fb4c22dfe6cd4375a05a07476444d5819985007e34
  n  := 0xffffffffffffffffffffffffffff16a2e0b8f03e13dd29455c5c2a3d
  byteLen := 28

/-- `p = 2^224 − 2^96 + 1`, `a = p − 3`. -/
theorem p224_p_eq : p224.p = 2 ^ 224 - 2 ^ 96 + 1 := by decide
theorem p224_a_eq : p224.a + 3 = p224.p := by decide
/-- the base point satisfies the curve equation. -/
theorem p224_base_onCurve : p224.onCurve p224.gx p224.gy = true := by decide

/-! ### Square roots modulo an odd prime (Tonelli–Shanks) -/

/-- `(q, s)` with `m = q · 2^s` and `q` odd (for `m > 0`). -/
def oddPart (m : Nat) : Nat × Nat := Id.run do
  let mut q := m
  let mut s := 0
  for _ in [0:natBitLen m] do
    if q != 0 && q % 2 == 0 then
      q := q / 2
      s := s + 1
  return (q, s)

/-- least `z ≥ 2` with `z^((p−1)/2) = −1 (mod p)` (Euler's criterion); `0` if none below 512. -/
def leastNonResidue (p : Nat) : Nat := Id.run do
  for i in [0:510] do
    let z := i + 2
    if modPow z ((p - 1) / 2) p == p - 1 then
      return z
  return 0

/-- Tonelli–Shanks candidate for a square root of `v` modulo the odd prime `p` (`0 < v < p`, `v` a
    quadratic residue). For `p ≡ 3 (mod 4)` this is `v^((p+1)/4)`. -/
def tsCandidate (p v : Nat) : Nat := Id.run do
  let (q, s) := oddPart (p - 1)
  let z := leastNonResidue p
  let mut m := s
  let mut c := modPow z q p
  let mut t := modPow v q p
  let mut r := modPow v ((q + 1) / 2) p
  for _ in [0:s] do
    if t == 1 then break
    -- least i with t^(2^i) = 1
    let mut i := 0
    let mut tt := t
    for _ in [0:m] do
      if tt == 1 then break
      tt := tt * tt % p
      i := i + 1
    if i ≥ m then break          -- `v` is not a residue: the final check rejects
    let b := modPow c (2 ^ (m - i - 1)) p
    m := i
    c := b * b % p
    t := t * c % p
    r := r * b % p
  return r

/-- a square root of `v` modulo the odd prime `p`; `none` for non-residues. -/
def sqrtModTS (p v : Nat) : Option Nat :=
  let v := v % p
  if v = 0 then some 0
  else
    let r := tsCandidate p v
    if r * r % p = v then some r else none

/-- whatever the candidate is, an answer of `sqrtModTS` is a square root. -/
theorem sqrtModTS_sound (p v r : Nat) (h : sqrtModTS p v = some r) : r * r % p = v % p := by
  unfold sqrtModTS at h
  simp only at h
  by_cases h0 : v % p = 0
  · simp only [h0, ↓reduceIte, Option.some.injEq] at h
    subst h
    simp [h0, Nat.zero_mod]
  · simp only [h0, ↓reduceIte] at h
    by_cases h1 : tsCandidate p (v % p) * tsCandidate p (v % p) % p = v % p
    · simp only [h1, ↓reduceIte, Option.some.injEq] at h
      subst h
      exact h1
    · simp [h1] at h

namespace Curve

/-- point with abscissa `x` and the requested parity of `y` (SEC 1 §2.3.4), any odd prime `p`. -/
def decompressG (c : Curve) (x : Nat) (yOdd : Bool) : Option Point :=
  if x ≥ c.p then none
  else
    let rhs := ((x * x % c.p + c.a) % c.p * x + c.b) % c.p
    match sqrtModTS c.p rhs with
    | none => none
    | some y =>
      let y := if (y % 2 == 1) == yOdd then y else (c.p - y) % c.p
      -- `y = 0` has no odd representative
      if (y % 2 == 1) == yOdd then some (.affine x y) else none

/-- `Curve.pointDecode` with the general square root. -/
def pointDecodeG (c : Curve) (b : ByteArray) : Option Point :=
  if b.size = 0 then none
  else
    let tag := b.get! 0
    if tag = 4 then
      if b.size ≠ 1 + 2 * c.byteLen then none
      else
        let x := os2ip (b.extract 1 (1 + c.byteLen))
        let y := os2ip (b.extract (1 + c.byteLen) b.size)
        if c.onCurve x y then some (.affine x y) else none
    else if tag = 2 || tag = 3 then
      if b.size ≠ 1 + c.byteLen then none
      else c.decompressG (os2ip (b.extract 1 b.size)) (tag = 3)
    else none

end Curve

end TinkVerif.Prim
