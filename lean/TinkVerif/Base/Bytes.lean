/-
  Base byte-string helpers shared by every model. Core Lean only (no Mathlib):
  everything here is linked into the compiled driver `tvdrv`.
-/
namespace TinkVerif

abbrev Bytes := List UInt8

namespace Bytes

def zeros (n : Nat) : Bytes := List.replicate n 0

/-- XOR, truncated to the shorter operand (Go's `subtle.XORBytes` on equal lengths). -/
def xor (a b : Bytes) : Bytes := List.zipWith (· ^^^ ·) a b

/-- big-endian encoding of `n` into exactly `k` bytes (value taken mod 256^k). -/
def ofNatBE : (k : Nat) → (n : Nat) → Bytes
  | 0, _ => []
  | k+1, n => ofNatBE k (n / 256) ++ [UInt8.ofNat (n % 256)]

/-- little-endian encoding of `n` into exactly `k` bytes. -/
def ofNatLE : (k : Nat) → (n : Nat) → Bytes
  | 0, _ => []
  | k+1, n => UInt8.ofNat (n % 256) :: ofNatLE k (n / 256)

def toNatBE (b : Bytes) : Nat := b.foldl (fun acc x => acc * 256 + x.toNat) 0

def toNatLE : Bytes → Nat
  | [] => 0
  | x :: xs => x.toNat + 256 * toNatLE xs

def be32 (n : Nat) : Bytes := ofNatBE 4 n
def be64 (n : Nat) : Bytes := ofNatBE 8 n

def ofByteArray (a : ByteArray) : Bytes := a.toList
def toByteArray (b : Bytes) : ByteArray := ⟨b.toArray⟩

def ofString (s : String) : Bytes := s.toUTF8.toList

/-- split into chunks of `n` bytes (last one possibly short); `n = 0` yields a single chunk. -/
def chunks (n : Nat) (b : Bytes) : List Bytes :=
  if n = 0 then [b] else go n b b.length
where
  go (n : Nat) (b : Bytes) : Nat → List Bytes
    | 0 => []
    | fuel+1 => if b.isEmpty then [] else b.take n :: go n (b.drop n) fuel

@[simp] theorem length_zeros (n : Nat) : (zeros n).length = n := by simp [zeros]

@[simp] theorem length_ofNatBE (k n : Nat) : (ofNatBE k n).length = k := by
  induction k generalizing n with
  | zero => simp [ofNatBE]
  | succ k ih => simp [ofNatBE, ih]

@[simp] theorem length_ofNatLE (k n : Nat) : (ofNatLE k n).length = k := by
  induction k generalizing n with
  | zero => simp [ofNatLE]
  | succ k ih => simp [ofNatLE, ih]

@[simp] theorem length_xor (a b : Bytes) : (xor a b).length = min a.length b.length := by
  simp [xor]

theorem xor_self_cancel_byte (x y : UInt8) : (x ^^^ y) ^^^ y = x := by
  rw [UInt8.xor_assoc]; simp

/-- XOR with a long-enough key stream is an involution. -/
theorem xor_xor_cancel (p s : Bytes) (h : p.length ≤ s.length) : xor (xor p s) s = p := by
  induction p generalizing s with
  | nil => simp [xor]
  | cons x xs ih =>
    cases s with
    | nil => simp at h
    | cons y ys =>
      simp only [List.length_cons, Nat.add_le_add_iff_right] at h
      have := ih ys h
      simp only [xor] at this ⊢
      simp [this, xor_self_cancel_byte]

end Bytes

/-! ### Hex and the line protocol -/

def hexDigitChar (n : Nat) : Char :=
  if n < 10 then Char.ofNat (48 + n) else Char.ofNat (87 + n)

def hexOfBytes (b : Bytes) : String :=
  String.ofList (b.flatMap fun x => [hexDigitChar (x.toNat / 16), hexDigitChar (x.toNat % 16)])

def hexVal? (c : Char) : Option Nat :=
  if '0' ≤ c ∧ c ≤ '9' then some (c.toNat - 48)
  else if 'a' ≤ c ∧ c ≤ 'f' then some (c.toNat - 87)
  else if 'A' ≤ c ∧ c ≤ 'F' then some (c.toNat - 55)
  else none

def bytesOfHexChars : List Char → Option Bytes
  | [] => some []
  | [_] => none
  | a :: b :: rest => do
    let x ← hexVal? a
    let y ← hexVal? b
    let r ← bytesOfHexChars rest
    pure (UInt8.ofNat (x * 16 + y) :: r)

/-- protocol token → bytes: `-` is the empty string, otherwise lowercase hex. -/
def bytesOfTok? (s : String) : Option Bytes :=
  if s == "-" then some [] else bytesOfHexChars s.toList

/-- bytes → protocol token. -/
def tokOfBytes (b : Bytes) : String := if b.isEmpty then "-" else hexOfBytes b

end TinkVerif

namespace TinkVerif.Bytes

theorem toNatBE_append_singleton (b : Bytes) (x : UInt8) : toNatBE (b ++ [x]) = toNatBE b * 256 + x.toNat := by
  simp [toNatBE, List.foldl_append]

theorem toNatBE_ofNatBE (k n : Nat) : toNatBE (ofNatBE k n) = n % 256 ^ k := by
  induction k generalizing n with
  | zero => simp [ofNatBE, toNatBE, Nat.mod_one]
  | succ k ih =>
    rw [ofNatBE, toNatBE_append_singleton, ih]
    have h1 : (UInt8.ofNat (n % 256)).toNat = n % 256 := by
      simp [UInt8.toNat_ofNat']
    rw [h1, Nat.pow_succ]
    have := Nat.mod_mul_left_div_self n 256 (256 ^ k)
    -- n % (256^k * 256) = (n / 256 % 256^k) * 256 + n % 256
    have h2 : n % (256 ^ k * 256) = n % 256 + 256 * (n / 256 % 256 ^ k) := by
      rw [Nat.mul_comm (256 ^ k) 256]; exact Nat.mod_mul
    omega

/-- big-endian fixed-width encoding is injective below 256^k -/
theorem ofNatBE_inj (k a b : Nat) (ha : a < 256 ^ k) (hb : b < 256 ^ k)
    (h : ofNatBE k a = ofNatBE k b) : a = b := by
  have := congrArg toNatBE h
  rwa [toNatBE_ofNatBE, toNatBE_ofNatBE, Nat.mod_eq_of_lt ha, Nat.mod_eq_of_lt hb] at this

end TinkVerif.Bytes

namespace TinkVerif.Bytes

theorem xor_comm (a b : Bytes) : xor a b = xor b a := by
  induction a generalizing b with
  | nil => cases b <;> simp [xor]
  | cons x xs ih =>
    cases b with
    | nil => simp [xor]
    | cons y ys =>
      have := ih ys
      simp only [xor] at this ⊢
      simp [this, UInt8.xor_comm]

end TinkVerif.Bytes
