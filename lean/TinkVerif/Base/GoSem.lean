/-
  Semantics of the few Go constructs the translator (go/harness/translator) emits besides plain
  wrap-around arithmetic. Unsigned Go integers are `Nat` with an explicit `% 2^w` after every
  operation; signed ones are `Int`.  The `crypto/subtle` helpers are modelled with their documented
  preconditions: when a precondition is violated they return a poison value, so any theorem that
  pins the final result of a translated function also shows the preconditions hold.
-/
namespace TinkVerif.GoSem

/-- conversion of an unsigned value to a signed type of width `w` (two's complement of the low bits) -/
def toSigned (w : Nat) (x : Nat) : Int :=
  let y := x % 2 ^ w
  if y < 2 ^ (w - 1) then Int.ofNat y else Int.ofNat y - Int.ofNat (2 ^ w)

/-- conversion of a signed value to an unsigned type of width `w` -/
def toUnsigned (w : Nat) (x : Int) : Nat := (x % Int.ofNat (2 ^ w)).toNat

/-- `subtle.ConstantTimeLessOrEq(x, y)`: 1 if x ≤ y else 0; "undefined if x or y are negative or
    > 2³¹−1" — modelled as the poison value 2. -/
def ctLessOrEq (x y : Int) : Int :=
  if 0 ≤ x ∧ x ≤ 2147483647 ∧ 0 ≤ y ∧ y ≤ 2147483647 then (if x ≤ y then 1 else 0) else 2

/-- `subtle.ConstantTimeSelect(v, x, y)`: x if v = 1, y if v = 0; undefined otherwise (poison −1). -/
def ctSelect (v x y : Int) : Int := if v = 1 then x else if v = 0 then y else -1

/-- `subtle.ConstantTimeEq(x, y int32)`: 1 if equal else 0 -/
def ctEq (x y : Int) : Int := if x = y then 1 else 0

/-- `panic(...)`: the translated function has no result; a fixed junk value (theorems are stated
    only for arguments on which the Go code does not panic). -/
def goPanic : Nat := 0

end TinkVerif.GoSem
