import TinkVerif.Base.GoSem
import TinkVerif.Base.Bytes
/-
  Semantics of the Go BYTE-slice constructs emitted by go/harness/gluetr (the byte-level sibling of the
  integer translator; kept in its own file so that `GoSem.lean`, which the integer translator's output
  imports, stays untouched).  Slices are values (`Bytes = List UInt8`); the translator refuses code
  in which two live variables share memory.  Go `int` is `Int` with an explicit two's-complement wrap
  (`i64`), indices are `Int`.

  Out-of-range behaviour: a Go store / slice expression that would panic yields the POISON value `[]`
  (for reads of a single byte: 0).  Theorems about generated code are stated on domains where the
  model's value is non-empty, so they also show the absence of these panics there.
  Re-slicing beyond `len` (legal in Go up to `cap`) is treated as out of range.
-/
namespace TinkVerif.GoSem
open TinkVerif

/-- wrap to a signed 64-bit value (Go `int` / `int64` arithmetic) -/
def i64 (x : Int) : Int := (x + 9223372036854775808) % 18446744073709551616 - 9223372036854775808

/-- wrap to a signed 32-bit value -/
def i32 (x : Int) : Int := (x + 2147483648) % 4294967296 - 2147483648

/-- `len(b)` -/
def len (b : Bytes) : Int := Int.ofNat b.length

/-- `make([]byte, n)` / `var b [n]byte` (a negative `n` panics in Go: poison) -/
def makeBytes (n : Int) : Bytes := List.replicate n.toNat 0

/-- `b[i]` as a value (out of range: Go panics; junk 0) -/
def getAt (b : Bytes) (i : Int) : UInt8 := if 0 ≤ i then b.getD i.toNat 0 else 0

/-- `b[i] = v` -/
def setAt (b : Bytes) (i : Int) (v : UInt8) : Bytes :=
  if 0 ≤ i ∧ i < len b then b.set i.toNat v else []

/-- `b[lo:hi]` as a value -/
def slice (b : Bytes) (lo hi : Int) : Bytes :=
  if 0 ≤ lo ∧ lo ≤ hi ∧ hi ≤ len b then (b.take hi.toNat).drop lo.toNat else []

/-- `copy(b[lo:hi], src)`: copies `min (hi-lo) (len src)` bytes -/
def copyInto (b : Bytes) (lo hi : Int) (src : Bytes) : Bytes :=
  if 0 ≤ lo ∧ lo ≤ hi ∧ hi ≤ len b then
    b.take lo.toNat ++ src.take (min (hi - lo).toNat src.length) ++ b.drop (lo.toNat + min (hi - lo).toNat src.length)
  else []

/-- `binary.BigEndian.PutUint{16,32,64}(b[lo:hi], v)` with `w` = 2, 4, 8: panics if the window is shorter than `w` -/
def putBE (w : Nat) (b : Bytes) (lo hi : Int) (v : Nat) : Bytes :=
  if 0 ≤ lo ∧ lo + Int.ofNat w ≤ hi ∧ hi ≤ len b then
    b.take lo.toNat ++ Bytes.ofNatBE w v ++ b.drop (lo.toNat + w)
  else []

/-- `binary.LittleEndian.PutUint{16,32,64}(b[lo:hi], v)` -/
def putLE (w : Nat) (b : Bytes) (lo hi : Int) (v : Nat) : Bytes :=
  if 0 ≤ lo ∧ lo + Int.ofNat w ≤ hi ∧ hi ≤ len b then
    b.take lo.toNat ++ Bytes.ofNatLE w v ++ b.drop (lo.toNat + w)
  else []

/-- `binary.BigEndian.Uint{16,32,64}(b)` (a shorter `b` panics in Go; junk: the value of what is there) -/
def getBE (w : Nat) (b : Bytes) : Nat := Bytes.toNatBE (b.take w)

/-- `binary.LittleEndian.Uint{16,32,64}(b)` -/
def getLE (w : Nat) (b : Bytes) : Nat := Bytes.toNatLE (b.take w)

/-- `subtle.XORBytes(b[lo:hi], x, y)`: writes `min (len x) (len y)` bytes, panics if the window is shorter.
    (`x`, `y` are values read before the store; Go demands exact or no overlap, which the translator checks
    syntactically.) -/
def xorInto (b : Bytes) (lo hi : Int) (x y : Bytes) : Bytes :=
  if 0 ≤ lo ∧ lo + Int.ofNat (min x.length y.length) ≤ hi ∧ hi ≤ len b then
    b.take lo.toNat ++ Bytes.xor x y ++ b.drop (lo.toNat + min x.length y.length)
  else []

/-- `cipher.Block.Encrypt(b[lo:hi], src)` / `Decrypt` for a block function `E` with block size `bs` (16 for AES): the first
    `bs` bytes of `src` are transformed into the first `bs` bytes of the window; Go panics if either is shorter than a block.
    (`src` is the value read before the store; Go demands exact or no overlap, which the translator checks syntactically.
    `E` is assumed to return `bs` bytes — a hypothesis of the tie theorems.) -/
def blockInto (bs : Nat) (E : Bytes → Bytes) (b : Bytes) (lo hi : Int) (src : Bytes) : Bytes :=
  if 0 ≤ lo ∧ lo + Int.ofNat bs ≤ hi ∧ hi ≤ len b ∧ bs ≤ src.length then
    b.take lo.toNat ++ E (src.take bs) ++ b.drop (lo.toNat + bs)
  else []

/-- `stream.XORKeyStream(b[lo:hi], src)` and similar length-preserving transformations `F`: `len src` bytes are written
    at the start of the window; Go panics if the window is shorter than `src`.  (`F` is assumed length-preserving — a
    hypothesis of the tie theorems.) -/
def applyInto (F : Bytes → Bytes) (b : Bytes) (lo hi : Int) (src : Bytes) : Bytes :=
  if 0 ≤ lo ∧ lo + Int.ofNat src.length ≤ hi ∧ hi ≤ len b then
    b.take lo.toNat ++ F src ++ b.drop (lo.toNat + src.length)
  else []

/-- `x[i] = v` for a view `x = b[lo:hi]` (a slice variable sharing memory with `b`): index checked against the view -/
def setAtV (b : Bytes) (lo hi i : Int) (v : UInt8) : Bytes :=
  if 0 ≤ lo ∧ lo ≤ hi ∧ hi ≤ len b ∧ 0 ≤ i ∧ i < hi - lo then b.set (lo + i).toNat v else []

/-- `subtle.ConstantTimeCompare(a, b)`: 1 if equal (lengths included), else 0 -/
def ctCompare (a b : Bytes) : Int := if a = b then 1 else 0

/-- `for i := 0; i < n; i++ { s = f s i }` -/
def forRange {σ : Type} (n : Int) (init : σ) (f : σ → Int → σ) : σ :=
  (List.range n.toNat).foldl (fun s k => f s (Int.ofNat k)) init

/-! ### general loops: bodies that can `return`, `break`, `continue`; while loops with fuel -/

/-- outcome of one loop iteration: go on with state `s`, leave the loop (`break`) with `s`, or `return r` -/
inductive Step (ρ σ : Type) where
  | next (s : σ)
  | brk (s : σ)
  | ret (r : ρ)

/-- `for i := range l { … }` over an explicit index list: an early `return` value (if any) and the last state -/
def forSteps {ρ σ : Type} (l : List Int) (init : σ) (f : σ → Int → Step ρ σ) : Option ρ × σ :=
  match l with
  | [] => (none, init)
  | i :: rest =>
    match f init i with
    | .next s => forSteps rest s f
    | .brk s => (none, s)
    | .ret r => (some r, init)

/-- `for cond { … }` / `for { … }` with at most `fuel` iterations (the condition is part of `f`: `brk` when false).
    Tie theorems are stated for every sufficiently large `fuel`, which also shows that the Go loop terminates. -/
def whileSteps {ρ σ : Type} (fuel : Nat) (init : σ) (f : σ → Step ρ σ) : Option ρ × σ :=
  match fuel with
  | 0 => (none, init)
  | n + 1 =>
    match f init with
    | .next s => whileSteps n s f
    | .brk s => (none, s)
    | .ret r => (some r, init)

/-- `for i, x := range l { … }` over a list of values, `i` counting from `start` -/
def forEachSteps {α ρ σ : Type} (l : List α) (start : Int) (init : σ) (f : σ → Int → α → Step ρ σ) : Option ρ × σ :=
  match l with
  | [] => (none, init)
  | x :: rest =>
    match f init start x with
    | .next s => forEachSteps rest (start + 1) s f
    | .brk s => (none, s)
    | .ret r => (some r, init)

/-- `l[i]` on a list of records (out of range: Go panics; junk: the default record) -/
def listAt {α : Type} [Inhabited α] (l : List α) (i : Int) : α := if 0 ≤ i then l.getD i.toNat default else default

/-- `l[i]` on a list whose element type is abstract (a Go type parameter): out of range (Go panics) gives the supplied zero value -/
def listAtD {α : Type} (l : List α) (i : Int) (z : α) : α := if 0 ≤ i then l.getD i.toNat z else z

/-- indices of `for i := a; i < b; i++` -/
def rangeUp (a b : Int) : List Int := (List.range (b - a).toNat).map (fun k => a + Int.ofNat k)

/-- indices of `for i := a; i >= b; i--` -/
def rangeDown (a b : Int) : List Int := (List.range (a - b + 1).toNat).map (fun k => a - Int.ofNat k)

end TinkVerif.GoSem
