import TinkVerif.Base.GoSem
import TinkVerif.Base.Bytes
/-
  Semantics of the Go BYTE-slice constructs emitted by go/harness/gluetr (the byte-level sibling of the
  integer translator; kept in its own file so that `GoSem.lean`, which the integer translator's output
  imports, stays untouched).  Slices are values (`Bytes = List UInt8`); the translator refuses code
  in which two live variables share memory.  Go `int` is `Int` with an explicit two's-complement wrap
  (`i64`), indices are `Int`.

  Out-of-range behaviour: a Go store / slice expression that would panic yields the POISON value `[]`
  (for reads of a single byte: 0).  Theorems about generated code are stated on domains where the
  model's value is non-empty, so they also show the absence of these panics there.
  Re-slicing beyond `len` (legal in Go up to `cap`) is treated as out of range.
-/
namespace TinkVerif.GoSem
open TinkVerif

/-- wrap to a signed 64-bit value (Go `int` / `int64` arithmetic) -/
def i64 (x : Int) : Int := (x + 9223372036854775808) % 18446744073709551616 - 9223372036854775808

/-- wrap to a signed 32-bit value -/
def i32 (x : Int) : Int := (x + 2147483648) % 4294967296 - 2147483648

/-- `len(b)` -/
def len (b : Bytes) : Int := Int.ofNat b.length

/-- `make([]byte, n)` / `var b [n]byte` (a negative `n` panics in Go: poison) -/
def makeBytes (n : Int) : Bytes := List.replicate n.toNat 0

/-- `b[i]` as a value (out of range: Go panics; junk 0) -/
def getAt (b : Bytes) (i : Int) : UInt8 := if 0 ≤ i then b.getD i.toNat 0 else 0

/-- `b[i] = v` -/
def setAt (b : Bytes) (i : Int) (v : UInt8) : Bytes :=
  if 0 ≤ i ∧ i < len b then b.set i.toNat v else []

/-- `b[lo:hi]` as a value -/
def slice (b : Bytes) (lo hi : Int) : Bytes :=
  if 0 ≤ lo ∧ lo ≤ hi ∧ hi ≤ len b then (b.take hi.toNat).drop lo.toNat else []

/-- `copy(b[lo:hi], src)`: copies `min (hi-lo) (len src)` bytes -/
def copyInto (b : Bytes) (lo hi : Int) (src : Bytes) : Bytes :=
  if 0 ≤ lo ∧ lo ≤ hi ∧ hi ≤ len b then
    b.take lo.toNat ++ src.take (min (hi - lo).toNat src.length) ++ b.drop (lo.toNat + min (hi - lo).toNat src.length)
  else []

/-- `binary.BigEndian.PutUint{16,32,64}(b[lo:hi], v)` with `w` = 2, 4, 8: panics if the window is shorter than `w` -/
def putBE (w : Nat) (b : Bytes) (lo hi : Int) (v : Nat) : Bytes :=
  if 0 ≤ lo ∧ lo + Int.ofNat w ≤ hi ∧ hi ≤ len b then
    b.take lo.toNat ++ Bytes.ofNatBE w v ++ b.drop (lo.toNat + w)
  else []

/-- `binary.LittleEndian.PutUint{16,32,64}(b[lo:hi], v)` -/
def putLE (w : Nat) (b : Bytes) (lo hi : Int) (v : Nat) : Bytes :=
  if 0 ≤ lo ∧ lo + Int.ofNat w ≤ hi ∧ hi ≤ len b then
    b.take lo.toNat ++ Bytes.ofNatLE w v ++ b.drop (lo.toNat + w)
  else []

/-- `binary.BigEndian.Uint{16,32,64}(b)` (a shorter `b` panics in Go; junk: the value of what is there) -/
def getBE (w : Nat) (b : Bytes) : Nat := Bytes.toNatBE (b.take w)

/-- `binary.LittleEndian.Uint{16,32,64}(b)` -/
def getLE (w : Nat) (b : Bytes) : Nat := Bytes.toNatLE (b.take w)

/-- `subtle.XORBytes(b[lo:hi], x, y)`: writes `min (len x) (len y)` bytes, panics if the window is shorter.
    (`x`, `y` are values read before the store; Go demands exact or no overlap, which the translator checks
    syntactically.) -/
def xorInto (b : Bytes) (lo hi : Int) (x y : Bytes) : Bytes :=
  if 0 ≤ lo ∧ lo + Int.ofNat (min x.length y.length) ≤ hi ∧ hi ≤ len b then
    b.take lo.toNat ++ Bytes.xor x y ++ b.drop (lo.toNat + min x.length y.length)
  else []

/-- `for i := 0; i < n; i++ { s = f s i }` -/
def forRange {σ : Type} (n : Int) (init : σ) (f : σ → Int → σ) : σ :=
  (List.range n.toNat).foldl (fun s k => f s (Int.ofNat k)) init

end TinkVerif.GoSem
