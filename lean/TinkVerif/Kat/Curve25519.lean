/-
  Known-answer tests for `TinkVerif.Prim.Curve25519`: RFC 7748 §5.2 / §6.1, RFC 8032 §7.1 tests 1–3,
  and edge cases whose verdicts were cross-checked against Go 1.25 `crypto/ed25519` (non-canonical S,
  small-order and non-canonical public keys). A false `#guard` fails the build.
-/
import TinkVerif.Prim.Curve25519

namespace TinkVerif.Prim.KatCurve25519
open TinkVerif TinkVerif.Prim

private def hx (b : ByteArray) : String := tokOfBytes b.toList
private def un (s : String) : ByteArray := ((bytesOfTok? s).getD []).toByteArray

/-! ### constants -/
#guard ed25519D * 121666 % p25519 == p25519 - 121665
#guard ed25519SqrtM1 * ed25519SqrtM1 % p25519 == p25519 - 1
#guard ed25519By * 5 % p25519 == 4 && ed25519Bx % 2 == 0
#guard EdPoint.base.onCurve
#guard (EdPoint.base.mul ed25519L).eq EdPoint.identity
#guard !(EdPoint.base.mul (ed25519L - 1)).eq EdPoint.identity
#guard ((EdPoint.base.mul 7).add (EdPoint.base.mul 9)).eq (EdPoint.base.mul 16)
#guard (EdPoint.mul2 7 EdPoint.base 9 (EdPoint.base.mul 3)).eq (EdPoint.base.mul 34)
#guard EdPoint.base.double.eq (EdPoint.base.add EdPoint.base)
#guard hx EdPoint.base.encode == "5866666666666666666666666666666666666666666666666666666666666666"
#guard (EdPoint.decode EdPoint.base.encode).any (·.eq EdPoint.base)

/-! ### RFC 7748 §5.2 -/
#guard hx (x25519 (un "a546e36bf0527c9d3b16154b82465edd62144c0ac1fc5a18506a2244ba449ac4")
                  (un "e6db6867583030db3594c1a424b15f7c726624ec26b3353b10a903a6d0ab1c4c"))
  == "c3da55379de9c6908e94ea4df28d084f32eccf03491c71f754b4075577a28552"
-- the u-coordinate has its top bit set: it must be masked
#guard hx (x25519 (un "4b66e9d4d1b4673c5ad22691957d6af5c11b6421e0ea01d42ca4169e7918ba0d")
                  (un "e5210f12786811d3f4b7959d0538ae2c31dbe7106fc03c3efc4cd549c715a493"))
  == "95cbde9476e8907d7aade45cb4b873f88b595a68799fa152e6f8f7647aac7957"
-- iterated: 1 and 1000 iterations
private def iter (n : Nat) : ByteArray := Id.run do
  let mut k := x25519BasePoint
  let mut u := x25519BasePoint
  for _ in [0:n] do
    let r := x25519 k u
    u := k
    k := r
  return k
#guard hx (iter 1) == "422c8e7a6227d7bca1350b3e2bb7279f7897b87bb6854b783c60e80311ae3079"
#guard hx (iter 1000) == "684cf59ba83309552800ef566f2f4d3c1c3887c49360e3875f2eb94d99532c51"

/-! ### RFC 7748 §6.1 -/
private def alice := un "77076d0a7318a57d3c16c17251b26645df4c2f87ebc0992ab177fba51db92c2a"
private def bob := un "5dab087e624a8a4b79e17f8b83800ee66f3bb1292618b6fd1c2f8b27ff88e0eb"
#guard hx (x25519Base alice) == "8520f0098930a754748b7ddcb43ef75a0dbf3a0d26381af4eba4a98eaa9b4e6a"
#guard hx (x25519Base bob) == "de9edb7d7b7dc1b4d35b61c2ece435373f8343c85b78674dadfc7e146f882b4f"
#guard hx (x25519 alice (x25519Base bob)) == "4a5d9d5ba4ce2de1728e3bf480350f25e07e21c947d19e3376f09b3c1e161742"
#guard hx (x25519 bob (x25519Base alice)) == "4a5d9d5ba4ce2de1728e3bf480350f25e07e21c947d19e3376f09b3c1e161742"
-- low-order input: all-zero output, refused by the checked variant
#guard hx (x25519 alice (un "e0eb7a7c3b41b8ae1656e3faf19fc46ada098deb9c32b1fd866205165f49b800")) == hx (i2osp 0 32)
#guard (x25519Checked alice (un "e0eb7a7c3b41b8ae1656e3faf19fc46ada098deb9c32b1fd866205165f49b800")).isNone
#guard (x25519Checked alice (x25519Base bob)).isSome
-- non-canonical u = p + 9 ≡ 9 is accepted and reduced (RFC 7748 §5)
#guard hx (x25519 alice (i2ospLE (p25519 + 9) 32)) == hx (x25519Base alice)
#guard (x25519 (alice.extract 0 31) x25519BasePoint).size == 0

/-! ### RFC 8032 §7.1 -/
private structure Tv where
  seed : String
  pub : String
  msg : String
  sig : String

private def tv1 : Tv := ⟨"9d61b19deffd5a60ba844af492ec2cc44449c5697b326919703bac031cae7f60",
  "d75a980182b10ab7d54bfed3c964073a0ee172f3daa62325af021a68f707511a", "-",
  "e5564300c360ac729086e2cc806e828a84877f1eb8e5d974d873e065224901555fb8821590a33bacc61e39701cf9b46bd25bf5f0595bbe24655141438e7a100b"⟩
private def tv2 : Tv := ⟨"4ccd089b28ff96da9db6c346ec114e0f5b8a319f35aba624da8cf6ed4fb8a6fb",
  "3d4017c3e843895a92b70aa74d1b7ebc9c982ccf2ec4968cc0cd55f12af4660c", "72",
  "92a009a9f0d4cab8720e820b5f642540a2b27b5416503f8fb3762223ebdb69da085ac1e43e15996e458f3613d0f11d8c387b2eaeb4302aeeb00d291612bb0c00"⟩
private def tv3 : Tv := ⟨"c5aa8df43f9f837bedb7442f31dcb7b166d38535076f094b85ce3a2e0b4458f7",
  "fc51cd8e6218a1a38da47ed00230f0580816ed13ba3303ac5deb911548908025", "af82",
  "6291d657deec24024827e69c3abe01a30ce548a284743a445e3680d7db5ac3ac18ff9b538d16f290ae67f760984dc6594a7c15e9716ed28dc027beceea1ec40a"⟩

#guard [tv1, tv2, tv3].all fun t =>
  hx (ed25519PublicFromSeed (un t.seed)) == t.pub &&
  hx (ed25519Sign (un t.seed) (un t.msg)) == t.sig &&
  ed25519Verify (un t.pub) (un t.msg) (un t.sig) &&
  !ed25519Verify (un t.pub) ((un t.msg).push 0) (un t.sig) &&
  !ed25519Verify (un tv1.pub) (un "00") (un t.sig)

/-! ### acceptance rules (verdicts identical to Go's `ed25519.Verify`) -/
private def sig2 := un tv2.sig
-- S + L: same group element, non-canonical scalar → rejected
#guard !ed25519Verify (un tv2.pub) (un tv2.msg)
  (sig2.extract 0 32 ++ i2ospLE (os2ipLE (sig2.extract 32 64) + ed25519L) 32)
-- flipped sign bit of R, of A
#guard !ed25519Verify (un tv2.pub) (un tv2.msg) (sig2.set! 31 (sig2.get! 31 ^^^ 0x80))
#guard !ed25519Verify ((un tv2.pub).set! 31 ((un tv2.pub).get! 31 ^^^ 0x80)) (un tv2.msg) sig2
-- wrong lengths
#guard !ed25519Verify (un tv2.pub) (un tv2.msg) (sig2.extract 0 63)
#guard !ed25519Verify ((un tv2.pub).push 0) (un tv2.msg) sig2
-- a 32-byte string that is not a point (y = 2: (y²−1)/(dy²+1) is a non-residue)
#guard (EdPoint.decode (i2ospLE 2 32)).isNone
#guard !ed25519Verify (i2ospLE 2 32) (un tv2.msg) sig2
-- identity public key, R = identity, S = 0: accepted for every message (no small-order check, as in Go)
private def idEnc := i2ospLE 1 32
#guard ed25519Verify idEnc (un "00") (idEnc ++ i2osp 0 32)
#guard ed25519Verify idEnc (un "0102") (idEnc ++ i2osp 0 32)
-- same with S = L: rejected
#guard !ed25519Verify idEnc (un "00") (idEnc ++ i2ospLE ed25519L 32)
-- non-canonical encodings of the identity as public key are accepted (y = p + 1; x = 0 with sign bit) …
#guard ed25519Verify (i2ospLE (p25519 + 1) 32) (un "00") (idEnc ++ i2osp 0 32)
#guard ed25519Verify (i2ospLE (1 + 2 ^ 255) 32) (un "00") (idEnc ++ i2osp 0 32)
-- … but rejected by the strict RFC 8032 decoder, and never accepted as R
#guard (EdPoint.decode (i2ospLE (p25519 + 1) 32) (strict := true)).isNone
#guard (EdPoint.decode (i2ospLE (1 + 2 ^ 255) 32) (strict := true)).isNone
#guard (EdPoint.decode (i2ospLE (p25519 + 1) 32)).any (·.eq EdPoint.identity)
#guard !ed25519Verify idEnc (un "00") (i2ospLE (p25519 + 1) 32 ++ i2osp 0 32)
#guard !ed25519Verify idEnc (un "00") (i2ospLE (1 + 2 ^ 255) 32 ++ i2osp 0 32)
-- order-8 point: 8·P = identity, 4·P ≠ identity
#guard (EdPoint.decode (un "26e8958fc2b227b045c3f489f2ef98f0d5dfac05d3c63339b13802886d53fc05")).any fun P =>
  P.onCurve && (P.mul 8).eq EdPoint.identity && !(P.mul 4).eq EdPoint.identity

end TinkVerif.Prim.KatCurve25519
