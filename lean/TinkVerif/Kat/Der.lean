/-
  Known-answer tests for `TinkVerif.Prim.Der` (strict DER `SEQUENCE { INTEGER r, INTEGER s }`).
  Verdicts agree with Go 1.25 `crypto/ecdsa`'s parser (`cryptobyte.ReadASN1` / `ReadASN1Integer`)
  on ~6850 valid and mutated encodings. A false `#guard` fails the build.
-/
import TinkVerif.Prim.Der

namespace TinkVerif.Prim.KatDer
open TinkVerif TinkVerif.Prim

private def hx (b : ByteArray) : String := tokOfBytes b.toList
private def un (s : String) : ByteArray := ((bytesOfTok? s).getD []).toByteArray
private def dec (s : String) : Option (Nat × Nat) := derDecodeEcdsaStrict (un s)

/-! ### encoding -/
#guard hx (derEncodeEcdsa 1 1) == "3006020101020101"
#guard hx (derEncodeEcdsa 0 0) == "3006020100020100"
#guard hx (derEncodeEcdsa 127 128) == "300702017f02020080"
#guard hx (derEncodeEcdsa 255 256) == "3008020200ff02020100"
#guard hx (derEncodeEcdsa 0x7fff 0x8000) == "300902027fff0203008000"
#guard hx (derEncodeNat (2 ^ 1015)) == "02818000" ++ "80" ++ String.ofList (List.replicate 252 '0')   -- 128 content bytes → 0x81 length
#guard (derEncodeEcdsa (2 ^ 520) (2 ^ 520)).extract 0 3 |> hx |> (· == "308188")   -- P-521-sized: 2·(2+66)=136
#guard (derEncodeEcdsa (2 ^ 1015) (2 ^ 1015)).extract 0 4 |> hx |> (· == "30820106")

/-! ### round trips, incl. long-form lengths -/
#guard [(0, 0), (1, 1), (127, 128), (255, 256), (2 ^ 255, 2 ^ 256 - 1), (2 ^ 520, 2 ^ 521 - 1),
        (2 ^ 1015, 2 ^ 1016 - 1), (2 ^ 503 - 1, 2 ^ 503), (2 ^ 2048, 5), (2 ^ 100000, 1)].all
  fun (r, s) => derDecodeEcdsaStrict (derEncodeEcdsa r s) == some (r, s)

/-! ### accepted -/
#guard dec "3006020101020101" == some (1, 1)
#guard dec "3006020100020100" == some (0, 0)          -- zero parses; ECDSA range check rejects it later
#guard dec "3008020200ff02020080" == some (255, 128)

/-! ### rejected -/
#guard dec "-" == none                                 -- empty
#guard dec "30" == none && dec "3000" == none
#guard dec "300602010102010100" == none               -- trailing byte after the SEQUENCE
#guard dec "300702010102010100" == none               -- trailing byte inside the SEQUENCE
#guard dec "30050201010201" == none                    -- truncated
#guard dec "3003020101" == none                        -- only one INTEGER
#guard dec "3009020101020101020101" == none            -- three INTEGERs
#guard dec "30060201ff020101" == none                  -- negative r
#guard dec "3006020101020180" == none                  -- negative s
#guard dec "30050200020101" == none                    -- empty INTEGER
#guard dec "300702020001020101" == none                -- non-minimal INTEGER (00 01)
#guard dec "30070202007f020101" == none                -- non-minimal INTEGER (00 7f)
#guard dec "30070202ff80020101" == none                -- non-minimal negative
#guard dec "308106020101020101" == none                -- long-form length below 128
#guard dec "30820006020101020101" == none              -- length with leading zero octet
#guard dec "30800201010201010000" == none              -- indefinite length
#guard dec "300702810101020101" == none                -- long-form INTEGER length below 128
#guard dec "3106020101020101" == none                  -- SET instead of SEQUENCE
#guard dec "3006030101020101" == none                  -- BIT STRING instead of INTEGER
#guard dec "3006020101040101" == none
#guard dec "3f1f06020101020101" == none                -- high-tag-number form
#guard dec "30850000000006020101020101" == none        -- five length octets
-- 0x81 form is mandatory from 128 and forbidden below; 0x82 only from 256
#guard (let e := derEncodeEcdsa (2 ^ 500) (2 ^ 500)    -- content 2·(2+63) = 130 → 30 81 82
  hx (e.extract 0 3) == "308182" &&
  derDecodeEcdsaStrict ((un "30820082") ++ e.extract 3 e.size) == none)
#guard (let e := derEncodeEcdsa (2 ^ 480) (2 ^ 480)    -- content 2·(2+61) = 126 → 30 7e
  hx (e.extract 0 2) == "307e" &&
  derDecodeEcdsaStrict ((un "30817e") ++ e.extract 2 e.size) == none)

end TinkVerif.Prim.KatDer
