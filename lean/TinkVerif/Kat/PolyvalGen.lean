/-
  Known-answer tie-in for the GENERATED POLYVAL code (`TinkVerif.Gen.Polyval`, re-emitted by the
  translator from tink-go's internal/aead/polyval.go on every check run): the generated `mul32`,
  `mul64`, `polyvalDot` are executed and compared with the specification (`PolyvalSpec.clmul`,
  `PolyvalSpec.dot`), with the reference implementation `Prim.polyval` / `Prim.polyvalMul`, with
  RFC 8452 Appendix A / C.1 values and with values produced by tink-go itself.  The general
  statements are proved in `TinkVerif.Props.C01Polyval`; these `#guard`s fail the build if the
  regenerated code ever computes something else on the vectors.
-/
import TinkVerif.Gen.Polyval
import TinkVerif.Prim.Polyval

namespace TinkVerif.Kat.PolyvalGen
open TinkVerif TinkVerif.Prim
open TinkVerif.Gen.Polyval (fieldElement mul32 mul64 polyvalDot)

def hx (s : String) : ByteArray := Bytes.toByteArray ((bytesOfTok? s).getD [])
def toHex (b : ByteArray) : String := hexOfBytes b.toList

/-- field element (natural `< 2^128`) → word pair, as `binary.LittleEndian.Uint64` on the two halves -/
def toFe (n : Nat) : fieldElement := { lo := n % 2^64, hi := (n / 2^64) % 2^64 }
def ofFe (f : fieldElement) : Nat := f.lo + f.hi * 2^64

/-- generated `polyvalDot` on naturals -/
def genDotNat (a b : Nat) : Nat := ofFe (polyvalDot (toFe a) (toFe b))

/-- generated `polyvalDot` on 16-byte little-endian strings -/
def genDot (a b : ByteArray) : ByteArray :=
  PolyvalSpec.encode (genDotNat (PolyvalSpec.decode a) (PolyvalSpec.decode b))

/-- `(*polyval).Update` + `Finish` with the generated `polyvalDot`: `acc ← dot(acc ⊕ block, key)`. -/
def genPolyval (h data : ByteArray) : ByteArray :=
  let key := toFe (PolyvalSpec.decode h)
  let acc := (PolyvalSpec.blocks data).foldl
    (fun (acc : fieldElement) x =>
      let blk := toFe x
      polyvalDot { lo := acc.lo ^^^ blk.lo, hi := acc.hi ^^^ blk.hi } key)
    { lo := 0, hi := 0 }
  PolyvalSpec.encode (ofFe acc)

/-- deterministic pseudo-random naturals below `2^bits` (64-bit LCG steps, concatenated) -/
def rnd (seed bits : Nat) : Nat :=
  let step (s : Nat) : Nat := (s * 6364136223846793005 + 1442695040888963407) % 2^64
  let s1 := step (seed + 1)
  let s2 := step s1
  let s3 := step s2
  (s1 ^^^ (s2 <<< 64) ^^^ ((s3 >>> 7) <<< 17)) % 2^bits

-- the generated constants
#guard Gen.Polyval.u32Sel0 == 0x11111111 && Gen.Polyval.u32Sel1 == 0x22222222 &&
       Gen.Polyval.u32Sel2 == 0x44444444 && Gen.Polyval.u32Sel3 == 0x88888888
#guard Gen.Polyval.u64Sel0 == 0x1111111111111111 && Gen.Polyval.u64Sel1 == 0x2222222222222222 &&
       Gen.Polyval.u64Sel2 == 0x4444444444444444 && Gen.Polyval.u64Sel3 == 0x8888888888888888
#guard Gen.Polyval.PolyvalBlockSize == 16

-- mul32 / mul64 = carry-less product (edge cases and 200 pseudo-random pairs each)
#guard mul32 0 0xffffffff == 0 && mul32 0xffffffff 1 == 0xffffffff
#guard mul32 0xffffffff 0xffffffff == PolyvalSpec.clmul 0xffffffff 0xffffffff 32
#guard mul32 0x80000000 0x80000000 == 2^62
#guard (List.range 200).all fun i =>
         mul32 (rnd (2*i) 32) (rnd (2*i+1) 32) == PolyvalSpec.clmul (rnd (2*i) 32) (rnd (2*i+1) 32) 32
#guard ofFe (mul64 (2^64-1) (2^64-1)) == PolyvalSpec.clmul (2^64-1) (2^64-1) 64
#guard ofFe (mul64 (2^63) (2^63)) == 2^126
#guard (List.range 200).all fun i =>
         ofFe (mul64 (rnd (2*i) 64) (rnd (2*i+1) 64)) == PolyvalSpec.clmul (rnd (2*i) 64) (rnd (2*i+1) 64) 64

-- polyvalDot: the published constant, x^128 is the identity of `dot`
def one := "01000000000000000000000000000000"
def xInv := "01000000000000000000000000000492"
def x128 := "010000000000000000000000000000c2"
#guard toHex (genDot (hx one) (hx one)) == xInv
#guard toHex (genDot (hx x128) (hx "f7a3b47b846119fae5b7866cf5e5b77e")) == "f7a3b47b846119fae5b7866cf5e5b77e"
#guard genDotNat (2^128-1) (2^128-1) == PolyvalSpec.dot (2^128-1) (2^128-1)

-- polyvalDot = specification `dot` = reference `polyvalMul` on basis pairs and pseudo-random inputs
#guard [0, 1, 6, 7, 8, 31, 32, 63, 64, 65, 120, 121, 126, 127].all fun i =>
         [0, 1, 6, 7, 8, 31, 32, 63, 64, 65, 120, 121, 126, 127].all fun j =>
           genDotNat (2^i) (2^j) == PolyvalSpec.dot (2^i) (2^j)
#guard (List.range 60).all fun i =>
         genDotNat (rnd (2*i) 128) (rnd (2*i+1) 128) == PolyvalSpec.dot (rnd (2*i) 128) (rnd (2*i+1) 128)
#guard (List.range 200).all fun i =>
         let a := PolyvalSpec.encode (rnd (2*i) 128)
         let b := PolyvalSpec.encode (rnd (2*i+1) 128)
         genDot a b == polyvalMul a b

-- single products produced by tink-go (polyvalDot via Update of one block with key b)
#guard toHex (genDot (hx "347c5c492a61dd368444222f80e7e428") (hx "da6fe4064968990d1a3b952b325857f5")) == "155d4206f1b92b533a9950875b7aa6aa"
#guard toHex (genDot (hx "f2a7980789a85735023bf1e3d35f9b78") (hx "7fb59e2fae18539a7d64a14689b30fda")) == "694d3fed040f5eebff83ec794bfb52b0"
#guard toHex (genDot (hx "1f5d11286f6442ac60b945905370e8d6") (hx "d802713a61dc79b670ae2550004158f5")) == "350d01e2b8db988b05df17331948a913"
#guard toHex (genDot (hx "f13e3cd6ae4a4d66d95a42fc9e32ebe0") (hx "914361b2b8813de0599ea4e13d612b8d")) == "1baca8ce8c32f1a8f8c350e5cf166b71"
#guard toHex (genDot (hx "a20d56eb21ce826aaba4ab3a21a0e1a5") (hx "7c5a2f5c91d7ac55a58d338273cf475f")) == "d46878537e911311bf811508aeee102d"
#guard toHex (genDot (hx "620d54426d6295b8cdd3b41cec877d7d") (hx "4934ed9846a3e9dc392e570c8e8cc039")) == "196bd4f3f7581b861162f7e3a40b30b3"

-- RFC 8452 Appendix A
def hA := "25629347589242761d31f826ba4b757b"
def xA := "4f4f95668c83dfb6401762bb2d01a262d1a24ddd2721d006bbe45f20d3c9f362"
#guard toHex (genPolyval (hx hA) (hx xA)) == "f7a3b47b846119fae5b7866cf5e5b77e"

-- RFC 8452 Appendix C.1: record authentication key, "POLYVAL input" → "POLYVAL result"
def hC := "d9b360279694941ac5dbc6987ada7377"
#guard toHex (genPolyval (hx hC) (hx "00000000000000000000000000000000")) == "00000000000000000000000000000000"
#guard toHex (genPolyval (hx hC) (hx "0100000000000000000000000000000000000000000000004000000000000000")) == "eb93b7740962c5e49d2a90a7dc5cec74"
#guard toHex (genPolyval (hx hC) (hx "0100000000000000000000000000000000000000000000006000000000000000")) == "48eb6c6c5a2dbe4a1dde508fee06361b"
#guard toHex (genPolyval (hx hC) (hx "0100000000000000000000000000000000000000000000008000000000000000")) == "20806c26e3c1de019e111255708031d6"

-- POLYVAL values produced by tink-go (aead/subtle.NewPolyval) on random keys / data
#guard toHex (genPolyval (hx "664602b15a3382ba6851706d32ecb28c") (hx "d0d46931d8c30daa4f67fb737a77b243")) == "d326aa14094f5c63bb4a16902cbd3ef7"
#guard toHex (genPolyval (hx "13aba4bd637c1af21dba5b73dde88fb8") (hx "72ed7085993fefcb4423b9bb27d75cbb5bb69e520094dbe6be71875f0dbf70a06f5811e2c1b2a8e59dc228430099a5b2825a5333e47d546c3324bf3b10f37fbe")) == "31b0f77ac3576302de0de905f12461ff"
#guard toHex (genPolyval (hx "cef103c7e2c78dde4501b2a0db466dd7") (hx "b3c0300e6f34df5fd8f11c76401ad987")) == "64d04c9dd90177e7d80ea6c65601a29f"
#guard toHex (genPolyval (hx "60e3ef356c6d982fabf10d273c586973") (hx "5751ab02a0977a74f99e37712f764acba05662da31f81e1afd5a3b8fb5be0810bfce0fe0d925eac5ddb4a6bf55ec01776ae3b68786766725fb478f19c1a3c564")) == "9b73a80e6e4ff4ff88010068cd4a0c6e"
#guard toHex (genPolyval (hx "a7467c13c70f8191dcc4fc2cefca4fc3") (hx "d54f3da8953f1792615cce55d45eda705bb64f2417ae255a5b696a14e3ac7888")) == "0399af6a49f59f60c795535c95b5cff5"

-- generated Horner fold = reference `Prim.polyval` on pseudo-random keys and 0..7-block inputs
-- (the last block short for odd `i`: zero-extension)
#guard (List.range 48).all fun i =>
         let h := PolyvalSpec.encode (rnd (100 + i) 128)
         let n := i % 8
         let full := (List.range n).foldl (fun (acc : ByteArray) k => acc ++ PolyvalSpec.encode (rnd (1000 + 8*i + k) 128)) ByteArray.empty
         let data := if i % 2 == 1 then full.extract 0 (full.size - 5) else full
         genPolyval h data == polyval h data

end TinkVerif.Kat.PolyvalGen
