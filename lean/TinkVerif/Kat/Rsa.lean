/-
  Known-answer tests for `TinkVerif.Prim.Rsa`: Wycheproof RSASSA-PKCS1-v1_5 / RSASSA-PSS vectors
  (2048-bit key, SHA-256) and Go 1.25 `crypto/rsa` vectors (2049-bit modulus, where emLen = k − 1),
  part of a cross-check of ~8100 valid and mutated signatures. A false `#guard` fails the build.
-/
import TinkVerif.Prim.Rsa

namespace TinkVerif.Prim.KatRsa
open TinkVerif TinkVerif.Prim

private def hx (b : ByteArray) : String := tokOfBytes b.toList
private def un (s : String) : ByteArray := ((bytesOfTok? s).getD []).toByteArray
private def nat (s : String) : Nat := os2ip (un s)

/-! ### EMSA-PKCS1-v1_5 encoding (RFC 8017 §9.2) -/
#guard (emsaPkcs1Encode .sha256 (sha256 "abc".toUTF8) 62).map hx ==
  some ("0001ffffffffffffffff00" ++ "3031300d060960864801650304020105000420" ++
        "ba7816bf8f01cfea414140de5dae2223b00361a396177a9cb410ff61f20015ad")
#guard (emsaPkcs1Encode .sha256 (sha256 "abc".toUTF8) 61).isNone
#guard [HashAlg.sha1, .sha224, .sha256, .sha384, .sha512].all fun a =>
  -- DigestInfo prefix is self-consistent: outer length, OCTET STRING length
  let p := digestInfoPrefix a
  p.get! 1 == (p.size - 2 + a.digestLen).toUInt8 && p.get! (p.size - 1) == a.digestLen.toUInt8

/-! ### Wycheproof rsa_signature_2048_sha256_test tcId 2, rsa_pss_2048_sha256_mgf1_{32,0}_test tcId 2 -/
private def n2048 : Nat := nat (
  "a2b451a07d0aa5f96e455671513550514a8a5b462ebef717094fa1fee82224e637f9746d3f7cafd31878d80325b6ef5a1700" ++
  "f65903b469429e89d6eac8845097b5ab393189db92512ed8a7711a1253facd20f79c15e8247f3d3e42e46e48c98e254a2fe9" ++
  "765313a03eff8f17e1a029397a1fa26a8dce26f490ed81299615d9814c22da610428e09c7d9658594266f5c021d0fceca08d" ++
  "945a12be82de4d1ece6b4c03145b5d3495d4ed5411eb878daf05fd7afc3e09ada0f1126422f590975a1969816f48698bcbba" ++
  "1b4d9cae79d460d8f9f85e7975005d9bc22c4e5ac0f7c1a45d12569a62807d3b9a02e5a530e773066f453d1f5b4c2e9cf782" ++
  "0283f742b9d5")
private def msgW := un "0000000000000000000000000000000000000000"
private def sigP1 := un (
  "8a1b220cb2ab415dc760eb7f5bb10335a3cca269d7dbbf7d0962ba79f9cf7b43a5fc09c99a1584f07403473d6c189a836897" ++
  "a5b6f8ea9fa22d601e6ba5f7411fe27c638b81b1a22363583a80fce8c7df3e40fb51bd0e60d0a6653f79f3bcb7ec3e9dc14c" ++
  "fb5b31ab1735bca692d50ac03f979dda92747c6430f8045efa3513ba6e0ce3e9e35570e1c30c8ebe589b44192e1344ca83df" ++
  "a576fc6fdc7bf1cd7cee875b001c8c02ce8d602769e4bd9d241c4857182a0089a8b67644e73eef105c550efa47a408742893" ++
  "95ac0c4e02fd4ba98e130a4c2d1b95521c6af4a002ac3bdc6e52122ae4c08cc3da1c896e059acbddec574ac0432f6103dd97" ++
  "273d8803c102")
private def sigPss32 := un (
  "0658c68fe0895646056d9bca422a64fe48813b4e14f0c8c4122e56d345b6813dc6286ffde014617e351c7af0a0d2c0f285de" ++
  "f79cb734e1e055a25fa6fddc1c07da17b4b235c637413b1849c24311fa72331f4c0458c364a4916de8619b884d7e37288fad" ++
  "12926fc091f4851686a04fd0a504dbce3db370663a6ea6128fea86c2ca94c63e0d34d7f2c845b5d71d9a5e544451f524a451" ++
  "acb85c49bba7864e0a34a48613a819caf3dfd0d510c940f1df21c3373915be1f3509a557fa4d5a4e9f273e85467961133e24" ++
  "82c0907386454228fb0246638616fc31bbb6fa7c2361b8035994eec69a923f4c0bb0ba8696dfe8b1400c2398d7b343fdf498" ++
  "b1116c8de602")
private def sigPss0 := un (
  "4bf16f098701d340c438368e658ed8904d3a21f7714c02440d7476ead132766b3d578b325ae752f906873af1b795585a2a0d" ++
  "0e6788fe903321b2080bd0dfb9de42c3be41aeff37e32defdc0a75f12adb5b9de4d067a920a720cb16cfaf56d7c09d8ef384" ++
  "a8aa106545229b540c52b49ecc9d6d14ea70480642b9cd0330efc005502e4c38b96a36456447ce2133df78854307010ec221" ++
  "305dc90570252321e06c1bb01d75100e85e68326fe92488c0c5e58524b10f8ec7458d887cec254d39b0bef921ba31fd5a117" ++
  "977f1945fc04837727456949ffdc9886f21071186bf32dfbd9c3cd6a2a00a1cdd5fc3c22f4bbaab92aa85116711f1c53754b" ++
  "dd2bc384f2a8")

#guard rsaModLen n2048 == 256
#guard rsaPkcs1Verify .sha256 n2048 65537 msgW sigP1
#guard !rsaPkcs1Verify .sha256 n2048 65537 (msgW.push 0) sigP1
#guard !rsaPkcs1Verify .sha384 n2048 65537 msgW sigP1
#guard !rsaPkcs1Verify .sha256 n2048 65537 msgW (sigP1.set! 100 (sigP1.get! 100 ^^^ 1))
#guard !rsaPkcs1Verify .sha256 n2048 65537 msgW ((ByteArray.mk #[0]) ++ sigP1)       -- one byte longer
#guard !rsaPkcs1Verify .sha256 n2048 65537 msgW (sigP1.extract 0 255)
#guard (rsaPublicOp n2048 65537 (i2osp n2048 256)).isNone                             -- s ≥ n
#guard (rsaPublicOp n2048 65537 (i2osp (n2048 - 1) 256)).map hx == some (hx (i2osp (n2048 - 1) 256))  -- (−1)^e = −1
#guard !rsaPkcs1Verify .sha256 n2048 65537 msgW ByteArray.empty
#guard !rsaPkcs1Verify .sha256 n2048 65537 msgW sigPss32

#guard rsaPssVerify .sha256 32 n2048 65537 msgW sigPss32
#guard !rsaPssVerify .sha256 31 n2048 65537 msgW sigPss32                            -- exact salt length
#guard !rsaPssVerify .sha256 33 n2048 65537 msgW sigPss32
#guard !rsaPssVerify .sha256 0 n2048 65537 msgW sigPss32
#guard !rsaPssVerify .sha256 32 n2048 65537 (msgW.push 0) sigPss32
#guard !rsaPssVerify .sha512 32 n2048 65537 msgW sigPss32
#guard !rsaPssVerify .sha256 32 n2048 65537 msgW sigP1
#guard !rsaPssVerify .sha256 32 n2048 65537 msgW ((ByteArray.mk #[0]) ++ sigPss32)
#guard !rsaPssVerify .sha256 100000 n2048 65537 msgW sigPss32
#guard rsaPssVerify .sha256 0 n2048 65537 msgW sigPss0
#guard !rsaPssVerify .sha256 32 n2048 65537 msgW sigPss0

/-! ### Go: PKCS1 signature whose first byte is zero; stripping it must be rejected -/
private def nLz : Nat := nat (
  "c8444620b411bfb1067d96ea1c9f6631185c7f5daf738c63c2e61e5102b3fb0ec7e777861b618559eb02e679e053f6e674ea" ++
  "805e9e721712addd026383159dda0a422216b6d354e0dd432ffc761815467ab17b5cac154eaa8946339d7720326721c6f43a" ++
  "94380f1d508757149e275bba4094a39a3c123d7d653a53571ce9544506db8cce885a3beaafb3a531520fe41d18dc8f4795b3" ++
  "c3bd4f3509d2c12ae5a11b1c42636db349cccf4c508bbc13dfad2bd5cfc5baa50fe4b62db6f1a1541bdce2f773b71dc0aaa5" ++
  "3e524682ff9f7e71813b3fc7bf29b6859c8e02bdbefc7edfc87775e7dbde0aee4fe77fc5aa06e7ffe2ac20aaa82d2b6a67ac" ++
  "76aacadf77bd")
private def sigLz := un (
  "0044fb689471397a4d4468fe6264655d14d859ae34c90ac2dcdf0329cc941c4c333be0ecf0480feab15be569e3998c1f9749" ++
  "6e6fef38ce44ca4acd1c1e355750fc5ca2097a22657cf1646d51ab2319541d4a240fd54877c99655b82eaa251027d68a445e" ++
  "87226d5ccc49e5dcec27a40a1444204ab65a30d18c56bef3f0d3f4fff5d3ec312212f4f2e15337a8209f87add338a69b525a" ++
  "6a6b39fd13abc0da34373ab21555d8c7ff9e821c810ebe816d39b0b3558fc3a8ea882f35e6917c4000ee78c7e7cee69c10b1" ++
  "86e28b9a244aa28ce1ba8f87a61989c60b539afdaf5e0ef9b9d52925005f2e5580a6c55992ca4487f4daa8817c5c68cbbf1a" ++
  "94e4ebcc0253")
#guard sigLz.get! 0 == 0
#guard rsaPkcs1Verify .sha256 nLz 65537 (un "6c7a2d333338") sigLz
#guard !rsaPkcs1Verify .sha256 nLz 65537 (un "6c7a2d333338") (sigLz.extract 1 256)

/-! ### Go: 2049-bit modulus (k = 257, emLen = 256), PSS SHA-256 salt 32 -/
private def n2049 : Nat := nat (
  "0130cf093fe9251a03930bcdacb0b0ad05784d2f7798259061bb7d513e670cc49fcd9b38033904b4cd0a6bb161c733f1e17b" ++
  "1bafdf42f9d095de6527708aac3dded39b257408bfcfe1683bab40c70abdaf3da15b0445f441c82d9d0fcba71d8d01ed17e7" ++
  "04fec0ac4d794b4a252900c547e8d81726468d143293e864c0c169105d3fbdf3e3875a2d1ee2132942d8e3fa1b7dd68806bb" ++
  "ffb3dd8d734179ce73d44acd73e614d8d30ad25f391db7bfc07cd768c2ccca80e6215a7fd514a04908a3070e1258b3651cda" ++
  "77c5f84a52d87ae3ff4c019501de30bce88bb4ad908ba010def2df08ad2c2fa54a2a5026e125d045871d06d52330ab8c23ea" ++
  "d61383d51a4085")
private def msg2049 := un "dc69299233071f626578c1553320d6e610e7986d1c"
private def sig2049 := un (
  "004e0685ebb8526a0f1368a80a6adefbaf4ba2c4309620c02a94e38260d607cee1d34390f066084c439747c99ba4e457c858" ++
  "cbe1eba261d355c6d380bebbd70cad8cc7a2cd23a2641e79303e505c5c366bc8126cc074fe49ffe0be75f7a1a503ddb4b93a" ++
  "8686b999c90fa469bf19ad7637967e22ac7003af89ea4ca32378286c752d31495f2f01aa1ec9ed2d540bab5eab66352d817a" ++
  "4b2e971a9e28acdd3681bafafe0237ed79b3f9c0ad7490c9c4f0445840f2a31e1152f2f642a41f852da634aa58ce913e3860" ++
  "32a9d4224dfdff9240745ae52432a54e62a7b447e420bc0391fe991c96e90216d5d181ca5e5624f5e36c658eef2f8e6ebc85" ++
  "24263971d3e5ce")
#guard natBitLen n2049 == 2049 && rsaModLen n2049 == 257
#guard rsaPssVerify .sha256 32 n2049 65537 msg2049 sig2049
#guard !rsaPssVerify .sha256 20 n2049 65537 msg2049 sig2049
#guard !rsaPssVerify .sha256 32 n2049 65537 msg2049 (sig2049.extract 1 257)

end TinkVerif.Prim.KatRsa
