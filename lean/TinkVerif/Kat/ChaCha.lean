/-
  Known-answer tests for `TinkVerif.Prim.ChaCha`: RFC 8439 §2.3.2, §2.4.2, §2.5.2, §2.6.2, §2.8.2,
  draft-irtf-cfrg-xchacha-03 §2.2.1 and §A.3.1, rejection of modified inputs, and random vectors
  cross-checked against golang.org/x/crypto.  Every `#guard` fails the build when false.
-/
import TinkVerif.Prim.ChaCha

namespace TinkVerif.Kat.ChaCha
open TinkVerif TinkVerif.Prim

def hx (s : String) : ByteArray := Bytes.toByteArray ((bytesOfTok? s).getD [])
def toHex (b : ByteArray) : String := hexOfBytes b.toList

def key01 := "000102030405060708090a0b0c0d0e0f101112131415161718191a1b1c1d1e1f"
def key80 := "808182838485868788898a8b8c8d8e8f909192939495969798999a9b9c9d9e9f"
def sunscreen : ByteArray :=
  "Ladies and Gentlemen of the class of '99: If I could offer you only one tip for the future, sunscreen would be it.".toUTF8

-- RFC 8439 §2.3.2: block function
#guard toHex (chacha20Block (hx key01) (hx "000000090000004a00000000") 1) ==
  "10f1e7e4d13b5915500fdd1fa32071c4c7d1f4c733c068030422aa9ac3d46c4ed2826446079faa0914c2d705d98b02a2b5129cd1de164eb9cbd083e8a2503c4e"

-- RFC 8439 §2.4.2: encryption, counter 1
#guard toHex (chacha20Xor (hx key01) (hx "000000000000004a00000000") 1 sunscreen) ==
  "6e2e359a2568f98041ba0728dd0d6981e97e7aec1d4360c20a27afccfd9fae0bf91b65c5524733ab8f593dabcd62b3571639d624e65152ab8f530c359f0861d807ca0dbf500d6a6156a38e088a22b65e52bc514d16ccf806818ce91ab77937365af90bbf74a35be6b40b8eedf2785e42874d"
#guard chacha20Xor (hx key01) (hx "000000000000004a00000000") 1
        (chacha20Xor (hx key01) (hx "000000000000004a00000000") 1 sunscreen) == sunscreen
#guard (chacha20Xor (hx key01) (hx "000000000000004a00000000") 1 ByteArray.empty).size == 0
-- key stream of a zero message = block function; counter wraps mod 2^32
#guard chacha20Xor (hx key01) (hx "000000090000004a00000000") 0xffffffff ⟨Array.replicate 128 0⟩ ==
  chacha20Block (hx key01) (hx "000000090000004a00000000") 0xffffffff ++
  chacha20Block (hx key01) (hx "000000090000004a00000000") 0

-- RFC 8439 §2.5.2: Poly1305
#guard toHex (poly1305 (hx "85d6be7857556d337f4452fe42d506a80103808afb0db2fd4abff6af4149f51b")
                "Cryptographic Forum Research Group".toUTF8) == "a8061dc1305136c6c22b8baf0c0127a9"

-- RFC 8439 Appendix A.3, test vectors #5 - #9 (carry and final-reduction edge cases); both versions
def polyBoth (key msg : String) : Option String :=
  let a := poly1305 (hx key) (hx msg)
  if a == poly1305Spec (hx key) (hx msg) then some (toHex a) else none
#guard polyBoth "0200000000000000000000000000000000000000000000000000000000000000" "ffffffffffffffffffffffffffffffff" == some "03000000000000000000000000000000"
#guard polyBoth "02000000000000000000000000000000ffffffffffffffffffffffffffffffff" "02000000000000000000000000000000" == some "03000000000000000000000000000000"
#guard polyBoth "0100000000000000000000000000000000000000000000000000000000000000" "fffffffffffffffffffffffffffffffff0ffffffffffffffffffffffffffffff11000000000000000000000000000000" == some "05000000000000000000000000000000"
#guard polyBoth "0100000000000000000000000000000000000000000000000000000000000000" "fffffffffffffffffffffffffffffffffbfefefefefefefefefefefefefefefe01010101010101010101010101010101" == some "00000000000000000000000000000000"
#guard polyBoth "0200000000000000000000000000000000000000000000000000000000000000" "fdffffffffffffffffffffffffffffff" == some "faffffffffffffffffffffffffffffff"
-- the `Nat` transcription agrees with the limb implementation: RFC vector, extreme key with all-ones
-- messages of every length 0..70
#guard toHex (poly1305Spec (hx "85d6be7857556d337f4452fe42d506a80103808afb0db2fd4abff6af4149f51b")
                "Cryptographic Forum Research Group".toUTF8) == "a8061dc1305136c6c22b8baf0c0127a9"
#guard (List.range 71).all fun n =>
  let m : ByteArray := ⟨Array.replicate n 0xff⟩
  let k : ByteArray := ⟨Array.replicate 32 0xff⟩
  poly1305 k m == poly1305Spec k m

-- RFC 8439 §2.6.2: Poly1305 key generation = first 32 bytes of block 0
#guard toHex ((chacha20Block (hx key80) (hx "000000000001020304050607") 0).extract 0 32) ==
  "8ad5a08b905f81cc815040274ab29471a833b637e3fd0da508dbb8e2fdd1a646"

-- RFC 8439 §2.8.2: AEAD
def ct282 := "d31a8d34648e60db7b86afbc53ef7ec2a4aded51296e08fea9e2b5a736ee62d63dbea45e8ca9671282fafb69da92728b1a71de0a9e060b2905d6a5b67ecd3b3692ddbd7f2d778b8c9803aee328091b58fab324e4fad675945585808b4831d7bc3ff4def08e4b7a9de576d26586cec64b6116"
def tag282 := "1ae10b594f09e26a7e902ecbd0600691"
#guard toHex (chacha20poly1305Seal (hx key80) (hx "070000004041424344454647") sunscreen (hx "50515253c0c1c2c3c4c5c6c7")) == ct282 ++ tag282
#guard chacha20poly1305Open (hx key80) (hx "070000004041424344454647") (hx (ct282 ++ tag282)) (hx "50515253c0c1c2c3c4c5c6c7") == some sunscreen
-- rejection: wrong ad, modified tag, modified ciphertext, short input
#guard chacha20poly1305Open (hx key80) (hx "070000004041424344454647") (hx (ct282 ++ tag282)) (hx "50515253c0c1c2c3c4c5c6c6") == none
#guard chacha20poly1305Open (hx key80) (hx "070000004041424344454647") (hx (ct282 ++ "1ae10b594f09e26a7e902ecbd0600690")) (hx "50515253c0c1c2c3c4c5c6c7") == none
#guard chacha20poly1305Open (hx key80) (hx "070000004041424344454647") (hx ("d2" ++ (ct282.drop 2).toString ++ tag282)) (hx "50515253c0c1c2c3c4c5c6c7") == none
#guard chacha20poly1305Open (hx key80) (hx "070000004041424344454647") (hx "1ae10b594f09e26a7e902ecbd06006") ByteArray.empty == none
-- empty plaintext round trip
#guard chacha20poly1305Open (hx key80) (hx "070000004041424344454647")
        (chacha20poly1305Seal (hx key80) (hx "070000004041424344454647") ByteArray.empty ByteArray.empty) ByteArray.empty == some ByteArray.empty

-- draft-irtf-cfrg-xchacha-03 §2.2.1: HChaCha20
#guard toHex (hchacha20 (hx key01) (hx "000000090000004a0000000031415927")) ==
  "82413b4227b27bfed30e42508a877d73a0f9e4d58a74a853c12ec41326d3ecdc"

-- draft-irtf-cfrg-xchacha-03 §A.3.1: AEAD_XCHACHA20_POLY1305
def xnonce := "404142434445464748494a4b4c4d4e4f5051525354555657"
def xct := "bd6d179d3e83d43b9576579493c0e939572a1700252bfaccbed2902c21396cbb731c7f1b0b4aa6440bf3a82f4eda7e39ae64c6708c54c216cb96b72e1213b4522f8c9ba40db5d945b11b69b982c1bb9e3f3fac2bc369488f76b2383565d3fff921f9664c97637da9768812f615c68b13b52e"
def xtag := "c0875924c1c7987947deafd8780acf49"
#guard toHex (xchacha20poly1305Seal (hx key80) (hx xnonce) sunscreen (hx "50515253c0c1c2c3c4c5c6c7")) == xct ++ xtag
#guard xchacha20poly1305Open (hx key80) (hx xnonce) (hx (xct ++ xtag)) (hx "50515253c0c1c2c3c4c5c6c7") == some sunscreen
#guard xchacha20poly1305Open (hx key80) (hx xnonce) (hx (xct ++ xtag)) (hx "50515253c0c1c2c3c4c5c6c8") == none
#guard xchacha20poly1305Open (hx key80) (hx "414142434445464748494a4b4c4d4e4f5051525354555657") (hx (xct ++ xtag)) (hx "50515253c0c1c2c3c4c5c6c7") == none

-- random vectors cross-checked against golang.org/x/crypto (chacha20poly1305.New / NewX): key, nonce, pt, ad, ct ‖ tag
#guard toHex (chacha20poly1305Seal (hx "d0213ce81ceacab5188f04b7fec41125d05cf47c323a9aa4f400cba61bd34f9c") (hx "c294c4f0cdb6c0a0a8bfef88") (hx "e5eec84f75") (hx "295aff1c972800")) ==
  "003b14667f5220facb82839e4df26df4695ba16fdb"
#guard (chacha20poly1305Open (hx "d0213ce81ceacab5188f04b7fec41125d05cf47c323a9aa4f400cba61bd34f9c") (hx "c294c4f0cdb6c0a0a8bfef88") (hx "003b14667f5220facb82839e4df26df4695ba16fdb") (hx "295aff1c972800")).map toHex == some "e5eec84f75"
#guard toHex (chacha20poly1305Seal (hx "2e07582d27c87438843f46de2a97ed6f144a301074fb3af9fbbd72f0823983a9") (hx "80b2ceadc0bc6d2b7f335fd9") (hx "1decce8f706b5072ebe67e69c81148") (hx "ef1f320c49adfed76996877b6422480f")) ==
  "fab676d0cf1dc909374b17d572f72a5f07ec8fbc9c1530bca4e0ae53675d56"
#guard (chacha20poly1305Open (hx "2e07582d27c87438843f46de2a97ed6f144a301074fb3af9fbbd72f0823983a9") (hx "80b2ceadc0bc6d2b7f335fd9") (hx "fab676d0cf1dc909374b17d572f72a5f07ec8fbc9c1530bca4e0ae53675d56") (hx "ef1f320c49adfed76996877b6422480f")).map toHex == some "1decce8f706b5072ebe67e69c81148"
#guard toHex (chacha20poly1305Seal (hx "98c7a4151757b906ff6eaec861d44f01a42f51068aa8f5ff99abe4b7a909e5bf") (hx "9ea05785b7d424ee59cbc564") (hx "5a6ad432e699") (hx "558e6bda5a044e693438a3e08df1ce")) ==
  "329961c01a3a50680ed47612157046b6658981f00e30"
#guard (chacha20poly1305Open (hx "98c7a4151757b906ff6eaec861d44f01a42f51068aa8f5ff99abe4b7a909e5bf") (hx "9ea05785b7d424ee59cbc564") (hx "329961c01a3a50680ed47612157046b6658981f00e30") (hx "558e6bda5a044e693438a3e08df1ce")).map toHex == some "5a6ad432e699"
#guard toHex (chacha20poly1305Seal (hx "4fdc88311e0e499f99388a5ba83139398a56b8cd1e545061d73c1ccc14c06422") (hx "0ec547fea581823549835c51") (hx "49774528") (hx "b0dda630")) ==
  "a6aab6c8b8e4ada47bf23d334cc83b49e8ccddbc"
#guard (chacha20poly1305Open (hx "4fdc88311e0e499f99388a5ba83139398a56b8cd1e545061d73c1ccc14c06422") (hx "0ec547fea581823549835c51") (hx "a6aab6c8b8e4ada47bf23d334cc83b49e8ccddbc") (hx "b0dda630")).map toHex == some "49774528"
#guard toHex (chacha20poly1305Seal (hx "9b4b4b5c38a1ed57645cf59541a80614fc0b0bb30c53e96506332ac117183f45") (hx "02f888fefb5b173dc39f0a65") (hx "") (hx "76be7aafb03378d96b7276af3305a9bdbacfc8bda2bec4b30db46c82")) ==
  "e99a42ea70de31ab63a023b8b7d77e78"
#guard (chacha20poly1305Open (hx "9b4b4b5c38a1ed57645cf59541a80614fc0b0bb30c53e96506332ac117183f45") (hx "02f888fefb5b173dc39f0a65") (hx "e99a42ea70de31ab63a023b8b7d77e78") (hx "76be7aafb03378d96b7276af3305a9bdbacfc8bda2bec4b30db46c82")).map toHex == some ""
#guard toHex (xchacha20poly1305Seal (hx "401764c80bc42c7c1ca16d54f6a42a567e0df2269444eb45d3fec0e58c9937b5") (hx "4964dffd44001b2abd1d4a7f33dbfaddf0fd994a8cef834e") (hx "c44098d5") (hx "6309b4a37b14795d55b124cc5566ccdbb6e97b")) ==
  "74e82c241038c09bbdaf84734f78b9b2edbc394a"
#guard (xchacha20poly1305Open (hx "401764c80bc42c7c1ca16d54f6a42a567e0df2269444eb45d3fec0e58c9937b5") (hx "4964dffd44001b2abd1d4a7f33dbfaddf0fd994a8cef834e") (hx "74e82c241038c09bbdaf84734f78b9b2edbc394a") (hx "6309b4a37b14795d55b124cc5566ccdbb6e97b")).map toHex == some "c44098d5"
#guard toHex (xchacha20poly1305Seal (hx "85bb14ff786547e96a64b25dceab86181788b99667fd5fe62e047ef0ee28ffb9") (hx "eec62fa62820feb717022cf28c2902cbfa75a7af2fe125ea") (hx "2b1f54037ec519df545d8ce84c3dbc875dbd4aee89bf801e203d2bee8e032b5fd54624ae3a5bcfb39527c506793090ffdd79115cdd9294841d7d") (hx "ec0e6cd54038d5e7d7878bc7db91763973")) ==
  "58c2380a6431ecb511a7106206063d63671744cae633c1f8c821790189bb5e66677099508e9a4c0b52c152666d22e39b53309bc7e533fafa7cacc3f10870ccf07ded3381f1820712f877"
#guard (xchacha20poly1305Open (hx "85bb14ff786547e96a64b25dceab86181788b99667fd5fe62e047ef0ee28ffb9") (hx "eec62fa62820feb717022cf28c2902cbfa75a7af2fe125ea") (hx "58c2380a6431ecb511a7106206063d63671744cae633c1f8c821790189bb5e66677099508e9a4c0b52c152666d22e39b53309bc7e533fafa7cacc3f10870ccf07ded3381f1820712f877") (hx "ec0e6cd54038d5e7d7878bc7db91763973")).map toHex == some "2b1f54037ec519df545d8ce84c3dbc875dbd4aee89bf801e203d2bee8e032b5fd54624ae3a5bcfb39527c506793090ffdd79115cdd9294841d7d"
#guard toHex (xchacha20poly1305Seal (hx "b3d59f526a74b284c5be91b2f536b2e37af1e61fbace89cff239c19dc8fa4179") (hx "b6812d710b8c08aee222bb004266f02fd22667db778cd44f") (hx "72da723680d22075") (hx "416850b1be680c580683b0386ec585")) ==
  "5c00b65ad0ba741ac6abaa30a964121a47468cc108430b84"
#guard (xchacha20poly1305Open (hx "b3d59f526a74b284c5be91b2f536b2e37af1e61fbace89cff239c19dc8fa4179") (hx "b6812d710b8c08aee222bb004266f02fd22667db778cd44f") (hx "5c00b65ad0ba741ac6abaa30a964121a47468cc108430b84") (hx "416850b1be680c580683b0386ec585")).map toHex == some "72da723680d22075"
#guard toHex (xchacha20poly1305Seal (hx "32ed5711be90606c93a71dac8e2e19500dfd8ab21fef238cbd1c32d3ea69980e") (hx "50aa74d8cb7cc5a3cea5d88bba2c770d7b4d0153213656ba") (hx "2368fa9a9a0682251a482507db68") (hx "35467e06dc7e4abc82c4d61633f7f9")) ==
  "6f46fe9d09219cd91b3395d039d787050de22314312f80f0d67fea8ebc07"
#guard (xchacha20poly1305Open (hx "32ed5711be90606c93a71dac8e2e19500dfd8ab21fef238cbd1c32d3ea69980e") (hx "50aa74d8cb7cc5a3cea5d88bba2c770d7b4d0153213656ba") (hx "6f46fe9d09219cd91b3395d039d787050de22314312f80f0d67fea8ebc07") (hx "35467e06dc7e4abc82c4d61633f7f9")).map toHex == some "2368fa9a9a0682251a482507db68"
-- golang.org/x/crypto/chacha20: key, nonce, counter, data → output; HChaCha20
#guard toHex (chacha20Xor (hx "f4b6dc71ca877f283c1734744e188826079be927133abca2e561904649ee90f2") (hx "dab11a9a41ec23ea8e470107") 1564838772 (hx "8e826909a99a69204db3d7c88d3704010684e980330825e6a7751dd43a860d18cf6e4a50f51d9f8a8bd3428cc7e4ee36b6431ad9c0f60053b29bb2f47761398ff967db466637874fedb2be8117ede079")) ==
  "6542601cd9e5c9f30a748a4aaf6b1bb2a0cf9b0c45e1a2111f010bc4f8c47e2871e15e4306e5e70e892509c04d08868b9f654dc10cdd917a93dc4d24bb9068fcf471f8dd49fec06b013813307c7e45dd"
#guard toHex (chacha20Xor (hx "883808be4d3067daf22ebebc3b42352d845dddefad5ae57420ef78c67cfeff35") (hx "c46a74674a04953c642fda58") 358536377 (hx "a9b574cbc3626ddb0b8add43a94d567e75570d80e39fdcc26a847c3722273b558c462ed0273c71f881de5a52af3f919d540ffcb048f757a90d82222f419222f16d09ca0d6d771d77a6fa2f8fa1a5")) ==
  "517fc39226974c1abd7b4b095f3ace5610c31474d19abc5150b0a884fe5b64e7e9821040094615febed75e24b023e59ac320836ffbfca8d45b6b32182c411479a6ca867e6f2a30522d2d37050bbc"
#guard toHex (chacha20Xor (hx "041b9cefea3920cfe893928b731e869b3cb98d040568ddc57e18484f806fa883") (hx "aa445fde8305f6f097099445") 92550083 (hx "2af619612fa45445537c417c360020de7916961b1b59406c28664b49c5aaa5d1e93a8c0a9081992d63a5dcad6ec73096fe95c73fd53a894408d68b72dc")) ==
  "de087190b2d7ef63193ddd2c590468105d743a5cc1af5b65db13e963a297019cdffe187ce040ef0a45698607358d4f61a8043145ea4c6ec443bd559036"
#guard toHex (hchacha20 (hx "6cd0cc6d280bee0eca7bd6542a1746ce58c5a590ca11168c353cce6dc1ac3060") (hx "50f8eb5f666158f613dd7693c69ef1d8")) == "0e27a70c25cd4367b90ac79769ec31b303e84b65f12d7ca271c4a9ee69ac7506"
#guard toHex (hchacha20 (hx "14f533361ea361ec29a8d747fee4efddb2e023b3c6c30e18d86edfae66677e88") (hx "de5e4275065ef52e149c31daab26fb62")) == "8ab37b9e119d2f90ba88c4f3076b40282d60d917335687a24522715acba0f7c7"
-- golang.org/x/crypto/poly1305 (including all-ones key and all-ones message stress cases)
#guard toHex (poly1305 (hx "ffe5363c3b5d83f3bd04b6073b41eef3e96cbcd0286fc8dfe89b972c38c9e619") (hx "ffffffffffffffffffffffffffffffffffffffffffffffffffffffffffffffffffffffffffffffffffffffffffffffffffffff")) == "ceca2fcb5c375d30b97269e0af527488"
#guard toHex (poly1305 (hx "538ba9d99e7205496f05424321a6f6bef060a3bc7fa1fe71978ab15ff6ca14bb") (hx "69bb459378ee7e")) == "33675e10a50784aae372f9be898b4a31"
#guard toHex (poly1305 (hx "1c536dfb4f49b5d52a323a9c9e49da263f2fe1594ea9fd3e664dee0eeb4bf68e") (hx "46965b7525941301d7aecdc3c65126c90dbdfed4f2bcb4011c2c2a01f2")) == "e93d3f580c50c84308f5601e0f0a98a8"
#guard toHex (poly1305 (hx "ffffffffffffffffffffffffffffffffffffffffffffffffffffffffffffffff") (hx "7ef1f8cf780120d9db7aaeaa98d1cf5e25")) == "a55cc77b1a5cdc48e9bc81a5ad82abc5"
#guard toHex (poly1305 (hx "ffffffffffffffffffffffffffffffffffffffffffffffffffffffffffffffff") (hx "5afb44447a233ebbaa3896e8c69819430fafa03c21fb87")) == "8f8d17c1c46bb8ebe9e00fff38a3dfbe"
#guard toHex (poly1305 (hx "f873f38d8dc45118c5e64ed26ae7427c30a7433bf6097dad5ae45eb4afae30fe") (hx "ffffffffffffffffffffffffffffffffffffffffffffffffffffffffffffffffffff")) == "732c9aa7e939060a7aa531fe23cedc4d"
#guard toHex (poly1305 (hx "ccb22f19c4a27011985d7e11c86136ed47decd31934e9e69ab4d0c3e36ea8f40") (hx "ffffffffffffffffffffffffffffffffffffffffffffffffffffffffffffffffffffffffffffffffffff")) == "50734413c483ae87656ad5ec705cfdd7"

end TinkVerif.Kat.ChaCha
