/-
  Known-answer tests for `TinkVerif.Prim.Gcm`: test cases 1-6, 7-8, 13-16 of the GCM
  specification (McGrew & Viega), a GHASH intermediate value, tag truncation, rejection of
  modified inputs, and random vectors cross-checked against Go `crypto/cipher`.
  Every `#guard` fails the build when false.
-/
import TinkVerif.Prim.Gcm

namespace TinkVerif.Kat.Gcm
open TinkVerif TinkVerif.Prim

def hx (s : String) : ByteArray := Bytes.toByteArray ((bytesOfTok? s).getD [])
def toHex (b : ByteArray) : String := hexOfBytes b.toList

def sealHex (key nonce pt ad : String) (tagLen : Nat := 16) : String :=
  match AesKey.ofBytes? (hx key) with
  | some k => toHex (gcmSeal k (hx nonce) (hx pt) (hx ad) tagLen)
  | none => "bad key"

/-- `some hex` on success, `none` on authentication failure. -/
def openHex (key nonce ct ad : String) (tagLen : Nat := 16) : Option String :=
  match AesKey.ofBytes? (hx key) with
  | some k => (gcmOpen k (hx nonce) (hx ct) (hx ad) tagLen).map toHex
  | none => some "bad key"

/-- sealHex gives `ct ‖ tag` and open inverts it. -/
def kat (key nonce pt ad ct tag : String) : Bool :=
  sealHex key nonce pt ad == ct ++ tag && openHex key nonce (ct ++ tag) ad == some pt

def z16 := "00000000000000000000000000000000"
def z12 := "000000000000000000000000"
def k3 := "feffe9928665731c6d6a8f9467308308"
def p3 := "d9313225f88406e5a55909c5aff5269a86a7a9531534f7da2e4c303d8a318a721c3c0c95956809532fcf0e2449a6b525b16aedf5aa0de657ba637b391aafd255"
def p4 := "d9313225f88406e5a55909c5aff5269a86a7a9531534f7da2e4c303d8a318a721c3c0c95956809532fcf0e2449a6b525b16aedf5aa0de657ba637b39"
def a4 := "feedfacedeadbeeffeedfacedeadbeefabaddad2"
def iv3 := "cafebabefacedbaddecaf888"

-- GHASH intermediate of test case 2: H = E_K(0), C = first ciphertext block
#guard toHex (ghash (hx "66e94bd4ef8a2c3b884cfa59ca342b2e") ByteArray.empty (hx "0388dace60b6a392f328c2b971b2fe78")) == "f38cbb1ad69223dcc3457ae5b6b0f885"
#guard toHex (ghash (hx "66e94bd4ef8a2c3b884cfa59ca342b2e") ByteArray.empty ByteArray.empty) == z16

-- Test case 1, 2 (AES-128, zero key)
#guard kat z16 z12 "" "" "" "58e2fccefa7e3061367f1d57a4e7455a"
#guard kat z16 z12 z16 "" "0388dace60b6a392f328c2b971b2fe78" "ab6e47d42cec13bdf53a67b21257bddf"
-- Test case 3
#guard kat k3 iv3 p3 ""
  "42831ec2217774244b7221b784d0d49ce3aa212f2c02a4e035c17e2329aca12e21d514b25466931c7d8f6a5aac84aa051ba30b396a0aac973d58e091473f5985"
  "4d5c2af327cd64a62cf35abd2ba6fab4"
-- Test case 4 (AAD, short final block)
#guard kat k3 iv3 p4 a4
  "42831ec2217774244b7221b784d0d49ce3aa212f2c02a4e035c17e2329aca12e21d514b25466931c7d8f6a5aac84aa051ba30b396a0aac973d58e091"
  "5bc94fbc3221a5db94fae95ae7121a47"
-- Test case 5 (8-byte IV → GHASH-derived J0)
#guard kat k3 "cafebabefacedbad" p4 a4
  "61353b4c2806934a777ff51fa22a4755699b2a714fcdc6f83766e5f97b6c742373806900e49f24b22b097544d4896b424989b5e1ebac0f07c23f4598"
  "3612d2e79e3b0785561be14aaca2fccb"
-- Test case 6 (60-byte IV)
#guard kat k3 "9313225df88406e555909c5aff5269aa6a7a9538534f7da1e4c303d2a318a728c3c0c95156809539fcf0e2429a6b525416aedbf5a0de6a57a637b39b" p4 a4
  "8ce24998625615b603a033aca13fb894be9112a5c3a211a8ba262a3cca7e2ca701e4a9a4fba43c90ccdcb281d48c7c6fd62875d2aca417034c34aee5"
  "619cc5aefffe0bfa462af43c1699d050"
-- Test case 7, 8 (AES-192, zero key)
#guard kat (z16 ++ "0000000000000000") z12 "" "" "" "cd33b28ac773f74ba00ed1f312572435"
#guard kat (z16 ++ "0000000000000000") z12 z16 "" "98e7247c07f0fe411c267e4384b0f600" "2ff58d80033927ab8ef4d4587514f0fb"
-- Test case 13, 14 (AES-256, zero key)
#guard kat (z16 ++ z16) z12 "" "" "" "530f8afbc74536b9a963b4f1c4cb738b"
#guard kat (z16 ++ z16) z12 z16 "" "cea7403d4d606b6e074ec5d3baf39d18" "d0d1c8a799996bf0265b98b5d48ab919"
-- Test case 15, 16 (AES-256)
#guard kat (k3 ++ k3) iv3 p3 ""
  "522dc1f099567d07f47f37a32a84427d643a8cdcbfe5c0c97598a2bd2555d1aa8cb08e48590dbb3da7b08b1056828838c5f61e6393ba7a0abcc9f662898015ad"
  "b094dac5d93471bdec1a502270e3cc6c"
#guard kat (k3 ++ k3) iv3 p4 a4
  "522dc1f099567d07f47f37a32a84427d643a8cdcbfe5c0c97598a2bd2555d1aa8cb08e48590dbb3da7b08b1056828838c5f61e6393ba7a0abcc9f662"
  "76fc6ece0f4e1768cddf8853bb2d551b"

-- tag truncation: ct ‖ first `tagLen` bytes of the full tag
#guard sealHex k3 iv3 p4 a4 12 ==
  "42831ec2217774244b7221b784d0d49ce3aa212f2c02a4e035c17e2329aca12e21d514b25466931c7d8f6a5aac84aa051ba30b396a0aac973d58e091" ++ "5bc94fbc3221a5db94fae95a"
#guard openHex k3 iv3 (sealHex k3 iv3 p4 a4 12) a4 12 == some p4
#guard openHex k3 iv3 (sealHex k3 iv3 p4 a4 12) a4 13 == none

-- rejection: modified tag / ciphertext / ad / nonce, and too-short input
#guard openHex z16 z12 "58e2fccefa7e3061367f1d57a4e7455b" "" == none
#guard openHex z16 z12 "0388dace60b6a392f328c2b971b2fe79ab6e47d42cec13bdf53a67b21257bddf" "" == none
#guard openHex z16 z12 "0388dace60b6a392f328c2b971b2fe78ab6e47d42cec13bdf53a67b21257bddf" "00" == none
#guard openHex z16 "000000000000000000000001" "0388dace60b6a392f328c2b971b2fe78ab6e47d42cec13bdf53a67b21257bddf" "" == none
#guard openHex z16 z12 "58e2fccefa7e3061367f1d57a4e745" "" == none
#guard openHex z16 z12 "" "" == none

-- random vectors cross-checked against Go crypto/cipher (NewGCM / NewGCMWithNonceSize / NewGCMWithTagSize):
-- key, nonce, plaintext, ad, tagLen, ct ‖ tag
def rnd (key nonce pt ad : String) (tagLen : Nat) (out : String) : Bool :=
  sealHex key nonce pt ad tagLen == out && openHex key nonce out ad tagLen == some pt
#guard rnd "3f8f6d83c173bd01c16b1e0624f4842a" "f3c13456db68f2aba48e5517" "f7fb4c841aaf42df2ef90079181ca0178441fb92" "dd70656d33ed1ce7b0bd24b30ac7e95bf4" 16
  "b2bbad7e50b18207aaf00250496d5f913568e5d85c590e27161e44545cfccdca01b04087"
#guard rnd "ae83696b78856055ac649842e45ec0a4" "427fec08f685e576492ff2b3" "4501ceb08be68dfff70e" "deaa" 16
  "122c3cd40daa7d29abda2b4e91265af9c69ef851443eb96933cf"
#guard rnd "eb21809aaf507c951594949caba4d10408bd8e45c47a8c5b" "dcfd7885f7c21de3b107b015" "16943105927ec96194ca52f942a4c08d9e31f0565b7e99d1" "83a1cf9a475ee2e9b5ebc13d62bea58af685bb77ee597b451ad0" 16
  "8ea3aaac77b088d6d8573a99c5668ab30b95e4ead56015576cd5e87b5e049f9bb2e0a086163a83dd"
#guard rnd "a4f9ba6d08d7218163bc40c78f02cf714013cd54e99a1238" "dccf77951a7b20d57d6b98ea" "cfe7d9" "c0fbfb22da653e8a9c10d9b90096e75eafcfada0dede5dcc6e983442415d" 16
  "1b1a7cb8172221cf089cbe059cc6a3038b2f46"
#guard rnd "b34e17678775967980b0f20c403b3ac544d91c06e5b04f24a2638f817a4c654f" "f12ea8bc7a79717d4a3a7d86" "6442b19aae" "31a86609aad38db12232610c" 16
  "020d5f3b01897b11c0fc0e88c8325d12643a1827af"
#guard rnd "318dabedfed7db4ec9ee03ec718ba5be8361c663b293384ab4acb695410918f0" "4687fd7d2bc90365768c8c2f" "0e4d6c8c9f8e6583a148cf5308a56f0915e55215957b199a779d4f984043b87de2" "e55e964a78348afec3" 16
  "0c861a1ee7564fff0d9710f314ed61f80b82a77394fa524162f03a74f0674689142b3e5b5187c200b3b74c5d25e897d191"
#guard rnd "417e303198e29f116e2b9ba129ef8be7" "39" "622c473ce935310e135b01ddd3f28b283aecb1d492eb3a6b158d323a7c7cf0979c2b80a1" "82b5858c118f3a5c3f9691c8e4e3" 16
  "1d92fbfec069882cbabdcda27a7f3aaee46ba5a965fb8b10c0bc40f494add04c213edb59df3701882c24dd0001f5e65cab6e70dd"
#guard rnd "7bad3c05be7dba4d6231fa36a953f1fe0dc812d25dce5ee5" "95e9fcc0547952c1" "5fe4b298e056863ffb5e37f7ed0304c3227506" "159684385873c9b6a0a5cce915dfce974d48bc3107b8c1407aa597eaf2efe7f2e0" 16
  "3cd7341d47afd226bd3f4f720066a88967bf2e6b292bf600ecdd2cfdcda2681ebe4784"
#guard rnd "a0e1f86fe9ea391e7d791c14beafce93516b0775b6b223543e4bafd777851da6" "1b9a3d38f433b082a212edd255" "997f88fe37dd65c74d2b7a0841e203c699f00ba47ce34154e2d48df282612eac09f552f4e9cfe94cab531df959f19de23acd0567c16c474e001c5b1f" "7b967df4132a4540524dcb9dab3020ebb0ca35bb" 16
  "2f21183c44ef42452904f57698f0790e4c68efc4ca60ed5ea7c298596dc72f373f0468786e7f42f365c8bb031c0643e62250bf5c417a0ba5b8f635f1aafef831fa773d940b8af659b1984125"
#guard rnd "411211eb33c4c2b79a37e532f38349e9" "fc34e5cadcc003778a6911f43b847283" "16df22fad8f3f069d08ff3a0097832" "494b6430fcce1c1315c29cc417abea14c351411ca4f258" 16
  "b89d6d9c1340b752dc4cab517be2d1fa8f3033c696eed8b0656cdf647aff16"
#guard rnd "e92e3482fbee3c5947939403c429419ec849b2737994910f627d6909c5a26b56" "35cf82cfb228ba9b760f25abb6df68c8a7" "c54ee15d9e5026e32c4b097cba" "3f18721c9d6bee24b01597c68214c662e82c1dde37daa5de61b3cdf30bbecf8704" 16
  "1f9bd85ef643ab9aa503996bae21549294d864598565d913ab972d5ed6"
#guard rnd "90e43fd945d2e52711b0bb5e4a303fc34f951b885b501941" "8729b3a7c8d0f38f6e6fb9d930dfcd21f28546a7b07bcdb124a26291b41b6a086ac6f4c35ea66648f1f0b048bfadb890f35a986642b58312af90b5a22100d44f" "a8b43071e646b03dac" "0fc21623895982fe118bd20576edd45a3845f60863128c18f4378ac695fc2231be1e21aae81e4e" 16
  "8f4727b49c956b7b0181f34f2449e0ad4b6c490875cb2a1e04"
#guard rnd "023b59c8e92b85eaa10c4da675d2f8d3" "dbdd8fee06081e58c52b04b2" "13ac34" "d35c0b0d8be603ee1534c4dc0e6fb60210ad12f7283a0b439d666a03e6738dd5e2c4fea859" 12
  "8d34a8056f6f0b80b955a74d8c225d"
#guard rnd "0d9b569a98c23d5f0fac4a1f8bf006d1" "4f42de03bc6ce544c0de614b" "3fd169fe6dcb0744e0d15ed3" "128889a9e646866da2fbc496eb268bb1bd04a021ac6668" 13
  "3967870a6cfde624cb7bb9610888cd410e32465066ab1e9b3a"
#guard rnd "4d2f52d324f576d3c4aa6d7a35b98694" "86302cf240161982938b0fa8" "a00f35e80bf041b8f1855854f8f4f9454ac49cf8f333bfa25ad71cbb0179d76fec32251c33fe54614716e1099d497164bfe2e37204d65d8d99443f" "388f6c75ba3c" 14
  "27eb75b04795ea45f0bf71ed78643af3d43150205c232ede8dfdd6f3e3e6a71bf2d403232d98f079f6372f6798dce309969f795fb734d1ead462656c2aab2c3cdfe261d66c0b6c8b51"
#guard rnd "22743e51fa49a96aba5705daad090853" "5faa867ec6cc1b8cec9bffc2" "ef4c9a0d31da33e41f59ddb385e4d4ed637b81de1733cd1043d4137fed97d2ff301a21298833a799367b46730fd6c4eff69f76004f" "8c" 15
  "d15330abe3ba9e658343fddcd49b51fa28b66de9c6e025afd5b779afe0e2e3c8b2e1afae2cdf3dc0c04117ae4612c831a81d9e39cf3e0f5beb5661078e10dcb24db2e4c1"

end TinkVerif.Kat.Gcm
