/-
  Cross-checks of the list model of the ML-DSA packing codecs (`TinkVerif.Model.MldsaPack`, laws in
  `Props/C10Pack.lean`, written after the Go code) against the corresponding functions of the
  ByteArray-based FIPS 204 reference (`TinkVerif.Prim.Mldsa`, written from the standard and validated by
  the Wycheproof / tink-go vectors of `Kat/Mldsa.lean`).  Every `#guard` fails the build when false.
  Conventions differ: the reference takes the maximal value `b` (width `bitlen b`), the model the width.
-/
import TinkVerif.Model.MldsaPack
import TinkVerif.Prim.Mldsa

namespace TinkVerif.Kat.MldsaPack
open TinkVerif TinkVerif.Prim

private def q : Nat := 8380417

/-- deterministic test polynomial with values in `[0, m]` -/
private def poly (seed m : Nat) : List Nat :=
  (List.range 256).map fun i => ((i * i * 7919 + 104729 * i + seed * 65537 + 12345) * 2654435761 / 4096) % (m + 1)

/-- coefficients in the centered range `[−a, b]`, stored mod q, extremes included -/
private def spoly (seed a b : Nat) : List Nat :=
  ((poly seed (a + b)).set 0 0 |>.set 1 (a + b)).map fun v => (v + q - a) % q

private def bytes (seed n : Nat) : Bytes :=
  (List.range n).map fun i => UInt8.ofNat (((i * 131 + seed) * 2654435761 / 65536) % 256)

private def arr (l : List Nat) : Array Nat := l.toArray
private def ba (b : Bytes) : ByteArray := ⟨b.toArray⟩

/-! SimpleBitPack / SimpleBitUnpack: t1 (10 bits), w1 (6 and 4 bits) -/
#guard [(1023, 10), (43, 6), (15, 4)].all fun (m, bits) => [1, 2, 3].all fun s =>
  Model.MldsaPack.simpleBitPack bits (poly s m) == (Mldsa.simpleBitPack (arr (poly s m)) m).toList
#guard [(1023, 10), (43, 6), (15, 4)].all fun (m, bits) => [4, 5].all fun s =>
  Model.MldsaPack.simpleBitUnpack bits (bytes s (32 * bits)) == (Mldsa.simpleBitUnpack (ba (bytes s (32 * bits))) m).toList
#guard [(1023, 10), (43, 6), (15, 4)].all fun (m, bits) =>
  (Model.MldsaPack.simpleBitPack bits (poly 9 m)).length == 32 * bits &&
  Model.MldsaPack.simpleBitUnpack bits (Model.MldsaPack.simpleBitPack bits (poly 9 m)) == poly 9 m

/-! BitPack / BitUnpack: η = 2, η = 4, t0, z (γ1 = 2^17, 2^19) -/
private def shapes : List (Nat × Nat) := [(2, 2), (4, 4), (4095, 4096), (131071, 131072), (524287, 524288)]
#guard shapes.map (fun (a, b) => Model.MldsaPack.bitlen (a + b)) == [3, 4, 13, 18, 20]
#guard shapes.all fun (a, b) => Model.MldsaPack.bitlen (a + b) == Mldsa.bitlen (a + b)
#guard shapes.all fun (a, b) => [1, 2].all fun s =>
  Model.MldsaPack.bitPack a b (spoly s a b) == (Mldsa.bitPack (arr (spoly s a b)) a b).toList
#guard shapes.all fun (a, b) => [3, 4].all fun s =>
  let n := 32 * Model.MldsaPack.bitlen (a + b)
  Model.MldsaPack.bitUnpack a b (bytes s n) == (Mldsa.bitUnpack (ba (bytes s n)) a b).toList
#guard shapes.all fun (a, b) =>
  Model.MldsaPack.bitUnpack a b (Model.MldsaPack.bitPack a b (spoly 7 a b)) == spoly 7 a b
#guard shapes.all fun (a, b) =>
  let n := 32 * Model.MldsaPack.bitlen (a + b)
  Model.MldsaPack.bitPack a b (Model.MldsaPack.bitUnpack a b (bytes 8 n)) == bytes 8 n

/-! w1Encode -/
#guard [Mldsa.mldsa44, Mldsa.mldsa65, Mldsa.mldsa87].all fun p =>
  let m := (q - 1) / (2 * p.gamma2) - 1
  let v := (List.range p.k).map fun i => poly (20 + i) m
  Model.MldsaPack.w1Encode p.w1Bits v == (Mldsa.w1Encode p (v.map arr).toArray).toList

/-! hints -/
private def hvec (pos : List (List Nat)) : List (List Nat) :=
  pos.map fun ps => (List.range 256).map fun j => if ps.contains j then 1 else 0

private def hv44 : List (List Nat) := hvec [[3, 5, 255], [], [0, 7, 200], [128]]
private def hv65 : List (List Nat) := hvec [[], [1], [2, 3], [], [254, 255], (List.range 50).map (· * 5)]
private def hv87 : List (List Nat) := hvec [(List.range 75).map (· * 3 + 1), [], [], [], [], [], [], []]
private def hzero (k : Nat) : List (List Nat) := hvec (List.replicate k [])

#guard [(80, hv44), (55, hv65), (75, hv87), (80, hzero 4), (55, hzero 6), (75, hzero 8)].all fun (omega, h) =>
  let y := Model.MldsaPack.hintBitPack omega h
  y == Model.MldsaPack.hintBitPackGo omega h &&
  y == (Mldsa.hintBitPack omega (h.map arr).toArray).toList &&
  y.length == omega + h.length &&
  Model.MldsaPack.hintBitUnpack omega h.length y == some h &&
  (Mldsa.hintBitUnpack omega h.length (ba y)).map (·.toList.map Array.toList) == some h

/-- decisions (and values) of the two decoders on malformed and well-formed strings -/
private def agree (omega k : Nat) (y : Bytes) : Bool :=
  Model.MldsaPack.hintBitUnpack omega k y == (Mldsa.hintBitUnpack omega k (ba y)).map (·.toList.map Array.toList)

private def y44 : Bytes := Model.MldsaPack.hintBitPack 80 hv44
#guard agree 80 4 y44 && (Model.MldsaPack.hintBitUnpack 80 4 y44).isSome
#guard [ y44.set 80 4,            -- first counter 4 above the second (3)
         y44.set 81 2,            -- counter decreases
         y44.set 83 81,           -- counter > ω
         y44.set 83 255,
         y44.set 1 3,             -- equal indices inside one polynomial
         y44.set 0 9,             -- decreasing indices
         y44.set 7 1,             -- non-zero padding directly after the last index
         y44.set 79 1,            -- non-zero last padding byte
         y44.set 83 6 ].all fun y => agree 80 4 y && (Model.MldsaPack.hintBitUnpack 80 4 y).isNone
-- boundary between two polynomials is not an order constraint: [.., 255 | 0, ..] is accepted
#guard (Model.MldsaPack.hintBitUnpack 80 4 y44).map (·.map Model.MldsaPack.positions) == some [[3, 5, 255], [], [0, 7, 200], [128]]
-- moving a counter changes the vector but stays canonical
#guard agree 80 4 (y44.set 80 2) &&
  (Model.MldsaPack.hintBitUnpack 80 4 (y44.set 80 2)).map (·.map Model.MldsaPack.positions) == some [[3, 5], [255], [0, 7, 200], [128]]
#guard [bytes 1 84, bytes 2 84, (bytes 3 80) ++ [10, 20, 30, 40], Bytes.zeros 84, Bytes.zeros 83].all (agree 80 4)
-- (longer input: the reference reads ω + k bytes from an offset and ignores the rest, the model — like
-- sigDecode's length check — insists on exactly ω + k bytes)
#guard (Model.MldsaPack.hintBitUnpack 80 4 (Bytes.zeros 85)).isNone

end TinkVerif.Kat.MldsaPack
