/-
  Known-answer tests for `TinkVerif.Prim.Polyval`: the published constant x^-128, algebraic sanity
  checks of the bit-level specification, RFC 8452 Appendix A and Appendix C POLYVAL values,
  agreement of the fast `polyval`/`polyvalMul` with the specification, and random vectors
  cross-checked against tink-go's `aead/subtle.NewPolyval`.  Every `#guard` fails the build when
  false.
-/
import TinkVerif.Prim.Polyval

namespace TinkVerif.Kat.Polyval
open TinkVerif TinkVerif.Prim

def hx (s : String) : ByteArray := Bytes.toByteArray ((bytesOfTok? s).getD [])
def toHex (b : ByteArray) : String := hexOfBytes b.toList

-- the specification's constants: x^128 ≡ x^127+x^126+x^121+1 and x^-128 · x^128 ≡ 1
#guard PolyvalSpec.polyMod (2^128) 1 == PolyvalSpec.x128
#guard PolyvalSpec.mulMod PolyvalSpec.xInv128 PolyvalSpec.x128 == 1
-- hence dot(a, x^128) = a and dot(1, 1) = x^-128
#guard PolyvalSpec.dot 0x0123456789abcdeffedcba9876543210 PolyvalSpec.x128 == 0x0123456789abcdeffedcba9876543210
#guard PolyvalSpec.dot 1 1 == PolyvalSpec.xInv128
-- carry-less multiplication examples: (x+1)^2 = x^2+1, (x^2+x+1)(x+1) = x^3+1
#guard PolyvalSpec.clmul 3 3 128 == 5
#guard PolyvalSpec.clmul 7 3 128 == 9
#guard PolyvalSpec.clmul (2^127) (2^127) 128 == 2^254

def one := "01000000000000000000000000000000"
def xInv := "01000000000000000000000000000492"   -- little-endian bytes of x^127+x^124+x^121+x^114+1
def x128 := "010000000000000000000000000000c2"   -- little-endian bytes of x^127+x^126+x^121+1
#guard toHex (polyvalMulSpec (hx one) (hx one)) == xInv
#guard toHex (polyvalMul (hx one) (hx one)) == xInv
#guard toHex (polyvalMulSpec (hx x128) (hx "f7a3b47b846119fae5b7866cf5e5b77e")) == "f7a3b47b846119fae5b7866cf5e5b77e"
#guard toHex (polyvalMul (hx "f7a3b47b846119fae5b7866cf5e5b77e") (hx x128)) == "f7a3b47b846119fae5b7866cf5e5b77e"

-- RFC 8452 Appendix A
def hA := "25629347589242761d31f826ba4b757b"
def xA := "4f4f95668c83dfb6401762bb2d01a262d1a24ddd2721d006bbe45f20d3c9f362"
#guard toHex (polyval (hx hA) (hx xA)) == "f7a3b47b846119fae5b7866cf5e5b77e"
#guard toHex (polyvalSpec (hx hA) (hx xA)) == "f7a3b47b846119fae5b7866cf5e5b77e"
#guard toHex (polyvalMulSpec (polyvalMulSpec (hx "4f4f95668c83dfb6401762bb2d01a262") (hx hA) |> fun s =>
          ⟨Array.ofFn (n := 16) fun i => s.get! i ^^^ (hx "d1a24ddd2721d006bbe45f20d3c9f362").get! i⟩) (hx hA))
        == "f7a3b47b846119fae5b7866cf5e5b77e"

-- RFC 8452 Appendix C.1 (AES-128-GCM-SIV, key 01 00.., nonce 03 00..): record authentication key
-- d9b360279694941ac5dbc6987ada7377, "POLYVAL input" → "POLYVAL result"
def hC := "d9b360279694941ac5dbc6987ada7377"
#guard toHex (polyval (hx hC) (hx "00000000000000000000000000000000")) == "00000000000000000000000000000000"
#guard toHex (polyval (hx hC) (hx "0100000000000000000000000000000000000000000000004000000000000000")) == "eb93b7740962c5e49d2a90a7dc5cec74"
#guard toHex (polyval (hx hC) (hx "0100000000000000000000000000000000000000000000006000000000000000")) == "48eb6c6c5a2dbe4a1dde508fee06361b"
#guard toHex (polyval (hx hC) (hx "0100000000000000000000000000000000000000000000008000000000000000")) == "20806c26e3c1de019e111255708031d6"
#guard toHex (polyvalSpec (hx hC) (hx "0100000000000000000000000000000000000000000000004000000000000000")) == "eb93b7740962c5e49d2a90a7dc5cec74"

-- empty input, and zero-extension of a trailing short block
#guard toHex (polyval (hx hA) ByteArray.empty) == "00000000000000000000000000000000"
#guard toHex (polyvalSpec (hx hA) ByteArray.empty) == "00000000000000000000000000000000"
#guard polyval (hx hA) (hx "4f4f95668c83dfb6401762bb2d01a262d1a2") == polyval (hx hA) (hx "4f4f95668c83dfb6401762bb2d01a262d1a20000000000000000000000000000")
#guard polyvalSpec (hx hA) (hx "4f4f95668c83dfb6401762bb2d01a262d1a2") == polyval (hx hA) (hx "4f4f95668c83dfb6401762bb2d01a262d1a2")

/-- fast `dot` = specification `dot` on every pair of basis elements `x^i`, `x^j` with
    `i, j ∈ {0, 1, 7, 8, 63, 64, 120, 121, 126, 127}` (all 128×128 pairs are checked by the compiled
    cross-check; this keeps elaboration short). -/
def basis (i : Nat) : ByteArray := PolyvalSpec.encode (2^i)
#guard [0, 1, 7, 8, 63, 64, 120, 121, 126, 127].all fun i =>
         [0, 1, 7, 8, 63, 64, 120, 121, 126, 127].all fun j =>
           polyvalMul (basis i) (basis j) == polyvalMulSpec (basis i) (basis j)

-- random vectors cross-checked against tink-go aead/subtle.NewPolyval: h, data → POLYVAL; checked for the fast
-- implementation and for the specification fold
#guard toHex (polyval (hx "664602b15a3382ba6851706d32ecb28c") (hx "d0d46931d8c30daa4f67fb737a77b243")) == "d326aa14094f5c63bb4a16902cbd3ef7"
#guard toHex (polyvalSpec (hx "664602b15a3382ba6851706d32ecb28c") (hx "d0d46931d8c30daa4f67fb737a77b243")) == "d326aa14094f5c63bb4a16902cbd3ef7"
#guard toHex (polyval (hx "13aba4bd637c1af21dba5b73dde88fb8") (hx "72ed7085993fefcb4423b9bb27d75cbb5bb69e520094dbe6be71875f0dbf70a06f5811e2c1b2a8e59dc228430099a5b2825a5333e47d546c3324bf3b10f37fbe")) == "31b0f77ac3576302de0de905f12461ff"
#guard toHex (polyvalSpec (hx "13aba4bd637c1af21dba5b73dde88fb8") (hx "72ed7085993fefcb4423b9bb27d75cbb5bb69e520094dbe6be71875f0dbf70a06f5811e2c1b2a8e59dc228430099a5b2825a5333e47d546c3324bf3b10f37fbe")) == "31b0f77ac3576302de0de905f12461ff"
#guard toHex (polyval (hx "cef103c7e2c78dde4501b2a0db466dd7") (hx "b3c0300e6f34df5fd8f11c76401ad987")) == "64d04c9dd90177e7d80ea6c65601a29f"
#guard toHex (polyvalSpec (hx "cef103c7e2c78dde4501b2a0db466dd7") (hx "b3c0300e6f34df5fd8f11c76401ad987")) == "64d04c9dd90177e7d80ea6c65601a29f"
#guard toHex (polyval (hx "60e3ef356c6d982fabf10d273c586973") (hx "5751ab02a0977a74f99e37712f764acba05662da31f81e1afd5a3b8fb5be0810bfce0fe0d925eac5ddb4a6bf55ec01776ae3b68786766725fb478f19c1a3c564")) == "9b73a80e6e4ff4ff88010068cd4a0c6e"
#guard toHex (polyvalSpec (hx "60e3ef356c6d982fabf10d273c586973") (hx "5751ab02a0977a74f99e37712f764acba05662da31f81e1afd5a3b8fb5be0810bfce0fe0d925eac5ddb4a6bf55ec01776ae3b68786766725fb478f19c1a3c564")) == "9b73a80e6e4ff4ff88010068cd4a0c6e"
#guard toHex (polyval (hx "a7467c13c70f8191dcc4fc2cefca4fc3") (hx "d54f3da8953f1792615cce55d45eda705bb64f2417ae255a5b696a14e3ac7888")) == "0399af6a49f59f60c795535c95b5cff5"
#guard toHex (polyvalSpec (hx "a7467c13c70f8191dcc4fc2cefca4fc3") (hx "d54f3da8953f1792615cce55d45eda705bb64f2417ae255a5b696a14e3ac7888")) == "0399af6a49f59f60c795535c95b5cff5"
-- single products dot(a, b) (tink-go polyvalDot via Update of one block with key b)
#guard toHex (polyvalMulSpec (hx "347c5c492a61dd368444222f80e7e428") (hx "da6fe4064968990d1a3b952b325857f5")) == "155d4206f1b92b533a9950875b7aa6aa"
#guard toHex (polyvalMul (hx "347c5c492a61dd368444222f80e7e428") (hx "da6fe4064968990d1a3b952b325857f5")) == "155d4206f1b92b533a9950875b7aa6aa"
#guard toHex (polyvalMulSpec (hx "f2a7980789a85735023bf1e3d35f9b78") (hx "7fb59e2fae18539a7d64a14689b30fda")) == "694d3fed040f5eebff83ec794bfb52b0"
#guard toHex (polyvalMul (hx "f2a7980789a85735023bf1e3d35f9b78") (hx "7fb59e2fae18539a7d64a14689b30fda")) == "694d3fed040f5eebff83ec794bfb52b0"
#guard toHex (polyvalMulSpec (hx "1f5d11286f6442ac60b945905370e8d6") (hx "d802713a61dc79b670ae2550004158f5")) == "350d01e2b8db988b05df17331948a913"
#guard toHex (polyvalMul (hx "1f5d11286f6442ac60b945905370e8d6") (hx "d802713a61dc79b670ae2550004158f5")) == "350d01e2b8db988b05df17331948a913"
#guard toHex (polyvalMulSpec (hx "f13e3cd6ae4a4d66d95a42fc9e32ebe0") (hx "914361b2b8813de0599ea4e13d612b8d")) == "1baca8ce8c32f1a8f8c350e5cf166b71"
#guard toHex (polyvalMul (hx "f13e3cd6ae4a4d66d95a42fc9e32ebe0") (hx "914361b2b8813de0599ea4e13d612b8d")) == "1baca8ce8c32f1a8f8c350e5cf166b71"
#guard toHex (polyvalMulSpec (hx "a20d56eb21ce826aaba4ab3a21a0e1a5") (hx "7c5a2f5c91d7ac55a58d338273cf475f")) == "d46878537e911311bf811508aeee102d"
#guard toHex (polyvalMul (hx "a20d56eb21ce826aaba4ab3a21a0e1a5") (hx "7c5a2f5c91d7ac55a58d338273cf475f")) == "d46878537e911311bf811508aeee102d"
#guard toHex (polyvalMulSpec (hx "620d54426d6295b8cdd3b41cec877d7d") (hx "4934ed9846a3e9dc392e570c8e8cc039")) == "196bd4f3f7581b861162f7e3a40b30b3"
#guard toHex (polyvalMul (hx "620d54426d6295b8cdd3b41cec877d7d") (hx "4934ed9846a3e9dc392e570c8e8cc039")) == "196bd4f3f7581b861162f7e3a40b30b3"

end TinkVerif.Kat.Polyval
