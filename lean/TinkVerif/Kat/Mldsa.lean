/-
  Known-answer tests for `TinkVerif.Prim.Mldsa` (FIPS 204).  Every `#guard` fails the build when
  false.  Large outputs are compared through a 32-byte SHAKE256 digest.

  Sources of the expected values
  * Wycheproof `mldsa_{44,65,87}_sign_seed_test.json` (seed 2a…2a, "Hello world", tcId 1 and 3):
    digests computed with Python's hashlib from the JSON, independent of this code.
  * zero-seed vectors: agreed byte for byte with tink-go (`internal/signature/mldsa`).
  * zetas[1], zetas[255], f: FIPS 204 Appendix B / Algorithm 42.
  The full vector suites (Wycheproof 605 cases, C2SP CCTV accumulated and field-operation
  vectors, random cross-checks against tink-go) were run with a compiled executable.
-/
import TinkVerif.Prim.Mldsa

namespace TinkVerif.Kat.Mldsa
open TinkVerif TinkVerif.Prim TinkVerif.Prim.Mldsa

private def dig (b : ByteArray) : String := hexOfBytes (shake256 b 32).toList
private def rep (n : Nat) (x : UInt8) : ByteArray := ⟨Array.replicate n x⟩
private def hello : ByteArray := "Hello world".toUTF8

/-! parameters and sizes (Table 1, Table 2) -/
#guard (mldsa44.pkSize, mldsa44.skSize, mldsa44.sigSize) == (1312, 2560, 2420)
#guard (mldsa65.pkSize, mldsa65.skSize, mldsa65.sigSize) == (1952, 4032, 3309)
#guard (mldsa87.pkSize, mldsa87.skSize, mldsa87.sigSize) == (2592, 4896, 4627)
#guard (mldsa44.gamma2, mldsa65.gamma2, mldsa44.gamma1, mldsa87.gamma1) == (95232, 261888, 131072, 524288)
#guard [mldsa44, mldsa65, mldsa87].all fun p => p.beta == p.tau * p.eta
#guard (mldsa44.w1Bits, mldsa65.w1Bits, mldsa44.zBits, mldsa65.zBits, mldsa44.etaBits, mldsa65.etaBits) == (6, 4, 18, 20, 3, 4)

/-! NTT -/
#guard zetas.size == 256 && zetas[1]! == 4808194 && zetas[128]! == 1753 && zetas[254]! == 1054478 && zetas[255]! == 7648983
#guard powMod zeta 256 == q - 1                       -- ζ is a primitive 512-th root of unity
#guard mulq 256 8347681 == 1                           -- f of Algorithm 42
private def samplePoly : Poly := Array.ofFn (n := 256) fun i => (i.val * i.val * 7919 + 12345 * i.val + 8380000) % q
#guard nttInv (ntt samplePoly) == samplePoly
#guard ntt (nttInv samplePoly) == samplePoly
#guard ntt (zeroPoly.set! 0 1) == Array.replicate 256 1
-- X · X^255 = X^256 = −1 in R_q
#guard nttInv (Poly.mulNTT (ntt (zeroPoly.set! 1 1)) (ntt (zeroPoly.set! 255 1))) == zeroPoly.set! 0 (q - 1)

/-! rounding (Algorithms 35–40) -/
#guard power2Round 0 == (0, 0)
#guard power2Round 4096 == (0, 4096)
#guard power2Round 4097 == (1, -4095)
#guard power2Round (q - 1) == (1023, 0)
#guard decompose 95232 0 == (0, 0)
#guard decompose 95232 95232 == (0, 95232)
#guard decompose 95232 95233 == (1, -95231)
#guard decompose 95232 (q - 1) == (0, -1)              -- wrap-around case r⁺ − r₀ = q − 1
#guard decompose 95232 (q - 95232) == (0, -95232)
#guard decompose 95232 (q - 95233) == (43, 95232)
#guard decompose 261888 (q - 1) == (0, -1)
#guard decompose 261888 (q - 261889) == (15, 261888)
#guard highBits 261888 523777 == 1 && lowBits 261888 523777 == 1
#guard useHint 95232 true 0 == 43                       -- r₀ = 0 ≤ 0 → (r₁ − 1) mod 44
#guard useHint 95232 true 1 == 1
#guard useHint 95232 true (q - 1) == 43
#guard useHint 261888 true (q - 261889) == 0           -- (15 + 1) mod 16
#guard useHint 95232 false 12345 == highBits 95232 12345
#guard makeHint 95232 1 95232 == true                   -- 95232 → 95233 crosses a boundary
#guard makeHint 95232 (q - 1) 95232 == false
#guard makeHint 95232 0 4242 == false
-- Lemma 1 of the Dilithium paper: UseHint(MakeHint(z, r), r) = HighBits(r + z) for small z
#guard (List.range 400).all fun i =>
  let r := (i * 7654321 + 95000) % q
  let z := ofInt ((i : Int) * 431 - 80000)
  useHint 95232 (makeHint 95232 z r) r == highBits 95232 (addq r z)

/-! packing (Algorithms 16–21) -/
private def small (m : Nat) : Poly := Array.ofFn (n := 256) fun i => (i.val * 37 + 11) % m
#guard (simpleBitPack (small 1024) 1023).size == 320
#guard simpleBitUnpack (simpleBitPack (small 1024) 1023) 1023 == small 1024
#guard simpleBitUnpack (simpleBitPack (small 44) 43) 43 == small 44
#guard (simpleBitPack ((zeroPoly.set! 0 1).set! 1 0x3ff) 1023).data.extract 0 3 == #[0x01, 0xfc, 0x0f]
private def signedPoly (a b : Nat) : Poly := Array.ofFn (n := 256) fun i => ofInt ((i.val * 29 % (a + b + 1) : Nat) - (a : Int))
#guard (bitPack (signedPoly 2 2) 2 2).size == 96
#guard bitUnpack (bitPack (signedPoly 2 2) 2 2) 2 2 == signedPoly 2 2
#guard bitUnpack (bitPack (signedPoly 4 4) 4 4) 4 4 == signedPoly 4 4
#guard bitUnpack (bitPack (signedPoly 4095 4096) 4095 4096) 4095 4096 == signedPoly 4095 4096
#guard bitUnpack (bitPack (signedPoly (2^17 - 1) (2^17)) (2^17 - 1) (2^17)) (2^17 - 1) (2^17) == signedPoly (2^17 - 1) (2^17)
#guard bitUnpack (bitPack (signedPoly (2^19 - 1) (2^19)) (2^19 - 1) (2^19)) (2^19 - 1) (2^19) == signedPoly (2^19 - 1) (2^19)
-- BitPack(w, 2, 2): coefficient 2 ↦ 0, −2 ↦ 4
#guard (bitPack ((zeroPoly.set! 0 2).set! 1 (q - 2)) 2 2).data.extract 0 2 == #[0xa0, 0x24]
private def hintVec : Array Poly :=
  #[(zeroPoly.set! 3 1).set! 200 1, zeroPoly, zeroPoly.set! 0 1, ((zeroPoly.set! 5 1).set! 6 1).set! 255 1]
#guard (hintBitPack 80 hintVec).data.extract 0 7 == #[3, 200, 0, 5, 6, 255, 0]
#guard (hintBitPack 80 hintVec).data.extract 80 84 == #[2, 2, 3, 6]
#guard hintBitUnpack 80 4 (hintBitPack 80 hintVec) == some hintVec
private def hintBytes (idx : List UInt8) (cnt : List UInt8) : ByteArray :=
  ⟨(idx ++ List.replicate (80 - idx.length) 0 ++ cnt).toArray⟩
#guard (hintBitUnpack 80 4 (hintBytes [3, 200, 0, 5, 6, 255] [2, 2, 3, 6])) == some hintVec
#guard (hintBitUnpack 80 4 (hintBytes [200, 3, 0, 5, 6, 255] [2, 2, 3, 6])).isNone   -- decreasing
#guard (hintBitUnpack 80 4 (hintBytes [3, 3, 0, 5, 6, 255] [2, 2, 3, 6])).isNone     -- repeated
#guard (hintBitUnpack 80 4 (hintBytes [3, 200, 0, 5, 6, 255, 9] [2, 2, 3, 6])).isNone -- non-zero padding
#guard (hintBitUnpack 80 4 (hintBytes [3, 200, 0, 5, 6, 255] [2, 1, 3, 6])).isNone   -- count decreases
#guard (hintBitUnpack 80 4 (hintBytes [3, 200, 0, 5, 6, 255] [2, 2, 3, 81])).isNone  -- count > ω
#guard (hintBitUnpack 80 4 (hintBytes [] [0, 0, 0, 0])) == some (Array.replicate 4 zeroPoly)

/-! sampling -/
#guard (sampleInBall 39 (rep 32 0)).size == 256 && countOnes #[sampleInBall 39 (rep 32 0)] == 39
#guard countOnes #[sampleInBall 60 (rep 64 7)] == 60 && infNorm (sampleInBall 60 (rep 64 7)) == 1
#guard coeffFromThreeBytes 0x00 0xe0 0xff == some (q - 1) && coeffFromThreeBytes 0x01 0xe0 0x7f == none
#guard coeffFromHalfByte 2 14 == some (q - 2) && coeffFromHalfByte 2 15 == none
#guard coeffFromHalfByte 4 8 == some (q - 4) && coeffFromHalfByte 4 9 == none && coeffFromHalfByte 4 0 == some 4
#guard (rejNTTPoly (rep 34 1)).size == 256 && (rejNTTPoly (rep 34 1)).all (· < q)
#guard infNorm (rejBoundedPoly 2 (rep 66 1)) == 2 && infNorm (rejBoundedPoly 4 (rep 66 1)) == 4

/-! message formatting -/
#guard (formatMessage (rep 3 9) hello).map (·.data) == some (#[0, 3, 9, 9, 9] ++ hello.data)
#guard (formatMessage (rep 255 9) hello).isSome && (formatMessage (rep 256 9) hello).isNone

/-! whole-scheme vectors -/
private def flip (b : ByteArray) (i : Nat) : ByteArray := b.set! i (b.get! i ^^^ 1)

/-- keygen from `seed`, deterministic signature over (ctx, msg), digests of pk and σ, and the
verifier's verdicts on σ, on σ with a bit flipped in c̃ / in the last byte, and on another M′. -/
private def run (p : Params) (seed ctx msg : ByteArray) : String × String × List Bool :=
  let (pk, sk) := keyGenInternal p seed
  let mp := (formatMessage ctx msg).getD ByteArray.empty
  match signInternal p sk mp (rep 32 0) with
  | none => ("", "", [])
  | some sig =>
    (dig pk, dig sig,
      [verifyInternal p pk mp sig, verifyInternal p pk mp (flip sig 0),
       verifyInternal p pk mp (flip sig (sig.size - 1)), verifyInternal p pk (mp.push 0) sig])

private def verdicts : List Bool := [true, false, false, false]

-- Wycheproof mldsa_*_sign_seed_test.json, first group, tcId 1 (no context)
#guard run mldsa44 (rep 32 0x2a) ByteArray.empty hello ==
  ("9c4fa4df25ba91314a29ff442622734bdb60bdd6e32da000ed543cc0715e74f6",
   "7dca6de4ca1abf8761289585631499b618ce72fd3addba68ea691166c389164a", verdicts)
#guard run mldsa65 (rep 32 0x2a) ByteArray.empty hello ==
  ("659d92d3c6412cab96a2de13921e6e28264326efab5964afee6490ef637e546a",
   "de2843386a78ddeda3ff34a030971626d848fc5441985a90cfacbd7ca8fc9284", verdicts)
#guard run mldsa87 (rep 32 0x2a) ByteArray.empty hello ==
  ("e7907af3c08aa30d071ea298485f4267aaade61b565936da4a84b850fa201a13",
   "948fc3d7e26addce37699e6b4a0c2f77e0ad5a9d4b6e8fe25de582b9323935a5", verdicts)
-- same file, tcId 3 (context "Context")
#guard (run mldsa44 (rep 32 0x2a) "Context".toUTF8 hello).2 ==
  ("26edfb4091fad0053ea77ae5f453e9360173b5e7b5ada61b85fac45c87e6a4c3", verdicts)

-- all-zero seed, message "abc", empty context: pk, sk, deterministic σ, hedged σ with rnd = a5…a5
private def run0 (p : Params) (hedged : Bool) : List String :=
  let (pk, sk) := keyGenInternal p (rep 32 0)
  let mp := (formatMessage ByteArray.empty "abc".toUTF8).getD ByteArray.empty
  [dig pk, dig sk, ((signInternal p sk mp (rep 32 0)).map dig).getD ""] ++
    (if hedged then [((signInternal p sk mp (rep 32 0xa5)).map dig).getD ""] else [])
#guard run0 mldsa44 true ==
  ["e6bc38a1c35f8cf08e440924c9037197bb87fdc4646b86da5a0589a326cc0c0d",
   "785d2456292e50354a5ac94f8c98903754f7b6afb77b61c0c5c1c090f78cbac0",
   "3a106a3787f2479f6039667c68c112ca32acc5ef5708f1e5b0b5e0de95d1ceb5",
   "2b097a3327c1ad08c38ed332f41feb1b01f8a7a8c3fc5c6d8852f40cb386c675"]
#guard run0 mldsa65 false ==
  ["119c7cbe3b3b489f2f542238e836be44eb550218e55ef7e4f570ae8752aa4624",
   "79c926cad990ad16d99c975e36f06a86a49d2398a95c6b11a017c766b5665d88",
   "d584bb4ec027904309761a4bb741579fd9814e0acaa02e8afe9e16b238fc4621"]
#guard run0 mldsa87 false ==
  ["4003a426a09cd5793161855421e3319f60e3dc367c7c458d5e5a6dfb02037379",
   "08f9bfc51be9147a14083a511d4a8af7ec0f780197f21f8e3430a4c27f24bce0",
   "985537525a020f86b81d466e87cd6b07347c9b24e699385fda11400622b36016"]

/-! malformed inputs -/
private def sk44 : ByteArray := (keyGenInternal mldsa44 (rep 32 0)).2
private def pk44 : ByteArray := (keyGenInternal mldsa44 (rep 32 0)).1
#guard (signInternal mldsa44 (sk44.extract 0 2559) hello (rep 32 0)).isNone
#guard (signInternal mldsa44 (sk44.push 0) hello (rep 32 0)).isNone
#guard (signInternal mldsa44 (sk44.set! 128 0xff) hello (rep 32 0)).isNone          -- s₁ coefficient 2 − 7
#guard (skDecodeRaw mldsa44 (sk44.set! 128 0xff)).isSome
#guard (signInternal mldsa44 sk44 hello (rep 31 0)).isNone
#guard verifyInternal mldsa44 (pk44.extract 0 1311) hello (rep 2420 0) == false
#guard verifyInternal mldsa44 pk44 hello (rep 2419 0) == false
#guard verifyInternal mldsa44 pk44 hello (rep 2420 0) == false
-- external μ gives the same signature and verdict as M′; the acceptance filter
-- `fun _ _ _ => true` is signInternal, and a filter on κ skips the first candidates
#guard
  let mu := computeMu mldsa44 pk44 hello
  match signInternal mldsa44 sk44 hello (rep 32 0),
        signMuInternal mldsa44 sk44 mu (rep 32 0),
        signInternalWith mldsa44 sk44 hello (rep 32 0) (fun _ _ _ => true),
        signInternalWith mldsa44 sk44 hello (rep 32 0) (fun kappa zn h => kappa ≥ 40 && zn < 2^17 - 78 && h ≤ 80) with
  | some s, some sMu, some sAll, some sLate =>
    s.data == sMu.data && s.data == sAll.data && s.data != sLate.data &&
      verifyMuInternal mldsa44 pk44 mu s && verifyInternal mldsa44 pk44 hello sLate
  | _, _, _, _ => false

end TinkVerif.Kat.Mldsa
