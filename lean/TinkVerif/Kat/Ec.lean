/-
  Known-answer tests for `TinkVerif.Prim.Ec`. RFC 6979 A.2.5 (P-256/SHA-256 "sample") plus vectors
  generated with Go 1.25 `crypto/ecdsa`, `crypto/ecdh`, `crypto/elliptic` (part of a 28k-line
  cross-check that also covered the Wycheproof ECDSA/ECDH sets). A false `#guard` fails the build.
-/
import TinkVerif.Prim.Ec
import TinkVerif.Prim.Hash

namespace TinkVerif.Prim.KatEc
open TinkVerif TinkVerif.Prim

private def hx (b : ByteArray) : String := tokOfBytes b.toList
private def un (s : String) : ByteArray := ((bytesOfTok? s).getD []).toByteArray
private def nat (s : String) : Nat := os2ip (un s)

/-! ### helpers -/
#guard os2ip (un "0102ff") == 0x0102ff
#guard hx (i2osp 0x0102ff 5) == "00000102ff"
#guard os2ipLE (un "0102ff") == 0xff0201
#guard hx (i2ospLE 0x0102ff 5) == "ff02010000"
#guard modPow 4 13 497 == 445
#guard modPow 5 0 7 == 1 && modPow 5 3 1 == 0
#guard modInv 3 11 == 4 && modInv 6 9 == 0 && modInv 0 7 == 0
#guard (modInv 0x1234567 p256.n) * 0x1234567 % p256.n == 1

/-! ### curve parameters -/
#guard [p256, p384, p521].all fun c =>
  c.onCurve c.gx c.gy && c.a + 3 == c.p && c.p % 4 == 3 && c.byteLen == (natBitLen c.p + 7) / 8
#guard p256.baseMul p256.n == .infinity
#guard p256.baseMul (p256.n + 1) == p256.base
#guard p256.add p256.base (p256.neg p256.base) == .infinity
#guard p256.add p256.base p256.base == p256.double p256.base
#guard p256.add p256.base .infinity == p256.base
#guard p384.mul 5 p384.base == p384.add (p384.double (p384.double p384.base)) p384.base
#guard !p256.onCurve p256.gx (p256.gy + 1)
#guard !p256.onCurve (p256.gx + p256.p) p256.gy

/-! ### RFC 6979 A.2.5: P-256, SHA-256, message "sample" -/
private def qx6979 := 0x60FED4BA255A9D31C961EB74C6356D68C049B8923B61FA6CE669622E60F29FB6
private def qy6979 := 0x7903FE1008B8BC99A41AE9E95628BC64F2F1B20C2D7E9F5177A3C294D4462299
private def r6979 := 0xEFD48B2AACB6A8FD1140DD9CD45E81D69D2C877B56AAF991C34D0EA84EAF3716
private def s6979 := 0xF7CB1C942D657C41D436C7A1B6E29F65F3E900DBB9AFF4064DC4AB2F843ACDA8
#guard p256.baseMul 0xC9AFA9D845BA75166B5C215767B1D6934E50C3DB36E89B127B8A622B120F6721 == .affine qx6979 qy6979
#guard ecdsaVerifyRaw p256 qx6979 qy6979 (sha256 "sample".toUTF8) r6979 s6979
#guard ecdsaVerifyRaw p256 qx6979 qy6979 (sha256 "sample".toUTF8) r6979 (p256.n - s6979)   -- malleable twin
#guard !ecdsaVerifyRaw p256 qx6979 qy6979 (sha256 "sample2".toUTF8) r6979 s6979
-- range checks (cheap: rejected before any curve arithmetic)
#guard !ecdsaVerifyRaw p256 qx6979 qy6979 (sha256 "sample".toUTF8) 0 s6979
#guard !ecdsaVerifyRaw p256 qx6979 qy6979 (sha256 "sample".toUTF8) r6979 0
#guard !ecdsaVerifyRaw p256 qx6979 qy6979 (sha256 "sample".toUTF8) p256.n s6979
#guard !ecdsaVerifyRaw p256 qx6979 qy6979 (sha256 "sample".toUTF8) r6979 (s6979 + p256.n)
#guard !ecdsaVerifyRaw p256 qx6979 (qy6979 + 1) (sha256 "sample".toUTF8) r6979 s6979

/-! ### Go-generated vectors -/
-- P-256 key with a 64-byte (SHA-512) digest: only the leftmost 256 bits count
private def d512 := un "7981ca81f7965aaf25b6d57b2b6d51731d2d211276bb974da24e990c5513a3cfbad46b8c8c0750c733cece7012e39ca605a604dab71f739114064b6e04d4b403"
#guard ecdsaDigestToNat p256.n d512 == nat "7981ca81f7965aaf25b6d57b2b6d51731d2d211276bb974da24e990c5513a3cf"
#guard ecdsaVerifyRaw p256
  (nat "fb73757005497359a5a828324a3f1aee16805952c8830ae5b03d3999bc0da87f")
  (nat "6a967da0c034095da9cfcff7561aaccf085fd15d450228b303b5e8ff41816a00") d512
  (nat "d25c87bc828149eabe7ac2b6e61fd95738fbf5f8bf1fc13a53092ec9df5dc373")
  (nat "f60d50b04608a0d51113cefdd813a02bde2633aa44ef72a72742b9d3890c8b4d")
-- P-384 / SHA-384
#guard ecdsaVerifyRaw p384
  (nat "9b895f8f306174cd443cd93c8c25e7f05e3bb25f529447029c2cd8c1093f5853dee064f857b06e4e86b011e5879fdce3")
  (nat "79f6deca0323196ba6c4df8ed0af4b72029d804afb7e33c79809663565ac67220e9a15f9d845855ea4ff8d1df5f766d9")
  (un "feb46e582137519372f4109969897211d135766bd3de3116e0ea891777bc117c2883b6bbc595bcbe8d02866821b606ee")
  (nat "fe545ec91f6290cc4053813abf463c530a4bc1bd7cf23d4ff141c9f46a7d646704bcf23b6a0fee820aa337b68a0f627b")
  (nat "b184e91ceb53b006c6055c0ed2f5ed196a62962619955793c437f390bf3fe99b4ee93318b0184fe79d5b0e8efc62947d")
-- P-521 / SHA-512 (whole 512-bit digest is used)
#guard ecdsaVerifyRaw p521
  (nat "01a701d2f1e83ceb75a7fe1315420806b4694bae7452b0d3c0be45e84a3bbbd8669833a4a1a990a3090a897942902948014b095586397e563728dd526005604e2963")
  (nat "0145e6b79cd94391f2311b1c76ccefecc07c452a05433619292070f7f52e2d4980268bc09bc009b5b98d6c178c1f6fa3014cc7cc999f9a1863904d93b31637e304c8")
  (un "cf83e1357eefb8bdf1542850d66d8007d620e4050b5715dc83f4a921d36ce9ce47d0d13c5d85f2b0ff8318d2877eec2f63b931bd47417a81a538327af927da3e")
  (nat "66cf8ddff4f786dc27a485fd4c27f9eb2b6a9c3651243214f213580e075429b461ec6d0f9735f1d56e6cdc28375332f058b30f5204a033497149f2f1ee9478e084")
  (nat "77b94644276fe74670c2a169fb1d55d88521e22e8bf173fe7609a0e187b8e7642fa69a5bc2602e96cc8c61eaf208360a3bdd434b9f0b5a3ec6580afc486b81b02f")
-- digest longer than 521 bits: 66 bytes are kept and shifted right by 7
#guard ecdsaDigestToNat p521.n (⟨Array.replicate 80 0xff⟩) == 2 ^ 521 - 1
#guard ecdsaDigestToNat p521.n (un "80") == 0x80 && ecdsaDigestToNat p256.n ByteArray.empty == 0

/-! ### ECDH and point encodings -/
private def pubB := un "04c9f965f18ad13f69ee242a3e38098c0f8626f68358cf154f3fe1b30fff8ff519e9ee8a811e1724211d9ac61916d5b2133a971de55b7dc7a3234050f3f8fe6f97"
#guard (match p256.pointDecode pubB with
  | some (.affine x y) =>
    (ecdh p256 (nat "fc41d5a81ea54b83559bbbd8004c4e6c708c74f65f65fabab384711eae202d33") x y).map hx
  | _ => none) == some "5cf14713ba228e82f9918149f3f9787f59e4f4058084c348308b812d970fa6ca"
#guard (ecdh p256 5 p256.gx (p256.gy + 1)).isNone          -- off curve
#guard (ecdh p256 p256.n p256.gx p256.gy).isNone           -- n·G = ∞
#guard (p256.pointDecode (pubB.set! 64 0)).isNone
#guard (p256.pointDecode (un "00")).isNone && (p256.pointDecode ByteArray.empty).isNone
#guard (p384.pointDecode (un "0286ab06a29b12ec99dade0ea0849b68521e59946a45b09e40ba544f6a5387c755bee9235adaebdcdcddeb3800ff7f4f40")).map p384.pointEncodeUncompressed |>.map hx
  |>.isEqSome "0486ab06a29b12ec99dade0ea0849b68521e59946a45b09e40ba544f6a5387c755bee9235adaebdcdcddeb3800ff7f4f40f1118df101062fac9ef6c0d7092702b97ca3860b2f8c6fc8fbc44e09c774b84baa7daafe98bc831b10f2c945f156221c"
-- x with no point on the curve
#guard (p256.pointDecode (un "032c3d7226c0c77badafa7e91e71c9d95896fa879a6850dd6bdae106a142b76b82")).isNone
#guard p256.decompress p256.gx true == some p256.base && p256.decompress p256.gx false == some (p256.neg p256.base)
#guard (p256.decompress p256.p false).isNone
#guard hx (p256.pointEncodeCompressed p256.base) == "036b17d1f2e12c4247f8bce6e563a440f277037d812deb33a0f4a13945d898c296"
#guard (ecPublicFromPrivate p256 1).map hx == some ("04" ++ hx (i2osp p256.gx 32) ++ hx (i2osp p256.gy 32))
#guard (ecPublicFromPrivate p256 0).isNone && (ecPublicFromPrivate p256 p256.n).isNone

end TinkVerif.Prim.KatEc
