/-
  Known-answer tests for `TinkVerif.Prim.Aes`: FIPS-197 Appendix B / C vectors (all key sizes,
  both directions), S-box spot checks, and random vectors cross-checked against Go `crypto/aes`.
  Every `#guard` fails the build when false.
-/
import TinkVerif.Prim.Aes

namespace TinkVerif.Kat.Aes
open TinkVerif TinkVerif.Prim

def hx (s : String) : ByteArray := Bytes.toByteArray ((bytesOfTok? s).getD [])
def toHex (b : ByteArray) : String := hexOfBytes b.toList

def enc (key pt : String) : String :=
  match AesKey.ofBytes? (hx key) with
  | some k => toHex (k.encryptBlock (hx pt))
  | none => "bad key"

def dec (key ct : String) : String :=
  match AesKey.ofBytes? (hx key) with
  | some k => toHex (k.decryptBlock (hx ct))
  | none => "bad key"

-- S-box spot checks (FIPS-197 Figure 7 / Figure 14)
#guard AesImpl.sbox[0x00]! == 0x63
#guard AesImpl.sbox[0x01]! == 0x7c
#guard AesImpl.sbox[0x53]! == 0xed
#guard AesImpl.sbox[0xff]! == 0x16
#guard AesImpl.invSbox[0x00]! == 0x52
#guard AesImpl.invSbox[0xed]! == 0x53

-- key sizes
#guard (AesKey.ofBytes? (hx "00")).isNone
#guard (AesKey.ofBytes? (hx "000102030405060708090a0b0c0d0e")).isNone
#guard (AesKey.ofBytes? (hx "000102030405060708090a0b0c0d0e0f10")).isNone
#guard (AesKey.ofBytes? ByteArray.empty).isNone

-- FIPS-197 Appendix A.1: last round-key word of the AES-128 expansion
#guard ((AesKey.ofBytes? (hx "2b7e151628aed2a6abf7158809cf4f3c")).map (·.enc[43]!)) == some 0xb6630ca6
-- FIPS-197 Appendix A.2 / A.3
#guard ((AesKey.ofBytes? (hx "8e73b0f7da0e6452c810f32b809079e562f8ead2522c6b7b")).map (·.enc[51]!)) == some 0x01002202
#guard ((AesKey.ofBytes? (hx "603deb1015ca71be2b73aef0857d77811f352c073b6108d72d9810a30914dff4")).map (·.enc[59]!)) == some 0x706c631e

-- FIPS-197 Appendix B
#guard enc "2b7e151628aed2a6abf7158809cf4f3c" "3243f6a8885a308d313198a2e0370734" == "3925841d02dc09fbdc118597196a0b32"
#guard dec "2b7e151628aed2a6abf7158809cf4f3c" "3925841d02dc09fbdc118597196a0b32" == "3243f6a8885a308d313198a2e0370734"

-- FIPS-197 Appendix C.1 (AES-128)
#guard enc "000102030405060708090a0b0c0d0e0f" "00112233445566778899aabbccddeeff" == "69c4e0d86a7b0430d8cdb78070b4c55a"
#guard dec "000102030405060708090a0b0c0d0e0f" "69c4e0d86a7b0430d8cdb78070b4c55a" == "00112233445566778899aabbccddeeff"
-- FIPS-197 Appendix C.2 (AES-192)
#guard enc "000102030405060708090a0b0c0d0e0f1011121314151617" "00112233445566778899aabbccddeeff" == "dda97ca4864cdfe06eaf70a0ec0d7191"
#guard dec "000102030405060708090a0b0c0d0e0f1011121314151617" "dda97ca4864cdfe06eaf70a0ec0d7191" == "00112233445566778899aabbccddeeff"
-- FIPS-197 Appendix C.3 (AES-256)
#guard enc "000102030405060708090a0b0c0d0e0f101112131415161718191a1b1c1d1e1f" "00112233445566778899aabbccddeeff" == "8ea2b7ca516745bfeafc49904b496089"
#guard dec "000102030405060708090a0b0c0d0e0f101112131415161718191a1b1c1d1e1f" "8ea2b7ca516745bfeafc49904b496089" == "00112233445566778899aabbccddeeff"

-- NIST SP 800-38A F.1.1 / F.1.3 / F.1.5 (ECB, first block)
#guard enc "2b7e151628aed2a6abf7158809cf4f3c" "6bc1bee22e409f96e93d7e117393172a" == "3ad77bb40d7a3660a89ecaf32466ef97"
#guard enc "8e73b0f7da0e6452c810f32b809079e562f8ead2522c6b7b" "6bc1bee22e409f96e93d7e117393172a" == "bd334f1d6e45f25ff712a214571fa5cc"
#guard enc "603deb1015ca71be2b73aef0857d77811f352c073b6108d72d9810a30914dff4" "6bc1bee22e409f96e93d7e117393172a" == "f3eed1bdb5d2a03c064b5a7e3db181f8"

-- all-zero key / block (GCM hash subkey of NIST GCM test case 1)
#guard enc "00000000000000000000000000000000" "00000000000000000000000000000000" == "66e94bd4ef8a2c3b884cfa59ca342b2e"

-- random vectors cross-checked against Go crypto/aes (key, plaintext, ciphertext)
#guard enc "8dcafd80c4743a6c8860e732f6fc260c" "380f0a15038d933ffbf5a2d05596b5bc" == "0385cf2a6531283e43551ee954de04c9"
#guard dec "8dcafd80c4743a6c8860e732f6fc260c" "0385cf2a6531283e43551ee954de04c9" == "380f0a15038d933ffbf5a2d05596b5bc"
#guard enc "c14f15d1dd2170f1b8f30c3bf6a7f51f" "c5e2775080f613dcc303efa14b8c5cf8" == "8cc70aed92a50590efe93a6fff1798a7"
#guard dec "c14f15d1dd2170f1b8f30c3bf6a7f51f" "8cc70aed92a50590efe93a6fff1798a7" == "c5e2775080f613dcc303efa14b8c5cf8"
#guard enc "b8f4066c7d4b84eec550010cca586512d1e2dcef1514ff04" "881ce5a0f525820a1711ffd7769472ba" == "6c91dbd8ec50d503a498d1070cefc806"
#guard dec "b8f4066c7d4b84eec550010cca586512d1e2dcef1514ff04" "6c91dbd8ec50d503a498d1070cefc806" == "881ce5a0f525820a1711ffd7769472ba"
#guard enc "475468457c7cfcbee7b8f219d987081680b3484d7b8039b0" "8a9201beb556cc84648c97e5833b228a" == "6dd62aed0c5aaad479211abb089c8252"
#guard dec "475468457c7cfcbee7b8f219d987081680b3484d7b8039b0" "6dd62aed0c5aaad479211abb089c8252" == "8a9201beb556cc84648c97e5833b228a"
#guard enc "33a2d53999fd8c1ef21e4b5ce204946ca932f8b57e090c1d222116c46f378e56" "16b93e795654a33011181b689520c645" == "6e9e170d7478812f124eb29ad181973e"
#guard dec "33a2d53999fd8c1ef21e4b5ce204946ca932f8b57e090c1d222116c46f378e56" "6e9e170d7478812f124eb29ad181973e" == "16b93e795654a33011181b689520c645"
#guard enc "c7e0a10d143e6ee843629ea6c1f0967870875ed20a227fa792d0c73ba5bcf197" "cec19aa3654ac7ef3e740885a6af92e6" == "433807c8e0aefd1975209c134ef0a383"
#guard dec "c7e0a10d143e6ee843629ea6c1f0967870875ed20a227fa792d0c73ba5bcf197" "433807c8e0aefd1975209c134ef0a383" == "cec19aa3654ac7ef3e740885a6af92e6"

end TinkVerif.Kat.Aes
