/-
  Ties the abstract SLH-DSA model `TinkVerif/Model/SlhStruct.lean` (about which
  `Props/C16Struct.lean` proves the FIPS 205 structural laws for every hash) to the executable
  reference `TinkVerif/Prim/Slhdsa.lean` (which the driver compares with tink-go): the abstract
  definitions, instantiated with the REAL tweakable hashes of a parameter set, must return
  byte-for-byte what the reference returns.  Every check is a `#guard`.

  The tree-shaped functions are compared on a reduced-height parameter set (`n = 16`, `lg_w = 4`,
  hence the real `len = 35` WOTS⁺ chains, real SHA2 / SHAKE hashes, but `h = 4, d = 2, a = 3, k = 2`)
  so that the interpreter finishes in seconds; the functions that do not build trees are also
  compared on approved parameter sets.
-/
import TinkVerif.Model.SlhStruct
import TinkVerif.Prim.Slhdsa

namespace TinkVerif.Kat.SlhStruct
open TinkVerif TinkVerif.Prim TinkVerif.SlhStruct
open TinkVerif.Prim.Slhdsa (Params Ctx toByte)

private def ba (b : Bytes) : ByteArray := Bytes.toByteArray b
private def hx (s : String) : Bytes := (bytesOfTok? s).getD []

/-- the 32-byte form of the address record (§4.2): layer(4) ‖ tree(12) ‖ type(4) ‖ w1(4) ‖ w2(4) ‖ w3(4) -/
def enc (a : Adrs) : ByteArray :=
  toByte a.layer 4 ++ toByte a.tree 12 ++ toByte a.typ 4 ++ toByte a.w1 4 ++ toByte a.w2 4 ++ toByte a.w3 4

/-- the abstract hash record instantiated with the real functions of a reference context -/
def thOf (c : Ctx) : TH where
  PRF a s := (c.PRF (ba s) (enc a)).toList
  F a x := (c.F (enc a) (ba x)).toList
  H a x := (c.H (enc a) (ba x)).toList
  T a x := (c.T (enc a) (ba x)).toList

def wpOf (p : Params) : WP := { lgw := p.lgw, len1 := p.len1, len2 := p.len2 }
def spOf (p : Params) : SP := { wp := wpOf p, h := p.h, d := p.d, hp := p.hp, a := p.a, k := p.k }

private def flat (l : List Bytes) : Bytes := l.flatten
private def flatX (s : XmssSig) : Bytes := flat s.sig ++ flat s.auth
private def flatF (l : List ForsPart) : Bytes := (l.map fun q => q.sk ++ flat q.auth).flatten
private def flatHt (l : List XmssSig) : Bytes := (l.map flatX).flatten

/-- cut a byte string into `cnt` pieces of `n` bytes -/
private def cut (n cnt : Nat) (b : Bytes) : List Bytes :=
  (List.range cnt).map fun i => (b.drop (i * n)).take n
private def cutX (p : Params) (b : Bytes) : XmssSig :=
  { sig := cut p.n p.len b, auth := cut p.n p.hp (b.drop (p.len * p.n)) }

/-! ### the address record is the 32-byte ADRS with the reference's setters -/
private def aRec : Adrs :=
  (((((Adrs.zero.setLayerAddress 0x01020304).setTreeAddress 0x05060708090a0b0c0d0e0f10).setTypeAndClear
    0x11121314).setKeyPairAddress 0x15161718).setChainAddress 0x191a1b1c).setHashAddress 0x1d1e1f20
private def aRef : ByteArray :=
  Slhdsa.setHashAddress (Slhdsa.setChainAddress (Slhdsa.setKeyPairAddress (Slhdsa.setTypeAndClear
    (Slhdsa.setTreeAddress (Slhdsa.setLayerAddress Slhdsa.adrsZero 0x01020304) 0x05060708090a0b0c0d0e0f10)
    0x11121314) 0x15161718) 0x191a1b1c) 0x1d1e1f20
#guard enc Adrs.zero == Slhdsa.adrsZero
#guard enc aRec == aRef
#guard enc (aRec.setTreeHeight 7) == Slhdsa.setTreeHeight aRef 7
#guard enc (aRec.setTreeIndex 9) == Slhdsa.setTreeIndex aRef 9
#guard enc (aRec.setTypeAndClear FORS_PRF) == Slhdsa.setTypeAndClear aRef Slhdsa.FORS_PRF
#guard aRec.getKeyPairAddress == Slhdsa.getKeyPairAddress aRef
#guard aRec.getTreeIndex == Slhdsa.getTreeIndex aRef
#guard [WOTS_HASH, WOTS_PK, TREE, FORS_TREE, FORS_ROOTS, WOTS_PRF, FORS_PRF] ==
  [Slhdsa.WOTS_HASH, Slhdsa.WOTS_PK, Slhdsa.TREE, Slhdsa.FORS_TREE, Slhdsa.FORS_ROOTS, Slhdsa.WOTS_PRF,
   Slhdsa.FORS_PRF]

/-! ### digits: `base2b` (the Go-shaped loop of `Model/Slh.lean`), checksum, `wotsDigits` -/
private def msg16 : Bytes := hx "0123456789abcdef0f1e2d3c4b5a6978"
private def msg32 : Bytes := msg16 ++ hx "ffeeddccbbaa99887766554433221100"
#guard Slh.base2b msg16 4 32 == (Slhdsa.base2b (ba msg16) 4 32).toList
#guard Slh.base2b msg32 14 17 == (Slhdsa.base2b (ba msg32) 14 17).toList
#guard Slh.base2b msg32 9 28 == (Slhdsa.base2b (ba msg32) 9 28).toList
#guard Slhdsa.allParams.all fun p =>
  wotsDigits (wpOf p) (msg32.take p.n) == (Slhdsa.wotsDigits p (ba (msg32.take p.n))).toList
#guard Slhdsa.allParams.all fun p =>
  checksumDigits (wpOf p) (List.replicate p.len1 0) ==
    (Slhdsa.wotsChecksumDigits p (Array.replicate p.len1 0)).toList
#guard Slhdsa.allParams.all fun p =>
  let md := (msg32 ++ msg32).take p.mdLen
  (digestSplit (spOf p) (msg32 ++ msg32)).1 == (Slhdsa.digestSplit p (ba (msg32 ++ msg32))).1.toList &&
  (digestSplit (spOf p) (msg32 ++ msg32)).2 == (Slhdsa.digestSplit p (ba (msg32 ++ msg32))).2 &&
  Slh.base2b md p.a p.k == (Slhdsa.base2b (ba md) p.a p.k).toList

/-! ### reduced-height parameter sets with the real hashes -/
private def toySha2 : Params :=
  { name := "toy-sha2", isShake := false, n := 16, h := 4, d := 2, hp := 2, a := 3, k := 2, lgw := 4, m := 3 }
private def toyShake : Params := { toySha2 with name := "toy-shake", isShake := true }
#guard toySha2.mDerived == toySha2.m && toySha2.len == 35 && toySha2.h == toySha2.d * toySha2.hp

private def pkSeed : Bytes := hx "a0a1a2a3a4a5a6a7a8a9aaabacadaeaf"
private def skSeed : Bytes := hx "b0b1b2b3b4b5b6b7b8b9babbbcbdbebf"
private def skPrf : Bytes := hx "c0c1c2c3c4c5c6c7c8c9cacbcccdcecf"
private def aW : Adrs := ((Adrs.zero.setLayerAddress 1).setTreeAddress 2).setKeyPairAddress 3
private def aT : Adrs := (Adrs.zero.setLayerAddress 1).setTreeAddress 2
private def aF : Adrs := ((Adrs.zero.setTreeAddress 5).setTypeAndClear FORS_TREE).setKeyPairAddress 2

/-! chain (Algorithm 5) on approved parameter sets -/
private def chainOk (p : Params) : Bool :=
  let c := p.ctx (ba (pkSeed.take p.n ++ pkSeed.take (p.n - 16)))
  let x := msg32.take p.n
  chain (thOf c).F x 3 5 (aW.setChainAddress 4) == (Slhdsa.chain c (ba x) 3 5 (enc (aW.setChainAddress 4))).toList &&
  chain (thOf c).F x 0 0 aW == (Slhdsa.chain c (ba x) 0 0 (enc aW)).toList
#guard chainOk Slhdsa.SHA2_128s && chainOk Slhdsa.SHAKE_192f && chainOk Slhdsa.SHA2_256s

/-- WOTS⁺, XMSS, FORS, hypertree against the reference, for one parameter set -/
private def treesOk (p : Params) : Bool :=
  let c := p.ctx (ba pkSeed)
  let th := thOf c
  let wp := wpOf p
  let sk := ba skSeed
  -- WOTS⁺ (Algorithms 6–8)
  let wsig := wotsSign th wp msg16 skSeed aW
  let wsigRef := Slhdsa.wotsSign c (ba msg16) sk (enc aW)
  let w1 := wotsPkGen th wp skSeed aW == (Slhdsa.wotsPkGen c sk (enc aW)).toList
  let w2 := flat wsig == wsigRef.toList
  let w3 := wotsPkFromSig th wp wsig msg16 aW == (Slhdsa.wotsPkFromSig c wsigRef (ba msg16) (enc aW)).toList
  let w4 := cut p.n p.len wsigRef.toList == wsig
  -- a signature for another message is also mapped identically (no genuine-signature assumption)
  let w5 := wotsPkFromSig th wp wsig msg16.reverse aW
    == (Slhdsa.wotsPkFromSig c wsigRef (ba msg16.reverse) (enc aW)).toList
  -- XMSS (Algorithms 9–11)
  let x1 := xmssNode th wp skSeed 1 1 aT == (Slhdsa.xmssNode c sk 1 1 (enc aT)).toList
  let xsig := xmssSign th wp p.hp msg16 skSeed 2 aT
  let xsigRef := Slhdsa.xmssSign c (ba msg16) sk 2 (enc aT)
  let x2 := flatX xsig == xsigRef.toList
  let x3 := xmssPkFromSig th wp p.hp 2 xsig msg16 aT == (Slhdsa.xmssPkFromSig c 2 xsigRef (ba msg16) (enc aT)).toList
  let x4 := xmssPkFromSig th wp p.hp 1 xsig msg16 aT == (Slhdsa.xmssPkFromSig c 1 xsigRef (ba msg16) (enc aT)).toList
  -- FORS (Algorithms 14–17)
  let md := hx "b7"
  let f1 := forsNode th skSeed 5 2 aF == (Slhdsa.forsNode c sk 5 2 (enc aF)).toList
  let fsig := forsSign th p.a p.k md skSeed aF
  let fsigRef := Slhdsa.forsSign c (ba md) sk (enc aF)
  let f2 := flatF fsig == fsigRef.toList
  let f3 := forsPkFromSig th p.a p.k fsig md aF == (Slhdsa.forsPkFromSig c fsigRef (ba md) (enc aF)).toList
  let f4 := forsPkFromSig th p.a p.k fsig (hx "4e") aF == (Slhdsa.forsPkFromSig c fsigRef (ba (hx "4e")) (enc aF)).toList
  let f5 := forsPk th p.a p.k skSeed aF == (Slhdsa.forsPkFromSig c fsigRef (ba md) (enc aF)).toList
  -- hypertree (Algorithms 12–13)
  let hsig := htSign th wp p.hp p.d msg16 skSeed 3 1
  let hsigRef := Slhdsa.htSign c (ba msg16) sk 3 1
  let root := (Slhdsa.keyGenInternal p sk (ba skPrf) (ba pkSeed)).2.extract p.n (2 * p.n)
  let h1 := flatHt hsig == hsigRef.toList
  let h2 := htVerify th wp p.hp p.d msg16 hsig 3 1 root.toList && Slhdsa.htVerify c (ba msg16) hsigRef 3 1 root
  let h3 := !htVerify th wp p.hp p.d msg16 hsig 2 1 root.toList && !Slhdsa.htVerify c (ba msg16) hsigRef 2 1 root
  let h4 := pkRoot th (spOf p) skSeed == root.toList
  w1 && w2 && w3 && w4 && w5 && x1 && x2 && x3 && x4 && f1 && f2 && f3 && f4 && f5 && h1 && h2 && h3 && h4

#guard treesOk toySha2

/-- `slh_sign_internal` / `slh_verify_internal` (Algorithms 19–20) against the reference -/
private def slhOk (p : Params) : Bool :=
  let c := p.ctx (ba pkSeed)
  let th := thOf c
  let hf := p.hashFamily
  let Hmsg : Bytes → Bytes → Bytes → Bytes := fun r root m => (hf.Hmsg (ba r) (ba pkSeed) (ba root) (ba m)).toList
  let PRFmsg : Bytes → Bytes → Bytes → Bytes := fun k o m => (hf.PRFmsg (ba k) (ba o) (ba m)).toList
  let (skRef, pkRef) := Slhdsa.keyGenInternal p (ba skSeed) (ba skPrf) (ba pkSeed)
  let root := pkRoot th (spOf p) skSeed
  let m := hx "48656c6c6f"
  let sig := slhSign th Hmsg PRFmsg (spOf p) m skSeed skPrf root pkSeed
  let sigRef := Slhdsa.signInternal p (ba m) skRef (ba pkSeed)
  let s1 := sig.r ++ flatF sig.sigFors ++ flatHt sig.sigHt == sigRef.toList
  let s2 := sigRef.size == p.sigSize
  let s3 := slhVerify th Hmsg (spOf p) m sig root && Slhdsa.verifyInternal p (ba m) sigRef pkRef
  let s4 := !slhVerify th Hmsg (spOf p) (hx "48656c6c6e") sig root
    && !Slhdsa.verifyInternal p (ba (hx "48656c6c6e")) sigRef pkRef
  s1 && s2 && s3 && s4

#guard slhOk toySha2
#guard slhOk toyShake   -- byte-identical signature: covers every component above under SHAKE as well

end TinkVerif.Kat.SlhStruct
