/-
  Cross-checks of the proved `List UInt8` DER model (`TinkVerif.DerList`, theorems in
  `Props/C03Der.lean`) against the executable `ByteArray` reference `TinkVerif.Prim.Der` on
  hand-picked byte strings: valid encodings and every malformation class. The driver additionally
  compares both on every `der` / `derenc` line of a C03 run. A false `#guard` fails the build.
-/
import TinkVerif.Model.DerList
import TinkVerif.Prim.Der

namespace TinkVerif.KatDerList
open TinkVerif TinkVerif.Prim TinkVerif.DerList

private def un (s : String) : Bytes := (bytesOfTok? s).getD []
/-- both decoders agree on `s`, and the common verdict is `v` -/
private def both (s : String) (v : Option (Nat × Nat)) : Bool :=
  decSig (un s) == v && derDecodeEcdsaStrict (un s).toByteArray == v
private def encAgree (r s : Nat) : Bool :=
  (derEncodeEcdsa r s).toList == encSig r s &&
    decSig (encSig r s) == some (r, s) &&
    derDecodeEcdsaStrict (encSig r s).toByteArray == some (r, s)

/-! ### encoders agree (short form, 0x81, 0x82, 0x83 lengths; sign octet boundary) -/
#guard tokOfBytes (encSig 1 1) == "3006020101020101"
#guard tokOfBytes (encSig 0 0) == "3006020100020100"
#guard tokOfBytes (encSig 127 128) == "300702017f02020080"
#guard tokOfBytes (encSig 255 256) == "3008020200ff02020100"
#guard tokOfBytes (encSig 0x7fff 0x8000) == "300902027fff0203008000"
#guard tokOfBytes ((encSig (2 ^ 520) (2 ^ 520)).take 3) == "308188"
#guard tokOfBytes ((encSig (2 ^ 1015) (2 ^ 1015)).take 4) == "30820106"
#guard tokOfBytes ((encInt (2 ^ 1015)).take 4) == "02818000"
#guard [(0, 0), (1, 1), (0, 1), (127, 128), (128, 127), (255, 256), (65535, 65536),
        (2 ^ 255, 2 ^ 256 - 1), (2 ^ 256 - 1, 2 ^ 255 - 1), (2 ^ 383, 2 ^ 384 - 1),
        (2 ^ 520, 2 ^ 521 - 1), (2 ^ 503 - 1, 2 ^ 503), (2 ^ 1015, 2 ^ 1016 - 1),
        (2 ^ 1007 - 1, 2 ^ 1007), (2 ^ 2048, 5), (5, 2 ^ 2048), (2 ^ 20000, 1)].all
  fun (r, s) => encAgree r s

/-! ### accepted -/
#guard both "3006020101020101" (some (1, 1))
#guard both "3006020100020100" (some (0, 0))
#guard both "3008020200ff02020080" (some (255, 128))
#guard both "300602017f02017f" (some (127, 127))
#guard both "300802020100020200ff" (some (256, 255))

/-! ### rejected: framing -/
#guard both "-" none                                   -- empty input
#guard both "30" none
#guard both "3000" none                                -- empty SEQUENCE
#guard both "300602010102010100" none                  -- trailing byte after the SEQUENCE
#guard both "300702010102010100" none                  -- trailing byte inside the SEQUENCE
#guard both "3008020101020101" none                    -- declared length exceeds input
#guard both "30050201010201" none                      -- truncated
#guard both "300602010102" none                        -- truncated in the second header
#guard both "3003020101" none                          -- only one INTEGER
#guard both "3009020101020101020101" none              -- three INTEGERs
#guard both "3006020201020101" none                    -- inner length runs into the next element
#guard both "30060201010205" none                      -- inner length exceeds the SEQUENCE

/-! ### rejected: INTEGER contents -/
#guard both "30060201ff020101" none                    -- negative r
#guard both "3006020101020180" none                    -- negative s
#guard both "3007020200800201" none                    -- truncated after a valid r
#guard both "30050200020101" none                      -- empty INTEGER r
#guard both "30050201010200" none                      -- empty INTEGER s
#guard both "300702020001020101" none                  -- 00 01
#guard both "30070202007f020101" none                  -- 00 7f
#guard both "300702020000020101" none                  -- 00 00
#guard both "30070201010202007f" none                  -- 00 7f in s
#guard both "300802030000800201 01" none
#guard both "30080203000080020101" none                -- 00 00 80
#guard both "30070202ff80020101" none                  -- non-minimal negative
#guard both "30070202ffff020101" none

/-! ### rejected: length octets -/
#guard both "308106020101020101" none                  -- long form below 128 (outer)
#guard both "30820006020101020101" none                -- leading zero octet in the length
#guard both "30800201010201010000" none                -- indefinite length
#guard both "30ff0201010201010000" none                -- reserved 0xff
#guard both "300702810101020101" none                  -- long form below 128 (INTEGER r)
#guard both "300702010102810101" none                  -- long form below 128 (INTEGER s)
#guard both "30080282000101020101" none                -- 0x82 with leading zero (INTEGER)
#guard both "30850000000006020101020101" none          -- five length octets
#guard both "3081" none && both "308180" none && both "3082" none && both "308201" none

/-! ### rejected: tags -/
#guard both "3106020101020101" none                    -- SET
#guard both "1006020101020101" none                    -- primitive SEQUENCE tag
#guard both "3006030101020101" none                    -- BIT STRING
#guard both "3006020101040101" none                    -- OCTET STRING
#guard both "30060a0101020101" none                    -- ENUMERATED
#guard both "3f1f06020101020101" none                  -- high-tag-number form
#guard both "0006020101020101" none

/-! ### the 0x81 form is mandatory from 128 and forbidden below; 0x82 only from 256 -/
#guard (let e := encSig (2 ^ 500) (2 ^ 500)             -- content 2·(2+63) = 130 → 30 81 82
  tokOfBytes (e.take 3) == "308182" &&
  decSig (un "30820082" ++ e.drop 3) == none &&
  derDecodeEcdsaStrict (un "30820082" ++ e.drop 3).toByteArray == none &&
  decSig (un "3082" ++ e.drop 2) == none)               -- short-form-style 0x82 misread
#guard (let e := encSig (2 ^ 480) (2 ^ 480)             -- content 2·(2+61) = 126 → 30 7e
  tokOfBytes (e.take 2) == "307e" &&
  decSig (un "30817e" ++ e.drop 2) == none &&
  derDecodeEcdsaStrict (un "30817e" ++ e.drop 2).toByteArray == none)
#guard (let e := encSig (2 ^ 1015) (2 ^ 1015)           -- content 262 → 30 82 01 06
  decSig (un "3083000106" ++ e.drop 4) == none &&
  derDecodeEcdsaStrict (un "3083000106" ++ e.drop 4).toByteArray == none &&
  decSig (e ++ [0]) == none && decSig (e.dropLast) == none &&
  derDecodeEcdsaStrict (e ++ [0]).toByteArray == none &&
  derDecodeEcdsaStrict (e.dropLast).toByteArray == none)

/-! ### every single-byte mutation, truncation and one-byte extension of two valid signatures:
    both decoders give the same verdict -/
private def agreeOn (b : Bytes) : Bool := decSig b == derDecodeEcdsaStrict b.toByteArray
private def mutations (e : Bytes) : List Bytes :=
  (List.range e.length).flatMap (fun i =>
    [e.take i, e.set i 0x00, e.set i 0x80, e.set i 0xff, e.set i (e.getD i 0 + 1),
     e.set i (e.getD i 0 - 1), e.take i ++ [0x00] ++ e.drop i, e.take i ++ e.drop (i + 1)])
  ++ [e ++ [0], e ++ e, e]
#guard (mutations (encSig (2 ^ 255 + 12345) (2 ^ 254 + 999))).all agreeOn
#guard (mutations (encSig (2 ^ 520 + 12345) (2 ^ 519 + 999))).all agreeOn
#guard (mutations (encSig 0x80 0x7f)).all agreeOn

end TinkVerif.KatDerList
