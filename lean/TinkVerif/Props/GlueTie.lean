import TinkVerif.Props.GlueTie.Framing
import TinkVerif.Props.GlueTie.Stream
import TinkVerif.Props.GlueTie.Aead
import TinkVerif.Props.GlueTie.Kwp
import TinkVerif.Props.GlueTie.Cmac
import TinkVerif.Props.GlueTie.Hpke
import TinkVerif.Props.GlueTie.PrefixKeys
import TinkVerif.Props.GlueTie.CmacFull
import TinkVerif.Props.GlueTie.Ctr
import TinkVerif.Props.GlueTie.Etm
import TinkVerif.Props.GlueTie.MacWrap
import TinkVerif.Props.GlueTie.Prf
import TinkVerif.Props.GlueTie.Siv
import TinkVerif.Props.GlueTie.KwpFull
import TinkVerif.Props.GlueTie.Unreader
import TinkVerif.Props.GlueTie.StreamSeg
import TinkVerif.Props.GlueTie.Rand
import TinkVerif.Props.GlueTie.Keyset
import TinkVerif.Props.GlueTie.ManagerId
import TinkVerif.Props.GlueTie.HpkeCtx
import TinkVerif.Props.GlueTie.GcmSiv
import TinkVerif.Props.GlueTie.FactoryCommon
import TinkVerif.Props.GlueTie.FactoryAead
import TinkVerif.Props.GlueTie.FactoryDaead
import TinkVerif.Props.GlueTie.FactoryMac
import TinkVerif.Props.GlueTie.FactoryVerify
import TinkVerif.Props.GlueTie.FactoryHybrid
import TinkVerif.Props.GlueTie.Jwt
import TinkVerif.Props.GlueTie.IdReq
import TinkVerif.Props.GlueTie.StreamNew
import TinkVerif.Props.GlueTie.SlhAdrs
import TinkVerif.Props.GlueTie.HkdfPrf
import TinkVerif.Props.GlueTie.HmacNew
import TinkVerif.Props.GlueTie.Pss
import TinkVerif.Props.GlueTie.KmsEnv
import TinkVerif.Props.GlueTie.Ecies
import TinkVerif.Props.GlueTie.DeriveKeyset
import TinkVerif.Props.GlueTie.ManagerAdd
import TinkVerif.Props.GlueTie.JwtKid
import TinkVerif.Props.GlueTie.Prefixmap
import TinkVerif.Props.GlueTie.HmacMac
import TinkVerif.Props.GlueTie.PrfSet
import TinkVerif.Props.GlueTie.KeyDerivers
/-
  GlueTie: the small byte-level glue functions of tink-go (output prefixes, segment nonces, length blocks,
  counter / tag masks, AIV, CMAC doubling and padding, HPKE labels) are REGENERATED from /repo's current source
  on every check run by go/harness/gluetr (GEN entries Glue* in vlib/gen.py → TinkVerif/Gen/Glue*.lean) and
  PROVED equal to the hand-written models that the theorems of the properties talk about.  A changed constant,
  byte order, offset or mask in /repo changes the regenerated definition and breaks a proof here (or, if the
  code leaves the translated fragment, makes the translator refuse — also a broken obligation).

  One module per generated file, so that a property only depends on the regenerated files it owns:

    module                          generated file (owner properties)         hand model tied
    Props.GlueTie.Framing           Gen/GlueFraming  (C01 C02 C04 C05)        Model/Framing `outputPrefix`
    Props.GlueTie.Stream            Gen/GlueStream   (C07)                    Model/Stream `segmentNonce`
    Props.GlueTie.Aead              Gen/GlueAead     (C01 C02)                Model/Aead `EtM.macInput`, `GcmSiv.tag/ctrIV/polyvalInput/deriveKeys`,
                                                                              Model/Ctr `blockLE32`, `xaesDeriveKey`
    Props.GlueTie.Kwp               Gen/GlueKwp      (C08)                    Model/Kwp `wrappingSize`, `aiv`, `xorCtr`, padding
    Props.GlueTie.Cmac              Gen/GlueCmac     (C04 C08 C15)            Model/Cmac `mulByX`, `pad16`
    Props.GlueTie.Hpke              Gen/GlueHpke     (C06)                    Model/Hpke `kemSuiteID`, `hpkeSuiteID`, `labelIKM`, `labelInfo`
    Props.GlueTie.PrefixKeys        Gen/GluePrefixKeys (C05)                  Model/Framing `outputPrefix` for the 20 per-key-type helpers

  Whole-function ties (round 3b; every statement of the Go function is part of the regenerated definition, loops included;
  each module lists its own theorems in its AxiomAudit section):
    Props.GlueTie.CmacFull          Gen/GlueCmac     (C04 C08 C15)            Model/Cmac `compute` (= RFC 4493 `spec`), `subkeys`, `xorEndAndCompute`
    Props.GlueTie.Ctr               Gen/GlueCtr      (C01 C02)                internal/aead AESCTR newCipher / Encrypt / Decrypt = iv ‖ CTR(padIV iv, ·)
    Props.GlueTie.Etm               Gen/GlueEtm      (C01 C02)                Model/Aead `EtM.encryptWith`, `EtM.decrypt`; aead/subtle EncryptThenAuthenticate
    Props.GlueTie.MacWrap           Gen/GlueMacWrap  (C04)                    Model/Mac `FullMac.compute/verify`, `legacyMsg`, `validCmacParams`
    Props.GlueTie.Siv               Gen/GlueSiv      (C08)                    Model/Siv `s2v`, `clearBits`, `encryptRaw`, `decryptRaw`, `encrypt`, `decrypt`
    Props.GlueTie.KwpFull           Gen/GlueKwp      (C08)                    Model/Kwp `wrap`, `unwrap`, `Winv` (whole Wrap / invertW / Unwrap, all round loops)
    Props.GlueTie.Unreader          Gen/GlueUnreader (C05 C07 C14)            record / replay state machine of streamingaead `unreader` (model in the tie file)
    Props.GlueTie.StreamSeg         Gen/GlueStreamSeg (C07)                   Model/Stream `write`, `close`, `read` (whole Writer.Write / Close, Reader.Read)
    Props.GlueTie.Rand              Gen/GlueRand     (C20)                    Model/Rand `seg`, `wordAt`: MustRand, GetRandomBytes/Uint32, NewBytesFromRand
    Props.GlueTie.Keyset            Gen/GlueKeyset   (C13 C14)                Model/Keyset `validKey`, `validate`, `hasSecrets` (whole Validate / validateKey / hasSecrets)
    Props.GlueTie.ManagerId         Gen/GlueManagerId (C11 C20)               Model/Manager `drawId`, Model/Rand `words` (whole newRandomKeyID)
    Props.GlueTie.HpkeCtx           Gen/GlueHpke     (C06)                    Model/Hpke `keySchedule`, `computeNonce` (whole createContext / computeNonce)
    Props.GlueTie.GcmSiv            Gen/GlueGcmSiv   (C01 C02)                Model/Ctr `xorLE32`, Model/Aead `GcmSiv.deriveKeys/tag/decrypt` (whole aesCTR, computeTag, deriveKeys, computePolyval, Decrypt)
    Props.GlueTie.Prf               Gen/GluePrf      (C15)                    prf/subtle AESCMACPRF truncation and guards

  Decision / glue logic (round 4; the iterator contract, what is abstract and the helper lemmas are in Props.GlueTie.FactoryCommon;
  primitives are abstract accept / transform functions, monitoring loggers are dropped, prefixmap is an abstract iterator):
    Props.GlueTie.FactoryAead       Gen/GlueFactoryAead   (C01 C02 C05)       Model/Wrap `candidates`, `accept` (whole wrappedAead.Decrypt / Encrypt)
    Props.GlueTie.FactoryDaead      Gen/GlueFactoryDaead  (C05 C08)           Model/Wrap `candidates`, `accept` (whole wrappedDAEAD.Decrypt/EncryptDeterministically)
    Props.GlueTie.FactoryMac        Gen/GlueFactoryMac    (C04 C05)           Model/Wrap `macAccept` (whole wrappedMAC.VerifyMAC / tryVerifyMAC / ComputeMAC)
    Props.GlueTie.FactoryVerify     Gen/GlueFactoryVerify (C03 C05)           Model/Wrap `accept` (whole wrappedVerifier.Verify)
    Props.GlueTie.FactoryHybrid     Gen/GlueFactoryHybrid (C05 C06)           Model/Wrap `candidates`, `accept` (whole wrappedHybridDecrypt.Decrypt)
    Props.GlueTie.Prefixmap         Gen/GluePrefixmap (C02 C05)               internal/prefixmap Iterator.Next / PrimitivesMatchingPrefix / Insert: discharges the iterator contract
                                                                              `IterSpec` of the Factory* ties; the built map = Model/Wrap `bucket`, the iteration = `candidates`
    Props.GlueTie.Jwt               Gen/GlueJwt      (C05 C09)                Model/Jwt `validate`, `validateHeader` (whole Validator.Validate, validateTimestamps with the
                                                                              clock as a parameter, validateTypeHeader/Issuer/Audiences, validateFieldPresence, validateHeader, validateKIDInHeader)
    Props.GlueTie.IdReq             Gen/GlueIdReq    (C11 C20)                Model/Manager `fromHandle`; KeySerialization / FallbackProtoKey IDRequirement, NewKeySerialization,
                                                                              NewManagerFromHandle, the id-requirement statements of keysetToEntries
    Props.GlueTie.StreamNew         Gen/GlueStreamNew (C07)                   streamingaead/subtle NewAESGCMHKDF / NewAESCTRHMAC: parameter checks and derived sizes (closed form)
    Props.GlueTie.HkdfPrf           Gen/GlueHkdfPrf  (C15)                    prf/subtle NewHKDFPRF / ValidateHKDFPRFParams (key and salt stored as given)
    Props.GlueTie.HmacNew           Gen/GlueHmacNew  (C01 C04)                internal/mac/hmac New / ValidateHMACParams (key stored as given)
    Props.GlueTie.HmacMac           Gen/GlueHmacMac  (C01 C04)                internal/mac/hmac ComputeMAC / VerifyMAC (tag = truncated MAC of the concatenated parts, for every MAC object meeting `MacSpec`)
    Props.GlueTie.JwtKid            Gen/GlueJwtKid   (C05 C09)                Model/Jwt `KeyCfg.customKid/tinkKid`: newFullVerifier / newFullSigner (kid strategies)
    Props.GlueTie.ManagerAdd        Gen/GlueManagerAdd (C11 C20)              whole stateful Manager.Add (the drawn id stays reserved on failure), same newRandomKeyID as ManagerId
    Props.GlueTie.DeriveKeyset      Gen/GlueDeriveKeyset (C17)                whole wrappedKeysetDeriver.DeriveKeyset loop (any failure aborts; no key dropped)
    Props.GlueTie.KeyDerivers       Gen/GlueKeyDerivers (C17)                 the HMAC-PRF / HKDF-PRF key-deriver closures (exactly KeySizeInBytes bytes read; any read error fails)
    Props.GlueTie.PrfSet            Gen/GluePrfSet   (C15)                    whole NewPRFSetWithConfig loop (a key whose primitive cannot be built fails the constructor; primary id)
    Props.GlueTie.Pss               Gen/GluePss      (C03)                    New_RSA_SSA_PSS_Signer / _Verifier (salt length stored unchanged)
    Props.GlueTie.Ecies             Gen/GlueEcies    (C06)                    NewECIESAEADHKDFHybridEncrypt / Decrypt (salt stored as given)
    Props.GlueTie.KmsEnv            Gen/GlueKmsEnv   (C02)                    KMSEnvelopeAEAD.Decrypt / Encrypt (sticky error first), parseEnvelope

  This file only collects them (and repeats the axiom audit for every tie theorem).
-/
namespace TinkVerif.GlueTie

section AxiomAudit
#print axioms TinkVerif.GlueTie.calculatePrefixBytes_eq
#print axioms TinkVerif.GlueTie.outputprefix_Tink_eq
#print axioms TinkVerif.GlueTie.outputprefix_Legacy_eq
#print axioms TinkVerif.GlueTie.cryptofmt_OutputPrefix_eq
#print axioms TinkVerif.GlueTie.cryptofmt_OutputPrefix_unknown
#print axioms TinkVerif.GlueTie.cryptofmt_constants
#print axioms TinkVerif.GlueTie.generateSegmentNonce_eq
#print axioms TinkVerif.GlueTie.generateSegmentNonce_limit
#print axioms TinkVerif.GlueTie.aadSizeInBits_eq
#print axioms TinkVerif.GlueTie.macInput_eq
#print axioms TinkVerif.GlueTie.tag_eq_tagInputModel
#print axioms TinkVerif.GlueTie.tagMask_eq
#print axioms TinkVerif.GlueTie.ctrInit_counter
#print axioms TinkVerif.GlueTie.ctrInit_counterInc
#print axioms TinkVerif.GlueTie.blockLE32_zero
#print axioms TinkVerif.GlueTie.ctrStep_eq
#print axioms TinkVerif.GlueTie.lengthBlock_eq
#print axioms TinkVerif.GlueTie.polyvalInput_eq
#print axioms TinkVerif.GlueTie.nonceBlockInit_eq
#print axioms TinkVerif.GlueTie.kdfCounter_eq
#print axioms TinkVerif.GlueTie.kdf_block_first
#print axioms TinkVerif.GlueTie.kdf_block_next
#print axioms TinkVerif.GlueTie.paddedSalt_eq
#print axioms TinkVerif.GlueTie.derivePerMessageKey_eq
#print axioms TinkVerif.GlueTie.derivePerMessageKey_blocks
#print axioms TinkVerif.GlueTie.wrappingSize_eq
#print axioms TinkVerif.GlueTie.kwp_constants
#print axioms TinkVerif.GlueTie.wrapBuffer_eq
#print axioms TinkVerif.GlueTie.aivInit_eq
#print axioms TinkVerif.GlueTie.roundXor_eq
#print axioms TinkVerif.GlueTie.mulByX_loop_inv
#print axioms TinkVerif.GlueTie.mulByX_eq
#print axioms TinkVerif.GlueTie.lastBlockInit_eq
#print axioms TinkVerif.GlueTie.padLast_eq
#print axioms TinkVerif.GlueTie.cmac_constants
#print axioms TinkVerif.GlueTie.hpkeV1_eq
#print axioms TinkVerif.GlueTie.kemSuiteID_eq
#print axioms TinkVerif.GlueTie.hpkeSuiteID_eq
#print axioms TinkVerif.GlueTie.labelIKM_eq
#print axioms TinkVerif.GlueTie.labelInfo_eq
#print axioms TinkVerif.GlueTie.labelInfo_negative
#print axioms TinkVerif.GlueTie.keyScheduleContext_eq
#print axioms TinkVerif.GlueTie.PrefixKeys.calculatePrefixBytes_eq
#print axioms TinkVerif.GlueTie.PrefixKeys.Tink_eq
#print axioms TinkVerif.GlueTie.PrefixKeys.Legacy_eq
#print axioms TinkVerif.GlueTie.PrefixKeys.aesctrhmac_calculateOutputPrefix
#print axioms TinkVerif.GlueTie.PrefixKeys.aesgcm_calculateOutputPrefix
#print axioms TinkVerif.GlueTie.PrefixKeys.aesgcmsiv_calculateOutputPrefix
#print axioms TinkVerif.GlueTie.PrefixKeys.chacha20poly1305_calculateOutputPrefix
#print axioms TinkVerif.GlueTie.PrefixKeys.xchacha20poly1305_calculateOutputPrefix
#print axioms TinkVerif.GlueTie.PrefixKeys.aessiv_calculateOutputPrefix
#print axioms TinkVerif.GlueTie.PrefixKeys.ecies_calculateOutputPrefix
#print axioms TinkVerif.GlueTie.PrefixKeys.hpke_calculateOutputPrefix
#print axioms TinkVerif.GlueTie.PrefixKeys.aescmac_calculateOutputPrefix
#print axioms TinkVerif.GlueTie.PrefixKeys.hmac_calculateOutputPrefix
#print axioms TinkVerif.GlueTie.PrefixKeys.ecdsa_calculateOutputPrefix
#print axioms TinkVerif.GlueTie.PrefixKeys.ed25519_calculateOutputPrefix
#print axioms TinkVerif.GlueTie.PrefixKeys.rsassapkcs1_calculateOutputPrefix
#print axioms TinkVerif.GlueTie.PrefixKeys.rsassapss_calculateOutputPrefix
#print axioms TinkVerif.GlueTie.PrefixKeys.xaesgcm_calculateOutputPrefix
#print axioms TinkVerif.GlueTie.PrefixKeys.compositemldsa_calculateOutputPrefix
#print axioms TinkVerif.GlueTie.PrefixKeys.slhdsa_calculateOutputPrefix
#print axioms TinkVerif.GlueTie.PrefixKeys.mldsa_calculateOutputPrefix
#print axioms TinkVerif.GlueTie.PrefixKeys.protoserialization_calculateOutputPrefix
end AxiomAudit

end TinkVerif.GlueTie
