import TinkVerif.Model.BigIntBytes
import TinkVerif.Lemmas.CmacDbl
/-!
  C12 ("leading-zero handling of big integers"): theorems about the big-integer byte-string
  helpers of tink-go's proto (de)serializers, for ALL byte strings / naturals.

  Models: `TinkVerif/Model/BigIntBytes.lean` (executed against the Go helpers by the c12 harness,
  `N …` lines).  Sections:
    A  `toFixed`  = `ec.BigIntBytesToFixedSizeBuffer`: characterisation, value, length, success
       criterion, idempotence, canonicity;
    B  `minimal` / `natBytes` = `big.Int.Bytes()`, `pad` = `signature.Pad`;
    C  EC coordinates, points and the key-level serializer / parser pair;
    D  RSA `AdjustEncodingLengths` and the key-level serializer / parser pair.
-/
namespace TinkVerif.C12BigInt
open TinkVerif TinkVerif.Bytes TinkVerif.BigIntBytes

/-! ## Arithmetic and list helpers -/

theorem toNatBE_zero_cons (b : Bytes) : toNatBE (0 :: b) = toNatBE b := by
  rw [toNatBE_cons]; simp

theorem zeros_succ (k : Nat) : zeros (k + 1) = 0 :: zeros k := by
  simp [zeros, List.replicate_succ]

theorem zeros_add (a b : Nat) : zeros (a + b) = zeros a ++ zeros b := by
  simp [zeros, List.replicate_append_replicate]

theorem toNatBE_zeros_append (k : Nat) (b : Bytes) : toNatBE (zeros k ++ b) = toNatBE b := by
  induction k with
  | zero => simp [zeros]
  | succ k ih => rw [zeros_succ, List.cons_append, toNatBE_zero_cons, ih]

theorem toNatBE_zeros (k : Nat) : toNatBE (zeros k) = 0 := by
  have := toNatBE_zeros_append k []
  rw [List.append_nil] at this
  rw [this]; rfl

theorem toNatBE_append (a b : Bytes) :
    toNatBE (a ++ b) = toNatBE a * 256 ^ b.length + toNatBE b := by
  induction a with
  | nil => simp [toNatBE_nil]
  | cons x xs ih =>
    rw [List.cons_append, toNatBE_cons, toNatBE_cons, ih, List.length_append, Nat.pow_add,
      Nat.add_mul, Nat.mul_assoc, Nat.add_assoc]

theorem uint8_eq_zero_of_toNat (x : UInt8) (h : x.toNat = 0) : x = 0 := by
  apply UInt8.toNat_inj.mp
  simpa using h

/-- a byte string has value zero exactly when all its bytes are zero -/
theorem toNatBE_eq_zero_iff (l : Bytes) : toNatBE l = 0 ↔ l.all (· == 0) = true := by
  induction l with
  | nil => simp [toNatBE_nil]
  | cons x xs ih =>
    rw [toNatBE_cons, List.all_cons, Bool.and_eq_true, ← ih]
    have hp : 0 < 256 ^ xs.length := Nat.pow_pos (by decide)
    constructor
    · intro h
      have h1 : x.toNat * 256 ^ xs.length = 0 := by omega
      have h2 : toNatBE xs = 0 := by omega
      have hx : x.toNat = 0 := by
        rcases Nat.mul_eq_zero.mp h1 with h | h
        · exact h
        · omega
      exact ⟨by simp [uint8_eq_zero_of_toNat x hx], h2⟩
    · rintro ⟨hx, h2⟩
      have : x = 0 := by simpa using hx
      subst this
      simp [h2]

theorem all_zero_eq_zeros (l : Bytes) (h : l.all (· == 0) = true) : l = zeros l.length := by
  induction l with
  | nil => rfl
  | cons x xs ih =>
    rw [List.all_cons, Bool.and_eq_true] at h
    have : x = 0 := by simpa using h.1
    subst this
    rw [List.length_cons, zeros_succ, ← ih h.2]

/-- `ofNatBE` recovers a byte string of the right length from its value -/
theorem ofNatBE_of_value (r : Bytes) (n v : Nat) (hl : r.length = n) (hv : toNatBE r = v) :
    ofNatBE n v = r := by
  subst hl; subst hv; exact ofNatBE_toNatBE r

theorem pow_le_pow_256 {a b : Nat} (h : a ≤ b) : 256 ^ a ≤ 256 ^ b :=
  Nat.pow_le_pow_right (by decide) h

theorem toNatBE_lt_of_length_le (b : Bytes) (n : Nat) (h : b.length ≤ n) : toNatBE b < 256 ^ n :=
  Nat.lt_of_lt_of_le (toNatBE_lt b) (pow_le_pow_256 h)

/-- `t * P + r < P` with `r < P` forces `t = 0` -/
theorem mul_add_lt_iff (t r P : Nat) (hr : r < P) : t * P + r < P ↔ t = 0 := by
  constructor
  · intro h
    rcases Nat.eq_zero_or_pos t with h0 | h0
    · exact h0
    · have : P ≤ t * P := Nat.le_mul_of_pos_left P h0
      omega
  · intro h; subst h; omega

/-! ## A. `toFixed` = `ec.BigIntBytesToFixedSizeBuffer` -/

/-- **Characterisation.** For every byte string and every size, `BigIntBytesToFixedSizeBuffer`
    succeeds exactly when the big-endian value fits into `n` bytes, and then returns THE `n`-byte
    big-endian encoding of that value. -/
theorem toFixed_eq (b : Bytes) (n : Nat) :
    toFixed b n = if toNatBE b < 256 ^ n then some (ofNatBE n (toNatBE b)) else none := by
  unfold toFixed
  by_cases h1 : b.length = n
  · have hlt : toNatBE b < 256 ^ n := toNatBE_lt_of_length_le b n (by omega)
    simp only [h1, ↓reduceIte, hlt, ofNatBE_of_value b n _ h1 rfl]
  · by_cases h2 : b.length < n
    · have hlt : toNatBE b < 256 ^ n := toNatBE_lt_of_length_le b n (by omega)
      have hl : (zeros (n - b.length) ++ b).length = n := by
        rw [List.length_append, length_zeros]; omega
      simp only [h1, h2, ↓reduceIte, hlt,
        ofNatBE_of_value _ n _ hl (toNatBE_zeros_append _ b)]
    · simp only [h1, h2, ↓reduceIte]
      have hk : b.length - n ≤ b.length := by omega
      have hsplit : b = b.take (b.length - n) ++ b.drop (b.length - n) :=
        (List.take_append_drop _ b).symm
      have hdl : (b.drop (b.length - n)).length = n := by rw [List.length_drop]; omega
      have hval : toNatBE b =
          toNatBE (b.take (b.length - n)) * 256 ^ n + toNatBE (b.drop (b.length - n)) := by
        conv => lhs; rw [hsplit]
        rw [toNatBE_append, hdl]
      have hr : toNatBE (b.drop (b.length - n)) < 256 ^ n := by
        have := toNatBE_lt (b.drop (b.length - n)); rwa [hdl] at this
      by_cases hz : (b.take (b.length - n)).all (· == 0) = true
      · have h0 := (toNatBE_eq_zero_iff _).mpr hz
        have hv : toNatBE b = toNatBE (b.drop (b.length - n)) := by rw [hval, h0]; omega
        have hlt : toNatBE b < 256 ^ n := by rw [hv]; exact hr
        simp only [hz, ↓reduceIte, hlt, ofNatBE_of_value _ n _ hdl hv.symm]
      · have h0 : toNatBE (b.take (b.length - n)) ≠ 0 := fun h => hz ((toNatBE_eq_zero_iff _).mp h)
        have hge : ¬ toNatBE b < 256 ^ n := by
          rw [hval, mul_add_lt_iff _ _ _ hr]; exact h0
        simp only [hz, hge, ↓reduceIte]
        rfl

/-- success criterion: the helper succeeds iff the value fits -/
theorem toFixed_isSome_iff (b : Bytes) (n : Nat) : (toFixed b n).isSome ↔ toNatBE b < 256 ^ n := by
  rw [toFixed_eq]; by_cases h : toNatBE b < 256 ^ n <;> simp [h]

theorem toFixed_eq_none_iff (b : Bytes) (n : Nat) : toFixed b n = none ↔ 256 ^ n ≤ toNatBE b := by
  rw [toFixed_eq]; by_cases h : toNatBE b < 256 ^ n <;> simp [h] <;> omega

/-- the output always has exactly `n` bytes -/
theorem toFixed_length {b r : Bytes} {n : Nat} (h : toFixed b n = some r) : r.length = n := by
  rw [toFixed_eq] at h
  by_cases hv : toNatBE b < 256 ^ n
  · simp only [hv, ↓reduceIte, Option.some.injEq] at h; subst h; exact length_ofNatBE n _
  · simp [hv] at h

/-- value preservation -/
theorem toFixed_value {b r : Bytes} {n : Nat} (h : toFixed b n = some r) :
    toNatBE r = toNatBE b := by
  rw [toFixed_eq] at h
  by_cases hv : toNatBE b < 256 ^ n
  · simp only [hv, ↓reduceIte, Option.some.injEq] at h; subst h
    rw [toNatBE_ofNatBE, Nat.mod_eq_of_lt hv]
  · simp [hv] at h

/-- canonicity: the result depends only on the VALUE of the input (not on how many leading zeros
    it carries) -/
theorem toFixed_canonical (a b : Bytes) (n : Nat) (h : toNatBE a = toNatBE b) :
    toFixed a n = toFixed b n := by
  rw [toFixed_eq, toFixed_eq, h]

/-- any number of extra leading zero bytes is ignored -/
theorem toFixed_leading_zeros (k : Nat) (b : Bytes) (n : Nat) :
    toFixed (zeros k ++ b) n = toFixed b n :=
  toFixed_canonical _ _ n (toNatBE_zeros_append k b)

/-- idempotence -/
theorem toFixed_idem {b r : Bytes} {n : Nat} (h : toFixed b n = some r) : toFixed r n = some r := by
  have hl := toFixed_length h
  unfold toFixed; simp [hl]

/-- an input that already has `n` bytes is returned unchanged -/
theorem toFixed_of_length (b : Bytes) (n : Nat) (h : b.length = n) : toFixed b n = some b := by
  unfold toFixed; simp [h]

/-- re-encoding at another width composes: going through an intermediate width loses nothing -/
theorem toFixed_comp {b r : Bytes} {m : Nat} (n : Nat) (h : toFixed b m = some r) :
    toFixed r n = toFixed b n :=
  toFixed_canonical _ _ n (toFixed_value h)

/-- two accepted inputs give the same output iff they have the same value -/
theorem toFixed_eq_iff {a b ra rb : Bytes} {n : Nat} (ha : toFixed a n = some ra)
    (hb : toFixed b n = some rb) : ra = rb ↔ toNatBE a = toNatBE b := by
  constructor
  · intro h; rw [← toFixed_value ha, ← toFixed_value hb, h]
  · intro h
    have := toFixed_canonical a b n h
    rw [ha, hb] at this
    exact Option.some.inj this

example : toFixed [0, 0, 1, 255] 2 = some [1, 255] := by decide
example : toFixed [1, 255] 4 = some [0, 0, 1, 255] := by decide
example : toFixed [0, 1, 0, 0] 2 = none := by decide
example : toFixed [] 2 = some [0, 0] := by decide

/-! ## B. `minimal`, `natBytes` (= `big.Int.Bytes()`) and `pad` (= `signature.Pad`) -/

theorem minimal_cons_zero (b : Bytes) : minimal (0 :: b) = minimal b := by
  simp [minimal]

theorem minimal_cons_ne {x : UInt8} (b : Bytes) (h : x ≠ 0) : minimal (x :: b) = x :: b := by
  simp [minimal, h]

/-- stripping leading zeros keeps the value -/
theorem minimal_value (b : Bytes) : toNatBE (minimal b) = toNatBE b := by
  induction b with
  | nil => rfl
  | cons x xs ih =>
    by_cases h : x = 0
    · subst h; rw [minimal_cons_zero, ih, toNatBE_zero_cons]
    · rw [minimal_cons_ne xs h]

/-- the result has no leading zero byte -/
theorem minimal_isMinimal (b : Bytes) : Minimal (minimal b) := by
  induction b with
  | nil => simp [minimal, Minimal]
  | cons x xs ih =>
    by_cases h : x = 0
    · subst h; rw [minimal_cons_zero]; exact ih
    · rw [minimal_cons_ne xs h]; simpa [Minimal] using h

/-- a string without leading zero is left unchanged -/
theorem minimal_of_isMinimal {b : Bytes} (h : Minimal b) : minimal b = b := by
  cases b with
  | nil => rfl
  | cons x xs => exact minimal_cons_ne xs (by simpa [Minimal] using h)

theorem minimal_idem (b : Bytes) : minimal (minimal b) = minimal b :=
  minimal_of_isMinimal (minimal_isMinimal b)

theorem minimal_zeros_append (k : Nat) (b : Bytes) : minimal (zeros k ++ b) = minimal b := by
  induction k with
  | zero => simp [zeros]
  | succ k ih => rw [zeros_succ, List.cons_append, minimal_cons_zero, ih]

theorem minimal_length_le (b : Bytes) : (minimal b).length ≤ b.length := by
  induction b with
  | nil => simp [minimal]
  | cons x xs ih =>
    by_cases h : x = 0
    · subst h; rw [minimal_cons_zero, List.length_cons]; omega
    · rw [minimal_cons_ne xs h]; omega

/-- a non-empty minimal string of length `l` has value at least `256^(l-1)` -/
theorem isMinimal_lower_bound {b : Bytes} (hm : Minimal b) (hne : b ≠ []) :
    256 ^ (b.length - 1) ≤ toNatBE b := by
  cases b with
  | nil => exact absurd rfl hne
  | cons x xs =>
    have hx : x ≠ 0 := by simpa [Minimal] using hm
    have hx' : 1 ≤ x.toNat := by
      rcases Nat.eq_zero_or_pos x.toNat with h | h
      · exact absurd (uint8_eq_zero_of_toNat x h) hx
      · exact h
    rw [toNatBE_cons, List.length_cons, Nat.add_sub_cancel]
    have : 256 ^ xs.length ≤ x.toNat * 256 ^ xs.length := Nat.le_mul_of_pos_left _ hx'
    omega

/-- a minimal string whose value fits into `m` bytes has at most `m` bytes -/
theorem isMinimal_length_le_of_lt {b : Bytes} (hm : Minimal b) {m : Nat} (h : toNatBE b < 256 ^ m) :
    b.length ≤ m := by
  by_cases hle : b.length ≤ m
  · exact hle
  · exfalso
    have hne : b ≠ [] := by intro h0; subst h0; simp at hle
    have h1 := isMinimal_lower_bound hm hne
    have h2 : 256 ^ m ≤ 256 ^ (b.length - 1) := pow_le_pow_256 (by omega)
    omega

/-- minimal encodings are ordered by length: a smaller value never needs more bytes -/
theorem isMinimal_length_le_of_value_le {a : Bytes} (hm : Minimal a) (b : Bytes)
    (h : toNatBE a ≤ toNatBE b) : a.length ≤ b.length :=
  isMinimal_length_le_of_lt hm (Nat.lt_of_le_of_lt h (toNatBE_lt b))

/-- the minimal form is unique: two minimal strings with the same value are equal -/
theorem isMinimal_unique {a b : Bytes} (ha : Minimal a) (hb : Minimal b)
    (h : toNatBE a = toNatBE b) : a = b := by
  have h1 := isMinimal_length_le_of_value_le ha b (by omega)
  have h2 := isMinimal_length_le_of_value_le hb a (by omega)
  have hl : a.length = b.length := by omega
  rw [← ofNatBE_toNatBE a, ← ofNatBE_toNatBE b, hl, h]

/-- canonicity of `big.Int.SetBytes(·).Bytes()`: same value ⇔ same minimal form -/
theorem minimal_canonical (a b : Bytes) : minimal a = minimal b ↔ toNatBE a = toNatBE b := by
  constructor
  · intro h; rw [← minimal_value a, ← minimal_value b, h]
  · intro h
    exact isMinimal_unique (minimal_isMinimal a) (minimal_isMinimal b)
      (by rw [minimal_value, minimal_value, h])

theorem natBytes_zero : natBytes 0 = [] := by rw [natBytes]; simp

theorem natBytes_pos (v : Nat) (h : v ≠ 0) :
    natBytes v = natBytes (v / 256) ++ [UInt8.ofNat (v % 256)] := by
  rw [natBytes]; simp [h]

theorem toNat_ofNat_mod (n : Nat) : (UInt8.ofNat (n % 256)).toNat = n % 256 := by
  rw [UInt8.toNat_ofNat']
  show n % 256 % 256 = n % 256
  omega

/-- `natBytes` encodes its argument -/
theorem natBytes_value (v : Nat) : toNatBE (natBytes v) = v := by
  induction v using Nat.strongRecOn with
  | _ v ih =>
    by_cases h : v = 0
    · subst h; rw [natBytes_zero]; rfl
    · rw [natBytes_pos v h, toNatBE_append_singleton, ih (v / 256) (by omega), toNat_ofNat_mod]
      omega

/-- … without a leading zero byte -/
theorem natBytes_isMinimal (v : Nat) : Minimal (natBytes v) := by
  induction v using Nat.strongRecOn with
  | _ v ih =>
    by_cases h : v = 0
    · subst h; rw [natBytes_zero]; simp [Minimal]
    · rw [natBytes_pos v h]
      by_cases h2 : v / 256 = 0
      · rw [h2, natBytes_zero, List.nil_append]
        have : UInt8.ofNat (v % 256) ≠ 0 := by
          intro h0
          have := congrArg UInt8.toNat h0
          rw [toNat_ofNat_mod] at this
          have : v % 256 = 0 := this
          omega
        simpa [Minimal] using this
      · have hm := ih (v / 256) (by omega)
        have hne : natBytes (v / 256) ≠ [] := by
          intro h0
          have := natBytes_value (v / 256)
          rw [h0] at this
          exact h2 this.symm
        cases hnb : natBytes (v / 256) with
        | nil => exact absurd hnb hne
        | cons x t => rw [hnb] at hm; simpa [Minimal] using hm

/-- `SetBytes(b).Bytes()` is the canonical encoding of the value of `b` -/
theorem minimal_eq_natBytes (b : Bytes) : minimal b = natBytes (toNatBE b) :=
  isMinimal_unique (minimal_isMinimal b) (natBytes_isMinimal _)
    (by rw [minimal_value, natBytes_value])

theorem natBytes_toNatBE_of_isMinimal {b : Bytes} (h : Minimal b) : natBytes (toNatBE b) = b := by
  rw [← minimal_eq_natBytes, minimal_of_isMinimal h]

/-- `Pad` agrees with `BigIntBytesToFixedSizeBuffer` on inputs that are not longer than the target;
    on longer inputs `Pad` ALWAYS fails, even if the excess bytes are zero -/
theorem pad_eq_toFixed (b : Bytes) (n : Nat) (h : b.length ≤ n) : pad b n = toFixed b n := by
  unfold pad toFixed
  by_cases h1 : b.length = n
  · simp [h1]
  · have h2 : b.length < n := by omega
    have h3 : ¬ b.length > n := by omega
    simp [h1, h2, h3]

theorem pad_isSome_iff (b : Bytes) (n : Nat) : (pad b n).isSome ↔ b.length ≤ n := by
  unfold pad
  by_cases h : b.length > n
  · simp [h]
  · by_cases h1 : b.length = n <;> simp [h, h1] <;> omega

theorem pad_eq_none_iff (b : Bytes) (n : Nat) : pad b n = none ↔ n < b.length := by
  have := pad_isSome_iff b n
  cases hp : pad b n with
  | none => rw [hp] at this; simp at this; simp; omega
  | some r => rw [hp] at this; simp at this; simp; omega

theorem pad_length_le {b r : Bytes} {n : Nat} (h : pad b n = some r) : b.length ≤ n :=
  (pad_isSome_iff b n).mp (by rw [h]; rfl)

theorem pad_length {b r : Bytes} {n : Nat} (h : pad b n = some r) : r.length = n := by
  rw [pad_eq_toFixed b n (pad_length_le h)] at h; exact toFixed_length h

theorem pad_value {b r : Bytes} {n : Nat} (h : pad b n = some r) : toNatBE r = toNatBE b := by
  rw [pad_eq_toFixed b n (pad_length_le h)] at h; exact toFixed_value h

/-- explicit form of a successful `Pad` -/
theorem pad_eq {b : Bytes} {n : Nat} (h : b.length ≤ n) :
    pad b n = some (zeros (n - b.length) ++ b) := by
  unfold pad
  by_cases h1 : b.length = n
  · simp [h1, zeros]
  · have h3 : ¬ b.length > n := by omega
    simp [h1, h3]

/-- what the parser recovers (`SetBytes(·).Bytes()`) from a padded field is the minimal form of
    the original -/
theorem minimal_pad {b r : Bytes} {n : Nat} (h : pad b n = some r) : minimal r = minimal b :=
  (minimal_canonical r b).mpr (pad_value h)

/-- round trip of one padded RSA field: accessor bytes (minimal) → `Pad` → `SetBytes().Bytes()` -/
theorem minimal_pad_of_isMinimal {b r : Bytes} {n : Nat} (hm : Minimal b) (h : pad b n = some r) :
    minimal r = b := by
  rw [minimal_pad h, minimal_of_isMinimal hm]

/-- and back: padding the parsed value to the same width reproduces the field byte for byte -/
theorem pad_minimal_of_pad {b r : Bytes} {n : Nat} (h : pad b n = some r) :
    pad (minimal r) n = some r := by
  have hl := pad_length h
  have hle : (minimal r).length ≤ n := by have := minimal_length_le r; omega
  rw [pad_eq_toFixed _ _ hle, toFixed_canonical (minimal r) r n (minimal_value r)]
  exact toFixed_of_length r n hl

/-- a minimal value that fits into `n` bytes can always be padded to `n` bytes -/
theorem pad_isSome_of_value_lt {b : Bytes} (hm : Minimal b) {n : Nat} (h : toNatBE b < 256 ^ n) :
    (pad b n).isSome :=
  (pad_isSome_iff b n).mpr (isMinimal_length_le_of_lt hm h)

example : minimal [0, 0, 1, 0] = [1, 0] := by decide
example : pad [5] 3 = some [0, 0, 5] := by decide
example : Minimal [5] ∧ toNatBE [5] < 256 ^ 3 := by decide
example : pad [0, 0, 1] 2 = none ∧ toFixed [0, 0, 1] 2 = some [0, 1] := by decide
example : natBytes 65537 = [1, 0, 1] := by
  rw [natBytes_toNatBE_of_isMinimal (b := [1, 0, 1]) (by decide) |>.symm]; rfl

/-! ## C. EC coordinates, points, and the key-level serializer / parser pair -/

/-- the serializer writes a coordinate / scalar of the curve's size with ONE leading 0x00 -/
theorem protoCoord_of_length (c : Bytes) (cs : Nat) (h : c.length = cs) :
    protoCoord c cs = some (0 :: c) := by
  unfold protoCoord toFixed
  have h1 : ¬ c.length = cs + 1 := by omega
  have h2 : c.length < cs + 1 := by omega
  have h3 : cs + 1 - c.length = 1 := by omega
  simp [h1, h2, h3, zeros]

/-- the serializer never fails on a coordinate of the curve's size -/
theorem protoCoord_isSome (c : Bytes) (cs : Nat) (h : c.length = cs) : (protoCoord c cs).isSome := by
  rw [protoCoord_of_length c cs h]; rfl

/-- the parser accepts a field iff its value fits the curve's coordinate size, however many
    leading zeros it carries -/
theorem parseCoord_isSome_iff (f : Bytes) (cs : Nat) :
    (parseCoord f cs).isSome ↔ toNatBE f < 256 ^ cs := toFixed_isSome_iff f cs

theorem parseCoord_length {f c : Bytes} {cs : Nat} (h : parseCoord f cs = some c) : c.length = cs :=
  toFixed_length h

theorem parseCoord_value {f c : Bytes} {cs : Nat} (h : parseCoord f cs = some c) :
    toNatBE c = toNatBE f := toFixed_value h

/-- the parsed coordinate does not depend on the number of leading zeros of the field -/
theorem parseCoord_leading_zeros (k : Nat) (f : Bytes) (cs : Nat) :
    parseCoord (zeros k ++ f) cs = parseCoord f cs := toFixed_leading_zeros k f cs

theorem parseCoord_canonical (f g : Bytes) (cs : Nat) (h : toNatBE f = toNatBE g) :
    parseCoord f cs = parseCoord g cs := toFixed_canonical f g cs h

/-- **round trip 1**: parse (serialize c) = c for EVERY coordinate of the curve's size, leading
    zero bytes included -/
theorem parseCoord_protoCoord (c : Bytes) (cs : Nat) (h : c.length = cs) :
    ∃ f, protoCoord c cs = some f ∧ parseCoord f cs = some c := by
  refine ⟨0 :: c, protoCoord_of_length c cs h, ?_⟩
  have := toFixed_leading_zeros 1 c cs
  rw [zeros_succ] at this
  simp only [zeros, List.replicate_zero, List.cons_append, List.nil_append] at this
  unfold parseCoord
  rw [this]; exact toFixed_of_length c cs h

/-- **round trip 2**: serialize (parse f) = the canonical `cs+1`-byte encoding of f's value, for
    every accepted field f -/
theorem protoCoord_parseCoord {f c : Bytes} {cs : Nat} (h : parseCoord f cs = some c) :
    protoCoord c cs = some (ofNatBE (cs + 1) (toNatBE f)) ∧ protoCoord c cs = some (0 :: c) := by
  have hl := parseCoord_length h
  have hv := parseCoord_value h
  refine ⟨?_, protoCoord_of_length c cs hl⟩
  unfold protoCoord
  rw [toFixed_eq, hv]
  have : toNatBE f < 256 ^ (cs + 1) := by
    have h1 : toNatBE f < 256 ^ cs := (parseCoord_isSome_iff f cs).mp (by rw [h]; rfl)
    exact Nat.lt_of_lt_of_le h1 (pow_le_pow_256 (by omega))
  simp [this]

/-- re-serialization is byte-identical for one coordinate -/
theorem protoCoord_reserialize (c : Bytes) (cs : Nat) (h : c.length = cs) {f c' : Bytes}
    (h1 : protoCoord c cs = some f) (h2 : parseCoord f cs = some c') : protoCoord c' cs = some f := by
  obtain ⟨f0, hf0, hp0⟩ := parseCoord_protoCoord c cs h
  rw [h1] at hf0
  have := Option.some.inj hf0; subst this
  rw [h2] at hp0
  have := Option.some.inj hp0; subst this
  exact h1

/-- `ecdsa.privateKeyValue` is just the parser-side re-encoding (both branches coincide) -/
theorem privateKeyValue_eq (kb : Bytes) (cs : Nat) : privateKeyValue kb cs = parseCoord kb cs := by
  unfold privateKeyValue parseCoord; split <;> rfl

/-- Go `copy` into the middle of a buffer, when the source has exactly the room's length -/
theorem copyAt_middle (a m c src : Bytes) (h : src.length = m.length) :
    copyAt (a ++ m ++ c) a.length src = a ++ src ++ c := by
  unfold copyAt
  have hl : (a ++ m ++ c).length - a.length = m.length + c.length := by
    simp only [List.length_append]; omega
  have ht : src.take (m.length + c.length) = src := List.take_of_length_le (by omega)
  have hmin : min src.length (m.length + c.length) = m.length := by omega
  rw [hl, ht, hmin]
  have h1 : (a ++ m ++ c).take a.length = a := by
    rw [List.append_assoc]; exact List.take_left
  have h2 : (a ++ m ++ c).drop (a.length + m.length) = c := by
    have : (a ++ m).length = a.length + m.length := List.length_append
    rw [← this]; exact List.drop_left
  rw [h1, h2]

/-- `encodePoint` on coordinates that are not longer than the curve size: 0x04, then each
    coordinate left-padded with zeros to the curve size (the documented behaviour) -/
theorem encodePoint_of_le (x y : Bytes) (cs : Nat) (hx : x.length ≤ cs) (hy : y.length ≤ cs) :
    encodePoint x y cs =
      some (4 :: (zeros (cs - x.length) ++ x ++ (zeros (cs - y.length) ++ y))) := by
  unfold encodePoint
  have hc : ¬ (x.length > 1 + cs ∨ y.length > 1 + 2 * cs) := by omega
  simp only [hc, ↓reduceIte, Option.some.injEq]
  -- first copy
  have hz : zeros (2 * cs) = zeros (cs - x.length) ++ zeros x.length ++ zeros cs := by
    rw [← zeros_add, ← zeros_add]; congr 1; omega
  have hb1 : (4 :: zeros (2 * cs) : Bytes) =
      (4 :: zeros (cs - x.length)) ++ zeros x.length ++ zeros cs := by
    rw [hz]; simp
  have hp1 : 1 + cs - x.length = (4 :: zeros (cs - x.length) : Bytes).length := by
    rw [List.length_cons, length_zeros]; omega
  rw [hb1, hp1, copyAt_middle _ _ _ x (by rw [length_zeros])]
  -- second copy
  have hz2 : zeros cs = zeros (cs - y.length) ++ zeros y.length := by
    rw [← zeros_add]; congr 1; omega
  have hb2 : (4 :: zeros (cs - x.length)) ++ x ++ zeros cs =
      ((4 :: zeros (cs - x.length)) ++ x ++ zeros (cs - y.length)) ++ zeros y.length ++ [] := by
    rw [hz2]; simp
  have hp2 : 1 + 2 * cs - y.length =
      ((4 :: zeros (cs - x.length)) ++ x ++ zeros (cs - y.length) : Bytes).length := by
    simp only [List.length_append, List.length_cons, length_zeros]; omega
  rw [hb2, hp2, copyAt_middle _ _ _ y (by rw [length_zeros])]
  simp

/-- on coordinates of exactly the curve size (what the parsers pass): 0x04 ‖ x ‖ y, the same
    bytes as the ECIES parser's `slices.Concat` -/
theorem encodePoint_exact (x y : Bytes) (cs : Nat) (hx : x.length = cs) (hy : y.length = cs) :
    encodePoint x y cs = some (concatPoint x y) := by
  rw [encodePoint_of_le x y cs (by omega) (by omega)]
  have h1 : cs - x.length = 0 := by omega
  have h2 : cs - y.length = 0 := by omega
  simp [h1, h2, zeros, concatPoint]

/-- coordinate extraction from an encoded point: both coordinates with one leading 0x00 -/
theorem pointCoords_concatPoint (x y : Bytes) (cs : Nat) (hx : x.length = cs) (hy : y.length = cs) :
    pointCoords (concatPoint x y) cs = some (0 :: x, 0 :: y) := by
  unfold pointCoords concatPoint
  have hl : ¬ (4 :: (x ++ y) : Bytes).length ≠ 2 * cs + 1 := by
    simp only [List.length_cons, List.length_append]; omega
  have ht : (x ++ y).take cs = x := by rw [← hx]; exact List.take_left
  have hd : (x ++ y).drop cs = y := by rw [← hx]; exact List.drop_left
  have px := protoCoord_of_length x cs hx
  have py := protoCoord_of_length y cs hy
  unfold protoCoord at px py
  simp only [hl, ↓reduceIte, List.head?_cons, ne_eq, not_true_eq_false, List.drop_succ_cons,
    List.drop_zero, ht, hd, px, py]

/-- every well-formed point (length `2*cs+1`, first byte 4) is `0x04 ‖ x ‖ y` -/
theorem point_split {pt : Bytes} {cs : Nat} (hl : pt.length = 2 * cs + 1) (hh : pt.head? = some 4) :
    ∃ x y, pt = concatPoint x y ∧ x.length = cs ∧ y.length = cs := by
  cases pt with
  | nil => simp at hl
  | cons b t =>
    have hb : b = 4 := by simpa using hh
    subst hb
    refine ⟨t.take cs, t.drop cs, ?_, ?_, ?_⟩
    · unfold concatPoint; rw [List.take_append_drop]
    · rw [List.length_take]; simp only [List.length_cons] at hl; omega
    · rw [List.length_drop]; simp only [List.length_cons] at hl; omega

/-- `validateEncodingAndGetCoordinates` fails only on a wrong length or first byte -/
theorem pointCoords_isSome_iff (pt : Bytes) (cs : Nat) :
    (pointCoords pt cs).isSome ↔ pt.length = 2 * cs + 1 ∧ pt.head? = some 4 := by
  constructor
  · intro h
    unfold pointCoords at h
    by_cases h1 : pt.length ≠ 2 * cs + 1
    · simp [h1] at h
    · by_cases h2 : pt.head? ≠ some 4
      · simp [h1, h2] at h
      · exact ⟨by omega, by simpa using h2⟩
  · rintro ⟨hl, hh⟩
    obtain ⟨x, y, rfl, hx, hy⟩ := point_split hl hh
    rw [pointCoords_concatPoint x y cs hx hy]; rfl

/-- the serializer never fails on a well-formed key, and writes 0x00‖x, 0x00‖y, 0x00‖d -/
theorem ecSerialize_wellFormed {k : EcKey} {cs : Nat} (h : k.WellFormed cs) :
    ∃ x y, k.point = concatPoint x y ∧ x.length = cs ∧ y.length = cs ∧
      ecSerialize k cs = some { x := 0 :: x, y := 0 :: y, keyValue := 0 :: k.d } := by
  obtain ⟨hl, hh, hd⟩ := h
  obtain ⟨x, y, hp, hx, hy⟩ := point_split hl hh
  refine ⟨x, y, hp, hx, hy, ?_⟩
  unfold ecSerialize
  rw [hp, pointCoords_concatPoint x y cs hx hy, protoCoord_of_length k.d cs hd]

theorem parse_cons_zero (c : Bytes) (cs : Nat) (h : c.length = cs) : parseCoord (0 :: c) cs = some c := by
  obtain ⟨f, hf, hp⟩ := parseCoord_protoCoord c cs h
  rw [protoCoord_of_length c cs h] at hf
  have := Option.some.inj hf; subst this; exact hp

/-- **key round trip 1**: parse (serialize k) = k for every well-formed key (any coordinates,
    any leading zeros), for both parser styles (ECDSA / JWT-ECDSA `encodePoint`, ECIES `Concat`) -/
theorem ecParse_ecSerialize {k : EcKey} {cs : Nat} (st : Bool) (h : k.WellFormed cs) {pr : EcProto}
    (hs : ecSerialize k cs = some pr) : ecParse pr cs st = some k := by
  obtain ⟨x, y, hp, hx, hy, hser⟩ := ecSerialize_wellFormed h
  rw [hs] at hser
  have := Option.some.inj hser; subst this
  unfold ecParse
  simp only [parse_cons_zero x cs hx, parse_cons_zero y cs hy, privateKeyValue_eq,
    parse_cons_zero k.d cs h.2.2, encodePoint_exact x y cs hx hy]
  cases st <;> simp [← hp]

/-- which protos the parser accepts (as far as the big-integer fields go): exactly those whose
    three values fit the curve's coordinate size -/
theorem ecParse_isSome_iff (pr : EcProto) (cs : Nat) (st : Bool) :
    (ecParse pr cs st).isSome ↔
      toNatBE pr.x < 256 ^ cs ∧ toNatBE pr.y < 256 ^ cs ∧ toNatBE pr.keyValue < 256 ^ cs := by
  rw [← parseCoord_isSome_iff, ← parseCoord_isSome_iff, ← parseCoord_isSome_iff]
  unfold ecParse
  rw [privateKeyValue_eq]
  cases hx : parseCoord pr.x cs with
  | none => simp
  | some x =>
    cases hy : parseCoord pr.y cs with
    | none => simp
    | some y =>
      have hex := encodePoint_exact x y cs (parseCoord_length hx) (parseCoord_length hy)
      cases hd : parseCoord pr.keyValue cs with
      | none => cases st <;> simp [hex]
      | some d => cases st <;> simp [hex]

/-- explicit form of a successful parse -/
theorem ecParse_eq_some {pr : EcProto} {cs : Nat} {st : Bool} {k : EcKey}
    (h : ecParse pr cs st = some k) :
    ∃ x y, parseCoord pr.x cs = some x ∧ parseCoord pr.y cs = some y ∧
      parseCoord pr.keyValue cs = some k.d ∧ k.point = concatPoint x y := by
  unfold ecParse at h
  rw [privateKeyValue_eq] at h
  cases hx : parseCoord pr.x cs with
  | none => simp [hx] at h
  | some x =>
    cases hy : parseCoord pr.y cs with
    | none => simp [hx, hy] at h
    | some y =>
      have hex := encodePoint_exact x y cs (parseCoord_length hx) (parseCoord_length hy)
      cases hd : parseCoord pr.keyValue cs with
      | none => cases st <;> simp [hx, hy, hd, hex] at h
      | some d =>
        refine ⟨x, y, rfl, rfl, ?_, ?_⟩ <;> cases st <;> simp [hx, hy, hd, hex] at h <;> simp [← h]

/-- the parser only produces well-formed keys -/
theorem ecParse_wellFormed {pr : EcProto} {cs : Nat} {st : Bool} {k : EcKey}
    (h : ecParse pr cs st = some k) : k.WellFormed cs := by
  obtain ⟨x, y, hx, hy, hd, hp⟩ := ecParse_eq_some h
  refine ⟨?_, ?_, parseCoord_length hd⟩
  · rw [hp]; unfold concatPoint
    simp only [List.length_cons, List.length_append, parseCoord_length hx, parseCoord_length hy]
    omega
  · rw [hp]; rfl

/-- **key round trip 2**: for every accepted proto, serialize (parse pr) is the canonical form of
    pr: each field re-encoded as the `cs+1`-byte big-endian value -/
theorem ecSerialize_ecParse {pr : EcProto} {cs : Nat} {st : Bool} {k : EcKey}
    (h : ecParse pr cs st = some k) :
    ecSerialize k cs = some { x := ofNatBE (cs + 1) (toNatBE pr.x),
                              y := ofNatBE (cs + 1) (toNatBE pr.y),
                              keyValue := ofNatBE (cs + 1) (toNatBE pr.keyValue) } := by
  obtain ⟨x, y, hx, hy, hd, hp⟩ := ecParse_eq_some h
  have hxl := parseCoord_length hx
  have hyl := parseCoord_length hy
  have cx := protoCoord_parseCoord hx
  have cy := protoCoord_parseCoord hy
  have cd := protoCoord_parseCoord hd
  have ex : ofNatBE (cs + 1) (toNatBE pr.x) = 0 :: x := by
    have := cx.1; rw [cx.2] at this; exact (Option.some.inj this).symm
  have ey : ofNatBE (cs + 1) (toNatBE pr.y) = 0 :: y := by
    have := cy.1; rw [cy.2] at this; exact (Option.some.inj this).symm
  unfold ecSerialize
  rw [hp, pointCoords_concatPoint x y cs hxl hyl, cd.1, ex, ey]

/-- canonicity at key level: two protos whose fields have the same VALUES (any leading zeros)
    parse to the same key, hence to Equal keys -/
theorem ecParse_canonical (pr pr' : EcProto) (cs : Nat) (st : Bool)
    (hx : toNatBE pr.x = toNatBE pr'.x) (hy : toNatBE pr.y = toNatBE pr'.y)
    (hd : toNatBE pr.keyValue = toNatBE pr'.keyValue) : ecParse pr cs st = ecParse pr' cs st := by
  unfold ecParse
  rw [parseCoord_canonical _ _ cs hx, parseCoord_canonical _ _ cs hy, privateKeyValue_eq,
    privateKeyValue_eq, parseCoord_canonical _ _ cs hd]

/-- **byte-identical re-serialization**: serialize (parse (serialize k)) = serialize k -/
theorem ec_reserialize_identical {k k' : EcKey} {cs : Nat} (st : Bool) (h : k.WellFormed cs)
    {pr : EcProto} (hs : ecSerialize k cs = some pr) (hp : ecParse pr cs st = some k') :
    ecSerialize k' cs = some pr := by
  rw [ecParse_ecSerialize st h hs] at hp
  have := Option.some.inj hp; subst this; exact hs

/-- the serialization is injective on well-formed keys: different keys never collide -/
theorem ecSerialize_injective {k k' : EcKey} {cs : Nat} (h : k.WellFormed cs) (h' : k'.WellFormed cs)
    {pr : EcProto} (hs : ecSerialize k cs = some pr) (hs' : ecSerialize k' cs = some pr) : k = k' := by
  have a := ecParse_ecSerialize true h hs
  have b := ecParse_ecSerialize true h' hs'
  rw [a] at b; exact Option.some.inj b

example : (⟨[4, 0, 7, 0, 9], [0, 1]⟩ : EcKey).WellFormed 2 := by unfold EcKey.WellFormed; decide
example : ecSerialize ⟨[4, 0, 7, 0, 9], [0, 1]⟩ 2 = some ⟨[0, 0, 7], [0, 0, 9], [0, 0, 1]⟩ := by decide
example : ecParse ⟨[7], [0, 0, 0, 0, 9], [1]⟩ 2 true = some ⟨[4, 0, 7, 0, 9], [0, 1]⟩ := by decide
example : encodePoint [1, 2, 3] [1] 2 = some [1, 2, 3, 0, 1] := by decide   -- over-long x overwrites 0x04
example : coordinateSizeForCurve 521 = some 66 := by decide

/-! ## D. RSA: `AdjustEncodingLengths` and the key-level serializer / parser pair -/

/-- the four `Pad` calls behind a successful `AdjustEncodingLengths` -/
theorem adjust_ok_pads {n p q d dp dq crt : Bytes} {a : Adjusted}
    (h : adjustEncodingLengths n p q d dp dq crt = .ok a) :
    pad dp p.length = some a.dp ∧ pad dq q.length = some a.dq ∧ pad crt p.length = some a.crt ∧
      pad d n.length = some a.d := by
  unfold adjustEncodingLengths at h
  cases h1 : pad dp p.length with
  | none => simp [h1] at h
  | some x1 =>
    cases h2 : pad dq q.length with
    | none => simp [h1, h2] at h
    | some x2 =>
      cases h3 : pad crt p.length with
      | none => simp [h1, h2, h3] at h
      | some x3 =>
        cases h4 : pad d n.length with
        | none => simp [h1, h2, h3, h4] at h
        | some x4 =>
          simp only [h1, h2, h3, h4, Except.ok.injEq] at h
          subst h; exact ⟨rfl, rfl, rfl, rfl⟩

/-- explicit result when every value is short enough: left-padding with zeros to
    len(n) (d), len(p) (dp, crt), len(q) (dq) -/
theorem adjust_eq_ok {n p q d dp dq crt : Bytes} (hdp : dp.length ≤ p.length)
    (hdq : dq.length ≤ q.length) (hcrt : crt.length ≤ p.length) (hd : d.length ≤ n.length) :
    adjustEncodingLengths n p q d dp dq crt =
      .ok { d := zeros (n.length - d.length) ++ d, dp := zeros (p.length - dp.length) ++ dp,
            dq := zeros (q.length - dq.length) ++ dq, crt := zeros (p.length - crt.length) ++ crt } := by
  unfold adjustEncodingLengths
  rw [pad_eq hdp, pad_eq hdq, pad_eq hcrt, pad_eq hd]

/-- success criterion: purely a comparison of byte LENGTHS -/
theorem adjust_ok_iff (n p q d dp dq crt : Bytes) :
    (∃ a, adjustEncodingLengths n p q d dp dq crt = .ok a) ↔
      dp.length ≤ p.length ∧ dq.length ≤ q.length ∧ crt.length ≤ p.length ∧ d.length ≤ n.length := by
  constructor
  · rintro ⟨a, h⟩
    obtain ⟨h1, h2, h3, h4⟩ := adjust_ok_pads h
    exact ⟨pad_length_le h1, pad_length_le h2, pad_length_le h3, pad_length_le h4⟩
  · rintro ⟨h1, h2, h3, h4⟩
    exact ⟨_, adjust_eq_ok h1 h2 h3 h4⟩

/-- the error names the first field that does not fit, in the order dp, dq, crt, d -/
theorem adjust_error (n p q d dp dq crt : Bytes) :
    adjustEncodingLengths n p q d dp dq crt =
      if p.length < dp.length then .error "dp"
      else if q.length < dq.length then .error "dq"
      else if p.length < crt.length then .error "crt"
      else if n.length < d.length then .error "d"
      else .ok { d := zeros (n.length - d.length) ++ d, dp := zeros (p.length - dp.length) ++ dp,
                 dq := zeros (q.length - dq.length) ++ dq,
                 crt := zeros (p.length - crt.length) ++ crt } := by
  by_cases h1 : p.length < dp.length
  · unfold adjustEncodingLengths
    simp [(pad_eq_none_iff dp p.length).mpr h1, h1]
  · by_cases h2 : q.length < dq.length
    · unfold adjustEncodingLengths
      simp [pad_eq (Nat.le_of_not_lt h1), (pad_eq_none_iff dq q.length).mpr h2, h1, h2]
    · by_cases h3 : p.length < crt.length
      · unfold adjustEncodingLengths
        simp [pad_eq (Nat.le_of_not_lt h1), pad_eq (Nat.le_of_not_lt h2),
          (pad_eq_none_iff crt p.length).mpr h3, h1, h2, h3]
      · by_cases h4 : n.length < d.length
        · unfold adjustEncodingLengths
          simp [pad_eq (Nat.le_of_not_lt h1), pad_eq (Nat.le_of_not_lt h2),
            pad_eq (Nat.le_of_not_lt h3), (pad_eq_none_iff d n.length).mpr h4, h1, h2, h3, h4]
        · simp only [h1, h2, h3, h4, ↓reduceIte]
          exact adjust_eq_ok (by omega) (by omega) (by omega) (by omega)

/-- lengths are as the other Tink implementations expect -/
theorem adjust_lengths {n p q d dp dq crt : Bytes} {a : Adjusted}
    (h : adjustEncodingLengths n p q d dp dq crt = .ok a) :
    a.d.length = n.length ∧ a.dp.length = p.length ∧ a.dq.length = q.length ∧
      a.crt.length = p.length := by
  obtain ⟨h1, h2, h3, h4⟩ := adjust_ok_pads h
  exact ⟨pad_length h4, pad_length h1, pad_length h2, pad_length h3⟩

/-- values are preserved -/
theorem adjust_values {n p q d dp dq crt : Bytes} {a : Adjusted}
    (h : adjustEncodingLengths n p q d dp dq crt = .ok a) :
    toNatBE a.d = toNatBE d ∧ toNatBE a.dp = toNatBE dp ∧ toNatBE a.dq = toNatBE dq ∧
      toNatBE a.crt = toNatBE crt := by
  obtain ⟨h1, h2, h3, h4⟩ := adjust_ok_pads h
  exact ⟨pad_value h4, pad_value h1, pad_value h2, pad_value h3⟩

/-- for accessor values (minimal encodings) that are numerically bounded the way RSA guarantees
    (d ≤ n, dp ≤ p, dq ≤ q, qInv ≤ p) the adjustment cannot fail -/
theorem adjust_ok_of_values {n p q d dp dq crt : Bytes} (md : Minimal d) (mdp : Minimal dp)
    (mdq : Minimal dq) (mcrt : Minimal crt) (hd : toNatBE d ≤ toNatBE n)
    (hdp : toNatBE dp ≤ toNatBE p) (hdq : toNatBE dq ≤ toNatBE q) (hcrt : toNatBE crt ≤ toNatBE p) :
    ∃ a, adjustEncodingLengths n p q d dp dq crt = .ok a :=
  (adjust_ok_iff n p q d dp dq crt).mpr
    ⟨isMinimal_length_le_of_value_le mdp p hdp, isMinimal_length_le_of_value_le mdq q hdq,
     isMinimal_length_le_of_value_le mcrt p hcrt, isMinimal_length_le_of_value_le md n hd⟩

/-- shape of a successful serialization -/
theorem rsaSerialize_ok {k : RsaKey} {pr : RsaProto} (h : rsaSerialize k = .ok pr) :
    ∃ a, adjustEncodingLengths k.n k.p k.q k.d k.dp k.dq k.crt = .ok a ∧
      pr = { k with d := a.d, dp := a.dp, dq := a.dq, crt := a.crt } := by
  unfold rsaSerialize at h
  cases ha : adjustEncodingLengths k.n k.p k.q k.d k.dp k.dq k.crt with
  | error e => simp [ha] at h
  | ok a => simp only [ha, Except.ok.injEq] at h; exact ⟨a, rfl, h.symm⟩

/-- the serialized fields: n, e, p, q verbatim (minimal for well-formed keys); d, dp, dq, crt keep
    their values and have the lengths len(n), len(p), len(q), len(p) -/
theorem rsaSerialize_fields {k : RsaKey} {pr : RsaProto} (h : rsaSerialize k = .ok pr) :
    pr.n = k.n ∧ pr.e = k.e ∧ pr.p = k.p ∧ pr.q = k.q ∧
    toNatBE pr.d = toNatBE k.d ∧ toNatBE pr.dp = toNatBE k.dp ∧ toNatBE pr.dq = toNatBE k.dq ∧
    toNatBE pr.crt = toNatBE k.crt ∧
    pr.d.length = k.n.length ∧ pr.dp.length = k.p.length ∧ pr.dq.length = k.q.length ∧
    pr.crt.length = k.p.length := by
  obtain ⟨a, ha, rfl⟩ := rsaSerialize_ok h
  obtain ⟨v1, v2, v3, v4⟩ := adjust_values ha
  obtain ⟨l1, l2, l3, l4⟩ := adjust_lengths ha
  exact ⟨rfl, rfl, rfl, rfl, v1, v2, v3, v4, l1, l2, l3, l4⟩

/-- serialization of a well-formed key succeeds whenever d ≤ n, dp ≤ p, dq ≤ q, qInv ≤ p -/
theorem rsaSerialize_ok_of_values {k : RsaKey} {jwt : Bool} (h : k.WellFormed jwt)
    (hd : toNatBE k.d ≤ toNatBE k.n) (hdp : toNatBE k.dp ≤ toNatBE k.p)
    (hdq : toNatBE k.dq ≤ toNatBE k.q) (hcrt : toNatBE k.crt ≤ toNatBE k.p) :
    ∃ pr, rsaSerialize k = .ok pr := by
  obtain ⟨_, _, _, _, md, mdp, mdq, mcrt⟩ := h
  obtain ⟨a, ha⟩ := adjust_ok_of_values md mdp mdq mcrt hd hdp hdq hcrt
  exact ⟨_, by unfold rsaSerialize; rw [ha]⟩

/-- **key round trip 1**: parse (serialize k) = k for every well-formed RSA key (both the
    RSA-SSA-PKCS1 / PSS parsers and the JWT ones) -/
theorem rsaParse_rsaSerialize {k : RsaKey} {jwt : Bool} (h : k.WellFormed jwt) {pr : RsaProto}
    (hs : rsaSerialize k = .ok pr) : rsaParse pr jwt = k := by
  obtain ⟨a, ha, rfl⟩ := rsaSerialize_ok hs
  obtain ⟨p1, p2, p3, p4⟩ := adjust_ok_pads ha
  obtain ⟨mn, me, mp, mq, md, mdp, mdq, mcrt⟩ := h
  have hn : (if jwt = true then k.n else minimal k.n) = k.n := by
    cases jwt with
    | true => simp
    | false => simp [minimal_of_isMinimal (mn rfl)]
  unfold rsaParse
  simp only [hn, minimal_of_isMinimal me, minimal_of_isMinimal mp, minimal_of_isMinimal mq,
    minimal_pad_of_isMinimal md p4, minimal_pad_of_isMinimal mdp p1,
    minimal_pad_of_isMinimal mdq p2, minimal_pad_of_isMinimal mcrt p3]

/-- **byte-identical re-serialization**: serialize (parse (serialize k)) = serialize k -/
theorem rsa_reserialize_identical {k : RsaKey} {jwt : Bool} (h : k.WellFormed jwt) {pr : RsaProto}
    (hs : rsaSerialize k = .ok pr) : rsaSerialize (rsaParse pr jwt) = .ok pr := by
  rw [rsaParse_rsaSerialize h hs]; exact hs

/-- the parser only produces well-formed keys -/
theorem rsaParse_wellFormed (pr : RsaProto) (jwt : Bool) : (rsaParse pr jwt).WellFormed jwt := by
  unfold rsaParse RsaKey.WellFormed
  refine ⟨?_, minimal_isMinimal _, minimal_isMinimal _, minimal_isMinimal _, minimal_isMinimal _,
    minimal_isMinimal _, minimal_isMinimal _, minimal_isMinimal _⟩
  intro hj; subst hj; exact minimal_isMinimal _

/-- every field of the parsed key has the value of the proto field -/
theorem rsaParse_values (pr : RsaProto) (jwt : Bool) :
    let k := rsaParse pr jwt
    toNatBE k.n = toNatBE pr.n ∧ toNatBE k.e = toNatBE pr.e ∧ toNatBE k.p = toNatBE pr.p ∧
    toNatBE k.q = toNatBE pr.q ∧ toNatBE k.d = toNatBE pr.d ∧ toNatBE k.dp = toNatBE pr.dp ∧
    toNatBE k.dq = toNatBE pr.dq ∧ toNatBE k.crt = toNatBE pr.crt := by
  unfold rsaParse
  refine ⟨?_, minimal_value _, minimal_value _, minimal_value _, minimal_value _, minimal_value _,
    minimal_value _, minimal_value _⟩
  cases jwt <;> simp [minimal_value]

/-- **key round trip 2**: for ANY proto (any leading zeros in any field), whatever the serializer
    writes for the parsed key has the same eight VALUES, n / e / p / q in minimal form (the JWT
    parsers: n verbatim) and d, dp, dq, crt of the lengths len(n), len(p), len(q), len(p) -/
theorem rsaSerialize_rsaParse {pr pr' : RsaProto} {jwt : Bool}
    (h : rsaSerialize (rsaParse pr jwt) = .ok pr') :
    pr'.n = (if jwt then pr.n else minimal pr.n) ∧ pr'.e = minimal pr.e ∧ pr'.p = minimal pr.p ∧
    pr'.q = minimal pr.q ∧
    toNatBE pr'.d = toNatBE pr.d ∧ toNatBE pr'.dp = toNatBE pr.dp ∧ toNatBE pr'.dq = toNatBE pr.dq ∧
    toNatBE pr'.crt = toNatBE pr.crt ∧
    pr'.d.length = pr'.n.length ∧ pr'.dp.length = pr'.p.length ∧ pr'.dq.length = pr'.q.length ∧
    pr'.crt.length = pr'.p.length := by
  obtain ⟨f1, f2, f3, f4, v1, v2, v3, v4, l1, l2, l3, l4⟩ := rsaSerialize_fields h
  obtain ⟨_, _, _, _, w1, w2, w3, w4⟩ := rsaParse_values pr jwt
  refine ⟨f1, f2, f3, f4, by omega, by omega, by omega, by omega, ?_, ?_, ?_, ?_⟩
  · rw [f1]; exact l1
  · rw [f3]; exact l2
  · rw [f4]; exact l3
  · rw [f3]; exact l4

/-- canonicity at key level (RSA-SSA-PKCS1 / PSS parsers): two protos whose eight fields have the
    same VALUES parse to the same key, hence to Equal keys -/
theorem rsaParse_canonical (pr pr' : RsaProto) (hn : toNatBE pr.n = toNatBE pr'.n)
    (he : toNatBE pr.e = toNatBE pr'.e) (hp : toNatBE pr.p = toNatBE pr'.p)
    (hq : toNatBE pr.q = toNatBE pr'.q) (hd : toNatBE pr.d = toNatBE pr'.d)
    (hdp : toNatBE pr.dp = toNatBE pr'.dp) (hdq : toNatBE pr.dq = toNatBE pr'.dq)
    (hcrt : toNatBE pr.crt = toNatBE pr'.crt) : rsaParse pr false = rsaParse pr' false := by
  unfold rsaParse
  simp only [Bool.false_eq_true, ↓reduceIte, (minimal_canonical _ _).mpr hn,
    (minimal_canonical _ _).mpr he, (minimal_canonical _ _).mpr hp, (minimal_canonical _ _).mpr hq,
    (minimal_canonical _ _).mpr hd, (minimal_canonical _ _).mpr hdp,
    (minimal_canonical _ _).mpr hdq, (minimal_canonical _ _).mpr hcrt]

/-- … the JWT RSA parsers are canonical in every field EXCEPT the modulus, which must match
    byte for byte -/
theorem rsaParse_jwt_canonical (pr pr' : RsaProto) (hn : pr.n = pr'.n)
    (he : toNatBE pr.e = toNatBE pr'.e) (hp : toNatBE pr.p = toNatBE pr'.p)
    (hq : toNatBE pr.q = toNatBE pr'.q) (hd : toNatBE pr.d = toNatBE pr'.d)
    (hdp : toNatBE pr.dp = toNatBE pr'.dp) (hdq : toNatBE pr.dq = toNatBE pr'.dq)
    (hcrt : toNatBE pr.crt = toNatBE pr'.crt) : rsaParse pr true = rsaParse pr' true := by
  unfold rsaParse
  simp only [↓reduceIte, hn,
    (minimal_canonical _ _).mpr he, (minimal_canonical _ _).mpr hp, (minimal_canonical _ _).mpr hq,
    (minimal_canonical _ _).mpr hd, (minimal_canonical _ _).mpr hdp,
    (minimal_canonical _ _).mpr hdq, (minimal_canonical _ _).mpr hcrt]

/-- DISCREPANCY (known, see the harness notes): a JWT RSA modulus with a leading zero byte parses
    to a key that is NOT the key of the same modulus without it. -/
theorem rsaParse_jwt_modulus_not_canonical :
    ∃ pr pr' : RsaProto, toNatBE pr.n = toNatBE pr'.n ∧ pr.e = pr'.e ∧ pr.p = pr'.p ∧ pr.q = pr'.q ∧
      pr.d = pr'.d ∧ pr.dp = pr'.dp ∧ pr.dq = pr'.dq ∧ pr.crt = pr'.crt ∧
      rsaParse pr true ≠ rsaParse pr' true :=
  ⟨⟨[0, 1], [], [], [], [], [], [], []⟩, ⟨[1], [], [], [], [], [], [], []⟩, by decide⟩

/-- the serialization is injective on well-formed keys -/
theorem rsaSerialize_injective {k k' : RsaKey} {jwt : Bool} (h : k.WellFormed jwt)
    (h' : k'.WellFormed jwt) {pr : RsaProto} (hs : rsaSerialize k = .ok pr)
    (hs' : rsaSerialize k' = .ok pr) : k = k' := by
  rw [← rsaParse_rsaSerialize h hs, ← rsaParse_rsaSerialize h' hs']

example : (⟨[1, 0, 0], [1, 0, 1], [200], [201], [5], [7], [9], [11]⟩ : RsaKey).WellFormed false := by
  unfold RsaKey.WellFormed; decide
example : rsaSerialize ⟨[1, 0, 0], [1, 0, 1], [200], [201], [5], [7], [9], [11]⟩ =
    .ok ⟨[1, 0, 0], [1, 0, 1], [200], [201], [0, 0, 5], [7], [9], [11]⟩ := by rfl
example : adjustEncodingLengths [1] [1] [1] [1] [1] [1, 2] [1, 2] = .error "dq" := by rfl
-- hypotheses of `adjust_ok_of_values` / `rsaSerialize_ok_of_values` are satisfiable
example : Minimal [5] ∧ Minimal [7] ∧ Minimal [9] ∧ Minimal [11] ∧ toNatBE [5] ≤ toNatBE [1, 0, 0] ∧
    toNatBE [7] ≤ toNatBE [200] ∧ toNatBE [9] ≤ toNatBE [201] ∧ toNatBE [11] ≤ toNatBE [200] := by decide
-- a proto with leading zeros everywhere parses (RSA-SSA style) to the same key as the canonical one
example : rsaParse ⟨[0, 1, 0, 0], [0, 1, 0, 1], [0, 200], [0, 0, 201], [5], [0, 0, 0, 7], [0, 9], [11]⟩ false =
    ⟨[1, 0, 0], [1, 0, 1], [200], [201], [5], [7], [9], [11]⟩ := by decide

section AxiomAudit
#print axioms toFixed_eq
#print axioms toFixed_isSome_iff
#print axioms toFixed_eq_none_iff
#print axioms toFixed_length
#print axioms toFixed_value
#print axioms toFixed_canonical
#print axioms toFixed_leading_zeros
#print axioms toFixed_idem
#print axioms toFixed_of_length
#print axioms toFixed_comp
#print axioms toFixed_eq_iff
#print axioms minimal_value
#print axioms minimal_isMinimal
#print axioms minimal_of_isMinimal
#print axioms minimal_idem
#print axioms minimal_zeros_append
#print axioms isMinimal_length_le_of_value_le
#print axioms isMinimal_unique
#print axioms minimal_canonical
#print axioms natBytes_value
#print axioms natBytes_isMinimal
#print axioms minimal_eq_natBytes
#print axioms pad_eq_toFixed
#print axioms pad_isSome_iff
#print axioms pad_length
#print axioms pad_value
#print axioms minimal_pad_of_isMinimal
#print axioms pad_minimal_of_pad
#print axioms pad_isSome_of_value_lt
#print axioms protoCoord_of_length
#print axioms parseCoord_isSome_iff
#print axioms parseCoord_leading_zeros
#print axioms parseCoord_canonical
#print axioms parseCoord_protoCoord
#print axioms protoCoord_parseCoord
#print axioms protoCoord_reserialize
#print axioms privateKeyValue_eq
#print axioms encodePoint_of_le
#print axioms encodePoint_exact
#print axioms pointCoords_concatPoint
#print axioms pointCoords_isSome_iff
#print axioms ecSerialize_wellFormed
#print axioms ecParse_ecSerialize
#print axioms ecParse_isSome_iff
#print axioms ecParse_wellFormed
#print axioms ecSerialize_ecParse
#print axioms ecParse_canonical
#print axioms ec_reserialize_identical
#print axioms ecSerialize_injective
#print axioms adjust_ok_iff
#print axioms adjust_error
#print axioms adjust_lengths
#print axioms adjust_values
#print axioms adjust_ok_of_values
#print axioms rsaSerialize_fields
#print axioms rsaSerialize_ok_of_values
#print axioms rsaParse_rsaSerialize
#print axioms rsa_reserialize_identical
#print axioms rsaParse_wellFormed
#print axioms rsaParse_values
#print axioms rsaSerialize_rsaParse
#print axioms rsaParse_canonical
#print axioms rsaParse_jwt_canonical
#print axioms rsaParse_jwt_modulus_not_canonical
#print axioms rsaSerialize_injective
end AxiomAudit

end TinkVerif.C12BigInt
