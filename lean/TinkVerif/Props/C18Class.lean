import TinkVerif.Gen.MutFacts
/-!
# C18 — regenerated mutation facts: classification

`Gen/MutFacts.lean` is regenerated on every run from all non-test packages of /repo: every store
through a method receiver (field, element of a field-held slice/map, through a local alias), every
call of a mutating method on a receiver-held stateful object (`hash.Hash`, `cipher.Stream`,
`cipher.BlockMode`, `io.Reader/Writer`, `bytes.Buffer`, `big.Int`, SHAKE), every store to a
package-level variable outside `init` (also `otherpkg.Var = …`).

Shared state by construction (facts `global-var`, `global-call`; their `owner` is the variable): every
package-level variable whose type is or contains a `sync.Pool`, `sync.Map`, a mutex / `sync.Once`, an
atomic or a channel, every struct field of such a type (`field-var`, owner = the struct type: state kept per
object is shared by all goroutines using the object), and every method call on a package-level variable
outside `init`. These are
classified per *variable* (`allowedGlobals`): a new pool / cache / registry variable is a new,
unclassified fact whatever function touches it. The current tree has NO `sync.Pool` at all (neither
package-level nor in a struct): nothing is recycled between calls, streams or objects, so no `pool`
variable is allow-listed.

In-place rewriting of containers that other objects may hold (facts `recv-inplace-write`: `r.f[k] = v`,
`delete(r.f, k)`, `clear(r.f)`, `copy(r.f, …)`, `maps.Copy(r.f, …)`, `slices.Delete(r.f, …)`, `sort.*(r.f)`,
`append(r.f[:k], …)` on a map- or slice-typed receiver field, also through a local alias) and, for exactly
those fields, every place where the field value is handed to other code without a copy (facts
`recv-field-escape`: returned, stored into another object or a composite literal, passed to a call other
than len/cap/Clone/…). These are classified one by one (`allowedFieldFacts`, exact match on package,
function and text): a method that starts to rewrite a map it has already handed out — instead of
replacing it — is a new fact even though its receiver type is an allow-listed builder.

The property holds for this code base because primitives are immutable after construction (the
`ReadOnly` hypothesis of `Props/C18.lean`).  Hence the expected fact set: *no* fact on any primitive
type; the only receiver types and globals that are written after construction are the ones listed
here, each with the reason it is not shared between goroutines by the API contract.
-/
namespace TinkVerif.Gen.MutFacts

inductive Why
  | perStream     -- object created by NewEncryptingWriter / NewDecryptingReader for one stream; io.Reader/io.Writer are not concurrency-safe by contract
  | perCall       -- object created inside one call and dropped at its end
  | builder       -- explicit mutable builder/manager object documented as not thread-safe (keyset.Manager, config builder, MemReaderWriter)
  | construction  -- method only called while the owning object is being constructed, before it is shared
  | lockedGlobal  -- package-level registry written only under its mutex
  | initOnly      -- package-level table filled by functions that are only called from `init`
  | syncRegistry  -- registration API of a package-level registry backed by sync.Map / internal/syncmap (synchronised container)
  | syncContainer -- package-level registry variable of type *internal/syncmap.Map (a typed sync.Map): every access, read or write, goes
                  -- through the synchronised container; entries are immutable once stored (parsers, serializers, constructors, key managers)
  | lockVar       -- the RWMutex that guards a `lockedGlobal` registry (readers take RLock, writers Lock)
  | ownScratch    -- in-place write to a buffer / set that belongs to this one object and is only handed, for the duration of a call,
                  -- to the segment cipher or io.Reader the object was built with (per-stream / builder objects, not shared by contract)
  | readOnlyHelper -- the field is passed to a package-private function that only reads it (no retention, no write)
  | beforeShared  -- in-place write happens only while the object is being constructed, before it is handed out
  | ownGrowth     -- the callee is the in-place write itself (slices.Delete on the own field; the result is stored back)
  deriving DecidableEq, Repr

/-- (package, receiver type or function) that may carry mutation facts, and why -/
def allowedOwners : List (String × String × Why) := [
  ("streamingaead/subtle/noncebased", "Writer", .perStream),
  ("streamingaead/subtle/noncebased", "Reader", .perStream),
  ("streamingaead/subtle", "aesCTRHMACSegmentEncrypter", .perStream),
  ("streamingaead/subtle", "aesCTRHMACSegmentDecrypter", .perStream),
  ("streamingaead", "decryptReader", .perStream),
  ("streamingaead", "unreader", .perStream),
  ("keyset", "Manager", .builder),
  ("keyset", "MemReaderWriter", .builder),
  ("internal/config", "Builder", .builder),
  ("internal/prefixmap", "PrefixMap", .construction),
  ("internal/prefixmap", "Iterator", .perCall),
  ("internal/aead", "polyval", .perCall),
  ("aead/subtle", "polyval", .perCall),
  ("hybrid/internal/hpke", "context", .perCall),
  ("core/registry", "RegisterKeyManager", .syncRegistry),
  ("core/registry", "UnregisterKeyManager", .syncRegistry),
  ("internal/keygenregistry", "RegisterKeyCreator", .syncRegistry),
  ("internal/keygenregistry", "UnregisterKeyCreator", .syncRegistry),
  ("internal/primitiveregistry", "RegisterPrimitiveConstructor", .syncRegistry),
  ("internal/primitiveregistry", "UnregisterPrimitiveConstructor", .syncRegistry),
  ("internal/protoserialization", "ClearParametersSerializers", .syncRegistry),
  ("internal/protoserialization", "RegisterKeyParser", .syncRegistry),
  ("internal/protoserialization", "RegisterKeySerializer", .syncRegistry),
  ("internal/protoserialization", "RegisterParametersParser", .syncRegistry),
  ("internal/protoserialization", "RegisterParametersSerializer", .syncRegistry),
  ("internal/protoserialization", "UnregisterKeyParser", .syncRegistry),
  ("internal/protoserialization", "UnregisterKeySerializer", .syncRegistry),
  ("internal/protoserialization", "UnregisterParametersParser", .syncRegistry),
  ("core/registry", "RegisterKMSClient", .lockedGlobal),
  ("core/registry", "ClearKMSClients", .lockedGlobal),
  ("internal/internalregistry", "RegisterMonitoringClient", .lockedGlobal),
  ("internal/internalregistry", "ClearMonitoringClient", .lockedGlobal),
  ("keyderivation/internal/keyderivers", "addAESGCMKeyDeriver", .initOnly),
  ("keyderivation/internal/keyderivers", "addAESSIVKeyDeriver", .initOnly),
  ("keyderivation/internal/keyderivers", "addHKDFPRFKeyDeriver", .initOnly),
  ("keyderivation/internal/keyderivers", "addHMACKeyDeriver", .initOnly),
  ("keyderivation/internal/keyderivers", "addHMACPRFKeyDeriver", .initOnly),
  ("keyderivation/internal/keyderivers", "addSignatureED25519KeyDeriver", .initOnly),
  ("keyderivation/internal/keyderivers", "addStreamingAEADAESGCMHKDFKeyDeriver", .initOnly),
  ("keyderivation/internal/keyderivers", "addXChaCha20Poly1305KeyDeriver", .initOnly)
]

/-- (package, package-level variable) of synchronisation / container type, or receiving method calls outside init, and why
    concurrent use is safe. No `sync.Pool` exists in the current tree. -/
def allowedGlobals : List (String × String × Why) := [
  ("core/registry", "keyManagers", .syncContainer),
  ("core/registry", "kmsClientsMu", .lockVar),
  ("internal/internalregistry", "monitoringClientMu", .lockVar),
  ("internal/keygenregistry", "keyCreators", .syncContainer),
  ("internal/primitiveregistry", "primitiveConstructors", .syncContainer),
  ("internal/protoserialization", "keyParsers", .syncContainer),
  ("internal/protoserialization", "keySerializers", .syncContainer),
  ("internal/protoserialization", "parameterParsers", .syncContainer),
  ("internal/protoserialization", "parameterSerializers", .syncContainer),
  -- `field-var`: struct field of sync / atomic / channel type (owner = the struct type): the typed wrapper around sync.Map itself
  ("internal/syncmap", "Map", .syncContainer)
]

/-- (package, function, kind, text) of every in-place write to a map / slice field and of every hand-out of such a field -/
def allowedFieldFacts : List (String × String × String × String × Why) := [
  -- PrefixMap: filled by Insert while the wrapper primitive is constructed; afterwards only read (the iterator gets the bucket)
  ("internal/prefixmap", "PrefixMap.Insert", "recv-inplace-write", "items : index-store", .beforeShared),
  ("internal/prefixmap", "PrefixMap.PrimitivesMatchingPrefix", "recv-field-escape", "items : stored-into Iterator[P]{}", .beforeShared),
  -- keyset.Manager: unavailableKeyIDs never leaves the manager; entries is copied entry by entry in Handle()
  ("keyset", "Manager.AddKeyWithOpts", "recv-inplace-write", "unavailableKeyIDs : index-store", .builder),
  ("keyset", "Manager.newRandomKeyID", "recv-inplace-write", "unavailableKeyIDs : index-store", .builder),
  ("keyset", "Manager.Delete", "recv-inplace-write", "entries : slices.Delete", .builder),
  ("keyset", "Manager.Delete", "recv-field-escape", "entries : passed-to slices.Delete", .ownGrowth),
  ("keyset", "Manager.Delete", "recv-field-escape", "entries : passed-to findEntry", .readOnlyHelper),
  ("keyset", "Manager.Disable", "recv-field-escape", "entries : passed-to findEntry", .readOnlyHelper),
  ("keyset", "Manager.Enable", "recv-field-escape", "entries : passed-to findEntry", .readOnlyHelper),
  ("keyset", "Manager.SetPrimary", "recv-field-escape", "entries : passed-to findEntry", .readOnlyHelper),
  -- noncebased Reader / Writer: the segment buffers are allocated by NewReader / NewWriter for this one stream
  ("streamingaead/subtle/noncebased", "Reader.Read", "recv-inplace-write", "ciphertext : index-store", .ownScratch),
  ("streamingaead/subtle/noncebased", "Reader.Read", "recv-field-escape", "ciphertext : passed-to io.ReadFull", .ownScratch),
  ("streamingaead/subtle/noncebased", "Reader.Read", "recv-field-escape", "ciphertext : passed-to r.segmentDecrypter.DecryptSegment", .ownScratch),
  ("streamingaead/subtle/noncebased", "Reader.Read", "recv-field-escape", "ciphertext : passed-to r.segmentDecrypterWithDst.DecryptSegmentWithDst", .ownScratch),
  ("streamingaead/subtle/noncebased", "Writer.Write", "recv-inplace-write", "plaintext : copy", .ownScratch),
  ("streamingaead/subtle/noncebased", "Writer.Write", "recv-field-escape", "plaintext : passed-to w.segmentEncrypter.EncryptSegment", .ownScratch),
  ("streamingaead/subtle/noncebased", "Writer.Write", "recv-field-escape", "plaintext : passed-to w.segmentEncrypterWithDst.EncryptSegmentWithDst", .ownScratch),
  ("streamingaead/subtle/noncebased", "Writer.Close", "recv-field-escape", "plaintext : passed-to w.segmentEncrypter.EncryptSegment", .ownScratch),
  ("streamingaead/subtle/noncebased", "Writer.Close", "recv-field-escape", "plaintext : passed-to w.segmentEncrypterWithDst.EncryptSegmentWithDst", .ownScratch)
]

def isGlobalKind (k : String) : Bool := k == "global-var" || k == "global-call" || k == "field-var"
def isFieldKind (k : String) : Bool := k == "recv-inplace-write" || k == "recv-field-escape"

def classified (f : Fact) : Bool :=
  if isGlobalKind f.kind then allowedGlobals.any fun (pkg, v, _) => pkg == f.pkg && v == f.owner
  else if isFieldKind f.kind then allowedFieldFacts.any fun (pkg, fn, kind, what, _) => pkg == f.pkg && fn == f.fn && kind == f.kind && what == f.what
  else allowedOwners.any fun (pkg, owner, _) => pkg == f.pkg && owner == f.owner

def unexpected : List Fact := facts.filter fun f => !classified f

/-- variables of pool type (recycled memory shared by every user of the package) -/
def pools : List Fact := facts.filter fun f => (f.kind == "global-var" && f.what.startsWith "pool") || (f.kind == "field-var" && (f.what.splitOn " : ").contains "pool")

end TinkVerif.Gen.MutFacts
