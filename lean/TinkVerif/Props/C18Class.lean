import TinkVerif.Gen.MutFacts
/-!
# C18 — regenerated mutation facts: classification

`Gen/MutFacts.lean` is regenerated on every run from all non-test packages of /repo. The extractor computes, by a
fixpoint over the call graph of the whole module, a summary of every function: stores through its receiver (field,
element of a field-held slice/map, through a local alias or a sub-object), calls of mutating methods on
receiver-held stateful objects (`hash.Hash`, `cipher.Stream`, `cipher.BlockMode`, `io.Reader/Writer`, `bytes.Buffer`,
`big.Int`, SHAKE), stores to package-level variables outside `init` (also `otherpkg.Var = …`). Summaries of helpers
(`r.h(…)`, `h(r, …)`, `h(r.f)`, `r.f.m(…)`) are applied at their call sites, and a fact is the summary of an ENTRY
POINT: an exported function, a method with an exported (or interface) name, a function whose value is used. Moving a
store into a helper, renaming a local or a parameter, or inlining a helper leaves the fact set unchanged (`what` is
canonical: field / type / package-level names, `recv`, positions `#i`; `info` — names, helper chain — is not compared).
Functions only reachable from `init` (table fillers) have no facts: initialisation is not use.

The property holds for this code base because primitives are immutable after construction (the
`ReadOnly` hypothesis of `Props/C18.lean`).  Hence the expected fact set: *no* fact on any primitive
type; the only receiver types and globals that are written after construction are the ones listed
here, each with the reason it is not shared between goroutines by the API contract.

Shared state by construction (facts `global-var`, `global-call`; their `owner` is the variable): every
package-level variable whose type is or contains a `sync.Pool`, `sync.Map`, a mutex / `sync.Once`, an
atomic or a channel, every struct field of such a type (`field-var`, owner = the struct type: state kept per
object is shared by all goroutines using the object), and every method call on a package-level variable
outside `init` — except on values of standard-library types that are immutable / concurrency-safe by
documentation and used through read-only methods (`*base64.Encoding`, `*regexp.Regexp`, `*big.Int` with
read-only methods, `elliptic.Curve`, errors, `binary.ByteOrder`): those are decided by TYPE and method set, not
per variable. The rest is classified per *variable* (`allowedGlobals`): a new pool / cache / registry variable
is a new, unclassified fact whatever function touches it. The current tree has NO `sync.Pool` at all (neither
package-level nor in a struct): nothing is recycled between calls, streams or objects, so no `pool`
variable is allow-listed.

In-place rewriting of containers that other objects may hold (facts `recv-inplace-write`: `r.f[k] = v`,
`delete(r.f, k)`, `clear(r.f)`, `copy(r.f, …)`, `maps.Copy(r.f, …)`, `slices.Delete(r.f, …)`, `sort.*(r.f)`,
`append(r.f[:k], …)` on a map- or slice-typed receiver field, also through a local alias or a helper) and, for
exactly those fields, every place where the field value is handed to other code without a copy (facts
`recv-field-escape`: returned, stored into another object or a composite literal, passed to a callee that cannot
be seen or that keeps / hands it on; read-only helpers of the module and read-only library functions do not
count). These are classified one by one (`allowedFieldFacts`, exact match on package, entry point and canonical
text): a method that starts to rewrite a map it has already handed out — instead of replacing it — is a new
fact even though its receiver type is an allow-listed builder.

An allowance that no longer has a fact is printed as a NOTE by the report and fails nothing. Loss of type
information is guarded at the source: the extractor refuses (the regeneration fails) when a package of the module
does not type-check or when no call site resolves to a function of the module.
-/
namespace TinkVerif.Gen.MutFacts

inductive Why
  | perStream     -- object created by NewEncryptingWriter / NewDecryptingReader for one stream; io.Reader/io.Writer are not concurrency-safe by contract
  | perCall       -- object created inside one call and dropped at its end
  | builder       -- explicit mutable builder/manager object documented as not thread-safe (keyset.Manager, config builder, MemReaderWriter)
  | construction  -- method only called while the owning object is being constructed, before it is shared
  | lockedGlobal  -- package-level registry written only under its mutex
  | initOnly      -- package-level table filled by functions that are only called from `init` (such functions have no facts any more; kept for the record)
  | syncRegistry  -- registration API of a package-level registry backed by sync.Map / internal/syncmap (synchronised container)
  | syncContainer -- package-level registry variable of type *internal/syncmap.Map (a typed sync.Map): every access, read or write, goes
                  -- through the synchronised container; entries are immutable once stored (parsers, serializers, constructors, key managers)
  | lockVar       -- the RWMutex that guards a `lockedGlobal` registry (readers take RLock, writers Lock)
  | ownScratch    -- in-place write to a buffer / set that belongs to this one object and is only handed, for the duration of a call,
                  -- to the segment cipher or io.Reader the object was built with (per-stream / builder objects, not shared by contract)
  | readOnlyHelper -- the field is passed to a package-private function that only reads it (no retention, no write)
  | beforeShared  -- in-place write happens only while the object is being constructed, before it is handed out
  | ownGrowth     -- the callee is the in-place write itself (slices.Delete on the own field; the result is stored back)
  deriving DecidableEq, Repr

/-- (package, receiver type or function) that may carry mutation facts, and why -/
def allowedOwners : List (String × String × Why) := [
  ("streamingaead/subtle/noncebased", "Writer", .perStream),
  ("streamingaead/subtle/noncebased", "Reader", .perStream),
  ("streamingaead/subtle", "aesCTRHMACSegmentEncrypter", .perStream),
  ("streamingaead/subtle", "aesCTRHMACSegmentDecrypter", .perStream),
  ("streamingaead", "decryptReader", .perStream),
  ("streamingaead", "unreader", .perStream),
  ("keyset", "Manager", .builder),
  ("keyset", "MemReaderWriter", .builder),
  ("internal/config", "Builder", .builder),
  ("internal/prefixmap", "PrefixMap", .construction),
  ("internal/prefixmap", "Iterator", .perCall),
  ("internal/aead", "polyval", .perCall),
  ("aead/subtle", "polyval", .perCall),
  ("hybrid/internal/hpke", "context", .perCall),
  ("core/registry", "RegisterKeyManager", .syncRegistry),
  ("core/registry", "UnregisterKeyManager", .syncRegistry),
  ("internal/keygenregistry", "RegisterKeyCreator", .syncRegistry),
  ("internal/keygenregistry", "UnregisterKeyCreator", .syncRegistry),
  ("internal/primitiveregistry", "RegisterPrimitiveConstructor", .syncRegistry),
  ("internal/primitiveregistry", "UnregisterPrimitiveConstructor", .syncRegistry),
  ("internal/protoserialization", "ClearParametersSerializers", .syncRegistry),
  ("internal/protoserialization", "RegisterKeyParser", .syncRegistry),
  ("internal/protoserialization", "RegisterKeySerializer", .syncRegistry),
  ("internal/protoserialization", "RegisterParametersParser", .syncRegistry),
  ("internal/protoserialization", "RegisterParametersSerializer", .syncRegistry),
  ("internal/protoserialization", "UnregisterKeyParser", .syncRegistry),
  ("internal/protoserialization", "UnregisterKeySerializer", .syncRegistry),
  ("internal/protoserialization", "UnregisterParametersParser", .syncRegistry),
  ("core/registry", "RegisterKMSClient", .lockedGlobal),
  ("core/registry", "ClearKMSClients", .lockedGlobal),
  ("internal/internalregistry", "RegisterMonitoringClient", .lockedGlobal),
  ("internal/internalregistry", "ClearMonitoringClient", .lockedGlobal)
]

/-- (package, package-level variable) of synchronisation / container type, or receiving method calls outside init, and why
    concurrent use is safe. No `sync.Pool` exists in the current tree. -/
def allowedGlobals : List (String × String × Why) := [
  ("core/registry", "keyManagers", .syncContainer),
  ("core/registry", "kmsClientsMu", .lockVar),
  ("internal/internalregistry", "monitoringClientMu", .lockVar),
  ("internal/keygenregistry", "keyCreators", .syncContainer),
  ("internal/primitiveregistry", "primitiveConstructors", .syncContainer),
  ("internal/protoserialization", "keyParsers", .syncContainer),
  ("internal/protoserialization", "keySerializers", .syncContainer),
  ("internal/protoserialization", "parameterParsers", .syncContainer),
  ("internal/protoserialization", "parameterSerializers", .syncContainer),
  -- `field-var`: struct field of sync / atomic / channel type (owner = the struct type): the typed wrapper around sync.Map itself
  ("internal/syncmap", "Map", .syncContainer)
]

/-- (package, function, kind, text) of every in-place write to a map / slice field and of every hand-out of such a field -/
def allowedFieldFacts : List (String × String × String × String × Why) := [
  -- PrefixMap: filled by Insert while the wrapper primitive is constructed; afterwards only read (the iterator gets the bucket)
  ("internal/prefixmap", "PrefixMap.Insert", "recv-inplace-write", "items : index-store", .beforeShared),
  ("internal/prefixmap", "PrefixMap.PrimitivesMatchingPrefix", "recv-field-escape", "items : stored-into Iterator.fiveBytePrefixedPrimitives", .beforeShared),
  ("internal/prefixmap", "PrefixMap.PrimitivesMatchingPrefix", "recv-field-escape", "items : stored-into Iterator.rawPrimitives", .beforeShared),
  -- config.Builder: registration while the configuration is built
  ("internal/config", "Builder.RegisterPrimitiveConstructor", "recv-inplace-write", "config.primitiveConstructors : index-store", .builder),
  -- keyset.Manager: unavailableKeyIDs never leaves the manager; entries is copied entry by entry in Handle()
  ("keyset", "Manager.Add", "recv-inplace-write", "unavailableKeyIDs : index-store", .builder),
  ("keyset", "Manager.AddKeyWithOpts", "recv-inplace-write", "unavailableKeyIDs : index-store", .builder),
  ("keyset", "Manager.Delete", "recv-inplace-write", "entries : slices.Delete", .builder),
  -- noncebased Reader / Writer: the segment buffers are allocated by NewReader / NewWriter for this one stream
  ("streamingaead/subtle/noncebased", "Reader.Read", "recv-inplace-write", "ciphertext : index-store", .ownScratch),
  ("streamingaead/subtle/noncebased", "Reader.Read", "recv-field-escape", "ciphertext : passed-to io.ReadFull", .ownScratch),
  ("streamingaead/subtle/noncebased", "Reader.Read", "recv-field-escape", "ciphertext : passed-to recv.segmentDecrypter.DecryptSegment", .ownScratch),
  ("streamingaead/subtle/noncebased", "Reader.Read", "recv-field-escape", "ciphertext : passed-to recv.segmentDecrypterWithDst.DecryptSegmentWithDst", .ownScratch),
  ("streamingaead/subtle/noncebased", "Writer.Write", "recv-inplace-write", "plaintext : copy", .ownScratch),
  ("streamingaead/subtle/noncebased", "Writer.Write", "recv-field-escape", "plaintext : passed-to recv.segmentEncrypter.EncryptSegment", .ownScratch),
  ("streamingaead/subtle/noncebased", "Writer.Write", "recv-field-escape", "plaintext : passed-to recv.segmentEncrypterWithDst.EncryptSegmentWithDst", .ownScratch),
  ("streamingaead/subtle/noncebased", "Writer.Close", "recv-field-escape", "plaintext : passed-to recv.segmentEncrypter.EncryptSegment", .ownScratch),
  ("streamingaead/subtle/noncebased", "Writer.Close", "recv-field-escape", "plaintext : passed-to recv.segmentEncrypterWithDst.EncryptSegmentWithDst", .ownScratch)
]

def isGlobalKind (k : String) : Bool := k == "global-var" || k == "global-call" || k == "field-var"
def isFieldKind (k : String) : Bool := k == "recv-inplace-write" || k == "recv-field-escape"

def classified (f : Fact) : Bool :=
  if isGlobalKind f.kind then allowedGlobals.any fun (pkg, v, _) => pkg == f.pkg && v == f.owner
  else if isFieldKind f.kind then allowedFieldFacts.any fun (pkg, fn, kind, what, _) => pkg == f.pkg && fn == f.fn && kind == f.kind && what == f.what
  else allowedOwners.any fun (pkg, owner, _) => pkg == f.pkg && owner == f.owner

def unexpected : List Fact := facts.filter fun f => !classified f

/-- allowances without a fact (informational: printed by the report as NOTE, never a failure) -/
def staleOwners : List (String × String × Why) :=
  allowedOwners.filter fun (pkg, owner, _) => !facts.any fun f => !isGlobalKind f.kind && !isFieldKind f.kind && f.pkg == pkg && f.owner == owner
def staleGlobals : List (String × String × Why) :=
  allowedGlobals.filter fun (pkg, v, _) => !facts.any fun f => isGlobalKind f.kind && f.pkg == pkg && f.owner == v
def staleFieldFacts : List (String × String × String × String × Why) :=
  allowedFieldFacts.filter fun (pkg, fn, kind, what, _) => !facts.any fun f => f.pkg == pkg && f.fn == fn && f.kind == kind && f.what == what

/-- variables of pool type (recycled memory shared by every user of the package) -/
def pools : List Fact := facts.filter fun f => (f.kind == "global-var" && f.what.startsWith "pool") || (f.kind == "field-var" && (f.what.splitOn " : ").contains "pool")

end TinkVerif.Gen.MutFacts
