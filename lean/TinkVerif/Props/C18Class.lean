import TinkVerif.Gen.MutFacts
/-!
# C18 — regenerated mutation facts: classification

`Gen/MutFacts.lean` is regenerated on every run from all non-test packages of /repo: every store
through a method receiver (field, element of a field-held slice/map, through a local alias), every
call of a mutating method on a receiver-held stateful object (`hash.Hash`, `cipher.Stream`,
`cipher.BlockMode`, `io.Reader/Writer`, `bytes.Buffer`, `big.Int`, SHAKE), every store to a
package-level variable outside `init`.

The property holds for this code base because primitives are immutable after construction (the
`ReadOnly` hypothesis of `Props/C18.lean`).  Hence the expected fact set: *no* fact on any primitive
type; the only receiver types and globals that are written after construction are the ones listed
here, each with the reason it is not shared between goroutines by the API contract.
-/
namespace TinkVerif.Gen.MutFacts

inductive Why
  | perStream     -- object created by NewEncryptingWriter / NewDecryptingReader for one stream; io.Reader/io.Writer are not concurrency-safe by contract
  | perCall       -- object created inside one call and dropped at its end
  | builder       -- explicit mutable builder/manager object documented as not thread-safe (keyset.Manager, config builder, MemReaderWriter)
  | construction  -- method only called while the owning object is being constructed, before it is shared
  | lockedGlobal  -- package-level registry written only under its mutex
  | initOnly      -- package-level table filled by functions that are only called from `init`
  | syncRegistry  -- registration API of a package-level registry backed by sync.Map / internal/syncmap (synchronised container)
  deriving DecidableEq, Repr

/-- (package, receiver type or function) that may carry mutation facts, and why -/
def allowedOwners : List (String × String × Why) := [
  ("streamingaead/subtle/noncebased", "Writer", .perStream),
  ("streamingaead/subtle/noncebased", "Reader", .perStream),
  ("streamingaead/subtle", "aesCTRHMACSegmentEncrypter", .perStream),
  ("streamingaead/subtle", "aesCTRHMACSegmentDecrypter", .perStream),
  ("streamingaead", "decryptReader", .perStream),
  ("streamingaead", "unreader", .perStream),
  ("keyset", "Manager", .builder),
  ("keyset", "MemReaderWriter", .builder),
  ("internal/config", "Builder", .builder),
  ("internal/prefixmap", "PrefixMap", .construction),
  ("internal/prefixmap", "Iterator", .perCall),
  ("internal/aead", "polyval", .perCall),
  ("aead/subtle", "polyval", .perCall),
  ("hybrid/internal/hpke", "context", .perCall),
  ("core/registry", "RegisterKeyManager", .syncRegistry),
  ("core/registry", "UnregisterKeyManager", .syncRegistry),
  ("internal/keygenregistry", "RegisterKeyCreator", .syncRegistry),
  ("internal/keygenregistry", "UnregisterKeyCreator", .syncRegistry),
  ("internal/primitiveregistry", "RegisterPrimitiveConstructor", .syncRegistry),
  ("internal/primitiveregistry", "UnregisterPrimitiveConstructor", .syncRegistry),
  ("internal/protoserialization", "ClearParametersSerializers", .syncRegistry),
  ("internal/protoserialization", "RegisterKeyParser", .syncRegistry),
  ("internal/protoserialization", "RegisterKeySerializer", .syncRegistry),
  ("internal/protoserialization", "RegisterParametersParser", .syncRegistry),
  ("internal/protoserialization", "RegisterParametersSerializer", .syncRegistry),
  ("internal/protoserialization", "UnregisterKeyParser", .syncRegistry),
  ("internal/protoserialization", "UnregisterKeySerializer", .syncRegistry),
  ("internal/protoserialization", "UnregisterParametersParser", .syncRegistry),
  ("core/registry", "RegisterKMSClient", .lockedGlobal),
  ("core/registry", "ClearKMSClients", .lockedGlobal),
  ("internal/internalregistry", "RegisterMonitoringClient", .lockedGlobal),
  ("internal/internalregistry", "ClearMonitoringClient", .lockedGlobal),
  ("keyderivation/internal/keyderivers", "addAESGCMKeyDeriver", .initOnly),
  ("keyderivation/internal/keyderivers", "addAESSIVKeyDeriver", .initOnly),
  ("keyderivation/internal/keyderivers", "addHKDFPRFKeyDeriver", .initOnly),
  ("keyderivation/internal/keyderivers", "addHMACKeyDeriver", .initOnly),
  ("keyderivation/internal/keyderivers", "addHMACPRFKeyDeriver", .initOnly),
  ("keyderivation/internal/keyderivers", "addSignatureED25519KeyDeriver", .initOnly),
  ("keyderivation/internal/keyderivers", "addStreamingAEADAESGCMHKDFKeyDeriver", .initOnly),
  ("keyderivation/internal/keyderivers", "addXChaCha20Poly1305KeyDeriver", .initOnly)
]

def classified (f : Fact) : Bool := allowedOwners.any fun (pkg, owner, _) => pkg == f.pkg && owner == f.owner

def unexpected : List Fact := facts.filter fun f => !classified f

end TinkVerif.Gen.MutFacts
