import TinkVerif.Model.MldsaPack
import TinkVerif.Props.C10

/-!
# C10 (continued) — laws of the ML-DSA packing codecs (FIPS 204 Algorithms 16–21, 28)

`Model/MldsaPack.lean` is a list-based model of `/repo/internal/signature/mldsa/marshal.go`
(`simpleBitPack`, `simpleBitUnpackPoly`, `bitPack`, `bitUnpackPoly`, `hintBitPack`, `hintBitUnpackVector`,
`w1Encode`), executed by the driver against the Go functions on every run (`D spack|sunpack|bpack|bunpack|
hpack|hunpack|w1enc`).  This file proves, for **all** coefficient lists / byte strings (no bound on values
or lengths beyond what is stated) and all positive widths:

1. `simpleBitUnpack_simpleBitPack` : `unpack b (pack b w) = w` if every coefficient `< 2^b` (any length
   whose bit length is a whole number of bytes; `_256` for polynomials), `simpleBitPack_length_256`:
   `32·b` bytes;
2. `simpleBitPack_simpleBitUnpack` : `pack b (unpack b e) = e` for every `e` whose bit length is a multiple
   of `b` (`_256`: `|e| = 32·b`) — the layer is a bijection, hence not malleable;
3. `bitUnpack_bitPack` : round trip for coefficients in the centered range `[−a, b]` as stored mod q;
   `bitPack_bitUnpack`: the converse whenever `2^bitlen(a+b) ≤ q` (`mldsa_bitPack_bijective`: all five
   signed ML-DSA shapes);
4. `hintBitUnpack_hintBitPack` : `unpack (pack h) = some h` for every 0/1 vector with at most ω ones
   (any k, any ω ≤ 255);
5. `hintBitUnpack_canonical` : `unpack y = some h → pack h = y` — every accepted hint encoding is THE
   encoding of what it decodes to (any ω, k); `hintBitUnpack_wf`, `hintBitUnpack_injective`;
6. rejection lemmas, one per malformed-input check of Algorithm 21: `hintBitUnpack_reject_length`,
   `…_counter_gt_omega`, `…_counter_decreasing`, `…_index_not_increasing`, `…_nonzero_padding`;
7. `hintBitPackGo_eq` : the literal Go loop (array writes) equals the closed form used in 4–5;
   `mldsa_hint_laws` restates 4–5 for the Go loop and (ω, k) ∈ {(80,4), (55,6), (75,8)};
8. `w1Encode_length`, `w1Encode_injective`; `subq_eq_gen`: the coefficient subtraction of the model is the
   regenerated Go `sub`.

Method: both packers are defined bit-wise like the Go loops (`byteBit`, `coeffBit`); the key lemmas
`byteBit_simpleBitPack` / `coeffBit_simpleBitUnpack` say that bit `i` of the byte string is bit `i mod b`
of coefficient `i / b`; the round trips follow by `Nat.testBit` extensionality.  For hints the decoder is
a recursion over the counter bytes; `hintUnpackLoop_some` extracts from an accepting run that the index
bytes are the concatenated position lists, the padding is zero and the counters are the running sums;
`positions_setOnes` (a strictly increasing list is determined by its set of elements) closes the loop.
-/
namespace TinkVerif.Model.MldsaPack
open TinkVerif

theorem testBit_natOfBits (n : Nat) (f : Nat → Bool) (j : Nat) :
    (natOfBits n f).testBit j = (decide (j < n) && f j) := by
  induction n generalizing f j with
  | zero => simp [natOfBits]
  | succ n ih =>
    cases j with
    | zero =>
      simp only [natOfBits, Nat.testBit_zero]
      cases f 0 <;> simp <;> omega
    | succ j =>
      rw [natOfBits, Nat.testBit_succ]
      have h : ((f 0).toNat + 2 * natOfBits n (fun j => f (j + 1))) / 2 = natOfBits n (fun j => f (j + 1)) := by
        cases f 0 <;> simp <;> omega
      rw [h, ih]; simp

theorem natOfBits_lt (n : Nat) (f : Nat → Bool) : natOfBits n f < 2 ^ n := by
  induction n generalizing f with
  | zero => simp [natOfBits]
  | succ n ih =>
    have := ih (fun j => f (j + 1))
    rw [natOfBits, Nat.pow_succ]
    cases f 0 <;> simp <;> omega

theorem natOfBits_congr (n : Nat) (f g : Nat → Bool) (h : ∀ j, j < n → f j = g j) :
    natOfBits n f = natOfBits n g := by
  apply Nat.eq_of_testBit_eq
  intro j
  rw [testBit_natOfBits, testBit_natOfBits]
  by_cases hj : j < n
  · simp [hj, h j hj]
  · simp [hj]

theorem natOfBits_testBit (n x : Nat) : natOfBits n (fun j => x.testBit j) = x % 2 ^ n := by
  apply Nat.eq_of_testBit_eq
  intro j
  rw [testBit_natOfBits, Nat.testBit_mod_two_pow]

theorem getD_map_range {α : Type} (n : Nat) (f : Nat → α) (d : α) (i : Nat) :
    ((List.range n).map f).getD i d = if i < n then f i else d := by
  rw [List.getD_eq_getElem?_getD, List.getElem?_map]
  by_cases h : i < n
  · simp [h]
  · simp [h]


/-! ### bit-level correspondence -/

theorem div_ge_of_dvd (i L : Nat) (hd : 8 ∣ L) (h : L / 8 ≤ i / 8) : L ≤ i := by
  obtain ⟨m, rfl⟩ := hd
  omega

theorem toNat_byte_natOfBits (f : Nat → Bool) : (UInt8.ofNat (natOfBits 8 f)).toNat = natOfBits 8 f := by
  rw [UInt8.toNat_ofNat']
  exact Nat.mod_eq_of_lt (natOfBits_lt 8 f)

/-- bit `i` of the packed bytes is bit `i mod bits` of coefficient `i / bits` -/
theorem byteBit_simpleBitPack (bits : Nat) (w : List Nat) (hb : 0 < bits) (hd : 8 ∣ w.length * bits) (i : Nat) :
    byteBit (simpleBitPack bits w) i = coeffBit w bits i := by
  unfold byteBit simpleBitPack
  rw [getD_map_range]
  by_cases h : i / 8 < w.length * bits / 8
  · simp only [h, ↓reduceIte]
    rw [toNat_byte_natOfBits, testBit_natOfBits]
    have h8 : i % 8 < 8 := Nat.mod_lt _ (by decide)
    have e : 8 * (i / 8) + i % 8 = i := Nat.div_add_mod i 8
    simp [h8, e]
  · simp only [h, ↓reduceIte]
    have hL : w.length * bits ≤ i := div_ge_of_dvd i _ hd (Nat.le_of_not_lt h)
    have hc : w.length ≤ i / bits := (Nat.le_div_iff_mul_le hb).2 hL
    unfold coeffBit
    rw [List.getD_eq_getElem?_getD, List.getElem?_eq_none hc]
    simp

theorem div_ge_of_dvd' (i L bits : Nat) (hb : 0 < bits) (hd : bits ∣ L) (h : L / bits ≤ i / bits) : L ≤ i := by
  obtain ⟨m, rfl⟩ := hd
  rw [Nat.mul_div_cancel_left m hb] at h
  have := Nat.div_mul_le_self i bits
  calc bits * m = m * bits := Nat.mul_comm _ _
    _ ≤ i / bits * bits := Nat.mul_le_mul_right _ h
    _ ≤ i := this

/-- bit `i mod bits` of unpacked coefficient `i / bits` is bit `i` of the byte string -/
theorem coeffBit_simpleBitUnpack (bits : Nat) (enc : Bytes) (hb : 0 < bits) (hd : bits ∣ enc.length * 8) (i : Nat) :
    coeffBit (simpleBitUnpack bits enc) bits i = byteBit enc i := by
  unfold coeffBit simpleBitUnpack
  rw [getD_map_range]
  by_cases h : i / bits < enc.length * 8 / bits
  · simp only [h, ↓reduceIte]
    rw [testBit_natOfBits]
    have hm : i % bits < bits := Nat.mod_lt _ hb
    have e : i / bits * bits + i % bits = i := Nat.div_add_mod' i bits
    simp [hm, e]
  · simp only [h, ↓reduceIte]
    have hL : enc.length * 8 ≤ i := div_ge_of_dvd' i _ bits hb hd (Nat.le_of_not_lt h)
    have hc : enc.length ≤ i / 8 := by omega
    unfold byteBit
    rw [List.getD_eq_getElem?_getD, List.getElem?_eq_none hc]
    simp

/-! ### lengths -/

theorem simpleBitPack_length (bits : Nat) (w : List Nat) : (simpleBitPack bits w).length = w.length * bits / 8 := by
  simp [simpleBitPack]

theorem simpleBitUnpack_length (bits : Nat) (enc : Bytes) : (simpleBitUnpack bits enc).length = enc.length * 8 / bits := by
  simp [simpleBitUnpack]

/-- a polynomial (256 coefficients) packs into `32·bits` bytes -/
theorem simpleBitPack_length_256 (bits : Nat) (w : List Nat) (hw : w.length = 256) :
    (simpleBitPack bits w).length = 32 * bits := by
  rw [simpleBitPack_length, hw]; omega

/-- `32·bits` bytes unpack into 256 coefficients -/
theorem simpleBitUnpack_length_256 (bits : Nat) (enc : Bytes) (hb : 0 < bits) (he : enc.length = 32 * bits) :
    (simpleBitUnpack bits enc).length = 256 := by
  rw [simpleBitUnpack_length, he]
  have : 32 * bits * 8 = 256 * bits := by omega
  rw [this, Nat.mul_div_cancel _ hb]

/-! ### SimpleBitPack / SimpleBitUnpack are mutually inverse -/

theorem mul_add_div_self (c bits j : Nat) (hj : j < bits) : (c * bits + j) / bits = c := by
  rw [Nat.mul_comm, Nat.mul_add_div (by omega), Nat.div_eq_of_lt hj]; rfl

theorem mul_add_mod_self' (c bits j : Nat) (hj : j < bits) : (c * bits + j) % bits = j := by
  rw [Nat.mul_comm, Nat.mul_add_mod, Nat.mod_eq_of_lt hj]

/-- **Round trip.** Every coefficient list whose bit length is a whole number of bytes (in particular
every polynomial) with coefficients below `2^bits` is recovered from its packing. -/
theorem simpleBitUnpack_simpleBitPack (bits : Nat) (w : List Nat) (hb : 0 < bits)
    (hd : 8 ∣ w.length * bits) (hr : ∀ c ∈ w, c < 2 ^ bits) :
    simpleBitUnpack bits (simpleBitPack bits w) = w := by
  have hlen : (simpleBitUnpack bits (simpleBitPack bits w)).length = w.length := by
    rw [simpleBitUnpack_length, simpleBitPack_length, Nat.div_mul_cancel hd, Nat.mul_div_cancel _ hb]
  apply List.ext_getElem hlen
  intro c h1 h2
  have hb' : (fun j => byteBit (simpleBitPack bits w) (c * bits + j)) = fun j => coeffBit w bits (c * bits + j) :=
    funext fun j => byteBit_simpleBitPack bits w hb hd _
  simp only [simpleBitUnpack, List.getElem_map, List.getElem_range]
  rw [hb']
  have hc : natOfBits bits (fun j => coeffBit w bits (c * bits + j)) = natOfBits bits (fun j => w[c].testBit j) := by
    apply natOfBits_congr
    intro j hj
    unfold coeffBit
    rw [mul_add_div_self c bits j hj, mul_add_mod_self' c bits j hj, List.getD_eq_getElem?_getD,
      List.getElem?_eq_getElem h2]
    rfl
  rw [hc, natOfBits_testBit]
  exact Nat.mod_eq_of_lt (hr _ (List.getElem_mem h2))

/-- **Bijection (no malleability from this layer).** Every byte string whose bit length is a multiple of
`bits` (in particular `32·bits` bytes) is the packing of its unpacking: two different byte strings never
decode to the same coefficients. -/
theorem simpleBitPack_simpleBitUnpack (bits : Nat) (enc : Bytes) (hb : 0 < bits) (hd : bits ∣ enc.length * 8) :
    simpleBitPack bits (simpleBitUnpack bits enc) = enc := by
  have hlen : (simpleBitPack bits (simpleBitUnpack bits enc)).length = enc.length := by
    rw [simpleBitPack_length, simpleBitUnpack_length, Nat.div_mul_cancel hd, Nat.mul_div_cancel _ (by decide)]
  apply List.ext_getElem hlen
  intro e h1 h2
  have hb' : (fun k => coeffBit (simpleBitUnpack bits enc) bits (8 * e + k)) = fun k => byteBit enc (8 * e + k) :=
    funext fun k => coeffBit_simpleBitUnpack bits enc hb hd _
  simp only [simpleBitPack, List.getElem_map, List.getElem_range]
  rw [hb']
  have hc : natOfBits 8 (fun k => byteBit enc (8 * e + k)) = natOfBits 8 (fun k => enc[e].toNat.testBit k) := by
    apply natOfBits_congr
    intro k hk
    unfold byteBit
    have e1 : (8 * e + k) / 8 = e := by omega
    have e2 : (8 * e + k) % 8 = k := by omega
    rw [e1, e2, List.getD_eq_getElem?_getD, List.getElem?_eq_getElem h2]
    rfl
  rw [hc, natOfBits_testBit]
  have : enc[e].toNat % 2 ^ 8 = enc[e].toNat := Nat.mod_eq_of_lt enc[e].toNat_lt
  rw [this, UInt8.ofNat_toNat]


/-- the two directions for one polynomial: `32·bits` bytes ↔ 256 coefficients below `2^bits` -/
theorem simpleBitUnpack_simpleBitPack_256 (bits : Nat) (w : List Nat) (hb : 0 < bits) (hw : w.length = 256)
    (hr : ∀ c ∈ w, c < 2 ^ bits) : simpleBitUnpack bits (simpleBitPack bits w) = w :=
  simpleBitUnpack_simpleBitPack bits w hb (by rw [hw]; exact ⟨32 * bits, by omega⟩) hr

theorem simpleBitPack_simpleBitUnpack_256 (bits : Nat) (enc : Bytes) (hb : 0 < bits) (he : enc.length = 32 * bits) :
    simpleBitPack bits (simpleBitUnpack bits enc) = enc :=
  simpleBitPack_simpleBitUnpack bits enc hb (by rw [he]; exact ⟨256, by omega⟩)

/-- unpacked coefficients are below `2^bits` (so unpacking lands in the domain of the round trip) -/
theorem simpleBitUnpack_lt (bits : Nat) (enc : Bytes) : ∀ c ∈ simpleBitUnpack bits enc, c < 2 ^ bits := by
  intro c hc
  simp only [simpleBitUnpack, List.mem_map] at hc
  obtain ⟨i, _, rfl⟩ := hc
  exact natOfBits_lt _ _

/-- SimpleBitPack is injective on in-range coefficient lists of the same length -/
theorem simpleBitPack_injective (bits : Nat) (w w' : List Nat) (hb : 0 < bits)
    (hd : 8 ∣ w.length * bits) (hl : w'.length = w.length)
    (hr : ∀ c ∈ w, c < 2 ^ bits) (hr' : ∀ c ∈ w', c < 2 ^ bits)
    (h : simpleBitPack bits w = simpleBitPack bits w') : w = w' := by
  rw [← simpleBitUnpack_simpleBitPack bits w hb hd hr, h,
    simpleBitUnpack_simpleBitPack bits w' hb (by rw [hl]; exact hd) hr']

/-- SimpleBitUnpack is injective on byte strings of the same admissible length -/
theorem simpleBitUnpack_injective (bits : Nat) (e e' : Bytes) (hb : 0 < bits)
    (hd : bits ∣ e.length * 8) (hl : e'.length = e.length)
    (h : simpleBitUnpack bits e = simpleBitUnpack bits e') : e = e' := by
  rw [← simpleBitPack_simpleBitUnpack bits e hb hd, h,
    simpleBitPack_simpleBitUnpack bits e' hb (by rw [hl]; exact hd)]

/-! ### BitPack / BitUnpack (signed ranges) -/

theorem lt_two_pow_bitlen (n : Nat) : n < 2 ^ bitlen n := by
  unfold bitlen
  by_cases h : n = 0
  · simp [h]
  · simp only [h, ↓reduceIte]; exact Nat.lt_log2_self

theorem bitlen_pos (n : Nat) (h : 0 < n) : 0 < bitlen n := by
  unfold bitlen
  have : n ≠ 0 := by omega
  simp [this]

/-- the model's `subq` is the regenerated Go `sub` on reduced arguments -/
theorem subq_eq_gen (a b : Nat) (ha : a < q) (hb : b < q) : subq a b = TinkVerif.Gen.Mldsa.sub a b := by
  rw [TinkVerif.Gen.Mldsa.sub_spec a b ha hb]; rfl

theorem subq_lt (a b : Nat) : subq a b < q := Nat.mod_lt _ (by decide)

/-- `x ↦ b − x mod q` is an involution on `[0, q)` -/
theorem subq_subq (b c : Nat) (hb : b < q) (hc : c < q) : subq b (subq b c) = c := by
  simp only [subq, q] at *
  omega

/-- a coefficient in the centered range `[−a, b]` (stored mod q) is mapped into `[0, a+b]` -/
theorem subq_range (a b c : Nat) (hab : a + b < q) (hc : c ≤ b ∨ (q - a ≤ c ∧ c < q)) : subq b c ≤ a + b := by
  simp only [subq, q] at *
  omega

/-- and back: values in `[0, a+b]` decode into the centered range `[−a, b]` -/
theorem subq_range_back (a b z : Nat) (hab : a + b < q) (hz : z ≤ a + b) :
    subq b z ≤ b ∨ (q - a ≤ subq b z ∧ subq b z < q) := by
  simp only [subq, q] at *
  omega

theorem subFrom_subFrom (b : Nat) (w : List Nat) (hb : b < q) (hw : ∀ c ∈ w, c < q) :
    subFrom b (subFrom b w) = w := by
  induction w with
  | nil => rfl
  | cons c cs ih =>
    have h1 := subq_subq b c hb (hw c (by simp))
    have h2 := ih (fun x hx => hw x (by simp [hx]))
    simp only [subFrom, List.map_cons] at h2 ⊢
    rw [h1, h2]

@[simp] theorem subFrom_length (b : Nat) (w : List Nat) : (subFrom b w).length = w.length := by simp [subFrom]

/-- **Round trip for BitPack with explicit width** (the Go signature `bitPack(a, bits)`). -/
theorem bitUnpackBits_bitPackBits (hi bits : Nat) (w : List Nat) (hb : 0 < bits) (hhi : hi < q)
    (hd : 8 ∣ w.length * bits) (hq : ∀ c ∈ w, c < q) (hr : ∀ c ∈ w, subq hi c < 2 ^ bits) :
    bitUnpackBits hi bits (bitPackBits hi bits w) = w := by
  unfold bitUnpackBits bitPackBits
  rw [simpleBitUnpack_simpleBitPack bits (subFrom hi w) hb (by simpa using hd)]
  · exact subFrom_subFrom hi w hhi hq
  · intro c hc
    simp only [subFrom, List.mem_map] at hc
    obtain ⟨x, hx, rfl⟩ := hc
    exact hr x hx

/-- **Round trip for BitPack(w, a, b)**: every coefficient list (whole number of bytes) whose entries
represent integers in `[−a, b]` mod q is recovered. -/
theorem bitUnpack_bitPack (a b : Nat) (w : List Nat) (hpos : 0 < a + b) (hab : a + b < q)
    (hd : 8 ∣ w.length * bitlen (a + b))
    (hr : ∀ c ∈ w, c ≤ b ∨ (q - a ≤ c ∧ c < q)) :
    bitUnpack a b (bitPack a b w) = w := by
  unfold bitUnpack bitPack
  apply bitUnpackBits_bitPackBits b (bitlen (a + b)) w (bitlen_pos _ hpos) (by omega) hd
  · intro c hc
    have := hr c hc
    simp only [q] at *
    omega
  · intro c hc
    exact Nat.lt_of_le_of_lt (subq_range a b c hab (hr c hc)) (lt_two_pow_bitlen _)

theorem bitUnpack_bitPack_256 (a b : Nat) (w : List Nat) (hpos : 0 < a + b) (hab : a + b < q)
    (hw : w.length = 256) (hr : ∀ c ∈ w, c ≤ b ∨ (q - a ≤ c ∧ c < q)) :
    bitUnpack a b (bitPack a b w) = w :=
  bitUnpack_bitPack a b w hpos hab (by rw [hw]; exact ⟨32 * bitlen (a + b), by omega⟩) hr

theorem bitPack_length_256 (a b : Nat) (w : List Nat) (hw : w.length = 256) :
    (bitPack a b w).length = 32 * bitlen (a + b) := by
  unfold bitPack bitPackBits
  rw [simpleBitPack_length_256 _ _ (by simpa using hw)]

/-- **Bijection for the signed layer.** When all `2^bits` values fit below q (every ML-DSA width:
3, 4, 13, 18, 20 ≤ 22 bits), re-encoding what was decoded gives back the bytes: BitUnpack is injective, no
two encodings of z, s₁, s₂, t₀ decode to the same polynomial. -/
theorem bitPackBits_bitUnpackBits (hi bits : Nat) (enc : Bytes) (hb : 0 < bits) (hhi : hi < q)
    (hq : 2 ^ bits ≤ q) (hd : bits ∣ enc.length * 8) :
    bitPackBits hi bits (bitUnpackBits hi bits enc) = enc := by
  unfold bitUnpackBits bitPackBits
  rw [subFrom_subFrom hi _ hhi]
  · exact simpleBitPack_simpleBitUnpack bits enc hb hd
  · intro c hc
    exact Nat.lt_of_lt_of_le (simpleBitUnpack_lt bits enc c hc) hq

theorem bitPack_bitUnpack (a b : Nat) (enc : Bytes) (hpos : 0 < a + b) (hb : b < q)
    (hq : 2 ^ bitlen (a + b) ≤ q) (hd : bitlen (a + b) ∣ enc.length * 8) :
    bitPack a b (bitUnpack a b enc) = enc :=
  bitPackBits_bitUnpackBits b _ enc (bitlen_pos _ hpos) hb hq hd

/-- the widths of the five ML-DSA shapes, as `bitlen (a+b)` -/
theorem bitlen_shapes :
    bitlen (2 + 2) = 3 ∧ bitlen (4 + 4) = 4 ∧ bitlen (4095 + 4096) = 13 ∧
    bitlen (131071 + 131072) = 18 ∧ bitlen (524287 + 524288) = 20 ∧
    bitlen 1023 = 10 ∧ bitlen 43 = 6 ∧ bitlen 15 = 4 := by decide +kernel

/-! ### w1Encode -/

theorem w1Encode_length (bits : Nat) (w1 : List (List Nat)) (hw : ∀ p ∈ w1, p.length = 256) :
    (w1Encode bits w1).length = w1.length * (32 * bits) := by
  induction w1 with
  | nil => simp [w1Encode]
  | cons p ps ih =>
    have hp := simpleBitPack_length_256 bits p (hw p (by simp))
    have := ih (fun p' hp' => hw p' (by simp [hp']))
    simp only [w1Encode, List.flatMap_cons, List.length_append, List.length_cons] at this ⊢
    rw [hp, this, Nat.add_mul]; omega

/-- w1Encode is injective on vectors of in-range polynomials: the commitment hash input determines w₁ -/
theorem w1Encode_injective (bits : Nat) (hb : 0 < bits) (v v' : List (List Nat)) (hl : v.length = v'.length)
    (hv : ∀ p ∈ v, p.length = 256 ∧ ∀ c ∈ p, c < 2 ^ bits)
    (hv' : ∀ p ∈ v', p.length = 256 ∧ ∀ c ∈ p, c < 2 ^ bits)
    (h : w1Encode bits v = w1Encode bits v') : v = v' := by
  induction v generalizing v' with
  | nil => cases v' with
    | nil => rfl
    | cons _ _ => simp at hl
  | cons p ps ih =>
    cases v' with
    | nil => simp at hl
    | cons p' ps' =>
      simp only [w1Encode, List.flatMap_cons] at h
      have hp := hv p (by simp)
      have hp' := hv' p' (by simp)
      have hlen : (simpleBitPack bits p).length = (simpleBitPack bits p').length := by
        rw [simpleBitPack_length_256 _ _ hp.1, simpleBitPack_length_256 _ _ hp'.1]
      obtain ⟨h1, h2⟩ := List.append_inj h hlen
      have e1 : p = p' := simpleBitPack_injective bits p p' hb (by rw [hp.1]; exact ⟨32 * bits, by omega⟩)
        (by rw [hp.1, hp'.1]) hp.2 hp'.2 h1
      have e2 : ps = ps' := ih ps' (by simpa using hl) (fun x hx => hv x (by simp [hx]))
        (fun x hx => hv' x (by simp [hx])) h2
      rw [e1, e2]

/-! ### Hints: positions, `setOnes`, sorted lists -/

/-- two strictly increasing lists with the same elements are equal -/
theorem pairwise_lt_ext (l1 l2 : List Nat) (h1 : l1.Pairwise (· < ·)) (h2 : l2.Pairwise (· < ·))
    (h : ∀ x, x ∈ l1 ↔ x ∈ l2) : l1 = l2 := by
  induction l1 generalizing l2 with
  | nil =>
    cases l2 with
    | nil => rfl
    | cons b bs => exact absurd ((h b).2 (by simp)) (by simp)
  | cons a as ih =>
    cases l2 with
    | nil => exact absurd ((h a).1 (by simp)) (by simp)
    | cons b bs =>
      rw [List.pairwise_cons] at h1 h2
      have hab : a = b := by
        have ha := (h a).1 (by simp)
        have hb := (h b).2 (by simp)
        simp only [List.mem_cons] at ha hb
        rcases ha with ha | ha
        · exact ha
        · rcases hb with hb | hb
          · exact hb.symm
          · have := h2.1 a ha
            have := h1.1 b hb
            omega
      subst hab
      congr 1
      apply ih bs h1.2 h2.2
      intro x
      constructor
      · intro hx
        have hlt := h1.1 x hx
        have := (h x).1 (by simp [hx])
        simp only [List.mem_cons] at this
        rcases this with e | e
        · omega
        · exact e
      · intro hx
        have hlt := h2.1 x hx
        have := (h x).2 (by simp [hx])
        simp only [List.mem_cons] at this
        rcases this with e | e
        · omega
        · exact e

theorem positions_pairwise (p : List Nat) : (positions p).Pairwise (· < ·) :=
  List.Pairwise.filter _ List.pairwise_lt_range

theorem mem_positions (p : List Nat) (j : Nat) : j ∈ positions p ↔ j < p.length ∧ p.getD j 0 ≠ 0 := by
  simp [positions, List.mem_filter]

theorem positions_lt (p : List Nat) (j : Nat) (h : j ∈ positions p) : j < p.length := ((mem_positions p j).1 h).1

theorem positions_length_le (p : List Nat) : (positions p).length ≤ p.length := by
  unfold positions
  exact Nat.le_trans (List.length_filter_le _ _) (by simp)

/-- head of a strictly increasing byte list is below every later element -/
theorem strictInc_head_lt (a : UInt8) (l : Bytes) (h : strictInc (a :: l) = true) : ∀ x ∈ l, a.toNat < x.toNat := by
  induction l generalizing a with
  | nil => intro x hx; simp at hx
  | cons b r ih =>
    simp only [strictInc, Bool.and_eq_true, decide_eq_true_eq] at h
    have hab : a.toNat < b.toNat := UInt8.lt_iff_toNat_lt.1 h.1
    intro x hx
    simp only [List.mem_cons] at hx
    rcases hx with rfl | hx
    · exact hab
    · exact Nat.lt_trans hab (ih b h.2 x hx)

theorem strictInc_tail (a : UInt8) (l : Bytes) (h : strictInc (a :: l) = true) : strictInc l = true := by
  cases l with
  | nil => rfl
  | cons b r =>
    simp only [strictInc, Bool.and_eq_true] at h
    exact h.2

/-- the Go check (adjacent pairs) gives a strictly increasing list -/
theorem strictInc_pairwise (l : Bytes) (h : strictInc l = true) : (l.map UInt8.toNat).Pairwise (· < ·) := by
  induction l with
  | nil => simp
  | cons a r ih =>
    rw [List.map_cons, List.pairwise_cons]
    constructor
    · intro x hx
      simp only [List.mem_map] at hx
      obtain ⟨y, hy, rfl⟩ := hx
      exact strictInc_head_lt a r h y hy
    · exact ih (strictInc_tail a r h)

theorem pairwise_strictInc (l : Bytes) (h : (l.map UInt8.toNat).Pairwise (· < ·)) : strictInc l = true := by
  induction l with
  | nil => rfl
  | cons a r ih =>
    rw [List.map_cons, List.pairwise_cons] at h
    cases r with
    | nil => rfl
    | cons b r' =>
      simp only [strictInc, Bool.and_eq_true, decide_eq_true_eq]
      exact ⟨UInt8.lt_iff_toNat_lt.2 (h.1 b.toNat (by simp)), ih h.2⟩

/-- adjacent elements of a list accepted by the Go check -/
theorem strictInc_adjacent (l : Bytes) (h : strictInc l = true) (j : Nat) (hj : j + 1 < l.length) :
    l[j].toNat < l[j + 1].toNat := by
  induction l generalizing j with
  | nil => simp at hj
  | cons a r ih =>
    cases j with
    | zero =>
      cases r with
      | nil => simp at hj
      | cons b r' => exact strictInc_head_lt a (b :: r') h b (by simp)
    | succ j =>
      simp only [List.getElem_cons_succ]
      exact ih (strictInc_tail a r h) j (by simpa using hj)

theorem foldl_set_length (s : Bytes) (p : List Nat) :
    (s.foldl (fun p x => p.set x.toNat 1) p).length = p.length := by
  induction s generalizing p with
  | nil => rfl
  | cons a r ih => simp only [List.foldl_cons]; rw [ih]; simp

theorem foldl_set_getD (s : Bytes) (p : List Nat) (j : Nat) :
    (s.foldl (fun p x => p.set x.toNat 1) p).getD j 0
      = if j ∈ s.map UInt8.toNat ∧ j < p.length then 1 else p.getD j 0 := by
  induction s generalizing p with
  | nil => simp
  | cons a r ih =>
    simp only [List.foldl_cons]
    rw [ih]
    simp only [List.length_set, List.map_cons, List.mem_cons]
    by_cases hr : j ∈ r.map UInt8.toNat ∧ j < p.length
    · simp [hr]
    · simp only [hr, ↓reduceIte]
      rw [List.getD_eq_getElem?_getD, List.getElem?_set]
      by_cases ha : a.toNat = j
      · subst ha
        by_cases hl : a.toNat < p.length
        · simp [hl]
        · simp only [hl, ↓reduceIte, and_false]
          rw [List.getD_eq_getElem?_getD, List.getElem?_eq_none (Nat.le_of_not_lt hl)]
      · have ha' : ¬ j = a.toNat := fun e => ha e.symm
        have : ¬ ((j = a.toNat ∨ j ∈ r.map UInt8.toNat) ∧ j < p.length) := by
          intro ⟨h1, h2⟩
          rcases h1 with h1 | h1
          · exact ha' h1
          · exact hr ⟨h1, h2⟩
        simp only [ha, ↓reduceIte, this]
        rw [List.getD_eq_getElem?_getD]

theorem replicate_getD_zero (n j : Nat) : (List.replicate n (0 : Nat)).getD j 0 = 0 := by
  rw [List.getD_eq_getElem?_getD, List.getElem?_replicate]; split <;> rfl

@[simp] theorem setOnes_length (s : Bytes) : (setOnes s).length = 256 := by
  unfold setOnes; rw [foldl_set_length]; exact List.length_replicate

theorem setOnes_getD (s : Bytes) (j : Nat) :
    (setOnes s).getD j 0 = if j ∈ s.map UInt8.toNat then 1 else 0 := by
  unfold setOnes
  rw [foldl_set_getD, List.length_replicate, replicate_getD_zero]
  by_cases h : j ∈ s.map UInt8.toNat
  · have : j < 256 := by
      simp only [List.mem_map] at h
      obtain ⟨x, _, rfl⟩ := h
      exact x.toNat_lt
    simp only [h, this, and_self, ↓reduceIte]
  · simp only [h, false_and, ↓reduceIte]

/-- coefficients of a decoded hint polynomial are 0 or 1 -/
theorem setOnes_bits (s : Bytes) : ∀ c ∈ setOnes s, c = 0 ∨ c = 1 := by
  intro c hc
  obtain ⟨j, hj, rfl⟩ := List.getElem_of_mem hc
  have := setOnes_getD s j
  rw [List.getD_eq_getElem?_getD, List.getElem?_eq_getElem hj] at this
  simp only [Option.getD_some] at this
  rw [this]
  split <;> simp

theorem mem_positions_setOnes (s : Bytes) (j : Nat) : j ∈ positions (setOnes s) ↔ j ∈ s.map UInt8.toNat := by
  rw [mem_positions, setOnes_getD, setOnes_length]
  constructor
  · intro ⟨_, h⟩
    by_cases hm : j ∈ s.map UInt8.toNat
    · exact hm
    · simp [hm] at h
  · intro hm
    have : j < 256 := by
      simp only [List.mem_map] at hm
      obtain ⟨x, _, rfl⟩ := hm
      exact x.toNat_lt
    simp [hm, this]

/-- **the ones of a decoded polynomial are exactly the index bytes, in the order they were written** -/
theorem positions_setOnes (s : Bytes) (h : strictInc s = true) : positions (setOnes s) = s.map UInt8.toNat :=
  pairwise_lt_ext _ _ (positions_pairwise _) (strictInc_pairwise s h) (mem_positions_setOnes s)

theorem map_ofNat_toNat (s : Bytes) : (s.map UInt8.toNat).map UInt8.ofNat = s := by
  rw [List.map_map]
  calc List.map (UInt8.ofNat ∘ UInt8.toNat) s = List.map id s :=
        List.map_congr_left fun c _ => UInt8.ofNat_toNat
    _ = s := List.map_id s

theorem map_toNat_ofNat (l : List Nat) (h : ∀ x ∈ l, x < 256) : (l.map UInt8.ofNat).map UInt8.toNat = l := by
  rw [List.map_map]
  calc List.map (UInt8.toNat ∘ UInt8.ofNat) l = List.map id l :=
        List.map_congr_left fun c hc => by
          have := h c hc
          simp only [Function.comp, UInt8.toNat_ofNat', id]
          omega
    _ = l := List.map_id l

/-- a 0/1 polynomial of 256 coefficients is rebuilt from the positions of its ones -/
theorem setOnes_positions (p : List Nat) (hl : p.length = 256) (hb : ∀ c ∈ p, c = 0 ∨ c = 1) :
    setOnes ((positions p).map UInt8.ofNat) = p := by
  apply List.ext_getElem (by simp [hl])
  intro j h1 h2
  have hg := setOnes_getD ((positions p).map UInt8.ofNat) j
  rw [List.getD_eq_getElem?_getD, List.getElem?_eq_getElem h1] at hg
  simp only [Option.getD_some] at hg
  rw [hg, map_toNat_ofNat _ (fun x hx => by have := positions_lt p x hx; omega)]
  simp only [mem_positions]
  have hp : p.getD j 0 = p[j] := by
    rw [List.getD_eq_getElem?_getD, List.getElem?_eq_getElem h2]; rfl
  rw [hp]
  rcases hb p[j] (List.getElem_mem h2) with e | e
  · simp [e]
  · simp [e, h2]

theorem strictInc_positions (p : List Nat) (hl : p.length = 256) :
    strictInc ((positions p).map UInt8.ofNat) = true := by
  apply pairwise_strictInc
  rw [map_toNat_ofNat _ (fun x hx => by have := positions_lt p x hx; omega)]
  exact positions_pairwise p

/-! ### HintBitUnpack ∘ HintBitPack -/

/-- a hint vector as the Go code holds it: `k` polynomials of 256 coefficients, each 0 or 1 -/
def HintOK (h : List (List Nat)) : Prop := ∀ p ∈ h, p.length = 256 ∧ ∀ c ∈ p, c = 0 ∨ c = 1

/-- number of ones of a hint vector -/
def hintWeight (h : List (List Nat)) : Nat := (h.flatMap positions).length

@[simp] theorem hintCounters_length (h : List (List Nat)) (n : Nat) : (hintCounters h n).length = h.length := by
  induction h generalizing n with
  | nil => rfl
  | cons p ps ih => simp [hintCounters, ih]

theorem hintBitPack_length (omega : Nat) (h : List (List Nat)) (hw : hintWeight h ≤ omega) :
    (hintBitPack omega h).length = omega + h.length := by
  unfold hintWeight at hw
  simp only [hintBitPack, List.length_append, List.length_map, Bytes.length_zeros, hintCounters_length]
  omega

theorem toNat_ofNat_small (n : Nat) (h : n ≤ 255) : (UInt8.ofNat n).toNat = n := by
  rw [UInt8.toNat_ofNat']; omega

/-- loop invariant of the round trip: with `pre` already consumed (`index = |pre|`), the loop run on the
counters of `h` returns `h` -/
theorem hintUnpackLoop_pack (omega : Nat) (h : List (List Nat)) (pre zs : Bytes) (n : Nat)
    (hn : pre.length = n) (hok : HintOK h) (hw : n + hintWeight h ≤ omega) (ho : omega ≤ 255)
    (hz : ∀ z ∈ zs, z = 0) :
    hintUnpackLoop omega (pre ++ (h.flatMap positions).map UInt8.ofNat ++ zs)
      ((hintCounters h n).map UInt8.ofNat) n = some h := by
  induction h generalizing pre n with
  | nil =>
    simp only [List.flatMap_nil, List.map_nil, List.append_nil, hintCounters, hintUnpackLoop]
    rw [List.drop_left' hn]
    have : zs.all (· == 0) = true := by
      rw [List.all_eq_true]; intro x hx; simp [hz x hx]
    simp [this]
  | cons p ps ih =>
    have hp := hok p (by simp)
    have hps : HintOK ps := fun x hx => hok x (by simp [hx])
    simp only [hintWeight, List.flatMap_cons, List.length_append] at hw
    have hc : (UInt8.ofNat (n + (positions p).length)).toNat = n + (positions p).length :=
      toNat_ofNat_small _ (by omega)
    simp only [hintCounters, List.map_cons, hintUnpackLoop, hc]
    have h1 : ¬ (n + (positions p).length < n) := by omega
    have h2 : ¬ (n + (positions p).length > omega) := by omega
    simp only [h1, h2, decide_false, Bool.or_self, Bool.false_eq_true, ↓reduceIte]
    -- the slice of this polynomial
    have hidx : pre ++ List.map UInt8.ofNat (List.flatMap positions (p :: ps)) ++ zs
        = (pre ++ (positions p).map UInt8.ofNat) ++ ((ps.flatMap positions).map UInt8.ofNat ++ zs) := by
      simp [List.flatMap_cons, List.map_append, List.append_assoc]
    have hlen : (pre ++ (positions p).map UInt8.ofNat).length = n + (positions p).length := by
      simp [hn]
    have hslice : List.drop n (List.take (n + (positions p).length)
        (pre ++ List.map UInt8.ofNat (List.flatMap positions (p :: ps)) ++ zs)) = (positions p).map UInt8.ofNat := by
      rw [hidx, List.take_left' hlen, List.drop_left' hn]
    rw [hslice, strictInc_positions p hp.1, setOnes_positions p hp.1 hp.2]
    simp only [↓reduceIte]
    have := ih (pre ++ (positions p).map UInt8.ofNat) (n + (positions p).length) hlen hps
      (by unfold hintWeight; omega)
    rw [hidx]
    simp only [List.append_assoc] at this ⊢
    rw [this]
    rfl

/-- **Round trip for hints.** Every hint vector (any number `k` of 0/1 polynomials) with at most `ω` ones
is recovered from its encoding; `ω ≤ 255` because the counters are bytes (ω ∈ {80, 55, 75}). -/
theorem hintBitUnpack_hintBitPack (omega : Nat) (h : List (List Nat)) (ho : omega ≤ 255)
    (hok : HintOK h) (hw : hintWeight h ≤ omega) :
    hintBitUnpack omega h.length (hintBitPack omega h) = some h := by
  unfold hintBitUnpack
  rw [hintBitPack_length omega h hw]
  simp only [↓reduceIte]
  have hl : ((h.flatMap positions).map UInt8.ofNat ++ Bytes.zeros (omega - (h.flatMap positions).length)).length = omega := by
    unfold hintWeight at hw
    simp only [List.length_append, List.length_map, Bytes.length_zeros]; omega
  unfold hintBitPack
  rw [List.take_left' hl, List.drop_left' hl]
  have := hintUnpackLoop_pack omega h [] (Bytes.zeros (omega - (h.flatMap positions).length)) 0 rfl hok
    (by omega) ho (by intro z hz; simp only [Bytes.zeros, List.mem_replicate] at hz; exact hz.2)
  simpa using this


/-! ### Canonicity: every accepted encoding is the encoding of the decoded hint -/

theorem take_drop_split {α : Type} (l : List α) (i e t : Nat) (hie : i ≤ e) (het : e ≤ t) (hl : e ≤ l.length) :
    (l.take t).drop i = (l.take e).drop i ++ (l.take t).drop e := by
  have h1 : l.take t = l.take e ++ (l.take t).drop e := by
    have := (List.take_append_drop e (l.take t)).symm
    rwa [List.take_take, Nat.min_eq_left het] at this
  have h2 : i ≤ (l.take e).length := by rw [List.length_take]; omega
  calc (l.take t).drop i = (l.take e ++ (l.take t).drop e).drop i := by rw [← h1]
    _ = (l.take e).drop i ++ (l.take t).drop e := List.drop_append_of_le_length h2

/-- what an accepting run of the loop says about its input -/
theorem hintUnpackLoop_some (omega : Nat) (idx ctrs : Bytes) (index : Nat) (h : List (List Nat))
    (hlen : idx.length = omega) (hi : index ≤ omega)
    (hr : hintUnpackLoop omega idx ctrs index = some h) :
    index + hintWeight h ≤ omega ∧
    (idx.take (index + hintWeight h)).drop index = (h.flatMap positions).map UInt8.ofNat ∧
    (∀ z ∈ idx.drop (index + hintWeight h), z = 0) ∧
    ctrs = (hintCounters h index).map UInt8.ofNat ∧
    h.length = ctrs.length ∧
    (∀ p ∈ h, ∃ s : Bytes, strictInc s = true ∧ p = setOnes s) := by
  induction ctrs generalizing index h with
  | nil =>
    simp only [hintUnpackLoop] at hr
    by_cases ha : (idx.drop index).all (· == 0) = true
    · simp only [ha, ↓reduceIte, Option.some.injEq] at hr
      subst hr
      simp only [hintWeight, List.flatMap_nil, List.length_nil, Nat.add_zero, List.map_nil, hintCounters]
      refine ⟨hi, ?_, ?_, trivial, trivial, by simp⟩
      · rw [List.drop_eq_nil_iff, List.length_take]; omega
      · rw [List.all_eq_true] at ha
        intro z hz
        simpa using ha z hz
    · simp [ha] at hr
  | cons c cs ih =>
    simp only [hintUnpackLoop] at hr
    by_cases hb : (decide (c.toNat < index) || decide (c.toNat > omega)) = true
    · simp [hb] at hr
    · simp only [hb, Bool.false_eq_true, ↓reduceIte] at hr
      have hb1 : index ≤ c.toNat := by
        simp only [Bool.or_eq_true, decide_eq_true_eq, not_or] at hb; omega
      have hb2 : c.toNat ≤ omega := by
        simp only [Bool.or_eq_true, decide_eq_true_eq, not_or] at hb; omega
      by_cases hs : strictInc ((idx.take c.toNat).drop index) = true
      · simp only [hs, ↓reduceIte, Option.map_eq_some_iff] at hr
        obtain ⟨h', hr', rfl⟩ := hr
        obtain ⟨i1, i2, i3, i4, i5, i6⟩ := ih c.toNat h' hb2 hr'
        have hslen : ((idx.take c.toNat).drop index).length = c.toNat - index := by
          rw [List.length_drop, List.length_take]; omega
        have hpos : positions (setOnes ((idx.take c.toNat).drop index)) = ((idx.take c.toNat).drop index).map UInt8.toNat :=
          positions_setOnes _ hs
        have hwt : hintWeight (setOnes ((idx.take c.toNat).drop index) :: h') = (c.toNat - index) + hintWeight h' := by
          simp only [hintWeight, List.flatMap_cons, List.length_append, hpos, List.length_map, hslen]
        have hsum : index + hintWeight (setOnes ((idx.take c.toNat).drop index) :: h') = c.toNat + hintWeight h' := by
          rw [hwt]; omega
        rw [hsum]
        refine ⟨i1, ?_, i3, ?_, by simp [i5], ?_⟩
        · rw [take_drop_split idx index c.toNat _ hb1 (by omega) (by omega), i2]
          simp only [List.flatMap_cons, List.map_append, hpos, map_ofNat_toNat]
        · simp only [hintCounters, hpos, List.length_map, hslen, List.map_cons]
          have : index + (c.toNat - index) = c.toNat := by omega
          rw [this, UInt8.ofNat_toNat, ← i4]
        · intro p hp
          simp only [List.mem_cons] at hp
          rcases hp with rfl | hp
          · exact ⟨_, hs, rfl⟩
          · exact i6 p hp
      · simp [hs] at hr

theorem all_zero_eq_zeros (l : Bytes) (h : ∀ z ∈ l, z = 0) : l = Bytes.zeros l.length := by
  unfold Bytes.zeros
  exact List.eq_replicate_iff.2 ⟨rfl, h⟩

/-- **Canonicity (strong-unforgeability law of the hint layer).** If HintBitUnpack accepts `y` and returns
`h`, then `y` is *the* encoding of `h`: no second byte string decodes to the same hint vector, for any `ω`
and `k`. -/
theorem hintBitUnpack_canonical (omega k : Nat) (y : Bytes) (h : List (List Nat))
    (hr : hintBitUnpack omega k y = some h) : hintBitPack omega h = y := by
  unfold hintBitUnpack at hr
  by_cases hl : y.length = omega + k
  · simp only [hl, ↓reduceIte] at hr
    have hlen : (y.take omega).length = omega := by rw [List.length_take]; omega
    obtain ⟨i1, i2, i3, i4, _, _⟩ := hintUnpackLoop_some omega (y.take omega) (y.drop omega) 0 h hlen (by omega) hr
    simp only [Nat.zero_add, List.drop_zero] at i1 i2 i3
    unfold hintBitPack
    have hz := all_zero_eq_zeros _ i3
    have hzl : ((y.take omega).drop (hintWeight h)).length = omega - (h.flatMap positions).length := by
      rw [List.length_drop, hlen]; rfl
    rw [hzl] at hz
    rw [← i2, ← hz, ← i4, List.take_append_drop, List.take_append_drop]
  · simp [hl] at hr

/-- the decoded hint vector is well formed: `k` polynomials of 256 coefficients 0/1, at most `ω` ones -/
theorem hintBitUnpack_wf (omega k : Nat) (y : Bytes) (h : List (List Nat))
    (hr : hintBitUnpack omega k y = some h) : h.length = k ∧ HintOK h ∧ hintWeight h ≤ omega := by
  unfold hintBitUnpack at hr
  by_cases hl : y.length = omega + k
  · simp only [hl, ↓reduceIte] at hr
    have hlen : (y.take omega).length = omega := by rw [List.length_take]; omega
    obtain ⟨i1, _, _, _, i5, i6⟩ := hintUnpackLoop_some omega (y.take omega) (y.drop omega) 0 h hlen (by omega) hr
    refine ⟨by rw [i5, List.length_drop]; omega, ?_, by omega⟩
    intro p hp
    obtain ⟨s, _, rfl⟩ := i6 p hp
    exact ⟨setOnes_length s, setOnes_bits s⟩
  · simp [hl] at hr

/-- decoding is injective on accepted encodings -/
theorem hintBitUnpack_injective (omega k : Nat) (y y' : Bytes) (h : List (List Nat))
    (hy : hintBitUnpack omega k y = some h) (hy' : hintBitUnpack omega k y' = some h) : y = y' := by
  rw [← hintBitUnpack_canonical omega k y h hy, ← hintBitUnpack_canonical omega k y' h hy']

/-! ### Explicit rejection lemmas (the malformed-input checks of Algorithm 21) -/

/-- accepted ⇒ every remaining counter is between the running index and ω -/
theorem hintUnpackLoop_ctr_bounds (omega : Nat) (idx ctrs : Bytes) (index : Nat) (h : List (List Nat))
    (hr : hintUnpackLoop omega idx ctrs index = some h) : ∀ c ∈ ctrs, index ≤ c.toNat ∧ c.toNat ≤ omega := by
  induction ctrs generalizing index h with
  | nil => intro c hc; simp at hc
  | cons c cs ih =>
    simp only [hintUnpackLoop] at hr
    by_cases hb : (decide (c.toNat < index) || decide (c.toNat > omega)) = true
    · simp [hb] at hr
    · simp only [hb, Bool.false_eq_true, ↓reduceIte] at hr
      simp only [Bool.or_eq_true, decide_eq_true_eq, not_or] at hb
      by_cases hs : strictInc ((idx.take c.toNat).drop index) = true
      · simp only [hs, ↓reduceIte, Option.map_eq_some_iff] at hr
        obtain ⟨h', hr', _⟩ := hr
        intro x hx
        simp only [List.mem_cons] at hx
        rcases hx with rfl | hx
        · omega
        · have := ih c.toNat h' hr' x hx; omega
      · simp [hs] at hr

/-- the value of `Index` when polynomial `i` starts: `index` for the first, the previous counter otherwise -/
def prevCtr (ctrs : Bytes) (index i : Nat) : Nat := if i = 0 then index else (ctrs.getD (i - 1) 0).toNat

/-- the running index after all counters -/
def lastCtr : Bytes → Nat → Nat
  | [], index => index
  | c :: cs, _ => lastCtr cs c.toNat

theorem lastCtr_eq (ctrs : Bytes) (index : Nat) : lastCtr ctrs index = prevCtr ctrs index ctrs.length := by
  induction ctrs generalizing index with
  | nil => rfl
  | cons c cs ih =>
    rw [lastCtr, ih]
    unfold prevCtr
    cases cs with
    | nil => simp
    | cons c' cs' => simp

/-- accepted ⇒ counters never decrease -/
theorem hintUnpackLoop_ctr_mono (omega : Nat) (idx ctrs : Bytes) (index : Nat) (h : List (List Nat))
    (hr : hintUnpackLoop omega idx ctrs index = some h) (i : Nat) (hi : i < ctrs.length) :
    prevCtr ctrs index i ≤ (ctrs.getD i 0).toNat := by
  induction ctrs generalizing index h i with
  | nil => simp at hi
  | cons c cs ih =>
    have hbd := hintUnpackLoop_ctr_bounds omega idx (c :: cs) index h hr
    simp only [hintUnpackLoop] at hr
    by_cases hb : (decide (c.toNat < index) || decide (c.toNat > omega)) = true
    · simp [hb] at hr
    · simp only [hb, Bool.false_eq_true, ↓reduceIte] at hr
      by_cases hs : strictInc ((idx.take c.toNat).drop index) = true
      · simp only [hs, ↓reduceIte, Option.map_eq_some_iff] at hr
        obtain ⟨h', hr', _⟩ := hr
        cases i with
        | zero => simpa [prevCtr] using (hbd c (by simp)).1
        | succ i =>
          have := ih c.toNat h' hr' i (by simpa using hi)
          unfold prevCtr at this ⊢
          cases i with
          | zero => simpa using this
          | succ i => simpa using this
      · simp [hs] at hr

theorem getD_take_drop (idx : Bytes) (e index m : Nat) (h : index + m < e) :
    ((idx.take e).drop index).getD m 0 = idx.getD (index + m) 0 := by
  rw [List.getD_eq_getElem?_getD, List.getD_eq_getElem?_getD, List.getElem?_drop, List.getElem?_take]
  simp [h]

/-- accepted ⇒ inside one polynomial's slice the index bytes strictly increase -/
theorem hintUnpackLoop_adjacent (omega : Nat) (idx ctrs : Bytes) (index : Nat) (h : List (List Nat))
    (hlen : idx.length = omega)
    (hr : hintUnpackLoop omega idx ctrs index = some h) (i j : Nat) (hi : i < ctrs.length)
    (hlo : prevCtr ctrs index i ≤ j) (hhi : j + 1 < (ctrs.getD i 0).toNat) :
    (idx.getD j 0).toNat < (idx.getD (j + 1) 0).toNat := by
  induction ctrs generalizing index h i with
  | nil => simp at hi
  | cons c cs ih =>
    simp only [hintUnpackLoop] at hr
    by_cases hb : (decide (c.toNat < index) || decide (c.toNat > omega)) = true
    · simp [hb] at hr
    · simp only [hb, Bool.false_eq_true, ↓reduceIte] at hr
      simp only [Bool.or_eq_true, decide_eq_true_eq, not_or] at hb
      by_cases hs : strictInc ((idx.take c.toNat).drop index) = true
      · simp only [hs, ↓reduceIte, Option.map_eq_some_iff] at hr
        obtain ⟨h', hr', _⟩ := hr
        cases i with
        | zero =>
          simp only [prevCtr, ↓reduceIte] at hlo
          simp only [List.getD_cons_zero] at hhi
          have hsl : ((idx.take c.toNat).drop index).length = c.toNat - index := by
            rw [List.length_drop, List.length_take]; omega
          have hadj := strictInc_adjacent _ hs (j - index) (by rw [hsl]; omega)
          have e1 := getD_take_drop idx c.toNat index (j - index) (by omega)
          have e2 := getD_take_drop idx c.toNat index (j - index + 1) (by omega)
          rw [List.getD_eq_getElem?_getD, List.getElem?_eq_getElem (by rw [hsl]; omega)] at e1 e2
          simp only [Option.getD_some] at e1 e2
          have a1 : index + (j - index) = j := by omega
          have a2 : index + (j - index + 1) = j + 1 := by omega
          rw [a1] at e1
          rw [a2] at e2
          rw [← e1, ← e2]
          exact hadj
        | succ i =>
          apply ih c.toNat h' hr' i (by simpa using hi)
          · unfold prevCtr at hlo ⊢
            cases i with
            | zero => simpa using hlo
            | succ i => simpa using hlo
          · simpa using hhi
      · simp [hs] at hr

/-- accepted ⇒ all index bytes after the last counter are zero -/
theorem hintUnpackLoop_padding (omega : Nat) (idx ctrs : Bytes) (index : Nat) (h : List (List Nat))
    (hr : hintUnpackLoop omega idx ctrs index = some h) (j : Nat) (hlo : lastCtr ctrs index ≤ j) :
    idx.getD j 0 = 0 := by
  induction ctrs generalizing index h with
  | nil =>
    simp only [hintUnpackLoop] at hr
    simp only [lastCtr] at hlo
    by_cases ha : (idx.drop index).all (· == 0) = true
    · rw [List.all_eq_true] at ha
      rw [List.getD_eq_getElem?_getD]
      by_cases hj : j < idx.length
      · rw [List.getElem?_eq_getElem hj]
        have hm : idx[j] ∈ idx.drop index := by
          have : (idx.drop index)[j - index]? = some idx[j] := by
            rw [List.getElem?_drop]
            have : index + (j - index) = j := by omega
            rw [this, List.getElem?_eq_getElem hj]
          exact List.mem_of_getElem? this
        simpa using ha _ hm
      · rw [List.getElem?_eq_none (Nat.le_of_not_lt hj)]; rfl
    · simp [ha] at hr
  | cons c cs ih =>
    simp only [hintUnpackLoop] at hr
    by_cases hb : (decide (c.toNat < index) || decide (c.toNat > omega)) = true
    · simp [hb] at hr
    · simp only [hb, Bool.false_eq_true, ↓reduceIte] at hr
      by_cases hs : strictInc ((idx.take c.toNat).drop index) = true
      · simp only [hs, ↓reduceIte, Option.map_eq_some_iff] at hr
        obtain ⟨h', hr', _⟩ := hr
        exact ih c.toNat h' hr' (by simpa [lastCtr] using hlo)
      · simp [hs] at hr

/-- the counter byte `y[ω + i]` -/
def ctr (omega : Nat) (y : Bytes) (i : Nat) : Nat := (y.getD (omega + i) 0).toNat

theorem getD_drop (y : Bytes) (n i : Nat) : (y.drop n).getD i 0 = y.getD (n + i) 0 := by
  rw [List.getD_eq_getElem?_getD, List.getD_eq_getElem?_getD, List.getElem?_drop]

theorem getD_take (y : Bytes) (n j : Nat) (h : j < n) : (y.take n).getD j 0 = y.getD j 0 := by
  rw [List.getD_eq_getElem?_getD, List.getD_eq_getElem?_getD, List.getElem?_take]; simp [h]

theorem prevCtr_drop (omega : Nat) (y : Bytes) (i : Nat) :
    prevCtr (y.drop omega) 0 i = if i = 0 then 0 else ctr omega y (i - 1) := by
  unfold prevCtr ctr; rw [getD_drop]

theorem eq_none_of_forall_ne {α : Type} (o : Option α) (h : ∀ a, o = some a → False) : o = none := by
  cases o with
  | none => rfl
  | some a => exact absurd rfl (fun e => h a e)

/-- **Rejection: wrong length.** -/
theorem hintBitUnpack_reject_length (omega k : Nat) (y : Bytes) (h : y.length ≠ omega + k) :
    hintBitUnpack omega k y = none := by
  simp [hintBitUnpack, h]

/-- **Rejection: a counter above ω.** -/
theorem hintBitUnpack_reject_counter_gt_omega (omega k : Nat) (y : Bytes) (i : Nat) (hi : i < k)
    (h : omega < ctr omega y i) : hintBitUnpack omega k y = none := by
  apply eq_none_of_forall_ne
  intro hv hr
  unfold hintBitUnpack at hr
  by_cases hl : y.length = omega + k
  · simp only [hl, ↓reduceIte] at hr
    have hm : (y.drop omega).getD i 0 ∈ y.drop omega := by
      rw [List.getD_eq_getElem?_getD, List.getElem?_eq_getElem (by rw [List.length_drop]; omega)]
      exact List.getElem_mem _
    have := (hintUnpackLoop_ctr_bounds omega _ _ 0 hv hr _ hm).2
    rw [getD_drop] at this
    unfold ctr at h
    omega
  · simp [hl] at hr

/-- **Rejection: a counter smaller than its predecessor.** -/
theorem hintBitUnpack_reject_counter_decreasing (omega k : Nat) (y : Bytes) (i : Nat) (hi : i + 1 < k)
    (h : ctr omega y (i + 1) < ctr omega y i) : hintBitUnpack omega k y = none := by
  apply eq_none_of_forall_ne
  intro hv hr
  unfold hintBitUnpack at hr
  by_cases hl : y.length = omega + k
  · simp only [hl, ↓reduceIte] at hr
    have := hintUnpackLoop_ctr_mono omega _ _ 0 hv hr (i + 1) (by rw [List.length_drop]; omega)
    rw [prevCtr_drop, getD_drop] at this
    simp only [Nat.add_one_ne_zero, ↓reduceIte, Nat.add_sub_cancel] at this
    unfold ctr at h this
    omega
  · simp [hl] at hr

/-- **Rejection: index bytes of one polynomial not strictly increasing** (`y[j+1] ≤ y[j]` with both
positions inside the slice `[Index_i, y[ω+i])` of polynomial `i`). -/
theorem hintBitUnpack_reject_index_not_increasing (omega k : Nat) (y : Bytes) (i j : Nat) (hi : i < k)
    (hlo : (if i = 0 then 0 else ctr omega y (i - 1)) ≤ j) (hhi : j + 1 < ctr omega y i)
    (h : (y.getD (j + 1) 0).toNat ≤ (y.getD j 0).toNat) : hintBitUnpack omega k y = none := by
  apply eq_none_of_forall_ne
  intro hv hr
  unfold hintBitUnpack at hr
  by_cases hl : y.length = omega + k
  · simp only [hl, ↓reduceIte] at hr
    have hlen : (y.take omega).length = omega := by rw [List.length_take]; omega
    have hm : (y.drop omega).getD i 0 ∈ y.drop omega := by
      rw [List.getD_eq_getElem?_getD, List.getElem?_eq_getElem (by rw [List.length_drop]; omega)]
      exact List.getElem_mem _
    have hle := (hintUnpackLoop_ctr_bounds omega _ _ 0 hv hr _ hm).2
    rw [getD_drop] at hle
    have hci : ctr omega y i ≤ omega := hle
    have := hintUnpackLoop_adjacent omega _ _ 0 hv hlen hr i j (by rw [List.length_drop]; omega)
      (by rw [prevCtr_drop]; exact hlo) (by rw [getD_drop]; exact hhi)
    rw [getD_take y omega j (by omega), getD_take y omega (j + 1) (by omega)] at this
    omega
  · simp [hl] at hr

/-- **Rejection: non-zero padding** after the last index (`y[ω+k−1] ≤ j < ω`, `y[j] ≠ 0`). -/
theorem hintBitUnpack_reject_nonzero_padding (omega k : Nat) (y : Bytes) (j : Nat) (hk : 0 < k)
    (hlo : ctr omega y (k - 1) ≤ j) (hj : j < omega) (h : y.getD j 0 ≠ 0) : hintBitUnpack omega k y = none := by
  apply eq_none_of_forall_ne
  intro hv hr
  unfold hintBitUnpack at hr
  by_cases hl : y.length = omega + k
  · simp only [hl, ↓reduceIte] at hr
    have hdl : (y.drop omega).length = k := by rw [List.length_drop]; omega
    have := hintUnpackLoop_padding omega _ _ 0 hv hr j (by
      rw [lastCtr_eq, prevCtr_drop, hdl]
      have : k ≠ 0 := by omega
      simp only [this, ↓reduceIte]; exact hlo)
    rw [getD_take y omega j hj] at this
    exact h this
  · simp [hl] at hr

/-! ### The Go loop of `hintBitPack` (array writes) equals the closed form -/

theorem set_at_length {α : Type} (a b : List α) (x y : α) : (a ++ x :: b).set a.length y = a ++ y :: b := by
  induction a with
  | nil => rfl
  | cons c cs ih => simp [ih]

theorem hintPackPoly_eq (res : Bytes) (index : Nat) (p : List Nat) :
    hintPackPoly res index p
      = (positions p).foldl (fun (st : Bytes × Nat) j => (st.1.set st.2 (UInt8.ofNat j), st.2 + 1)) (res, index) := by
  unfold hintPackPoly positions
  rw [List.foldl_filter]

theorem foldl_write (js : List Nat) (pre zs : Bytes) (hl : js.length ≤ zs.length) :
    js.foldl (fun (st : Bytes × Nat) j => (st.1.set st.2 (UInt8.ofNat j), st.2 + 1)) (pre ++ zs, pre.length)
      = (pre ++ js.map UInt8.ofNat ++ zs.drop js.length, pre.length + js.length) := by
  induction js generalizing pre zs with
  | nil => simp
  | cons j js ih =>
    cases zs with
    | nil => simp at hl
    | cons z zs' =>
      simp only [List.foldl_cons, set_at_length]
      have e : pre ++ UInt8.ofNat j :: zs' = (pre ++ [UInt8.ofNat j]) ++ zs' := by simp
      have e2 : pre.length + 1 = (pre ++ [UInt8.ofNat j]).length := by simp
      rw [e, e2, ih (pre ++ [UInt8.ofNat j]) zs' (by simpa using hl)]
      simp [Nat.add_assoc, Nat.add_comm 1]

theorem hintPackLoop_eq (omega : Nat) (ps : List (List Nat)) (i : Nat) (pre zs cdone ctail : Bytes)
    (h1 : pre.length + zs.length = omega) (h2 : cdone.length = i) (h3 : ctail.length = ps.length)
    (hw : hintWeight ps ≤ zs.length) :
    hintPackLoop omega ps i (pre ++ zs ++ cdone ++ ctail) pre.length
      = pre ++ (ps.flatMap positions).map UInt8.ofNat ++ zs.drop (hintWeight ps) ++ cdone
          ++ (hintCounters ps pre.length).map UInt8.ofNat := by
  induction ps generalizing i pre zs cdone ctail with
  | nil =>
    have : ctail = [] := List.length_eq_zero_iff.1 h3
    subst this
    simp [hintPackLoop, hintWeight, hintCounters]
  | cons p ps ih =>
    cases ctail with
    | nil => simp at h3
    | cons c0 ctail' =>
      simp only [hintWeight, List.flatMap_cons, List.length_append] at hw
      have hpl : (positions p).length ≤ (zs ++ cdone ++ c0 :: ctail').length := by
        simp only [List.length_append]; omega
      have e0 : pre ++ zs ++ cdone ++ c0 :: ctail' = pre ++ (zs ++ cdone ++ c0 :: ctail') := by simp
      have hpoly := foldl_write (positions p) pre (zs ++ cdone ++ c0 :: ctail') hpl
      have hdrop : (zs ++ cdone ++ c0 :: ctail').drop (positions p).length
          = zs.drop (positions p).length ++ cdone ++ c0 :: ctail' := by
        rw [List.append_assoc, List.drop_append_of_le_length (by omega)]; simp
      simp only [hintPackLoop]
      rw [hintPackPoly_eq, e0, hpoly, hdrop]
      simp only []
      -- write the counter
      have hpos : omega + i = (pre ++ (positions p).map UInt8.ofNat ++ zs.drop (positions p).length ++ cdone).length := by
        simp only [List.length_append, List.length_map, List.length_drop]; omega
      have e1 : pre ++ (positions p).map UInt8.ofNat ++ (zs.drop (positions p).length ++ cdone ++ c0 :: ctail')
          = (pre ++ (positions p).map UInt8.ofNat ++ zs.drop (positions p).length ++ cdone) ++ c0 :: ctail' := by simp
      rw [e1, hpos, set_at_length]
      have e2 : pre.length + (positions p).length = (pre ++ (positions p).map UInt8.ofNat).length := by simp
      have e3 : (pre ++ (positions p).map UInt8.ofNat ++ zs.drop (positions p).length ++ cdone)
            ++ UInt8.ofNat (pre.length + (positions p).length) :: ctail'
          = (pre ++ (positions p).map UInt8.ofNat) ++ zs.drop (positions p).length
            ++ (cdone ++ [UInt8.ofNat (pre.length + (positions p).length)]) ++ ctail' := by simp
      rw [e3]
      conv => lhs; arg 5; rw [e2]
      rw [ih (i + 1) (pre ++ (positions p).map UInt8.ofNat) (zs.drop (positions p).length)
        (cdone ++ [UInt8.ofNat (pre.length + (positions p).length)]) ctail'
        (by simp only [List.length_append, List.length_map, List.length_drop]; omega)
        (by simp [h2]) (by simpa using h3)
        (by unfold hintWeight; rw [List.length_drop]; omega)]
      simp only [hintWeight, hintCounters, List.flatMap_cons, List.map_append, List.map_cons, List.drop_drop,
        List.length_append, List.length_map, List.append_assoc, List.cons_append, List.nil_append]

/-- **The Go loop and the closed form agree** on every vector with at most `ω` ones (beyond that the Go
loop would overwrite counter bytes or index out of range; `sign` never produces such a vector). -/
theorem hintBitPackGo_eq (omega : Nat) (h : List (List Nat)) (hw : hintWeight h ≤ omega) :
    hintBitPackGo omega h = hintBitPack omega h := by
  unfold hintBitPackGo hintBitPack
  have e : Bytes.zeros (omega + h.length) = [] ++ Bytes.zeros omega ++ [] ++ Bytes.zeros h.length := by
    simp [Bytes.zeros, List.replicate_append_replicate]
  rw [e]
  have := hintPackLoop_eq omega h 0 [] (Bytes.zeros omega) [] (Bytes.zeros h.length) (by simp) rfl (by simp) (by simpa using hw)
  simp only [List.length_nil] at this
  rw [this]
  simp [Bytes.zeros, hintWeight]

/-! ### The ML-DSA parameter sets -/

/-- both directions for one polynomial and one signed shape `[−a, b]` -/
theorem bitPack_bijective_256 (a b : Nat) (hpos : 0 < a + b) (hab : a + b < q) (hq : 2 ^ bitlen (a + b) ≤ q) :
    (∀ w : List Nat, w.length = 256 → (∀ c ∈ w, c ≤ b ∨ (q - a ≤ c ∧ c < q)) →
        bitUnpack a b (bitPack a b w) = w ∧ (bitPack a b w).length = 32 * bitlen (a + b)) ∧
    (∀ enc : Bytes, enc.length = 32 * bitlen (a + b) →
        bitPack a b (bitUnpack a b enc) = enc ∧ (bitUnpack a b enc).length = 256) := by
  refine ⟨fun w hw hr => ⟨bitUnpack_bitPack_256 a b w hpos hab hw hr, bitPack_length_256 a b w hw⟩, ?_⟩
  intro enc he
  refine ⟨bitPack_bitUnpack a b enc hpos (by omega) hq (by rw [he]; exact ⟨256, by omega⟩), ?_⟩
  unfold bitUnpack bitUnpackBits
  rw [subFrom_length, simpleBitUnpack_length_256 _ _ (bitlen_pos _ hpos) he]

/-- the side conditions hold for the five signed shapes of ML-DSA: η = 2, η = 4, t₀ (2¹²−1, 2¹²),
z with γ₁ = 2¹⁷ and γ₁ = 2¹⁹ -/
theorem mldsa_signed_shapes :
    ∀ ab ∈ [(2, 2), (4, 4), (4095, 4096), (131071, 131072), (524287, 524288)],
      0 < ab.1 + ab.2 ∧ ab.1 + ab.2 < q ∧ 2 ^ bitlen (ab.1 + ab.2) ≤ q := by decide +kernel

/-- **BitPack/BitUnpack are mutually inverse bijections for every signed ML-DSA shape** -/
theorem mldsa_bitPack_bijective :
    ∀ ab ∈ [(2, 2), (4, 4), (4095, 4096), (131071, 131072), (524287, 524288)],
    (∀ w : List Nat, w.length = 256 → (∀ c ∈ w, c ≤ ab.2 ∨ (q - ab.1 ≤ c ∧ c < q)) →
        bitUnpack ab.1 ab.2 (bitPack ab.1 ab.2 w) = w ∧ (bitPack ab.1 ab.2 w).length = 32 * bitlen (ab.1 + ab.2)) ∧
    (∀ enc : Bytes, enc.length = 32 * bitlen (ab.1 + ab.2) →
        bitPack ab.1 ab.2 (bitUnpack ab.1 ab.2 enc) = enc ∧ (bitUnpack ab.1 ab.2 enc).length = 256) := by
  intro ab hab
  obtain ⟨h1, h2, h3⟩ := mldsa_signed_shapes ab hab
  exact bitPack_bijective_256 ab.1 ab.2 h1 h2 h3

/-- **SimpleBitPack/SimpleBitUnpack are mutually inverse bijections for every unsigned width** (t₁: 10,
w₁: 6 and 4 bits, and any other positive width) between polynomials with coefficients below `2^bits` and
strings of `32·bits` bytes -/
theorem simpleBitPack_bijective_256 (bits : Nat) (hb : 0 < bits) :
    (∀ w : List Nat, w.length = 256 → (∀ c ∈ w, c < 2 ^ bits) →
        simpleBitUnpack bits (simpleBitPack bits w) = w ∧ (simpleBitPack bits w).length = 32 * bits) ∧
    (∀ enc : Bytes, enc.length = 32 * bits →
        simpleBitPack bits (simpleBitUnpack bits enc) = enc ∧ (simpleBitUnpack bits enc).length = 256 ∧
        ∀ c ∈ simpleBitUnpack bits enc, c < 2 ^ bits) :=
  ⟨fun w hw hr => ⟨simpleBitUnpack_simpleBitPack_256 bits w hb hw hr, simpleBitPack_length_256 bits w hw⟩,
   fun enc he => ⟨simpleBitPack_simpleBitUnpack_256 bits enc hb he, simpleBitUnpack_length_256 bits enc hb he,
     simpleBitUnpack_lt bits enc⟩⟩

/-- **Hints, the three parameter sets (ω, k) = (80, 4), (55, 6), (75, 8)**, with the Go loop as encoder:
(1) every hint vector with at most ω ones survives the round trip; (2) every accepted encoding is the
encoder's output on the decoded vector (canonicity), which is a well-formed vector with at most ω ones. -/
theorem mldsa_hint_laws :
    ∀ wk ∈ [(80, 4), (55, 6), (75, 8)],
    (∀ h : List (List Nat), h.length = wk.2 → HintOK h → hintWeight h ≤ wk.1 →
        hintBitUnpack wk.1 wk.2 (hintBitPackGo wk.1 h) = some h ∧ (hintBitPackGo wk.1 h).length = wk.1 + wk.2) ∧
    (∀ (y : Bytes) (h : List (List Nat)), hintBitUnpack wk.1 wk.2 y = some h →
        hintBitPackGo wk.1 h = y ∧ h.length = wk.2 ∧ HintOK h ∧ hintWeight h ≤ wk.1) := by
  intro wk hwk
  have ho : wk.1 ≤ 255 := by
    simp only [List.mem_cons, List.not_mem_nil, or_false] at hwk
    rcases hwk with rfl | rfl | rfl <;> decide
  constructor
  · intro h hl hok hw
    rw [hintBitPackGo_eq _ _ hw, ← hl]
    exact ⟨hintBitUnpack_hintBitPack wk.1 h ho hok hw, hintBitPack_length wk.1 h hw⟩
  · intro y h hr
    obtain ⟨w1, w2, w3⟩ := hintBitUnpack_wf wk.1 wk.2 y h hr
    rw [hintBitPackGo_eq _ _ w3]
    exact ⟨hintBitUnpack_canonical wk.1 wk.2 y h hr, w1, w2, w3⟩

/-! ### The hypotheses are satisfiable -/

theorem hintOK_setOnes (ss : List Bytes) : HintOK (ss.map setOnes) := by
  intro p hp
  simp only [List.mem_map] at hp
  obtain ⟨s, _, rfl⟩ := hp
  exact ⟨setOnes_length s, setOnes_bits s⟩

example : simpleBitUnpack 10 (simpleBitPack 10 (List.replicate 256 1023)) = List.replicate 256 1023 :=
  simpleBitUnpack_simpleBitPack_256 10 _ (by decide) List.length_replicate
    (by intro c hc; rw [List.eq_of_mem_replicate hc]; decide)

example : simpleBitPack 6 (simpleBitUnpack 6 (List.replicate 192 0xa7)) = List.replicate 192 0xa7 :=
  simpleBitPack_simpleBitUnpack_256 6 _ (by decide) List.length_replicate

-- coefficient −2 ≡ q − 2 for η = 2, coefficient −(γ₁−1) for γ₁ = 2¹⁷
example : bitUnpack 2 2 (bitPack 2 2 (List.replicate 256 8380415)) = List.replicate 256 8380415 :=
  bitUnpack_bitPack_256 2 2 _ (by decide) (by decide) List.length_replicate
    (by intro c hc; rw [List.eq_of_mem_replicate hc]; decide)

example : bitUnpack 131071 131072 (bitPack 131071 131072 (List.replicate 256 8249346)) = List.replicate 256 8249346 :=
  bitUnpack_bitPack_256 131071 131072 _ (by decide) (by decide) List.length_replicate
    (by intro c hc; rw [List.eq_of_mem_replicate hc]; decide)

example : bitPack 524287 524288 (bitUnpack 524287 524288 (List.replicate 640 0xff)) = List.replicate 640 0xff :=
  ((mldsa_bitPack_bijective (524287, 524288) (by decide)).2 _ (by
    rw [List.length_replicate]; exact (by decide +kernel : 640 = 32 * bitlen (524287 + 524288)))).1

/-- a hint vector for ML-DSA-44 with ones at (0;3), (0;5), (2;7), (2;200) -/
example : hintBitUnpack 80 4 (hintBitPackGo 80 ([[3, 5], [], [7, 200], []].map setOnes))
    = some ([[3, 5], [], [7, 200], []].map setOnes) := by
  have hw : hintWeight ([[3, 5], [], [7, 200], []].map setOnes) ≤ 80 := by
    simp only [hintWeight, List.map_cons, List.map_nil, List.flatMap_cons, List.flatMap_nil, List.length_append]
    rw [positions_setOnes [3, 5] rfl, positions_setOnes [] rfl, positions_setOnes [7, 200] rfl]
    decide
  exact ((mldsa_hint_laws (80, 4) (by decide)).1 _ rfl (hintOK_setOnes _) hw).1

-- the four malformed shapes (small ω = 4, k = 2 so that the strings fit on a line)
example : hintBitUnpack 4 2 [1, 2, 0, 0, 5, 2] = none :=        -- counter above ω
  hintBitUnpack_reject_counter_gt_omega 4 2 _ 0 (by decide) (by decide)
example : hintBitUnpack 4 2 [1, 2, 0, 0, 2, 1] = none :=        -- counter decreases
  hintBitUnpack_reject_counter_decreasing 4 2 _ 0 (by decide) (by decide)
example : hintBitUnpack 4 2 [7, 7, 0, 0, 2, 2] = none :=        -- equal indices in one polynomial
  hintBitUnpack_reject_index_not_increasing 4 2 _ 0 0 (by decide) (by decide) (by decide) (by decide)
example : hintBitUnpack 4 2 [1, 2, 0, 9, 2, 2] = none :=        -- non-zero padding
  hintBitUnpack_reject_nonzero_padding 4 2 _ 3 (by decide) (by decide) (by decide) (by decide)
example : hintBitUnpack 4 2 [1, 2, 0, 0, 2, 2] = some ([[1, 2], []].map setOnes) := by decide +kernel

end TinkVerif.Model.MldsaPack

section AxiomAudit
open TinkVerif.Model.MldsaPack
#print axioms testBit_natOfBits
#print axioms natOfBits_lt
#print axioms natOfBits_congr
#print axioms natOfBits_testBit
#print axioms getD_map_range
#print axioms div_ge_of_dvd
#print axioms toNat_byte_natOfBits
#print axioms byteBit_simpleBitPack
#print axioms div_ge_of_dvd'
#print axioms coeffBit_simpleBitUnpack
#print axioms simpleBitPack_length
#print axioms simpleBitUnpack_length
#print axioms simpleBitPack_length_256
#print axioms simpleBitUnpack_length_256
#print axioms mul_add_div_self
#print axioms mul_add_mod_self'
#print axioms simpleBitUnpack_simpleBitPack
#print axioms simpleBitPack_simpleBitUnpack
#print axioms simpleBitUnpack_simpleBitPack_256
#print axioms simpleBitPack_simpleBitUnpack_256
#print axioms simpleBitUnpack_lt
#print axioms simpleBitPack_injective
#print axioms simpleBitUnpack_injective
#print axioms lt_two_pow_bitlen
#print axioms bitlen_pos
#print axioms subq_eq_gen
#print axioms subq_lt
#print axioms subq_subq
#print axioms subq_range
#print axioms subq_range_back
#print axioms subFrom_subFrom
#print axioms bitUnpackBits_bitPackBits
#print axioms bitUnpack_bitPack
#print axioms bitUnpack_bitPack_256
#print axioms bitPack_length_256
#print axioms bitPackBits_bitUnpackBits
#print axioms bitPack_bitUnpack
#print axioms bitlen_shapes
#print axioms w1Encode_length
#print axioms w1Encode_injective
#print axioms pairwise_lt_ext
#print axioms positions_pairwise
#print axioms mem_positions
#print axioms positions_lt
#print axioms positions_length_le
#print axioms strictInc_head_lt
#print axioms strictInc_tail
#print axioms strictInc_pairwise
#print axioms pairwise_strictInc
#print axioms strictInc_adjacent
#print axioms foldl_set_length
#print axioms foldl_set_getD
#print axioms replicate_getD_zero
#print axioms setOnes_getD
#print axioms setOnes_bits
#print axioms mem_positions_setOnes
#print axioms positions_setOnes
#print axioms map_ofNat_toNat
#print axioms map_toNat_ofNat
#print axioms setOnes_positions
#print axioms strictInc_positions
#print axioms hintBitPack_length
#print axioms toNat_ofNat_small
#print axioms hintUnpackLoop_pack
#print axioms hintBitUnpack_hintBitPack
#print axioms take_drop_split
#print axioms hintUnpackLoop_some
#print axioms all_zero_eq_zeros
#print axioms hintBitUnpack_canonical
#print axioms hintBitUnpack_wf
#print axioms hintBitUnpack_injective
#print axioms hintUnpackLoop_ctr_bounds
#print axioms lastCtr_eq
#print axioms hintUnpackLoop_ctr_mono
#print axioms getD_take_drop
#print axioms hintUnpackLoop_adjacent
#print axioms hintUnpackLoop_padding
#print axioms getD_drop
#print axioms getD_take
#print axioms prevCtr_drop
#print axioms eq_none_of_forall_ne
#print axioms hintBitUnpack_reject_length
#print axioms hintBitUnpack_reject_counter_gt_omega
#print axioms hintBitUnpack_reject_counter_decreasing
#print axioms hintBitUnpack_reject_index_not_increasing
#print axioms hintBitUnpack_reject_nonzero_padding
#print axioms set_at_length
#print axioms hintPackPoly_eq
#print axioms foldl_write
#print axioms hintPackLoop_eq
#print axioms hintBitPackGo_eq
#print axioms bitPack_bijective_256
#print axioms mldsa_signed_shapes
#print axioms mldsa_bitPack_bijective
#print axioms simpleBitPack_bijective_256
#print axioms mldsa_hint_laws
#print axioms hintOK_setOnes
#print axioms subFrom_length
#print axioms setOnes_length
#print axioms hintCounters_length
end AxiomAudit
