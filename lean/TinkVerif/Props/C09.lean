import TinkVerif.Model.Jwt

/-!
# C09 — JWT verification accepts exactly validly signed, rule-conforming tokens

The decision theorem states outright when `VerifyAndDecode` / `VerifyMACAndDecode` accepts; every
quantity is universally quantified (any token text, any parsed header/payload, any key
configuration, any validator options, any instant and skew).
-/
namespace TinkVerif.Jwt

/-- the declarative acceptance condition for one key -/
def Accepts (k : KeyCfg) (sigOk : Bool) (t : Token) (v : VOpts) : Prop :=
  ∃ unsigned sig hpart ppart h p typ,
    splitSignedCompact t.compact = some (unsigned, sig) ∧ sigOk = true ∧
    unsigned.splitOn '.' = [hpart, ppart] ∧ b64ok hpart = true ∧ b64ok ppart = true ∧
    t.header = some h ∧ validateHeader h k = true ∧ extractTyp h = some typ ∧
    t.payload = some p ∧ validatePayload p = true ∧ validate v typ p = true

/-- **Decision theorem (one key).** -/
theorem verifyOne_accept_iff (k : KeyCfg) (sigOk : Bool) (t : Token) (v : VOpts) :
    verifyOne k sigOk t v = .accept ↔ Accepts k sigOk t v := by
  unfold verifyOne Accepts
  constructor
  · intro h
    split at h
    · cases h
    · rename_i unsigned sig hs
      split at h
      · cases h
      · rename_i hsig
        dsimp only at h
        split at h
        · rename_i hpart ppart hparts
          split at h
          · cases h
          · rename_i hb1
            split at h
            · cases h
            · rename_i hh hhe
              split at h
              · cases h
              · rename_i hvh
                split at h
                · cases h
                · rename_i typ htyp
                  split at h
                  · cases h
                  · rename_i hb2
                    split at h
                    · cases h
                    · rename_i p hp
                      split at h
                      · cases h
                      · rename_i hvp
                        split at h
                        · rename_i hval
                          exact ⟨unsigned, sig, hpart, ppart, hh, p, typ, hs, by simpa using hsig, hparts,
                            by simpa using hb1, by simpa using hb2, hhe, by simpa using hvh, htyp, hp,
                            by simpa using hvp, hval⟩
                        · cases h
        · cases h
  · rintro ⟨unsigned, sig, hpart, ppart, h, p, typ, h1, h2, h3, h4, h5, h6, h7, h8, h9, h10, h11⟩
    simp only [h1, h2, h3, h4, h5, h6, h7, h8, h9, h10, h11, Bool.not_true, Bool.false_eq_true, ↓reduceIte]

/-- a token whose raw signature/MAC does not verify is never accepted -/
theorem bad_signature_rejected (k : KeyCfg) (t : Token) (v : VOpts) : verifyOne k false t v ≠ .accept := by
  intro h
  obtain ⟨_, _, _, _, _, _, _, _, h2, _⟩ := (verifyOne_accept_iff k false t v).mp h
  cases h2

/-! ## header rules -/

/-- what `validateHeader` guarantees: exact algorithm, no `crit`, and the key's kid rule -/
theorem validateHeader_sound (h : Obj) (k : KeyCfg) (hv : validateHeader h k = true) :
    strField h "alg" = some k.alg ∧ (h.get? "crit") = none ∧
    (∀ kid, k.tinkKid = some kid → strField h "kid" = some kid) ∧
    (∀ kid, k.customKid = some kid → (h.get? "kid").isSome = true → strField h "kid" = some kid) := by
  unfold validateHeader at hv
  split at hv
  · cases hv
  · rename_i alg halg
    split at hv
    · cases hv
    · rename_i hne
      split at hv
      · cases hv
      · rename_i hcrit
        split at hv
        · cases hv
        · rename_i hboth
          have hcrit' : h.get? "crit" = none := by
            cases hc : h.get? "crit" <;> simp_all
          have halg' : strField h "alg" = some k.alg := by
            rw [halg]; simp only [ne_eq, Decidable.not_not] at hne; rw [hne]
          refine ⟨halg', hcrit', ?_, ?_⟩
          · intro kid hk
            simp only [hk] at hv
            split at hv
            · cases hv
            · simpa using hv
          · intro kid hk hhas
            cases ht : k.tinkKid with
            | some tk => exact absurd ⟨by simp [ht], by simp [hk]⟩ hboth
            | none =>
              simp only [ht, hk, hhas, ↓reduceIte] at hv
              simpa using hv

/-- a header naming any other algorithm (incl. "none", or HS* for an RS* key) is rejected -/
theorem wrong_alg_rejected (h : Obj) (k : KeyCfg) (alg : String) (ha : strField h "alg" = some alg)
    (hne : alg ≠ k.alg) : validateHeader h k = false := by
  cases hv : validateHeader h k with
  | false => rfl
  | true =>
    have := (validateHeader_sound h k hv).1
    rw [ha] at this; cases this; exact absurd rfl hne

theorem crit_rejected (h : Obj) (k : KeyCfg) (hc : (h.get? "crit").isSome = true) : validateHeader h k = false := by
  cases hv : validateHeader h k with
  | false => rfl
  | true =>
    have := (validateHeader_sound h k hv).2.1
    rw [this] at hc; cases hc

theorem tink_kid_required (h : Obj) (k : KeyCfg) (kid : String) (hk : k.tinkKid = some kid)
    (hmiss : strField h "kid" ≠ some kid) : validateHeader h k = false := by
  cases hv : validateHeader h k with
  | false => rfl
  | true => exact absurd ((validateHeader_sound h k hv).2.2.1 kid hk) hmiss

/-! ## validator rules -/

/-- the presence/expectation matrix of `validateFieldPresence` (all 12 cells) -/
theorem fieldRule_table :
    (∀ p e, fieldRule true p e = true) ∧
    fieldRule false none false = true ∧ (∀ m, fieldRule false (some m) false = false) ∧
    fieldRule false none true = false ∧ (∀ m, fieldRule false (some m) true = m) := by
  refine ⟨?_, rfl, ?_, rfl, ?_⟩
  · intro p e; rfl
  · intro m; rfl
  · intro m; rfl

/-- `Validate` as a conjunction of named rules -/
theorem validate_iff (v : VOpts) (typ : Option String) (p : Obj) :
    validate v typ p = true ↔
      (match p.get? "exp" with
        | none => v.allowMissingExp = true
        | some _ => ∃ exp, timeOf p "exp" = some exp ∧ exp * 1000000000 > v.nowNs - v.skewNs) ∧
      (match p.get? "nbf" with
        | none => True
        | some _ => ∃ nbf, timeOf p "nbf" = some nbf ∧ nbf * 1000000000 ≤ v.nowNs + v.skewNs) ∧
      (v.expectIat = true → ∃ iat, timeOf p "iat" = some iat ∧ iat * 1000000000 ≤ v.nowNs + v.skewNs) ∧
      fieldRule v.ignoreTyp (typ.map fun t => some t == v.expectedTyp) v.expectedTyp.isSome = true ∧
      fieldRule v.ignoreAud ((p.get? "aud").map fun _ => match v.expectedAud with
          | some a => (audiences p).contains a | none => false) v.expectedAud.isSome = true ∧
      fieldRule v.ignoreIss ((p.get? "iss").map fun _ => strField p "iss" == v.expectedIss ∧ v.expectedIss.isSome) v.expectedIss.isSome = true := by
  unfold validate
  generalize fieldRule v.ignoreTyp (typ.map fun t => some t == v.expectedTyp) v.expectedTyp.isSome = A
  generalize fieldRule v.ignoreAud ((p.get? "aud").map fun _ => match v.expectedAud with
          | some a => (audiences p).contains a | none => false) v.expectedAud.isSome = B
  generalize fieldRule v.ignoreIss ((p.get? "iss").map fun _ => strField p "iss" == v.expectedIss ∧ v.expectedIss.isSome) v.expectedIss.isSome = C
  simp only [Bool.and_eq_true, and_assoc]
  cases hexp : p.get? "exp" <;> cases hnbf : p.get? "nbf" <;> cases hte : timeOf p "exp" <;>
    cases htn : timeOf p "nbf" <;> cases hti : timeOf p "iat" <;> cases hi : v.expectIat <;> simp

/-- a token without `exp` needs `AllowMissingExpiration` -/
theorem missing_exp_needs_option (v : VOpts) (typ : Option String) (p : Obj) (h : p.get? "exp" = none)
    (hv : validate v typ p = true) : v.allowMissingExp = true := by
  have := ((validate_iff v typ p).mp hv).1
  simpa [h] using this

/-- `NewValidator` rejects a clock skew above 10 minutes and contradictory options -/
theorem newValidator_guards (o : VOpts) (o' : VOpts) (h : newValidator o = some o') :
    o'.skewNs ≤ 600000000000 ∧ ¬ (o.expectedAuds.isSome = true ∧ o.expectedAud.isSome = true) ∧
    ¬ (o'.expectedTyp.isSome = true ∧ o'.ignoreTyp = true) ∧ ¬ (o'.expectedIss.isSome = true ∧ o'.ignoreIss = true) ∧
    ¬ (o'.expectedAud.isSome = true ∧ o'.ignoreAud = true) := by
  unfold newValidator at h
  by_cases h0 : o.expectedAuds.isSome = true ∧ o.expectedAud.isSome = true
  · rw [if_pos h0] at h; cases h
  · rw [if_neg h0] at h
    dsimp only at h
    generalize (if o.expectedAuds.isSome = true then
      ({ o with expectedAud := o.expectedAuds, expectedAuds := none } : VOpts) else o) = o1 at h
    by_cases h1 : o1.expectedTyp.isSome = true ∧ o1.ignoreTyp = true
    · rw [if_pos h1] at h; cases h
    · rw [if_neg h1] at h
      by_cases h2 : o1.expectedIss.isSome = true ∧ o1.ignoreIss = true
      · rw [if_pos h2] at h; cases h
      · rw [if_neg h2] at h
        by_cases h3 : o1.expectedAud.isSome = true ∧ o1.ignoreAud = true
        · rw [if_pos h3] at h; cases h
        · rw [if_neg h3] at h
          by_cases h4 : o1.skewNs > 600000000000
          · rw [if_pos h4] at h; cases h
          · rw [if_neg h4] at h
            cases h
            exact ⟨by omega, h0, h1, h2, h3⟩

/-! ## keyset level -/

theorem go_accept_iff (keys : List (Nat × KeyCfg × Bool)) (t : Token) (v : VOpts) (b : Bool) :
    (verifyKeyset.go t v keys b).1 = .accept ↔ ∃ e ∈ keys, verifyOne e.2.1 e.2.2 t v = .accept := by
  induction keys generalizing b with
  | nil => simp only [verifyKeyset.go]; split <;> simp
  | cons e rest ih =>
    obtain ⟨id, k, s⟩ := e
    simp only [verifyKeyset.go]
    cases hv : verifyOne k s t v with
    | accept => simp [hv]
    | validationErr =>
      simp only [ih true, List.mem_cons]
      constructor
      · rintro ⟨e, he, ha⟩; exact ⟨e, Or.inr he, ha⟩
      · rintro ⟨e, he | he, ha⟩
        · subst he; simp [hv] at ha
        · exact ⟨e, he, ha⟩
    | verificationErr =>
      simp only [ih b, List.mem_cons]
      constructor
      · rintro ⟨e, he, ha⟩; exact ⟨e, Or.inr he, ha⟩
      · rintro ⟨e, he | he, ha⟩
        · subst he; simp [hv] at ha
        · exact ⟨e, he, ha⟩

/-- **Decision theorem (keyset).** The keyset-level primitive accepts iff some key of the list
    (the ENABLED keys, in order) accepts on its own. -/
theorem verifyKeyset_accept_iff (keys : List (Nat × KeyCfg × Bool)) (t : Token) (v : VOpts) :
    (verifyKeyset keys t v).1 = .accept ↔ ∃ e ∈ keys, Accepts e.2.1 e.2.2 t v := by
  unfold verifyKeyset
  rw [go_accept_iff]
  constructor
  · rintro ⟨e, he, ha⟩; exact ⟨e, he, (verifyOne_accept_iff _ _ t v).mp ha⟩
  · rintro ⟨e, he, ha⟩; exact ⟨e, he, (verifyOne_accept_iff _ _ t v).mpr ha⟩

/-! ## boundary instants (tests of the model at exact edges, by evaluation) -/

def vBase : VOpts :=
  { expectedTyp := none, expectedIss := none, expectedAud := none, expectedAuds := none, ignoreTyp := false,
    ignoreAud := false, ignoreIss := false, allowMissingExp := false, expectIat := false,
    skewNs := 5000000000, nowNs := 1000000000000 }

/-- exp = now − skew is rejected, one second later is accepted (claims have second resolution) -/
example : validate vBase none [("exp", .num 995 0)] = false := by decide
example : validate vBase none [("exp", .num 996 0)] = true := by decide
/-- with a nanosecond clock: exp·10⁹ must be strictly greater than now − skew -/
example : validate { vBase with nowNs := 1000999999999 } none [("exp", .num 996 0)] = true := by decide
example : validate { vBase with nowNs := 1001000000000 } none [("exp", .num 996 0)] = false := by decide
/-- nbf = now + skew is accepted, one second later rejected -/
example : validate vBase none [("exp", .num 2000 0), ("nbf", .num 1005 0)] = true := by decide
example : validate vBase none [("exp", .num 2000 0), ("nbf", .num 1006 0)] = false := by decide
/-- missing iat with ExpectIssuedInThePast is rejected -/
example : validate { vBase with expectIat := true } none [("exp", .num 2000 0)] = false := by decide
example : validatePayload [("exp", .num 253402300799 0)] = true := by decide
example : validatePayload [("exp", .num 253402300800 0)] = false := by decide
example : validatePayload [("exp", .num (-1) 0)] = false := by decide
example : validatePayload [("exp", .num 1 30)] = false := by decide
example : validatePayload [("aud", .arr [])] = false := by decide
example : splitSignedCompact "a.b.cc".toList = some ("a.b".toList, "cc".toList) := by decide
example : splitSignedCompact "a.b.c.dd".toList = none := by decide
example : splitSignedCompact "a.b.".toList = none := by decide
example : splitSignedCompact "a.b.cc=".toList = none := by decide
example : splitSignedCompact "a.b.c".toList = none := by decide

end TinkVerif.Jwt

section AxiomAudit
open TinkVerif.Jwt
#print axioms verifyOne_accept_iff
#print axioms bad_signature_rejected
#print axioms validateHeader_sound
#print axioms wrong_alg_rejected
#print axioms crit_rejected
#print axioms tink_kid_required
#print axioms fieldRule_table
#print axioms validate_iff
#print axioms missing_exp_needs_option
#print axioms newValidator_guards
#print axioms verifyKeyset_accept_iff
end AxiomAudit
