import TinkVerif.Props.C15
import TinkVerif.Model.Derive

/-!
# C15 (deep) — the code-shaped HMAC / HKDF models are the RFC 2104 / RFC 5869 functions

`Model/Hmac.lean` is written the way the Go code (x/crypto/hkdf, crypto/hmac) computes: a block
generator threaded with the previous block and a counter, `len / hashLen + 1` blocks, a final `take`.
Here the RFC **texts** are transcribed as independent definitions

* `Rfc5869.T`, `Rfc5869.N`, `Rfc5869.Tconcat`, `Rfc5869.okm`, `Rfc5869.extract`, `Rfc5869.hkdf`
  (RFC 5869 §2.2, §2.3; `okm` is *undefined* — `none` — beyond `255 · HashLen`),
* `Rfc2104.ipad`, `Rfc2104.opad`, `Rfc2104.keyBlock`, `Rfc2104.hmac` (RFC 2104 §2),

and the models are proved equal to them for **all** inputs. Then the laws the other claims use:
prefix / streaming laws at the `hkdf` / `computeHKDF` / `Derive.material` level (C17), the
"absent salt = HashLen zero octets" rule as a consequence of HMAC key preparation, and the
truncation / refusal behaviour of the HMAC-, CMAC- and HKDF-PRFs.
-/

namespace TinkVerif

/-! ## RFC 5869 — transcribed from the RFC text -/
namespace Rfc5869

variable (mac : Bytes → Bytes → Bytes)

/-- §2.3: `T(0) = empty string (zero length)`, `T(i+1) = HMAC-Hash(PRK, T(i) | info | byte (i+1))`. -/
def T (prk info : Bytes) : Nat → Bytes
  | 0 => []
  | i + 1 => mac prk (T prk info i ++ info ++ [UInt8.ofNat (i + 1)])

/-- §2.3: `N = ceil(L / HashLen)` -/
def N (hashLen L : Nat) : Nat := (L + hashLen - 1) / hashLen

/-- §2.3: `T = T(1) | T(2) | T(3) | ... | T(N)` -/
def Tconcat (prk info : Bytes) (n : Nat) : Bytes := (List.range' 1 n).flatMap (T mac prk info)

/-- §2.3 HKDF-Expand(PRK, info, L) → OKM: `first L octets of T`, defined for `L ≤ 255·HashLen` only. -/
def okm (hashLen : Nat) (prk info : Bytes) (L : Nat) : Option Bytes :=
  if L ≤ 255 * hashLen then some ((Tconcat mac prk info (N hashLen L)).take L) else none

/-- §2.2 HKDF-Extract(salt, IKM) → PRK = HMAC-Hash(salt, IKM); `salt: optional salt value …; if not
    provided, it is set to a string of HashLen zeros.` (`none` = not provided) -/
def extract (hashLen : Nat) (salt : Option Bytes) (ikm : Bytes) : Bytes :=
  mac (salt.getD (Bytes.zeros hashLen)) ikm

/-- §2: HKDF = Expand ∘ Extract -/
def hkdf (hashLen : Nat) (salt : Option Bytes) (ikm info : Bytes) (L : Nat) : Option Bytes :=
  okm mac hashLen (extract mac hashLen salt ikm) info L

end Rfc5869

/-! ## RFC 2104 — transcribed from the RFC text -/
namespace Rfc2104

/-- `ipad = the byte 0x36 repeated B times` -/
def ipad (B : Nat) : Bytes := List.replicate B 0x36
/-- `opad = the byte 0x5C repeated B times` -/
def opad (B : Nat) : Bytes := List.replicate B 0x5c

/-- step (1) `append zeros to the end of K to create a B byte string`, preceded by §2/§3: `keys longer
    than B bytes are first hashed using H` and the resulting L-byte string is used as the actual key. -/
def keyBlock (H : Bytes → Bytes) (B : Nat) (K : Bytes) : Bytes :=
  let K' := if K.length > B then H K else K
  K' ++ List.replicate (B - K'.length) 0

/-- `H(K XOR opad, H(K XOR ipad, text))` (steps (2)–(7)); XOR is of B-byte strings (`Bytes.xor`). -/
def hmac (H : Bytes → Bytes) (B : Nat) (K text : Bytes) : Bytes :=
  H (Bytes.xor (keyBlock H B K) (opad B) ++ H (Bytes.xor (keyBlock H B K) (ipad B) ++ text))

end Rfc2104

/-! ## the PRF primitives (prf/subtle): transcriptions of the `prf …` lines of Driver/Sym.lean -/
namespace Prf

/-- a PRF that truncates a fixed tag and refuses requests above `limit`
    (`HMACPRF.ComputePRF`: limit = `mac.Size()`; `AESCMACPRF.ComputePRF`: limit = 16) -/
def truncPrf (limit : Nat) (tag : Bytes) (n : Nat) : Option Bytes :=
  if n > limit then none else some (tag.take n)

/-- `HMACPRF.ComputePRF` (Driver/Sym.lean, `prf hmac`) -/
def hmacPrf (H : Bytes → Bytes) (B digestLen : Nat) (key inp : Bytes) (n : Nat) : Option Bytes :=
  if n > digestLen then none else some ((Hmac.hmac H B key inp).take n)

/-- `AESCMACPRF.ComputePRF` (Driver/Sym.lean, `prf cmac`) -/
def cmacPrf (E : Bytes → Bytes) (inp : Bytes) (n : Nat) : Option Bytes :=
  if n > 16 then none else some ((Cmac.compute E inp).take n)

/-- `HKDFPRF.ComputePRF` (Driver/Sym.lean, `prf hkdf`): the input is the HKDF `info` -/
def hkdfPrf (mac : Bytes → Bytes → Bytes) (hashLen : Nat) (key salt inp : Bytes) (n : Nat) : Option Bytes :=
  Hmac.hkdf mac hashLen key salt inp n

end Prf

/-! ## 1. HKDF-Expand: model = RFC 5869 §2.3 -/
namespace Hmac
open Rfc5869 (T N Tconcat okm)

/-- arithmetic: the model's block count `L / h + 1` is at least the RFC's `N = ⌈L / h⌉` -/
theorem ceil_le_div_succ (L h : Nat) (hpos : 0 < h) : (L + h - 1) / h ≤ L / h + 1 := by
  have h1 : (L + h - 1) / h ≤ (L + h) / h := Nat.div_le_div_right (by omega)
  rw [Nat.add_div_right L hpos] at h1
  exact h1

/-- arithmetic: `N` blocks cover `L` octets -/
theorem le_ceil_mul (L h : Nat) (hpos : 0 < h) : L ≤ (L + h - 1) / h * h := by
  have h1 := Nat.div_add_mod (L + h - 1) h
  have h2 := Nat.mod_lt (L + h - 1) hpos
  rw [Nat.mul_comm]
  omega

/-- arithmetic: `N - 1` blocks do not cover `L` octets (so `N` is the *least* sufficient count) -/
theorem ceil_pred_mul_lt (L h : Nat) (hL : 0 < L) : ((L + h - 1) / h - 1) * h < L := by
  by_cases hpos : 0 < h
  · have h1 := Nat.div_add_mod (L + h - 1) h
    have h2 := Nat.mod_lt (L + h - 1) hpos
    rw [Nat.sub_mul, Nat.mul_comm, Nat.one_mul]
    omega
  · have : h = 0 := by omega
    subst this; simpa using hL

/-- within the RFC limit at most 255 blocks are used, so the counter octet never wraps -/
theorem N_le_255 (hashLen L : Nat) (hpos : 0 < hashLen) (h : L ≤ 255 * hashLen) : N hashLen L ≤ 255 := by
  unfold N
  have : (L + hashLen - 1) / hashLen < 256 := by
    rw [Nat.div_lt_iff_lt_mul hpos]; omega
  omega

/-- the counter octet of block `i ≤ 255` is the octet with value `i` (no reduction mod 256) -/
theorem counter_octet_exact (i : Nat) (h : i ≤ 255) : (UInt8.ofNat i).toNat = i := by
  rw [UInt8.toNat_ofNat']; omega

/-- every block `T(i)`, `1 ≤ i ≤ N`, used for an `L ≤ 255·HashLen` has its exact index as counter octet -/
theorem okm_counters_exact (hashLen L : Nat) (hpos : 0 < hashLen) (h : L ≤ 255 * hashLen)
    (i : Nat) (hi : i ≤ N hashLen L) : (UInt8.ofNat i).toNat = i :=
  counter_octet_exact i (Nat.le_trans hi (N_le_255 hashLen L hpos h))

variable (mac : Bytes → Bytes → Bytes) (prk info : Bytes)

/-- the threaded generator started at `T(i)` with counter `i` emits `T(i+1) ‖ … ‖ T(i+n)` -/
theorem blocksFrom_eq_T (n i : Nat) :
    blocksFrom mac prk info n (T mac prk info i) i = (List.range' (i + 1) n).flatMap (T mac prk info) := by
  induction n generalizing i with
  | zero => simp [blocksFrom]
  | succ n ih =>
    simp only [blocksFrom, List.range'_succ, List.flatMap_cons]
    have hT : mac prk (T mac prk info i ++ info ++ [UInt8.ofNat (i + 1)]) = T mac prk info (i + 1) := rfl
    rw [hT, ih (i + 1)]

/-- `stream n` is the RFC's `T(1) ‖ T(2) ‖ … ‖ T(n)` -/
theorem stream_eq_Tconcat (n : Nat) : stream mac prk info n = Tconcat mac prk info n := by
  unfold stream Tconcat
  exact blocksFrom_eq_T mac prk info n 0

theorem Tconcat_length (hl : Nat) (hmac : ∀ k x, (mac k x).length = hl) (n : Nat) :
    (Tconcat mac prk info n).length = n * hl := by
  rw [← stream_eq_Tconcat]; exact blocksFrom_length mac prk info hl hmac n [] 0

/-- the model's `expand` is the first `L` octets of `T(1) ‖ … ‖ T(N)`, `N = ⌈L / hashLen⌉` — for every
    `L` (the limit only decides whether the RFC *defines* the value) -/
theorem expand_eq_Tconcat (hl : Nat) (hpos : 0 < hl) (hmac : ∀ k x, (mac k x).length = hl) (L : Nat) :
    expand mac hl prk info L = (Tconcat mac prk info (N hl L)).take L := by
  unfold expand
  rw [← stream_eq_Tconcat]
  exact stream_take mac prk info hl hmac (N hl L) (L / hl + 1) L (ceil_le_div_succ L hl hpos)
    (le_ceil_mul L hl hpos)

/-- **Model = RFC 5869 §2.3.** For every MAC with output length `hashLen > 0`, every PRK, info and every
    `L ≤ 255·hashLen`, `expand` is the RFC's OKM. -/
theorem expand_eq_rfc (hl : Nat) (hpos : 0 < hl) (hmac : ∀ k x, (mac k x).length = hl)
    (L : Nat) (hL : L ≤ 255 * hl) :
    okm mac hl prk info L = some (expand mac hl prk info L) := by
  unfold okm
  rw [if_pos hL, expand_eq_Tconcat mac prk info hl hpos hmac L]

/-- beyond the limit the RFC function is undefined … -/
theorem okm_undefined (hl : Nat) (L : Nat) (hL : 255 * hl < L) : okm mac hl prk info L = none := by
  unfold okm; rw [if_neg (by omega)]

/-- … and the model's API-level function refuses exactly there: `hkdf` **is** RFC 5869 HKDF with a
    provided salt, as a partial function, for all inputs (result and definedness). -/
theorem hkdf_eq_rfc (hl : Nat) (hpos : 0 < hl) (hmac : ∀ k x, (mac k x).length = hl)
    (ikm salt info : Bytes) (L : Nat) :
    hkdf mac hl ikm salt info L = Rfc5869.hkdf mac hl (some salt) ikm info L := by
  unfold hkdf Rfc5869.hkdf
  by_cases hL : L ≤ 255 * hl
  · rw [if_neg (by omega), expand_eq_rfc mac _ info hl hpos hmac L hL]
    rfl
  · rw [if_pos (by omega), okm_undefined mac _ info hl L (by omega)]

/-- the refusal, connected to `hkdf_limit`: `hkdf` fails iff the RFC value is undefined -/
theorem hkdf_none_iff (hl : Nat) (ikm salt info : Bytes) (L : Nat) :
    hkdf mac hl ikm salt info L = none ↔ 255 * hl < L := by
  have h := hkdf_limit mac hl ikm salt info L
  cases hh : hkdf mac hl ikm salt info L with
  | none => rw [hh] at h; simp at h; simp; omega
  | some o => rw [hh] at h; simp at h; simp; omega

/-- `subtle.ComputeHKDF` = (tag size ≥ 10 guard) ∘ RFC 5869 HKDF, where an empty salt means "not
    provided" (connects to `computeHKDF_guard`) -/
theorem computeHKDF_eq_rfc (hl : Nat) (hpos : 0 < hl) (hmac : ∀ k x, (mac k x).length = hl)
    (key salt info : Bytes) (n : Nat) :
    computeHKDF mac hl key salt info n =
      if n < 10 then none
      else Rfc5869.hkdf mac hl (if salt.length = 0 then none else some salt) key info n := by
  unfold computeHKDF Rfc5869.hkdf
  by_cases h1 : n > 255 * hl
  · rw [if_pos h1, okm_undefined mac _ info hl n h1]; simp
  · rw [if_neg h1]
    by_cases h2 : n < 10
    · rw [if_pos h2, if_pos h2]
    · rw [if_neg h2, if_neg h2, expand_eq_rfc mac _ info hl hpos hmac n (by omega)]
      by_cases h3 : salt.length = 0 <;> simp [h3, Rfc5869.extract, extract]

/-- `ComputeHKDF` refuses exactly the sizes below 10 and beyond the RFC limit (from `computeHKDF_guard`) -/
theorem computeHKDF_none_iff (hl : Nat) (key salt info : Bytes) (n : Nat) :
    computeHKDF mac hl key salt info n = none ↔ (n < 10 ∨ 255 * hl < n) := by
  have h := computeHKDF_guard mac hl key salt info n
  cases hh : computeHKDF mac hl key salt info n with
  | none => rw [hh] at h; simp at h; simp; omega
  | some o => rw [hh] at h; simp at h; simp; omega

/-- what the *raw* `expand` does beyond the limit (it is total; `hkdf` / `computeHKDF` are the guards):
    it keeps emitting `T(256), T(257), …` with the counter octet reduced mod 256 -/
theorem T_counter_wraps (i : Nat) :
    T mac prk info (i + 1) = mac prk (T mac prk info i ++ info ++ [UInt8.ofNat ((i + 1) % 256)]) := by
  have : UInt8.ofNat ((i + 1) % 256) = UInt8.ofNat (i + 1) := by
    apply UInt8.toNat_inj.mp
    rw [UInt8.toNat_ofNat', UInt8.toNat_ofNat']; omega
  rw [this]; rfl

end Hmac

/-! ## 3. HMAC: model = RFC 2104 (placed before §2, which uses it) -/
namespace Hmac

theorem map_xor_const (k : Bytes) (n : Nat) (c : UInt8) (h : k.length ≤ n) :
    k.map (· ^^^ c) = Bytes.xor k (List.replicate n c) := by
  induction k generalizing n with
  | nil => simp [Bytes.xor]
  | cons x xs ih =>
    cases n with
    | zero => simp at h
    | succ n =>
      simp only [List.length_cons, Nat.add_le_add_iff_right] at h
      have := ih n h
      simp only [Bytes.xor] at this ⊢
      simp only [List.map_cons, List.replicate_succ, List.zipWith_cons_cons, this]

variable (H : Bytes → Bytes) (B : Nat)

/-- the model's key preparation is literally RFC 2104 step (1) (+ hashing of long keys) -/
theorem prepKey_eq_keyBlock (key : Bytes) : prepKey H B key = Rfc2104.keyBlock H B key := rfl

/-- the prepared key is exactly one block, provided a hashed long key fits into a block (`L ≤ B`) -/
theorem prepKey_length (key : Bytes) (hH : key.length > B → (H key).length ≤ B) :
    (prepKey H B key).length = B := by
  unfold prepKey
  by_cases h : key.length > B
  · have := hH h
    simp only [h, ↓reduceIte, List.length_append, Bytes.length_zeros]; omega
  · simp only [h, ↓reduceIte, List.length_append, Bytes.length_zeros]; omega

/-- **Model = RFC 2104**: `H((K' ⊕ opad) ‖ H((K' ⊕ ipad) ‖ m))`, `K'` = `H(K)` if `|K| > B` else `K`,
    zero-padded to `B`. Hypothesis: a hashed long key fits into a block (RFC 2104 assumes `L ≤ B`;
    see `C15Deep.hmac_ne_rfc2104_wide_hash` for why it is needed). -/
theorem hmac_eq_rfc2104 (key msg : Bytes) (hH : key.length > B → (H key).length ≤ B) :
    hmac H B key msg = Rfc2104.hmac H B key msg := by
  have hl := prepKey_length H B key hH
  unfold hmac Rfc2104.hmac Rfc2104.ipad Rfc2104.opad
  rw [← prepKey_eq_keyBlock]
  simp only
  rw [map_xor_const _ B 0x36 (by omega), map_xor_const _ B 0x5c (by omega)]

/-- corollary for a hash of fixed output length `L ≤ B` (every hash Tink uses) -/
theorem hmac_eq_rfc2104' (L : Nat) (hHL : ∀ x, (H x).length = L) (hLB : L ≤ B) (key msg : Bytes) :
    hmac H B key msg = Rfc2104.hmac H B key msg :=
  hmac_eq_rfc2104 H B key msg (fun _ => by rw [hHL]; exact hLB)

/-- output length = digest length -/
theorem hmac_length (L : Nat) (hHL : ∀ x, (H x).length = L) (key msg : Bytes) :
    (hmac H B key msg).length = L := by
  unfold hmac; exact hHL _

/-- HMAC depends on the key only through the prepared key block -/
theorem hmac_congr_prepKey (k1 k2 msg : Bytes) (h : prepKey H B k1 = prepKey H B k2) :
    hmac H B k1 msg = hmac H B k2 msg := by
  unfold hmac; rw [h]

/-- key preparation is idempotent -/
theorem prepKey_idem (key : Bytes) (hH : key.length > B → (H key).length ≤ B) :
    prepKey H B (prepKey H B key) = prepKey H B key := by
  have hl := prepKey_length H B key hH
  generalize prepKey H B key = k at hl
  subst hl
  simp [prepKey, Bytes.zeros]

/-- the prepared key block is an equivalent key -/
theorem hmac_prepKey (key msg : Bytes) (hH : key.length > B → (H key).length ≤ B) :
    hmac H B (prepKey H B key) msg = hmac H B key msg :=
  hmac_congr_prepKey H B _ _ msg (prepKey_idem H B key hH)

/-- a key longer than a block is equivalent to its hash -/
theorem prepKey_long_key (key : Bytes) (hlong : key.length > B) (hH : (H key).length ≤ B) :
    prepKey H B key = prepKey H B (H key) := by
  unfold prepKey
  have h : ¬ ((H key).length > B) := by omega
  simp only [hlong, h, ↓reduceIte]

theorem hmac_long_key (key msg : Bytes) (hlong : key.length > B) (hH : (H key).length ≤ B) :
    hmac H B key msg = hmac H B (H key) msg :=
  hmac_congr_prepKey H B _ _ msg (prepKey_long_key H B key hlong hH)

/-- zero-padding a key within the block does not change the prepared key -/
theorem prepKey_pad_zeros (k : Bytes) (j : Nat) (h : k.length + j ≤ B) :
    prepKey H B (k ++ Bytes.zeros j) = prepKey H B k := by
  unfold prepKey
  have h1 : ¬ ((k ++ Bytes.zeros j).length > B) := by simp; omega
  have h2 : ¬ (k.length > B) := by omega
  rw [if_neg h1, if_neg h2]
  simp only [List.length_append, Bytes.zeros, List.length_replicate, List.append_assoc,
    List.replicate_append_replicate]
  congr 2; omega

/-- **zero-padding law**: for `|k| + j ≤ B`, `HMAC(k ‖ 0^j, m) = HMAC(k, m)` -/
theorem hmac_pad_zeros (k : Bytes) (j : Nat) (h : k.length + j ≤ B) (msg : Bytes) :
    hmac H B (k ++ Bytes.zeros j) msg = hmac H B k msg :=
  hmac_congr_prepKey H B _ _ msg (prepKey_pad_zeros H B k j h)

/-! ## 2. HKDF-Extract: "if not provided, [salt] is set to a string of HashLen zeros" -/

variable (hl : Nat)

/-- for HKDF over HMAC, padding the salt with zeros inside the block does not change anything -/
theorem hkdf_salt_pad_zeros (ikm salt info : Bytes) (j : Nat) (h : salt.length + j ≤ B) (L : Nat) :
    hkdf (hmac H B) hl ikm (salt ++ Bytes.zeros j) info L = hkdf (hmac H B) hl ikm salt info L := by
  unfold hkdf extract
  rw [hmac_pad_zeros H B salt j h]

/-- the empty salt and `hashLen` zero octets are the same salt (`hashLen ≤ B`) -/
theorem hkdf_empty_salt_eq_zeros (hlB : hl ≤ B) (ikm info : Bytes) (L : Nat) :
    hkdf (hmac H B) hl ikm [] info L = hkdf (hmac H B) hl ikm (Bytes.zeros hl) info L := by
  have := hkdf_salt_pad_zeros H B hl ikm [] info hl (by simpa using hlB) L
  simpa using this.symm

/-- **RFC 5869 §2.2 in the RFC's form**: calling the model with the empty salt is HKDF with the salt
    "not provided" -/
theorem hkdf_empty_salt_eq_rfc (hpos : 0 < hl) (hHL : ∀ x, (H x).length = hl) (hlB : hl ≤ B)
    (ikm info : Bytes) (L : Nat) :
    hkdf (hmac H B) hl ikm [] info L = Rfc5869.hkdf (hmac H B) hl none ikm info L := by
  rw [hkdf_empty_salt_eq_zeros H B hl hlB,
    hkdf_eq_rfc (hmac H B) hl hpos (fun k x => hmac_length H B hl hHL k x)]
  rfl

/-- … and, over HMAC, "not provided", empty and `HashLen` zeros are all the same RFC function -/
theorem rfc_hkdf_salt_default (hlB : hl ≤ B) (ikm info : Bytes) (L : Nat) :
    Rfc5869.hkdf (hmac H B) hl none ikm info L = Rfc5869.hkdf (hmac H B) hl (some []) ikm info L := by
  unfold Rfc5869.hkdf Rfc5869.extract
  simp only [Option.getD_none, Option.getD_some]
  rw [hmac_empty_key_eq_zero_key H B hl hlB]

/-- `subtle.ComputeHKDF`'s explicit replacement of the empty salt is therefore redundant over HMAC:
    `ComputeHKDF` is `hkdf` (what the HKDF-PRF computes) plus the `tagSize ≥ 10` guard -/
theorem computeHKDF_eq_hkdf (hlB : hl ≤ B) (key salt info : Bytes) (n : Nat) :
    computeHKDF (hmac H B) hl key salt info n =
      if n < 10 then none else hkdf (hmac H B) hl key salt info n := by
  unfold computeHKDF hkdf
  by_cases h1 : n > 255 * hl
  · simp [h1]
  · by_cases h2 : n < 10
    · simp [h1, h2]
    · simp only [h1, h2, ↓reduceIte]
      by_cases h3 : salt.length = 0
      · have hs : salt = [] := List.eq_nil_of_length_eq_zero h3
        subst hs
        simp only [List.length_nil, ↓reduceIte, extract]
        rw [hmac_empty_key_eq_zero_key H B hl hlB]
      · simp only [h3, ↓reduceIte]

end Hmac

/-! ## 4. prefix / streaming laws at the API level -/
namespace Hmac

variable (mac : Bytes → Bytes → Bytes) (hl : Nat)

/-- two expansions of different lengths agree on their common prefix -/
theorem expand_common_prefix (hpos : 0 < hl) (hmac : ∀ k x, (mac k x).length = hl)
    (prk info : Bytes) (n m : Nat) :
    (expand mac hl prk info n).take (min n m) = (expand mac hl prk info m).take (min n m) := by
  rw [← expand_prefix mac prk info hl hpos hmac (min n m) n (Nat.min_le_left n m),
    ← expand_prefix mac prk info hl hpos hmac (min n m) m (Nat.min_le_right n m)]

/-- streaming (`io.Reader`) law: reading `a` octets and then `b` more yields the same octets as one
    read of `a + b` -/
theorem expand_read_split (hpos : 0 < hl) (hmac : ∀ k x, (mac k x).length = hl)
    (prk info : Bytes) (a b : Nat) :
    expand mac hl prk info (a + b) =
      expand mac hl prk info a ++ (expand mac hl prk info (a + b)).drop a := by
  rw [expand_prefix mac prk info hl hpos hmac a (a + b) (Nat.le_add_right a b), List.take_append_drop]

/-- `hkdf` output has exactly the requested length -/
theorem hkdf_length (hpos : 0 < hl) (hmac : ∀ k x, (mac k x).length = hl)
    (ikm salt info : Bytes) (n : Nat) (out : Bytes) (h : hkdf mac hl ikm salt info n = some out) :
    out.length = n := by
  unfold hkdf at h
  split at h
  · cases h
  · cases h; exact expand_length mac _ info hl hpos hmac n

/-- `ComputeHKDF` prefix law: within the guards, the shorter output is a prefix of the longer -/
theorem computeHKDF_prefix (hpos : 0 < hl) (hmac : ∀ k x, (mac k x).length = hl)
    (key salt info : Bytes) (n m : Nat) (hn : 10 ≤ n) (h : n ≤ m) (hm : m ≤ 255 * hl) :
    computeHKDF mac hl key salt info n = (computeHKDF mac hl key salt info m).map (·.take n) := by
  unfold computeHKDF
  rw [if_neg (show ¬ n > 255 * hl by omega), if_neg (show ¬ n < 10 by omega),
    if_neg (show ¬ m > 255 * hl by omega), if_neg (show ¬ m < 10 by omega)]
  simp only [Option.map_some]
  rw [expand_prefix mac _ info hl hpos hmac n m h]

/-- both outputs exist and agree on the common prefix, whichever is longer -/
theorem hkdf_common_prefix (hpos : 0 < hl) (hmac : ∀ k x, (mac k x).length = hl)
    (ikm salt info : Bytes) (n m : Nat) (hn : n ≤ 255 * hl) (hm : m ≤ 255 * hl) :
    ∃ a b, hkdf mac hl ikm salt info n = some a ∧ hkdf mac hl ikm salt info m = some b ∧
      a.take (min n m) = b.take (min n m) := by
  unfold hkdf
  rw [if_neg (by omega), if_neg (by omega)]
  exact ⟨_, _, rfl, rfl, expand_common_prefix mac hl hpos hmac _ info n m⟩

end Hmac

namespace Derive
open Hmac

variable (mac : Bytes → Bytes → Bytes) (hl : Nat)

/-- the derived key material is the leading `need` octets of the RFC 5869 stream
    `T(1) ‖ T(2) ‖ …` for PRK = MAC(prfSalt, prfKey), info = the derivation salt -/
theorem material_eq_rfc (hpos : 0 < hl) (hmac : ∀ k x, (mac k x).length = hl)
    (prfKey prfSalt salt : Bytes) (need : Nat) :
    material mac hl prfKey prfSalt salt need =
      (Rfc5869.Tconcat mac (mac prfSalt prfKey) salt (Rfc5869.N hl need)).take need :=
  expand_eq_Tconcat mac _ salt hl hpos hmac need

/-- within the RFC limit the material is exactly the HKDF-PRF output / RFC 5869 HKDF -/
theorem material_eq_hkdf (hpos : 0 < hl) (hmac : ∀ k x, (mac k x).length = hl)
    (prfKey prfSalt salt : Bytes) (need : Nat) (h : need ≤ 255 * hl) :
    some (material mac hl prfKey prfSalt salt need) = hkdf mac hl prfKey prfSalt salt need ∧
    some (material mac hl prfKey prfSalt salt need) = Rfc5869.hkdf mac hl (some prfSalt) prfKey salt need := by
  have h1 : some (material mac hl prfKey prfSalt salt need) = hkdf mac hl prfKey prfSalt salt need := by
    unfold hkdf material; rw [if_neg (by omega)]
  exact ⟨h1, by rw [h1, hkdf_eq_rfc mac hl hpos hmac]⟩

theorem material_length (hpos : 0 < hl) (hmac : ∀ k x, (mac k x).length = hl)
    (prfKey prfSalt salt : Bytes) (need : Nat) :
    (material mac hl prfKey prfSalt salt need).length = need :=
  expand_length mac _ salt hl hpos hmac need

/-- the material for a shorter key is a prefix of the material for a longer key (same deriver key,
    same salt) — restated from `expand_prefix` -/
theorem material_prefix' (hpos : 0 < hl) (hmac : ∀ k x, (mac k x).length = hl)
    (prfKey prfSalt salt : Bytes) (n m : Nat) (h : n ≤ m) :
    material mac hl prfKey prfSalt salt n = (material mac hl prfKey prfSalt salt m).take n :=
  expand_prefix mac _ salt hl hpos hmac n m h

/-- materials for two requested lengths agree on the common prefix -/
theorem material_common_prefix (hpos : 0 < hl) (hmac : ∀ k x, (mac k x).length = hl)
    (prfKey prfSalt salt : Bytes) (n m : Nat) :
    (material mac hl prfKey prfSalt salt n).take (min n m) =
      (material mac hl prfKey prfSalt salt m).take (min n m) :=
  expand_common_prefix mac hl hpos hmac _ salt n m

/-- … extensionally: every octet position below both lengths carries the same octet -/
theorem material_agree (hpos : 0 < hl) (hmac : ∀ k x, (mac k x).length = hl)
    (prfKey prfSalt salt : Bytes) (n m i : Nat) (hi : i < min n m) :
    (material mac hl prfKey prfSalt salt n)[i]? = (material mac hl prfKey prfSalt salt m)[i]? := by
  have h := congrArg (·[i]?) (material_common_prefix mac hl hpos hmac prfKey prfSalt salt n m)
  simp only [List.getElem?_take, hi, ↓reduceIte] at h
  exact h

end Derive

/-! ## 5. PRF truncation -/
namespace Prf

theorem hmacPrf_eq_truncPrf (H : Bytes → Bytes) (B d : Nat) (key inp : Bytes) (n : Nat) :
    hmacPrf H B d key inp n = truncPrf d (Hmac.hmac H B key inp) n := rfl

theorem cmacPrf_eq_truncPrf (E : Bytes → Bytes) (inp : Bytes) (n : Nat) :
    cmacPrf E inp n = truncPrf 16 (Cmac.compute E inp) n := rfl

/-- a truncating PRF answers exactly the requests up to its limit, with the `n`-octet prefix of the tag -/
theorem truncPrf_spec (limit : Nat) (tag : Bytes) (n : Nat) :
    (n ≤ limit → truncPrf limit tag n = some (tag.take n)) ∧ (limit < n → truncPrf limit tag n = none) := by
  unfold truncPrf
  constructor
  · intro h; rw [if_neg (by omega)]
  · intro h; rw [if_pos h]

theorem truncPrf_isSome (limit : Nat) (tag : Bytes) (n : Nat) :
    (truncPrf limit tag n).isSome = decide (n ≤ limit) := by
  unfold truncPrf; split <;> simp <;> omega

/-- when the tag has (at least) `limit` octets, a successful output has exactly the requested length,
    and the maximal request returns the whole tag -/
theorem truncPrf_length (limit : Nat) (tag : Bytes) (htag : tag.length = limit) (n : Nat) (out : Bytes)
    (h : truncPrf limit tag n = some out) : out.length = n := by
  unfold truncPrf at h
  split at h
  · cases h
  · cases h; rw [List.length_take]; omega

theorem truncPrf_full (limit : Nat) (tag : Bytes) (htag : tag.length = limit) :
    truncPrf limit tag limit = some tag := by
  unfold truncPrf
  rw [if_neg (by omega), List.take_of_length_le (by omega)]

/-- prefix law (API level, both requests within the limit) -/
theorem truncPrf_prefix (limit : Nat) (tag : Bytes) (n m : Nat) (h : n ≤ m) (hm : m ≤ limit) :
    truncPrf limit tag n = (truncPrf limit tag m).map (·.take n) := by
  unfold truncPrf
  rw [if_neg (by omega), if_neg (by omega)]
  simp only [Option.map_some]
  rw [← truncating_prf_prefix tag n m h]

/-- **HMAC-PRF**: output of length `n ≤ digestLen` is the `n`-octet prefix of the full RFC 2104 tag;
    larger requests fail; the maximal request is the full tag; outputs have the requested length -/
theorem hmacPrf_spec (H : Bytes → Bytes) (B d : Nat) (hHL : ∀ x, (H x).length = d) (hdB : d ≤ B)
    (key inp : Bytes) (n : Nat) :
    (n ≤ d → hmacPrf H B d key inp n = some ((Rfc2104.hmac H B key inp).take n)) ∧
    (d < n → hmacPrf H B d key inp n = none) ∧
    hmacPrf H B d key inp d = some (Rfc2104.hmac H B key inp) ∧
    (∀ out, hmacPrf H B d key inp n = some out → out.length = n) := by
  rw [hmacPrf_eq_truncPrf, hmacPrf_eq_truncPrf, Hmac.hmac_eq_rfc2104' H B d hHL hdB]
  have hlen : (Rfc2104.hmac H B key inp).length = d := by
    rw [← Hmac.hmac_eq_rfc2104' H B d hHL hdB]; exact Hmac.hmac_length H B d hHL key inp
  exact ⟨(truncPrf_spec d _ n).1, (truncPrf_spec d _ n).2, truncPrf_full d _ hlen,
    fun out h => truncPrf_length d _ hlen n out h⟩

theorem hmacPrf_prefix (H : Bytes → Bytes) (B d : Nat) (key inp : Bytes) (n m : Nat) (h : n ≤ m) (hm : m ≤ d) :
    hmacPrf H B d key inp n = (hmacPrf H B d key inp m).map (·.take n) :=
  truncPrf_prefix d _ n m h hm

theorem Cmac_compute_length (E : Bytes → Bytes) (hE : ∀ b, (E b).length = 16) (inp : Bytes) :
    (Cmac.compute E inp).length = 16 := by
  unfold Cmac.compute; exact hE _

/-- **AES-CMAC-PRF**: output of length `n ≤ 16` is the `n`-octet prefix of the full RFC 4493 tag
    (`Cmac.spec`, by C04's `compute_eq_spec`); larger requests fail -/
theorem cmacPrf_spec (E : Bytes → Bytes) (hE : ∀ b, (E b).length = 16) (inp : Bytes) (n : Nat) :
    (n ≤ 16 → cmacPrf E inp n = some ((Cmac.compute E inp).take n)) ∧
    (16 < n → cmacPrf E inp n = none) ∧
    cmacPrf E inp 16 = some (Cmac.compute E inp) ∧
    (∀ out, cmacPrf E inp n = some out → out.length = n) := by
  rw [cmacPrf_eq_truncPrf, cmacPrf_eq_truncPrf]
  have hlen := Cmac_compute_length E hE inp
  exact ⟨(truncPrf_spec 16 _ n).1, (truncPrf_spec 16 _ n).2, truncPrf_full 16 _ hlen,
    fun out h => truncPrf_length 16 _ hlen n out h⟩

theorem cmacPrf_prefix (E : Bytes → Bytes) (inp : Bytes) (n m : Nat) (h : n ≤ m) (hm : m ≤ 16) :
    cmacPrf E inp n = (cmacPrf E inp m).map (·.take n) :=
  truncPrf_prefix 16 _ n m h hm

/-- **HKDF-PRF**: is RFC 5869 HKDF with the PRF input as `info`; answers exactly the requests up to
    `255·hashLen`; outputs have the requested length; prefix law -/
theorem hkdfPrf_spec (mac : Bytes → Bytes → Bytes) (hl : Nat) (hpos : 0 < hl)
    (hmac : ∀ k x, (mac k x).length = hl) (key salt inp : Bytes) (n : Nat) :
    hkdfPrf mac hl key salt inp n = Rfc5869.hkdf mac hl (some salt) key inp n ∧
    (hkdfPrf mac hl key salt inp n = none ↔ 255 * hl < n) ∧
    (∀ out, hkdfPrf mac hl key salt inp n = some out → out.length = n) ∧
    (∀ m, n ≤ m → m ≤ 255 * hl →
      hkdfPrf mac hl key salt inp n = (hkdfPrf mac hl key salt inp m).map (·.take n)) :=
  ⟨Hmac.hkdf_eq_rfc mac hl hpos hmac key salt inp n, Hmac.hkdf_none_iff mac hl key salt inp n,
    fun out h => Hmac.hkdf_length mac hl hpos hmac key salt inp n out h,
    fun m h hm => Hmac.hkdf_prefix mac hl hpos hmac key salt inp n m h hm⟩

end Prf

/-! ## non-vacuity and counterexamples -/
namespace C15Deep
open Hmac

/-- toy MAC of fixed output length 4 -/
def toyMac : Bytes → Bytes → Bytes := fun k x => (k ++ x ++ [0, 0, 0, 0]).take 4
/-- toy hash of fixed output length 2 (block size 4 below) -/
def toyH : Bytes → Bytes := fun b => ([b.foldl (· + ·) 7, b.foldl (fun a x => a * 3 + x) 1])
/-- toy 16-byte block function -/
def toyE : Bytes → Bytes := fun b => (b.map (· + 1) ++ Bytes.zeros 16).take 16

theorem toyMac_length (k x : Bytes) : (toyMac k x).length = 4 := by
  simp [toyMac, List.length_take]; omega
theorem toyH_length (x : Bytes) : (toyH x).length = 2 := rfl
theorem toyE_length (b : Bytes) : (toyE b).length = 16 := by
  simp [toyE, List.length_take]

-- the hypotheses of the HKDF theorems are satisfiable, and the RFC definition computes
example : Rfc5869.okm toyMac 4 [1] [2] 9 = some (expand toyMac 4 [1] [2] 9) :=
  expand_eq_rfc toyMac [1] [2] 4 (by decide) toyMac_length 9 (by decide)
example : Rfc5869.okm toyMac 4 [1] [2] 9 = some [1, 2, 1, 0, 1, 1, 2, 1, 1] := by decide
example : hkdf toyMac 4 [5] [6] [7] 1021 = none ∧ Rfc5869.hkdf toyMac 4 (some [6]) [5] [7] 1021 = none := by
  constructor
  · exact (hkdf_none_iff toyMac 4 [5] [6] [7] 1021).mpr (by decide)
  · rw [← hkdf_eq_rfc toyMac 4 (by decide) toyMac_length]
    exact (hkdf_none_iff toyMac 4 [5] [6] [7] 1021).mpr (by decide)
example : Rfc5869.N 4 9 = 3 ∧ Rfc5869.N 4 8 = 2 ∧ Rfc5869.N 4 0 = 0 ∧ Rfc5869.N 4 1020 = 255 := by decide

-- HMAC: hypotheses satisfiable (digest 2 ≤ block 4), long key, padded key
example : hmac toyH 4 [1, 2, 3, 4, 5] [9] = Rfc2104.hmac toyH 4 [1, 2, 3, 4, 5] [9] :=
  hmac_eq_rfc2104' toyH 4 2 toyH_length (by decide) _ _
example : hmac toyH 4 [1, 2, 3, 4, 5] [9] = hmac toyH 4 (toyH [1, 2, 3, 4, 5]) [9] :=
  hmac_long_key toyH 4 _ _ (by decide) (by decide)
example : hmac toyH 4 ([1, 2] ++ Bytes.zeros 2) [9] = hmac toyH 4 [1, 2] [9] :=
  hmac_pad_zeros toyH 4 [1, 2] 2 (by decide) [9]
example : hkdf (hmac toyH 4) 2 [5] [] [7] 5 = Rfc5869.hkdf (hmac toyH 4) 2 none [5] [7] 5 :=
  hkdf_empty_salt_eq_rfc toyH 4 2 (by decide) toyH_length (by decide) [5] [7] 5

/-- **the hypothesis of `hmac_eq_rfc2104` is necessary.** For a "hash" whose output is longer than its
    block, the model xors *all* octets of the hashed long key with 0x36/0x5c, whereas RFC 2104's
    B-octet XOR (and Go's `copy(ipad, key)`) keep only `B` octets. Unreachable for SHA-1/SHA-2. -/
theorem hmac_ne_rfc2104_wide_hash :
    hmac (fun b => b ++ [1]) 1 [0, 0] [] ≠ Rfc2104.hmac (fun b => b ++ [1]) 1 [0, 0] [] := by decide

/-- … likewise for idempotence of key preparation and for "long key ≡ its hash" -/
theorem prepKey_not_idem_wide_hash :
    prepKey (fun b => b ++ [1]) 1 (prepKey (fun b => b ++ [1]) 1 [0, 0]) ≠ prepKey (fun b => b ++ [1]) 1 [0, 0] := by
  decide

/-- **`hashLen ≤ B` is necessary for the empty-salt law**: with a block shorter than the digest the
    zero string is hashed first and is a different key than the empty string -/
theorem empty_salt_law_needs_hashLen_le_block :
    hmac toyH 1 (Bytes.zeros 2) [] ≠ hmac toyH 1 [] [] := by decide

-- PRFs
example : Prf.hmacPrf toyH 4 2 [1] [2] 3 = none := ((Prf.hmacPrf_spec toyH 4 2 toyH_length (by decide) [1] [2] 3).2.1) (by decide)
example : Prf.hmacPrf toyH 4 2 [1] [2] 1 = some ((Rfc2104.hmac toyH 4 [1] [2]).take 1) :=
  ((Prf.hmacPrf_spec toyH 4 2 toyH_length (by decide) [1] [2] 1).1) (by decide)
example : Prf.cmacPrf toyE [1, 2, 3] 17 = none := ((Prf.cmacPrf_spec toyE toyE_length [1, 2, 3] 17).2.1) (by decide)
example : ∃ t, Prf.cmacPrf toyE [1, 2, 3] 16 = some t ∧ t.length = 16 :=
  ⟨_, (Prf.cmacPrf_spec toyE toyE_length [1, 2, 3] 16).2.2.1, Prf.Cmac_compute_length toyE toyE_length _⟩

-- derivation material
example : (Derive.material toyMac 4 [1] [2] [3] 5) = (Derive.material toyMac 4 [1] [2] [3] 11).take 5 :=
  Derive.material_prefix' toyMac 4 (by decide) toyMac_length [1] [2] [3] 5 11 (by decide)

end C15Deep

end TinkVerif

section AxiomAudit
open TinkVerif
#print axioms Hmac.ceil_le_div_succ
#print axioms Hmac.le_ceil_mul
#print axioms Hmac.ceil_pred_mul_lt
#print axioms Hmac.N_le_255
#print axioms Hmac.counter_octet_exact
#print axioms Hmac.okm_counters_exact
#print axioms Hmac.blocksFrom_eq_T
#print axioms Hmac.stream_eq_Tconcat
#print axioms Hmac.Tconcat_length
#print axioms Hmac.expand_eq_Tconcat
#print axioms Hmac.expand_eq_rfc
#print axioms Hmac.okm_undefined
#print axioms Hmac.hkdf_eq_rfc
#print axioms Hmac.hkdf_none_iff
#print axioms Hmac.computeHKDF_eq_rfc
#print axioms Hmac.computeHKDF_none_iff
#print axioms Hmac.T_counter_wraps
#print axioms Hmac.prepKey_eq_keyBlock
#print axioms Hmac.prepKey_length
#print axioms Hmac.hmac_eq_rfc2104
#print axioms Hmac.hmac_eq_rfc2104'
#print axioms Hmac.hmac_length
#print axioms Hmac.hmac_congr_prepKey
#print axioms Hmac.prepKey_idem
#print axioms Hmac.hmac_prepKey
#print axioms Hmac.prepKey_long_key
#print axioms Hmac.hmac_long_key
#print axioms Hmac.prepKey_pad_zeros
#print axioms Hmac.hmac_pad_zeros
#print axioms Hmac.hkdf_salt_pad_zeros
#print axioms Hmac.hkdf_empty_salt_eq_zeros
#print axioms Hmac.hkdf_empty_salt_eq_rfc
#print axioms Hmac.rfc_hkdf_salt_default
#print axioms Hmac.computeHKDF_eq_hkdf
#print axioms Hmac.expand_common_prefix
#print axioms Hmac.expand_read_split
#print axioms Hmac.hkdf_length
#print axioms Hmac.computeHKDF_prefix
#print axioms Hmac.hkdf_common_prefix
#print axioms Derive.material_eq_rfc
#print axioms Derive.material_eq_hkdf
#print axioms Derive.material_length
#print axioms Derive.material_prefix'
#print axioms Derive.material_common_prefix
#print axioms Derive.material_agree
#print axioms Prf.truncPrf_spec
#print axioms Prf.truncPrf_isSome
#print axioms Prf.truncPrf_length
#print axioms Prf.truncPrf_full
#print axioms Prf.truncPrf_prefix
#print axioms Prf.hmacPrf_spec
#print axioms Prf.hmacPrf_prefix
#print axioms Prf.cmacPrf_spec
#print axioms Prf.cmacPrf_prefix
#print axioms Prf.hkdfPrf_spec
#print axioms C15Deep.hmac_ne_rfc2104_wide_hash
#print axioms C15Deep.prepKey_not_idem_wide_hash
#print axioms C15Deep.empty_salt_law_needs_hashLen_le_block
end AxiomAudit
