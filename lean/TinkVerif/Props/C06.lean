import TinkVerif.Model.Hpke
import TinkVerif.Props.C01

/-!
# C06 — hybrid encryption: round trip, framing, context binding (HPKE base mode, ECIES)

Generic over the KEM, the KDF's MAC and the raw AEAD. The one cryptographic-algebraic fact assumed
is `KemLaw` (decapsulating an honest encapsulation returns the encapsulated secret — for DHKEM this
is commutativity of Diffie-Hellman), stated as a hypothesis.
-/
namespace TinkVerif.Hpke
open TinkVerif TinkVerif.Aead

/-- `H_kem` -/
structure KemLaw (k : Kem) (skR pkR : Bytes) : Prop where
  agree : ∀ eph ss enc, k.encapWith eph pkR = some (ss, enc) → enc.length = k.nEnc ∧ k.decap enc skR = some ss

theorem xor_zeros_left (b : Bytes) : Bytes.xor (Bytes.zeros b.length) b = b := by
  induction b with
  | nil => rfl
  | cons x xs ih =>
    simp only [Bytes.zeros, Bytes.xor, List.length_cons, List.replicate_succ, List.zipWith_cons_cons] at ih ⊢
    rw [ih]; simp

theorem ofNatBE_zero (k : Nat) : Bytes.ofNatBE k 0 = Bytes.zeros k := by
  induction k with
  | zero => rfl
  | succ k ih =>
    simp only [Bytes.ofNatBE, Nat.zero_div, ih, Nat.zero_mod, Bytes.zeros]
    rw [show (UInt8.ofNat 0) = (0 : UInt8) from rfl, ← List.replicate_succ']

/-- the first message uses the base nonce itself -/
theorem computeNonce_zero (baseNonce : Bytes) : computeNonce baseNonce 0 = baseNonce := by
  unfold computeNonce; rw [ofNatBE_zero, xor_zeros_left]

theorem labeledExpand_len (k : Kdf) (prk info : Bytes) (label : String) (suite : Bytes) (len : Nat) (x : Bytes)
    (hexp : ∀ prk li, (Hmac.expand k.mac k.hashLen prk li len).length = len)
    (h : labeledExpand k prk info label suite len = some x) : x.length = len := by
  unfold labeledExpand at h
  cases hli : labelInfo label info suite len with
  | none => rw [hli] at h; cases h
  | some li =>
    rw [hli] at h
    simp only [Option.map_some, Option.some.injEq] at h
    rw [← h]; exact hexp _ _

theorem keySchedule_nonce_len (k : Kdf) (suite ss info key bn : Bytes) (keyLen nonceLen : Nat)
    (hexp : ∀ prk li, (Hmac.expand k.mac k.hashLen prk li nonceLen).length = nonceLen)
    (h : keySchedule k suite ss info keyLen nonceLen = some (key, bn)) : bn.length = nonceLen := by
  unfold keySchedule at h
  simp only at h
  split at h
  · rename_i kk nn h1 h2
    simp only [Option.some.injEq, Prod.mk.injEq] at h
    obtain ⟨_, rfl⟩ := h
    exact labeledExpand_len k _ _ _ _ _ _ hexp h2
  · cases h

/-- **Round trip**: decrypting with the private key what was encrypted to the matching public key
    under the same context info returns the plaintext. -/
theorem open_sealWith (s : Suite) (skR pkR eph pt info ct : Bytes) (hk : KemLaw s.kem skR pkR)
    (ha : ∀ key, RawLaw (s.aead key)) (hn : ∀ key, (s.aead key).nonceLen = s.nonceLen)
    (hexp : ∀ prk li, (Hmac.expand s.kdf.mac s.kdf.hashLen prk li s.nonceLen).length = s.nonceLen)
    (h : sealWith s eph pkR pt info = some ct) : open_ s skR ct info = some pt := by
  unfold sealWith at h
  cases he : s.kem.encapWith eph pkR with
  | none => simp [he] at h
  | some p =>
    obtain ⟨ss, enc⟩ := p
    simp only [he] at h
    obtain ⟨hlen, hdec⟩ := hk.agree eph ss enc he
    cases hks : keySchedule s.kdf s.id ss info s.keyLen s.nonceLen with
    | none => simp [hks] at h
    | some kn =>
      obtain ⟨key, baseNonce⟩ := kn
      simp only [hks, Option.some.injEq] at h
      subst h
      unfold open_
      rw [if_neg (by simp [hlen])]
      rw [← hlen, List.take_left, List.drop_left, hdec]
      simp only [hks]
      apply (ha key).rt
      rw [computeNonce_zero, hn]
      exact keySchedule_nonce_len s.kdf s.id ss info key baseNonce s.keyLen s.nonceLen hexp hks

/-- the wire format: encapsulated key (exactly `nEnc` bytes) followed by the AEAD ciphertext -/
theorem sealWith_layout (s : Suite) (skR pkR eph pt info ct : Bytes) (hk : KemLaw s.kem skR pkR)
    (h : sealWith s eph pkR pt info = some ct) :
    ∃ ss enc key baseNonce, s.kem.encapWith eph pkR = some (ss, enc) ∧ enc.length = s.kem.nEnc ∧
      keySchedule s.kdf s.id ss info s.keyLen s.nonceLen = some (key, baseNonce) ∧
      ct = enc ++ (s.aead key).sealF baseNonce pt [] := by
  unfold sealWith at h
  cases he : s.kem.encapWith eph pkR with
  | none => simp [he] at h
  | some p =>
    obtain ⟨ss, enc⟩ := p
    simp only [he] at h
    cases hks : keySchedule s.kdf s.id ss info s.keyLen s.nonceLen with
    | none => simp [hks] at h
    | some kn =>
      obtain ⟨key, baseNonce⟩ := kn
      simp only [hks, Option.some.injEq] at h
      exact ⟨ss, enc, key, baseNonce, rfl, (hk.agree eph ss enc he).1, hks, by rw [← h, computeNonce_zero]⟩

/-- a ciphertext shorter than the encapsulated key is rejected -/
theorem open_short (s : Suite) (skR ct info : Bytes) (h : ct.length < s.kem.nEnc) : open_ s skR ct info = none := by
  simp [open_, h]

/-- **Characterisation**: the plaintext is released iff decapsulation succeeds and the AEAD tag
    verifies under the key scheduled from (decapsulated secret, context info). -/
theorem open_iff (s : Suite) (skR ct info p : Bytes) :
    open_ s skR ct info = some p ↔
      s.kem.nEnc ≤ ct.length ∧ ∃ ss key baseNonce, s.kem.decap (ct.take s.kem.nEnc) skR = some ss ∧
        keySchedule s.kdf s.id ss info s.keyLen s.nonceLen = some (key, baseNonce) ∧
        (s.aead key).openF (computeNonce baseNonce 0) (ct.drop s.kem.nEnc) [] = some p := by
  unfold open_
  constructor
  · intro h
    split at h
    · cases h
    · rename_i hl
      split at h
      · cases h
      · rename_i ss hd
        split at h
        · cases h
        · rename_i key bn hks
          exact ⟨by omega, ss, key, bn, hd, hks, h⟩
  · rintro ⟨hl, ss, key, bn, hd, hks, ho⟩
    rw [if_neg (by omega)]
    simp only [hd, hks]
    exact ho

/-- prefix framing of hybrid/hpke and hybrid/ecies -/
theorem fullOpen_fullSeal (pre : Bytes) (rawOpen : Bytes → Option Bytes) (raw : Bytes) :
    fullOpen pre rawOpen (pre ++ raw) = rawOpen raw := by
  unfold fullOpen
  rw [if_neg (by simp), if_neg (by simp)]
  simp

theorem fullOpen_wrong_prefix (pre : Bytes) (rawOpen : Bytes → Option Bytes) (ct : Bytes)
    (h : ct.take pre.length ≠ pre) : fullOpen pre rawOpen ct = none := by
  unfold fullOpen; split <;> simp [h]

/-- context binding at the encoding level: for a fixed label, suite and length, `labelInfo` is
    injective in `info`, and it starts with the two-byte big-endian length -/
theorem labelInfo_injective (label : String) (suite info info' : Bytes) (len : Nat) (li : Bytes)
    (h1 : labelInfo label info suite len = some li) (h2 : labelInfo label info' suite len = some li) : info = info' := by
  unfold labelInfo at h1 h2
  split at h1
  · cases h1
  · rename_i hl
    rw [if_neg hl] at h2
    simp only [Option.some.injEq] at h1 h2
    exact List.append_cancel_left (h1.trans h2.symm)

theorem labelInfo_length_prefix (label : String) (suite info : Bytes) (len : Nat) (li : Bytes)
    (h : labelInfo label info suite len = some li) : li.take 2 = be16 len ∧ len < 65536 := by
  unfold labelInfo at h
  split at h
  · cases h
  · rename_i hl
    simp only [Option.some.injEq] at h
    subst h
    refine ⟨?_, by omega⟩
    simp only [List.append_assoc]
    rw [List.take_left' (by simp [be16])]

/-- ECIES framing round trip, given that both sides derive the same symmetric key and the DEM
    round-trips -/
theorem eciesOpen_eciesSeal (kemBytes key pt : Bytes) (demEnc : Bytes → Bytes) (keyOf : Bytes → Option Bytes)
    (demDec : Bytes → Bytes → Option Bytes) (hkey : keyOf kemBytes = some key) (hdem : demDec key (demEnc pt) = some pt) :
    eciesOpen kemBytes.length keyOf demDec (eciesSeal kemBytes demEnc pt) = some pt := by
  unfold eciesOpen eciesSeal
  rw [if_neg (by simp)]
  rw [List.take_left, List.drop_left, hkey]
  exact hdem

theorem eciesOpen_short (n : Nat) (keyOf : Bytes → Option Bytes) (demDec : Bytes → Bytes → Option Bytes) (ct : Bytes)
    (h : ct.length < n) : eciesOpen n keyOf demDec ct = none := by
  simp [eciesOpen, h]

/-- the suite identifiers and the KEM length table match RFC 9180 §7.1 (as used by tink-go) -/
theorem suite_id_layout (kem kdf aead : Nat) :
    hpkeSuiteID kem kdf aead = [0x48, 0x50, 0x4b, 0x45] ++ be16 kem ++ be16 kdf ++ be16 aead ∧
    kemSuiteID kem = [0x4b, 0x45, 0x4d] ++ be16 kem := by
  constructor
  · unfold hpkeSuiteID; rw [show Bytes.ofString "HPKE" = [0x48, 0x50, 0x4b, 0x45] by decide +kernel]
  · unfold kemSuiteID; rw [show Bytes.ofString "KEM" = [0x4b, 0x45, 0x4d] by decide +kernel]

end TinkVerif.Hpke

section AxiomAudit
open TinkVerif.Hpke
#print axioms computeNonce_zero
#print axioms open_sealWith
#print axioms sealWith_layout
#print axioms open_short
#print axioms open_iff
#print axioms fullOpen_fullSeal
#print axioms fullOpen_wrong_prefix
#print axioms labelInfo_injective
#print axioms labelInfo_length_prefix
#print axioms eciesOpen_eciesSeal
#print axioms eciesOpen_short
#print axioms suite_id_layout
end AxiomAudit
