import TinkVerif.Props.C19Class
/-! C19 — the regenerated slice facts are all classified (see `C19Class.lean` for the classification). -/
namespace TinkVerif.Gen.SliceFacts

/-- **every regenerated fact is classified** -/
theorem facts_classified : unexpected = [] := by decide +kernel

/-- the scan covered the code base (a drop means the extractor lost packages; it refuses on its own when a package does
    not type-check or when no call site resolves) -/
theorem scan_coverage : 100 ≤ packagesScanned ∧ 1000 ≤ functionsScanned ∧ 1000 ≤ resolvedCallSites := by decide

end TinkVerif.Gen.SliceFacts

section AxiomAudit
open TinkVerif.Gen.SliceFacts
#print axioms facts_classified
#print axioms scan_coverage
end AxiomAudit
