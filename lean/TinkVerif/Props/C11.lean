import TinkVerif.Lemmas.Manager

/-!
# C11 — the keyset manager keeps keysets well-formed under any operation history

Model: `TinkVerif/Model/Manager.lean` (mirrors keyset/manager.go and `newFromEntries`).
All theorems quantify over every state, every operation argument and every (unbounded)
operation history. Tie to the code: correspondence harness `c11` (op-history differential).
-/
namespace TinkVerif.Manager

/-- The manager invariant. -/
structure Inv (s : MState) : Prop where
  nodup : (s.entries.map (·.id)).Nodup
  unavail : ∀ e ∈ s.entries, e.id ∈ s.unavail
  onePrimary : numPrimary s.entries ≤ 1
  primEnabled : ∀ e ∈ s.entries, e.isPrimary = true → e.status = .enabled
  noUnknown : ∀ e ∈ s.entries, e.status ≠ .unknown

/-- What `Handle()` promises about the keyset it returns. -/
structure WFHandle (h : Handle) : Prop where
  nonempty : h ≠ []
  nodup : (h.map (·.id)).Nodup
  onePrimary : numPrimary h = 1
  primEnabled : ∀ e ∈ h, e.isPrimary = true → e.status = .enabled
  noUnknown : ∀ e ∈ h, e.status ≠ .unknown

theorem inv_init : Inv init :=
  ⟨by simp [init], by simp [init], by simp [init, numPrimary], by simp [init], by simp [init]⟩

/-! ## One step preserves the invariant (every op, every argument) -/

private theorem inv_append_new {s : MState} (hs : Inv s) (es : List MEntry) (e : MEntry)
    (hes_id : es.map (·.id) = s.entries.map (·.id))
    (hes_np : numPrimary es + (if e.isPrimary then 1 else 0) ≤ 1)
    (hes_pe : ∀ x ∈ es, x.isPrimary = true → x.status = .enabled)
    (hes_nu : ∀ x ∈ es, x.status ≠ .unknown)
    (hid : e.id ∉ s.unavail) (hpe : e.isPrimary = true → e.status = .enabled)
    (hnu : e.status ≠ .unknown) :
    Inv { entries := es ++ [e], unavail := e.id :: s.unavail } := by
  have hmem : ∀ x ∈ es, x.id ∈ s.unavail := by
    intro x hx
    have : x.id ∈ es.map (·.id) := List.mem_map_of_mem hx
    rw [hes_id] at this
    obtain ⟨y, hy, hyx⟩ := List.mem_map.mp this
    simpa [← hyx] using hs.unavail y hy
  refine ⟨?_, ?_, ?_, ?_, ?_⟩
  · simp only [List.map_append, List.map_cons, List.map_nil]
    rw [List.nodup_append]
    refine ⟨by rw [hes_id]; exact hs.nodup, by simp, ?_⟩
    intro a ha b hb
    simp only [List.mem_cons, List.not_mem_nil, or_false] at hb
    subst hb
    obtain ⟨x, hx, rfl⟩ := List.mem_map.mp ha
    intro h; exact hid (h ▸ hmem x hx)
  · intro x hx
    simp only [List.mem_append, List.mem_cons, List.not_mem_nil, or_false] at hx
    rcases hx with hx | rfl
    · exact List.mem_cons_of_mem _ (hmem x hx)
    · simp
  · show numPrimary (es ++ [e]) ≤ 1
    rw [numPrimary_append]
    have : numPrimary [e] = if e.isPrimary then 1 else 0 := by
      simp only [numPrimary, List.filter_cons, List.filter_nil]; split <;> rfl
    omega
  · intro x hx
    simp only [List.mem_append, List.mem_cons, List.not_mem_nil, or_false] at hx
    rcases hx with hx | rfl
    · exact hes_pe x hx
    · exact hpe
  · intro x hx
    simp only [List.mem_append, List.mem_cons, List.not_mem_nil, or_false] at hx
    rcases hx with hx | rfl
    · exact hes_nu x hx
    · exact hnu

private theorem inv_clear {s : MState} (hs : Inv s) : Inv { s with entries := clearPrimary s.entries } := by
  refine ⟨by simpa using hs.nodup, ?_, by simp, ?_, ?_⟩
  · intro e he; obtain ⟨e0, h0, rfl⟩ := mem_clear he; exact hs.unavail e0 h0
  · intro e he hp; obtain ⟨e0, _, rfl⟩ := mem_clear he; simp at hp
  · intro e he; obtain ⟨e0, h0, rfl⟩ := mem_clear he; exact hs.noUnknown e0 h0

private theorem inv_unavail_cons {s : MState} (hs : Inv s) (d : Nat) :
    Inv { s with unavail := d :: s.unavail } :=
  ⟨hs.nodup, fun e he => List.mem_cons_of_mem _ (hs.unavail e he), hs.onePrimary,
   hs.primEnabled, hs.noUnknown⟩

theorem inv_addKeyWithOpts (s : MState) (hs : Inv s) (keyNil : Bool) (key : Nat)
    (idReq : Option Nat) (opts : List KOpt) (draws : List Nat) :
    Inv (addKeyWithOpts s keyNil key idReq opts draws).1 := by
  unfold addKeyWithOpts
  split
  · exact hs
  · dsimp only
    split
    · exact hs
    · rename_i p _
      split
      · exact hs
      · rename_i hunk
        split
        · exact hs
        · rename_i hprim
          -- `es` is either the cleared or the untouched entry list; either way the invariant holds
          have hEs : Inv { s with entries := if p.isPrimary then clearPrimary s.entries else s.entries } := by
            split
            · exact inv_clear hs
            · exact hs
          have hnp : numPrimary (if p.isPrimary then clearPrimary s.entries else s.entries)
                      + (if p.isPrimary then 1 else 0) ≤ 1 := by
            split
            · simp
            · have := hs.onePrimary; omega
          have hids : (if p.isPrimary then clearPrimary s.entries else s.entries).map (·.id)
                      = s.entries.map (·.id) := by
            split <;> simp
          have hpe : p.isPrimary = true → p.status = .enabled := by
            intro hp
            simp only [hp, Bool.true_and, ne_eq, decide_not, Bool.not_eq_eq_eq_not, Bool.not_true,
              decide_eq_false_iff_not, Decidable.not_not] at hprim
            exact hprim
          split
          · split
            · exact hEs
            · rename_i hfree
              exact inv_append_new hs _ _ hids hnp hEs.primEnabled hEs.noUnknown hfree hpe hunk
          · split
            · exact hEs
            · rename_i id hd
              exact inv_append_new hs _ _ hids hnp hEs.primEnabled hEs.noUnknown
                (drawId_not_mem hd) hpe hunk

theorem inv_step (s : MState) (hs : Inv s) (op : Op) : Inv (step s op).1 := by
  cases op with
  | add tmplOk genOk key draws =>
    simp only [step]
    split
    · exact hs
    · split
      · exact hs
      · rename_i id hd
        split
        · exact inv_unavail_cons hs id
        · exact inv_append_new hs s.entries _ rfl (by have := hs.onePrimary; simp; omega)
            hs.primEnabled hs.noUnknown (drawId_not_mem hd) (by simp) (by simp)
  | addKey keyNil key idReq draws => exact inv_addKeyWithOpts s hs ..
  | addKeyOpts keyNil key idReq opts draws => exact inv_addKeyWithOpts s hs ..
  | setPrimary id =>
    simp only [step]
    split
    · exact hs
    · rename_i e he
      obtain ⟨hmem, hid⟩ := findEntry_some he
      split
      · exact hs
      · rename_i hen
        simp only [ne_eq, Decidable.not_not] at hen
        refine ⟨?_, ?_, numPrimary_setPrimary_le _ _ hs.nodup, ?_, ?_⟩
        · simp only [List.map_map, Function.comp_def]; exact hs.nodup
        · intro x hx
          obtain ⟨y, hy, rfl⟩ := List.mem_map.mp hx
          exact hs.unavail y hy
        · intro x hx hp
          obtain ⟨y, hy, rfl⟩ := List.mem_map.mp hx
          simp only [beq_iff_eq] at hp
          have : y = e := eq_of_id_eq hs.nodup hy hmem (hp.trans hid.symm)
          subst this; exact hen
        · intro x hx
          obtain ⟨y, hy, rfl⟩ := List.mem_map.mp hx
          exact hs.noUnknown y hy
  | enable id =>
    simp only [step]
    split
    · exact hs
    · split
      · exact hs
      · refine ⟨by simpa using hs.nodup, ?_, by rw [numPrimary_setStatus]; exact hs.onePrimary, ?_, ?_⟩
        · intro x hx
          rcases mem_setStatus hx with ⟨h, _⟩ | ⟨e0, h0, _, rfl⟩
          · exact hs.unavail x h
          · exact hs.unavail e0 h0
        · intro x hx hp
          rcases mem_setStatus hx with ⟨h, _⟩ | ⟨e0, h0, _, rfl⟩
          · exact hs.primEnabled x h hp
          · rfl
        · intro x hx
          rcases mem_setStatus hx with ⟨h, _⟩ | ⟨e0, h0, _, rfl⟩
          · exact hs.noUnknown x h
          · simp
  | disable id =>
    simp only [step]
    split
    · exact hs
    · rename_i e he
      obtain ⟨hmem, hid⟩ := findEntry_some he
      split
      · exact hs
      · rename_i hnp
        split
        · exact hs
        · refine ⟨by simpa using hs.nodup, ?_, by rw [numPrimary_setStatus]; exact hs.onePrimary, ?_, ?_⟩
          · intro x hx
            rcases mem_setStatus hx with ⟨h, _⟩ | ⟨e0, h0, _, rfl⟩
            · exact hs.unavail x h
            · exact hs.unavail e0 h0
          · intro x hx hp
            rcases mem_setStatus hx with ⟨h, _⟩ | ⟨e0, h0, h0id, rfl⟩
            · exact hs.primEnabled x h hp
            · -- the disabled entry is `e`, which is not primary
              have : e0 = e := eq_of_id_eq hs.nodup h0 hmem (h0id.trans hid.symm)
              subst this
              exact absurd hp hnp
          · intro x hx
            rcases mem_setStatus hx with ⟨h, _⟩ | ⟨e0, h0, _, rfl⟩
            · exact hs.noUnknown x h
            · simp
  | delete id =>
    simp only [step]
    split
    · exact hs
    · split
      · exact hs
      · have hsub : (s.entries.eraseP (·.id == id)).Sublist s.entries := List.eraseP_sublist
        refine ⟨(hsub.map _).nodup hs.nodup, ?_, Nat.le_trans (numPrimary_sublist hsub) hs.onePrimary, ?_, ?_⟩
        · intro x hx; exact hs.unavail x (hsub.subset hx)
        · intro x hx; exact hs.primEnabled x (hsub.subset hx)
        · intro x hx; exact hs.noUnknown x (hsub.subset hx)

/-- **Every reachable state satisfies the invariant**, for operation histories of any length. -/
theorem inv_run (s : MState) (hs : Inv s) (ops : List Op) : Inv (run s ops) := by
  induction ops generalizing s with
  | nil => exact hs
  | cons op ops ih => exact ih _ (inv_step s hs op)

/-! ## `Handle()` -/

def hasPrimary (s : MState) : Bool := s.entries.any (·.isPrimary)

/-- Under the invariant, `Handle()` fails exactly when no key is primary … -/
theorem handle_isSome_iff (s : MState) (hs : Inv s) : (handle s).isSome = hasPrimary s := by
  unfold handle hasPrimary
  have : s.entries.any (·.status = .unknown) = false := by
    simp only [List.any_eq_false, decide_eq_true_eq]
    exact fun e he => hs.noUnknown e he
  rw [if_neg (by simp [this])]
  cases h : s.entries.any (·.isPrimary) <;> simp

/-- … and otherwise returns a well-formed keyset: non-empty, pairwise distinct ids, exactly one
    primary, the primary is ENABLED, no unknown status. -/
theorem handle_wf (s : MState) (hs : Inv s) (h : Handle) (hh : handle s = some h) : WFHandle h := by
  unfold handle at hh
  split at hh
  · cases hh
  · split at hh
    · rename_i hp
      cases hh
      obtain ⟨e, he, hep⟩ := List.any_eq_true.mp hp
      refine ⟨List.ne_nil_of_mem he, hs.nodup, ?_, hs.primEnabled, hs.noUnknown⟩
      have hge : 1 ≤ numPrimary s.entries := by
        have : e ∈ s.entries.filter (·.isPrimary) := List.mem_filter.mpr ⟨he, hep⟩
        exact List.length_pos_of_mem this
      have := hs.onePrimary
      omega
    · cases hh

/-- The handle is a snapshot of the entry list. -/
theorem handle_eq_entries (s : MState) (h : Handle) (hh : handle s = some h) : h = s.entries := by
  unfold handle at hh
  split at hh
  · cases hh
  · split at hh
    · cases hh; rfl
    · cases hh

/-- `Handle.primary` of a well-formed handle is its unique primary entry, and it is ENABLED. -/
theorem wf_primary (h : Handle) (wf : WFHandle h) :
    ∃ e, Handle.primary h = some e ∧ e ∈ h ∧ e.isPrimary = true ∧ e.status = .enabled := by
  unfold Handle.primary
  have hpos : 0 < numPrimary h := by have := wf.onePrimary; omega
  obtain ⟨e, he⟩ := List.exists_mem_of_length_pos hpos
  obtain ⟨hmem, hp⟩ := List.mem_filter.mp he
  cases hf : h.reverse.find? (·.isPrimary) with
  | none =>
    have := List.find?_eq_none.mp hf e (List.mem_reverse.mpr hmem)
    simp [hp] at this
  | some x =>
    have hx := List.mem_reverse.mp (List.mem_of_find?_eq_some hf)
    have hxp : x.isPrimary = true := by simpa using List.find?_some hf
    exact ⟨x, rfl, hx, hxp, wf.primEnabled x hx hxp⟩

/-- For every history from the empty manager: `Handle()` is an error or a well-formed keyset. -/
theorem handle_after_any_history (ops : List Op) :
    match handle (run init ops) with
    | none => hasPrimary (run init ops) = false
    | some h => WFHandle h := by
  have hs := inv_run init inv_init ops
  cases hh : handle (run init ops) with
  | none =>
    have := handle_isSome_iff _ hs
    simp only [hh, Option.isSome_none] at this
    exact this.symm
  | some h => exact handle_wf _ hs h hh

/-! ## `NewManagerFromHandle` -/

theorem inv_fromHandle (h : Handle) (wf : WFHandle h) : Inv (fromHandle h) :=
  ⟨wf.nodup, fun e he => List.mem_map_of_mem (f := (·.id)) he,
   by have := wf.onePrimary; simp only [fromHandle]; omega, wf.primEnabled, wf.noUnknown⟩

/-- Histories that start from any well-formed handle (e.g. one produced by a reader, C14). -/
theorem handle_after_any_history_from (h0 : Handle) (wf : WFHandle h0) (ops : List Op)
    (h : Handle) (hh : handle (run (fromHandle h0) ops) = some h) : WFHandle h :=
  handle_wf _ (inv_run _ (inv_fromHandle h0 wf) ops) h hh

/-! ## An operation that fails leaves the keyset unchanged (public operations) -/

theorem addKey_err_unchanged (s : MState) (keyNil : Bool) (key : Nat) (idReq : Option Nat)
    (draws : List Nat) (h : (addKeyWithOpts s keyNil key idReq [] draws).2.isErr = true) :
    (addKeyWithOpts s keyNil key idReq [] draws).1.entries = s.entries := by
  unfold addKeyWithOpts at h ⊢
  simp only [applyOpts] at h ⊢
  (repeat' split) <;> simp_all [Out.isErr]

/-- Every public operation that reports an error leaves the entry list as it was. -/
theorem err_unchanged (s : MState) (op : Op) (hpub : op.isPublic = true)
    (h : (step s op).2.isErr = true) : (step s op).1.entries = s.entries := by
  cases op with
  | addKey keyNil key idReq draws => exact addKey_err_unchanged s keyNil key idReq draws h
  | addKeyOpts => simp [Op.isPublic] at hpub
  | _ =>
    simp only [step] at h ⊢
    (repeat' split) <;> simp_all [Out.isErr]

/-! ## The primary cannot be disabled or deleted; a non-enabled key cannot become primary -/

theorem disable_primary_err (s : MState) (id : Nat) (e : MEntry)
    (he : findEntry s.entries id = some e) (hp : e.isPrimary = true) :
    step s (.disable id) = (s, .err) := by
  simp [step, he, hp]

theorem delete_primary_err (s : MState) (id : Nat) (e : MEntry)
    (he : findEntry s.entries id = some e) (hp : e.isPrimary = true) :
    step s (.delete id) = (s, .err) := by
  simp [step, he, hp]

theorem setPrimary_nonenabled_err (s : MState) (id : Nat) (e : MEntry)
    (he : findEntry s.entries id = some e) (hp : e.status ≠ .enabled) :
    step s (.setPrimary id) = (s, .err) := by
  simp [step, he, hp]

theorem unknown_id_err (s : MState) (id : Nat) (h : findEntry s.entries id = none) :
    step s (.setPrimary id) = (s, .err) ∧ step s (.enable id) = (s, .err) ∧
    step s (.disable id) = (s, .err) ∧ step s (.delete id) = (s, .err) := by
  simp [step, h]

/-! ## Once a primary exists it persists (public operations) — so `Handle()` fails only
    "because no primary was ever set" -/

theorem hasPrimary_step (s : MState) (hs : Inv s) (op : Op) (hpub : op.isPublic = true)
    (hp : hasPrimary s = true) : hasPrimary (step s op).1 = true := by
  obtain ⟨p, hpm, hpp⟩ := List.any_eq_true.mp hp
  cases op with
  | add tmplOk genOk key draws =>
    simp only [step]
    split
    · exact hp
    · split
      · exact hp
      · split
        · exact hp
        · simp only [hasPrimary, List.any_append, Bool.or_eq_true]; left; exact hp
  | addKey keyNil key idReq draws =>
    simp only [step, addKeyWithOpts, applyOpts]
    split
    · exact hp
    · simp only [Bool.false_and, Bool.false_eq_true, ↓reduceIte]
      split
      · exact hp
      · split
        · split
          · exact hp
          · simp only [hasPrimary, List.any_append, Bool.or_eq_true]; left; exact hp
        · split
          · exact hp
          · simp only [hasPrimary, List.any_append, Bool.or_eq_true]; left; exact hp
  | addKeyOpts => simp [Op.isPublic] at hpub
  | setPrimary id =>
    simp only [step]
    split
    · exact hp
    · rename_i e he
      obtain ⟨hmem, hid⟩ := findEntry_some he
      split
      · exact hp
      · simp only [hasPrimary, List.any_map, List.any_eq_true, Function.comp_apply, beq_iff_eq]
        exact ⟨e, hmem, hid⟩
  | enable id =>
    simp only [step]
    split
    · exact hp
    · split
      · exact hp
      · simp only [hasPrimary, setStatus, List.any_map, List.any_eq_true, Function.comp_apply]
        refine ⟨p, hpm, ?_⟩
        split <;> exact hpp
  | disable id =>
    simp only [step]
    split
    · exact hp
    · split
      · exact hp
      · split
        · exact hp
        · simp only [hasPrimary, setStatus, List.any_map, List.any_eq_true, Function.comp_apply]
          refine ⟨p, hpm, ?_⟩
          split <;> exact hpp
  | delete id =>
    simp only [step]
    split
    · exact hp
    · rename_i e he
      obtain ⟨hmem, hid⟩ := findEntry_some he
      split
      · exact hp
      · rename_i hnp
        simp only [hasPrimary, List.any_eq_true]
        refine ⟨p, ?_, hpp⟩
        -- p is primary, the erased entry is not, so p survives
        have hne : ¬ (p.id == id) = true := by
          intro hpid
          have : p = e := eq_of_id_eq hs.nodup hpm hmem ((by simpa using hpid : p.id = id).trans hid.symm)
          subst this; exact hnp hpp
        exact (List.mem_eraseP_of_neg (p := fun x : MEntry => x.id == id) (a := p) hne).mpr hpm

/-! ## Keys with an id requirement keep that id -/

theorem addKey_idReq (s : MState) (key r : Nat) (draws : List Nat) :
    (step s (.addKey false key (some r) draws)).2 = .okId r ∨
    (step s (.addKey false key (some r) draws)).2 = .err := by
  simp only [step, addKeyWithOpts, applyOpts]
  simp only [Bool.false_eq_true, ↓reduceIte, Option.getD_some, Option.isSome_some, Bool.false_and]
  split
  · exact absurd ‹_› (by decide)
  · split <;> simp

/-- The id returned by a successful add is the id of the appended (last) entry. -/
theorem add_ok_last (s : MState) (op : Op) (id : Nat) (h : (step s op).2 = .okId id) :
    ∃ e, (step s op).1.entries.getLast? = some e ∧ e.id = id := by
  cases op with
  | add tmplOk genOk key draws =>
    simp only [step] at h ⊢
    split
    · simp_all
    · split
      · simp_all
      · split
        · simp_all
        · simp_all
  | addKey keyNil key idReq draws =>
    simp only [step, addKeyWithOpts] at h ⊢
    (repeat' split) <;> simp_all
  | addKeyOpts keyNil key idReq opts draws =>
    simp only [step, addKeyWithOpts] at h ⊢
    (repeat' split) <;> simp_all
  | setPrimary id' => simp only [step] at h; (repeat' split at h) <;> simp_all
  | enable id' => simp only [step] at h; (repeat' split at h) <;> simp_all
  | disable id' => simp only [step] at h; (repeat' split at h) <;> simp_all
  | delete id' => simp only [step] at h; (repeat' split at h) <;> simp_all

/-! ## Handles are values: later operations do not change an earlier handle (by construction in
    the model — `handle` returns the list itself; the Go side is what the harness checks). -/

theorem earlier_handle_unaffected (s : MState) (h : Handle) (_hh : handle s = some h) (ops : List Op) :
    let _s' := run s ops; h = s.entries := by
  intro _; exact handle_eq_entries s h _hh

/-! ## Non-vacuity: concrete histories meet the hypotheses and reach both outcomes -/

def exampleOps : List Op :=
  [ .add true true 100 [7], .add true true 101 [7, 7, 9], .setPrimary 9,
    .addKey false 102 (some 7) [], .addKey false 103 (some 5) [], .disable 7, .delete 9,
    .setPrimary 7, .setPrimary 5, .disable 9, .delete 7 ]

example : (handle (run init exampleOps)).isSome = true := by decide
example : (run init exampleOps).entries.map (·.id) = [9, 5] := by decide
example : handle (run init [.add true true 1 [3], .add true true 2 [4]]) = none := by decide
/-- the documented corner of the internal API: `AsPrimary` with a colliding fixed id clears the
    old primary and then fails (so `err_unchanged` is stated for public ops only). -/
example :
    let s := run init [.add true true 1 [3], .setPrimary 3]
    (step s (.addKeyOpts false 2 none [.asPrimary, .withFixedID 3] [])).2 = .err ∧
    hasPrimary (step s (.addKeyOpts false 2 none [.asPrimary, .withFixedID 3] [])).1 = false := by
  decide

end TinkVerif.Manager

section AxiomAudit
open TinkVerif.Manager
#print axioms inv_run
#print axioms handle_after_any_history
#print axioms handle_after_any_history_from
#print axioms handle_isSome_iff
#print axioms handle_wf
#print axioms wf_primary
#print axioms inv_fromHandle
#print axioms err_unchanged
#print axioms hasPrimary_step
#print axioms disable_primary_err
#print axioms delete_primary_err
#print axioms setPrimary_nonenabled_err
#print axioms unknown_id_err
#print axioms addKey_idReq
#print axioms add_ok_last
end AxiomAudit
