import TinkVerif.Model.Keyset
import TinkVerif.Props.C11

/-!
# C14 — untrusted keyset input is rejected or yields a well-formed handle
# C13 — the NoSecrets gates (structural part)

`validate` mirrors the loop of keyset.Validate; `WF` is the declarative statement. The theorems hold
for every keyset message (any number of keys, any enum values incl. unknown ones, any primary id).
Per-type key parsing is an oracle bit of the model (`parseOk`); byte-level parsing and the absence of
panics in the real code are covered by the correspondence harness, not by these theorems.
-/
namespace TinkVerif.Keyset
open TinkVerif TinkVerif.Manager

/-- facts implied by a successful run of the validation loop -/
theorem vloop_sound (P : Nat) (s s' : VState) (ks : List PKey) (h : vloop P s ks = some s') :
    (∀ k ∈ ks, validKey k = true) ∧ (ks.map (·.keyId)).Nodup ∧ (∀ k ∈ ks, k.keyId ∉ s.seen) ∧
    (∀ k ∈ ks, k.keyId = P → k.status = 1) ∧
    (s'.hasPrimary = true → s.hasPrimary = true ∨ ∃ k ∈ ks, k.keyId = P) ∧
    (∀ x, x ∈ s.seen → x ∈ s'.seen) := by
  induction ks generalizing s with
  | nil => simp only [vloop, Option.some.injEq] at h; subst h; simp
  | cons k ks ih =>
    simp only [vloop] at h
    cases hs : vstep P s k with
    | none => simp [hs] at h
    | some s1 =>
      simp only [hs] at h
      obtain ⟨i1, i2, i3, i4, i5, i6⟩ := ih s1 h
      -- unpack the step
      unfold vstep at hs
      split at hs
      · cases hs
      · rename_i hv
        split at hs
        · cases hs
        · rename_i hseen
          split at hs
          · cases hs
          · rename_i hnp
            have hvk : validKey k = true := by simpa using hv
            have hseen1 : ∀ x, x ∈ s.seen → x ∈ s1.seen ∧ (k.keyId ∈ s1.seen) := by
              intro x hx
              split at hs
              · cases hs; exact ⟨List.mem_cons_of_mem _ hx, List.mem_cons_self ..⟩
              · split at hs
                · split at hs
                  · cases hs
                  · cases hs; exact ⟨List.mem_cons_of_mem _ hx, List.mem_cons_self ..⟩
                · cases hs; exact ⟨List.mem_cons_of_mem _ hx, List.mem_cons_self ..⟩
            have hk1 : k.keyId ∈ s1.seen := by
              split at hs
              · cases hs; exact List.mem_cons_self ..
              · split at hs
                · split at hs
                  · cases hs
                  · cases hs; exact List.mem_cons_self ..
                · cases hs; exact List.mem_cons_self ..
            have hsub : ∀ x, x ∈ s.seen → x ∈ s1.seen := by
              intro x hx
              split at hs
              · cases hs; exact List.mem_cons_of_mem _ hx
              · split at hs
                · split at hs
                  · cases hs
                  · cases hs; exact List.mem_cons_of_mem _ hx
                · cases hs; exact List.mem_cons_of_mem _ hx
            have hprim1 : s1.hasPrimary = true → s.hasPrimary = true ∨ k.keyId = P := by
              intro hp
              split at hs
              · cases hs; exact Or.inl hp
              · split at hs
                · split at hs
                  · cases hs
                  · rename_i hkp _; exact Or.inr hkp
                · cases hs; exact Or.inl hp
            refine ⟨?_, ?_, ?_, ?_, ?_, ?_⟩
            · intro x hx
              rcases List.mem_cons.mp hx with rfl | hx
              · exact hvk
              · exact i1 x hx
            · simp only [List.map_cons, List.nodup_cons]
              refine ⟨?_, i2⟩
              intro hmem
              obtain ⟨y, hy, hyk⟩ := List.mem_map.mp hmem
              exact i3 y hy (hyk ▸ hk1)
            · intro x hx
              rcases List.mem_cons.mp hx with rfl | hx
              · exact hseen
              · exact fun hmem => i3 x hx (hsub _ hmem)
            · intro x hx hxp
              rcases List.mem_cons.mp hx with rfl | hx
              · by_cases hst : x.status = 1
                · exact hst
                · exact absurd ⟨hst, hxp⟩ hnp
              · exact i4 x hx hxp
            · intro hp
              rcases i5 hp with h1 | ⟨y, hy, hyp⟩
              · rcases hprim1 h1 with h2 | h2
                · exact Or.inl h2
                · exact Or.inr ⟨k, List.mem_cons_self .., h2⟩
              · exact Or.inr ⟨y, List.mem_cons_of_mem _ hy, hyp⟩
            · intro x hx; exact i6 x (hsub x hx)

/-- a run over a well-formed tail succeeds -/
theorem vloop_complete (P : Nat) (s : VState) (ks : List PKey)
    (h1 : ∀ k ∈ ks, validKey k = true) (h2 : (ks.map (·.keyId)).Nodup) (h3 : ∀ k ∈ ks, k.keyId ∉ s.seen)
    (h4 : ∀ k ∈ ks, k.keyId = P → k.status = 1) (h5 : s.hasPrimary = true → ∀ k ∈ ks, k.keyId ≠ P) :
    ∃ s', vloop P s ks = some s' ∧
      (s'.hasPrimary = (s.hasPrimary || ks.any (·.keyId == P))) ∧
      (s.numEnabled ≤ s'.numEnabled) ∧ (ks.any (·.keyId == P) = true → 0 < s'.numEnabled) := by
  induction ks generalizing s with
  | nil => exact ⟨s, rfl, by simp, Nat.le_refl _, by simp⟩
  | cons k ks ih =>
    simp only [List.map_cons, List.nodup_cons] at h2
    have hvk := h1 k (List.mem_cons_self ..)
    have hns := h3 k (List.mem_cons_self ..)
    have hnodup' : ∀ y ∈ ks, y.keyId ≠ k.keyId := by
      intro y hy heq
      exact h2.1 (List.mem_map.mpr ⟨y, hy, heq⟩)
    -- compute the step
    have hstep : ∃ s1, vstep P s k = some s1 ∧ s1.seen = k.keyId :: s.seen ∧
        s1.hasPrimary = (s.hasPrimary || (k.keyId == P)) ∧ s.numEnabled ≤ s1.numEnabled ∧
        ((k.keyId == P) = true → 0 < s1.numEnabled) := by
      unfold vstep
      rw [if_neg (by simp [hvk]), if_neg hns]
      by_cases hkp : k.keyId = P
      · have hst := h4 k (List.mem_cons_self ..) hkp
        rw [if_neg (by simp [hst])]
        simp only [hst, ne_eq, not_true_eq_false, ↓reduceIte, hkp]
        have hnp : s.hasPrimary = false := by
          cases hh : s.hasPrimary with
          | false => rfl
          | true => exact absurd hkp (h5 hh k (List.mem_cons_self ..))
        simp [hnp]
      · rw [if_neg (by simp [hkp])]
        by_cases hst : k.status = 1
        · simp [hst, hkp]
        · simp [hst, hkp]
    obtain ⟨s1, e1, e2, e3, e4, e5⟩ := hstep
    obtain ⟨s', f1, f2, f3, f4⟩ := ih s1 (fun x hx => h1 x (List.mem_cons_of_mem _ hx)) h2.2
      (by intro x hx; rw [e2]; simp only [List.mem_cons, not_or]
          exact ⟨hnodup' x hx, h3 x (List.mem_cons_of_mem _ hx)⟩)
      (fun x hx => h4 x (List.mem_cons_of_mem _ hx))
      (by intro hp x hx hxp
          rw [e3] at hp
          simp only [Bool.or_eq_true, beq_iff_eq] at hp
          rcases hp with hp | hp
          · exact h5 hp x (List.mem_cons_of_mem _ hx) hxp
          · exact hnodup' x hx (hxp.trans hp.symm))
    refine ⟨s', by simp only [vloop, e1, f1], ?_, by omega, ?_⟩
    · rw [f2, e3]; simp [Bool.or_assoc]
    · intro hany
      simp only [List.any_cons, Bool.or_eq_true] at hany
      rcases hany with h | h
      · have := e5 h; omega
      · exact f4 h

/-- **`Validate` accepts exactly the well-formed keysets.** -/
theorem validate_iff_WF (ks : PKeyset) : validate ks = true ↔ WF ks := by
  unfold validate WF
  constructor
  · intro h
    split at h
    · cases h
    · rename_i hne
      cases hl : vloop ks.primaryKeyId { seen := [], hasPrimary := false, numEnabled := 0 } ks.keys with
      | none => simp [hl] at h
      | some s' =>
        simp only [hl, Bool.and_eq_true] at h
        obtain ⟨i1, i2, _, i4, i5, _⟩ := vloop_sound _ _ _ _ hl
        refine ⟨by simpa using hne, i1, i2, i4, ?_⟩
        rcases i5 h.2 with h0 | h0
        · cases h0
        · exact h0
  · rintro ⟨h1, h2, h3, h4, ⟨kp, hkp, hkpid⟩⟩
    rw [if_neg (by simpa using h1)]
    obtain ⟨s', e1, e2, _, e4⟩ := vloop_complete ks.primaryKeyId { seen := [], hasPrimary := false, numEnabled := 0 }
      ks.keys h2 h3 (by simp) h4 (by simp)
    have hany : ks.keys.any (·.keyId == ks.primaryKeyId) = true :=
      List.any_eq_true.mpr ⟨kp, hkp, by simpa using hkpid⟩
    simp only [e1, e2, hany, Bool.false_or, Bool.and_true]
    have := e4 hany
    simp; omega

/-- Every rejected shape the property lists, as corollaries of the characterisation. -/
theorem validate_rejects (ks : PKeyset) :
    (ks.keys = [] → validate ks = false) ∧
    (¬ (ks.keys.map (·.keyId)).Nodup → validate ks = false) ∧
    ((∃ k ∈ ks.keys, validKey k = false) → validate ks = false) ∧
    ((∀ k ∈ ks.keys, k.keyId ≠ ks.primaryKeyId) → validate ks = false) ∧
    ((∃ k ∈ ks.keys, k.keyId = ks.primaryKeyId ∧ k.status ≠ 1) → validate ks = false) := by
  have key : ∀ (p : Prop), (WF ks → ¬ p) → p → validate ks = false := by
    intro p hp h
    cases hv : validate ks with
    | false => rfl
    | true => exact absurd h (hp ((validate_iff_WF ks).mp hv))
  refine ⟨key _ (fun w h => w.1 h), key _ (fun w h => h w.2.2.1), key _ ?_, key _ ?_, key _ ?_⟩
  · rintro w ⟨k, hk, hv⟩; have := w.2.1 k hk; simp [hv] at this
  · rintro w h; obtain ⟨k, hk, hid⟩ := w.2.2.2.2; exact h k hk hid
  · rintro w ⟨k, hk, hid, hst⟩; exact hst (w.2.2.2.1 k hk hid)

theorem validKey_iff (k : PKey) : validKey k = true ↔
    k.hasKeyData = true ∧ (k.prefixType = 1 ∨ k.prefixType = 2 ∨ k.prefixType = 3 ∨ k.prefixType = 4 ∨ k.prefixType = 5) ∧
    (k.status = 1 ∨ k.status = 2 ∨ k.status = 3) := by
  simp only [validKey, Bool.and_eq_true, Bool.or_eq_true, beq_iff_eq, and_assoc, or_assoc]

theorem statusOf_known (n : Nat) (h : n = 1 ∨ n = 2 ∨ n = 3) : statusOf n ≠ .unknown := by
  rcases h with rfl | rfl | rfl <;> simp [statusOf]

/-- **For every keyset message, handle construction is an error or a well-formed handle**
    (≥ 1 key, pairwise distinct ids, exactly one primary, which is ENABLED, only known statuses) —
    the `WFHandle` of C11, so manager histories may start from any handle a reader returns. -/
theorem handleOf_wf (ks : PKeyset) (h : Handle) (hh : handleOf ks = some h) : WFHandle h := by
  unfold handleOf at hh
  split at hh
  · cases hh
  · rename_i hv
    have wf := (validate_iff_WF ks).mp (by simpa using hv)
    obtain ⟨w1, w2, w3, w4, ⟨kp, hkp, hkpid⟩⟩ := wf
    split at hh
    · cases hh
    · dsimp only at hh
      split at hh
      · cases hh
      · split at hh
        · cases hh
          refine ⟨by simpa using w1, by simpa [List.map_map, Function.comp_def] using w3, ?_, ?_, ?_⟩
          · -- exactly one entry carries the primary flag
            have hle := numPrimary_setPrimary_le (ks.keys.map fun k =>
              ({ key := 0, id := k.keyId, status := statusOf k.status, isPrimary := false } : MEntry))
              ks.primaryKeyId (by simpa [List.map_map, Function.comp_def] using w3)
            simp only [List.map_map, Function.comp_def] at hle
            have hge : 1 ≤ numPrimary (ks.keys.map fun k =>
                ({ key := 0, id := k.keyId, status := statusOf k.status, isPrimary := k.keyId == ks.primaryKeyId } : MEntry)) := by
              unfold numPrimary
              apply List.length_pos_of_mem (a := ({ key := 0, id := kp.keyId, status := statusOf kp.status, isPrimary := kp.keyId == ks.primaryKeyId } : MEntry))
              rw [List.mem_filter]
              exact ⟨List.mem_map.mpr ⟨kp, hkp, rfl⟩, by simpa using hkpid⟩
            omega
          · intro e he hp
            obtain ⟨k, hk, rfl⟩ := List.mem_map.mp he
            simp only [beq_iff_eq] at hp
            have := w4 k hk hp
            simp [this, statusOf]
          · intro e he
            obtain ⟨k, hk, rfl⟩ := List.mem_map.mp he
            have hvk := (validKey_iff k).mp (w2 k hk)
            exact statusOf_known _ hvk.2.2
        · cases hh

/-- composition with C11: any manager history started from any accepted keyset keeps it well-formed -/
theorem handle_from_reader_then_any_history (ks : PKeyset) (h0 : Handle) (hh : handleOf ks = some h0)
    (ops : List Op) (h : Handle) (hr : Manager.handle (run (fromHandle h0) ops) = some h) : WFHandle h :=
  handle_after_any_history_from h0 (handleOf_wf ks h0 hh) ops h hr

/-! ## C13: the NoSecrets gates -/

/-- If `NewHandleWithNoSecrets` / `ReadWithNoSecrets` succeeds, **no key at any position** carries
    UNKNOWN, SYMMETRIC or ASYMMETRIC_PRIVATE material. -/
theorem noSecrets_sound (ks : PKeyset) (h : Handle) (hh : noSecretsHandle ks = some h) :
    ∀ k ∈ ks.keys, k.material ≠ 0 ∧ k.material ≠ 1 ∧ k.material ≠ 2 := by
  unfold noSecretsHandle at hh
  split at hh
  · cases hh
  · rename_i hs
    intro k hk
    simp only [hasSecrets, Bool.not_eq_true, List.any_eq_false, Bool.or_eq_true, beq_iff_eq, not_or] at hs
    have := hs k hk
    omega

/-- conversely, public/remote-only keysets pass the gate (and then behave like `handleOf`) -/
theorem noSecrets_complete (ks : PKeyset) (h : ∀ k ∈ ks.keys, k.material = 3 ∨ k.material = 4) :
    noSecretsHandle ks = handleOf ks := by
  unfold noSecretsHandle
  rw [if_neg]
  simp only [hasSecrets, Bool.not_eq_true, List.any_eq_false, Bool.or_eq_true, beq_iff_eq, not_or]
  intro k hk
  rcases h k hk with h | h <;> omega

/-- a single secret key anywhere in the list is enough to fail -/
theorem noSecrets_any_position (pre post : List PKey) (k : PKey) (p : Nat)
    (hk : k.material = 0 ∨ k.material = 1 ∨ k.material = 2) :
    noSecretsHandle { primaryKeyId := p, keys := pre ++ k :: post } = none := by
  unfold noSecretsHandle
  rw [if_pos]
  simp only [hasSecrets, List.any_append, List.any_cons, Bool.or_eq_true, beq_iff_eq]
  right; left
  rcases hk with h | h | h <;> simp [h]

/-! non-vacuity -/
def exKs : PKeyset :=
  { primaryKeyId := 7, keys := [
      { hasKeyData := true, material := 1, status := 2, keyId := 3, prefixType := 1, parseOk := true },
      { hasKeyData := true, material := 1, status := 1, keyId := 7, prefixType := 3, parseOk := true },
      { hasKeyData := true, material := 3, status := 3, keyId := 9, prefixType := 4, parseOk := true } ] }
example : validate exKs = true := by decide
example : (handleOf exKs).isSome = true := by decide
example : validate { exKs with primaryKeyId := 3 } = false := by decide
example : validate { exKs with primaryKeyId := 8 } = false := by decide

end TinkVerif.Keyset

section AxiomAudit
open TinkVerif.Keyset
#print axioms validate_iff_WF
#print axioms validate_rejects
#print axioms validKey_iff
#print axioms handleOf_wf
#print axioms handle_from_reader_then_any_history
#print axioms noSecrets_sound
#print axioms noSecrets_complete
#print axioms noSecrets_any_position
end AxiomAudit
