/-
  C01 (POLYVAL field arithmetic): tink-go's constant-time field multiplication — `mul32`
  (integer multiplication "with holes"), `mul64` (Karatsuba over `mul32`) and `polyvalDot`
  (Karatsuba over `mul64` + Montgomery-style reduction) in internal/aead/polyval.go — equals the
  RFC 8452 specification `PolyvalSpec.clmul` / `PolyvalSpec.dot`.

  The statements are about `TinkVerif.Gen.Polyval.*`, which the translator regenerates from the Go
  source on every check run (vlib/gen.py, entry "Polyval"); unsigned Go integers are `Nat` with an
  explicit `% 2^w` after every wrapping operation, `fieldElement` is a structure of two `Nat`s.
  The generated text is alpha-normalised: parameters are `a0 a1` by position, auxiliary definitions
  are `fn.v<k>` in canonical data-flow order (the comment in front of each function of the generated
  file maps them to the Go locals; at the time of writing `mul64.v1 … v7` = a0, a1, b0, b1, lo, hi,
  mid and `polyvalDot.v8` = r0 after the first reduction step).
  Core Lean only.
-/
import TinkVerif.Gen.Polyval
import TinkVerif.Lemmas.PolyvalGen
import TinkVerif.Lemmas.PolyvalDotCore

namespace TinkVerif.Props.C01Polyval
open TinkVerif.Gen.Polyval TinkVerif.Clmul TinkVerif.Prim.PolyvalSpec

/-- the selector constants of the Go source, as regenerated -/
theorem consts_spec :
    u32Sel0 = 0x11111111 ∧ u32Sel1 = 0x22222222 ∧ u32Sel2 = 0x44444444 ∧ u32Sel3 = 0x88888888 ∧
    u64Sel0 = 0x1111111111111111 ∧ u64Sel1 = 0x2222222222222222 ∧ u64Sel2 = 0x4444444444444444 ∧
    u64Sel3 = 0x8888888888888888 ∧ PolyvalBlockSize = 16 := by decide

/-! ### (a) `mul32` -/

/-- `mul32` computes the carry-less product of two 32-bit polynomials. -/
theorem mul32_eq_clmul (a b : Nat) (ha : a < 2 ^ 32) (hb : b < 2 ^ 32) :
    mul32 a b = clmul a b 32 := by
  have h := mul32_core
    (spaced_and_sel sel32_0 a) (spaced_and_sel sel32_1 a) (spaced_and_sel sel32_2 a) (spaced_and_sel sel32_3 a)
    (spaced_and_sel sel32_0 b) (spaced_and_sel sel32_1 b) (spaced_and_sel sel32_2 b) (spaced_and_sel sel32_3 b)
    (and_sel_lt sel32_0 a) (and_sel_lt sel32_1 a) (and_sel_lt sel32_2 a) (and_sel_lt sel32_3 a)
    (and_sel_lt sel32_0 b) (and_sel_lt sel32_1 b) (and_sel_lt sel32_2 b) (and_sel_lt sel32_3 b)
    sel64_0 sel64_1 sel64_2 sel64_3
  rw [← split4 ha sel32_0 sel32_1 sel32_2 sel32_3, ← split4 hb sel32_0 sel32_1 sel32_2 sel32_3] at h
  rw [← h]
  rfl

/-- the product of two 32-bit polynomials has degree at most 62 -/
theorem mul32_lt (a b : Nat) (ha : a < 2 ^ 32) (hb : b < 2 ^ 32) : mul32 a b < 2 ^ 63 := by
  rw [mul32_eq_clmul a b ha hb]
  exact clmul_lt_tight ha b 31

example : mul32 0xffffffff 0xffffffff = clmul 0xffffffff 0xffffffff 32 :=
  mul32_eq_clmul _ _ (by decide) (by decide)

/-! ### (b) `mul64` -/

theorem mul64_a0 (a b : Nat) : mul64.v1 a b = a % 2 ^ 32 := by
  show (a &&& (2 ^ 32 - 1)) % 2 ^ 32 = a % 2 ^ 32
  rw [Nat.and_two_pow_sub_one_eq_mod, Nat.mod_mod]

theorem mul64_b0 (a b : Nat) : mul64.v3 a b = b % 2 ^ 32 := by
  show (b &&& (2 ^ 32 - 1)) % 2 ^ 32 = b % 2 ^ 32
  rw [Nat.and_two_pow_sub_one_eq_mod, Nat.mod_mod]

theorem shiftRight32_lt {a : Nat} (ha : a < 2 ^ 64) : a >>> 32 < 2 ^ 32 := by
  rw [Nat.shiftRight_eq_div_pow]
  exact Nat.div_lt_of_lt_mul ha

theorem mul64_a1 (a b : Nat) (ha : a < 2 ^ 64) : mul64.v2 a b = a >>> 32 := by
  show (a >>> 32) % 2 ^ 32 = a >>> 32
  exact Nat.mod_eq_of_lt (shiftRight32_lt ha)

theorem mul64_b1 (a b : Nat) (hb : b < 2 ^ 64) : mul64.v4 a b = b >>> 32 := by
  show (b >>> 32) % 2 ^ 32 = b >>> 32
  exact Nat.mod_eq_of_lt (shiftRight32_lt hb)

/-- `mul64` computes the carry-less product of two 64-bit polynomials; the 127-bit result is
    returned as the word pair `(lo, hi)`. -/
theorem mul64_eq_clmul (a b : Nat) (ha : a < 2 ^ 64) (hb : b < 2 ^ 64) :
    (mul64 a b).lo + (mul64 a b).hi * 2 ^ 64 = clmul a b 64
      ∧ (mul64 a b).lo < 2 ^ 64 ∧ (mul64 a b).hi < 2 ^ 64 := by
  have la0 : a % 2 ^ 32 < 2 ^ 32 := Nat.mod_lt _ (by decide)
  have lb0 : b % 2 ^ 32 < 2 ^ 32 := Nat.mod_lt _ (by decide)
  have la1 := shiftRight32_lt ha
  have lb1 := shiftRight32_lt hb
  have hlo : mul64.v5 a b = clmul (a % 2 ^ 32) (b % 2 ^ 32) 32 := by
    unfold mul64.v5; rw [mul64_a0, mul64_b0, mul32_eq_clmul _ _ la0 lb0]
  have hhi : mul64.v6 a b = clmul (a >>> 32) (b >>> 32) 32 := by
    unfold mul64.v6; rw [mul64_a1 a b ha, mul64_b1 a b hb, mul32_eq_clmul _ _ la1 lb1]
  have hmid : mul64.v7 a b = clmul (a % 2 ^ 32 ^^^ a >>> 32) (b % 2 ^ 32 ^^^ b >>> 32) 32 ^^^
      clmul (a % 2 ^ 32) (b % 2 ^ 32) 32 ^^^ clmul (a >>> 32) (b >>> 32) 32 := by
    unfold mul64.v7
    rw [hlo, hhi, mul64_a0, mul64_b0, mul64_a1 a b ha, mul64_b1 a b hb,
      mul32_eq_clmul _ _ (Nat.xor_lt_two_pow la0 la1) (Nat.xor_lt_two_pow lb0 lb1)]
  have h := mul64_core la0 la1 lb0 lb1 (mul64.v7 a b) hmid
  rw [← split_lo_hi a 32, ← split_lo_hi b 32, ← hlo, ← hhi] at h
  exact h

example : (mul64 (2 ^ 64 - 1) (2 ^ 64 - 1)).lo + (mul64 (2 ^ 64 - 1) (2 ^ 64 - 1)).hi * 2 ^ 64
    = clmul (2 ^ 64 - 1) (2 ^ 64 - 1) 64 :=
  (mul64_eq_clmul _ _ (by decide) (by decide)).1

/-! ### (c) `polyvalDot` -/

/-- the field element (polynomial of degree < 128, as a natural number) held in a word pair -/
def feVal (f : fieldElement) : Nat := f.lo + f.hi * 2 ^ 64

/-- both words of a `fieldElement` fit in 64 bits (always true of the Go `uint64` fields) -/
def feWf (f : fieldElement) : Prop := f.lo < 2 ^ 64 ∧ f.hi < 2 ^ 64

theorem feVal_lt {f : fieldElement} (h : feWf f) : feVal f < 2 ^ 128 := by
  unfold feVal
  rw [add_eq_xor_of_lt _ h.1]
  exact xor_shiftLeft_lt h.1 h.2

/-- `polyvalDot a b` is RFC 8452's `dot(a, b) = a·b·x^-128` in GF(2)[x]/(x^128+x^127+x^126+x^121+1). -/
theorem polyvalDot_eq_spec (a b : fieldElement) (ha : feWf a) (hb : feWf b) :
    feVal (polyvalDot a b) = dot (feVal a) (feVal b) ∧ feWf (polyvalDot a b) := by
  obtain ⟨halo, hahi⟩ := ha
  obtain ⟨hblo, hbhi⟩ := hb
  obtain ⟨hx, hx0, hx1⟩ := mul64_eq_clmul a.lo b.lo halo hblo
  obtain ⟨hy, hy0, hy1⟩ := mul64_eq_clmul a.hi b.hi hahi hbhi
  obtain ⟨hm, hm0, hm1⟩ := mul64_eq_clmul (a.lo ^^^ a.hi) (b.lo ^^^ b.hi)
    (Nat.xor_lt_two_pow halo hahi) (Nat.xor_lt_two_pow hblo hbhi)
  exact dot_core (t1 := (polyvalDot.v8 a b).hi) (lo := (polyvalDot a b).lo) (hi := (polyvalDot a b).hi)
    halo hahi hblo hbhi hx0 hx1 hy0 hy1 hm0 hm1 hx hy hm rfl rfl rfl

example : feWf ⟨0xffffffffffffffff, 0xffffffffffffffff⟩ := ⟨by decide, by decide⟩

section AxiomAudit
#print axioms consts_spec
#print axioms mul32_eq_clmul
#print axioms mul32_lt
#print axioms mul64_eq_clmul
#print axioms feVal_lt
#print axioms polyvalDot_eq_spec
end AxiomAudit

end TinkVerif.Props.C01Polyval
