import TinkVerif.Model.Hmac
import TinkVerif.Model.Cmac

/-!
# C15 — PRFs are deterministic, prefix-consistent and equal to HMAC / HKDF / AES-CMAC

Laws proved for **every** keyed MAC `mac` with fixed output length (so for HMAC over any hash):
HKDF-Expand's prefix law, the RFC 5869 output limit, the empty-salt rule of `subtle.ComputeHKDF`,
and (for the generic RFC 2104 HMAC) that the empty key and an all-zero key of at most one block are
the same key. The HMAC- and CMAC-PRFs truncate a fixed tag, so their prefix law is `take_take`.
-/
namespace TinkVerif.Hmac
open TinkVerif

variable (mac : Bytes → Bytes → Bytes) (prk info : Bytes)

theorem blocksFrom_length (hl : Nat) (hmac : ∀ k x, (mac k x).length = hl) (n : Nat) (prev : Bytes) (i : Nat) :
    (blocksFrom mac prk info n prev i).length = n * hl := by
  induction n generalizing prev i with
  | zero => simp [blocksFrom]
  | succ n ih => simp only [blocksFrom, List.length_append, hmac, ih]; rw [Nat.succ_mul]; omega

/-- generating more blocks only appends: the first `n` blocks are a prefix of the first `n + k` -/
theorem blocksFrom_prefix (n k : Nat) (prev : Bytes) (i : Nat) :
    ∃ rest, blocksFrom mac prk info (n + k) prev i = blocksFrom mac prk info n prev i ++ rest := by
  induction n generalizing prev i with
  | zero => exact ⟨blocksFrom mac prk info k prev i, by simp [blocksFrom]⟩
  | succ n ih =>
    obtain ⟨rest, hr⟩ := ih (mac prk (prev ++ info ++ [UInt8.ofNat (i + 1)])) (i + 1)
    refine ⟨rest, ?_⟩
    rw [show n + 1 + k = (n + k) + 1 by omega]
    simp only [blocksFrom]
    rw [hr]; simp only [List.append_assoc]

theorem stream_take (hl : Nat) (hmac : ∀ k x, (mac k x).length = hl) (a b len : Nat)
    (hab : a ≤ b) (hlen : len ≤ a * hl) :
    (stream mac prk info b).take len = (stream mac prk info a).take len := by
  obtain ⟨k, rfl⟩ : ∃ k, b = a + k := ⟨b - a, by omega⟩
  obtain ⟨rest, hr⟩ := blocksFrom_prefix mac prk info a k [] 0
  unfold stream
  rw [hr, List.take_append_of_le_length]
  rw [blocksFrom_length mac prk info hl hmac]; exact hlen

/-- **Prefix law for HKDF**: the first `n` bytes of an `m`-byte expansion are the `n`-byte expansion. -/
theorem expand_prefix (hl : Nat) (hpos : 0 < hl) (hmac : ∀ k x, (mac k x).length = hl) (n m : Nat) (h : n ≤ m) :
    expand mac hl prk info n = (expand mac hl prk info m).take n := by
  unfold expand
  rw [List.take_take, Nat.min_eq_left h]
  have h1 : n / hl + 1 ≤ m / hl + 1 := by
    have := Nat.div_le_div_right (c := hl) h; omega
  have h2 : n ≤ (n / hl + 1) * hl := by
    have := Nat.div_add_mod n hl
    have := Nat.mod_lt n hpos
    rw [Nat.add_mul, Nat.mul_comm]; omega
  exact (stream_take mac prk info hl hmac _ _ n h1 h2).symm

theorem expand_length (hl : Nat) (hpos : 0 < hl) (hmac : ∀ k x, (mac k x).length = hl) (n : Nat) :
    (expand mac hl prk info n).length = n := by
  unfold expand stream
  rw [List.length_take, blocksFrom_length mac prk info hl hmac]
  have := Nat.div_add_mod n hl
  have := Nat.mod_lt n hpos
  rw [Nat.add_mul, Nat.mul_comm]
  omega

/-- the first output block is T(1) = MAC(prk, info ‖ 0x01) (RFC 5869 §2.3) -/
theorem expand_first_block (hl : Nat) (hmac : ∀ k x, (mac k x).length = hl) :
    expand mac hl prk info hl = mac prk (info ++ [1]) := by
  unfold expand stream
  have : hl / hl + 1 = (hl / hl) + 1 := rfl
  simp only [blocksFrom, List.nil_append]
  rw [List.take_append_of_le_length (by rw [hmac]; exact Nat.le_refl _)]
  rw [List.take_of_length_le (by rw [hmac]; exact Nat.le_refl _)]
  rfl

/-- requests beyond 255·hashLen fail; everything up to the limit succeeds -/
theorem hkdf_limit (hl : Nat) (ikm salt info : Bytes) (len : Nat) :
    (hkdf mac hl ikm salt info len).isSome = decide (len ≤ 255 * hl) := by
  unfold hkdf; split <;> simp <;> omega

/-- HKDF-PRF prefix law at the API level (both requests within the limit) -/
theorem hkdf_prefix (hl : Nat) (hpos : 0 < hl) (hmac : ∀ k x, (mac k x).length = hl)
    (ikm salt info : Bytes) (n m : Nat) (h : n ≤ m) (hm : m ≤ 255 * hl) :
    hkdf mac hl ikm salt info n = (hkdf mac hl ikm salt info m).map (·.take n) := by
  unfold hkdf
  rw [if_neg (by omega), if_neg (by omega)]
  simp only [Option.map_some]
  rw [expand_prefix mac _ info hl hpos hmac n m h]

/-- `subtle.ComputeHKDF`: whenever it returns output, that output is RFC 5869 HKDF for the given
    key, salt (empty = `hashLen` zero bytes), info and length; sizes < 10 or > 255·hashLen fail. -/
theorem computeHKDF_spec (hl : Nat) (key salt info : Bytes) (n : Nat) (out : Bytes)
    (h : computeHKDF mac hl key salt info n = some out) :
    10 ≤ n ∧ n ≤ 255 * hl ∧
    out = expand mac hl (extract mac (if salt.length = 0 then Bytes.zeros hl else salt) key) info n := by
  unfold computeHKDF at h
  split at h
  · cases h
  · split at h
    · cases h
    · cases h; exact ⟨by omega, by omega, rfl⟩

theorem computeHKDF_guard (hl : Nat) (key salt info : Bytes) (n : Nat) :
    (computeHKDF mac hl key salt info n).isSome = decide (10 ≤ n ∧ n ≤ 255 * hl) := by
  unfold computeHKDF
  split
  · simp; omega
  · split
    · simp; omega
    · simp; omega

/-! ### RFC 2104: the empty key and a short all-zero key are the same HMAC key, hence replacing an
    empty HKDF salt by `hashLen` zeros (as `ComputeHKDF` does) is exactly RFC 5869's default. -/

theorem prepKey_zeros (H : Bytes → Bytes) (B n : Nat) (h : n ≤ B) :
    prepKey H B (Bytes.zeros n) = prepKey H B [] := by
  unfold prepKey
  have h1 : ¬ ((Bytes.zeros n).length > B) := by simp; omega
  have h2 : ¬ (([] : Bytes).length > B) := by simp
  rw [if_neg h1, if_neg h2]
  simp only [List.length_nil, List.nil_append, Nat.sub_zero, Bytes.zeros, List.length_replicate]
  rw [List.replicate_append_replicate]
  congr 1; omega

theorem hmac_empty_key_eq_zero_key (H : Bytes → Bytes) (B n : Nat) (h : n ≤ B) (msg : Bytes) :
    hmac H B (Bytes.zeros n) msg = hmac H B [] msg := by
  unfold hmac; rw [prepKey_zeros H B n h]

end TinkVerif.Hmac

namespace TinkVerif
/-- prefix law for PRFs that truncate a fixed tag (HMAC-PRF, AES-CMAC-PRF) -/
theorem truncating_prf_prefix (tag : Bytes) (n m : Nat) (h : n ≤ m) : tag.take n = (tag.take m).take n := by
  rw [List.take_take, Nat.min_eq_left h]
end TinkVerif

/-! non-vacuity: a MAC with fixed output length exists and the laws are exercised on it -/
example : TinkVerif.Hmac.expand (fun k x => (k ++ x ++ [0, 0, 0, 0]).take 4) 4 [1] [2] 3
    = (TinkVerif.Hmac.expand (fun k x => (k ++ x ++ [0, 0, 0, 0]).take 4) 4 [1] [2] 9).take 3 := by decide

section AxiomAudit
#print axioms TinkVerif.Hmac.expand_prefix
#print axioms TinkVerif.Hmac.expand_length
#print axioms TinkVerif.Hmac.expand_first_block
#print axioms TinkVerif.Hmac.hkdf_limit
#print axioms TinkVerif.Hmac.hkdf_prefix
#print axioms TinkVerif.Hmac.computeHKDF_spec
#print axioms TinkVerif.Hmac.computeHKDF_guard
#print axioms TinkVerif.Hmac.hmac_empty_key_eq_zero_key
#print axioms TinkVerif.truncating_prf_prefix
end AxiomAudit
