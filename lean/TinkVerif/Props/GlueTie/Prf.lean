import TinkVerif.Lemmas.GlueSem
import TinkVerif.Gen.GluePrf
/-
  Tie: the AES-CMAC PRF wrapper regenerated from /repo/prf/subtle/aes_cmac.go (Gen/GluePrf.lean, produced by
  go/harness/gluetr on every check run).

  * `AESCMACPRF.ComputePRF` (whole function)  = "refuse more than 16 bytes, otherwise the first `outputLength`
    bytes of the CMAC" (the truncation `PrfSet`/`Prf` models apply to `Cmac.compute`);
  * `ValidateAESCMACPRFParams` (whole function) = key size must be exactly 32.

  Abstracted as a parameter: `cmac : Bytes → Bytes` = `a.cmac.Compute(data)` of
  tink-go's internal AES-CMAC (tied to `Cmac.compute` separately in Props/GlueTie/CmacFull.lean); the only fact
  used is that it returns one block (16 bytes).  The theorem also shows that the slice `result[:outputLength]`
  never panics (the poison value `[]` would make the equation false for `0 < n`).
-/
namespace TinkVerif.GlueTie
open TinkVerif TinkVerif.GoSem
open TinkVerif.Gen.GluePrf

theorem prfsubtle_ComputePRF_eq (cmac : Bytes → Bytes) (hc : ∀ x, (cmac x).length = 16) (data : Bytes) (n : Nat) :
    PrfSubtle.ComputePRF cmac data n = if n ≤ 16 then some ((cmac data).take n) else none := by
  simp only [PrfSubtle.ComputePRF, Int.ofNat_eq_natCast]
  by_cases h : n ≤ 16
  · have h' : ¬ n > 16 := by omega
    rw [if_neg h', if_pos h]
    have := slice_nat (cmac data) 0 n (Nat.zero_le _) (by rw [hc]; exact h)
    simp only [Int.natCast_zero, List.drop_zero] at this
    rw [this]
  · have h' : n > 16 := by omega
    rw [if_pos h', if_neg h]

theorem prfsubtle_Validate_eq (k : Nat) : (PrfSubtle.ValidateAESCMACPRFParams k).isSome = decide (k = 32) := by
  simp only [PrfSubtle.ValidateAESCMACPRFParams]
  by_cases h : k = 32
  · simp [h]
  · simp [h]

/-- non-vacuity: a 16-byte valued `cmac` exists -/
example : ∀ x : Bytes, ((fun _ => Bytes.zeros 16) x).length = 16 := by intro x; simp

section AxiomAudit
#print axioms prfsubtle_ComputePRF_eq
#print axioms prfsubtle_Validate_eq
end AxiomAudit

end TinkVerif.GlueTie
