import TinkVerif.Gen.GlueSlh
import TinkVerif.Lemmas.GlueSem

/-!
# C16 — the ADRS layout of `internal/signature/slhdsa/address.go`, regenerated and tied to FIPS 205

`TinkVerif.Gen.GlueSlh` is regenerated from /repo on every run (gluetr): the eleven methods of
`*address` (`address = [32]byte`) as functions on the 32-byte content.  This file proves, for **every**
32-byte address and every argument, that each setter is exactly the field store of FIPS 205 §4.2–4.3
(Table 1: `ADRS[off : off+w] ← toByte(v, w)`), that the getters read the field back, that stores to
different fields do not disturb each other, and that `compress` is the 22-byte ADRSᶜ of §11.2
(`ADRS[3] ‖ ADRS[8:16] ‖ ADRS[19] ‖ ADRS[20:32]`).

A change of an offset, a width, the byte order, a forgotten clear in `setTypeAndClear`, or a different
selection in `compress` changes the regenerated definitions and breaks these theorems.
-/

namespace TinkVerif.GlueTie.SlhAdrs
open TinkVerif TinkVerif.Gen.GlueSlh.SlhGo

/-- FIPS 205: `ADRS[off : off+w] ← toByte(v, w)` on a byte string. -/
def put (a : Bytes) (off w v : Nat) : Bytes := a.take off ++ Bytes.ofNatBE w v ++ a.drop (off + w)

/-- FIPS 205: `toInt(ADRS[off : off+w])`. -/
def get (a : Bytes) (off w : Nat) : Nat := Bytes.toNatBE ((a.drop off).take w)

theorem put_length (a : Bytes) (off w v : Nat) (h : off + w ≤ a.length) : (put a off w v).length = a.length := by
  simp [put, Bytes.length_ofNatBE]; omega

theorem get_put (a : Bytes) (off w v : Nat) (h : off + w ≤ a.length) : get (put a off w v) off w = v % 256 ^ w := by
  have h1 : (a.take off).length = off := by simp; omega
  unfold get put
  rw [List.append_assoc, List.drop_left' h1]
  rw [List.take_left' (Bytes.length_ofNatBE w v)]
  exact Bytes.toNatBE_ofNatBE w v

/-- a store does not change what lies entirely before it -/
theorem take_put (a : Bytes) (off w v k : Nat) (hk : k ≤ off) (h : off + w ≤ a.length) :
    (put a off w v).take k = a.take k := by
  unfold put
  rw [List.append_assoc, List.take_append_of_le_length (by simp; omega), List.take_take]
  congr 1; omega

/-- a store does not change what lies entirely after it -/
theorem drop_put (a : Bytes) (off w v k : Nat) (hk : off + w ≤ k) (h : off + w ≤ a.length) :
    (put a off w v).drop k = a.drop k := by
  have h1 : (a.take off ++ Bytes.ofNatBE w v).length = off + w := by simp [Bytes.length_ofNatBE]; omega
  unfold put
  obtain ⟨d, rfl⟩ : ∃ d, k = (off + w) + d := ⟨k - (off + w), by omega⟩
  rw [← List.drop_drop, List.drop_left' h1, List.drop_drop]

theorem get_put_after (a : Bytes) (off w v o2 w2 : Nat) (hk : off + w ≤ o2) (h : off + w ≤ a.length) :
    get (put a off w v) o2 w2 = get a o2 w2 := by
  unfold get; rw [drop_put a off w v o2 hk h]

theorem get_put_before (a : Bytes) (off w v o2 w2 : Nat) (hk : o2 + w2 ≤ off) (h : off + w ≤ a.length) :
    get (put a off w v) o2 w2 = get a o2 w2 := by
  unfold get
  have e : ∀ b : Bytes, (b.drop o2).take w2 = (b.take (o2 + w2)).drop o2 := by
    intro b; rw [List.drop_take]; congr 1; omega
  rw [e, e, take_put a off w v (o2 + w2) hk h]

/-! ## the regenerated setters are FIPS 205 field stores -/

private theorem putBE_eq (w : Nat) (r : Bytes) (lo hi : Int) (n : Nat) (v : Nat) (hlo : lo = (n : Int))
    (hhi : hi = ((n + w : Nat) : Int)) (h : n + w ≤ r.length) :
    GoSem.putBE w r lo hi v = put r n w v := by
  subst hlo hhi
  unfold GoSem.putBE put GoSem.len
  rw [if_pos]
  · simp
  · simp only [Int.ofNat_eq_natCast]
    refine ⟨by omega, by omega, by omega⟩

theorem setLayerAddress_eq (r : Bytes) (h : r.length = 32) (l : Nat) : setLayerAddress r l = put r 0 4 l := by
  unfold setLayerAddress setLayerAddress.v1
  exact putBE_eq 4 r _ _ 0 l (by decide) (by decide) (by omega)

theorem setKeyPairAddress_eq (r : Bytes) (h : r.length = 32) (i : Nat) : setKeyPairAddress r i = put r 20 4 i := by
  unfold setKeyPairAddress setKeyPairAddress.v1
  exact putBE_eq 4 r _ _ 20 i (by decide) (by decide) (by omega)

theorem setChainAddress_eq (r : Bytes) (h : r.length = 32) (i : Nat) : setChainAddress r i = put r 24 4 i := by
  unfold setChainAddress setChainAddress.v1
  exact putBE_eq 4 r _ _ 24 i (by decide) (by decide) (by omega)

theorem setTreeHeight_eq (r : Bytes) (h : r.length = 32) (i : Nat) : setTreeHeight r i = put r 24 4 i := by
  unfold setTreeHeight setTreeHeight.v1
  exact putBE_eq 4 r _ _ 24 i (by decide) (by decide) (by omega)

theorem setHashAddress_eq (r : Bytes) (h : r.length = 32) (i : Nat) : setHashAddress r i = put r 28 4 i := by
  unfold setHashAddress setHashAddress.v1
  exact putBE_eq 4 r _ _ 28 i (by decide) (by decide) (by omega)

theorem setTreeIndex_eq (r : Bytes) (h : r.length = 32) (i : Nat) : setTreeIndex r i = put r 28 4 i := by
  unfold setTreeIndex setTreeIndex.v1
  exact putBE_eq 4 r _ _ 28 i (by decide) (by decide) (by omega)

/-- `setTreeAddress`: bytes 4..8 cleared, bytes 8..16 = the 64-bit tree index (the Go code supports 64 of the 96 bits). -/
theorem setTreeAddress_eq (r : Bytes) (h : r.length = 32) (t : Nat) :
    setTreeAddress r t = put (put r 4 4 0) 8 8 t := by
  unfold setTreeAddress setTreeAddress.v2 setTreeAddress.v1
  rw [putBE_eq 4 r _ _ 4 0 (by decide) (by decide) (by omega)]
  exact putBE_eq 8 _ _ _ 8 t (by decide) (by decide) (by rw [put_length _ _ _ _ (by omega)]; omega)

/-- `setTypeAndClear`: the type word is stored and all twelve type-specific bytes are cleared. -/
theorem setTypeAndClear_eq (r : Bytes) (h : r.length = 32) (y : Nat) :
    setTypeAndClear r y = put (put (put (put r 16 4 y) 20 4 0) 24 4 0) 28 4 0 := by
  have l1 : (put r 16 4 y).length = 32 := by rw [put_length _ _ _ _ (by omega)]; exact h
  have l2 : (put (put r 16 4 y) 20 4 0).length = 32 := by rw [put_length _ _ _ _ (by omega)]; exact l1
  have l3 : (put (put (put r 16 4 y) 20 4 0) 24 4 0).length = 32 := by rw [put_length _ _ _ _ (by omega)]; exact l2
  unfold setTypeAndClear setTypeAndClear.v4 setTypeAndClear.v3 setTypeAndClear.v2 setTypeAndClear.v1
  rw [putBE_eq 4 r _ _ 16 y (by decide) (by decide) (by omega),
    putBE_eq 4 (put r 16 4 y) _ _ 20 0 (by decide) (by decide) (by omega),
    putBE_eq 4 (put (put r 16 4 y) 20 4 0) _ _ 24 0 (by decide) (by decide) (by omega),
    putBE_eq 4 (put (put (put r 16 4 y) 20 4 0) 24 4 0) _ _ 28 0 (by decide) (by decide) (by omega)]

/-! ## getters -/

private theorem slice_eq (r : Bytes) (lo hi : Int) (a b : Nat) (hlo : lo = (a : Int)) (hhi : hi = (b : Int))
    (h1 : a ≤ b) (h2 : b ≤ r.length) : GoSem.slice r lo hi = (r.drop a).take (b - a) := by
  subst hlo hhi
  rw [GoSem.slice_nat r a b h1 h2, List.drop_take]

private theorem getBE_slice (r : Bytes) (lo hi : Int) (a w : Nat) (hlo : lo = (a : Int)) (hhi : hi = ((a + w : Nat) : Int))
    (h : a + w ≤ r.length) : GoSem.getBE w (GoSem.slice r lo hi) = get r a w := by
  rw [slice_eq r lo hi a (a + w) hlo hhi (by omega) h]
  unfold GoSem.getBE get
  have : a + w - a = w := by omega
  rw [this, List.take_take]; simp

theorem keyPairAddress_eq (r : Bytes) (h : r.length = 32) : keyPairAddress r = get r 20 4 := by
  unfold keyPairAddress; exact getBE_slice r _ _ 20 4 (by decide) (by decide) (by omega)

theorem treeIndex_eq (r : Bytes) (h : r.length = 32) : treeIndex r = get r 28 4 := by
  unfold treeIndex; exact getBE_slice r _ _ 28 4 (by decide) (by decide) (by omega)

/-! ## read-back and non-interference, stated on the regenerated functions -/

theorem setters_preserve_length (r : Bytes) (h : r.length = 32) (v : Nat) :
    (setLayerAddress r v).length = 32 ∧ (setTreeAddress r v).length = 32 ∧ (setTypeAndClear r v).length = 32 ∧
    (setKeyPairAddress r v).length = 32 ∧ (setChainAddress r v).length = 32 ∧ (setTreeHeight r v).length = 32 ∧
    (setHashAddress r v).length = 32 ∧ (setTreeIndex r v).length = 32 := by
  rw [setLayerAddress_eq r h, setTreeAddress_eq r h, setTypeAndClear_eq r h, setKeyPairAddress_eq r h, setChainAddress_eq r h,
    setTreeHeight_eq r h, setHashAddress_eq r h, setTreeIndex_eq r h]
  have p : ∀ (a : Bytes) (off w v : Nat), a.length = 32 → off + w ≤ 32 → (put a off w v).length = 32 := by
    intro a off w v ha hw; rw [put_length a off w v (by omega)]; exact ha
  refine ⟨p _ _ _ _ h (by omega), p _ _ _ _ (p _ _ _ _ h (by omega)) (by omega), ?_, p _ _ _ _ h (by omega), p _ _ _ _ h (by omega),
    p _ _ _ _ h (by omega), p _ _ _ _ h (by omega), p _ _ _ _ h (by omega)⟩
  exact p _ _ _ _ (p _ _ _ _ (p _ _ _ _ (p _ _ _ _ h (by omega)) (by omega)) (by omega)) (by omega)

theorem treeIndex_setTreeIndex (r : Bytes) (h : r.length = 32) (i : Nat) : treeIndex (setTreeIndex r i) = i % 2 ^ 32 := by
  have hl := (setters_preserve_length r h i).2.2.2.2.2.2.2
  rw [treeIndex_eq _ hl, setTreeIndex_eq r h, get_put r 28 4 i (by omega)]

theorem keyPairAddress_setKeyPairAddress (r : Bytes) (h : r.length = 32) (i : Nat) :
    keyPairAddress (setKeyPairAddress r i) = i % 2 ^ 32 := by
  have hl := (setters_preserve_length r h i).2.2.2.1
  rw [keyPairAddress_eq _ hl, setKeyPairAddress_eq r h, get_put r 20 4 i (by omega)]

/-- the key-pair address survives every later store to the chain / height / hash / index words (WOTS⁺, FORS and XMSS
    rely on it: `setKeyPairAddress` once, then many `setChainAddress` / `setHashAddress` / `setTreeIndex`) -/
theorem keyPairAddress_stable (r : Bytes) (h : r.length = 32) (v : Nat) :
    keyPairAddress (setChainAddress r v) = keyPairAddress r ∧ keyPairAddress (setTreeHeight r v) = keyPairAddress r ∧
    keyPairAddress (setHashAddress r v) = keyPairAddress r ∧ keyPairAddress (setTreeIndex r v) = keyPairAddress r := by
  obtain ⟨_, _, _, _, h5, h6, h7, h8⟩ := setters_preserve_length r h v
  rw [keyPairAddress_eq _ h5, keyPairAddress_eq _ h6, keyPairAddress_eq _ h7, keyPairAddress_eq _ h8, keyPairAddress_eq r h,
    setChainAddress_eq r h, setTreeHeight_eq r h, setHashAddress_eq r h, setTreeIndex_eq r h]
  exact ⟨get_put_before r 24 4 v 20 4 (by omega) (by omega), get_put_before r 24 4 v 20 4 (by omega) (by omega),
    get_put_before r 28 4 v 20 4 (by omega) (by omega), get_put_before r 28 4 v 20 4 (by omega) (by omega)⟩

/-- after `setTypeAndClear` the key pair address and the tree index read 0, and the type word reads `y` -/
theorem setTypeAndClear_reads (r : Bytes) (h : r.length = 32) (y : Nat) :
    keyPairAddress (setTypeAndClear r y) = 0 ∧ treeIndex (setTypeAndClear r y) = 0 ∧
    get (setTypeAndClear r y) 16 4 = y % 2 ^ 32 ∧ get (setTypeAndClear r y) 24 4 = 0 := by
  have hl := (setters_preserve_length r h y).2.2.1
  rw [keyPairAddress_eq _ hl, treeIndex_eq _ hl, setTypeAndClear_eq r h]
  have l1 : (put r 16 4 y).length = 32 := by rw [put_length _ _ _ _ (by omega)]; exact h
  have l2 : (put (put r 16 4 y) 20 4 0).length = 32 := by rw [put_length _ _ _ _ (by omega)]; exact l1
  have l3 : (put (put (put r 16 4 y) 20 4 0) 24 4 0).length = 32 := by rw [put_length _ _ _ _ (by omega)]; exact l2
  refine ⟨?_, ?_, ?_, ?_⟩
  · rw [get_put_before _ 28 4 0 20 4 (by omega) (by omega), get_put_before _ 24 4 0 20 4 (by omega) (by omega),
      get_put _ 20 4 0 (by omega)]
  · rw [get_put _ 28 4 0 (by omega)]
  · rw [get_put_before _ 28 4 0 16 4 (by omega) (by omega), get_put_before _ 24 4 0 16 4 (by omega) (by omega),
      get_put_before _ 20 4 0 16 4 (by omega) (by omega), get_put _ 16 4 y (by omega)]
  · rw [get_put_before _ 28 4 0 24 4 (by omega) (by omega), get_put _ 24 4 0 (by omega)]

/-! ## ADRSᶜ (FIPS 205 §11.2) -/

theorem compress_eq (r : Bytes) (h : r.length = 32) :
    compress r = (r.drop 3).take 1 ++ (r.drop 8).take 8 ++ (r.drop 19).take 1 ++ (r.drop 20).take 12 := by
  unfold compress
  rw [slice_eq r _ _ 3 4 (by decide) (by decide) (by omega) (by omega),
    slice_eq r _ _ 8 16 (by decide) (by decide) (by omega) (by omega),
    slice_eq r _ _ 19 32 (by decide) (by decide) (by omega) (by omega)]
  have split : (r.drop 19).take (32 - 19) = (r.drop 19).take 1 ++ (r.drop 20).take 12 := by
    have : (r.drop 19).take 13 = (r.drop 19).take 1 ++ ((r.drop 19).drop 1).take 12 := by
      rw [← List.take_append_drop 1 ((r.drop 19).take 13)]
      congr 1
      · rw [List.take_take]; rfl
      · rw [List.drop_take]
    rw [show 32 - 19 = 13 from rfl, this, List.drop_drop]
  rw [split]; simp [List.append_assoc]

theorem compress_length (r : Bytes) (h : r.length = 32) : (compress r).length = 22 := by
  rw [compress_eq r h]; simp; omega

/-! ## non-vacuity: a concrete address through the regenerated code -/

example : treeIndex (setTreeIndex (setKeyPairAddress (setTypeAndClear (List.replicate 32 7) 3) 0x01020304) 0xAABBCCDD) = 0xAABBCCDD := by
  decide +kernel
example : compress (setLayerAddress (setTreeAddress (List.replicate 32 0) 0x0102030405060708) 9)
    = [9, 1, 2, 3, 4, 5, 6, 7, 8, 0, 0, 0, 0, 0, 0, 0, 0, 0, 0, 0, 0, 0] := by
  decide +kernel

end TinkVerif.GlueTie.SlhAdrs

section AxiomAudit
#print axioms TinkVerif.GlueTie.SlhAdrs.get_put
#print axioms TinkVerif.GlueTie.SlhAdrs.get_put_after
#print axioms TinkVerif.GlueTie.SlhAdrs.get_put_before
#print axioms TinkVerif.GlueTie.SlhAdrs.setLayerAddress_eq
#print axioms TinkVerif.GlueTie.SlhAdrs.setTreeAddress_eq
#print axioms TinkVerif.GlueTie.SlhAdrs.setTypeAndClear_eq
#print axioms TinkVerif.GlueTie.SlhAdrs.setKeyPairAddress_eq
#print axioms TinkVerif.GlueTie.SlhAdrs.setChainAddress_eq
#print axioms TinkVerif.GlueTie.SlhAdrs.setTreeHeight_eq
#print axioms TinkVerif.GlueTie.SlhAdrs.setHashAddress_eq
#print axioms TinkVerif.GlueTie.SlhAdrs.setTreeIndex_eq
#print axioms TinkVerif.GlueTie.SlhAdrs.keyPairAddress_eq
#print axioms TinkVerif.GlueTie.SlhAdrs.treeIndex_eq
#print axioms TinkVerif.GlueTie.SlhAdrs.setters_preserve_length
#print axioms TinkVerif.GlueTie.SlhAdrs.treeIndex_setTreeIndex
#print axioms TinkVerif.GlueTie.SlhAdrs.keyPairAddress_setKeyPairAddress
#print axioms TinkVerif.GlueTie.SlhAdrs.keyPairAddress_stable
#print axioms TinkVerif.GlueTie.SlhAdrs.setTypeAndClear_reads
#print axioms TinkVerif.GlueTie.SlhAdrs.compress_eq
#print axioms TinkVerif.GlueTie.SlhAdrs.compress_length
end AxiomAudit
