import TinkVerif.Lemmas.GlueSem
import TinkVerif.Gen.GlueRand
import TinkVerif.Model.Rand
/-
  Tie: the functions through which tink-go draws randomness, regenerated from /repo by go/harness/gluetr
  (Gen/GlueRand.lean), deliver EXACTLY the bytes the source hands out, all of them, in order, for every length:

  * internal/random/random.go   `MustRand`          (whole function)  b := the next len(b) bytes
  * subtle/random/random.go     `GetRandomBytes`    (whole function)  the next n bytes
                                `GetRandomUint32`   (whole function)  the next 4 bytes, big endian (`Rand.wordAt`)
  * secretdata/secretdata.go    `NewBytesFromRand`  (whole function)  the next `size` bytes

  Abstracted as a parameter: `rand n` = the bytes `crypto/rand.Read` writes into an n-byte buffer (in the tape model
  of Model/Rand.lean: `Rand.seg t off n`, the window of the tape at the current offset).  Each of these functions makes
  exactly ONE draw; the translator refuses a function that draws several times or in a loop under this abstraction
  (chunked reads, as in a "read at most 64 KiB at a time" rewrite, are therefore reported as a broken tie).
  `rand.Read` is assumed not to fail (Go ≥ 1.24 never returns an error from it).
-/
namespace TinkVerif.GlueTie
open TinkVerif TinkVerif.GoSem
open TinkVerif.Gen.GlueRand

private theorem fill_all (b src : Bytes) (h : src.length = b.length) :
    copyInto b 0 (len b) src = src := copyInto_all b src h

theorem rand_MustRand_eq (rand : Int → Bytes) (b : Bytes) (h : (rand (b.length : Int)).length = b.length) :
    RandomInt.MustRand rand b = rand (b.length : Int) := by
  simp only [RandomInt.MustRand, RandomInt.MustRand.v1, len_eq, Int.sub_zero]
  exact fill_all b _ h

theorem rand_GetRandomBytes_eq (rand : Int → Bytes) (n : Nat) (h : (rand (n : Int)).length = n) :
    RandomSubtle.GetRandomBytes rand n = rand (n : Int) := by
  simp only [RandomSubtle.GetRandomBytes, RandomSubtle.GetRandomBytes.v2, RandomSubtle.GetRandomBytes.v1,
    Int.ofNat_eq_natCast, makeBytes_natCast, len_eq, Int.sub_zero]
  have hz : (Bytes.zeros n).length = n := by simp [Bytes.zeros]
  rw [hz]
  have := fill_all (Bytes.zeros n) (rand (n : Int)) (by rw [h, hz])
  simpa only [len_eq, hz] using this

theorem rand_GetRandomUint32_eq (rand : Int → Bytes) (h : (rand 4).length = 4) :
    RandomSubtle.GetRandomUint32 rand = Bytes.toNatBE (rand 4) := by
  simp only [RandomSubtle.GetRandomUint32, RandomSubtle.GetRandomUint32.v2, RandomSubtle.GetRandomUint32.v1]
  have hz : makeBytes 4 = Bytes.zeros 4 := makeBytes_natCast 4
  have hl : (Bytes.zeros 4).length = 4 := by simp [Bytes.zeros]
  rw [hz]
  simp only [len_eq, hl, Int.sub_zero]
  have e4 : ((4 : Nat) : Int) = (4 : Int) := rfl
  have := fill_all (Bytes.zeros 4) (rand 4) (by rw [h, hl])
  simp only [len_eq, hl] at this
  simp only [e4] at this ⊢
  rw [this, getBE, List.take_of_length_le (by omega)]

theorem rand_NewBytesFromRand_eq (rand : Int → Bytes) (size : Nat) (h : (rand (size : Int)).length = size) :
    Secretdata.NewBytesFromRand rand size = some (rand (size : Int)) := by
  simp only [Secretdata.NewBytesFromRand, Secretdata.NewBytesFromRand.v2, Secretdata.NewBytesFromRand.v1,
    Int.ofNat_eq_natCast, makeBytes_natCast, len_eq, Int.sub_zero]
  have hz : (Bytes.zeros size).length = size := by simp [Bytes.zeros]
  rw [hz]
  have := fill_all (Bytes.zeros size) (rand (size : Int)) (by rw [h, hz])
  simp only [len_eq, hz] at this
  rw [this]

/-- in the tape model: the draw of `n` bytes at tape offset `off` -/
def tapeRand (t : Rand.Tape) (off : Nat) (n : Int) : Bytes := Rand.seg t off n.toNat

theorem tapeRand_length (t : Rand.Tape) (off n : Nat) : (tapeRand t off (n : Int)).length = n := by
  simp [tapeRand, Rand.seg]

/-- `NewBytesFromRand(size)` is the next `size` tape bytes, byte for byte, whatever the size -/
theorem rand_NewBytesFromRand_tape (t : Rand.Tape) (off size : Nat) :
    Secretdata.NewBytesFromRand (tapeRand t off) size = some (Rand.seg t off size) := by
  rw [rand_NewBytesFromRand_eq _ _ (tapeRand_length t off size)]
  simp [tapeRand]

/-- `GetRandomUint32()` is `Rand.wordAt`: four tape bytes, big endian -/
theorem rand_GetRandomUint32_tape (t : Rand.Tape) (off : Nat) :
    RandomSubtle.GetRandomUint32 (tapeRand t off) = Rand.wordAt t off := by
  rw [rand_GetRandomUint32_eq _ (tapeRand_length t off 4)]
  simp [tapeRand, Rand.wordAt]

theorem rand_GetRandomBytes_tape (t : Rand.Tape) (off n : Nat) :
    RandomSubtle.GetRandomBytes (tapeRand t off) n = Rand.seg t off n := by
  rw [rand_GetRandomBytes_eq _ _ (tapeRand_length t off n)]
  simp [tapeRand]

example : (tapeRand (fun i => UInt8.ofNat i) 3 (5 : Nat)).length = 5 := tapeRand_length _ 3 5

section AxiomAudit
#print axioms rand_MustRand_eq
#print axioms rand_GetRandomBytes_eq
#print axioms rand_GetRandomUint32_eq
#print axioms rand_NewBytesFromRand_eq
#print axioms rand_NewBytesFromRand_tape
#print axioms rand_GetRandomUint32_tape
#print axioms rand_GetRandomBytes_tape
end AxiomAudit

end TinkVerif.GlueTie
