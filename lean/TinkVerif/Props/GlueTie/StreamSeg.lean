import TinkVerif.Lemmas.GlueSemSteps
import TinkVerif.Gen.GlueStreamSeg
import TinkVerif.Model.Stream
/-
  Tie: the whole methods `(*Writer).Write`, `(*Writer).Close`, `(*Reader).Read` and the helper
  `generateSegmentNonce` of /repo/streamingaead/subtle/noncebased/noncebased.go, machine-translated into
  Gen/GlueStreamSeg.lean (namespace `NoncebasedSeg`, "stateful mode"), equal the hand model Model/Stream.lean
  (`Stream.segmentNonce`, `Stream.close`, `Stream.read`, `Stream.write`) for ALL inputs: every segment size, offset,
  buffer content, caller buffer / write size, counter value, sink fault position and source content.

  Theorems
  * A `seg_generateSegmentNonce_eq`, `seg_generateSegmentNonce_limit`
  * B `seg_Close_eq`            all 5 returns of `Close` (closed, ErrTooManySegments, [cipher error: excluded by `EncOK`],
                                sink error, success)
  * C `seg_Read_eq`             all returns of `Read` = `seg_Read_buffered` (plaintext buffered), `seg_Read_eof`
                                (`io.EOF`), `seg_Read_fetch` (non-EOF source error; full read = middle segment + carry
                                byte; short read = last segment; ErrTooManySegments; decrypter error);
      `seg_Read_too_short`      the one return outside `seg_Read_eq` (`ErrCiphertextSegmentTooShort`): only reachable with
                                `FirstCiphertextSegmentOffset = CiphertextSegmentSize + 1`; there model and code differ
  * D `seg_Write_step`          one loop iteration in terms of `Stream.lim`; `feed_step` its mirror on the byte-wise model
      `seg_Write_eq`            the whole `Write` (closed writer; loop with break / 3 early returns) for every
                                `fuel ≥ len p + 2`, needs `0 < PlaintextSegmentSize`; `seg_Write_no_progress` shows why

  Abstractions
  * writer state: `s.buf = w.plaintext[:plaintextPos]`, `s.cnt = encryptedSegmentCnt`, `s.closed = closed` (`wAbs`);
    Go sets `plaintextPos = 0` without clearing the buffer, which `buf = plaintext.take plaintextPos` absorbs;
    `w.ciphertext` is scratch space (never read: the `WithDst` variant gets `w.ciphertext[:0]`).
  * sink (`w.w`, an io.Writer): state `List Bytes × Nat` (what reached the writer, number of calls), `mSink f`:
    call number `c` fails (count 0, code 1) iff `Stream.sinkFails f c`, else the bytes are appended.
  * reader state (`RAbs`): `r.plaintext[plaintextPos:] = s.pt`, `decryptedSegmentCnt = s.cnt`,
    `lastSegmentDecrypted = s.lastDone`, `len r.ciphertext = ptSeg + overhead + 1`,
    `r.ciphertext[:ciphertextPos] = carryBytes s.carry`.
  * source (`r.r` under `io.ReadFull`): state `Bytes` (what is still unread), `mReadFull errAtEnd`:
    `n` bytes wanted ↦ (`src.take n`, code, `src.drop n`), code 0 if `n` bytes were there, else 7 (some non-EOF
    error) if `errAtEnd`, else 2 (`io.EOF`, nothing read) / 3 (`io.ErrUnexpectedEOF`, something read).
  * segment cipher: `EncOK` / `DecOK`: for the nonce `Stream.segmentNonce nonceSize prefix i last` the Go
    callbacks (both the plain and the `WithDst` variants) return `(C.enc i last seg, 0)`, resp.
    `(x, 0)` / `([], 1)` for `C.dec i last seg = some x` / `none` (a failing decrypter returns no plaintext —
    `Read` stores whatever it returns in `r.plaintext`).
  * error codes: 0 = nil, 1 = error made in the function or by a callee (`ErrTooManySegments`, cipher, sink,
    "write on closed writer"), 2 = io.EOF, 3 = io.ErrUnexpectedEOF, 4 = ErrCiphertextSegmentTooShort, 7 = source error.
  * sizes: `len(noncePrefix) + 5 ≤ nonceSize` (checked by NewWriter / NewReader), all lengths < 2⁶³.
-/
namespace TinkVerif.GlueTie
open TinkVerif TinkVerif.GoSem
open TinkVerif.Gen.GlueStreamSeg

/-! ## A. generateSegmentNonce -/

theorem seg_generateSegmentNonce_eq (size : Nat) (pre : Bytes) (i : Nat) (last : Bool)
    (hsize : pre.length + 5 ≤ size) (hmax : size < 9223372036854775808) :
    NoncebasedSeg.generateSegmentNonce (size : Int) pre i last = Stream.segmentNonce size pre i last := by
  unfold NoncebasedSeg.generateSegmentNonce Stream.segmentNonce
  by_cases hi : i ≥ 4294967295
  · simp [hi]
  · simp only [hi, ↓reduceIte]
    congr 1
    have hoff : NoncebasedSeg.generateSegmentNonce.v5 (size : Int) pre i last = ((pre.length + 4 : Nat) : Int) := by
      simp only [NoncebasedSeg.generateSegmentNonce.v5, NoncebasedSeg.generateSegmentNonce.v3, len_eq]
      rw [i64_eq (by omega) (by omega)]; omega
    have h2 : NoncebasedSeg.generateSegmentNonce.v2 (size : Int) pre i last = pre ++ Bytes.zeros (size - pre.length) := by
      simp only [NoncebasedSeg.generateSegmentNonce.v2, NoncebasedSeg.generateSegmentNonce.v1, makeBytes_natCast]
      have := copyInto_append [] (Bytes.zeros size) pre 0 (len (Bytes.zeros size)) (by simp) (by simp)
      simp only [List.nil_append] at this
      rw [this]; simp [List.take_of_length_le (show pre.length ≤ size by omega)]
    have him : i % 4294967296 = i := Nat.mod_eq_of_lt (by omega)
    have h3 : NoncebasedSeg.generateSegmentNonce.v4 (size : Int) pre i last
        = (pre ++ Bytes.be32 i) ++ Bytes.zeros (size - pre.length - 4) := by
      simp only [NoncebasedSeg.generateSegmentNonce.v4, NoncebasedSeg.generateSegmentNonce.v3, h2, him]
      rw [putBE_append 4 pre _ _ _ i (by simp) (by simp; omega) (by simp)]
      simp [Bytes.be32]
    have h4 : NoncebasedSeg.generateSegmentNonce.v6 (size : Int) pre i last
        = (pre ++ Bytes.be32 i) ++ 1 :: Bytes.zeros (size - pre.length - 5) := by
      simp only [NoncebasedSeg.generateSegmentNonce.v6, hoff, h3]
      rw [setAt_append _ _ _ _ (by simp [Bytes.be32]) (by simp; omega)]
      simp only [drop_zeros, Nat.sub_sub]
    simp only [NoncebasedSeg.generateSegmentNonce.v7, h3, h4]
    clear hoff h2 h3 h4
    cases last <;> simp [Bytes.be32]
    · have e : size - pre.length - 4 = (size - (pre.length + 5)) + 1 := by omega
      rw [e, zeros_succ]
    · rw [Nat.sub_sub]

/-- the counter limit: segment numbers from 2³²−1 on are refused, whatever the buffer size -/
theorem seg_generateSegmentNonce_limit (size : Int) (pre : Bytes) (i : Nat) (last : Bool) (h : 4294967295 ≤ i) :
    NoncebasedSeg.generateSegmentNonce size pre i last = none := by
  simp [NoncebasedSeg.generateSegmentNonce, h]

/-- below the limit the nonce exists -/
theorem segmentNonce_some (size : Nat) (pre : Bytes) (i : Nat) (last : Bool) (h : i < 4294967295) :
    ∃ nonce, Stream.segmentNonce size pre i last = some nonce := by
  unfold Stream.segmentNonce
  rw [if_neg (by omega)]
  exact ⟨_, rfl⟩

/-! ## Abstractions shared by B, C, D -/

/-- the model sink as an `io.Writer`: state = (chunks that reached the writer, number of calls) -/
def mSink (f : Stream.Fault) (st : List Bytes × Nat) (x : Bytes) : Int × Nat × (List Bytes × Nat) :=
  if Stream.sinkFails f st.2 then (0, 1, (st.1, st.2 + 1)) else ((x.length : Int), 0, (st.1 ++ [x], st.2 + 1))

/-- the Go segment encrypter callbacks implement the abstract cipher `C` under the model nonces -/
structure EncOK (nonceSize : Nat) (pre : Bytes) (C : Stream.Cipher)
    (enc : Bytes → Bytes → Bytes × Nat) (encDst : Bytes → Bytes → Bytes → Bytes × Nat) : Prop where
  enc : ∀ i last seg nonce, Stream.segmentNonce nonceSize pre i last = some nonce →
    enc seg nonce = (C.enc i last seg, 0)
  encDst : ∀ dst i last seg nonce, Stream.segmentNonce nonceSize pre i last = some nonce →
    encDst dst seg nonce = (C.enc i last seg, 0)

/-- error code of a writer error (all writer errors are made in the function or by a callee: code 1) -/
def wCode : Option Stream.WErr → Nat
  | none => 0
  | some _ => 1

/-- the writer fields as a model state -/
def wAbs (pt : Bytes) (pos : Nat) (cnt : Nat) (closed : Bool) (w : List Bytes × Nat) : Stream.WState :=
  { buf := pt.take pos, cnt := cnt, closed := closed, sink := w.1, sinkCalls := w.2 }

/-! ## B. (*Writer).Close -/

/-- `w.ciphertext` after `Close`: untouched if nothing was encrypted, else the last segment -/
def closeCt (C : Stream.Cipher) (closed : Bool) (cnt : Nat) (ct seg : Bytes) : Bytes :=
  if closed = true ∨ cnt ≥ 4294967295 then ct else C.enc cnt true seg

theorem seg_Close_eq (C : Stream.Cipher) (f : Stream.Fault)
    (enc : Bytes → Bytes → Bytes × Nat) (encDst : Bytes → Bytes → Bytes → Bytes × Nat)
    (nonceSize : Nat) (pre : Bytes) (closed : Bool) (cnt : Nat) (useDst : Bool) (ct pt : Bytes) (pos : Nat)
    (w : List Bytes × Nat)
    (hC : EncOK nonceSize pre C enc encDst)
    (hsize : pre.length + 5 ≤ nonceSize) (hmax : nonceSize < 9223372036854775808)
    (hpos : pos ≤ pt.length) :
    NoncebasedSeg.Close (List Bytes × Nat) (mSink f) encDst enc closed (nonceSize : Int) pre cnt useDst ct pt
        (pos : Int) w
      = ((Stream.close C f (wAbs pt pos cnt closed w)).1.closed,
         (Stream.close C f (wAbs pt pos cnt closed w)).1.cnt,
         closeCt C closed cnt ct (pt.take pos),
         (((Stream.close C f (wAbs pt pos cnt closed w)).1.buf.length : Nat) : Int),
         ((Stream.close C f (wAbs pt pos cnt closed w)).1.sink, (Stream.close C f (wAbs pt pos cnt closed w)).1.sinkCalls),
         wCode (Stream.close C f (wAbs pt pos cnt closed w)).2) := by
  obtain ⟨l, calls⟩ := w
  have hlen : (pt.take pos).length = pos := by simp [List.length_take]; omega
  unfold NoncebasedSeg.Close
  by_cases hcl : closed = true
  · subst hcl
    simp [Stream.close, wAbs, closeCt, wCode, hlen]
  · have hcl' : closed = false := by cases closed <;> simp_all
    subst hcl'
    simp only [Bool.false_eq_true, ↓reduceIte]
    by_cases hi : cnt ≥ 4294967295
    · have hn : NoncebasedSeg.Close.v1 (List Bytes × Nat) (mSink f) encDst enc false
          (nonceSize : Int) pre cnt useDst ct pt (pos : Int) (l, calls) = none := by
        simp only [NoncebasedSeg.Close.v1]
        exact seg_generateSegmentNonce_limit _ _ _ _ hi
      simp [NoncebasedSeg.Close.v3, hn, Stream.close, Stream.flush, Stream.flushFailState, wAbs, closeCt, wCode, hi, hlen]
    · obtain ⟨nonce, hnonce⟩ := segmentNonce_some nonceSize pre cnt true (by omega)
      have hn : NoncebasedSeg.Close.v1 (List Bytes × Nat) (mSink f) encDst enc false
          (nonceSize : Int) pre cnt useDst ct pt (pos : Int) (l, calls) = some nonce := by
        simp only [NoncebasedSeg.Close.v1]
        rw [seg_generateSegmentNonce_eq _ _ _ _ hsize hmax, hnonce]
      have hsl : slice pt 0 (pos : Int) = pt.take pos := slice_prefix pt pos hpos
      have hct3 : NoncebasedSeg.Close.v10 (List Bytes × Nat) (mSink f) encDst enc false
          (nonceSize : Int) pre cnt useDst ct pt (pos : Int) (l, calls) = C.enc cnt true (pt.take pos) := by
        simp only [NoncebasedSeg.Close.v10, NoncebasedSeg.Close.v5, NoncebasedSeg.Close.v8,
          NoncebasedSeg.Close.v4, NoncebasedSeg.Close.v7, NoncebasedSeg.Close.v2,
          hn, Option.getD_some, hsl, hC.enc _ _ _ _ hnonce, hC.encDst _ _ _ _ _ hnonce]
        cases useDst <;> simp
      have herr4 : NoncebasedSeg.Close.v11 (List Bytes × Nat) (mSink f) encDst enc false
          (nonceSize : Int) pre cnt useDst ct pt (pos : Int) (l, calls) = 0 := by
        simp only [NoncebasedSeg.Close.v11, NoncebasedSeg.Close.v6, NoncebasedSeg.Close.v9,
          NoncebasedSeg.Close.v4, NoncebasedSeg.Close.v7, NoncebasedSeg.Close.v2,
          hn, Option.getD_some, hsl, hC.enc _ _ _ _ hnonce, hC.encDst _ _ _ _ _ hnonce]
        cases useDst <;> simp
      have herr : NoncebasedSeg.Close.v3 (List Bytes × Nat) (mSink f) encDst enc false
          (nonceSize : Int) pre cnt useDst ct pt (pos : Int) (l, calls) = 0 := by
        simp [NoncebasedSeg.Close.v3, hn]
      have hcw : (cnt + 1) % 18446744073709551616 = cnt + 1 := Nat.mod_eq_of_lt (by omega)
      simp only [herr, herr4, ne_eq, not_true_eq_false, ↓reduceIte, NoncebasedSeg.Close.v13, NoncebasedSeg.Close.v14,
        NoncebasedSeg.Close.v12, hct3, NoncebasedSeg.Close.v17, NoncebasedSeg.Close.v16,
        NoncebasedSeg.Close.v15, hcw, mSink]
      by_cases hf : Stream.sinkFails f calls = true
      · simp [hf, Stream.close, Stream.flush, Stream.flushFailState, wAbs, closeCt, wCode, hi, hlen]
      · simp [hf, Stream.close, Stream.flush, wAbs, closeCt, wCode, hi]

/-! ## C. (*Reader).Read -/

/-- the model source under `io.ReadFull`: state = unread bytes; `n` = capacity of the destination window -/
def mReadFull (errAtEnd : Bool) (src : Bytes) (n : Int) : Bytes × Nat × Bytes :=
  (src.take n.toNat,
   (if n.toNat ≤ src.length then 0 else if errAtEnd then 7 else if src = [] then 2 else 3),
   src.drop n.toNat)

/-- result of a Go segment decrypter for the model result -/
def decRes : Option Bytes → Bytes × Nat
  | some x => (x, 0)
  | none => ([], 1)

/-- the Go segment decrypter callbacks implement the abstract cipher `C` under the model nonces -/
structure DecOK (nonceSize : Nat) (pre : Bytes) (C : Stream.Cipher)
    (dec : Bytes → Bytes → Bytes × Nat) (decDst : Bytes → Bytes → Bytes → Bytes × Nat) : Prop where
  dec : ∀ i last seg nonce, Stream.segmentNonce nonceSize pre i last = some nonce →
    dec seg nonce = decRes (C.dec i last seg)
  decDst : ∀ dst i last seg nonce, Stream.segmentNonce nonceSize pre i last = some nonce →
    decDst dst seg nonce = decRes (C.dec i last seg)

/-- error codes of the reader errors of the model: `.io` is the source's non-EOF error (7 in `mReadFull`),
    `.tooMany` (ErrTooManySegments) and `.auth` (decrypter error) are code 1 -/
def rCode : Stream.RErr → Nat
  | .io => 7
  | .tooMany => 1
  | .auth => 1

/-- Go reader fields ↔ model state: `plaintext[plaintextPos:] = s.pt`, the ciphertext buffer has
    `CiphertextSegmentSize + 1` bytes, `ciphertext[:ciphertextPos]` is the carry (look-ahead) byte, if any -/
structure RAbs (P : Stream.Params) (s : Stream.RState) (ppos : Nat) (pt ct : Bytes) (cpos : Nat) : Prop where
  ppos_le : ppos ≤ pt.length
  pt_eq : pt.drop ppos = s.pt
  ct_len : ct.length = P.ptSeg + P.overhead + 1
  cpos_eq : cpos = (Stream.carryBytes s.carry).length
  carry_eq : ct.take cpos = Stream.carryBytes s.carry

/-- what the caller sees: `p'` = caller buffer after the call, `n` = count, `code` = error code -/
def ROutRel (out : Stream.ROut) (p p' : Bytes) (n code : Nat) : Prop :=
  match out with
  | .data d => code = 0 ∧ n = d.length ∧ p' = d ++ p.drop d.length
  | .eof => code = 2 ∧ n = 0 ∧ p' = p
  | .err e => code = rCode e ∧ n = 0 ∧ p' = p

/-- the generated `Read` result `out` is the model result `r` seen through the abstraction -/
def ReadTied (P : Stream.Params) (r : Stream.RState × Stream.ROut) (p : Bytes)
    (out : Int × Bytes × Bool × Bytes × Nat × Bytes × Int × Bytes × Int × Nat) : Prop :=
  ∃ (ppos' : Nat) (pt' ct' : Bytes) (cpos' : Nat) (p' : Bytes) (n code : Nat),
    out = ((ppos' : Int), pt', r.1.lastDone, ct', r.1.cnt, r.1.src, (cpos' : Int), p', (n : Int), code)
    ∧ RAbs P r.1 ppos' pt' ct' cpos'
    ∧ ROutRel r.2 p p' n code

theorem copy_out (p x : Bytes) :
    copyInto p 0 (p.length : Int) x = x.take p.length ++ p.drop (x.take p.length).length := by
  have h := copyInto_append [] p x 0 (len p) (by simp) (by simp)
  simp only [List.nil_append, len_eq] at h
  rw [h, List.length_take]
  congr 1
  by_cases hx : x.length ≤ p.length
  · rw [Nat.min_eq_right hx]
  · rw [Nat.min_eq_left (by omega), List.drop_of_length_le (by omega), List.drop_of_length_le (by omega)]

theorem min_len_cast (p x : Bytes) : min ((p.length : Int) - 0) (x.length : Int) = (((x.take p.length).length : Nat) : Int) := by
  rw [List.length_take]; omega

theorem ReadTied.intro (P : Stream.Params) (s' : Stream.RState) (o : Stream.ROut) (p : Bytes)
    (ppos' : Nat) (pt' ct' : Bytes) (cpos' : Nat) (p' : Bytes) (n code : Nat)
    (hA : RAbs P s' ppos' pt' ct' cpos') (hO : ROutRel o p p' n code) :
    ReadTied P (s', o) p ((ppos' : Int), pt', s'.lastDone, ct', s'.cnt, s'.src, (cpos' : Int), p', (n : Int), code) :=
  ⟨_, _, _, _, _, _, _, rfl, hA, hO⟩

/-- the ciphertext buffer after `io.ReadFull` wrote `chunk` behind the carry byte(s) `cb` -/
theorem ct1_facts (cb chunk ct : Bytes) (cpos : Nat) (h4 : cpos = cb.length) (hle : cpos + chunk.length ≤ ct.length) :
    (cb ++ chunk ++ ct.drop (cpos + chunk.length)).length = ct.length
    ∧ (cb ++ chunk ++ ct.drop (cpos + chunk.length)).take cpos = cb
    ∧ (cb ++ chunk ++ ct.drop (cpos + chunk.length)).take (cpos + chunk.length) = cb ++ chunk := by
  subst h4
  refine ⟨?_, ?_, ?_⟩
  · simp only [List.length_append, List.length_drop]; omega
  · rw [List.append_assoc, List.take_left']; rfl
  · rw [List.take_left']; simp

/-- the look-ahead byte: last byte of a full read; the segment is everything before it -/
theorem carry_facts (all rest : Bytes) (n : Nat) (hn : all.length = n + 1) :
    Stream.carryBytes (all.getLast?) = [getAt (all ++ rest) (n : Int)] ∧ (all ++ rest).take n = all.dropLast := by
  constructor
  · rw [getAt_nat, List.getLast?_eq_getElem?, hn, Nat.add_sub_cancel, List.getD_eq_getElem?_getD,
      List.getElem?_append_left (by omega), List.getElem?_eq_getElem (by omega)]
    rfl
  · rw [List.dropLast_eq_take, hn, Nat.add_sub_cancel, List.take_append_of_le_length (by omega)]

theorem drop_take_len (x : Bytes) (k : Nat) : x.drop (x.take k).length = x.drop k := by
  rw [List.length_take]
  by_cases h : x.length ≤ k
  · rw [Nat.min_eq_right h, List.drop_of_length_le (Nat.le_refl _), List.drop_of_length_le h]
  · rw [Nat.min_eq_left (by omega)]

theorem seg3_arith (cpos k lim : Nat) (hk : cpos + k = lim) (h1 : 1 ≤ lim) (h : lim < 9223372036854775808) :
    i64 (i64 ((cpos : Int) + (k : Int)) - 1) = ((lim - 1 : Nat) : Int) := by
  rw [i64_eq (x := (cpos : Int) + (k : Int)) (by omega) (by omega), i64_eq (by omega) (by omega)]; omega

theorem setAt0_facts (b : Bytes) (v : UInt8) (h : 0 < b.length) :
    (setAt b 0 v).length = b.length ∧ (setAt b 0 v).take 1 = [v] := by
  have := setAt_nat b 0 v h
  simp only [Int.natCast_zero, List.take_zero, List.nil_append, Nat.zero_add] at this
  rw [this]
  constructor
  · simp only [List.length_cons, List.length_drop]; omega
  · simp

section ReadTie
variable (P : Stream.Params) (C : Stream.Cipher) (errAtEnd : Bool)
  (dec : Bytes → Bytes → Bytes × Nat) (decDst : Bytes → Bytes → Bytes → Bytes × Nat)
  (nonceSize : Nat) (pre : Bytes) (useDst : Bool)
  (ppos : Nat) (pt : Bytes) (lastDone : Bool) (ct : Bytes) (cnt : Nat) (cpos : Nat) (p src : Bytes)

local notation "R!" fn:max => fn Bytes (mReadFull errAtEnd) decDst dec (ppos : Int) pt lastDone ct cnt (P.off : Int) (cpos : Int) (nonceSize : Int) pre useDst p src

local notation "R0!" fn:max => fn Bytes (mReadFull errAtEnd) decDst dec (ppos : Int) pt false ct cnt (P.off : Int) (cpos : Int) (nonceSize : Int) pre useDst p src

/-- branch 1: plaintext is buffered -/
theorem seg_Read_buffered (spt : Bytes) (carry : Option UInt8)
    (hA : RAbs P ⟨spt, cnt, carry, lastDone, src⟩ ppos pt ct cpos) (hne : spt ≠ [])
    (hpt : pt.length < 9223372036854775808) :
    ReadTied P (Stream.read P C errAtEnd ⟨spt, cnt, carry, lastDone, src⟩ p.length) p (R! NoncebasedSeg.Read) := by
  obtain ⟨h1, h2, h3, h4, h5⟩ := hA
  simp only at h2 h4 h5
  have hlt : ppos < pt.length := by
    rcases Nat.lt_or_ge ppos pt.length with h | h
    · exact h
    · rw [List.drop_of_length_le h] at h2; exact absurd h2.symm hne
  have hsl : slice pt (ppos : Int) (pt.length : Int) = spt := by
    have := slice_suffix pt ppos h1
    rw [len_eq] at this; rw [this, h2]
  have hn : (R! NoncebasedSeg.Read.v2) = (((spt.take p.length).length : Nat) : Int) := by
    simp only [NoncebasedSeg.Read.v2, len_eq, hsl]; exact min_len_cast p spt
  have hsptlen : spt.length = pt.length - ppos := by rw [← h2, List.length_drop]
  have hpp : (R! NoncebasedSeg.Read.v3) = ((ppos + (spt.take p.length).length : Nat) : Int) := by
    simp only [NoncebasedSeg.Read.v3, hn]
    have : (spt.take p.length).length ≤ spt.length := by rw [List.length_take]; omega
    rw [i64_eq (by omega) (by omega)]; omega
  have hp : (R! NoncebasedSeg.Read.v1) = spt.take p.length ++ p.drop (spt.take p.length).length := by
    simp only [NoncebasedSeg.Read.v1, len_eq, hsl]; exact copy_out p spt
  have hcond : (ppos : Int) < len pt := by simp only [len_eq]; omega
  unfold ReadTied
  refine ⟨ppos + (spt.take p.length).length, pt, ct, cpos, spt.take p.length ++ p.drop (spt.take p.length).length,
    (spt.take p.length).length, 0, ?_, ?_, ?_⟩
  · simp only [NoncebasedSeg.Read, hcond, ↓reduceIte, hpp, hp, hn, Stream.read, ne_eq, hne, not_false_eq_true]
  · simp only [Stream.read, ne_eq, hne, not_false_eq_true, ↓reduceIte]
    have hle : (spt.take p.length).length ≤ spt.length := by rw [List.length_take]; omega
    refine ⟨by omega, ?_, h3, h4, h5⟩
    simp only
    rw [← List.drop_drop, h2, List.length_take]
    by_cases hx : spt.length ≤ p.length
    · rw [Nat.min_eq_right hx, List.drop_of_length_le (Nat.le_refl _), List.drop_of_length_le hx]
    · rw [Nat.min_eq_left (by omega)]
  · simp only [Stream.read, ne_eq, hne, not_false_eq_true, ↓reduceIte, ROutRel]
    exact ⟨trivial, trivial, trivial⟩

/-- branch 2: everything was handed out and the last segment has been seen: `io.EOF` -/
theorem seg_Read_eof (carry : Option UInt8)
    (hA : RAbs P ⟨[], cnt, carry, true, src⟩ ppos pt ct cpos) :
    ReadTied P (Stream.read P C errAtEnd ⟨[], cnt, carry, true, src⟩ p.length) p
      (NoncebasedSeg.Read Bytes (mReadFull errAtEnd) decDst dec (ppos : Int) pt true ct cnt (P.off : Int) (cpos : Int)
        (nonceSize : Int) pre useDst p src) := by
  have hge : pt.length ≤ ppos := by
    have h2 := hA.pt_eq
    simp only at h2
    have := congrArg List.length h2
    simp only [List.length_drop, List.length_nil] at this
    omega
  have hcond : ¬ ((ppos : Int) < len pt) := by simp only [len_eq]; omega
  unfold ReadTied
  refine ⟨ppos, pt, ct, cpos, p, 0, 2, ?_, ?_, ?_⟩
  · simp [NoncebasedSeg.Read, Stream.read, hge]
  · simpa [Stream.read] using hA
  · simp [Stream.read, ROutRel]

/-- the tail of `Read` after `io.ReadFull`: nonce, decryption, carry byte, copy-out -/
theorem rd_tail (last ld' : Bool) (segN : Nat) (ct1 src' : Bytes)
    (hD : DecOK nonceSize pre C dec decDst)
    (hsize : pre.length + 5 ≤ nonceSize) (hmax : nonceSize < 9223372036854775808)
    (hnb : ¬ ((ppos : Int) < len pt))
    (herr : ¬ ((((R0! NoncebasedSeg.Read.v12) ≠ 0) ∧ ((R0! NoncebasedSeg.Read.v12) ≠ 3)) ∧ ((R0! NoncebasedSeg.Read.v12) ≠ 2)))
    (hseg : (R0! NoncebasedSeg.Read.v22) = (segN : Int))
    (hlast : (R0! NoncebasedSeg.Read.v21) = last)
    (hldd : (R0! NoncebasedSeg.Read.v20) = ld')
    (hct1 : (R0! NoncebasedSeg.Read.v10) = ct1) (hsegle : segN ≤ ct1.length)
    (hrr : (R0! NoncebasedSeg.Read.v13) = src') :
    (R0! NoncebasedSeg.Read) =
      if cnt ≥ 4294967295 then (((0 : Nat) : Int), [], ld', ct1, cnt, src', (cpos : Int), p, ((0 : Nat) : Int), 1)
      else match C.dec cnt last (ct1.take segN) with
        | none => (((0 : Nat) : Int), [], ld', ct1, cnt, src', (cpos : Int), p, ((0 : Nat) : Int), 1)
        | some x => ((((x.take p.length).length : Nat) : Int), x, ld',
            (if last = true then ct1 else setAt ct1 0 (getAt ct1 (segN : Int))), cnt + 1, src',
            (((if last = true then cpos else 1) : Nat) : Int),
            x.take p.length ++ p.drop (x.take p.length).length, (((x.take p.length).length : Nat) : Int), 0) := by
  have hsegnn : ¬ ((R0! NoncebasedSeg.Read.v22) < 0) := by rw [hseg]; omega
  have hpt0 : (R0! NoncebasedSeg.Read.v4) = [] := by
    simp [NoncebasedSeg.Read.v4, slice]
  have hopt : (R0! NoncebasedSeg.Read.v23)
      = NoncebasedSeg.generateSegmentNonce (nonceSize : Int) pre cnt last := by
    simp only [NoncebasedSeg.Read.v23, hlast]
  by_cases hi : cnt ≥ 4294967295
  · have herr2 : (R0! NoncebasedSeg.Read.v25) = 1 := by
      simp [NoncebasedSeg.Read.v25, hopt, seg_generateSegmentNonce_limit _ _ _ _ hi]
    simp only [NoncebasedSeg.Read, hnb, ↓reduceIte, Bool.false_eq_true, herr, hsegnn, herr2, hi,
      NoncebasedSeg.Read.v5, hpt0, hldd, hct1, hrr]
    simp
  · obtain ⟨nonce, hnonce⟩ := segmentNonce_some nonceSize pre cnt last (by omega)
    have hopt' : (R0! NoncebasedSeg.Read.v23) = some nonce := by
      rw [hopt, seg_generateSegmentNonce_eq _ _ _ _ hsize hmax, hnonce]
    have herr2 : (R0! NoncebasedSeg.Read.v25) = 0 := by
      simp [NoncebasedSeg.Read.v25, hopt']
    have hsl : slice ct1 0 (segN : Int) = ct1.take segN := slice_prefix ct1 segN hsegle
    have hp4 : (R0! NoncebasedSeg.Read.v32) = (decRes (C.dec cnt last (ct1.take segN))).1 := by
      simp only [NoncebasedSeg.Read.v32, NoncebasedSeg.Read.v27, NoncebasedSeg.Read.v30,
        NoncebasedSeg.Read.v26, NoncebasedSeg.Read.v29, NoncebasedSeg.Read.v24,
        hopt', Option.getD_some, hct1, hseg, hsl, hD.dec _ _ _ _ hnonce, hD.decDst _ _ _ _ _ hnonce]
      cases useDst <;> simp
    have herr5 : (R0! NoncebasedSeg.Read.v33) = (decRes (C.dec cnt last (ct1.take segN))).2 := by
      simp only [NoncebasedSeg.Read.v33, NoncebasedSeg.Read.v28, NoncebasedSeg.Read.v31,
        NoncebasedSeg.Read.v26, NoncebasedSeg.Read.v29, NoncebasedSeg.Read.v24,
        hopt', Option.getD_some, hct1, hseg, hsl, hD.dec _ _ _ _ hnonce, hD.decDst _ _ _ _ _ hnonce]
      cases useDst <;> simp
    have hcw : (cnt + 1) % 18446744073709551616 = cnt + 1 := Nat.mod_eq_of_lt (by omega)
    simp only [NoncebasedSeg.Read, hnb, ↓reduceIte, Bool.false_eq_true, herr, hsegnn, herr2, hi,
      NoncebasedSeg.Read.v5, hldd, hct1, hrr, herr5, hp4, ne_eq, not_true_eq_false]
    cases hdec : C.dec cnt last (ct1.take segN) with
    | none => simp [decRes]
    | some x =>
      simp only [decRes, not_true_eq_false, ↓reduceIte, NoncebasedSeg.Read.v42, NoncebasedSeg.Read.v41,
        hp4, hdec, NoncebasedSeg.Read.v37, NoncebasedSeg.Read.v35, hlast, hct1,
        NoncebasedSeg.Read.v34, hseg, NoncebasedSeg.Read.v39, hcw,
        NoncebasedSeg.Read.v38, NoncebasedSeg.Read.v36, NoncebasedSeg.Read.v40, copy_out,
        len_eq, min_len_cast]
      cases last <;> simp [List.length_take]

/-- branches 3–8: nothing buffered, last segment not yet seen: `io.ReadFull`, then decrypt -/
theorem seg_Read_fetch (carry : Option UInt8)
    (hD : DecOK nonceSize pre C dec decDst)
    (hsize : pre.length + 5 ≤ nonceSize) (hmax : nonceSize < 9223372036854775808)
    (hA : RAbs P ⟨[], cnt, carry, false, src⟩ ppos pt ct cpos)
    (hoff : P.off < P.ptSeg + P.overhead + 1) (hmaxL : P.ptSeg + P.overhead + 1 < 9223372036854775808) :
    ReadTied P (Stream.read P C errAtEnd ⟨[], cnt, carry, false, src⟩ p.length) p (R0! NoncebasedSeg.Read) := by
  obtain ⟨h1, h2, h3, h4, h5⟩ := hA
  simp only at h2 h4 h5
  have hge : pt.length ≤ ppos := by
    have := congrArg List.length h2
    simp only [List.length_drop, List.length_nil] at this
    omega
  have hnb : ¬ ((ppos : Int) < len pt) := by simp only [len_eq]; omega
  have hc1 : cpos ≤ 1 := by rw [h4]; cases carry <;> simp [Stream.carryBytes]
  obtain ⟨lim, hlimdef⟩ : ∃ lim, lim = P.ptSeg + P.overhead + 1 - (if cnt = 0 then P.off else 0) := ⟨_, rfl⟩
  have hlim1 : 1 ≤ lim := by rw [hlimdef]; split <;> omega
  have hlimL : lim ≤ ct.length := by rw [hlimdef, h3]; omega
  have hlim : (R0! NoncebasedSeg.Read.v8) = (lim : Int) := by
    simp only [NoncebasedSeg.Read.v8, NoncebasedSeg.Read.v7, NoncebasedSeg.Read.v6, len_eq, h3]
    by_cases hc : cnt = 0
    · simp only [hc, ↓reduceIte] at hlimdef ⊢
      rw [i64_eq (by omega) (by omega)]; omega
    · simp only [hc, ↓reduceIte] at hlimdef ⊢
      omega
  have hrf : (R0! NoncebasedSeg.Read.v9) = (src.take (lim - cpos),
      (if lim - cpos ≤ src.length then 0 else if errAtEnd then 7 else if src = [] then 2 else 3),
      src.drop (lim - cpos)) := by
    simp only [NoncebasedSeg.Read.v9, hlim, mReadFull]
    have : ((lim : Int) - (cpos : Int)).toNat = lim - cpos := by omega
    rw [this]
  have hchle : (src.take (lim - cpos)).length ≤ lim - cpos := by rw [List.length_take]; omega
  have hct1 : (R0! NoncebasedSeg.Read.v10)
      = Stream.carryBytes carry ++ src.take (lim - cpos) ++ ct.drop (cpos + (src.take (lim - cpos)).length) := by
    simp only [NoncebasedSeg.Read.v10, hlim, hrf]
    rw [copyInto_nat ct _ cpos lim (by omega) hlimL, Nat.min_eq_right hchle, h5,
      List.take_of_length_le (Nat.le_refl _)]
  obtain ⟨hc1len, hc1take, hc1all⟩ := ct1_facts (Stream.carryBytes carry) (src.take (lim - cpos)) ct cpos h4 (by omega)
  have hn2 : (R0! NoncebasedSeg.Read.v11) = (((src.take (lim - cpos)).length : Nat) : Int) := by
    simp only [NoncebasedSeg.Read.v11, hrf, len_eq]
  have hrr : (R0! NoncebasedSeg.Read.v13) = src.drop (lim - cpos) := by
    simp only [NoncebasedSeg.Read.v13, hrf]
  have hpt0 : (R0! NoncebasedSeg.Read.v4) = [] := by
    simp [NoncebasedSeg.Read.v4, slice]
  by_cases hfull : lim - cpos ≤ src.length
  · -- io.ReadFull filled the window: a non-final segment plus the look-ahead byte
    have hchlen : (src.take (lim - cpos)).length = lim - cpos := by rw [List.length_take]; omega
    have herrv : (R0! NoncebasedSeg.Read.v12) = 0 := by
      simp only [NoncebasedSeg.Read.v12, hrf, hfull, ↓reduceIte]
    have hseg : (R0! NoncebasedSeg.Read.v22) = ((lim - 1 : Nat) : Int) := by
      simp only [NoncebasedSeg.Read.v22, herrv, ne_eq, not_true_eq_false, ↓reduceIte,
        NoncebasedSeg.Read.v19, hn2, hchlen]
      exact seg3_arith cpos (lim - cpos) lim (by omega) hlim1 (by omega)
    have hlast : (R0! NoncebasedSeg.Read.v21) = false := by
      simp [NoncebasedSeg.Read.v21, herrv, NoncebasedSeg.Read.v14]
    have hldd : (R0! NoncebasedSeg.Read.v20) = false := by
      simp [NoncebasedSeg.Read.v20, herrv]
    have T := rd_tail P C errAtEnd dec decDst nonceSize pre useDst ppos pt ct cnt cpos p src false false (lim - 1) _ _
      hD hsize hmax hnb (by simp [herrv]) hseg hlast hldd hct1 (by omega) hrr
    rw [T]
    have hall : (Stream.carryBytes carry ++ src.take (lim - cpos)).length = (lim - 1) + 1 := by
      rw [List.length_append, hchlen, ← h4]; omega
    obtain ⟨hcarry, hdl⟩ := carry_facts (Stream.carryBytes carry ++ src.take (lim - cpos))
      (ct.drop (cpos + (src.take (lim - cpos)).length)) (lim - 1) hall
    have hM : Stream.read P C errAtEnd ⟨[], cnt, carry, false, src⟩ p.length =
        if cnt ≥ 4294967295 then (⟨[], cnt, carry, false, src.drop (lim - cpos)⟩, .err .tooMany) else
        match C.dec cnt false (Stream.carryBytes carry ++ src.take (lim - cpos)).dropLast with
        | none => (⟨[], cnt, carry, false, src.drop (lim - cpos)⟩, .err .auth)
        | some seg => (⟨seg.drop p.length, cnt + 1, (Stream.carryBytes carry ++ src.take (lim - cpos)).getLast?, false,
            src.drop (lim - cpos)⟩, .data (seg.take p.length)) := by
      simp only [Stream.read, ne_eq, not_true_eq_false, ↓reduceIte, Bool.false_eq_true, ← hlimdef, ← h4, hchlen]
      rfl
    rw [hM, hdl]
    by_cases hi : cnt ≥ 4294967295
    · simp only [hi, ↓reduceIte]
      exact ReadTied.intro P _ _ p 0 [] _ cpos p 0 1 ⟨Nat.le_refl _, rfl, by rw [hc1len]; exact h3, h4, hc1take⟩
        ⟨rfl, rfl, rfl⟩
    · simp only [hi, ↓reduceIte]
      cases hdec : C.dec cnt false (Stream.carryBytes carry ++ src.take (lim - cpos)).dropLast with
      | none =>
        exact ReadTied.intro P _ _ p 0 [] _ cpos p 0 1 ⟨Nat.le_refl _, rfl, by rw [hc1len]; exact h3, h4, hc1take⟩
          ⟨rfl, rfl, rfl⟩
      | some x =>
        simp only [Bool.false_eq_true, ↓reduceIte]
        obtain ⟨hs1, hs2⟩ := setAt0_facts (Stream.carryBytes carry ++ src.take (lim - cpos) ++
          ct.drop (cpos + (src.take (lim - cpos)).length)) (getAt (Stream.carryBytes carry ++ src.take (lim - cpos) ++
          ct.drop (cpos + (src.take (lim - cpos)).length)) ((lim - 1 : Nat) : Int)) (by omega)
        refine ReadTied.intro P _ _ p (x.take p.length).length x _ 1 _ (x.take p.length).length 0 ⟨?_, ?_, ?_, ?_, ?_⟩
          ⟨rfl, rfl, rfl⟩
        · rw [List.length_take]; omega
        · exact drop_take_len x p.length
        · rw [hs1, hc1len]; exact h3
        · simp only [hcarry]; rfl
        · simp only [hcarry]; exact hs2
  · -- the source ran dry
    have hsrc : src.take (lim - cpos) = src := List.take_of_length_le (by omega)
    have hsrcd : src.drop (lim - cpos) = [] := List.drop_of_length_le (by omega)
    rw [hsrc] at hct1 hc1len hc1take hc1all hn2
    rw [hsrcd] at hrr
    have hM0 : (src.take (P.ptSeg + P.overhead + 1 - (if cnt = 0 then P.off else 0) - (Stream.carryBytes carry).length)).length
        ≠ P.ptSeg + P.overhead + 1 - (if cnt = 0 then P.off else 0) - (Stream.carryBytes carry).length := by
      rw [← hlimdef, ← h4, hsrc]; omega
    by_cases he : errAtEnd = true
    · have herrv : (R0! NoncebasedSeg.Read.v12) = 7 := by
        simp only [NoncebasedSeg.Read.v12, hrf]
        simp only [hfull, he, ↓reduceIte]
      have hM : Stream.read P C errAtEnd ⟨[], cnt, carry, false, src⟩ p.length
          = (⟨[], cnt, carry, false, []⟩, .err .io) := by
        simp only [Stream.read, ne_eq, not_true_eq_false, ↓reduceIte, Bool.false_eq_true, hM0, he]
        rw [← hlimdef, ← h4, hsrcd]
      have hR : (R0! NoncebasedSeg.Read) = (((0 : Nat) : Int), [], false,
          Stream.carryBytes carry ++ src ++ ct.drop (cpos + src.length), cnt, [], (cpos : Int), p, ((0 : Nat) : Int), 7) := by
        simp only [NoncebasedSeg.Read, hnb, ↓reduceIte, Bool.false_eq_true, herrv, NoncebasedSeg.Read.v5,
          hpt0, hct1, hrr]
        simp
      rw [hM, hR]
      exact ReadTied.intro P _ _ p 0 [] _ cpos p 0 7 ⟨Nat.le_refl _, rfl, by rw [hc1len]; exact h3, h4, hc1take⟩
        ⟨rfl, rfl, rfl⟩
    · have he' : errAtEnd = false := by cases errAtEnd <;> simp_all
      have herrv : (R0! NoncebasedSeg.Read.v12) = 2 ∨ (R0! NoncebasedSeg.Read.v12) = 3 := by
        simp only [NoncebasedSeg.Read.v12, hrf]
        simp only [hfull, he', ↓reduceIte, Bool.false_eq_true]
        by_cases hs : src = [] <;> simp [hs]
      have herrne : (R0! NoncebasedSeg.Read.v12) ≠ 0 := by rcases herrv with h | h <;> rw [h] <;> decide
      have hseg : (R0! NoncebasedSeg.Read.v22) = ((cpos + src.length : Nat) : Int) := by
        simp only [NoncebasedSeg.Read.v22, herrne, ne_eq, not_false_eq_true, ↓reduceIte,
          NoncebasedSeg.Read.v18, hn2]
        rw [i64_eq (by omega) (by omega)]; omega
      have hlast : (R0! NoncebasedSeg.Read.v21) = true := by
        simp [NoncebasedSeg.Read.v21, herrne, NoncebasedSeg.Read.v16]
      have hldd : (R0! NoncebasedSeg.Read.v20) = true := by
        simp [NoncebasedSeg.Read.v20, herrne, NoncebasedSeg.Read.v17]
      have T := rd_tail P C errAtEnd dec decDst nonceSize pre useDst ppos pt ct cnt cpos p src true true (cpos + src.length) _ _
        hD hsize hmax hnb (by rcases herrv with h | h <;> simp [h]) hseg hlast hldd hct1 (by omega) hrr
      rw [T, hc1all]
      have hM : Stream.read P C errAtEnd ⟨[], cnt, carry, false, src⟩ p.length =
          if cnt ≥ 4294967295 then (⟨[], cnt, carry, true, []⟩, .err .tooMany) else
          match C.dec cnt true (Stream.carryBytes carry ++ src) with
          | none => (⟨[], cnt, carry, true, []⟩, .err .auth)
          | some seg => (⟨seg.drop p.length, cnt + 1, carry, true, []⟩, .data (seg.take p.length)) := by
        simp only [Stream.read, ne_eq, not_true_eq_false, ↓reduceIte, Bool.false_eq_true, hM0, he']
        rw [← hlimdef, ← h4, hsrcd, hsrc]
        rfl
      rw [hM]
      by_cases hi : cnt ≥ 4294967295
      · simp only [hi, ↓reduceIte]
        exact ReadTied.intro P _ _ p 0 [] _ cpos p 0 1 ⟨Nat.le_refl _, rfl, by rw [hc1len]; exact h3, h4, hc1take⟩
          ⟨rfl, rfl, rfl⟩
      · simp only [hi, ↓reduceIte]
        cases hdec : C.dec cnt true (Stream.carryBytes carry ++ src) with
        | none =>
          exact ReadTied.intro P _ _ p 0 [] _ cpos p 0 1 ⟨Nat.le_refl _, rfl, by rw [hc1len]; exact h3, h4, hc1take⟩
            ⟨rfl, rfl, rfl⟩
        | some x =>
          simp only
          refine ReadTied.intro P _ _ p (x.take p.length).length x _ cpos _ (x.take p.length).length 0 ⟨?_, ?_, ?_, h4, hc1take⟩
            ⟨rfl, rfl, rfl⟩
          · rw [List.length_take]; omega
          · exact drop_take_len x p.length
          · rw [hc1len]; exact h3

/-- the degenerate geometry `FirstCiphertextSegmentOffset = CiphertextSegmentSize + 1` (refused by the key managers,
    not by `NewReader`): the first `Read` asks `io.ReadFull` for 0 bytes, gets `nil`, and Go answers
    `ErrCiphertextSegmentTooShort` (code 4, nothing changed) whatever the source holds.  The model instead
    "decrypts" the empty segment 0: `.err .auth` with the same state if the cipher refuses it (every real AEAD:
    shorter than a tag), but DATA if the abstract cipher accepts the empty string — outside `seg_Read_eq`. -/
theorem seg_Read_too_short (hoffL : P.off = P.ptSeg + P.overhead + 1)
    (hA : RAbs P ⟨[], 0, none, false, src⟩ ppos pt ct 0) (_hmaxL : P.ptSeg + P.overhead + 1 < 9223372036854775808) :
    NoncebasedSeg.Read Bytes (mReadFull errAtEnd) decDst dec (ppos : Int) pt false ct 0 (P.off : Int) (0 : Int)
        (nonceSize : Int) pre useDst p src
      = (0, [], false, ct, 0, src, 0, p, 0, 4)
    ∧ Stream.read P C errAtEnd ⟨[], 0, none, false, src⟩ p.length
      = match C.dec 0 false [] with
        | none => (⟨[], 0, none, false, src⟩, .err .auth)
        | some seg => (⟨seg.drop p.length, 1, none, false, src⟩, .data (seg.take p.length)) := by
  obtain ⟨h1, h2, h3, -, -⟩ := hA
  simp only at h2
  have hge : pt.length ≤ ppos := by
    have := congrArg List.length h2
    simp only [List.length_drop, List.length_nil] at this
    omega
  have hnb : ¬ ((ppos : Int) < len pt) := by simp only [len_eq]; omega
  constructor
  · have hlim : NoncebasedSeg.Read.v8 Bytes (mReadFull errAtEnd) decDst dec (ppos : Int) pt false ct 0 (P.off : Int)
        (0 : Int) (nonceSize : Int) pre useDst p src = 0 := by
      simp only [NoncebasedSeg.Read.v8, NoncebasedSeg.Read.v7, NoncebasedSeg.Read.v6, len_eq, h3, hoffL,
        ↓reduceIte]
      rw [i64_eq (by omega) (by omega)]; omega
    have hrf : NoncebasedSeg.Read.v9 Bytes (mReadFull errAtEnd) decDst dec (ppos : Int) pt false ct 0 (P.off : Int)
        (0 : Int) (nonceSize : Int) pre useDst p src = ([], 0, src) := by
      simp only [NoncebasedSeg.Read.v9, hlim, mReadFull]
      simp
    have herrv : NoncebasedSeg.Read.v12 Bytes (mReadFull errAtEnd) decDst dec (ppos : Int) pt false ct 0 (P.off : Int)
        (0 : Int) (nonceSize : Int) pre useDst p src = 0 := by
      simp only [NoncebasedSeg.Read.v12, hrf]
    have hseg : NoncebasedSeg.Read.v22 Bytes (mReadFull errAtEnd) decDst dec (ppos : Int) pt false ct 0 (P.off : Int)
        (0 : Int) (nonceSize : Int) pre useDst p src = -1 := by
      simp only [NoncebasedSeg.Read.v22, herrv, ne_eq, not_true_eq_false, ↓reduceIte, NoncebasedSeg.Read.v19,
        NoncebasedSeg.Read.v11, hrf]
      decide
    have hct : NoncebasedSeg.Read.v10 Bytes (mReadFull errAtEnd) decDst dec (ppos : Int) pt false ct 0 (P.off : Int)
        (0 : Int) (nonceSize : Int) pre useDst p src = ct := by
      simp only [NoncebasedSeg.Read.v10, hlim, hrf]
      simp [copyInto]
    simp only [NoncebasedSeg.Read, hnb, ↓reduceIte, Bool.false_eq_true, herrv, hseg, NoncebasedSeg.Read.v5,
      NoncebasedSeg.Read.v4, NoncebasedSeg.Read.v20, hct, NoncebasedSeg.Read.v13, hrf]
    simp [slice]
  · simp only [Stream.read, ne_eq, not_true_eq_false, ↓reduceIte, Bool.false_eq_true, hoffL, Stream.carryBytes,
      Nat.sub_self, List.take_zero, List.length_nil, List.drop_zero, List.append_nil, List.dropLast_nil,
      List.getLast?_nil]
    simp
    rfl

end ReadTie

/-- `(*Reader).Read`, all branches: from any state in the abstraction relation, the generated `Read` returns the
    model's result (count, error code, caller buffer) and leaves the reader in the abstraction relation with the
    model's next state.  Hypotheses: sizes fit an `int`; `FirstCiphertextSegmentOffset ≤ CiphertextSegmentSize`
    (for `=` + 1 see `seg_Read_too_short`; beyond that Go panics). -/
theorem seg_Read_eq (P : Stream.Params) (C : Stream.Cipher) (errAtEnd : Bool)
    (dec : Bytes → Bytes → Bytes × Nat) (decDst : Bytes → Bytes → Bytes → Bytes × Nat)
    (nonceSize : Nat) (pre : Bytes) (useDst : Bool) (s : Stream.RState)
    (ppos : Nat) (pt ct : Bytes) (cpos : Nat) (p : Bytes)
    (hD : DecOK nonceSize pre C dec decDst)
    (hsize : pre.length + 5 ≤ nonceSize) (hmax : nonceSize < 9223372036854775808)
    (hA : RAbs P s ppos pt ct cpos)
    (hoff : P.off < P.ptSeg + P.overhead + 1) (hmaxL : P.ptSeg + P.overhead + 1 < 9223372036854775808)
    (hpt : pt.length < 9223372036854775808) :
    ReadTied P (Stream.read P C errAtEnd s p.length) p
      (NoncebasedSeg.Read Bytes (mReadFull errAtEnd) decDst dec (ppos : Int) pt s.lastDone ct s.cnt (P.off : Int)
        (cpos : Int) (nonceSize : Int) pre useDst p s.src) := by
  obtain ⟨spt, cnt, carry, lastDone, src⟩ := s
  by_cases hne : spt = []
  · subst hne
    cases lastDone with
    | true => exact seg_Read_eof P C errAtEnd dec decDst nonceSize pre useDst ppos pt ct cnt cpos p src carry hA
    | false =>
      exact seg_Read_fetch P C errAtEnd dec decDst nonceSize pre useDst ppos pt ct cnt cpos p src carry hD hsize hmax hA
        hoff hmaxL
  · exact seg_Read_buffered P C errAtEnd dec decDst nonceSize pre useDst ppos pt lastDone ct cnt cpos p src spt carry hA
      hne hpt

/-- a fresh reader (`NewReader`) is in the abstraction relation with `RState.init` -/
theorem rabs_init (P : Stream.Params) (src : Bytes) :
    RAbs P (Stream.RState.init src) 0 [] (Bytes.zeros (P.ptSeg + P.overhead + 1)) 0 :=
  ⟨Nat.le_refl _, rfl, by simp [Bytes.zeros], rfl, rfl⟩

/-! non-vacuity of the hypotheses -/

/-- a cipher and Go callbacks satisfying `EncOK` / `DecOK`: look the segment index up from the nonce -/
example : ∃ (C : Stream.Cipher) (enc : Bytes → Bytes → Bytes × Nat) (encDst : Bytes → Bytes → Bytes → Bytes × Nat),
    EncOK 12 [1, 2, 3, 4, 5, 6, 7] C enc encDst :=
  ⟨⟨fun _ _ seg => seg, fun _ _ seg => some seg⟩, fun seg _ => (seg, 0), fun _ seg _ => (seg, 0),
    ⟨fun _ _ _ _ _ => rfl, fun _ _ _ _ _ _ => rfl⟩⟩

example : ∃ (C : Stream.Cipher) (dec : Bytes → Bytes → Bytes × Nat) (decDst : Bytes → Bytes → Bytes → Bytes × Nat),
    DecOK 12 [1, 2, 3, 4, 5, 6, 7] C dec decDst :=
  ⟨⟨fun _ _ seg => seg, fun _ _ seg => some seg⟩, fun seg _ => (seg, 0), fun _ seg _ => (seg, 0),
    ⟨fun _ _ _ _ _ => rfl, fun _ _ _ _ _ _ => rfl⟩⟩

example : ([1, 2, 3, 4, 5, 6, 7] : Bytes).length + 5 ≤ 12 ∧ (12 : Nat) < 9223372036854775808 := by decide

example : ∃ (P : Stream.Params), P.off < P.ptSeg + P.overhead + 1 ∧ P.ptSeg + P.overhead + 1 < 9223372036854775808
    ∧ RAbs P (Stream.RState.init [1, 2, 3]) 0 [] (Bytes.zeros (P.ptSeg + P.overhead + 1)) 0 :=
  ⟨⟨64, 8, 16⟩, by decide, by decide, rabs_init _ _⟩

/-! ## D. (*Writer).Write -/

/-- number of bytes one loop iteration copies: `min (ptLim - plaintextPos) (len p - pos)` -/
def wChunk (P : Stream.Params) (cnt ppos pos : Nat) (p : Bytes) : Nat :=
  min (Stream.lim P cnt - ppos) (p.length - pos)

/-- the plaintext buffer after `copy(w.plaintext[plaintextPos:ptLim], p[pos:])` copied `k` bytes -/
def wBuf (ptb : Bytes) (ppos k pos : Nat) (p : Bytes) : Bytes :=
  ptb.take ppos ++ (p.drop pos).take k ++ ptb.drop (ppos + k)

/-! ### the byte-wise model `Stream.feed` in chunks -/

/-- feeding a chunk that fits into the buffer is appending -/
theorem feed_append_fits (P : Stream.Params) (C : Stream.Cipher) (f : Stream.Fault) (q1 q2 : Bytes)
    (s : Stream.WState) (n : Nat) (h : s.buf.length + q1.length ≤ Stream.lim P s.cnt) :
    Stream.feed P C f s (q1 ++ q2) n = Stream.feed P C f { s with buf := s.buf ++ q1 } q2 (n + q1.length) := by
  induction q1 generalizing s n with
  | nil => simp
  | cons b t ih =>
    simp only [List.length_cons] at h
    have hlt : s.buf.length < Stream.lim P s.cnt := by omega
    simp only [List.cons_append, Stream.feed, hlt, ↓reduceIte]
    rw [ih _ _ (by simp only [List.length_append, List.length_cons, List.length_nil]; omega)]
    simp only [List.append_assoc, List.cons_append, List.nil_append, List.length_cons]
    congr 1; omega

/-- a full buffer and more input: flush (non-final segment), then go on with an empty buffer -/
theorem feed_full (P : Stream.Params) (C : Stream.Cipher) (f : Stream.Fault) (s : Stream.WState) (q : Bytes) (n : Nat)
    (hq : q ≠ []) (hfull : Stream.lim P s.cnt ≤ s.buf.length) (hseg : 0 < P.ptSeg) :
    Stream.feed P C f s q n = match Stream.flush C f s false with
      | .error e => (Stream.flushFailState f s, n, some e)
      | .ok s' => Stream.feed P C f s' q n := by
  cases q with
  | nil => exact absurd rfl hq
  | cons b rest =>
    have hnlt : ¬ (s.buf.length < Stream.lim P s.cnt) := by omega
    simp only [Stream.feed, hnlt, ↓reduceIte]
    unfold Stream.flush
    by_cases hi : s.cnt ≥ 4294967295
    · simp only [hi, ↓reduceIte]
    · simp only [hi, ↓reduceIte]
      by_cases hf : Stream.sinkFails f s.sinkCalls = true
      · simp only [hf, ↓reduceIte]
      · simp only [hf, Bool.false_eq_true, ↓reduceIte, List.length_nil, Stream.lim, Nat.succ_ne_zero,
          hseg, List.nil_append]

theorem wBuf_facts (ptb : Bytes) (ppos k pos : Nat) (p : Bytes) (hppos : ppos + k ≤ ptb.length) (hk : pos + k ≤ p.length) :
    (wBuf ptb ppos k pos p).length = ptb.length
    ∧ (wBuf ptb ppos k pos p).take (ppos + k) = ptb.take ppos ++ (p.drop pos).take k
    ∧ (ptb.take ppos ++ (p.drop pos).take k).length = ppos + k := by
  have h1 : (ptb.take ppos).length = ppos := by rw [List.length_take]; omega
  have h2 : ((p.drop pos).take k).length = k := by rw [List.length_take, List.length_drop]; omega
  have h3 : (ptb.take ppos ++ (p.drop pos).take k).length = ppos + k := by rw [List.length_append, h1, h2]
  refine ⟨?_, ?_, h3⟩
  · simp only [wBuf, List.length_append, h1, h2, List.length_drop]; omega
  · rw [wBuf, List.take_left' h3]

/-- one loop iteration on the model side: the exact mirror of `seg_Write_step` -/
theorem feed_step (P : Stream.Params) (C : Stream.Cipher) (f : Stream.Fault) (ptb : Bytes) (ppos cnt : Nat)
    (l : List Bytes) (calls : Nat) (p : Bytes) (pos : Nat)
    (hlen : ptb.length = P.ptSeg) (hpos : pos ≤ p.length) (hppos : ppos ≤ Stream.lim P cnt) (hseg : 0 < P.ptSeg) :
    Stream.feed P C f (wAbs ptb ppos cnt false (l, calls)) (p.drop pos) pos =
      if pos + wChunk P cnt ppos pos p = p.length then
        (wAbs (wBuf ptb ppos (wChunk P cnt ppos pos p) pos p) (ppos + wChunk P cnt ppos pos p) cnt false (l, calls),
          pos + wChunk P cnt ppos pos p, none)
      else if cnt ≥ 4294967295 then
        (wAbs (wBuf ptb ppos (wChunk P cnt ppos pos p) pos p) (ppos + wChunk P cnt ppos pos p) cnt false (l, calls),
          pos + wChunk P cnt ppos pos p, some .tooMany)
      else if Stream.sinkFails f calls = true then
        (wAbs (wBuf ptb ppos (wChunk P cnt ppos pos p) pos p) (ppos + wChunk P cnt ppos pos p) cnt false (l, calls + 1),
          pos + wChunk P cnt ppos pos p, some .io)
      else
        Stream.feed P C f (wAbs (wBuf ptb ppos (wChunk P cnt ppos pos p) pos p) 0 (cnt + 1) false
          (l ++ [C.enc cnt false ((wBuf ptb ppos (wChunk P cnt ppos pos p) pos p).take (Stream.lim P cnt))], calls + 1))
          (p.drop (pos + wChunk P cnt ppos pos p)) (pos + wChunk P cnt ppos pos p) := by
  obtain ⟨k, hk⟩ : ∃ k, k = wChunk P cnt ppos pos p := ⟨_, rfl⟩
  rw [← hk]
  have hlimle : Stream.lim P cnt ≤ P.ptSeg := by rw [Stream.lim]; split <;> omega
  have hkdef : k = min (Stream.lim P cnt - ppos) (p.length - pos) := by rw [hk, wChunk]
  obtain ⟨hB1, hB2, hB3⟩ := wBuf_facts ptb ppos k pos p (by omega) (by omega)
  have hsplit : p.drop pos = (p.drop pos).take k ++ p.drop (pos + k) := by
    rw [← List.drop_drop, List.take_append_drop]
  have hfit : (wAbs ptb ppos cnt false (l, calls)).buf.length + ((p.drop pos).take k).length
      ≤ Stream.lim P (wAbs ptb ppos cnt false (l, calls)).cnt := by
    simp only [wAbs, List.length_take, List.length_drop]; omega
  have h1 := feed_append_fits P C f ((p.drop pos).take k) (p.drop (pos + k)) (wAbs ptb ppos cnt false (l, calls)) pos hfit
  rw [← hsplit] at h1
  rw [h1]
  have hklen : ((p.drop pos).take k).length = k := by rw [List.length_take, List.length_drop]; omega
  have hmid : ({ wAbs ptb ppos cnt false (l, calls) with
      buf := (wAbs ptb ppos cnt false (l, calls)).buf ++ (p.drop pos).take k } : Stream.WState)
      = wAbs (wBuf ptb ppos k pos p) (ppos + k) cnt false (l, calls) := by
    simp only [wAbs, hB2]
  rw [hmid, hklen]
  by_cases hbrk : pos + k = p.length
  · simp only [hbrk, ↓reduceIte]
    rw [← hbrk, List.drop_of_length_le (by omega)]
    simp only [Stream.feed]
  · simp only [hbrk, ↓reduceIte]
    have hne : p.drop (pos + k) ≠ [] := by
      intro h
      have := congrArg List.length h
      simp only [List.length_drop, List.length_nil] at this
      omega
    have hfull : Stream.lim P (wAbs (wBuf ptb ppos k pos p) (ppos + k) cnt false (l, calls)).cnt
        ≤ (wAbs (wBuf ptb ppos k pos p) (ppos + k) cnt false (l, calls)).buf.length := by
      simp only [wAbs, hB2, hB3]; omega
    rw [feed_full P C f _ _ _ hne hfull hseg]
    have hlimeq : ppos + k = Stream.lim P cnt := by omega
    by_cases hi : cnt ≥ 4294967295
    · simp [Stream.flush, Stream.flushFailState, wAbs, hi]
    · by_cases hf : Stream.sinkFails f calls = true
      · simp [Stream.flush, Stream.flushFailState, wAbs, hi, hf]
      · simp [Stream.flush, wAbs, hi, hf, hlimeq]

/-- how the generated `Write` turns the loop outcome into its result tuple: an early `return` value, or the final
    loop state with error `nil` -/
def loopResult {S : Type} (x : Option (Bytes × Nat × Int × Bytes × S × Int × Nat) × (Int × Bytes × Nat × Int × Bytes × S)) :
    Bytes × Nat × Int × Bytes × S × Int × Nat :=
  match x.1 with
  | some r => r
  | none => (x.2.2.1, x.2.2.2.1, x.2.2.2.2.1, x.2.2.2.2.2.1, x.2.2.2.2.2.2, x.2.1, 0)

/-- the generated `Write` result `out` = (plaintext buffer, cnt, plaintextPos, ciphertext, sink, n, error code) is the
    model result `r` seen through the abstraction (`w.ciphertext` is scratch space: any value) -/
def WriteTied (r : Stream.WState × Nat × Option Stream.WErr) (ptLen : Nat)
    (out : Bytes × Nat × Int × Bytes × (List Bytes × Nat) × Int × Nat) : Prop :=
  ∃ (ptb' ct' : Bytes),
    out = (ptb', r.1.cnt, ((r.1.buf.length : Nat) : Int), ct', (r.1.sink, r.1.sinkCalls), ((r.2.1 : Nat) : Int), wCode r.2.2)
    ∧ ptb'.length = ptLen ∧ ptb'.take r.1.buf.length = r.1.buf

section WriteTie
variable (P : Stream.Params) (C : Stream.Cipher) (f : Stream.Fault) (fuel : Nat)
  (enc : Bytes → Bytes → Bytes × Nat) (encDst : Bytes → Bytes → Bytes → Bytes × Nat)
  (nonceSize : Nat) (pre : Bytes) (useDst : Bool)
  (pt0 : Bytes) (cnt0 : Nat) (ppos0 : Int) (ct0 : Bytes) (w0 : List Bytes × Nat) (p : Bytes)

local notation "W!" fn:max => fn (List Bytes × Nat) (mSink f) fuel encDst enc false pt0 cnt0 (P.off : Int) ppos0 (nonceSize : Int) pre useDst ct0 p w0

/-- one iteration of the `Write` loop, from the loop state `(pos, plaintext, cnt, plaintextPos, ciphertext, sink)`:
    copy `k = wChunk …` bytes; if the input is used up, `break`; else the buffer is full (`Stream.lim P cnt` bytes):
    encrypt it as the non-final segment `cnt` and hand it to the sink. -/
theorem seg_Write_step (pos : Nat) (ptb : Bytes) (cnt ppos : Nat) (ct : Bytes) (l : List Bytes) (calls : Nat)
    (hC : EncOK nonceSize pre C enc encDst)
    (hsize : pre.length + 5 ≤ nonceSize) (hmax : nonceSize < 9223372036854775808)
    (hlen : ptb.length = P.ptSeg) (hoff : P.off ≤ P.ptSeg) (hseg : P.ptSeg < 9223372036854775808)
    (hp : p.length < 9223372036854775808) (hpos : pos ≤ p.length) (hppos : ppos ≤ Stream.lim P cnt) :
    (W! NoncebasedSeg.Write.loop1.body) ((pos : Int), ptb, cnt, (ppos : Int), ct, (l, calls)) =
      if pos + wChunk P cnt ppos pos p = p.length then
        Step.brk (((pos + wChunk P cnt ppos pos p : Nat) : Int), wBuf ptb ppos (wChunk P cnt ppos pos p) pos p, cnt,
          ((ppos + wChunk P cnt ppos pos p : Nat) : Int), ct, (l, calls))
      else if cnt ≥ 4294967295 then
        Step.ret (wBuf ptb ppos (wChunk P cnt ppos pos p) pos p, cnt, ((ppos + wChunk P cnt ppos pos p : Nat) : Int), ct,
          (l, calls), ((pos + wChunk P cnt ppos pos p : Nat) : Int), 1)
      else if Stream.sinkFails f calls = true then
        Step.ret (wBuf ptb ppos (wChunk P cnt ppos pos p) pos p, cnt, ((ppos + wChunk P cnt ppos pos p : Nat) : Int),
          C.enc cnt false ((wBuf ptb ppos (wChunk P cnt ppos pos p) pos p).take (Stream.lim P cnt)),
          (l, calls + 1), ((pos + wChunk P cnt ppos pos p : Nat) : Int), 1)
      else
        Step.next (((pos + wChunk P cnt ppos pos p : Nat) : Int), wBuf ptb ppos (wChunk P cnt ppos pos p) pos p, cnt + 1,
          ((0 : Nat) : Int), C.enc cnt false ((wBuf ptb ppos (wChunk P cnt ppos pos p) pos p).take (Stream.lim P cnt)),
          (l ++ [C.enc cnt false ((wBuf ptb ppos (wChunk P cnt ppos pos p) pos p).take (Stream.lim P cnt))], calls + 1)) := by
  obtain ⟨k, hk⟩ : ∃ k, k = wChunk P cnt ppos pos p := ⟨_, rfl⟩
  obtain ⟨lim, hlimdef⟩ : ∃ lim, lim = Stream.lim P cnt := ⟨_, rfl⟩
  rw [← hk, ← hlimdef]
  rw [← hlimdef] at hppos
  have hlimle : lim ≤ P.ptSeg := by rw [hlimdef, Stream.lim]; split <;> omega
  have hkdef : k = min (lim - ppos) (p.length - pos) := by rw [hk, wChunk, hlimdef]
  obtain ⟨s1, hs1⟩ : ∃ s1 : Int × Bytes × Nat × Int × Bytes × (List Bytes × Nat),
      s1 = ((pos : Int), ptb, cnt, (ppos : Int), ct, (l, calls)) := ⟨_, rfl⟩
  rw [← hs1]
  have hlim3 : (W! NoncebasedSeg.Write.loop1.v4) s1 = (lim : Int) := by
    simp only [NoncebasedSeg.Write.loop1.v4, NoncebasedSeg.Write.loop1.v3, NoncebasedSeg.Write.loop1.v2,
      len_eq, hs1, hlen]
    rw [hlimdef, Stream.lim]
    by_cases hc : cnt = 0
    · simp only [hc, ↓reduceIte]
      rw [i64_eq (by omega) (by omega)]; omega
    · simp only [hc, ↓reduceIte]
  have hslp : slice p (pos : Int) (p.length : Int) = p.drop pos := by
    have := slice_suffix p pos hpos
    rw [len_eq] at this; exact this
  have hdl : (p.drop pos).length = p.length - pos := List.length_drop
  have hn : (W! NoncebasedSeg.Write.loop1.v6) s1 = (k : Int) := by
    simp only [NoncebasedSeg.Write.loop1.v6, hlim3, len_eq]
    simp only [hs1, hslp, hdl]
    omega
  have hbuf : (W! NoncebasedSeg.Write.loop1.v5) s1 = wBuf ptb ppos k pos p := by
    simp only [NoncebasedSeg.Write.loop1.v5, hlim3, len_eq]
    simp only [hs1, hslp]
    rw [copyInto_nat ptb _ ppos lim hppos (by omega), hdl, ← hkdef, wBuf]
  have hppos' : (W! NoncebasedSeg.Write.loop1.v7) s1 = ((ppos + k : Nat) : Int) := by
    simp only [NoncebasedSeg.Write.loop1.v7, hn]
    simp only [hs1]
    rw [i64_eq (by omega) (by omega)]; omega
  have hpos2 : (W! NoncebasedSeg.Write.loop1.v8) s1 = ((pos + k : Nat) : Int) := by
    simp only [NoncebasedSeg.Write.loop1.v8, hn]
    simp only [hs1]
    rw [i64_eq (by omega) (by omega)]; omega
  have hcnt : s1.2.2.1 = cnt := by rw [hs1]
  have hct : s1.2.2.2.2.1 = ct := by rw [hs1]
  have hw : s1.2.2.2.2.2 = (l, calls) := by rw [hs1]
  have hcondeq : ((((pos + k : Nat) : Int) = (p.length : Int)) ↔ (pos + k = p.length)) := by omega
  simp only [NoncebasedSeg.Write.loop1.body, hpos2, len_eq, hcondeq, hbuf, hppos', hcnt, hct, hw]
  by_cases hbrk : pos + k = p.length
  · simp only [hbrk, ↓reduceIte]
  · simp only [hbrk, ↓reduceIte]
    have hopt : (W! NoncebasedSeg.Write.loop1.v9) s1
        = NoncebasedSeg.generateSegmentNonce (nonceSize : Int) pre cnt false := by
      simp only [NoncebasedSeg.Write.loop1.v9, hcnt]
    by_cases hi : cnt ≥ 4294967295
    · have herr : (W! NoncebasedSeg.Write.loop1.v11) s1 = 1 := by
        simp [NoncebasedSeg.Write.loop1.v11, hopt, seg_generateSegmentNonce_limit _ _ _ _ hi]
      simp [herr, hi]
    · obtain ⟨nonce, hnonce⟩ := segmentNonce_some nonceSize pre cnt false (by omega)
      have hopt' : (W! NoncebasedSeg.Write.loop1.v9) s1 = some nonce := by
        rw [hopt, seg_generateSegmentNonce_eq _ _ _ _ hsize hmax, hnonce]
      have herr : (W! NoncebasedSeg.Write.loop1.v11) s1 = 0 := by
        simp [NoncebasedSeg.Write.loop1.v11, hopt']
      have hbl : (wBuf ptb ppos k pos p).length = ptb.length := by
        simp only [wBuf, List.length_append, List.length_take, List.length_drop, hdl]; omega
      have hsl : slice (wBuf ptb ppos k pos p) 0 (lim : Int) = (wBuf ptb ppos k pos p).take lim :=
        slice_prefix _ lim (by omega)
      have hct3 : (W! NoncebasedSeg.Write.loop1.v18) s1 = C.enc cnt false ((wBuf ptb ppos k pos p).take lim) := by
        simp only [NoncebasedSeg.Write.loop1.v18, NoncebasedSeg.Write.loop1.v13,
          NoncebasedSeg.Write.loop1.v16, NoncebasedSeg.Write.loop1.v12,
          NoncebasedSeg.Write.loop1.v15, NoncebasedSeg.Write.loop1.v10, hopt', Option.getD_some,
          hbuf, hlim3, hsl, hC.enc _ _ _ _ hnonce, hC.encDst _ _ _ _ _ hnonce]
        cases useDst <;> simp
      have herr4 : (W! NoncebasedSeg.Write.loop1.v19) s1 = 0 := by
        simp only [NoncebasedSeg.Write.loop1.v19, NoncebasedSeg.Write.loop1.v14,
          NoncebasedSeg.Write.loop1.v17, NoncebasedSeg.Write.loop1.v12,
          NoncebasedSeg.Write.loop1.v15, NoncebasedSeg.Write.loop1.v10, hopt', Option.getD_some,
          hbuf, hlim3, hsl, hC.enc _ _ _ _ hnonce, hC.encDst _ _ _ _ _ hnonce]
        cases useDst <;> simp
      have hcw : (cnt + 1) % 18446744073709551616 = cnt + 1 := Nat.mod_eq_of_lt (by omega)
      simp only [herr, herr4, hi, ↓reduceIte, ne_eq, not_true_eq_false, NoncebasedSeg.Write.loop1.v21,
        NoncebasedSeg.Write.loop1.v22, NoncebasedSeg.Write.loop1.v20, hct3, hw, mSink,
        NoncebasedSeg.Write.loop1.v24, NoncebasedSeg.Write.loop1.v23, hcnt, hcw]
      by_cases hf : Stream.sinkFails f calls = true
      · simp [hf]
      · simp [hf]

/-- the whole loop from any reachable loop state, for every fuel above the measure
    `(len p - pos) + (1 if the buffer is already full)`: the model's `feed` of the remaining input -/
theorem write_loop (hC : EncOK nonceSize pre C enc encDst)
    (hsize : pre.length + 5 ≤ nonceSize) (hmax : nonceSize < 9223372036854775808)
    (hoff : P.off ≤ P.ptSeg) (hseg0 : 0 < P.ptSeg) (hseg : P.ptSeg < 9223372036854775808)
    (hp : p.length < 9223372036854775808) :
    ∀ (n pos : Nat) (ptb : Bytes) (cnt ppos : Nat) (ct : Bytes) (l : List Bytes) (calls : Nat),
      ptb.length = P.ptSeg → pos ≤ p.length → ppos ≤ Stream.lim P cnt →
      (p.length - pos) + (if ppos < Stream.lim P cnt then 0 else 1) < n →
      WriteTied (Stream.feed P C f (wAbs ptb ppos cnt false (l, calls)) (p.drop pos) pos) P.ptSeg
        (loopResult (whileSteps n ((pos : Int), ptb, cnt, (ppos : Int), ct, (l, calls))
          (fun s1 => (W! NoncebasedSeg.Write.loop1.body) s1))) := by
  intro n
  induction n with
  | zero => intro pos ptb cnt ppos ct l calls _ _ _ hm; omega
  | succ n ih =>
    intro pos ptb cnt ppos ct l calls hlen hpos hppos hm
    have hS := seg_Write_step P C f fuel enc encDst nonceSize pre useDst pt0 cnt0 ppos0 ct0 w0 p pos ptb cnt ppos ct l calls
      hC hsize hmax hlen hoff hseg hp hpos hppos
    have hF := feed_step P C f ptb ppos cnt l calls p pos hlen hpos hppos hseg0
    obtain ⟨k, hk⟩ : ∃ k, k = wChunk P cnt ppos pos p := ⟨_, rfl⟩
    rw [← hk] at hS hF
    have hlimle : Stream.lim P cnt ≤ P.ptSeg := by rw [Stream.lim]; split <;> omega
    have hkdef : k = min (Stream.lim P cnt - ppos) (p.length - pos) := by rw [hk, wChunk]
    obtain ⟨hB1, hB2, hB3⟩ := wBuf_facts ptb ppos k pos p (by omega) (by omega)
    by_cases hbrk : pos + k = p.length
    · rw [if_pos hbrk] at hS hF
      rw [whileSteps_brk n _ _ _ hS, hF]
      refine ⟨wBuf ptb ppos k pos p, ct, ?_, by rw [hB1, hlen], ?_⟩
      · simp only [loopResult, wAbs, hB2, hB3, wCode]
      · simp only [wAbs, hB2, hB3]
    · rw [if_neg hbrk] at hS hF
      by_cases hi : cnt ≥ 4294967295
      · rw [if_pos hi] at hS hF
        rw [whileSteps_ret n _ _ _ hS, hF]
        refine ⟨wBuf ptb ppos k pos p, ct, ?_, by rw [hB1, hlen], ?_⟩
        · simp only [loopResult, wAbs, hB2, hB3, wCode]
        · simp only [wAbs, hB2, hB3]
      · rw [if_neg hi] at hS hF
        by_cases hf : Stream.sinkFails f calls = true
        · rw [if_pos hf] at hS hF
          rw [whileSteps_ret n _ _ _ hS, hF]
          refine ⟨wBuf ptb ppos k pos p, C.enc cnt false ((wBuf ptb ppos k pos p).take (Stream.lim P cnt)), ?_,
            by rw [hB1, hlen], ?_⟩
          · simp only [loopResult, wAbs, hB2, hB3, wCode]
          · simp only [wAbs, hB2, hB3]
        · rw [if_neg hf] at hS hF
          rw [whileSteps_next n _ _ _ hS, hF]
          have hlim1 : Stream.lim P (cnt + 1) = P.ptSeg := by simp [Stream.lim]
          exact ih (pos + k) (wBuf ptb ppos k pos p) (cnt + 1) 0 _ _ (calls + 1) (by rw [hB1, hlen]) (by omega)
            (Nat.zero_le _) (by
              rw [hlim1, if_pos hseg0]
              by_cases hlt : ppos < Stream.lim P cnt
              · rw [if_pos hlt] at hm; omega
              · rw [if_neg hlt] at hm; omega)

/-- why `0 < PlaintextSegmentSize` is needed in `seg_Write_eq`: with a zero segment size (accepted by `NewWriter`,
    refused by the key managers) an iteration with input left copies nothing, emits an EMPTY segment and bumps the
    counter — `pos` does not move, so the Go loop only ends with `ErrTooManySegments` after 2³²−1 empty segments,
    whereas the model's `feed` stores the byte after one flush. -/
theorem seg_Write_no_progress (pos cnt : Nat) (ct : Bytes) (l : List Bytes) (calls : Nat)
    (hC : EncOK nonceSize pre C enc encDst)
    (hsize : pre.length + 5 ≤ nonceSize) (hmax : nonceSize < 9223372036854775808)
    (hz : P.ptSeg = 0) (hoff : P.off = 0) (hp : p.length < 9223372036854775808) (hpos : pos < p.length)
    (hcnt : cnt < 4294967295) (hf : Stream.sinkFails f calls = false) :
    (W! NoncebasedSeg.Write.loop1.body) ((pos : Int), [], cnt, ((0 : Nat) : Int), ct, (l, calls)) =
      Step.next ((pos : Int), [], cnt + 1, ((0 : Nat) : Int), C.enc cnt false [],
        (l ++ [C.enc cnt false []], calls + 1)) := by
  have hS := seg_Write_step P C f fuel enc encDst nonceSize pre useDst pt0 cnt0 ppos0 ct0 w0 p pos [] cnt 0 ct l calls
    hC hsize hmax (by rw [hz]; rfl) (by omega) (by omega) hp (by omega) (Nat.zero_le _)
  have hk : wChunk P cnt 0 pos p = 0 := by simp [wChunk, Stream.lim, hz]
  have hB : wBuf [] 0 0 pos p = [] := by simp [wBuf]
  rw [hk, hB] at hS
  rw [hS, if_neg (by omega), if_neg (by omega), hf]
  simp

end WriteTie

/-- `(*Writer).Write`, the whole method: for every fuel ≥ `len p + 2` (so the Go loop terminates) the generated `Write`
    returns the model's `Stream.write` (count, error, sink, counter, buffered plaintext).
    Needs `0 < PlaintextSegmentSize` and `FirstCiphertextSegmentOffset ≤ PlaintextSegmentSize`: for a zero segment
    size the Go loop makes no progress (it writes empty segments until `ErrTooManySegments`) while the model's `feed`
    puts the byte into the buffer; for `off > ptSeg` Go panics (negative slice bound). -/
theorem seg_Write_eq (P : Stream.Params) (C : Stream.Cipher) (f : Stream.Fault) (fuel : Nat)
    (enc : Bytes → Bytes → Bytes × Nat) (encDst : Bytes → Bytes → Bytes → Bytes × Nat)
    (nonceSize : Nat) (pre : Bytes) (useDst : Bool) (closed : Bool)
    (ptb : Bytes) (cnt ppos : Nat) (ct : Bytes) (w : List Bytes × Nat) (p : Bytes)
    (hC : EncOK nonceSize pre C enc encDst)
    (hsize : pre.length + 5 ≤ nonceSize) (hmax : nonceSize < 9223372036854775808)
    (hlen : ptb.length = P.ptSeg) (hoff : P.off ≤ P.ptSeg) (hseg0 : 0 < P.ptSeg)
    (hseg : P.ptSeg < 9223372036854775808) (hp : p.length < 9223372036854775808)
    (hppos : ppos ≤ Stream.lim P cnt) (hfuel : p.length + 2 ≤ fuel) :
    WriteTied (Stream.write P C f (wAbs ptb ppos cnt closed w) p) P.ptSeg
      (NoncebasedSeg.Write (List Bytes × Nat) (mSink f) fuel encDst enc closed ptb cnt (P.off : Int) (ppos : Int)
        (nonceSize : Int) pre useDst ct p w) := by
  obtain ⟨l, calls⟩ := w
  have hlimle : Stream.lim P cnt ≤ P.ptSeg := by rw [Stream.lim]; split <;> omega
  cases closed with
  | true =>
    refine ⟨ptb, ct, ?_, hlen, ?_⟩
    · have : (ptb.take ppos).length = ppos := by rw [List.length_take]; omega
      simp [NoncebasedSeg.Write, Stream.write, wAbs, wCode, this]
    · simp [Stream.write, wAbs]
  | false =>
    have hL := write_loop P C f fuel enc encDst nonceSize pre useDst ptb cnt (ppos : Int) ct (l, calls) p hC hsize hmax hoff
      hseg0 hseg hp fuel 0 ptb cnt ppos ct l calls hlen (Nat.zero_le _) hppos (by split <;> omega)
    have hW : NoncebasedSeg.Write (List Bytes × Nat) (mSink f) fuel encDst enc false ptb cnt (P.off : Int) (ppos : Int)
        (nonceSize : Int) pre useDst ct p (l, calls)
        = loopResult (whileSteps fuel (((0 : Nat) : Int), ptb, cnt, (ppos : Int), ct, (l, calls))
          (fun s1 => NoncebasedSeg.Write.loop1.body (List Bytes × Nat) (mSink f) fuel encDst enc false ptb cnt (P.off : Int)
            (ppos : Int) (nonceSize : Int) pre useDst ct p (l, calls) s1)) := by
      simp only [NoncebasedSeg.Write, Bool.false_eq_true, ↓reduceIte, NoncebasedSeg.Write.v26,
        NoncebasedSeg.Write.v27, NoncebasedSeg.Write.v28,
        NoncebasedSeg.Write.v29, NoncebasedSeg.Write.v30, NoncebasedSeg.Write.v25,
        NoncebasedSeg.Write.loop1, NoncebasedSeg.Write.v1, loopResult, Int.natCast_zero]
      rfl
    rw [hW]
    have hM : Stream.write P C f (wAbs ptb ppos cnt false (l, calls)) p
        = Stream.feed P C f (wAbs ptb ppos cnt false (l, calls)) (p.drop 0) 0 := by
      simp [Stream.write, wAbs]
    rw [hM]
    exact hL



/-! non-vacuity: the writer hypotheses are satisfiable, and a concrete run (segment size 2, identity "cipher",
    3 bytes written into a fresh writer: one full segment reaches the sink, one byte stays buffered) -/

example : ∃ (P : Stream.Params) (ptb : Bytes) (cnt ppos : Nat) (p : Bytes) (fuel : Nat),
    ptb.length = P.ptSeg ∧ P.off ≤ P.ptSeg ∧ 0 < P.ptSeg ∧ P.ptSeg < 9223372036854775808
    ∧ p.length < 9223372036854775808 ∧ ppos ≤ Stream.lim P cnt ∧ p.length + 2 ≤ fuel :=
  ⟨⟨2, 0, 0⟩, [0, 0], 0, 0, [1, 2, 3], 5, by decide⟩

example : NoncebasedSeg.Write (List Bytes × Nat) (mSink none) 5 (fun _ s _ => (s, 0)) (fun s _ => (s, 0)) false
      [0, 0] 0 0 0 12 [1, 2, 3, 4, 5, 6, 7] false [] [1, 2, 3] ([], 0)
    = ([3, 2], 1, 1, [1, 2], ([[1, 2]], 1), 3, 0) := by rfl

example : Stream.write ⟨2, 0, 0⟩ ⟨fun _ _ s => s, fun _ _ s => some s⟩ none (wAbs [0, 0] 0 0 false ([], 0)) [1, 2, 3]
    = (⟨[3], 1, false, [[1, 2]], 1⟩, 3, none) := by rfl

example : ∃ (pt : Bytes) (pos : Nat), pos ≤ pt.length := ⟨[1, 2], 1, by decide⟩

section AxiomAudit
#print axioms seg_generateSegmentNonce_eq
#print axioms seg_generateSegmentNonce_limit
#print axioms seg_Close_eq
#print axioms seg_Read_buffered
#print axioms seg_Read_eof
#print axioms seg_Read_fetch
#print axioms seg_Read_too_short
#print axioms seg_Read_eq
#print axioms seg_Write_step
#print axioms feed_append_fits
#print axioms feed_full
#print axioms feed_step
#print axioms write_loop
#print axioms seg_Write_eq
#print axioms seg_Write_no_progress
end AxiomAudit

end TinkVerif.GlueTie
