import TinkVerif.Gen.GlueKeyDerivers
import TinkVerif.Lemmas.GlueSem
/-
  GLUE TIE (whole closures): keyderivation/internal/keyderivers — the key derivers registered by addHMACPRFKeyDeriver and
  addHKDFPRFKeyDeriver (the single function literal of each is translated as a function, gluetr -closure), regenerated into
  Gen/GlueKeyDerivers.lean on every check run.
  Abstract: key parameters and the type assertion on them (`Params_as_…` : value and ok flag), `KeySizeInBytes`, the keystream
  reader with `readFull : Rd → Int → Option Bytes` (= io.ReadFull into a buffer of that length: `none` = ANY error, otherwise
  exactly that many bytes), `secretdata.NewBytesFromData` (the access token carries no information), `NewKey`.
  The theorems: the key material is exactly the `KeySizeInBytes()` bytes read; EVERY read error fails the derivation (no
  zero-filled or short key material is ever passed on).
  Not covered: the other derivers of the file (same shape, other key types; AES-GCM etc. with version / size checks).
-/
namespace TinkVerif.GlueTie
open TinkVerif

theorem keyderivers_len_makeBytes (n : Int) (hn : 0 ≤ n) : GoSem.len (GoSem.makeBytes n) = n := by
  simp only [GoSem.len, GoSem.makeBytes, List.length_replicate, Int.ofNat_eq_natCast]
  omega

theorem keyderivers_bind_copy (α : Type) (n : Int) (hn : 0 ≤ n) (r : Option Bytes)
    (hr : ∀ b, r = some b → (b.length : Int) = n) (f : Bytes → Option α) :
    r.bind (fun b1 => f (GoSem.copyInto (GoSem.makeBytes n) (0 : Int) (GoSem.len (GoSem.makeBytes n)) b1)) = r.bind f := by
  cases r with
  | none => rfl
  | some b =>
    have hb := hr b rfl
    have hl : b.length = (GoSem.makeBytes n).length := by
      have := keyderivers_len_makeBytes n hn
      simp only [GoSem.len, Int.ofNat_eq_natCast] at this
      omega
    simp only [Option.bind_some]
    rw [GoSem.copyInto_all _ _ hl]

theorem keyderivers_hmacPRF_tie (HKey HParams KKey KParams Key Params Rd SBytes : Type) (keySize : HParams → Int)
    (newKey : SBytes → HParams → Option HKey) (secretBytes : Bytes → SBytes) (cast : Params → HParams × Bool)
    (readFull : Rd → Int → Option Bytes) (p : Params) (rd : Rd)
    (hread : ∀ n b, readFull rd n = some b → (b.length : Int) = n) (hsize : 0 ≤ keySize (cast p).1) :
    Gen.GlueKeyDerivers.KeyDerivers.hmacPRFDeriver HKey HParams KKey KParams Key Params Rd SBytes keySize newKey secretBytes cast readFull p rd
      = if (cast p).2 then (readFull rd (keySize (cast p).1)).bind (fun b => newKey (secretBytes b) (cast p).1) else none := by
  unfold Gen.GlueKeyDerivers.KeyDerivers.hmacPRFDeriver
  simp only [Gen.GlueKeyDerivers.KeyDerivers.hmacPRFDeriver.v1, Gen.GlueKeyDerivers.KeyDerivers.hmacPRFDeriver.v2,
    Gen.GlueKeyDerivers.KeyDerivers.hmacPRFDeriver.v3, Gen.GlueKeyDerivers.KeyDerivers.hmacPRFDeriver.v4,
    Gen.GlueKeyDerivers.KeyDerivers.hmacPRFDeriver.v5, Gen.GlueKeyDerivers.KeyDerivers.hmacPRFDeriver.v6, Int.sub_zero]
  by_cases hc : (cast p).2 = true
  · rw [if_neg (by simp [hc]), if_pos hc, keyderivers_len_makeBytes _ hsize]
    have h := keyderivers_bind_copy _ _ hsize _ (fun b hb => hread _ b hb) (fun b => newKey (secretBytes b) (cast p).1)
    rw [keyderivers_len_makeBytes _ hsize] at h
    exact h
  · rw [if_pos hc, if_neg hc]

theorem keyderivers_hkdfPRF_tie (HKey HParams KKey KParams Key Params Rd SBytes : Type) (keySize : KParams → Int)
    (newKey : SBytes → KParams → Option KKey) (secretBytes : Bytes → SBytes) (cast : Params → KParams × Bool)
    (readFull : Rd → Int → Option Bytes) (p : Params) (rd : Rd)
    (hread : ∀ n b, readFull rd n = some b → (b.length : Int) = n) (hsize : 0 ≤ keySize (cast p).1) :
    Gen.GlueKeyDerivers.KeyDerivers.hkdfPRFDeriver HKey HParams KKey KParams Key Params Rd SBytes keySize newKey secretBytes cast readFull p rd
      = if (cast p).2 then (readFull rd (keySize (cast p).1)).bind (fun b => newKey (secretBytes b) (cast p).1) else none := by
  unfold Gen.GlueKeyDerivers.KeyDerivers.hkdfPRFDeriver
  simp only [Gen.GlueKeyDerivers.KeyDerivers.hkdfPRFDeriver.v1, Gen.GlueKeyDerivers.KeyDerivers.hkdfPRFDeriver.v2,
    Gen.GlueKeyDerivers.KeyDerivers.hkdfPRFDeriver.v3, Gen.GlueKeyDerivers.KeyDerivers.hkdfPRFDeriver.v4,
    Gen.GlueKeyDerivers.KeyDerivers.hkdfPRFDeriver.v5, Gen.GlueKeyDerivers.KeyDerivers.hkdfPRFDeriver.v6, Int.sub_zero]
  by_cases hc : (cast p).2 = true
  · rw [if_neg (by simp [hc]), if_pos hc, keyderivers_len_makeBytes _ hsize]
    have h := keyderivers_bind_copy _ _ hsize _ (fun b hb => hread _ b hb) (fun b => newKey (secretBytes b) (cast p).1)
    rw [keyderivers_len_makeBytes _ hsize] at h
    exact h
  · rw [if_pos hc, if_neg hc]

/-- a failing read (of any kind) fails the derivation -/
theorem keyderivers_hmacPRF_read_error (HKey HParams KKey KParams Key Params Rd SBytes : Type) (keySize : HParams → Int)
    (newKey : SBytes → HParams → Option HKey) (secretBytes : Bytes → SBytes) (cast : Params → HParams × Bool)
    (readFull : Rd → Int → Option Bytes) (p : Params) (rd : Rd)
    (hfail : readFull rd (GoSem.len (GoSem.makeBytes (keySize (cast p).1))) = none) :
    Gen.GlueKeyDerivers.KeyDerivers.hmacPRFDeriver HKey HParams KKey KParams Key Params Rd SBytes keySize newKey secretBytes cast readFull p rd
      = none := by
  unfold Gen.GlueKeyDerivers.KeyDerivers.hmacPRFDeriver
  simp only [Gen.GlueKeyDerivers.KeyDerivers.hmacPRFDeriver.v1, Gen.GlueKeyDerivers.KeyDerivers.hmacPRFDeriver.v2,
    Gen.GlueKeyDerivers.KeyDerivers.hmacPRFDeriver.v3, Gen.GlueKeyDerivers.KeyDerivers.hmacPRFDeriver.v4,
    Gen.GlueKeyDerivers.KeyDerivers.hmacPRFDeriver.v5, Gen.GlueKeyDerivers.KeyDerivers.hmacPRFDeriver.v6, Int.sub_zero]
  by_cases hc : (cast p).2 = true
  · rw [if_neg (by simp [hc]), hfail]; rfl
  · rw [if_pos hc]

end TinkVerif.GlueTie

section AxiomAudit
#print axioms TinkVerif.GlueTie.keyderivers_hmacPRF_tie
#print axioms TinkVerif.GlueTie.keyderivers_hkdfPRF_tie
#print axioms TinkVerif.GlueTie.keyderivers_hmacPRF_read_error
end AxiomAudit
