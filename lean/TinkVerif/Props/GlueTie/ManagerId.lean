import TinkVerif.Lemmas.GlueSemSteps
import TinkVerif.Lemmas.Manager
import TinkVerif.Gen.GlueManagerId
import TinkVerif.Model.Rand
/-
  Tie, whole function: `(*Manager).newRandomKeyID` of /repo/keyset/manager.go, regenerated on every check run as
  Gen/GlueManagerId.lean by go/harness/gluetr ("stateful mode"), equals the hand model `Manager.drawId`
  (Model/Manager.lean) on the words the random source delivers (`Rand.words`, Model/Rand.lean).

      func (km *Manager) newRandomKeyID() uint32 {
          for {
              newRandomID := random.GetRandomUint32()
              if _, found := km.unavailableKeyIDs[newRandomID]; !found {
                  km.unavailableKeyIDs[newRandomID] = true
                  return newRandomID
              }
          }
      }

  Abstractions.
  * The random source is an external object with an abstract state type `S` and `draw : S → Nat × S` standing for
    `random.GetRandomUint32()` (the word delivered and the next state).  The general theorems
    (`managerId_newRandomKeyID_gen`, `managerId_fresh_gen`, `managerId_exhausted_gen`) hold for EVERY `S` and
    `draw`; nothing is assumed about it (not even that words are < 2^32).  The tape instance is `S := Nat` (the
    offset into the byte tape `t : Rand.Tape`), `tapeDraw t off = (Rand.wordAt t off, off + 4)`: each draw consumes
    four tape bytes, big endian, as the C20 harness observes.
  * The Go `map[uint32]bool` used as a set is a `List Nat` (`m[k]` is `decide (k ∈ m)`, `m[k] = true` is `k :: m`).
  * The value of the translation is (source state', unavailableKeyIDs', result).
  * Fuel: the Go loop `for { … }` has no bound; `ManagerGo.newRandomKeyID` has the extra parameter `fuel` (maximal
    number of iterations; on exhaustion the value is (state, unavailable, 0)).  The tie says: if one of the first `k`
    words is available (`Manager.drawId unavail (first k words) = some id`) then for EVERY `fuel ≥ k` the Go function
    returns `id` after consuming exactly `j = drawCount unavail words` words (`1 ≤ j ≤ k`; the first `j-1` words are
    unavailable, the `j`-th is `id`, `id ∉ unavail`: `drawCount_spec`), the set becomes `id :: unavail`, the source
    is left after the `j`-th draw (tape: offset `off + 4*j`).  If all of the first `fuel` words are unavailable
    (`drawId … = none`, the model's `stuck`) the translation runs out of fuel with an unchanged set
    (`managerId_exhausted`): the real loop would keep drawing, i.e. it terminates iff some word is available.
  The key parser / key material are not involved.
-/
namespace TinkVerif.GlueTie
open TinkVerif TinkVerif.GoSem
open TinkVerif.Gen.GlueManagerId

namespace ManagerId

/-- the first `k` words an arbitrary source delivers from state `s` -/
def drawSeq {S : Type} (draw : S → Nat × S) : S → Nat → List Nat
  | _, 0 => []
  | s, k + 1 => (draw s).1 :: drawSeq draw (draw s).2 k

/-- the source state after `j` draws -/
def drawState {S : Type} (draw : S → Nat × S) : S → Nat → S
  | s, 0 => s
  | s, j + 1 => drawState draw (draw s).2 j

/-- number of words `newRandomKeyID` consumes from the word list `ds`: index of the first available word + 1
    (`ds.length` if there is none) -/
def drawCount (unavail : List Nat) : List Nat → Nat
  | [] => 0
  | d :: ds => if d ∈ unavail then drawCount unavail ds + 1 else 1

/-- the tape as a source: state = offset; one draw = the big-endian word of the next four bytes -/
def tapeDraw (t : Rand.Tape) (off : Nat) : Nat × Nat := (Rand.wordAt t off, off + 4)

end ManagerId
open ManagerId

/-! ### the counting function -/

/-- characterisation of `j = drawCount unavail ds` when some word is available -/
theorem drawCount_spec (unavail ds : List Nat) (id : Nat) (h : Manager.drawId unavail ds = some id) :
    1 ≤ drawCount unavail ds ∧ drawCount unavail ds ≤ ds.length ∧
    ds[drawCount unavail ds - 1]? = some id ∧ id ∉ unavail ∧
    ∀ m, m < drawCount unavail ds - 1 → ∀ x, ds[m]? = some x → x ∈ unavail := by
  induction ds with
  | nil => simp [Manager.drawId] at h
  | cons d rest ih =>
    unfold Manager.drawId at h
    unfold drawCount
    by_cases hd : d ∈ unavail
    · rw [if_pos hd] at h
      rw [if_pos hd]
      obtain ⟨h1, h2, h3, h4, h5⟩ := ih h
      refine ⟨by omega, by rw [List.length_cons]; omega, ?_, h4, ?_⟩
      · have e : drawCount unavail rest + 1 - 1 = (drawCount unavail rest - 1) + 1 := by omega
        rw [e, List.getElem?_cons_succ]
        exact h3
      · intro m hm x hx
        cases m with
        | zero =>
          rw [List.getElem?_cons_zero] at hx
          cases hx
          exact hd
        | succ m =>
          rw [List.getElem?_cons_succ] at hx
          exact h5 m (by omega) x hx
    · rw [if_neg hd] at h
      rw [if_neg hd]
      cases h
      refine ⟨Nat.le_refl 1, by rw [List.length_cons]; omega, by simp, hd, ?_⟩
      intro m hm
      omega

theorem drawSeq_length {S : Type} (draw : S → Nat × S) (s : S) (k : Nat) : (drawSeq draw s k).length = k := by
  induction k generalizing s with
  | zero => rfl
  | succ k ih => rw [drawSeq, List.length_cons, ih]

/-! ### the tape instance -/

theorem drawSeq_tape (t : Rand.Tape) (off k : Nat) : drawSeq (tapeDraw t) off k = Rand.words t off k := by
  induction k generalizing off with
  | zero => rfl
  | succ k ih =>
    rw [drawSeq, Rand.words]
    exact congrArg _ (ih (off + 4))

theorem drawState_tape (t : Rand.Tape) (off j : Nat) : drawState (tapeDraw t) off j = off + 4 * j := by
  induction j generalizing off with
  | zero => rfl
  | succ j ih =>
    rw [drawState]
    have e : (tapeDraw t off).2 = off + 4 := rfl
    rw [e, ih]
    omega

/-! ### the loop -/

/-- one iteration of the Go loop body on an unavailable word: go on with the next source state -/
theorem newRandomKeyID_body_next {S : Type} (draw : S → Nat × S) (fuel : Nat) (u0 : List Nat) (s0 : S)
    (s : S) (u : List Nat) (h : (draw s).1 ∈ u) :
    ManagerGo.newRandomKeyID.loop1.body S draw fuel u0 s0 (s, u) = Step.next ((draw s).2, u) := by
  simp only [ManagerGo.newRandomKeyID.loop1.body, ManagerGo.newRandomKeyID.loop1.v4,
    ManagerGo.newRandomKeyID.loop1.v3, ManagerGo.newRandomKeyID.loop1.v1,
    ManagerGo.newRandomKeyID.loop1.v2, h, decide_true, not_true_eq_false, ↓reduceIte]

/-- one iteration on an available word: `return` it, having marked it unavailable -/
theorem newRandomKeyID_body_ret {S : Type} (draw : S → Nat × S) (fuel : Nat) (u0 : List Nat) (s0 : S)
    (s : S) (u : List Nat) (h : (draw s).1 ∉ u) :
    ManagerGo.newRandomKeyID.loop1.body S draw fuel u0 s0 (s, u)
      = Step.ret ((draw s).2, (draw s).1 :: u, (draw s).1) := by
  simp only [ManagerGo.newRandomKeyID.loop1.body, ManagerGo.newRandomKeyID.loop1.v4,
    ManagerGo.newRandomKeyID.loop1.v3, ManagerGo.newRandomKeyID.loop1.v1,
    ManagerGo.newRandomKeyID.loop1.v2, ManagerGo.newRandomKeyID.loop1.v5, h, decide_false,
    Bool.false_eq_true, not_false_eq_true, ↓reduceIte]

/-- the `whileSteps` loop, started anywhere (the body's unused parameters `fuel0 u0 s0` are those of the call) -/
theorem newRandomKeyID_loop_found {S : Type} (draw : S → Nat × S) (fuel0 : Nat) (u0 : List Nat) (s0 : S)
    (unavail : List Nat) (k : Nat) : ∀ (s : S) (fuel : Nat) (id : Nat),
    Manager.drawId unavail (drawSeq draw s k) = some id → k ≤ fuel →
    whileSteps fuel (s, unavail) (fun s1 => ManagerGo.newRandomKeyID.loop1.body S draw fuel0 u0 s0 s1)
      = (some (drawState draw s (drawCount unavail (drawSeq draw s k)), id :: unavail, id),
         (drawState draw s (drawCount unavail (drawSeq draw s k) - 1), unavail)) := by
  induction k with
  | zero =>
    intro s fuel id h _
    simp [drawSeq, Manager.drawId] at h
  | succ k ih =>
    intro s fuel id h hf
    cases fuel with
    | zero => omega
    | succ fuel =>
      rw [drawSeq] at h ⊢
      unfold Manager.drawId at h
      unfold drawCount
      by_cases hd : (draw s).1 ∈ unavail
      · rw [if_pos hd] at h
        rw [if_pos hd, whileSteps_next fuel _ _ _ (newRandomKeyID_body_next draw fuel0 u0 s0 s unavail hd),
          ih (draw s).2 fuel id h (by omega), drawState]
        have h1 := (drawCount_spec unavail _ id h).1
        have e : drawCount unavail (drawSeq draw (draw s).2 k) + 1 - 1
            = (drawCount unavail (drawSeq draw (draw s).2 k) - 1) + 1 := by omega
        rw [e, drawState]
      · rw [if_neg hd] at h
        cases h
        rw [if_neg hd, whileSteps_ret fuel _ _ _ (newRandomKeyID_body_ret draw fuel0 u0 s0 s unavail hd)]
        rfl

/-- all of the first `fuel` words unavailable: the loop uses up its fuel, the set is unchanged -/
theorem newRandomKeyID_loop_exhausted {S : Type} (draw : S → Nat × S) (fuel0 : Nat) (u0 : List Nat) (s0 : S)
    (unavail : List Nat) (fuel : Nat) : ∀ (s : S),
    Manager.drawId unavail (drawSeq draw s fuel) = none →
    whileSteps fuel (s, unavail) (fun s1 => ManagerGo.newRandomKeyID.loop1.body S draw fuel0 u0 s0 s1)
      = (none, (drawState draw s fuel, unavail)) := by
  induction fuel with
  | zero => intro s _; rfl
  | succ fuel ih =>
    intro s h
    rw [drawSeq] at h
    unfold Manager.drawId at h
    by_cases hd : (draw s).1 ∈ unavail
    · rw [if_pos hd] at h
      rw [whileSteps_next fuel _ _ _ (newRandomKeyID_body_next draw fuel0 u0 s0 s unavail hd), ih _ h, drawState]
    · rw [if_neg hd] at h
      cases h

/-! ### tie theorems -/

/-- TIE, arbitrary random source: if one of the first `k` words is available, then with any fuel ≥ `k` the Go
    function returns the model's id, marks it unavailable and leaves the source after the `j`-th draw,
    `j = drawCount unavail (the words)` (see `drawCount_spec`). -/
theorem managerId_newRandomKeyID_gen {S : Type} (draw : S → Nat × S) (unavail : List Nat) (s : S) (k id : Nat)
    (h : Manager.drawId unavail (drawSeq draw s k) = some id) (fuel : Nat) (hf : k ≤ fuel) :
    ManagerGo.newRandomKeyID S draw fuel unavail s
      = (drawState draw s (drawCount unavail (drawSeq draw s k)), id :: unavail, id) := by
  simp only [ManagerGo.newRandomKeyID, ManagerGo.newRandomKeyID.loop1,
    newRandomKeyID_loop_found draw fuel unavail s unavail k s fuel id h hf]

/-- the model's `stuck`: all of the first `fuel` words are unavailable — out of fuel, nothing marked, result 0 -/
theorem managerId_exhausted_gen {S : Type} (draw : S → Nat × S) (unavail : List Nat) (s : S) (fuel : Nat)
    (h : Manager.drawId unavail (drawSeq draw s fuel) = none) :
    ManagerGo.newRandomKeyID S draw fuel unavail s = (drawState draw s fuel, unavail, 0) := by
  simp only [ManagerGo.newRandomKeyID, ManagerGo.newRandomKeyID.loop1, ManagerGo.newRandomKeyID.v6,
    ManagerGo.newRandomKeyID.v7,
    newRandomKeyID_loop_exhausted draw fuel unavail s unavail fuel s h]

/-- the returned id is not in the old unavailable set and is in the new one (which is the old one plus the id) -/
theorem managerId_fresh_gen {S : Type} (draw : S → Nat × S) (unavail : List Nat) (s : S) (k id : Nat)
    (h : Manager.drawId unavail (drawSeq draw s k) = some id) (fuel : Nat) (hf : k ≤ fuel) :
    (ManagerGo.newRandomKeyID S draw fuel unavail s).2.2 = id ∧
    (ManagerGo.newRandomKeyID S draw fuel unavail s).2.2 ∉ unavail ∧
    (ManagerGo.newRandomKeyID S draw fuel unavail s).2.2 ∈ (ManagerGo.newRandomKeyID S draw fuel unavail s).2.1 ∧
    (ManagerGo.newRandomKeyID S draw fuel unavail s).2.1
      = (ManagerGo.newRandomKeyID S draw fuel unavail s).2.2 :: unavail := by
  rw [managerId_newRandomKeyID_gen draw unavail s k id h fuel hf]
  exact ⟨rfl, Manager.drawId_not_mem h, List.mem_cons_self, rfl⟩

/-- TIE, tape model (`S := Nat` = offset, one draw = `Rand.wordAt`, four bytes): with
    `j = drawCount unavail (Rand.words t off k)` words consumed (characterised by `managerId_count_spec`) -/
theorem managerId_newRandomKeyID_eq (t : Rand.Tape) (unavail : List Nat) (off k id : Nat)
    (h : Manager.drawId unavail (Rand.words t off k) = some id) (fuel : Nat) (hf : k ≤ fuel) :
    ManagerGo.newRandomKeyID Nat (tapeDraw t) fuel unavail off
      = (off + 4 * drawCount unavail (Rand.words t off k), id :: unavail, id) := by
  rw [← drawSeq_tape] at h
  rw [managerId_newRandomKeyID_gen (tapeDraw t) unavail off k id h fuel hf, drawState_tape, drawSeq_tape]

/-- what `j` is: `1 ≤ j ≤ k`, the `j`-th word (index `j-1`) is `id`, `id` is available, all earlier words are
    unavailable -/
theorem managerId_count_spec (t : Rand.Tape) (unavail : List Nat) (off k id : Nat)
    (h : Manager.drawId unavail (Rand.words t off k) = some id) :
    1 ≤ drawCount unavail (Rand.words t off k) ∧ drawCount unavail (Rand.words t off k) ≤ k ∧
    (Rand.words t off k)[drawCount unavail (Rand.words t off k) - 1]? = some id ∧ id ∉ unavail ∧
    ∀ m, m < drawCount unavail (Rand.words t off k) - 1 → ∀ x, (Rand.words t off k)[m]? = some x → x ∈ unavail := by
  have hs := drawCount_spec unavail (Rand.words t off k) id h
  rw [← drawSeq_tape, drawSeq_length, drawSeq_tape] at hs
  exact hs

/-- the existential form requested: some `j` with the characterisation -/
theorem managerId_newRandomKeyID_ex (t : Rand.Tape) (unavail : List Nat) (off k id : Nat)
    (h : Manager.drawId unavail (Rand.words t off k) = some id) :
    ∃ j, 1 ≤ j ∧ j ≤ k ∧ (Rand.words t off k)[j - 1]? = some id ∧ id ∉ unavail ∧
      (∀ m, m < j - 1 → ∀ x, (Rand.words t off k)[m]? = some x → x ∈ unavail) ∧
      ∀ fuel, k ≤ fuel →
        ManagerGo.newRandomKeyID Nat (tapeDraw t) fuel unavail off = (off + 4 * j, id :: unavail, id) := by
  obtain ⟨h1, h2, h3, h4, h5⟩ := managerId_count_spec t unavail off k id h
  exact ⟨_, h1, h2, h3, h4, h5, fun fuel hf => managerId_newRandomKeyID_eq t unavail off k id h fuel hf⟩

/-- tape model: the returned id is fresh and recorded -/
theorem managerId_fresh (t : Rand.Tape) (unavail : List Nat) (off k id : Nat)
    (h : Manager.drawId unavail (Rand.words t off k) = some id) (fuel : Nat) (hf : k ≤ fuel) :
    (ManagerGo.newRandomKeyID Nat (tapeDraw t) fuel unavail off).2.2 = id ∧
    (ManagerGo.newRandomKeyID Nat (tapeDraw t) fuel unavail off).2.2 ∉ unavail ∧
    (ManagerGo.newRandomKeyID Nat (tapeDraw t) fuel unavail off).2.2
      ∈ (ManagerGo.newRandomKeyID Nat (tapeDraw t) fuel unavail off).2.1 ∧
    (ManagerGo.newRandomKeyID Nat (tapeDraw t) fuel unavail off).2.1
      = (ManagerGo.newRandomKeyID Nat (tapeDraw t) fuel unavail off).2.2 :: unavail := by
  rw [← drawSeq_tape] at h
  exact managerId_fresh_gen (tapeDraw t) unavail off k id h fuel hf

/-- tape model, out of fuel: all of the first `fuel` words unavailable -/
theorem managerId_exhausted (t : Rand.Tape) (unavail : List Nat) (off fuel : Nat)
    (h : Manager.drawId unavail (Rand.words t off fuel) = none) :
    ManagerGo.newRandomKeyID Nat (tapeDraw t) fuel unavail off = (off + 4 * fuel, unavail, 0) := by
  rw [← drawSeq_tape] at h
  rw [managerId_exhausted_gen (tapeDraw t) unavail off fuel h, drawState_tape]

/-! ### non-vacuity -/

section Examples

/-- a source that counts: words 0, 1, 2, … -/
def countDraw (s : Nat) : Nat × Nat := (s, s + 1)

/-- words 5, 6 are taken, 7 is free: three draws, id 7 (hypothesis of `managerId_newRandomKeyID_gen` holds) -/
example : Manager.drawId [6, 5] (drawSeq countDraw 5 4) = some 7 ∧ drawCount [6, 5] (drawSeq countDraw 5 4) = 3
    ∧ ManagerGo.newRandomKeyID Nat countDraw 4 [6, 5] 5 = (8, [7, 6, 5], 7) := by decide

/-- too little fuel (2 < 3 draws needed): the fuel runs out — the bound `k ≤ fuel` is needed -/
example : ManagerGo.newRandomKeyID Nat countDraw 2 [6, 5] 5 = (7, [6, 5], 0)
    ∧ Manager.drawId [6, 5] (drawSeq countDraw 5 2) = none := by decide

/-- a tape: bytes 0,0,0,1, 0,0,0,2, …: word at offset 4i is i+1 -/
def exTape : Rand.Tape := fun i => if i % 4 = 3 then UInt8.ofNat (i / 4 + 1) else 0

example : Rand.words exTape 0 3 = [1, 2, 3] := by decide

/-- ids 1 and 2 are taken: two redraws, 12 tape bytes consumed, id 3 -/
example : Manager.drawId [1, 2] (Rand.words exTape 0 3) = some 3
    ∧ drawCount [1, 2] (Rand.words exTape 0 3) = 3
    ∧ ManagerGo.newRandomKeyID Nat (tapeDraw exTape) 3 [1, 2] 0 = (12, [3, 1, 2], 3)
    ∧ ManagerGo.newRandomKeyID Nat (tapeDraw exTape) 10 [1, 2] 0 = (12, [3, 1, 2], 3) := by decide

end Examples

section AxiomAudit
#print axioms drawCount_spec
#print axioms managerId_newRandomKeyID_gen
#print axioms managerId_exhausted_gen
#print axioms managerId_fresh_gen
#print axioms managerId_newRandomKeyID_eq
#print axioms managerId_count_spec
#print axioms managerId_newRandomKeyID_ex
#print axioms managerId_fresh
#print axioms managerId_exhausted
end AxiomAudit

end TinkVerif.GlueTie
