import TinkVerif.Gen.GlueFactoryHybrid
import TinkVerif.Props.GlueTie.FactoryCommon
/-
  GLUE TIE (whole functions), hybrid/hybrid_decrypt_factory.go wrappedHybridDecrypt.Decrypt — regenerated into Gen/GlueFactoryHybrid.lean on every check run.
  What is abstract, the iterator contract `IterSpec` and the helper lemmas: see Props/GlueTie/FactoryCommon.lean.
-/
namespace TinkVerif.GlueTie
open TinkVerif

/-! ### hybrid decryption -/

theorem factory_hybrid_decrypt_tie (Iter PMap Prim : Type) (fuel : Nat) (dec : Prim → Bytes → Bytes → Option Bytes)
    (matching : PMap → Bytes → Iter) (next : Iter → Prim × Bool × Iter) (rest : Iter → List Prim)
    (hs : IterSpec next rest) (m : PMap) (ct ci : Bytes) (hf : (rest (matching m ct)).length < fuel) :
    Gen.GlueFactoryHybrid.HybridDecryptFactory.Decrypt Iter PMap Prim fuel dec matching next m ct ci
      = (rest (matching m ct)).findSome? (fun p => dec p ct ci) := by
  have h := factory_loop_gen next rest hs (fun p => (dec p ct ci).map some)
    (fun s1 => Gen.GlueFactoryHybrid.HybridDecryptFactory.Decrypt.loop1.body Iter PMap Prim fuel dec matching next m ct ci s1)
    (by
      intro s h
      simp only [Gen.GlueFactoryHybrid.HybridDecryptFactory.Decrypt.loop1.body, h, Bool.false_eq_true, if_false])
    (by
      intro s h
      simp only [Gen.GlueFactoryHybrid.HybridDecryptFactory.Decrypt.loop1.body, Gen.GlueFactoryHybrid.HybridDecryptFactory.Decrypt.loop1.v6, Gen.GlueFactoryHybrid.HybridDecryptFactory.Decrypt.loop1.v7, Gen.GlueFactoryHybrid.HybridDecryptFactory.Decrypt.loop1.v8, Gen.GlueFactoryHybrid.HybridDecryptFactory.Decrypt.loop1.v9, Gen.GlueFactoryHybrid.HybridDecryptFactory.Decrypt.loop1.v10, h, if_true]
      cases dec s.2.1 ct ci <;> rfl)
    _ (matching m ct) fuel rfl hf
  simp only [Gen.GlueFactoryHybrid.HybridDecryptFactory.Decrypt, Gen.GlueFactoryHybrid.HybridDecryptFactory.Decrypt.loop1, Gen.GlueFactoryHybrid.HybridDecryptFactory.Decrypt.v5, Gen.GlueFactoryHybrid.HybridDecryptFactory.Decrypt.v4, Gen.GlueFactoryHybrid.HybridDecryptFactory.Decrypt.v3, Gen.GlueFactoryHybrid.HybridDecryptFactory.Decrypt.v2, Gen.GlueFactoryHybrid.HybridDecryptFactory.Decrypt.v1]
  rw [h, factory_findSome_map_some]
  cases List.findSome? (fun p => dec p ct ci) (rest (matching m ct)) <;> rfl

theorem factory_hybrid_decrypt_accept {κ : Type} (Iter PMap : Type) (fuel : Nat) (dec : Wrap.WEntry κ → Bytes → Bytes → Option Bytes)
    (matching : PMap → Bytes → Iter) (next : Iter → Wrap.WEntry κ × Bool × Iter) (rest : Iter → List (Wrap.WEntry κ))
    (hs : IterSpec next rest) (m : PMap) (es : List (Wrap.WEntry κ)) (accepts : κ → Bytes → Bytes → Bool) (ct ci : Bytes)
    (hm : rest (matching m ct) = Wrap.candidates es ct)
    (hd : ∀ e, (dec e ct ci).isSome = accepts e.key ct ci)
    (hf : (Wrap.candidates es ct).length < fuel) :
    Gen.GlueFactoryHybrid.HybridDecryptFactory.Decrypt Iter PMap (Wrap.WEntry κ) fuel dec matching next m ct ci
        = ((Wrap.candidates es ct).find? (fun e => accepts e.key ct ci)).bind (fun e => dec e ct ci)
    ∧ (Gen.GlueFactoryHybrid.HybridDecryptFactory.Decrypt Iter PMap (Wrap.WEntry κ) fuel dec matching next m ct ci).isSome
        = (Wrap.accept accepts es ct ci).isSome := by
  have h := factory_hybrid_decrypt_tie Iter PMap (Wrap.WEntry κ) fuel dec matching next rest hs m ct ci (by rw [hm]; exact hf)
  rw [h, hm]
  refine ⟨factory_find_bind _ _ hd _, ?_⟩
  rw [factory_find_isSome _ _ hd]
  simp only [Wrap.accept, Option.isSome_map]


end TinkVerif.GlueTie

section AxiomAudit
#print axioms TinkVerif.GlueTie.factory_hybrid_decrypt_tie
#print axioms TinkVerif.GlueTie.factory_hybrid_decrypt_accept
end AxiomAudit
