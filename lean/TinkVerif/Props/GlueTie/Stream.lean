import TinkVerif.Lemmas.GlueSem
import TinkVerif.Gen.GlueStream
import TinkVerif.Model.Stream
/-
  Tie: `generateSegmentNonce` regenerated from /repo/streamingaead/subtle/noncebased/noncebased.go
  (Gen/GlueStream.lean) equals the hand model `Stream.segmentNonce` for every prefix, counter and flag,
  whenever the nonce buffer is large enough (`len(prefix) + 5 ≤ size`, which holds for the two callers:
  7 + 5 = 12 for AES-GCM-HKDF and 7 + 5 ≤ 16 for AES-CTR-HMAC).  For a smaller `size` the Go code
  panics (slice bounds) while the model returns an over-long string; that region is outside the tie.
-/
namespace TinkVerif.GlueTie
open TinkVerif TinkVerif.GoSem
open TinkVerif.Gen.GlueStream

theorem generateSegmentNonce_eq (size : Nat) (pre : Bytes) (i : Nat) (last : Bool)
    (hsize : pre.length + 5 ≤ size) (hmax : size < 9223372036854775808) :
    Noncebased.generateSegmentNonce (size : Int) pre i last = Stream.segmentNonce size pre i last := by
  unfold Noncebased.generateSegmentNonce Stream.segmentNonce
  by_cases hi : i ≥ 4294967295
  · simp [hi]
  · simp only [hi, ↓reduceIte]
    congr 1
    have hoff : Noncebased.generateSegmentNonce.v5 (size : Int) pre i last = ((pre.length + 4 : Nat) : Int) := by
      simp only [Noncebased.generateSegmentNonce.v5, Noncebased.generateSegmentNonce.v3, len_eq]
      rw [i64_eq (by omega) (by omega)]; omega
    have h2 : Noncebased.generateSegmentNonce.v2 (size : Int) pre i last = pre ++ Bytes.zeros (size - pre.length) := by
      simp only [Noncebased.generateSegmentNonce.v2, Noncebased.generateSegmentNonce.v1, makeBytes_natCast]
      have := copyInto_append [] (Bytes.zeros size) pre 0 (len (Bytes.zeros size)) (by simp) (by simp)
      simp only [List.nil_append] at this
      rw [this]; simp [List.take_of_length_le (show pre.length ≤ size by omega)]
    have him : i % 4294967296 = i := Nat.mod_eq_of_lt (by omega)
    have h3 : Noncebased.generateSegmentNonce.v4 (size : Int) pre i last
        = (pre ++ Bytes.be32 i) ++ Bytes.zeros (size - pre.length - 4) := by
      simp only [Noncebased.generateSegmentNonce.v4, Noncebased.generateSegmentNonce.v3, h2, him]
      rw [putBE_append 4 pre _ _ _ i (by simp) (by simp; omega) (by simp)]
      simp [Bytes.be32]
    have h4 : Noncebased.generateSegmentNonce.v6 (size : Int) pre i last
        = (pre ++ Bytes.be32 i) ++ 1 :: Bytes.zeros (size - pre.length - 5) := by
      simp only [Noncebased.generateSegmentNonce.v6, hoff, h3]
      rw [setAt_append _ _ _ _ (by simp [Bytes.be32]) (by simp; omega)]
      simp only [drop_zeros, Nat.sub_sub]
    simp only [Noncebased.generateSegmentNonce.v7, h3, h4]
    clear hoff h2 h3 h4
    cases last <;> simp [Bytes.be32]
    · have e : size - pre.length - 4 = (size - (pre.length + 5)) + 1 := by omega
      rw [e, zeros_succ]
    · rw [Nat.sub_sub]

/-- the counter limit: segment numbers from 2³²−1 on are refused, whatever the buffer size -/
theorem generateSegmentNonce_limit (size : Int) (pre : Bytes) (i : Nat) (last : Bool) (h : 4294967295 ≤ i) :
    Noncebased.generateSegmentNonce size pre i last = none := by
  simp [Noncebased.generateSegmentNonce, h]

example : (7 : Nat) + 5 ≤ 12 ∧ (12 : Nat) < 9223372036854775808 := by omega

section AxiomAudit
#print axioms generateSegmentNonce_eq
#print axioms generateSegmentNonce_limit
end AxiomAudit

end TinkVerif.GlueTie
