import TinkVerif.Gen.GluePrefixmap
import TinkVerif.Props.GlueTie.FactoryCommon
/-
  GLUE TIE (whole functions): internal/prefixmap  Iterator.Next, PrefixMap.PrimitivesMatchingPrefix, PrefixMap.Insert, regenerated
  by gluetr into Gen/GluePrefixmap.lean on every check run.
  Representation chosen by the translator: the type parameter P is an abstract type with a zero value `P_zero` (`*new(P)`);
  `[]P` is `List P`; `map[string][]P` is a function `Bytes → List P` (a missing key gives the empty list, as in Go);
  Next is stateful: its value is (index after the call, element, ok); Insert is stateful: (items after the call, error code).
  Nothing else is abstract.  The theorems discharge the iterator contract `IterSpec` that the keyset-factory ties
  (Props.GlueTie.Factory*) assume, and identify the candidates with the C05 model `Wrap.bucket` / `Wrap.candidates`.
-/
namespace TinkVerif.GlueTie
open TinkVerif

/-- a well-formed iterator: (5-byte bucket, raw bucket, index) with a non-negative index and Go-sized slices -/
def PmIter (P : Type) : Type :=
  { it : List P × List P × Int // 0 ≤ it.2.2 ∧ (it.1.length + it.2.1.length : Nat) < 9223372036854775808 }

/-- elements not yet handed out -/
def pmRest {P : Type} (it : PmIter P) : List P := (it.1.1 ++ it.1.2.1).drop it.1.2.2.toNat

/-! ### helpers -/

theorem prefixmap_Next_eq (P : Type) (z : P) (n : Nat) (five raw : List P)
    (hl : five.length + raw.length < 9223372036854775808) :
    Gen.GluePrefixmap.Iter.Next P z (n : Int) five raw
      = if n < five.length + raw.length then
          ((n : Int) + 1, (if n < five.length then five.getD n z else raw.getD (n - five.length) z), true)
        else ((n : Int), z, false) := by
  have e1 : GoSem.i64 ((five.length : Int) + (raw.length : Int)) = (five.length : Int) + raw.length :=
    GoSem.i64_eq (by omega) (by omega)
  have h0 : (0 : Int) ≤ (n : Int) := by omega
  unfold Gen.GluePrefixmap.Iter.Next Gen.GluePrefixmap.Iter.Next.v1 Gen.GluePrefixmap.Iter.Next.v2
    Gen.GluePrefixmap.Iter.Next.v3 Gen.GluePrefixmap.Iter.Next.v4 GoSem.listAtD
  simp only [Int.ofNat_eq_natCast, e1]
  by_cases h1 : n < five.length
  · have h1' : (n : Int) < (five.length : Int) := by omega
    have h2 : n < five.length + raw.length := by omega
    have e2 : GoSem.i64 ((n : Int) + 1) = (n : Int) + 1 := GoSem.i64_eq (by omega) (by omega)
    simp only [h1, h1', h2, e2, h0, if_true, Int.toNat_natCast]
  · have h1' : ¬ (n : Int) < (five.length : Int) := by omega
    by_cases h2 : n < five.length + raw.length
    · have h2' : (n : Int) < (five.length : Int) + (raw.length : Int) := by omega
      have e2 : GoSem.i64 ((n : Int) + 1) = (n : Int) + 1 := GoSem.i64_eq (by omega) (by omega)
      have e3 : GoSem.i64 ((n : Int) - (five.length : Int)) = ((n - five.length : Nat) : Int) := by
        rw [GoSem.i64_eq (by omega) (by omega)]
        omega
      have h3 : (0 : Int) ≤ ((n - five.length : Nat) : Int) := by omega
      simp only [h1, h1', h2, h2', e2, e3, h3, if_true, if_false, Int.toNat_natCast]
    · have h2' : ¬ (n : Int) < (five.length : Int) + (raw.length : Int) := by omega
      simp only [h1', h2, h2', if_false]

theorem prefixmap_drop_cons {α : Type} (l : List α) (n : Nat) (p : α) (ps : List α) (h : l.drop n = p :: ps) :
    ∃ hn : n < l.length, l[n] = p ∧ l.drop (n + 1) = ps := by
  have hn : n < l.length := by
    apply Nat.lt_of_not_le
    intro hle
    rw [List.drop_eq_nil_of_le hle] at h
    cases h
  rw [List.drop_eq_getElem_cons hn] at h
  injection h with h1 h2
  exact ⟨hn, h1, h2⟩

theorem prefixmap_getElem_append {α : Type} (a b : List α) (n : Nat) (z : α) (hn : n < (a ++ b).length) :
    (a ++ b)[n] = if n < a.length then a.getD n z else b.getD (n - a.length) z := by
  by_cases h : n < a.length
  · rw [if_pos h, List.getElem_append_left h, List.getD_eq_getElem?_getD, List.getElem?_eq_getElem h,
      Option.getD_some]
  · have hb : n - a.length < b.length := by
      rw [List.length_append] at hn
      omega
    rw [if_neg h, List.getElem_append_right (Nat.le_of_not_lt h), List.getD_eq_getElem?_getD,
      List.getElem?_eq_getElem hb, Option.getD_some]

theorem prefixmap_slice5 (y : Bytes) (h : 5 ≤ y.length) : GoSem.slice y 0 5 = y.take 5 := by
  have hc : (0 : Int) ≤ 0 ∧ (0 : Int) ≤ 5 ∧ (5 : Int) ≤ GoSem.len y := by
    simp only [GoSem.len_eq]
    omega
  rw [GoSem.slice, if_pos hc]
  simp

theorem prefixmap_Next_index (P : Type) (z : P) (it : PmIter P) :
    0 ≤ (Gen.GluePrefixmap.Iter.Next P z it.1.2.2 it.1.1 it.1.2.1).1 := by
  obtain ⟨⟨five, raw, idx⟩, h0, hl⟩ := it
  obtain ⟨n, rfl⟩ := Int.eq_ofNat_of_zero_le h0
  show 0 ≤ (Gen.GluePrefixmap.Iter.Next P z (n : Int) five raw).1
  rw [prefixmap_Next_eq P z n five raw hl]
  by_cases h : n < five.length + raw.length
  · rw [if_pos h]
    show (0 : Int) ≤ (n : Int) + 1
    omega
  · rw [if_neg h]
    exact h0

/-- `Iterator.Next` as a function on well-formed iterators: (element, ok, advanced iterator) -/
def pmNext {P : Type} (z : P) (it : PmIter P) : P × Bool × PmIter P :=
  let r := Gen.GluePrefixmap.Iter.Next P z it.1.2.2 it.1.1 it.1.2.1
  (r.2.1, r.2.2, ⟨(it.1.1, it.1.2.1, r.1), prefixmap_Next_index P z it, it.2.2⟩)

/-- the Go iterator satisfies the contract assumed by the factory ties: first the 5-byte bucket, then the RAW bucket, each
    in insertion order, every element exactly once -/
theorem prefixmap_iterSpec (P : Type) (z : P) : IterSpec (pmNext z) (pmRest (P := P)) := by
  constructor
  · rintro ⟨⟨five, raw, idx⟩, h0, hl⟩ hr
    obtain ⟨n, rfl⟩ := Int.eq_ofNat_of_zero_le h0
    have hr' : (five ++ raw).drop n = [] := hr
    have hge : five.length + raw.length ≤ n := by
      have := List.drop_eq_nil_iff.mp hr'
      rwa [List.length_append] at this
    show (Gen.GluePrefixmap.Iter.Next P z (n : Int) five raw).2.2 = false
    rw [prefixmap_Next_eq P z n five raw hl, if_neg (by omega)]
  · rintro ⟨⟨five, raw, idx⟩, h0, hl⟩ p ps hr
    obtain ⟨n, rfl⟩ := Int.eq_ofNat_of_zero_le h0
    have hr' : (five ++ raw).drop n = p :: ps := hr
    obtain ⟨hn, hp, hps⟩ := prefixmap_drop_cons _ n p ps hr'
    have hlt : n < five.length + raw.length := by
      rwa [List.length_append] at hn
    have hN := prefixmap_Next_eq P z n five raw hl
    rw [if_pos hlt] at hN
    refine ⟨?_, ?_, ?_⟩
    · show (Gen.GluePrefixmap.Iter.Next P z (n : Int) five raw).2.1 = p
      rw [hN, ← hp]
      exact (prefixmap_getElem_append five raw n z hn).symm
    · show (Gen.GluePrefixmap.Iter.Next P z (n : Int) five raw).2.2 = true
      rw [hN]
    · show (five ++ raw).drop (Gen.GluePrefixmap.Iter.Next P z (n : Int) five raw).1.toNat = ps
      rw [hN]
      have : ((n : Int) + 1).toNat = n + 1 := by omega
      rw [this]
      exact hps

/-- `PrimitivesMatchingPrefix`: the bucket of the first 5 bytes (only if there are 5), the bucket of the empty prefix, index 0 -/
theorem prefixmap_matching_tie (P : Type) (z : P) (items : Bytes → List P) (y : Bytes) :
    Gen.GluePrefixmap.PMap.PrimitivesMatchingPrefix P z items y
      = ((if 5 ≤ y.length then items (y.take 5) else []), items [], 0) := by
  unfold Gen.GluePrefixmap.PMap.PrimitivesMatchingPrefix Gen.GluePrefixmap.PMap.PrimitivesMatchingPrefix.v3
    Gen.GluePrefixmap.PMap.PrimitivesMatchingPrefix.v4 Gen.GluePrefixmap.PMap.PrimitivesMatchingPrefix.v2
    Gen.GluePrefixmap.PMap.PrimitivesMatchingPrefix.v1
  by_cases h : 5 ≤ y.length
  · have h' : GoSem.len y ≥ 5 := by
      simp only [GoSem.len_eq]
      omega
    rw [if_pos h, if_pos h', prefixmap_slice5 y h]
  · have h' : ¬ GoSem.len y ≥ 5 := by
      simp only [GoSem.len_eq]
      omega
    rw [if_neg h, if_neg h']

/-- `Insert`: only prefixes of length 0 or 5; appends to the bucket of exactly that prefix -/
theorem prefixmap_Insert_tie (P : Type) (z : P) (items : Bytes → List P) (pre : Bytes) (p : P) :
    Gen.GluePrefixmap.PMap.Insert P z items pre p
      = if 0 < pre.length ∧ pre.length ≠ 5 then (items, 1)
        else ((fun k => if k = pre then items pre ++ [p] else items k), 0) := by
  unfold Gen.GluePrefixmap.PMap.Insert Gen.GluePrefixmap.PMap.Insert.v1
  by_cases h : 0 < pre.length ∧ pre.length ≠ 5
  · have h' : GoSem.len pre > 0 ∧ GoSem.len pre ≠ 5 := by
      simp only [GoSem.len_eq]
      omega
    rw [if_pos h, if_pos h']
  · have h' : ¬ (GoSem.len pre > 0 ∧ GoSem.len pre ≠ 5) := by
      simp only [GoSem.len_eq]
      omega
    rw [if_neg h, if_neg h']

/-- the map the factories build: every ENABLED entry inserted under its output prefix, in keyset order -/
def pmBuild {κ : Type} (z : Wrap.WEntry κ) (es : List (Wrap.WEntry κ)) : Bytes → List (Wrap.WEntry κ) :=
  (Wrap.enabled es).foldl (fun items e => (Gen.GluePrefixmap.PMap.Insert (Wrap.WEntry κ) z items e.pre e).1) (fun _ => [])

theorem prefixmap_fold_bucket {κ : Type} (z : Wrap.WEntry κ) (l : List (Wrap.WEntry κ))
    (hpre : ∀ e ∈ l, e.pre.length = 0 ∨ e.pre.length = 5) (m : Bytes → List (Wrap.WEntry κ)) (k : Bytes) :
    (l.foldl (fun items e => (Gen.GluePrefixmap.PMap.Insert (Wrap.WEntry κ) z items e.pre e).1) m) k
      = m k ++ l.filter (fun e => e.pre = k) := by
  induction l generalizing m with
  | nil => simp
  | cons e es ih =>
    have he : ¬ (0 < e.pre.length ∧ e.pre.length ≠ 5) := by
      have := hpre e (List.mem_cons_self ..)
      omega
    rw [List.foldl_cons, ih (fun e' h => hpre e' (List.mem_cons_of_mem _ h)), prefixmap_Insert_tie, if_neg he]
    by_cases hk : e.pre = k
    · subst hk
      simp
    · have hk' : ¬ k = e.pre := fun h => hk h.symm
      simp [hk, hk']

/-- … holds exactly the model's buckets -/
theorem prefixmap_build_bucket {κ : Type} (z : Wrap.WEntry κ) (es : List (Wrap.WEntry κ))
    (hpre : ∀ e ∈ es, e.pre.length = 0 ∨ e.pre.length = 5) (k : Bytes) :
    pmBuild z es k = Wrap.bucket es k := by
  have hpre' : ∀ e ∈ Wrap.enabled es, e.pre.length = 0 ∨ e.pre.length = 5 := by
    intro e he
    unfold Wrap.enabled at he
    exact hpre e (List.mem_filter.mp he).1
  unfold pmBuild
  rw [prefixmap_fold_bucket z (Wrap.enabled es) hpre' (fun _ => []) k]
  unfold Wrap.bucket
  simp

/-- … so the elements handed out for a ciphertext / signature / tag `y` are the model's candidates, in the model's order -/
theorem prefixmap_candidates {κ : Type} (z : Wrap.WEntry κ) (es : List (Wrap.WEntry κ))
    (hpre : ∀ e ∈ es, e.pre.length = 0 ∨ e.pre.length = 5) (y : Bytes)
    (hlen : (Wrap.candidates es y).length < 9223372036854775808) :
    ∃ it : PmIter (Wrap.WEntry κ),
      it.1 = Gen.GluePrefixmap.PMap.PrimitivesMatchingPrefix (Wrap.WEntry κ) z (pmBuild z es) y
      ∧ pmRest it = Wrap.candidates es y := by
  have hb : ∀ k, pmBuild z es k = Wrap.bucket es k := prefixmap_build_bucket z es hpre
  rw [prefixmap_matching_tie, hb, hb]
  have hlen' : ((if 5 ≤ y.length then Wrap.bucket es (y.take 5) else []).length + (Wrap.bucket es []).length : Nat)
      < 9223372036854775808 := by
    unfold Wrap.candidates at hlen
    rwa [List.length_append] at hlen
  refine ⟨⟨((if 5 ≤ y.length then Wrap.bucket es (y.take 5) else []), Wrap.bucket es [], 0), Int.le_refl 0, hlen'⟩,
    rfl, ?_⟩
  show ((if 5 ≤ y.length then Wrap.bucket es (y.take 5) else []) ++ Wrap.bucket es []).drop (0 : Int).toNat
    = Wrap.candidates es y
  unfold Wrap.candidates
  rfl

/-- the hypotheses of `prefixmap_candidates` are satisfiable: one enabled RAW key and one enabled 5-byte-prefixed key -/
example : ∃ (es : List (Wrap.WEntry Nat)) (y : Bytes),
    (∀ e ∈ es, e.pre.length = 0 ∨ e.pre.length = 5) ∧ (Wrap.candidates es y).length < 9223372036854775808
      ∧ (Wrap.candidates es y).length = 2 :=
  ⟨[⟨1, .enabled, true, [], 7⟩, ⟨2, .enabled, false, [1, 0, 0, 0, 2], 8⟩], [1, 0, 0, 0, 2, 9],
    by decide, by decide, by decide⟩

end TinkVerif.GlueTie

section AxiomAudit
open TinkVerif.GlueTie
#print axioms prefixmap_Next_index
#print axioms prefixmap_iterSpec
#print axioms prefixmap_matching_tie
#print axioms prefixmap_Insert_tie
#print axioms prefixmap_build_bucket
#print axioms prefixmap_candidates
end AxiomAudit
