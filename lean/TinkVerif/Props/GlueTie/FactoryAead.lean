import TinkVerif.Gen.GlueFactoryAead
import TinkVerif.Props.GlueTie.FactoryCommon
/-
  GLUE TIE (whole functions), aead/aead_factory.go wrappedAead.Decrypt / Encrypt — regenerated into Gen/GlueFactoryAead.lean on every check run.
  What is abstract, the iterator contract `IterSpec` and the helper lemmas: see Props/GlueTie/FactoryCommon.lean.
-/
namespace TinkVerif.GlueTie
open TinkVerif

/-! ### AEAD -/

theorem factory_aead_decrypt_tie (Iter PMap Prim : Type) (fuel : Nat) (dec : Prim → Bytes → Bytes → Option Bytes)
    (matching : PMap → Bytes → Iter) (next : Iter → Prim × Bool × Iter) (rest : Iter → List Prim)
    (hs : IterSpec next rest) (m : PMap) (ct ad : Bytes) (hf : (rest (matching m ct)).length < fuel) :
    Gen.GlueFactoryAead.AeadFactory.Decrypt Iter PMap Prim fuel dec matching next m ct ad
      = (rest (matching m ct)).findSome? (fun p => dec p ct ad) := by
  have h := factory_loop_gen next rest hs (fun p => (dec p ct ad).map some)
    (fun s1 => Gen.GlueFactoryAead.AeadFactory.Decrypt.loop1.body Iter PMap Prim fuel dec matching next m ct ad s1)
    (by
      intro s h
      simp only [Gen.GlueFactoryAead.AeadFactory.Decrypt.loop1.body, h, Bool.false_eq_true, if_false])
    (by
      intro s h
      simp only [Gen.GlueFactoryAead.AeadFactory.Decrypt.loop1.body, Gen.GlueFactoryAead.AeadFactory.Decrypt.loop1.v6, Gen.GlueFactoryAead.AeadFactory.Decrypt.loop1.v7, Gen.GlueFactoryAead.AeadFactory.Decrypt.loop1.v8, Gen.GlueFactoryAead.AeadFactory.Decrypt.loop1.v9, Gen.GlueFactoryAead.AeadFactory.Decrypt.loop1.v10, h, if_true]
      cases dec s.2.1 ct ad <;> rfl)
    _ (matching m ct) fuel rfl hf
  simp only [Gen.GlueFactoryAead.AeadFactory.Decrypt, Gen.GlueFactoryAead.AeadFactory.Decrypt.loop1, Gen.GlueFactoryAead.AeadFactory.Decrypt.v5, Gen.GlueFactoryAead.AeadFactory.Decrypt.v4, Gen.GlueFactoryAead.AeadFactory.Decrypt.v3, Gen.GlueFactoryAead.AeadFactory.Decrypt.v2, Gen.GlueFactoryAead.AeadFactory.Decrypt.v1]
  rw [h, factory_findSome_map_some]
  cases List.findSome? (fun p => dec p ct ad) (rest (matching m ct)) <;> rfl

theorem factory_aead_decrypt_accept {κ : Type} (Iter PMap : Type) (fuel : Nat) (dec : Wrap.WEntry κ → Bytes → Bytes → Option Bytes)
    (matching : PMap → Bytes → Iter) (next : Iter → Wrap.WEntry κ × Bool × Iter) (rest : Iter → List (Wrap.WEntry κ))
    (hs : IterSpec next rest) (m : PMap) (es : List (Wrap.WEntry κ)) (accepts : κ → Bytes → Bytes → Bool) (ct ad : Bytes)
    (hm : rest (matching m ct) = Wrap.candidates es ct)
    (hd : ∀ e, (dec e ct ad).isSome = accepts e.key ct ad)
    (hf : (Wrap.candidates es ct).length < fuel) :
    Gen.GlueFactoryAead.AeadFactory.Decrypt Iter PMap (Wrap.WEntry κ) fuel dec matching next m ct ad
        = ((Wrap.candidates es ct).find? (fun e => accepts e.key ct ad)).bind (fun e => dec e ct ad)
    ∧ (Gen.GlueFactoryAead.AeadFactory.Decrypt Iter PMap (Wrap.WEntry κ) fuel dec matching next m ct ad).isSome
        = (Wrap.accept accepts es ct ad).isSome := by
  have h := factory_aead_decrypt_tie Iter PMap (Wrap.WEntry κ) fuel dec matching next rest hs m ct ad (by rw [hm]; exact hf)
  rw [h, hm]
  refine ⟨factory_find_bind _ _ hd _, ?_⟩
  rw [factory_find_isSome _ _ hd]
  simp only [Wrap.accept, Option.isSome_map]

theorem factory_aead_encrypt_tie (Iter PMap Prim : Type) (enc : Prim → Bytes → Bytes → Option Bytes) (primary : Prim) (kid : Nat)
    (pt ad : Bytes) :
    Gen.GlueFactoryAead.AeadFactory.Encrypt Iter PMap Prim enc primary kid pt ad = enc primary pt ad := by
  simp only [Gen.GlueFactoryAead.AeadFactory.Encrypt, Gen.GlueFactoryAead.AeadFactory.Encrypt.v1]
  cases enc primary pt ad <;> rfl


end TinkVerif.GlueTie

section AxiomAudit
#print axioms TinkVerif.GlueTie.factory_aead_decrypt_tie
#print axioms TinkVerif.GlueTie.factory_aead_decrypt_accept
#print axioms TinkVerif.GlueTie.factory_aead_encrypt_tie
end AxiomAudit
