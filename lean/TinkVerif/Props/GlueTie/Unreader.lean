import TinkVerif.Lemmas.GlueSemSiv
import TinkVerif.Gen.GlueUnreader
/-
  Tie + properties: the `unreader` of /repo/streamingaead/decrypt_reader.go (the reader wrapper that records
  everything read from the wrapped source so that, after `unread()`, the same bytes are delivered again before
  the source is consulted again — used by `decryptReader.Read` to try several keys on one ciphertext stream),
  regenerated on every check run as Gen/GlueUnreader.lean by go/harness/gluetr ("stateful mode").

  * streamingaead/decrypt_reader.go
      `(*unreader).Read`     (whole function) = `Unreader.read`     (`unreader_Read_eq`)
      `(*unreader).unread`   (whole function) = `Unreader.unread`   (`unreader_unread_eq`: pos := 0)
      `(*unreader).disable`  (whole function) = `Unreader.disable`  (`unreader_disable_eq`: disabled := true)
    NOT covered: `decryptReader.Read` (the key-search loop that calls `unread` between attempts and `disable`
    once a key matched) and `NewDecryptingReader`-style constructors.

  Abstraction: the wrapped source `u.r` (an `io.Reader`) is an external object with an arbitrary state type `S`;
  `rd : S → Int → Bytes × Nat × S` stands for `u.r.Read(buf)`: given the state and the capacity `len(buf)` it
  yields the bytes delivered, the error code (0 = nil) and the next state.  The only hypothesis on it (tie theorem
  only) is the `io.Reader` contract `0 ≤ n ≤ len(buf)`: `hrd : ∀ s c, 0 ≤ c → ((rd s c).1.length : Int) ≤ c`.
  The other hypotheses are facts of Go: `u.pos ≤ len(u.buf)` (an invariant of the type: `pos` is only ever set to 0,
  `len(u.buf)`, or advanced by the number of bytes copied out of `u.buf[pos:]`) and lengths below 2^63.

  The property theorems are about the hand model and hold for EVERY source `rd` (no contract needed), every
  capacity (0 included) and every buffer size: in recording mode everything the source delivers is appended to
  `buf` (`unreader_record`, `unreader_reads_record`), after `unread` the recorded bytes are delivered again from
  offset 0, in order, the source stays untouched while recorded bytes remain, and the recording is never truncated
  (`unreader_replay`, `unreader_roundtrip`).  A size cap on `buf` would violate all of them.

  Corner case fixed in `unreader_replay`: "the source is not touched before the recording is exhausted" is stated
  with `out.length < B.length` (strict).  With `out.length = B.length` it is false: once the last recorded byte has
  been delivered the next `Read` goes to the source, which may deliver 0 bytes (so `out` does not grow) and still
  change its state (e.g. capacities `[B.length, 0]`: Go really calls `u.r.Read(buf)` with an empty `buf`).
-/
namespace TinkVerif.GlueTie
open TinkVerif TinkVerif.GoSem
open TinkVerif.Gen.GlueUnreader

namespace Unreader

/-- the fields of a Go `unreader` -/
structure UState (S : Type) where
  /-- the source -/
  r : S
  /-- everything recorded so far -/
  buf : Bytes
  /-- replay position -/
  pos : Nat
  disabled : Bool

/-- one `Read` with a buffer of capacity `cap`: (state', bytes delivered, error code) -/
def read {S : Type} (rd : S → Int → Bytes × Nat × S) (u : UState S) (cap : Nat) : UState S × Bytes × Nat :=
  if u.buf.length ≠ u.pos then
    let d := (u.buf.drop u.pos).take cap
    ({ u with pos := u.pos + d.length }, d, 0)
  else
    let (d, e, r') := rd u.r cap
    if u.disabled then ({ u with r := r', buf := [], pos := 0 }, d, e)
    else ({ u with r := r', buf := u.buf ++ d, pos := (u.buf ++ d).length }, d, e)

def unread {S : Type} (u : UState S) : UState S := { u with pos := 0 }

def disable {S : Type} (u : UState S) : UState S := { u with disabled := true }

/-- a sequence of `Read`s with the given capacities (errors do not stop the caller here: the statements hold for
    every continuation): final state and the concatenation of what was delivered -/
def reads {S : Type} (rd : S → Int → Bytes × Nat × S) (u : UState S) : List Nat → UState S × Bytes
  | [] => (u, [])
  | c :: cs => ((reads rd (read rd u c).1 cs).1, (read rd u c).2.1 ++ (reads rd (read rd u c).1 cs).2)

/-! ### the two branches of `read` in projection form -/

theorem read_replay {S : Type} (rd : S → Int → Bytes × Nat × S) (u : UState S) (cap : Nat)
    (h : u.buf.length ≠ u.pos) :
    read rd u cap
      = ({ u with pos := u.pos + ((u.buf.drop u.pos).take cap).length }, (u.buf.drop u.pos).take cap, 0) := by
  rw [read, if_pos h]

theorem read_source_rec {S : Type} (rd : S → Int → Bytes × Nat × S) (u : UState S) (cap : Nat)
    (h : u.buf.length = u.pos) (hd : u.disabled = false) :
    read rd u cap
      = ({ u with r := (rd u.r cap).2.2, buf := u.buf ++ (rd u.r cap).1, pos := (u.buf ++ (rd u.r cap).1).length },
         (rd u.r cap).1, (rd u.r cap).2.1) := by
  rw [read, if_neg (by simp [h]), hd]
  rfl

theorem read_source_dis {S : Type} (rd : S → Int → Bytes × Nat × S) (u : UState S) (cap : Nat)
    (h : u.buf.length = u.pos) (hd : u.disabled = true) :
    read rd u cap
      = ({ u with r := (rd u.r cap).2.2, buf := [], pos := 0 }, (rd u.r cap).1, (rd u.r cap).2.1) := by
  rw [read, if_neg (by simp [h]), hd]
  rfl

end Unreader

open Unreader

/-! ### tie: generated code = hand model -/

private theorem replay_pos (P L C : Nat) (hP : P ≤ L) (hL : L + C < 9223372036854775808) :
    i64 ((P : Int) + min (C : Int) ((L - P : Nat) : Int)) = ((P + min C (L - P) : Nat) : Int) := by
  rw [i64_eq (by omega) (by omega)]; omega

private theorem copy_front (p d : Bytes) (h : d.length ≤ p.length) :
    copyInto p 0 (p.length : Int) d = d ++ p.drop d.length := by
  have := copyInto_append [] p d 0 (p.length : Int) (by simp) (by simp)
  simp only [List.nil_append] at this
  rw [this, List.take_of_length_le h]

private theorem copy_front_take (p src : Bytes) :
    copyInto p 0 (p.length : Int) src = src.take p.length ++ p.drop (src.take p.length).length := by
  have := copyInto_append [] p src 0 (p.length : Int) (by simp) (by simp)
  simp only [List.nil_append] at this
  rw [this]
  by_cases h : src.length ≤ p.length
  · rw [List.take_of_length_le h]
  · have h' : p.length ≤ src.length := by omega
    rw [List.length_take, Nat.min_eq_left h', List.drop_of_length_le (Nat.le_refl _), List.drop_of_length_le h']

private theorem slice_suf (b : Bytes) (lo : Nat) (h : lo ≤ b.length) :
    slice b (lo : Int) (b.length : Int) = b.drop lo := by
  rw [slice_nat b lo b.length h (Nat.le_refl _), List.take_of_length_le (Nat.le_refl _)]

private theorem slice_pre (b : Bytes) (hi : Nat) (h : hi ≤ b.length) : slice b 0 (hi : Int) = b.take hi := by
  have := slice_nat b 0 hi (Nat.zero_le _) h
  simpa using this

/-- `(*unreader).Read`, whole function: new `u.buf`, `u.pos`, `u.r`, the caller's buffer afterwards (the delivered
    bytes followed by its untouched rest), `n`, `err` -/
theorem unreader_Read_eq {S : Type} (rd : S → Int → Bytes × Nat × S) (u : UState S) (p : Bytes)
    (hpos : u.pos ≤ u.buf.length) (hlen : u.buf.length + p.length < 9223372036854775808)
    (hrd : ∀ s c, 0 ≤ c → (((rd s c).1.length : Nat) : Int) ≤ c) :
    Streamingaead.Read S rd u.buf (u.pos : Int) u.disabled p u.r
      = ((Unreader.read rd u p.length).1.buf, ((Unreader.read rd u p.length).1.pos : Int),
         (Unreader.read rd u p.length).1.r,
         (Unreader.read rd u p.length).2.1 ++ p.drop (Unreader.read rd u p.length).2.1.length,
         ((Unreader.read rd u p.length).2.1.length : Int), (Unreader.read rd u p.length).2.2) := by
  by_cases h : u.buf.length = u.pos
  · -- at the end of the recording: consult the source
    have hg : ¬ ((u.buf.length : Int) ≠ (u.pos : Int)) := by omega
    have hd := hrd u.r (p.length : Int) (by omega)
    have hd' : (rd u.r (p.length : Int)).1.length ≤ p.length := by omega
    have hb2 : Streamingaead.Read.v5 S rd u.buf (u.pos : Int) u.disabled p u.r
        = (rd u.r (p.length : Int)).1 ++ p.drop (rd u.r (p.length : Int)).1.length := by
      simp only [Streamingaead.Read.v5, Streamingaead.Read.v4, len_eq, Int.sub_zero]
      exact copy_front p _ hd'
    have hn2 : Streamingaead.Read.v6 S rd u.buf (u.pos : Int) u.disabled p u.r
        = ((rd u.r (p.length : Int)).1.length : Int) := by
      simp only [Streamingaead.Read.v6, Streamingaead.Read.v4, len_eq, Int.sub_zero]
    have hub2 : Streamingaead.Read.v11 S rd u.buf (u.pos : Int) u.disabled p u.r
        = u.buf ++ (rd u.r (p.length : Int)).1 := by
      simp only [Streamingaead.Read.v11, hb2, hn2]
      rw [slice_pre _ _ (by simp), List.take_left']
      rfl
    simp only [Streamingaead.Read, len_eq, hg, ↓reduceIte, hb2, hn2, Streamingaead.Read.v7,
      Streamingaead.Read.v8, Streamingaead.Read.v13, Streamingaead.Read.v14, Streamingaead.Read.v12,
      Streamingaead.Read.v10, Streamingaead.Read.v9, hub2, Streamingaead.Read.v4, Int.sub_zero]
    cases hdis : u.disabled
    · rw [read_source_rec rd u p.length h hdis]
      simp
    · rw [read_source_dis rd u p.length h hdis]
      simp
  · -- replay from the recording
    have hg : (u.buf.length : Int) ≠ (u.pos : Int) := by omega
    have hs : slice u.buf (u.pos : Int) (u.buf.length : Int) = u.buf.drop u.pos := slice_suf u.buf u.pos hpos
    have hn : Streamingaead.Read.v2 S rd u.buf (u.pos : Int) u.disabled p u.r
        = (((u.buf.drop u.pos).take p.length).length : Int) := by
      simp only [Streamingaead.Read.v2, len_eq, hs, Int.sub_zero, List.length_take, List.length_drop]
      omega
    have hp : Streamingaead.Read.v3 S rd u.buf (u.pos : Int) u.disabled p u.r
        = ((u.pos + ((u.buf.drop u.pos).take p.length).length : Nat) : Int) := by
      simp only [Streamingaead.Read.v3, Streamingaead.Read.v2, len_eq, hs, Int.sub_zero, List.length_take,
        List.length_drop]
      exact replay_pos u.pos u.buf.length p.length hpos hlen
    have hb : Streamingaead.Read.v1 S rd u.buf (u.pos : Int) u.disabled p u.r
        = (u.buf.drop u.pos).take p.length ++ p.drop ((u.buf.drop u.pos).take p.length).length := by
      simp only [Streamingaead.Read.v1, len_eq, hs]
      exact copy_front_take p _
    rw [read_replay rd u p.length h]
    simp only [Streamingaead.Read, len_eq, hn, hp, hb]
    rw [if_pos hg]

theorem unreader_unread_eq (pos : Int) : Streamingaead.unread pos = 0 := rfl

theorem unreader_disable_eq (d : Bool) : Streamingaead.disable d = true := rfl

/-- the same two facts against the model's fields -/
theorem unreader_unread_model {S : Type} (u : UState S) :
    ((Unreader.unread u).pos : Int) = Streamingaead.unread (u.pos : Int)
      ∧ (Unreader.unread u).buf = u.buf ∧ (Unreader.unread u).r = u.r ∧ (Unreader.unread u).disabled = u.disabled :=
  ⟨rfl, rfl, rfl, rfl⟩

theorem unreader_disable_model {S : Type} (u : UState S) :
    (Unreader.disable u).disabled = Streamingaead.disable u.disabled
      ∧ (Unreader.disable u).buf = u.buf ∧ (Unreader.disable u).r = u.r ∧ (Unreader.disable u).pos = u.pos :=
  ⟨rfl, rfl, rfl, rfl⟩

/-! ### properties of the model (every source `rd`, every capacity, every buffer size) -/

/-- recording mode: one `read` delivers exactly what the source delivers and appends ALL of it to `buf` -/
theorem unreader_record {S : Type} (rd : S → Int → Bytes × Nat × S) (u : UState S) (cap : Nat)
    (hd : u.disabled = false) (hp : u.pos = u.buf.length) :
    (Unreader.read rd u cap).2.1 = (rd u.r cap).1
      ∧ (Unreader.read rd u cap).2.2 = (rd u.r cap).2.1
      ∧ (Unreader.read rd u cap).1.r = (rd u.r cap).2.2
      ∧ (Unreader.read rd u cap).1.buf = u.buf ++ (Unreader.read rd u cap).2.1
      ∧ (Unreader.read rd u cap).1.pos = (Unreader.read rd u cap).1.buf.length
      ∧ (Unreader.read rd u cap).1.disabled = false := by
  rw [read_source_rec rd u cap hp.symm hd]
  exact ⟨rfl, rfl, rfl, rfl, rfl, hd⟩

private theorem take_len_take (X : Bytes) (c : Nat) : X.take (X.take c).length = X.take c := by
  rw [List.length_take]
  by_cases h : c ≤ X.length
  · rw [Nat.min_eq_left h]
  · have h' : X.length ≤ c := by omega
    rw [Nat.min_eq_right h', List.take_of_length_le (Nat.le_refl _), List.take_of_length_le h']

private theorem take_step (b : Bytes) (p c : Nat) :
    b.take p ++ (b.drop p).take c = b.take (p + ((b.drop p).take c).length) := by
  rw [List.take_add, take_len_take]

private theorem len_step (L p c : Nat) (h : p ≤ L) : p + min c (L - p) ≤ L := by omega

/-- invariant of one `read` of a non-disabled state -/
private theorem read_inv {S : Type} (rd : S → Int → Bytes × Nat × S) (u : UState S) (c : Nat)
    (hd : u.disabled = false) (hp : u.pos ≤ u.buf.length) :
    (Unreader.read rd u c).1.disabled = false
      ∧ (Unreader.read rd u c).1.pos ≤ (Unreader.read rd u c).1.buf.length
      ∧ u.buf <+: (Unreader.read rd u c).1.buf
      ∧ u.buf.take u.pos ++ (Unreader.read rd u c).2.1
          = (Unreader.read rd u c).1.buf.take (Unreader.read rd u c).1.pos
      ∧ (Unreader.read rd u c).1.pos = u.pos + (Unreader.read rd u c).2.1.length
      ∧ (u.pos = u.buf.length → (Unreader.read rd u c).1.pos = (Unreader.read rd u c).1.buf.length)
      ∧ (u.pos < u.buf.length → (Unreader.read rd u c).1.r = u.r ∧ (Unreader.read rd u c).1.buf = u.buf) := by
  by_cases h : u.buf.length = u.pos
  · rw [read_source_rec rd u c h hd]
    refine ⟨hd, Nat.le_refl _, List.prefix_append _ _, ?_, ?_, fun _ => rfl, fun h' => absurd h' (by omega)⟩
    · show u.buf.take u.pos ++ (rd u.r c).1 = (u.buf ++ (rd u.r c).1).take (u.buf ++ (rd u.r c).1).length
      rw [List.take_of_length_le (Nat.le_refl _), ← h, List.take_of_length_le (Nat.le_refl _)]
    · show (u.buf ++ (rd u.r c).1).length = u.pos + (rd u.r c).1.length
      rw [List.length_append, h]
  · rw [read_replay rd u c h]
    refine ⟨hd, ?_, List.prefix_refl _, take_step u.buf u.pos c, rfl, fun h' => absurd h'.symm h, fun _ => ⟨rfl, rfl⟩⟩
    show u.pos + ((u.buf.drop u.pos).take c).length ≤ u.buf.length
    rw [List.length_take, List.length_drop]
    exact len_step _ _ _ hp

/-- invariant of a sequence of `read`s of a non-disabled state -/
private theorem reads_inv {S : Type} (rd : S → Int → Bytes × Nat × S) (caps : List Nat) :
    ∀ (u : UState S), u.disabled = false → u.pos ≤ u.buf.length →
      (reads rd u caps).1.disabled = false
      ∧ (reads rd u caps).1.pos ≤ (reads rd u caps).1.buf.length
      ∧ u.buf <+: (reads rd u caps).1.buf
      ∧ u.buf.take u.pos ++ (reads rd u caps).2 = (reads rd u caps).1.buf.take (reads rd u caps).1.pos
      ∧ (reads rd u caps).1.pos = u.pos + (reads rd u caps).2.length
      ∧ (u.pos = u.buf.length → (reads rd u caps).1.pos = (reads rd u caps).1.buf.length)
      ∧ (u.pos + (reads rd u caps).2.length < u.buf.length →
          (reads rd u caps).1.r = u.r ∧ (reads rd u caps).1.buf = u.buf) := by
  induction caps with
  | nil =>
    intro u hd hp
    refine ⟨hd, hp, List.prefix_refl _, by simp [reads], by simp [reads], fun h => h, fun _ => ⟨rfl, rfl⟩⟩
  | cons c cs ih =>
    intro u hd hp
    obtain ⟨s1, s2, s3, s4, s5, s6, s7⟩ := read_inv rd u c hd hp
    obtain ⟨t1, t2, t3, t4, t5, t6, t7⟩ := ih (Unreader.read rd u c).1 s1 s2
    simp only [reads]
    refine ⟨t1, t2, List.IsPrefix.trans s3 t3, ?_, ?_, fun h => t6 (s6 h), ?_⟩
    · rw [← List.append_assoc, s4, t4]
    · rw [t5, s5, List.length_append, Nat.add_assoc]
    · intro h
      rw [List.length_append] at h
      have h1 : u.pos < u.buf.length := by omega
      obtain ⟨r1, r2⟩ := s7 h1
      have h2 : (Unreader.read rd u c).1.pos + (reads rd (Unreader.read rd u c).1 cs).2.length
          < (Unreader.read rd u c).1.buf.length := by rw [s5, r2]; omega
      obtain ⟨q1, q2⟩ := t7 h2
      exact ⟨q1.trans r1, q2.trans r2⟩

/-- from a fresh state, any sequence of reads leaves `buf` = the concatenation of everything delivered -/
theorem unreader_reads_record {S : Type} (rd : S → Int → Bytes × Nat × S) (u : UState S) (caps : List Nat)
    (hb : u.buf = []) (hp : u.pos = 0) (hd : u.disabled = false) :
    (reads rd u caps).1.buf = (reads rd u caps).2
      ∧ (reads rd u caps).1.pos = (reads rd u caps).1.buf.length
      ∧ (reads rd u caps).1.disabled = false := by
  obtain ⟨t1, _, _, t4, _, t6, _⟩ := reads_inv rd caps u hd (by rw [hp]; exact Nat.zero_le _)
  have h6 := t6 (by rw [hp, hb]; rfl)
  rw [h6, List.take_of_length_le (Nat.le_refl _), hb, List.take_nil, List.nil_append] at t4
  exact ⟨t4.symm, h6, t1⟩

/-- two prefixes of one list agree on their common length -/
private theorem take_eq_take_of_prefix {a b l : Bytes} (ha : a <+: l) (hb : b <+: l) :
    a.take b.length = b.take a.length := by
  by_cases h : a.length ≤ b.length
  · have := List.prefix_of_prefix_length_le ha hb h
    rw [List.take_of_length_le h, ← List.prefix_iff_eq_take]
    exact this
  · have h' : b.length ≤ a.length := by omega
    have := List.prefix_of_prefix_length_le hb ha h'
    rw [List.take_of_length_le h']
    exact (List.prefix_iff_eq_take.mp this).symm

/-- after `unread` of a non-disabled state with recording `B = u.buf`: whatever sequence of reads follows,
    the bytes delivered are exactly the recorded bytes from offset 0, in order, until they are exhausted;
    the source (and the recording) is untouched while recorded bytes remain; the recording is never truncated -/
theorem unreader_replay {S : Type} (rd : S → Int → Bytes × Nat × S) (u : UState S) (caps : List Nat)
    (hd : u.disabled = false) :
    (reads rd (Unreader.unread u) caps).2.take u.buf.length = u.buf.take (reads rd (Unreader.unread u) caps).2.length
      ∧ ((reads rd (Unreader.unread u) caps).2.length < u.buf.length →
          (reads rd (Unreader.unread u) caps).1.r = u.r ∧ (reads rd (Unreader.unread u) caps).1.buf = u.buf)
      ∧ (reads rd (Unreader.unread u) caps).1.buf.take u.buf.length = u.buf
      ∧ (reads rd (Unreader.unread u) caps).1.pos = (reads rd (Unreader.unread u) caps).2.length
      ∧ (reads rd (Unreader.unread u) caps).1.disabled = false := by
  obtain ⟨t1, _, t3, t4, t5, _, t7⟩ := reads_inv rd caps (Unreader.unread u) hd (Nat.zero_le _)
  have e0 : (Unreader.unread u).pos = 0 := rfl
  have eb : (Unreader.unread u).buf = u.buf := rfl
  have er : (Unreader.unread u).r = u.r := rfl
  simp only [e0, eb, er, List.take_zero, List.nil_append, Nat.zero_add] at t3 t4 t5 t7
  have hout : (reads rd (Unreader.unread u) caps).2 <+: (reads rd (Unreader.unread u) caps).1.buf := by
    rw [t4]; exact List.take_prefix _ _
  exact ⟨take_eq_take_of_prefix hout t3, t7, (List.prefix_iff_eq_take.mp t3).symm, t5, t1⟩

/-- record, `unread`, read again: the second pass sees the same bytes as the first, in order -/
theorem unreader_roundtrip {S : Type} (rd : S → Int → Bytes × Nat × S) (u : UState S) (caps1 caps2 : List Nat)
    (hb : u.buf = []) (hp : u.pos = 0) (hd : u.disabled = false) :
    (reads rd (Unreader.unread (reads rd u caps1).1) caps2).2.take (reads rd u caps1).2.length
      = (reads rd u caps1).2.take (reads rd (Unreader.unread (reads rd u caps1).1) caps2).2.length := by
  obtain ⟨r1, _, r3⟩ := unreader_reads_record rd u caps1 hb hp hd
  have := (unreader_replay rd (reads rd u caps1).1 caps2 r3).1
  rw [r1] at this
  exact this

/-! ### non-vacuity -/

/-- a concrete source: the state is the list of bytes still to come, no errors -/
private def srcRd : Bytes → Int → Bytes × Nat × Bytes := fun s c => (s.take c.toNat, 0, s.drop c.toNat)

/-- a source that delivers nothing but changes its state on every call -/
private def tickRd : Nat → Int → Bytes × Nat × Nat := fun s _ => ([], 0, s + 1)

/-- the `io.Reader` contract `hrd` of the tie theorem is satisfiable -/
example : ∀ (s : Bytes) (c : Int), 0 ≤ c → (((srcRd s c).1.length : Nat) : Int) ≤ c := by
  intro s c h
  simp only [srcRd, List.length_take]
  omega

/-- the other hypotheses of `unreader_Read_eq` in both branches (replay / source), and the generated code really
    computes something there: replay of `buf[1:]` into a 4-byte buffer; a source read into a 2-byte buffer that is
    recorded; the same with `disabled` (recording dropped) -/
example : Streamingaead.Read Bytes srcRd [1, 2, 3] 1 false [9, 9, 9, 9] [7] = ([1, 2, 3], 3, [7], [2, 3, 9, 9], 2, 0) := by
  decide
example : Streamingaead.Read Bytes srcRd [1, 2, 3] 3 false [9, 9] [7, 8, 6] = ([1, 2, 3, 7, 8], 5, [6], [7, 8], 2, 0) := by
  decide
example : Streamingaead.Read Bytes srcRd [1, 2, 3] 3 true [9, 9] [7, 8, 6] = ([], 0, [6], [7, 8], 2, 0) := by
  decide
example : (⟨[7], [1, 2, 3], 1, false⟩ : UState Bytes).pos ≤ (⟨[7], [1, 2, 3], 1, false⟩ : UState Bytes).buf.length
    ∧ (⟨[7], [1, 2, 3], 1, false⟩ : UState Bytes).buf.length + ([9, 9, 9, 9] : Bytes).length < 9223372036854775808 := by
  decide

/-- a complete scenario on the model: record 4 of 5 bytes in two reads, `unread`, read again with other capacities:
    the 4 recorded bytes come back first (the second read is cut short at the end of the recording), then the source
    continues; everything is recorded -/
example :
    (reads srcRd ⟨[1, 2, 3, 4, 5], [], 0, false⟩ [2, 2]).2 = [1, 2, 3, 4]
      ∧ (reads srcRd ⟨[1, 2, 3, 4, 5], [], 0, false⟩ [2, 2]).1.buf = [1, 2, 3, 4]
      ∧ (reads srcRd ⟨[1, 2, 3, 4, 5], [], 0, false⟩ [2, 2]).1.r = [5]
      ∧ (reads srcRd (Unreader.unread (reads srcRd ⟨[1, 2, 3, 4, 5], [], 0, false⟩ [2, 2]).1) [3, 3, 3]).2
          = [1, 2, 3, 4, 5]
      ∧ (reads srcRd (Unreader.unread (reads srcRd ⟨[1, 2, 3, 4, 5], [], 0, false⟩ [2, 2]).1) [3]).1.r = [5]
      ∧ (reads srcRd (Unreader.unread (reads srcRd ⟨[1, 2, 3, 4, 5], [], 0, false⟩ [2, 2]).1) [3, 3, 3]).1.buf
          = [1, 2, 3, 4, 5] := by
  decide

/-- the hypotheses of the property theorems are satisfiable (fresh state; non-disabled state with a recording) -/
example : (⟨[5], [], 0, false⟩ : UState Bytes).buf = [] ∧ (⟨[5], [], 0, false⟩ : UState Bytes).pos = 0
    ∧ (⟨[5], [], 0, false⟩ : UState Bytes).disabled = false
    ∧ (⟨[5], [1, 2], 2, false⟩ : UState Bytes).disabled = false
    ∧ (⟨[5], [1, 2], 2, false⟩ : UState Bytes).pos = (⟨[5], [1, 2], 2, false⟩ : UState Bytes).buf.length := by
  decide

/-- why `unreader_replay` says `out.length < B.length` and not `≤`: with capacities `[1, 0]` on a one-byte recording
    the second `Read` already goes to the source (which delivers nothing here but moves on) -/
example : (reads tickRd (Unreader.unread ⟨0, [1], 1, false⟩) [1, 0]).2 = [1]
    ∧ (reads tickRd (Unreader.unread ⟨0, [1], 1, false⟩) [1, 0]).1.r = 1 := by
  decide

/-- why `unreader_replay` needs a non-disabled state: after `disable` the recording is dropped at the first
    source read -/
example : (reads srcRd (Unreader.unread ⟨[5], [1, 2], 2, true⟩) [2, 1]).1.buf = [] := by
  decide

section AxiomAudit
#print axioms unreader_Read_eq
#print axioms unreader_unread_eq
#print axioms unreader_disable_eq
#print axioms unreader_unread_model
#print axioms unreader_disable_model
#print axioms unreader_record
#print axioms unreader_reads_record
#print axioms unreader_replay
#print axioms unreader_roundtrip
end AxiomAudit

end TinkVerif.GlueTie
