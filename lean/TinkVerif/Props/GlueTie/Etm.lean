import TinkVerif.Lemmas.GlueSem
import TinkVerif.Gen.GlueEtm
import TinkVerif.Model.Aead
import TinkVerif.Props.C01
/-
  Tie: the encrypt-then-MAC compositions regenerated from /repo (Gen/GlueEtm.lean, produced by go/harness/gluetr on
  every check run) equal the hand model `Aead.EtM` of Model/Aead.lean.

  * aead/aesctrhmac/aead.go
      `aadSizeInBits`       (whole function) = `Bytes.be64 (8·|ad|)` (the product wraps mod 2^64 on both sides)
      `fullAEAD.Encrypt`    (whole function) = `EtM.encryptWith` for the IV the CTR layer drew
      `fullAEAD.Decrypt`    (whole function) = `EtM.decrypt`
    Abstracted as parameters:
      `ctrEnc dst p`  = `a.aesCTR.Encrypt(dst, p)` (internal/aead/aesctr.go, tied in Props/GlueTie/Ctr.lean:
                        `aesctr_Encrypt_dst` with a buffer of exactly `ivLen + |p|` bytes gives `iv ‖ CTR(padIV iv, p)`);
      `ctrDec [] p`   = `a.aesCTR.Decrypt(nil, p)` (`aesctr_Decrypt_nil`);
      `hmac x y z`    = `a.hmac.ComputeMAC(x, y, z)` (HMAC over the concatenation, truncated to the tag size);
      `hmacVerify t x y z` = `a.hmac.VerifyMAC(t, x, y, z)` (succeeds iff `t` is that truncated HMAC);
      the model's block function `a.E` returns 16-byte blocks and the model's `a.mac` returns at least `tagLen` bytes.
  * aead/subtle/encrypt_then_authenticate.go
      `uint64ToByte`                       (whole function) = `Bytes.be64`
      `EncryptThenAuthenticate.Encrypt`    (whole function): the MAC is asked about `EtM.macInput ad c`
                                           (= ad ‖ c ‖ be64(8·|ad|)), the result is `c ‖ tag`, a tag of the wrong
                                           size is refused;
      `EncryptThenAuthenticate.Decrypt`    (whole function): length guard, tag = last `tagSize` bytes, the MAC is
                                           verified over `EtM.macInput ad payload`, then the payload is decrypted.
    Abstracted as parameters: `indEnc` / `indDec` = `e.indCPACipher.Encrypt/Decrypt`, `mac` = `e.mac.ComputeMAC`,
    `macVerify` = `e.mac.VerifyMAC` — arbitrary (possibly failing) functions: the statements hold for all of them.

  Hypotheses other than the behaviour of the abstract callees are facts of Go: lengths (and the sums Go computes)
  are below 2^63.  No bound on |ad| is needed anywhere: `uint64(len(ad)) * 8` and `be64` wrap identically.
-/
namespace TinkVerif.GlueTie
open TinkVerif TinkVerif.GoSem
open TinkVerif.Gen.GlueEtm TinkVerif.Aead

private theorem slice_pre (b : Bytes) (hi : Nat) (h : hi ≤ b.length) : slice b 0 (hi : Int) = b.take hi := by
  have := slice_nat b 0 hi (Nat.zero_le _) h
  simpa using this

private theorem slice_suf (b : Bytes) (lo : Nat) (h : lo ≤ b.length) : slice b (lo : Int) (b.length : Int) = b.drop lo := by
  rw [slice_nat b lo b.length h (Nat.le_refl _), List.take_of_length_le (Nat.le_refl _)]

private theorem eight_mul_mod' (n : Nat) :
    (n % 18446744073709551616 * 8) % 18446744073709551616 = (8 * n) % 18446744073709551616 := by
  omega

/-- `buf := make([]byte, 8); binary.BigEndian.PutUint64(buf, n)` -/
private theorem put64 (n : Nat) : putBE 8 (makeBytes 8) 0 (len (makeBytes 8)) n = Bytes.be64 n := by
  have := putBE_append 8 [] (makeBytes 8) 0 ((makeBytes 8).length : Int) n (by simp) (by simp [makeBytes]) (by simp)
  simp only [List.nil_append] at this
  rw [len_eq, this]
  simp [makeBytes, Bytes.be64]

private theorem be64_mod (n : Nat) : Bytes.be64 (n % 18446744073709551616) = Bytes.be64 n := by
  have e : (18446744073709551616 : Nat) = 256 ^ 8 := by decide
  rw [Bytes.be64, e, Bytes.ofNatBE_mod']
  rfl

/-! ### the length block -/

theorem etm_aadSizeInBits_eq (ad : Bytes) : AesctrhmacFull.aadSizeInBits ad = Bytes.be64 (8 * ad.length) := by
  simp only [AesctrhmacFull.aadSizeInBits, AesctrhmacFull.aadSizeInBits.v3, AesctrhmacFull.aadSizeInBits.v2,
    AesctrhmacFull.aadSizeInBits.v1, put64]
  rw [len_eq, toUnsigned_64, eight_mul_mod', be64_mod]

theorem etm_uint64ToByte_eq (n : Nat) : AeadSubtle.uint64ToByte n = Bytes.be64 n := by
  simp only [AeadSubtle.uint64ToByte, AeadSubtle.uint64ToByte.v2, AeadSubtle.uint64ToByte.v1, put64]

/-- the model's MAC input is what aesctrhmac authenticates -/
theorem etm_macInput_eq (ad payload : Bytes) :
    EtM.macInput ad payload = ad ++ payload ++ AesctrhmacFull.aadSizeInBits ad := by
  rw [etm_aadSizeInBits_eq]; rfl

/-! ### aead/aesctrhmac Encrypt -/

private theorem enc_ctSize (P I L T : Nat) (h : P + I + L + T < 9223372036854775808) :
    i64 (i64 ((P : Int) + (I : Int)) + (L : Int)) = ((P + (I + L) : Nat) : Int) := by
  rw [i64_eq (x := (P : Int) + (I : Int)) (by omega) (by omega), i64_eq (by omega) (by omega)]; omega

theorem etm_Encrypt_eq (a : Aead.EtM) (hmac : Bytes → Bytes → Bytes → Option Bytes)
    (ctrEnc : Bytes → Bytes → Option Bytes) (iv pt ad : Bytes)
    (hiv : iv.length = a.ivLen)
    (hE : ∀ x, (a.E x).length = 16)
    (hctr : ∀ dst p, dst.length = a.ivLen + p.length → ctrEnc dst p = some (iv ++ Ctr.xorBE a.E (Aead.padIV iv) p))
    (hmacspec : ∀ x y z, hmac x y z = some ((a.mac (x ++ y ++ z)).take a.tagLen))
    (hmaclen : ∀ x, a.tagLen ≤ (a.mac x).length)
    (hlen : a.pre.length + a.ivLen + pt.length + a.tagLen < 9223372036854775808) :
    AesctrhmacFull.Encrypt hmac ctrEnc a.pre (a.ivLen : Int) (a.tagLen : Int) pt ad = some (a.encryptWith iv pt ad) := by
  -- the working buffer after the prefix copy
  have hbuf : AesctrhmacFull.Encrypt.v2 hmac ctrEnc a.pre (a.ivLen : Int) (a.tagLen : Int) pt ad
      = Bytes.zeros (a.pre.length + (a.ivLen + pt.length)) := by
    simp only [AesctrhmacFull.Encrypt.v2, AesctrhmacFull.Encrypt.v1, len_eq]
    rw [enc_ctSize a.pre.length a.ivLen pt.length a.tagLen hlen, makeBytes_natCast]
  have hc2 : AesctrhmacFull.Encrypt.v3 hmac ctrEnc a.pre (a.ivLen : Int) (a.tagLen : Int) pt ad
      = a.pre ++ Bytes.zeros (a.ivLen + pt.length) := by
    simp only [AesctrhmacFull.Encrypt.v3, hbuf]
    have := copyInto_append [] (Bytes.zeros (a.pre.length + (a.ivLen + pt.length))) a.pre 0
      (len (Bytes.zeros (a.pre.length + (a.ivLen + pt.length)))) (by simp) (by simp)
    simp only [List.nil_append] at this
    have e : a.pre.length + (a.ivLen + pt.length) - a.pre.length = a.ivLen + pt.length := by omega
    rw [this, Bytes.length_zeros, List.take_of_length_le (by omega), drop_zeros, e]
  have hn : AesctrhmacFull.Encrypt.v4 hmac ctrEnc a.pre (a.ivLen : Int) (a.tagLen : Int) pt ad = len a.pre := by
    simp only [AesctrhmacFull.Encrypt.v4, hbuf, len_eq, Bytes.length_zeros]; omega
  -- the CTR layer is handed the `ivLen + |pt|` zero bytes after the prefix
  have hwin : slice (a.pre ++ Bytes.zeros (a.ivLen + pt.length)) (a.pre.length : Int)
      ((a.pre ++ Bytes.zeros (a.ivLen + pt.length)).length : Int) = Bytes.zeros (a.ivLen + pt.length) := by
    rw [slice_suf _ _ (by simp), List.drop_left]
  have hxl : (Ctr.xorBE a.E (Aead.padIV iv) pt).length = pt.length := Aead.xorBE_length a.E hE _ _
  have hcl : (iv ++ Ctr.xorBE a.E (Aead.padIV iv) pt).length = a.ivLen + pt.length := by
    rw [List.length_append, hxl, hiv]
  have hc3 : ∀ c : Bytes, c.length = a.ivLen + pt.length →
      copyInto (a.pre ++ Bytes.zeros (a.ivLen + pt.length)) (a.pre.length : Int)
        ((a.pre ++ Bytes.zeros (a.ivLen + pt.length)).length : Int) c = a.pre ++ c := by
    intro c hc
    rw [copyInto_append a.pre _ c _ _ (by simp) (by simp), Bytes.length_zeros, List.take_of_length_le (by omega),
      drop_zeros, hc, Nat.sub_self, zeros_zero, List.append_nil]
  have htl : ∀ x, (((a.mac x).take a.tagLen).length : Int) = (a.tagLen : Int) := by
    intro x
    have := hmaclen x
    rw [List.length_take]; omega
  simp only [AesctrhmacFull.Encrypt, hn, ne_eq, not_true_eq_false, ↓reduceIte, AesctrhmacFull.Encrypt.v5,
    AesctrhmacFull.Encrypt.v7, AesctrhmacFull.Encrypt.v6, hc2, hwin,
    hctr _ pt (Bytes.length_zeros _), Option.bind_some, hmacspec, len_eq, htl, hc3 _ hcl, ← etm_macInput_eq]
  simp only [EtM.encryptWith, List.append_assoc]

/-! ### aead/aesctrhmac Decrypt -/

private theorem dec_guard (P I T : Nat) (h : P + I + T < 9223372036854775808) :
    i64 (i64 ((P : Int) + (I : Int)) + (T : Int)) = ((P + I + T : Nat) : Int) := by
  rw [i64_eq (x := (P : Int) + (I : Int)) (by omega) (by omega), i64_eq (by omega) (by omega)]; omega

private theorem dec_split (C T : Nat) (h1 : T ≤ C) (h2 : C < 9223372036854775808) :
    i64 ((C : Int) - (T : Int)) = ((C - T : Nat) : Int) := by
  rw [i64_eq (by omega) (by omega)]; omega

theorem etm_Decrypt_eq (a : Aead.EtM) (hmacVerify : Bytes → Bytes → Bytes → Bytes → Option Unit)
    (ctrDec : Bytes → Bytes → Option Bytes) (ct ad : Bytes)
    (hver : ∀ t x y z, hmacVerify t x y z = if (a.mac (x ++ y ++ z)).take a.tagLen = t then some () else none)
    (hdec : ∀ p, a.ivLen ≤ p.length →
      ctrDec [] p = some (Ctr.xorBE a.E (Aead.padIV (p.take a.ivLen)) (p.drop a.ivLen)))
    (hlen : a.pre.length + a.ivLen + a.tagLen < 9223372036854775808)
    (hct : ct.length < 9223372036854775808) :
    AesctrhmacFull.Decrypt hmacVerify ctrDec a.pre (a.ivLen : Int) (a.tagLen : Int) ct ad = a.decrypt ct ad := by
  simp only [AesctrhmacFull.Decrypt, AesctrhmacFull.Decrypt.v1, EtM.decrypt, len_eq,
    dec_guard a.pre.length a.ivLen a.tagLen hlen]
  by_cases h1 : ct.length < a.pre.length + a.ivLen + a.tagLen
  · have h1' : (ct.length : Int) < ((a.pre.length + a.ivLen + a.tagLen : Nat) : Int) := by omega
    simp only [h1, h1', ↓reduceIte]
  · have h1' : ¬ (ct.length : Int) < ((a.pre.length + a.ivLen + a.tagLen : Nat) : Int) := by omega
    simp only [h1, h1', ↓reduceIte]
    have hpre : AesctrhmacFull.Decrypt.v2 hmacVerify ctrDec a.pre (a.ivLen : Int) (a.tagLen : Int) ct ad
        = ct.take a.pre.length := by
      simp only [AesctrhmacFull.Decrypt.v2, AesctrhmacFull.Decrypt.v1, len_eq]
      exact slice_pre ct _ (by omega)
    have hpay : AesctrhmacFull.Decrypt.v3 hmacVerify ctrDec a.pre (a.ivLen : Int) (a.tagLen : Int) ct ad
        = (ct.drop a.pre.length).take (ct.length - a.pre.length - a.tagLen) := by
      simp only [AesctrhmacFull.Decrypt.v3, AesctrhmacFull.Decrypt.v1, len_eq]
      have e : ct.length - a.tagLen - a.pre.length = ct.length - a.pre.length - a.tagLen := by omega
      rw [dec_split _ _ (by omega) hct, slice_nat ct _ _ (by omega) (by omega), List.drop_take, e]
    have htag : AesctrhmacFull.Decrypt.v4 hmacVerify ctrDec a.pre (a.ivLen : Int) (a.tagLen : Int) ct ad
        = ct.drop (ct.length - a.tagLen) := by
      simp only [AesctrhmacFull.Decrypt.v4, len_eq]
      rw [dec_split _ _ (by omega) hct, slice_suf ct _ (by omega)]
    simp only [hpre, AesctrhmacFull.Decrypt.v5, hpay, htag, hver, ← etm_macInput_eq]
    by_cases h2 : ct.take a.pre.length = a.pre
    · simp only [h2, decide_true, not_true_eq_false, ↓reduceIte, ne_eq]
      by_cases h3 : (a.mac (EtM.macInput ad ((ct.drop a.pre.length).take (ct.length - a.pre.length - a.tagLen)))).take a.tagLen
          = ct.drop (ct.length - a.tagLen)
      · simp only [h3, ↓reduceIte, Option.bind_some, not_true_eq_false]
        exact hdec _ (by simp; omega)
      · simp only [h3, ↓reduceIte, Option.bind_none, not_false_eq_true]
    · simp only [h2, decide_false, Bool.false_eq_true, not_false_eq_true, ↓reduceIte, ne_eq]

/-! ### aead/subtle EncryptThenAuthenticate -/

private theorem subtle_authData (ad c : Bytes) :
    ad ++ c
      ++ AeadSubtle.uint64ToByte (((toUnsigned 64 (ad.length : Int)) * (8 : Nat)) % 18446744073709551616)
    = EtM.macInput ad c := by
  rw [etm_uint64ToByte_eq, toUnsigned_64, eight_mul_mod', be64_mod]
  rfl

theorem subtle_eta_Encrypt_eq (indEnc : Bytes → Option Bytes) (mac : Bytes → Option Bytes) (tagSize : Int)
    (pt ad : Bytes) :
    AeadSubtle.Encrypt indEnc mac tagSize pt ad =
      (indEnc pt).bind fun c => (mac (Aead.EtM.macInput ad c)).bind fun t =>
        if (t.length : Int) = tagSize then some (c ++ t) else none := by
  have hm : (makeBytes 0 : Bytes) = [] := rfl
  simp only [AeadSubtle.Encrypt, AeadSubtle.Encrypt.v1, AeadSubtle.Encrypt.v8,
    AeadSubtle.Encrypt.v7, AeadSubtle.Encrypt.v6, AeadSubtle.Encrypt.v5,
    AeadSubtle.Encrypt.v4, AeadSubtle.Encrypt.v3, AeadSubtle.Encrypt.v2,
    AeadSubtle.Encrypt.v9, hm, subtle_authData, len_eq, ne_eq]
  congr 1; funext c; congr 1; funext t
  by_cases h : (t.length : Int) = tagSize
  · simp only [h, not_true_eq_false, ↓reduceIte]
  · simp only [h, not_false_eq_true, ↓reduceIte]

theorem subtle_eta_Decrypt_eq (macVerify : Bytes → Bytes → Option Unit) (indDec : Bytes → Option Bytes)
    (tagSize : Int) (ct ad : Bytes) (htag : 0 ≤ tagSize) (hct : ct.length < 9223372036854775808) :
    AeadSubtle.Decrypt macVerify indDec tagSize ct ad =
      if (ct.length : Int) < tagSize then none
      else (macVerify (ct.drop (ct.length - tagSize.toNat))
              (Aead.EtM.macInput ad (ct.take (ct.length - tagSize.toNat)))).bind fun _ =>
             indDec (ct.take (ct.length - tagSize.toNat)) := by
  have hm : (makeBytes 0 : Bytes) = [] := rfl
  simp only [AeadSubtle.Decrypt, len_eq]
  by_cases h1 : (ct.length : Int) < tagSize
  · simp only [h1, ↓reduceIte]
  · simp only [h1, ↓reduceIte]
    have hT : tagSize = ((tagSize.toNat : Nat) : Int) := by omega
    have hle : tagSize.toNat ≤ ct.length := by omega
    have hs : i64 ((ct.length : Int) - tagSize) = ((ct.length - tagSize.toNat : Nat) : Int) := by
      rw [hT, dec_split _ _ hle hct, Int.toNat_natCast]
    have hpay : AeadSubtle.Decrypt.v2 macVerify indDec tagSize ct ad = ct.take (ct.length - tagSize.toNat) := by
      simp only [AeadSubtle.Decrypt.v2, len_eq]
      rw [hs, slice_pre ct _ (by omega)]
    simp only [AeadSubtle.Decrypt.v8, AeadSubtle.Decrypt.v9, AeadSubtle.Decrypt.v7,
      AeadSubtle.Decrypt.v6, AeadSubtle.Decrypt.v5, AeadSubtle.Decrypt.v4,
      AeadSubtle.Decrypt.v3, AeadSubtle.Decrypt.v1, hpay, hm, subtle_authData, len_eq]
    rw [hs, slice_suf ct _ (by omega)]
    simp

/-! ### non-vacuity of the hypotheses -/

/-- an `EtM` instance with 16-byte blocks and a long enough MAC, and callees that meet the specifications -/
example : ∃ (a : Aead.EtM) (iv : Bytes) (hmac : Bytes → Bytes → Bytes → Option Bytes)
    (ctrEnc : Bytes → Bytes → Option Bytes) (hmacVerify : Bytes → Bytes → Bytes → Bytes → Option Unit)
    (ctrDec : Bytes → Bytes → Option Bytes),
    iv.length = a.ivLen ∧ (∀ x, (a.E x).length = 16) ∧
    (∀ dst p, dst.length = a.ivLen + p.length → ctrEnc dst p = some (iv ++ Ctr.xorBE a.E (Aead.padIV iv) p)) ∧
    (∀ x y z, hmac x y z = some ((a.mac (x ++ y ++ z)).take a.tagLen)) ∧
    (∀ x, a.tagLen ≤ (a.mac x).length) ∧
    (∀ t x y z, hmacVerify t x y z = if (a.mac (x ++ y ++ z)).take a.tagLen = t then some () else none) ∧
    (∀ p, a.ivLen ≤ p.length → ctrDec [] p = some (Ctr.xorBE a.E (Aead.padIV (p.take a.ivLen)) (p.drop a.ivLen))) ∧
    a.pre.length + a.ivLen + a.tagLen < 9223372036854775808 := by
  let a : Aead.EtM := ⟨[1, 0, 0, 0, 7], fun _ => Bytes.zeros 16, fun _ => Bytes.zeros 32, 12, 16⟩
  refine ⟨a, Bytes.zeros 12,
    fun x y z => some ((a.mac (x ++ y ++ z)).take a.tagLen),
    fun _ p => some (Bytes.zeros 12 ++ Ctr.xorBE a.E (Aead.padIV (Bytes.zeros 12)) p),
    fun t x y z => if (a.mac (x ++ y ++ z)).take a.tagLen = t then some () else none,
    fun _ p => some (Ctr.xorBE a.E (Aead.padIV (p.take a.ivLen)) (p.drop a.ivLen)),
    by simp [a], fun _ => by simp [a], fun _ _ _ => rfl, fun _ _ _ => rfl, fun _ => by simp [a],
    fun _ _ _ _ => rfl, fun _ _ => rfl, by simp [a]⟩

/-- the subtle `Decrypt` hypotheses: a non-negative tag size and a short ciphertext -/
example : (0 : Int) ≤ 16 ∧ ([1, 2, 3] : Bytes).length < 9223372036854775808 := by decide

section AxiomAudit
#print axioms etm_aadSizeInBits_eq
#print axioms etm_uint64ToByte_eq
#print axioms etm_macInput_eq
#print axioms etm_Encrypt_eq
#print axioms etm_Decrypt_eq
#print axioms subtle_eta_Encrypt_eq
#print axioms subtle_eta_Decrypt_eq
end AxiomAudit

end TinkVerif.GlueTie
