import TinkVerif.Gen.GlueFactoryVerify
import TinkVerif.Props.GlueTie.FactoryCommon
/-
  GLUE TIE (whole functions), signature/verifier_factory.go wrappedVerifier.Verify — regenerated into Gen/GlueFactoryVerify.lean on every check run.
  What is abstract, the iterator contract `IterSpec` and the helper lemmas: see Props/GlueTie/FactoryCommon.lean.
-/
namespace TinkVerif.GlueTie
open TinkVerif

/-! ### signature verification -/

theorem factory_verify_tie (Iter PMap Prim : Type) (fuel : Nat) (ver : Prim → Bytes → Bytes → Option Unit)
    (matching : PMap → Bytes → Iter) (next : Iter → Prim × Bool × Iter) (rest : Iter → List Prim)
    (hs : IterSpec next rest) (m : PMap) (sig data : Bytes) (hf : (rest (matching m sig)).length < fuel) :
    Gen.GlueFactoryVerify.VerifierFactory.Verify Iter PMap Prim fuel ver matching next m sig data
      = if (rest (matching m sig)).any (fun p => (ver p sig data).isSome) then some () else none := by
  have h := factory_loop_gen next rest hs (fun p => (ver p sig data).map (fun _ => some ()))
    (fun s1 => Gen.GlueFactoryVerify.VerifierFactory.Verify.loop1.body Iter PMap Prim fuel ver matching next m sig data s1)
    (by
      intro s h
      simp only [Gen.GlueFactoryVerify.VerifierFactory.Verify.loop1.body, h, Bool.false_eq_true, if_false])
    (by
      intro s h
      simp only [Gen.GlueFactoryVerify.VerifierFactory.Verify.loop1.body, Gen.GlueFactoryVerify.VerifierFactory.Verify.loop1.v6, Gen.GlueFactoryVerify.VerifierFactory.Verify.loop1.v7, Gen.GlueFactoryVerify.VerifierFactory.Verify.loop1.v8, Gen.GlueFactoryVerify.VerifierFactory.Verify.loop1.v9, Gen.GlueFactoryVerify.VerifierFactory.Verify.loop1.v10, h, if_true]
      cases ver s.2.1 sig data <;> rfl)
    _ (matching m sig) fuel rfl hf
  simp only [Gen.GlueFactoryVerify.VerifierFactory.Verify, Gen.GlueFactoryVerify.VerifierFactory.Verify.loop1, Gen.GlueFactoryVerify.VerifierFactory.Verify.v5, Gen.GlueFactoryVerify.VerifierFactory.Verify.v4, Gen.GlueFactoryVerify.VerifierFactory.Verify.v3, Gen.GlueFactoryVerify.VerifierFactory.Verify.v2, Gen.GlueFactoryVerify.VerifierFactory.Verify.v1]
  rw [h, factory_findSome_unit]
  by_cases hany : (rest (matching m sig)).any (fun p => (ver p sig data).isSome) = true
  · rw [if_pos hany, if_pos hany]
  · rw [if_neg hany, if_neg hany]

theorem factory_verify_accept {κ : Type} (Iter PMap : Type) (fuel : Nat) (ver : Wrap.WEntry κ → Bytes → Bytes → Option Unit)
    (matching : PMap → Bytes → Iter) (next : Iter → Wrap.WEntry κ × Bool × Iter) (rest : Iter → List (Wrap.WEntry κ))
    (hs : IterSpec next rest) (m : PMap) (es : List (Wrap.WEntry κ)) (accepts : κ → Bytes → Bytes → Bool) (sig data : Bytes)
    (hm : rest (matching m sig) = Wrap.candidates es sig)
    (hd : ∀ e, (ver e sig data).isSome = accepts e.key sig data)
    (hf : (Wrap.candidates es sig).length < fuel) :
    (Gen.GlueFactoryVerify.VerifierFactory.Verify Iter PMap (Wrap.WEntry κ) fuel ver matching next m sig data).isSome
        = (Wrap.accept accepts es sig data).isSome := by
  have h := factory_verify_tie Iter PMap (Wrap.WEntry κ) fuel ver matching next rest hs m sig data (by rw [hm]; exact hf)
  rw [h, hm, factory_any_find_isSome _ _ hd]
  simp only [Wrap.accept, Option.isSome_map]


end TinkVerif.GlueTie

section AxiomAudit
#print axioms TinkVerif.GlueTie.factory_verify_tie
#print axioms TinkVerif.GlueTie.factory_verify_accept
end AxiomAudit
