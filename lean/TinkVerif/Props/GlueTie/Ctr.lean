import TinkVerif.Lemmas.GlueSem
import TinkVerif.Gen.GlueCtr
import TinkVerif.Model.Aead
/-
  Tie: the AES-CTR wrapper regenerated from /repo/internal/aead/aesctr.go (Gen/GlueCtr.lean, produced by
  go/harness/gluetr on every check run) equals what the hand model `Aead.EtM` uses (`iv ‖ CTR(padIV iv, pt)`).

  * `AESCTR.newCipher` (whole function): the IV handed to `cipher.NewCTR` is `Aead.padIV iv` (zero padded on the
    right to one block) when `len(iv) < 16` and `len(iv) = ivSize`; an error when the lengths disagree; `iv` itself
    when it is at least a block long;
  * `AESCTR.Encrypt` (whole function): with `dst = nil` the result is `iv ‖ CTR(padIV iv, pt)` for the fresh random
    `iv`; with a caller buffer of sufficient length the same bytes are written at the front and the rest of the buffer
    is returned untouched; a non-empty buffer that is too short is refused;
  * `AESCTR.Decrypt` (whole function): with `dst = nil`, `CTR(padIV ct[:ivSize], ct[ivSize:])`; with a caller
    buffer the same at its front; a ciphertext shorter than the IV, or a too short non-empty buffer, is refused.

  Abstracted as parameters (trusted standard library / randomness):
    `ctr k x`  = `cipher.NewCTR(a.block, k).XORKeyStream(·, x)` for the fixed AES key of the object — `Ctr.xorBE a.E k x`
                 in the model.  It is length preserving, which is what makes `GoSem.applyInto` a faithful reading
                 of `XORKeyStream(dst, src)`; the equations hold for every function `ctr`, so this is a hypothesis
                 only of the length corollary `aesctr_Encrypt_nil_length`;
    `rand n`   = the bytes `random.MustRand` writes into an `n`-byte window; hypothesis: `n` bytes.
  Other hypotheses are facts of Go: slice lengths (and their sums, which Go itself guards with
  `len(plaintext) > math.MaxInt - ivSize`) are below 2^63; `ivSize ≤ 16` is enforced by `NewAESCTR`
  (`12 ≤ ivSize` is enforced too but is not needed by any statement here).
-/
namespace TinkVerif.GlueTie
open TinkVerif TinkVerif.GoSem
open TinkVerif.Gen.GlueCtr TinkVerif.Aead

private theorem slice_pre (b : Bytes) (hi : Nat) (h : hi ≤ b.length) : slice b 0 (hi : Int) = b.take hi := by
  have := slice_nat b 0 hi (Nat.zero_le _) h
  simpa using this

private theorem slice_suf (b : Bytes) (lo : Nat) (h : lo ≤ b.length) : slice b (lo : Int) (b.length : Int) = b.drop lo := by
  rw [slice_nat b lo b.length h (Nat.le_refl _), List.take_of_length_le (Nat.le_refl _)]

/-- `copy(D[0:n], R)` for an `n`-byte `R` -/
private theorem copyInto_pre (D R : Bytes) (n : Nat) (hR : R.length = n) (hD : n ≤ D.length) :
    copyInto D 0 (n : Int) R = R ++ D.drop n := by
  have hc : (0 : Int) ≤ 0 ∧ (0 : Int) ≤ (n : Int) ∧ (n : Int) ≤ len D := by simp only [len_eq]; omega
  rw [copyInto, if_pos hc]
  simp [hR, List.take_of_length_le (show R.length ≤ n by omega)]

/-- `F`-store of `src` at offset `|A|` of `A ++ Z` with the window running to the end of the buffer -/
private theorem applyInto_at (F : Bytes → Bytes) (A Z src : Bytes) (h : src.length ≤ Z.length) :
    applyInto F (A ++ Z) (A.length : Int) ((A ++ Z).length : Int) src = A ++ F src ++ Z.drop src.length := by
  have hc : (0 : Int) ≤ (A.length : Int) ∧ (A.length : Int) + Int.ofNat src.length ≤ ((A ++ Z).length : Int)
      ∧ ((A ++ Z).length : Int) ≤ len (A ++ Z) := by
    simp only [len_eq, List.length_append, Int.ofNat_eq_natCast]; omega
  rw [applyInto, if_pos hc]
  simp only [Int.toNat_natCast, List.take_left', List.append_assoc, List.append_cancel_left_eq]
  rw [List.drop_append]
  simp

/-! ### newCipher -/

theorem aesctr_newCipher_eq (ivSize : Int) (iv : Bytes) :
    Aesctr.newCipher ivSize iv =
      if iv.length < 16 then (if (iv.length : Int) = ivSize then some (Aead.padIV iv) else none) else some iv := by
  simp only [Aesctr.newCipher, Aesctr.newCipher.v3, Aesctr.newCipher.v4, Aesctr.newCipher.v2,
    Aesctr.newCipher.v1, len_eq]
  by_cases h : iv.length < 16
  · have h' : (iv.length : Int) < 16 := by omega
    have hm : min (((makeBytes 16).length : Int) - 0) (iv.length : Int) = (iv.length : Int) := by
      have : (makeBytes 16).length = 16 := by simp [makeBytes]
      omega
    simp only [h', h, ↓reduceIte, hm]
    by_cases h2 : (iv.length : Int) = ivSize
    · simp only [h2, ne_eq, not_true_eq_false, ↓reduceIte]
      have := copyInto_append [] (makeBytes 16) iv 0 ((makeBytes 16).length : Int) (by simp) (by simp)
      simp only [List.nil_append] at this
      rw [this]
      have hz : makeBytes 16 = Bytes.zeros 16 := makeBytes_natCast 16
      rw [hz, Bytes.length_zeros, List.take_of_length_le (by omega), drop_zeros, padIV]
    · simp only [h2, ne_eq, not_false_eq_true, ↓reduceIte]
  · have h' : ¬ (iv.length : Int) < 16 := by omega
    simp only [h', h, ↓reduceIte]

/-- the form used below: an `ivSize`-byte IV with `ivSize ≤ 16` always yields the padded IV -/
private theorem newCipher_ok (n : Nat) (hn : n ≤ 16) (iv : Bytes) (h : iv.length = n) :
    Aesctr.newCipher (n : Int) iv = some (Aead.padIV iv) := by
  rw [aesctr_newCipher_eq]
  by_cases h1 : iv.length < 16
  · rw [if_pos h1, if_pos (by omega)]
  · have : iv.length = 16 := by omega
    rw [if_neg h1, padIV, this]; simp

/-! ### Encrypt -/

private theorem encrypt_guard (p n : Nat) (hn : n ≤ 16) (hp : p + n < 9223372036854775808) :
    ¬ ((p : Int) > i64 ((9223372036854775807 : Int) - (n : Int))) := by
  rw [i64_eq (by omega) (by omega)]; omega

private theorem encrypt_ctSize (p n : Nat) (hp : p + n < 9223372036854775808) :
    i64 ((p : Int) + (n : Int)) = ((p + n : Nat) : Int) := by
  rw [i64_eq (by omega) (by omega)]; omega

/-- the body of `Encrypt` once the working buffer `D` (either fresh or the caller's) is known to be long enough -/
private theorem encrypt_core (ctr : Bytes → Bytes → Bytes) (R D pt : Bytes) (n : Nat) (hn : n ≤ 16)
    (hR : R.length = n) (hD : pt.length + n ≤ D.length) :
    (Aesctr.newCipher (n : Int) (slice (copyInto D 0 (n : Int) R) 0 (n : Int))).bind (fun stream =>
      some (applyInto (ctr stream) (copyInto D 0 (n : Int) R) (n : Int) (len (copyInto D 0 (n : Int) R)) pt))
    = some (R ++ ctr (Aead.padIV R) pt ++ D.drop (n + pt.length)) := by
  rw [copyInto_pre D R n hR (by omega)]
  have hs : slice (R ++ D.drop n) 0 (n : Int) = R := by
    rw [slice_pre _ n (by simp; omega), ← hR, List.take_left']
    rfl
  rw [hs, newCipher_ok n hn R hR, Option.bind_some, len_eq]
  have := applyInto_at (ctr (Aead.padIV R)) R (D.drop n) pt (by simp; omega)
  rw [hR] at this
  rw [this, List.drop_drop]

theorem aesctr_Encrypt_dst (ctr : Bytes → Bytes → Bytes) (rand : Int → Bytes) (ivSize : Nat) (dst pt : Bytes)
    (hiv : ivSize ≤ 16) (hlen : pt.length + ivSize < 9223372036854775808)
    (hrand : (rand ivSize).length = ivSize)
    (hdst : dst.length ≠ 0) (hfit : pt.length + ivSize ≤ dst.length) :
    Aesctr.Encrypt ctr rand ivSize dst pt
      = some (rand ivSize ++ ctr (Aead.padIV (rand ivSize)) pt ++ dst.drop (ivSize + pt.length)) := by
  have h0 : ¬ ((dst.length : Int) = 0) := by omega
  have hd2 : Aesctr.Encrypt.v3 ctr rand ivSize dst pt = dst := by
    simp only [Aesctr.Encrypt.v3, len_eq, h0, ↓reduceIte]
  have hg2 : ¬ ((dst.length : Int) < ((pt.length + ivSize : Nat) : Int)) := by omega
  simp only [Aesctr.Encrypt, Aesctr.Encrypt.v7, Aesctr.Encrypt.v8, Aesctr.Encrypt.v6,
    Aesctr.Encrypt.v4, Aesctr.Encrypt.v5, Aesctr.Encrypt.v1, hd2, len_eq, Int.sub_zero]
  simp only [encrypt_guard pt.length ivSize hiv hlen, encrypt_ctSize pt.length ivSize hlen, hg2, ↓reduceIte]
  exact encrypt_core ctr (rand ivSize) dst pt ivSize hiv hrand hfit

theorem aesctr_Encrypt_nil (ctr : Bytes → Bytes → Bytes) (rand : Int → Bytes) (ivSize : Nat) (pt : Bytes)
    (hiv : ivSize ≤ 16) (hlen : pt.length + ivSize < 9223372036854775808)
    (hrand : (rand ivSize).length = ivSize) :
    Aesctr.Encrypt ctr rand ivSize [] pt = some (rand ivSize ++ ctr (Aead.padIV (rand ivSize)) pt) := by
  have hd2 : Aesctr.Encrypt.v3 ctr rand ivSize [] pt = Bytes.zeros (pt.length + ivSize) := by
    simp only [Aesctr.Encrypt.v3, Aesctr.Encrypt.v2, Aesctr.Encrypt.v1, len_eq, List.length_nil,
      Int.natCast_zero, ↓reduceIte]
    rw [encrypt_ctSize pt.length ivSize hlen, makeBytes_natCast]
  have hg2 : ¬ (((pt.length + ivSize : Nat) : Int) < ((pt.length + ivSize : Nat) : Int)) := by omega
  simp only [Aesctr.Encrypt, Aesctr.Encrypt.v7, Aesctr.Encrypt.v8, Aesctr.Encrypt.v6,
    Aesctr.Encrypt.v4, Aesctr.Encrypt.v5, Aesctr.Encrypt.v1, hd2, len_eq, Int.sub_zero,
    Bytes.length_zeros]
  simp only [encrypt_guard pt.length ivSize hiv hlen, encrypt_ctSize pt.length ivSize hlen, hg2, ↓reduceIte]
  have := encrypt_core ctr (rand ivSize) (Bytes.zeros (pt.length + ivSize)) pt ivSize hiv hrand (by simp)
  simp only [len_eq] at this
  rw [this, List.drop_of_length_le (l := Bytes.zeros (pt.length + ivSize)) (by simp; omega), List.append_nil]

/-- with a length-preserving stream the fresh ciphertext is exactly `ivSize + |pt|` bytes long -/
theorem aesctr_Encrypt_nil_length (ctr : Bytes → Bytes → Bytes) (rand : Int → Bytes) (ivSize : Nat) (pt : Bytes)
    (hiv : ivSize ≤ 16) (hlen : pt.length + ivSize < 9223372036854775808)
    (hrand : (rand ivSize).length = ivSize) (hctr : ∀ k x, (ctr k x).length = x.length) :
    ∃ c, Aesctr.Encrypt ctr rand ivSize [] pt = some c ∧ c.length = ivSize + pt.length :=
  ⟨_, aesctr_Encrypt_nil ctr rand ivSize pt hiv hlen hrand, by simp [hrand, hctr]⟩

theorem aesctr_Encrypt_small (ctr : Bytes → Bytes → Bytes) (rand : Int → Bytes) (ivSize : Nat) (dst pt : Bytes)
    (hiv : ivSize ≤ 16) (hlen : pt.length + ivSize < 9223372036854775808)
    (hdst : dst.length ≠ 0) (hsmall : dst.length < pt.length + ivSize) :
    Aesctr.Encrypt ctr rand ivSize dst pt = none := by
  have h0 : ¬ ((dst.length : Int) = 0) := by omega
  have hd2 : Aesctr.Encrypt.v3 ctr rand ivSize dst pt = dst := by
    simp only [Aesctr.Encrypt.v3, len_eq, h0, ↓reduceIte]
  have hg2 : (dst.length : Int) < ((pt.length + ivSize : Nat) : Int) := by omega
  simp only [Aesctr.Encrypt, Aesctr.Encrypt.v1, hd2, len_eq]
  simp only [encrypt_guard pt.length ivSize hiv hlen, encrypt_ctSize pt.length ivSize hlen, hg2, ↓reduceIte]

/-! ### Decrypt -/

private theorem decrypt_ptSize (c n : Nat) (hn : n ≤ c) (hc : c < 9223372036854775808) :
    i64 ((c : Int) - (n : Int)) = ((c - n : Nat) : Int) := by
  rw [i64_eq (by omega) (by omega)]; omega

private theorem decrypt_core (ctr : Bytes → Bytes → Bytes) (D ct : Bytes) (n : Nat) (hn : n ≤ 16)
    (hc : n ≤ ct.length) (hD : ct.length - n ≤ D.length) :
    (Aesctr.newCipher (n : Int) (slice ct 0 (n : Int))).bind (fun stream =>
      some (applyInto (ctr stream) D 0 (len D) (slice ct (n : Int) (len ct))))
    = some (ctr (Aead.padIV (ct.take n)) (ct.drop n) ++ D.drop (ct.length - n)) := by
  rw [slice_pre ct n hc, newCipher_ok n hn (ct.take n) (by simp; omega), Option.bind_some, len_eq, len_eq,
    slice_suf ct n hc]
  have := applyInto_at (ctr (Aead.padIV (ct.take n))) [] D (ct.drop n) (by simp; omega)
  simp only [List.nil_append, List.length_nil, Int.natCast_zero, List.length_drop] at this
  rw [this]

theorem aesctr_Decrypt_nil (ctr : Bytes → Bytes → Bytes) (ivSize : Nat) (ct : Bytes)
    (hiv : ivSize ≤ 16) (hlen : ct.length < 9223372036854775808)
    (hct : ivSize ≤ ct.length) :
    Aesctr.Decrypt ctr ivSize [] ct = some (ctr (Aead.padIV (ct.take ivSize)) (ct.drop ivSize)) := by
  have hd2 : Aesctr.Decrypt.v3 ctr ivSize [] ct = Bytes.zeros (ct.length - ivSize) := by
    simp only [Aesctr.Decrypt.v3, Aesctr.Decrypt.v2, Aesctr.Decrypt.v1, len_eq, List.length_nil,
      Int.natCast_zero, ↓reduceIte]
    rw [decrypt_ptSize ct.length ivSize hct hlen, makeBytes_natCast]
  have hg1 : ¬ ((ct.length : Int) < (ivSize : Int)) := by omega
  have hg2 : ¬ (((ct.length - ivSize : Nat) : Int) < ((ct.length - ivSize : Nat) : Int)) := by omega
  simp only [Aesctr.Decrypt, Aesctr.Decrypt.v4, Aesctr.Decrypt.v5, Aesctr.Decrypt.v1, hd2]
  simp only [len_eq, Bytes.length_zeros]
  simp only [hg1, decrypt_ptSize ct.length ivSize hct hlen, hg2, ↓reduceIte]
  have := decrypt_core ctr (Bytes.zeros (ct.length - ivSize)) ct ivSize hiv hct (by simp)
  simp only [len_eq, Bytes.length_zeros] at this
  rw [this, List.drop_of_length_le (l := Bytes.zeros (ct.length - ivSize)) (by simp), List.append_nil]

theorem aesctr_Decrypt_dst (ctr : Bytes → Bytes → Bytes) (ivSize : Nat) (dst ct : Bytes)
    (hiv : ivSize ≤ 16) (hlen : ct.length < 9223372036854775808)
    (hct : ivSize ≤ ct.length) (hdst : dst.length ≠ 0) (hfit : ct.length - ivSize ≤ dst.length) :
    Aesctr.Decrypt ctr ivSize dst ct
      = some (ctr (Aead.padIV (ct.take ivSize)) (ct.drop ivSize) ++ dst.drop (ct.length - ivSize)) := by
  have h0 : ¬ ((dst.length : Int) = 0) := by omega
  have hd2 : Aesctr.Decrypt.v3 ctr ivSize dst ct = dst := by
    simp only [Aesctr.Decrypt.v3, len_eq, h0, ↓reduceIte]
  have hg1 : ¬ ((ct.length : Int) < (ivSize : Int)) := by omega
  have hg2 : ¬ ((dst.length : Int) < ((ct.length - ivSize : Nat) : Int)) := by omega
  simp only [Aesctr.Decrypt, Aesctr.Decrypt.v4, Aesctr.Decrypt.v5, Aesctr.Decrypt.v1, hd2]
  simp only [len_eq]
  simp only [hg1, decrypt_ptSize ct.length ivSize hct hlen, hg2, ↓reduceIte]
  have := decrypt_core ctr dst ct ivSize hiv hct hfit
  simp only [len_eq] at this
  exact this

theorem aesctr_Decrypt_small (ctr : Bytes → Bytes → Bytes) (ivSize : Nat) (dst ct : Bytes)
    (hlen : ct.length < 9223372036854775808)
    (hct : ivSize ≤ ct.length) (hdst : dst.length ≠ 0) (hsmall : dst.length < ct.length - ivSize) :
    Aesctr.Decrypt ctr ivSize dst ct = none := by
  have h0 : ¬ ((dst.length : Int) = 0) := by omega
  have hd2 : Aesctr.Decrypt.v3 ctr ivSize dst ct = dst := by
    simp only [Aesctr.Decrypt.v3, len_eq, h0, ↓reduceIte]
  have hg1 : ¬ ((ct.length : Int) < (ivSize : Int)) := by omega
  have hg2 : (dst.length : Int) < ((ct.length - ivSize : Nat) : Int) := by omega
  simp only [Aesctr.Decrypt, Aesctr.Decrypt.v1, hd2, len_eq]
  simp only [hg1, decrypt_ptSize ct.length ivSize hct hlen, hg2, ↓reduceIte]

theorem aesctr_Decrypt_short (ctr : Bytes → Bytes → Bytes) (ivSize : Nat) (dst ct : Bytes)
    (hct : ct.length < ivSize) : Aesctr.Decrypt ctr ivSize dst ct = none := by
  have hg1 : (ct.length : Int) < (ivSize : Int) := by omega
  simp only [Aesctr.Decrypt, len_eq, hg1, ↓reduceIte]

/-! ### non-vacuity of the hypotheses -/

/-- a length-preserving `ctr`, a `rand` returning as many bytes as asked for, an admissible IV size -/
example : (12 : Nat) ≤ 16 ∧ ((fun (n : Int) => Bytes.zeros n.toNat) ((12 : Nat) : Int)).length = 12
    ∧ ∀ k x : Bytes, ((fun (_ x : Bytes) => x) k x).length = x.length := by
  refine ⟨by omega, by simp, fun _ _ => rfl⟩
/-- buffers of all three kinds exist (empty, large enough, too small but non-empty) -/
example : ([] : Bytes).length = 0 ∧ (Bytes.zeros 20).length ≠ 0 ∧ ([1,2,3] : Bytes).length + 12 ≤ (Bytes.zeros 20).length
    ∧ (Bytes.zeros 5).length ≠ 0 ∧ (Bytes.zeros 5).length < ([1,2,3] : Bytes).length + 12 := by
  simp
/-- the padded IV really differs from the IV for short IVs (the statements are not about the identity) -/
example : Aead.padIV [1,2,3,4,5,6,7,8,9,10,11,12] = [1,2,3,4,5,6,7,8,9,10,11,12,0,0,0,0] := by decide

section AxiomAudit
#print axioms aesctr_newCipher_eq
#print axioms aesctr_Encrypt_nil
#print axioms aesctr_Encrypt_dst
#print axioms aesctr_Encrypt_nil_length
#print axioms aesctr_Encrypt_small
#print axioms aesctr_Decrypt_nil
#print axioms aesctr_Decrypt_dst
#print axioms aesctr_Decrypt_small
#print axioms aesctr_Decrypt_short
end AxiomAudit

end TinkVerif.GlueTie
