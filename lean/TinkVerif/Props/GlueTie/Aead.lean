import TinkVerif.Lemmas.GlueSem
import TinkVerif.Gen.GlueAead
import TinkVerif.Model.Aead
/-
  Tie: byte glue of the AEAD implementations regenerated from /repo (Gen/GlueAead.lean, produced by
  go/harness/gluetr on every check run) equals what the hand models in Model/Aead.lean / Model/Ctr.lean use.

  * aead/aesctrhmac `aadSizeInBits` (whole function)            = the closing block of `EtM.macInput`
  * internal/aead/aesgcmsiv.go (statement regions, the file has no helper functions):
      computeTag   XORBytes(polyval, polyval, nonce); polyval[15] &= 0x7f   = the block `GcmSiv.tag` encrypts
      aesCTR       counter := tag; counter[15] |= 0x80; LE32 read           = `GcmSiv.ctrIV`, block 0 of `Ctr.blockLE32`
      aesCTR       counterInc++; PutUint32(counter[0:4], counterInc)        = `Ctr.blockLE32 iv i → iv (i+1)` (wraps mod 2^32)
      computePolyval  the two PutUint64 of the length block                 = the tail of `GcmSiv.polyvalInput`
      deriveKeys   nonceBlock construction and the counter store            = `LE32(c) ‖ nonce` of `GcmSiv.deriveKeys`
  * aead/xaesgcm `derivePerMessageKey` (whole function, AES-CMAC PRF abstract) = `xaesDeriveKey`

  All statements hold for every input of the stated shape (no size bound other than the fixed block
  lengths); the length blocks are taken mod 2^64 on both sides (`ofNatBE 8` / `ofNatLE 8` reduce mod 2^64),
  i.e. beyond 2^61 bytes both wrap identically — injectivity below 2^61 is `Aead.be64_bitlen_inj` in Props/C01Deep.
-/
namespace TinkVerif.GlueTie
open TinkVerif TinkVerif.GoSem
open TinkVerif.Gen.GlueAead TinkVerif.Aead

/-! ### frozen statement groups
  Copies of six statement groups of internal/aead/aesgcmsiv.go as the translator emitted them when they were regenerated as
  marker-delimited regions.  The WHOLE functions are regenerated now (Gen/GlueGcmSiv, tied in GcmSiv.lean); the theorems about
  these helper definitions below are lemmas, no longer tie obligations of their own.
-/
namespace Gcmsiv

/- region of computeTag: statements `subtle.XORBytes(polyval, polyval, nonce)` … `polyval[aesgcmsivPolyvalSize-1] &= 0x7f` -/
/- names of tagMask:
    a0 = polyval (l.227); a1 = nonce (l.227); v1 = polyval (l.235); v2 = polyval (l.236); 
-/
def tagMask.v1 (a0 : Bytes) (a1 : Bytes) : Bytes :=
  GoSem.xorInto a0 (0 : Int) (GoSem.len a0) a0 a1

def tagMask.v2 (a0 : Bytes) (a1 : Bytes) : Bytes :=
  GoSem.setAt (tagMask.v1 a0 a1) (15 : Int) ((GoSem.getAt (tagMask.v1 a0 a1) (15 : Int)) &&& (127 : UInt8))

def tagMask (a0 : Bytes) (a1 : Bytes) : Bytes :=
  (tagMask.v2 a0 a1)

/- region of aesCTR: statements `var counter [aesgcmsivBlockSize]byte` … `counterInc := binary.LittleEndian.Uint32(counter[0:4])` -/
/- names of ctrInit:
    a0 = tag (l.252); v1 = counter (l.266); v2 = counter (l.267); v3 = counter (l.268); 
    v4 = counterInc (l.269); 
-/
def ctrInit.v1 (a0 : Bytes) : Bytes :=
  (GoSem.makeBytes (16 : Int))

def ctrInit.v2 (a0 : Bytes) : Bytes :=
  GoSem.copyInto (ctrInit.v1 a0) (0 : Int) (GoSem.len (ctrInit.v1 a0)) a0

def ctrInit.v3 (a0 : Bytes) : Bytes :=
  GoSem.setAt (ctrInit.v2 a0) (15 : Int) ((GoSem.getAt (ctrInit.v2 a0) (15 : Int)) ||| (128 : UInt8))

def ctrInit.v4 (a0 : Bytes) : Nat :=
  (GoSem.getLE 4 (GoSem.slice (ctrInit.v3 a0) (0 : Int) (4 : Int)))

def ctrInit (a0 : Bytes) : Bytes × Nat :=
  ((ctrInit.v3 a0), (ctrInit.v4 a0))

/- region of aesCTR: statements `counterInc++` … `binary.LittleEndian.PutUint32(counter[0:4], counterInc)` -/
/- names of ctrStep:
    a0 = counterInc (l.269); a1 = counter (l.266); v1 = counterInc (l.275); v2 = counter (l.276); 
-/
def ctrStep.v1 (a0 : Nat) (a1 : Bytes) : Nat :=
  ((a0 + 1) % 4294967296)

def ctrStep.v2 (a0 : Nat) (a1 : Bytes) : Bytes :=
  GoSem.putLE 4 a1 (0 : Int) (4 : Int) (ctrStep.v1 a0 a1)

def ctrStep (a0 : Nat) (a1 : Bytes) : Bytes × Nat :=
  ((ctrStep.v2 a0 a1), (ctrStep.v1 a0 a1))

/- region of computePolyval: statements `var lengthBlock [aesgcmsivBlockSize]byte` … `binary.LittleEndian.PutUint64(lengthBlock[8:], uint64(len(pt))*8)` -/
/- names of lengthBlock:
    a0 = ad (l.209); a1 = pt (l.209); v1 = lengthBlock (l.210); v2 = lengthBlock (l.211); 
    v3 = lengthBlock (l.212); 
-/
def lengthBlock.v1 (a0 : Bytes) (a1 : Bytes) : Bytes :=
  (GoSem.makeBytes (16 : Int))

def lengthBlock.v2 (a0 : Bytes) (a1 : Bytes) : Bytes :=
  GoSem.putLE 8 (lengthBlock.v1 a0 a1) (0 : Int) (8 : Int) (((GoSem.toUnsigned 64 (GoSem.len a0)) * (8 : Nat)) % 18446744073709551616)

def lengthBlock.v3 (a0 : Bytes) (a1 : Bytes) : Bytes :=
  GoSem.putLE 8 (lengthBlock.v2 a0 a1) (8 : Int) (GoSem.len (lengthBlock.v2 a0 a1)) (((GoSem.toUnsigned 64 (GoSem.len a1)) * (8 : Nat)) % 18446744073709551616)

def lengthBlock (a0 : Bytes) (a1 : Bytes) : Bytes :=
  (lengthBlock.v3 a0 a1)

/- region of deriveKeys: statements `var nonceBlock [aesgcmsivBlockSize]byte` … `copy(nonceBlock[aesgcmsivBlockSize-AESGCMSIVNonceSize:], nonce)` -/
/- names of nonceBlockInit:
    a0 = nonce (l.176); v1 = nonceBlock (l.186); v2 = nonceBlock (l.187); 
-/
def nonceBlockInit.v1 (a0 : Bytes) : Bytes :=
  (GoSem.makeBytes (16 : Int))

def nonceBlockInit.v2 (a0 : Bytes) : Bytes :=
  GoSem.copyInto (nonceBlockInit.v1 a0) (4 : Int) (GoSem.len (nonceBlockInit.v1 a0)) a0

def nonceBlockInit (a0 : Bytes) : Bytes :=
  (nonceBlockInit.v2 a0)

/- region of deriveKeys: statements `binary.LittleEndian.PutUint32(nonceBlock[:counterSize], counter)` … `binary.LittleEndian.PutUint32(nonceBlock[:counterSize], counter)` -/
/- names of kdfCounter:
    a0 = nonceBlock (l.186); a1 = counter (l.192); v1 = nonceBlock (l.193); 
-/
def kdfCounter.v1 (a0 : Bytes) (a1 : Nat) : Bytes :=
  GoSem.putLE 4 a0 (0 : Int) (4 : Int) a1

def kdfCounter (a0 : Bytes) (a1 : Nat) : Bytes :=
  (kdfCounter.v1 a0 a1)

end Gcmsiv

theorem eight_mul_mod (n : Nat) : (n % 18446744073709551616 * 8) % 18446744073709551616 = (8 * n) % 18446744073709551616 := by
  omega

theorem aadSizeInBits_eq (ad : Bytes) : Aesctrhmac.aadSizeInBits ad = Bytes.be64 (8 * ad.length) := by
  simp only [Aesctrhmac.aadSizeInBits, Aesctrhmac.aadSizeInBits.v3, Aesctrhmac.aadSizeInBits.v2, Aesctrhmac.aadSizeInBits.v1,
    len_eq, toUnsigned_64, eight_mul_mod]
  have := putBE_append 8 [] (makeBytes 8) 0 ((makeBytes 8).length : Int) ((8 * ad.length) % 18446744073709551616) (by simp) (by simp [makeBytes]) (by simp)
  simp only [List.nil_append] at this
  rw [this]
  have e : (18446744073709551616 : Nat) = 256 ^ 8 := by decide
  rw [e, Bytes.ofNatBE_mod']
  simp [makeBytes, Bytes.be64]

theorem macInput_eq (ad payload : Bytes) : EtM.macInput ad payload = ad ++ payload ++ Aesctrhmac.aadSizeInBits ad := by
  rw [aadSizeInBits_eq]; rfl


/-- the block `computeTag` encrypts, as the model writes it inside `GcmSiv.tag` -/
def tagInputModel (pv nonce : Bytes) : Bytes :=
  let x := Bytes.xor (pv.take 12) nonce ++ pv.drop 12
  x.take 15 ++ [(x.getD 15 0) &&& 0x7f]

theorem tag_eq_tagInputModel (g : GcmSiv) (encKey authKey nonce pt ad : Bytes) :
    g.tag encKey authKey nonce pt ad = g.aes encKey (tagInputModel (g.polyval authKey (GcmSiv.polyvalInput pt ad)) nonce) := rfl

theorem tagMask_eq (pv nonce : Bytes) (hp : pv.length = 16) (hn : nonce.length = 12) :
    Gcmsiv.tagMask pv nonce = tagInputModel pv nonce := by
  have hx : Gcmsiv.tagMask.v1 pv nonce = Bytes.xor (pv.take 12) nonce ++ pv.drop 12 := by
    have hc : (0:Int) ≤ 0 ∧ (0:Int) + Int.ofNat (min pv.length nonce.length) ≤ len pv ∧ len pv ≤ len pv := by
      simp only [len_eq, Int.ofNat_eq_natCast]; omega
    have hm : min pv.length nonce.length = 12 := by omega
    have hxor : Bytes.xor pv nonce = Bytes.xor (pv.take 12) nonce := by rw [← hn, Bytes.xor_take_left]
    rw [Gcmsiv.tagMask.v1, xorInto, if_pos hc, hm, hxor]
    simp
  have hl : (Bytes.xor (pv.take 12) nonce ++ pv.drop 12).length = 15 + 1 := by
    simp [hp, hn]
  simp only [Gcmsiv.tagMask, Gcmsiv.tagMask.v2, hx, tagInputModel]
  generalize Bytes.xor (pv.take 12) nonce ++ pv.drop 12 = X at hl ⊢
  rw [show (15 : Int) = ((15 : Nat) : Int) from rfl, setAt_last X 15 _ hl, getAt_nat]

theorem ctrInit_counter (tag : Bytes) (h : tag.length = 16) : (Gcmsiv.ctrInit tag).1 = GcmSiv.ctrIV tag := by
  have h2 : Gcmsiv.ctrInit.v2 tag = tag := by
    rw [Gcmsiv.ctrInit.v2, copyInto_all _ _ (by simp [Gcmsiv.ctrInit.v1, makeBytes, h])]
  simp only [Gcmsiv.ctrInit, Gcmsiv.ctrInit.v3, h2, GcmSiv.ctrIV]
  rw [show (15 : Int) = ((15 : Nat) : Int) from rfl, setAt_last tag 15 _ h, getAt_nat]

theorem ctrIV_length (tag : Bytes) (h : tag.length = 16) : (GcmSiv.ctrIV tag).length = 16 := by
  simp [GcmSiv.ctrIV, h]

theorem ctrInit_counterInc (tag : Bytes) (h : tag.length = 16) :
    (Gcmsiv.ctrInit tag).2 = Bytes.toNatLE ((GcmSiv.ctrIV tag).take 4) := by
  have h1 := ctrInit_counter tag h
  simp only [Gcmsiv.ctrInit] at h1
  simp only [Gcmsiv.ctrInit, Gcmsiv.ctrInit.v4, h1, getLE]
  rw [show (0 : Int) = ((0 : Nat) : Int) from rfl, show (4 : Int) = ((4 : Nat) : Int) from rfl,
    slice_nat _ 0 4 (by omega) (by rw [ctrIV_length tag h]; omega)]
  simp [List.take_take]

/-- the first counter block is block 0 of the model's little-endian-32 counter stream -/
theorem blockLE32_zero (iv : Bytes) (h : 4 ≤ iv.length) : Ctr.blockLE32 iv 0 = iv := by
  have hl : (iv.take 4).length = 4 := by simp; omega
  have hlt := Bytes.toNatLE_lt (iv.take 4)
  rw [hl] at hlt
  have e : (256 : Nat) ^ 4 = 2 ^ 32 := by decide
  rw [Ctr.blockLE32, Nat.add_zero, Nat.mod_eq_of_lt (by rw [← e]; exact hlt)]
  have := Bytes.ofNatLE_toNatLE (iv.take 4)
  rw [hl] at this
  rw [this, List.take_append_drop]

theorem ctrStep_eq (iv : Bytes) (i : Nat) (h : iv.length = 16) :
    Gcmsiv.ctrStep ((Bytes.toNatLE (iv.take 4) + i) % 4294967296) (Ctr.blockLE32 iv i)
      = (Ctr.blockLE32 iv (i + 1), (Bytes.toNatLE (iv.take 4) + (i + 1)) % 4294967296) := by
  have e : (2 : Nat) ^ 32 = 4294967296 := by decide
  have hc : ((Bytes.toNatLE (iv.take 4) + i) % 4294967296 + 1) % 4294967296
      = (Bytes.toNatLE (iv.take 4) + (i + 1)) % 4294967296 := by omega
  simp only [Gcmsiv.ctrStep, Gcmsiv.ctrStep.v2, Gcmsiv.ctrStep.v1, hc, Ctr.blockLE32, e]
  congr 1
  have := putLE_append 4 [] (Bytes.ofNatLE 4 ((Bytes.toNatLE (iv.take 4) + i) % 4294967296) ++ iv.drop 4) 0 4
    ((Bytes.toNatLE (iv.take 4) + (i + 1)) % 4294967296) (by simp) (by simp) (by simp [h])
  simp only [List.nil_append] at this
  rw [this]
  simp


theorem lengthBlock_eq (ad pt : Bytes) :
    Gcmsiv.lengthBlock ad pt = Bytes.ofNatLE 8 (8 * ad.length) ++ Bytes.ofNatLE 8 (8 * pt.length) := by
  have e : (18446744073709551616 : Nat) = 256 ^ 8 := by decide
  have h2 : Gcmsiv.lengthBlock.v2 ad pt = Bytes.ofNatLE 8 (8 * ad.length) ++ Bytes.zeros 8 := by
    simp only [Gcmsiv.lengthBlock.v2, Gcmsiv.lengthBlock.v1, len_eq, toUnsigned_64, eight_mul_mod]
    have := putLE_append 8 [] (makeBytes 16) 0 8 ((8 * ad.length) % 18446744073709551616) (by simp) (by simp) (by simp [makeBytes])
    simp only [List.nil_append] at this
    rw [this, e, Bytes.ofNatLE_mod]
    simp [makeBytes, Bytes.zeros]
  simp only [Gcmsiv.lengthBlock, Gcmsiv.lengthBlock.v3, h2, len_eq, toUnsigned_64, eight_mul_mod]
  rw [putLE_append 8 _ (Bytes.zeros 8) 8 _ _ (by simp) (by simp) (by simp), e, Bytes.ofNatLE_mod]
  simp

/-- the model's POLYVAL input ends with the regenerated length block -/
theorem polyvalInput_eq (pt ad : Bytes) :
    GcmSiv.polyvalInput pt ad = pad16 ad ++ pad16 pt ++ Gcmsiv.lengthBlock ad pt := by
  rw [lengthBlock_eq]; simp [GcmSiv.polyvalInput]

theorem nonceBlockInit_eq (nonce : Bytes) (h : nonce.length = 12) :
    Gcmsiv.nonceBlockInit nonce = Bytes.zeros 4 ++ nonce := by
  have hz : makeBytes 16 = Bytes.zeros 4 ++ Bytes.zeros 12 := by decide
  simp only [Gcmsiv.nonceBlockInit, Gcmsiv.nonceBlockInit.v2, Gcmsiv.nonceBlockInit.v1, hz]
  rw [copyInto_append (Bytes.zeros 4) (Bytes.zeros 12) nonce 4 _ (by simp) (by simp)]
  simp [h, List.take_of_length_le (show nonce.length ≤ 12 by omega), Bytes.zeros]

theorem kdfCounter_eq (blk : Bytes) (c : Nat) (h : 4 ≤ blk.length) :
    Gcmsiv.kdfCounter blk c = Bytes.ofNatLE 4 c ++ blk.drop 4 := by
  have := putLE_append 4 [] blk 0 4 c (by simp) (by simp) (by simp; omega)
  simpa [Gcmsiv.kdfCounter, Gcmsiv.kdfCounter.v1] using this

/-- every block `deriveKeys` encrypts is the model's `LE32(counter) ‖ nonce`, also when the buffer is reused -/
theorem kdf_block_first (nonce : Bytes) (c : Nat) (h : nonce.length = 12) :
    Gcmsiv.kdfCounter (Gcmsiv.nonceBlockInit nonce) c = Bytes.ofNatLE 4 c ++ nonce := by
  rw [nonceBlockInit_eq nonce h, kdfCounter_eq _ _ (by simp)]
  simp

theorem kdf_block_next (nonce : Bytes) (c c' : Nat) :
    Gcmsiv.kdfCounter (Bytes.ofNatLE 4 c' ++ nonce) c = Bytes.ofNatLE 4 c ++ nonce := by
  rw [kdfCounter_eq _ _ (by simp)]
  simp


theorem paddedSalt_eq (prf : Bytes → Nat → Option Bytes) (salt : Bytes) :
    Xaesgcm.derivePerMessageKey.v2 prf salt = (salt ++ Bytes.zeros (12 - salt.length)).take 12 := by
  simp only [Xaesgcm.derivePerMessageKey.v2, Xaesgcm.derivePerMessageKey.v1]
  have := copyInto_append [] (makeBytes 12) salt 0 (len (makeBytes 12)) (by simp) (by simp)
  simp only [List.nil_append] at this
  rw [this]
  simp only [makeBytes, show (12:Int).toNat = 12 from rfl, List.length_replicate]
  change List.take 12 salt ++ (Bytes.zeros 12).drop salt.length = _
  rw [drop_zeros, List.take_append]
  simp

theorem derivePerMessageKey_eq (E : Bytes → Bytes) (salt : Bytes) :
    Xaesgcm.derivePerMessageKey (fun b _ => some (Cmac.compute E b)) salt = some (xaesDeriveKey E salt) := by
  simp only [Xaesgcm.derivePerMessageKey, Xaesgcm.derivePerMessageKey.v3, Xaesgcm.derivePerMessageKey.v4,
    paddedSalt_eq, Option.bind_some, xaesDeriveKey, Xaesgcm.derivationBlock1Prefix, Xaesgcm.derivationBlock2Prefix]


/-- whatever the PRF is, it is asked for 16 bytes over `00 0i 58 00 ‖ salt padded/truncated to 12` -/
theorem derivePerMessageKey_blocks (prf : Bytes → Nat → Option Bytes) (salt : Bytes) :
    Xaesgcm.derivePerMessageKey prf salt =
      (prf ([0x00, 0x01, 0x58, 0x00] ++ (salt ++ Bytes.zeros (12 - salt.length)).take 12) 16).bind fun k1 =>
      (prf ([0x00, 0x02, 0x58, 0x00] ++ (salt ++ Bytes.zeros (12 - salt.length)).take 12) 16).bind fun k2 => some (k1 ++ k2) := by
  simp only [Xaesgcm.derivePerMessageKey, Xaesgcm.derivePerMessageKey.v3, Xaesgcm.derivePerMessageKey.v4,
    paddedSalt_eq, Xaesgcm.derivationBlock1Prefix, Xaesgcm.derivationBlock2Prefix]

example : ([0,1,2,3,4,5,6,7,8,9,10,11,12,13,14,15] : Bytes).length = 16 := rfl

section AxiomAudit
#print axioms aadSizeInBits_eq
#print axioms macInput_eq
#print axioms tag_eq_tagInputModel
#print axioms tagMask_eq
#print axioms ctrInit_counter
#print axioms ctrInit_counterInc
#print axioms blockLE32_zero
#print axioms ctrStep_eq
#print axioms lengthBlock_eq
#print axioms polyvalInput_eq
#print axioms nonceBlockInit_eq
#print axioms kdfCounter_eq
#print axioms kdf_block_first
#print axioms kdf_block_next
#print axioms paddedSalt_eq
#print axioms derivePerMessageKey_eq
#print axioms derivePerMessageKey_blocks
end AxiomAudit

end TinkVerif.GlueTie
