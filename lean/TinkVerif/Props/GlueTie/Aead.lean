import TinkVerif.Lemmas.GlueSem
import TinkVerif.Gen.GlueAead
import TinkVerif.Model.Aead
/-
  Tie: byte glue of the AEAD implementations regenerated from /repo (Gen/GlueAead.lean, produced by
  go/harness/gluetr on every check run) equals what the hand models in Model/Aead.lean / Model/Ctr.lean use.

  * aead/aesctrhmac `aadSizeInBits` (whole function)            = the closing block of `EtM.macInput`
  * internal/aead/aesgcmsiv.go (statement regions, the file has no helper functions):
      computeTag   XORBytes(polyval, polyval, nonce); polyval[15] &= 0x7f   = the block `GcmSiv.tag` encrypts
      aesCTR       counter := tag; counter[15] |= 0x80; LE32 read           = `GcmSiv.ctrIV`, block 0 of `Ctr.blockLE32`
      aesCTR       counterInc++; PutUint32(counter[0:4], counterInc)        = `Ctr.blockLE32 iv i → iv (i+1)` (wraps mod 2^32)
      computePolyval  the two PutUint64 of the length block                 = the tail of `GcmSiv.polyvalInput`
      deriveKeys   nonceBlock construction and the counter store            = `LE32(c) ‖ nonce` of `GcmSiv.deriveKeys`
  * aead/xaesgcm `derivePerMessageKey` (whole function, AES-CMAC PRF abstract) = `xaesDeriveKey`

  All statements hold for every input of the stated shape (no size bound other than the fixed block
  lengths); the length blocks are taken mod 2^64 on both sides (`ofNatBE 8` / `ofNatLE 8` reduce mod 2^64),
  i.e. beyond 2^61 bytes both wrap identically — injectivity below 2^61 is `Aead.be64_bitlen_inj` in Props/C01Deep.
-/
namespace TinkVerif.GlueTie
open TinkVerif TinkVerif.GoSem
open TinkVerif.Gen.GlueAead TinkVerif.Aead

theorem eight_mul_mod (n : Nat) : (n % 18446744073709551616 * 8) % 18446744073709551616 = (8 * n) % 18446744073709551616 := by
  omega

theorem aadSizeInBits_eq (ad : Bytes) : Aesctrhmac.aadSizeInBits ad = Bytes.be64 (8 * ad.length) := by
  simp only [Aesctrhmac.aadSizeInBits, Aesctrhmac.aadSizeInBits.buf_2, Aesctrhmac.aadSizeInBits.buf, Aesctrhmac.aadSizeInBits.n,
    len_eq, toUnsigned_64, eight_mul_mod]
  have := putBE_append 8 [] (makeBytes 8) 0 ((makeBytes 8).length : Int) ((8 * ad.length) % 18446744073709551616) (by simp) (by simp [makeBytes]) (by simp)
  simp only [List.nil_append] at this
  rw [this]
  have e : (18446744073709551616 : Nat) = 256 ^ 8 := by decide
  rw [e, Bytes.ofNatBE_mod']
  simp [makeBytes, Bytes.be64]

theorem macInput_eq (ad payload : Bytes) : EtM.macInput ad payload = ad ++ payload ++ Aesctrhmac.aadSizeInBits ad := by
  rw [aadSizeInBits_eq]; rfl


/-- the block `computeTag` encrypts, as the model writes it inside `GcmSiv.tag` -/
def tagInputModel (pv nonce : Bytes) : Bytes :=
  let x := Bytes.xor (pv.take 12) nonce ++ pv.drop 12
  x.take 15 ++ [(x.getD 15 0) &&& 0x7f]

theorem tag_eq_tagInputModel (g : GcmSiv) (encKey authKey nonce pt ad : Bytes) :
    g.tag encKey authKey nonce pt ad = g.aes encKey (tagInputModel (g.polyval authKey (GcmSiv.polyvalInput pt ad)) nonce) := rfl

theorem tagMask_eq (pv nonce : Bytes) (hp : pv.length = 16) (hn : nonce.length = 12) :
    Gcmsiv.tagMask pv nonce = tagInputModel pv nonce := by
  have hx : Gcmsiv.tagMask.polyval pv nonce = Bytes.xor (pv.take 12) nonce ++ pv.drop 12 := by
    have hc : (0:Int) ≤ 0 ∧ (0:Int) + Int.ofNat (min pv.length nonce.length) ≤ len pv ∧ len pv ≤ len pv := by
      simp only [len_eq, Int.ofNat_eq_natCast]; omega
    have hm : min pv.length nonce.length = 12 := by omega
    have hxor : Bytes.xor pv nonce = Bytes.xor (pv.take 12) nonce := by rw [← hn, Bytes.xor_take_left]
    rw [Gcmsiv.tagMask.polyval, xorInto, if_pos hc, hm, hxor]
    simp
  have hl : (Bytes.xor (pv.take 12) nonce ++ pv.drop 12).length = 15 + 1 := by
    simp [hp, hn]
  simp only [Gcmsiv.tagMask, Gcmsiv.tagMask.polyval_2, hx, tagInputModel]
  generalize Bytes.xor (pv.take 12) nonce ++ pv.drop 12 = X at hl ⊢
  rw [show (15 : Int) = ((15 : Nat) : Int) from rfl, setAt_last X 15 _ hl, getAt_nat]

theorem ctrInit_counter (tag : Bytes) (h : tag.length = 16) : (Gcmsiv.ctrInit tag).1 = GcmSiv.ctrIV tag := by
  have h2 : Gcmsiv.ctrInit.counter_2 tag = tag := by
    rw [Gcmsiv.ctrInit.counter_2, copyInto_all _ _ (by simp [Gcmsiv.ctrInit.counter, makeBytes, h])]
  simp only [Gcmsiv.ctrInit, Gcmsiv.ctrInit.counter_3, h2, GcmSiv.ctrIV]
  rw [show (15 : Int) = ((15 : Nat) : Int) from rfl, setAt_last tag 15 _ h, getAt_nat]

theorem ctrIV_length (tag : Bytes) (h : tag.length = 16) : (GcmSiv.ctrIV tag).length = 16 := by
  simp [GcmSiv.ctrIV, h]

theorem ctrInit_counterInc (tag : Bytes) (h : tag.length = 16) :
    (Gcmsiv.ctrInit tag).2 = Bytes.toNatLE ((GcmSiv.ctrIV tag).take 4) := by
  have h1 := ctrInit_counter tag h
  simp only [Gcmsiv.ctrInit] at h1
  simp only [Gcmsiv.ctrInit, Gcmsiv.ctrInit.counterInc, h1, getLE]
  rw [show (0 : Int) = ((0 : Nat) : Int) from rfl, show (4 : Int) = ((4 : Nat) : Int) from rfl,
    slice_nat _ 0 4 (by omega) (by rw [ctrIV_length tag h]; omega)]
  simp [List.take_take]

/-- the first counter block is block 0 of the model's little-endian-32 counter stream -/
theorem blockLE32_zero (iv : Bytes) (h : 4 ≤ iv.length) : Ctr.blockLE32 iv 0 = iv := by
  have hl : (iv.take 4).length = 4 := by simp; omega
  have hlt := Bytes.toNatLE_lt (iv.take 4)
  rw [hl] at hlt
  have e : (256 : Nat) ^ 4 = 2 ^ 32 := by decide
  rw [Ctr.blockLE32, Nat.add_zero, Nat.mod_eq_of_lt (by rw [← e]; exact hlt)]
  have := Bytes.ofNatLE_toNatLE (iv.take 4)
  rw [hl] at this
  rw [this, List.take_append_drop]

theorem ctrStep_eq (iv : Bytes) (i : Nat) (h : iv.length = 16) :
    Gcmsiv.ctrStep ((Bytes.toNatLE (iv.take 4) + i) % 4294967296) (Ctr.blockLE32 iv i)
      = (Ctr.blockLE32 iv (i + 1), (Bytes.toNatLE (iv.take 4) + (i + 1)) % 4294967296) := by
  have e : (2 : Nat) ^ 32 = 4294967296 := by decide
  have hc : ((Bytes.toNatLE (iv.take 4) + i) % 4294967296 + 1) % 4294967296
      = (Bytes.toNatLE (iv.take 4) + (i + 1)) % 4294967296 := by omega
  simp only [Gcmsiv.ctrStep, Gcmsiv.ctrStep.counter, Gcmsiv.ctrStep.counterInc, hc, Ctr.blockLE32, e]
  congr 1
  have := putLE_append 4 [] (Bytes.ofNatLE 4 ((Bytes.toNatLE (iv.take 4) + i) % 4294967296) ++ iv.drop 4) 0 4
    ((Bytes.toNatLE (iv.take 4) + (i + 1)) % 4294967296) (by simp) (by simp) (by simp [h])
  simp only [List.nil_append] at this
  rw [this]
  simp


theorem lengthBlock_eq (ad pt : Bytes) :
    Gcmsiv.lengthBlock ad pt = Bytes.ofNatLE 8 (8 * ad.length) ++ Bytes.ofNatLE 8 (8 * pt.length) := by
  have e : (18446744073709551616 : Nat) = 256 ^ 8 := by decide
  have h2 : Gcmsiv.lengthBlock.lengthBlock_2 ad pt = Bytes.ofNatLE 8 (8 * ad.length) ++ Bytes.zeros 8 := by
    simp only [Gcmsiv.lengthBlock.lengthBlock_2, Gcmsiv.lengthBlock.lengthBlock, len_eq, toUnsigned_64, eight_mul_mod]
    have := putLE_append 8 [] (makeBytes 16) 0 8 ((8 * ad.length) % 18446744073709551616) (by simp) (by simp) (by simp [makeBytes])
    simp only [List.nil_append] at this
    rw [this, e, Bytes.ofNatLE_mod]
    simp [makeBytes, Bytes.zeros]
  simp only [Gcmsiv.lengthBlock, Gcmsiv.lengthBlock.lengthBlock_3, h2, len_eq, toUnsigned_64, eight_mul_mod]
  rw [putLE_append 8 _ (Bytes.zeros 8) 8 _ _ (by simp) (by simp) (by simp), e, Bytes.ofNatLE_mod]
  simp

/-- the model's POLYVAL input ends with the regenerated length block -/
theorem polyvalInput_eq (pt ad : Bytes) :
    GcmSiv.polyvalInput pt ad = pad16 ad ++ pad16 pt ++ Gcmsiv.lengthBlock ad pt := by
  rw [lengthBlock_eq]; simp [GcmSiv.polyvalInput]

theorem nonceBlockInit_eq (nonce : Bytes) (h : nonce.length = 12) :
    Gcmsiv.nonceBlockInit nonce = Bytes.zeros 4 ++ nonce := by
  have hz : makeBytes 16 = Bytes.zeros 4 ++ Bytes.zeros 12 := by decide
  simp only [Gcmsiv.nonceBlockInit, Gcmsiv.nonceBlockInit.nonceBlock_2, Gcmsiv.nonceBlockInit.nonceBlock, hz]
  rw [copyInto_append (Bytes.zeros 4) (Bytes.zeros 12) nonce 4 _ (by simp) (by simp)]
  simp [h, List.take_of_length_le (show nonce.length ≤ 12 by omega), Bytes.zeros]

theorem kdfCounter_eq (blk : Bytes) (c : Nat) (h : 4 ≤ blk.length) :
    Gcmsiv.kdfCounter blk c = Bytes.ofNatLE 4 c ++ blk.drop 4 := by
  have := putLE_append 4 [] blk 0 4 c (by simp) (by simp) (by simp; omega)
  simpa [Gcmsiv.kdfCounter, Gcmsiv.kdfCounter.nonceBlock] using this

/-- every block `deriveKeys` encrypts is the model's `LE32(counter) ‖ nonce`, also when the buffer is reused -/
theorem kdf_block_first (nonce : Bytes) (c : Nat) (h : nonce.length = 12) :
    Gcmsiv.kdfCounter (Gcmsiv.nonceBlockInit nonce) c = Bytes.ofNatLE 4 c ++ nonce := by
  rw [nonceBlockInit_eq nonce h, kdfCounter_eq _ _ (by simp)]
  simp

theorem kdf_block_next (nonce : Bytes) (c c' : Nat) :
    Gcmsiv.kdfCounter (Bytes.ofNatLE 4 c' ++ nonce) c = Bytes.ofNatLE 4 c ++ nonce := by
  rw [kdfCounter_eq _ _ (by simp)]
  simp


theorem paddedSalt_eq (prf : Bytes → Nat → Option Bytes) (salt : Bytes) :
    Xaesgcm.derivePerMessageKey.paddedSalt_2 prf salt = (salt ++ Bytes.zeros (12 - salt.length)).take 12 := by
  simp only [Xaesgcm.derivePerMessageKey.paddedSalt_2, Xaesgcm.derivePerMessageKey.paddedSalt]
  have := copyInto_append [] (makeBytes 12) salt 0 (len (makeBytes 12)) (by simp) (by simp)
  simp only [List.nil_append] at this
  rw [this]
  simp only [makeBytes, show (12:Int).toNat = 12 from rfl, List.length_replicate]
  change List.take 12 salt ++ (Bytes.zeros 12).drop salt.length = _
  rw [drop_zeros, List.take_append]
  simp

theorem derivePerMessageKey_eq (E : Bytes → Bytes) (salt : Bytes) :
    Xaesgcm.derivePerMessageKey (fun b _ => some (Cmac.compute E b)) salt = some (xaesDeriveKey E salt) := by
  simp only [Xaesgcm.derivePerMessageKey, Xaesgcm.derivePerMessageKey.opt_key1, Xaesgcm.derivePerMessageKey.opt_key2,
    paddedSalt_eq, Option.bind_some, xaesDeriveKey, Xaesgcm.derivationBlock1Prefix, Xaesgcm.derivationBlock2Prefix]


/-- whatever the PRF is, it is asked for 16 bytes over `00 0i 58 00 ‖ salt padded/truncated to 12` -/
theorem derivePerMessageKey_blocks (prf : Bytes → Nat → Option Bytes) (salt : Bytes) :
    Xaesgcm.derivePerMessageKey prf salt =
      (prf ([0x00, 0x01, 0x58, 0x00] ++ (salt ++ Bytes.zeros (12 - salt.length)).take 12) 16).bind fun k1 =>
      (prf ([0x00, 0x02, 0x58, 0x00] ++ (salt ++ Bytes.zeros (12 - salt.length)).take 12) 16).bind fun k2 => some (k1 ++ k2) := by
  simp only [Xaesgcm.derivePerMessageKey, Xaesgcm.derivePerMessageKey.opt_key1, Xaesgcm.derivePerMessageKey.opt_key2,
    paddedSalt_eq, Xaesgcm.derivationBlock1Prefix, Xaesgcm.derivationBlock2Prefix]

example : ([0,1,2,3,4,5,6,7,8,9,10,11,12,13,14,15] : Bytes).length = 16 := rfl

section AxiomAudit
#print axioms aadSizeInBits_eq
#print axioms macInput_eq
#print axioms tag_eq_tagInputModel
#print axioms tagMask_eq
#print axioms ctrInit_counter
#print axioms ctrInit_counterInc
#print axioms blockLE32_zero
#print axioms ctrStep_eq
#print axioms lengthBlock_eq
#print axioms polyvalInput_eq
#print axioms nonceBlockInit_eq
#print axioms kdfCounter_eq
#print axioms kdf_block_first
#print axioms kdf_block_next
#print axioms paddedSalt_eq
#print axioms derivePerMessageKey_eq
#print axioms derivePerMessageKey_blocks
end AxiomAudit

end TinkVerif.GlueTie
