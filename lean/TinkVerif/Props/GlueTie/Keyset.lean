import TinkVerif.Lemmas.GlueSemEach
import TinkVerif.Gen.GlueKeyset
import TinkVerif.Model.Keyset
/-
  Tie, whole functions: the structural keyset gate of /repo/keyset/validation.go and `hasSecrets` of
  /repo/keyset/handle.go, regenerated on every check run as Gen/GlueKeyset.lean by go/harness/gluetr
  (namespace `KeysetGo`), equal the hand model Model/Keyset.lean — for keysets of EVERY size.

  Go functions covered (whole bodies, all error returns, the `for _, key := range keyset.Key` loop):
  * keyset/validation.go
      `ValidateKeyVersion`  = `version ≤ maxExpected`               (`keyset_ValidateKeyVersion_eq`)
      `validateKey`         = `Keyset.validKey`                      (`keyset_validateKey_eq`, `keyset_validateKey_nil`)
      `Validate`            = `Keyset.validate`                      (`keyset_Validate_eq`, `keyset_Validate_nil`)
  * keyset/handle.go
      `hasSecrets`          = `Keyset.hasSecrets`                    (`keyset_hasSecrets_eq` for non-negative
                              KeyMaterialType values; `keyset_hasSecrets_imp` for all values; see below)
  * the enum constants the generated code uses have the values the model uses (`keyset_constants`).

  Abstractions.
  * The Go proto structs `tinkpb.Keyset` / `tinkpb.Keyset_Key` are the generated records of exactly the fields
    (protobuf getter paths) the code reads: `isNil`, `KeyId`, `Status`, `OutputPrefixType`, `KeyData == nil`,
    `KeyData.KeyMaterialType`; `PrimaryKeyId`, `Key`.  The key material (`KeyData.Value`, `TypeUrl`) is not read by
    these functions, hence not part of the records.
  * `pkeyOf k parseOk` / `pkeysOf` / `pkeysetOf` map them to the model's `PKey` / `PKeyset`.  The verdict of the
    per-type key parser (`PKey.parseOk`, an oracle input of the model used by `handleOf` only) is NOT involved in any
    function covered here: the ties hold for every list `ps : List Bool` of verdicts (of any length; missing
    verdicts default to `true`).
  * Go errors are `none`; the Go `map[uint32]bool` used as a set is a `List Nat`.
  * Proto enums are Go `int32`; a hostile proto can carry any value, negative ones included (open enums).  The
    records keep them as `Int`, the model as `Nat`; `pkeyOf` uses `Int.toNat`, which sends every negative value to
    0 = UNKNOWN.
      - `Status`, `OutputPrefixType`: 0 is rejected by `validKey` and every negative value is rejected by
        `validateKey`, and `toNat x = 1 ↔ x = 1` etc.; so `keyset_validateKey_eq` and `keyset_Validate_eq` hold for
        ALL `Int` values, no sign hypothesis.
      - `KeyMaterialType` is not checked by `Validate` at all (Go and model agree).  In `hasSecrets`
        0 = UNKNOWN_KEYMATERIAL counts as secret, while a negative value does not in Go (`-1 ∉ {0, 1, 2}`) but does
        after `toNat` (GENUINE MISMATCH of the `toNat` abstraction, not of the model's logic; counterexample below:
        one valid key with KeyMaterialType = -1 has `KeysetGo.hasSecrets = false`, `Keyset.hasSecrets (pkeysetOf …) =
        true`).  Hence `keyset_hasSecrets_eq` has the hypothesis `∀ k ∈ ks.Key, 0 ≤ k.KeyData_KeyMaterialType`;
        without it only `keyset_hasSecrets_imp` holds (Go says secret ⇒ model says secret: the abstraction errs on
        the conservative side, the NoSecrets gates of the model refuse at least what Go refuses).  An encoding of
        negative values as some `n ≥ 5` instead of 0 would remove the hypothesis.
  * `Validate` counts the enabled keys in a Go `int` (`numEnabledKeys++`, 64-bit wrap `GoSem.i64`) while the model
    counts in `Nat`: the tie needs `ks.Key.length < 2^63`, true of every Go slice (`hlen`).  The counter is ≤ the
    number of keys processed, so it never wraps (`StRel`).
  * Hypotheses of `keyset_Validate_eq`: the keyset pointer is not nil and no entry of `ks.Key` is a nil pointer
    (for a nil keyset: `keyset_Validate_nil`; a nil entry makes `validateKey`, hence `Validate`, fail:
    `keyset_validateKey_nil`, `keyset_Validate_nilKey`; the model's `PKey` has no nil, so the model side is stated
    for non-nil entries only).

  Position independence: `hasSecrets` examines every element (`List.any`), `Validate` stops at the first offending
  key; both ties are proved by induction over the whole list, nothing is specific to a position or a length.
-/
namespace TinkVerif.GlueTie
open TinkVerif TinkVerif.GoSem
open TinkVerif.Gen.GlueKeyset

/-! ### abstraction: proto records → model -/

/-- the model's view of a (non-nil) `Keyset_Key`; `parseOk` is the verdict of the key parser (not used here) -/
def pkeyOf (k : Keyset_Key) (parseOk : Bool) : Keyset.PKey :=
  { hasKeyData := !k.KeyData_isNil, material := k.KeyData_KeyMaterialType.toNat, status := k.Status.toNat,
    keyId := k.KeyId, prefixType := k.OutputPrefixType.toNat, parseOk := parseOk }

/-- the keys with their parser verdicts `ps` (position by position; missing verdicts are `true`) -/
def pkeysOf : List Keyset_Key → List Bool → List Keyset.PKey
  | [], _ => []
  | k :: ks, ps => pkeyOf k (ps.headD true) :: pkeysOf ks ps.tail

def pkeysetOf (ks : Keyset) (ps : List Bool) : Keyset.PKeyset :=
  { primaryKeyId := ks.PrimaryKeyId, keys := pkeysOf ks.Key ps }

theorem pkeysOf_length (l : List Keyset_Key) (ps : List Bool) : (pkeysOf l ps).length = l.length := by
  induction l generalizing ps with
  | nil => rfl
  | cons k rest ih => rw [pkeysOf, List.length_cons, List.length_cons, ih]

/-! ### `Int.toNat` against the small enum values -/

theorem toNat_beq_pos (x : Int) (n : Nat) (hn : 0 < n) : (x.toNat == n) = decide (x = (n : Int)) := by
  rw [Bool.eq_iff_iff, beq_iff_eq, decide_eq_true_eq]; omega

theorem toNat_beq1 (x : Int) : (x.toNat == 1) = decide (x = 1) := toNat_beq_pos x 1 (by decide)
theorem toNat_beq2 (x : Int) : (x.toNat == 2) = decide (x = 2) := toNat_beq_pos x 2 (by decide)
theorem toNat_beq3 (x : Int) : (x.toNat == 3) = decide (x = 3) := toNat_beq_pos x 3 (by decide)
theorem toNat_beq4 (x : Int) : (x.toNat == 4) = decide (x = 4) := toNat_beq_pos x 4 (by decide)
theorem toNat_beq5 (x : Int) : (x.toNat == 5) = decide (x = 5) := toNat_beq_pos x 5 (by decide)

theorem toNat_ne_one (x : Int) : (x.toNat ≠ 1) ↔ x ≠ 1 := by omega

/-- 0 is different: every negative value also has `toNat = 0` -/
theorem toNat_beq0 (x : Int) (h : 0 ≤ x) : (x.toNat == 0) = decide (x = 0) := by
  rw [Bool.eq_iff_iff, beq_iff_eq, decide_eq_true_eq]; omega

/-! ### `ValidateKeyVersion`, constants -/

/-- TIE `ValidateKeyVersion`: error iff `version > maxExpected` -/
theorem keyset_ValidateKeyVersion_eq (v m : Nat) : (KeysetGo.ValidateKeyVersion v m).isSome = decide (v ≤ m) := by
  unfold KeysetGo.ValidateKeyVersion
  by_cases h : v > m
  · rw [if_pos h]
    have : ¬ v ≤ m := by omega
    simp [this]
  · rw [if_neg h]
    have : v ≤ m := by omega
    simp [this]

/-- the generated enum constants are the numbers the model uses -/
theorem keyset_constants :
    KeysetGo.KeyStatusType_ENABLED = 1 ∧ KeysetGo.KeyStatusType_DISABLED = 2 ∧ KeysetGo.KeyStatusType_DESTROYED = 3 ∧
    KeysetGo.KeyData_UNKNOWN_KEYMATERIAL = 0 ∧ KeysetGo.KeyData_SYMMETRIC = 1 ∧
    KeysetGo.KeyData_ASYMMETRIC_PRIVATE = 2 ∧ KeysetGo.KeyData_ASYMMETRIC_PUBLIC = 3 ∧ KeysetGo.KeyData_REMOTE = 4 :=
  ⟨rfl, rfl, rfl, rfl, rfl, rfl, rfl, rfl⟩

/-- … and `Keyset.statusOf` reads them as the model's `Status` -/
theorem keyset_constants_status :
    Keyset.statusOf KeysetGo.KeyStatusType_ENABLED.toNat = .enabled ∧
    Keyset.statusOf KeysetGo.KeyStatusType_DISABLED.toNat = .disabled ∧
    Keyset.statusOf KeysetGo.KeyStatusType_DESTROYED.toNat = .destroyed :=
  ⟨rfl, rfl, rfl⟩

/-! ### `validateKey` -/

/-- a nil key is an error -/
theorem keyset_validateKey_nil (k : Keyset_Key) (h : k.isNil = true) : KeysetGo.validateKey k = none := by
  simp only [KeysetGo.validateKey, h, ↓reduceIte]

/-- TIE `validateKey`, for ALL enum values (negative ones included) and every parser verdict `b` -/
theorem keyset_validateKey_eq (k : Keyset_Key) (b : Bool) (h : k.isNil = false) :
    (KeysetGo.validateKey k).isSome = Keyset.validKey (pkeyOf k b) := by
  simp only [KeysetGo.validateKey, Keyset.validKey, pkeyOf, h, toNat_beq1, toNat_beq2, toNat_beq3, toNat_beq4,
    toNat_beq5]
  cases k.KeyData_isNil
  · simp only [Bool.false_eq_true, ↓reduceIte, Bool.not_false, Bool.true_and]
    split
    · simp_all
    · split
      · simp_all
      · simp only [ne_eq, not_and, Decidable.not_not, Option.isSome_some, Bool.true_eq, Bool.and_eq_true,
          Bool.or_eq_true, decide_eq_true_eq] at *
        omega
  · simp

/-! ### `Validate` -/

/-- a Go key and its model image -/
def KeyRel (k : Keyset_Key) (p : Keyset.PKey) : Prop := k.isNil = false ∧ ∃ b, p = pkeyOf k b

theorem pkeysOf_rel (l : List Keyset_Key) (ps : List Bool) (h : ∀ k ∈ l, k.isNil = false) :
    ListRel KeyRel l (pkeysOf l ps) := by
  induction l generalizing ps with
  | nil => exact ListRel.nil
  | cons k rest ih =>
    exact ListRel.cons ⟨h k List.mem_cons_self, _, rfl⟩ (ih _ (fun y hy => h y (List.mem_cons_of_mem _ hy)))

theorem vloop_eq_foldOpt (primary : Nat) (s : Keyset.VState) (l : List Keyset.PKey) :
    Keyset.vloop primary s l = foldOpt (Keyset.vstep primary) s l := by
  induction l generalizing s with
  | nil => rfl
  | cons k rest ih =>
    rw [Keyset.vloop, foldOpt]
    cases Keyset.vstep primary s k with
    | none => rfl
    | some s' => exact ih s'

/-- the loop state (keyIDs, hasPrimaryKey, numEnabledKeys) of the Go `Validate` against the model's `VState` after
    `j` keys: the Go `int` counter is the model's `Nat` counter, which is at most `j` -/
def StRel (j : Nat) (s : List Nat × Bool × Int) (t : Keyset.VState) : Prop :=
  s.1 = t.seen ∧ s.2.1 = t.hasPrimary ∧ s.2.2 = (t.numEnabled : Int) ∧ t.numEnabled ≤ j

theorem i64_succ_nat (n : Nat) (h : n < 9223372036854775807) : i64 ((n : Int) + 1) = ((n + 1 : Nat) : Int) := by
  rw [i64_eq (by omega) (by omega)]; omega

/-- one iteration of the loop of `Validate` = `Keyset.vstep` -/
theorem Validate_step (ks : Keyset) (j : Nat) (s : List Nat × Bool × Int) (t : Keyset.VState) (i : Int)
    (x : Keyset_Key) (y : Keyset.PKey) (hj : j < 9223372036854775807) (hR : StRel j s t) (hC : KeyRel x y) :
    (Keyset.vstep ks.PrimaryKeyId t y = none → KeysetGo.Validate.loop1.body ks s i x = Step.ret none) ∧
    (∀ t', Keyset.vstep ks.PrimaryKeyId t y = some t' →
      ∃ s', KeysetGo.Validate.loop1.body ks s i x = Step.next s' ∧ StRel (j + 1) s' t') := by
  obtain ⟨hx, b, rfl⟩ := hC
  obtain ⟨s1, s2, s3⟩ := s
  obtain ⟨h1, h2, h3, h4⟩ := hR
  simp only at h1 h2 h3
  subst h1 h2 h3
  have hv := keyset_validateKey_eq x b hx
  simp only [KeysetGo.Validate.loop1.body, KeysetGo.Validate.loop1.v5, KeysetGo.Validate.v2,
    KeysetGo.Validate.loop1.v6, KeysetGo.Validate.loop1.v7, KeysetGo.Validate.loop1.v8,
    KeysetGo.Validate.loop1.v9, Keyset.vstep]
  cases hvk : KeysetGo.validateKey x with
  | none =>
    rw [hvk] at hv
    simp [← hv]
  | some u =>
    rw [hvk] at hv
    have hst : (pkeyOf x b).status ≠ 1 ↔ x.Status ≠ 1 := toNat_ne_one _
    have hid : (pkeyOf x b).keyId = x.KeyId := rfl
    simp only [← hv, Option.isSome_some, Bool.not_true, Bool.false_eq_true, ↓reduceIte, hst, hid, decide_eq_true_eq,
      i64_succ_nat _ (Nat.lt_of_le_of_lt h4 hj)]
    by_cases hm : x.KeyId ∈ t.seen
    · simp [hm]
    · by_cases hs : x.Status = 1
      · by_cases hp : x.KeyId = ks.PrimaryKeyId
        · rw [hp] at hm
          by_cases hh : t.hasPrimary = true
          · simp [hm, hs, hp, hh]
          · simp [hm, hs, hp, hh, StRel]; omega
        · simp [hm, hs, hp, StRel]; omega
      · by_cases hp : x.KeyId = ks.PrimaryKeyId
        · rw [hp] at hm
          simp [hm, hs, hp]
        · simp [hm, hs, hp, StRel]; omega

/-- a nil keyset is an error -/
theorem keyset_Validate_nil (ks : Keyset) (h : ks.isNil = true) : KeysetGo.Validate ks = none := by
  simp only [KeysetGo.Validate, h, ↓reduceIte]

/-- TIE `Validate`: for a non-nil keyset with non-nil entries, of ANY length (< 2^63 as for every Go slice), with any
    enum values (negative ones included) and any parser verdicts `ps` -/
theorem keyset_Validate_eq (ks : Keyset) (ps : List Bool) (hnil : ks.isNil = false)
    (hkeys : ∀ k ∈ ks.Key, k.isNil = false) (hlen : ks.Key.length < 9223372036854775808) :
    (KeysetGo.Validate ks).isSome = Keyset.validate (pkeysetOf ks ps) := by
  have hsim := forEachSteps_foldOpt (fun s1 i__ key => KeysetGo.Validate.loop1.body ks s1 i__ key)
    (Keyset.vstep ks.PrimaryKeyId) none StRel KeyRel 9223372036854775807
    (fun j s t i x y hj hR hC => Validate_step ks j s t i x y hj hR hC)
    ks.Key (pkeysOf ks.Key ps) (pkeysOf_rel ks.Key ps hkeys) 0 0 ([], false, 0)
    { seen := [], hasPrimary := false, numEnabled := 0 } ⟨rfl, rfl, rfl, Nat.le_refl 0⟩ (by omega)
  rw [← vloop_eq_foldOpt] at hsim
  obtain ⟨hsim1, hsim2⟩ := hsim
  simp only [KeysetGo.Validate, Keyset.validate, pkeysetOf, hnil, Bool.false_eq_true, ↓reduceIte,
    KeysetGo.Validate.v12, KeysetGo.Validate.v11, KeysetGo.Validate.loop1,
    KeysetGo.Validate.v1, KeysetGo.Validate.v3, KeysetGo.Validate.v4]
  by_cases he : ks.Key = []
  · simp [he, pkeysOf]
  · have hl : ks.Key.length ≠ 0 := fun h => he (List.eq_nil_of_length_eq_zero h)
    have he' : (pkeysOf ks.Key ps).isEmpty = false := by
      rw [List.isEmpty_eq_false_iff]; intro h
      apply hl; rw [← pkeysOf_length ks.Key ps, h]; rfl
    have hl' : ¬ (Int.ofNat ks.Key.length = 0) := by
      simp only [Int.ofNat_eq_natCast]; omega
    simp only [hl', he', Bool.false_eq_true, ↓reduceIte]
    cases hv : Keyset.vloop ks.PrimaryKeyId { seen := [], hasPrimary := false, numEnabled := 0 } (pkeysOf ks.Key ps) with
    | none =>
      simp only [hsim1 hv]; rfl
    | some t' =>
      obtain ⟨s', hs', _, h2, h3, _⟩ := hsim2 t' hv
      simp only [hs', h2, h3]
      by_cases hn : t'.numEnabled = 0
      · simp [hn]
      · have : ¬ ((t'.numEnabled : Int) = 0) := by omega
        simp only [this, ↓reduceIte]
        cases t'.hasPrimary <;> simp [hn]

/-- a nil entry anywhere in `ks.Key` (whatever the other entries are) makes `Validate` fail -/
theorem keyset_Validate_nilKey (ks : Keyset) (h : ∃ k ∈ ks.Key, k.isNil = true) : KeysetGo.Validate ks = none := by
  have key : ∀ (l : List Keyset_Key) (start : Int) (s : List Nat × Bool × Int), (∃ k ∈ l, k.isNil = true) →
      (forEachSteps l start s (fun s1 i__ key => KeysetGo.Validate.loop1.body ks s1 i__ key)).1 = some none := by
    intro l
    induction l with
    | nil => intro _ _ ⟨k, hk, _⟩; cases hk
    | cons x rest ih =>
      intro start s hex
      have hcases : ∀ st, KeysetGo.Validate.loop1.body ks s start x = st →
          (forEachSteps (x :: rest) start s (fun s1 i__ key => KeysetGo.Validate.loop1.body ks s1 i__ key)).1
            = some none := by
        intro st hst
        cases st with
        | ret r =>
          rw [forEachSteps_ret x rest start s r _ hst]
          -- the body only ever returns `none`
          have : r = none := by
            simp only [KeysetGo.Validate.loop1.body] at hst
            split at hst
            · cases hst; rfl
            · repeat' split at hst
              all_goals first | (cases hst; rfl) | cases hst
          rw [this]
        | brk s' =>
          exfalso
          simp only [KeysetGo.Validate.loop1.body] at hst
          split at hst
          · cases hst
          · repeat' split at hst
            all_goals cases hst
        | next s' =>
          rw [forEachSteps_next x rest start s s' _ hst]
          apply ih
          obtain ⟨k, hk, hkn⟩ := hex
          rcases List.mem_cons.mp hk with rfl | hk'
          · exfalso
            simp only [KeysetGo.Validate.loop1.body, KeysetGo.Validate.loop1.v5,
              keyset_validateKey_nil k hkn] at hst
            cases hst
          · exact ⟨k, hk', hkn⟩
      exact hcases _ rfl
  simp only [KeysetGo.Validate, KeysetGo.Validate.loop1]
  split
  · rfl
  · split
    · rfl
    · simp only [key ks.Key 0 _ h]

/-! ### `hasSecrets` -/

theorem hasSecrets_pred_eq (ks : Keyset) (k : Keyset_Key) (b : Bool) (h : 0 ≤ k.KeyData_KeyMaterialType) :
    KeysetGo.hasSecrets.pred1 ks k
      = ((pkeyOf k b).material == 0 || (pkeyOf k b).material == 2 || (pkeyOf k b).material == 1) := by
  simp only [KeysetGo.hasSecrets.pred1, pkeyOf, toNat_beq0 _ h, toNat_beq1, toNat_beq2]
  by_cases h0 : k.KeyData_KeyMaterialType = 0
  · simp [h0]
  · by_cases h2 : k.KeyData_KeyMaterialType = 2
    · simp [h2]
    · by_cases h1 : k.KeyData_KeyMaterialType = 1
      · simp [h1]
      · simp [h0, h1, h2]

theorem hasSecrets_pred_imp (ks : Keyset) (k : Keyset_Key) (b : Bool) (h : KeysetGo.hasSecrets.pred1 ks k = true) :
    ((pkeyOf k b).material == 0 || (pkeyOf k b).material == 2 || (pkeyOf k b).material == 1) = true := by
  simp only [KeysetGo.hasSecrets.pred1] at h
  simp only [pkeyOf, Bool.or_eq_true, beq_iff_eq]
  split at h
  · omega
  · cases h

/-- TIE `hasSecrets`, every length, every position: for non-negative KeyMaterialType values (see the header for the
    negative ones) -/
theorem keyset_hasSecrets_eq (ks : Keyset) (ps : List Bool) (hmat : ∀ k ∈ ks.Key, 0 ≤ k.KeyData_KeyMaterialType) :
    KeysetGo.hasSecrets ks = Keyset.hasSecrets (pkeysetOf ks ps) := by
  simp only [KeysetGo.hasSecrets, Keyset.hasSecrets, pkeysetOf]
  generalize ks.Key = l at hmat
  induction l generalizing ps with
  | nil => rfl
  | cons k rest ih =>
    rw [pkeysOf, List.any_cons, List.any_cons, hasSecrets_pred_eq ks k _ (hmat k List.mem_cons_self),
      ih _ (fun y hy => hmat y (List.mem_cons_of_mem _ hy))]

/-- for ALL KeyMaterialType values: whatever Go calls secret the model calls secret (the converse fails for negative
    values only) -/
theorem keyset_hasSecrets_imp (ks : Keyset) (ps : List Bool) (h : KeysetGo.hasSecrets ks = true) :
    Keyset.hasSecrets (pkeysetOf ks ps) = true := by
  simp only [KeysetGo.hasSecrets, Keyset.hasSecrets, pkeysetOf] at h ⊢
  generalize ks.Key = l at h
  induction l generalizing ps with
  | nil => cases h
  | cons k rest ih =>
    rw [pkeysOf, List.any_cons]
    rw [List.any_cons, Bool.or_eq_true] at h
    rw [Bool.or_eq_true]
    rcases h with h | h
    · exact Or.inl (hasSecrets_pred_imp ks k _ h)
    · exact Or.inr (ih _ h)

/-! ### non-vacuity and counterexamples -/

section Examples

/-- a non-nil key with key data: id, status, prefix type, material type -/
def exKey (id : Nat) (st pt mt : Int) : Keyset_Key :=
  { isNil := false, KeyId := id, Status := st, OutputPrefixType := pt, KeyData_isNil := false,
    KeyData_KeyMaterialType := mt }

/-- primary 7 (enabled, TINK, symmetric) + a disabled RAW public key: valid, has secrets; hypotheses hold -/
def exKs : Keyset := { isNil := false, PrimaryKeyId := 7, Key := [exKey 3 2 3 3, exKey 7 1 1 1] }

example : exKs.isNil = false ∧ (∀ k ∈ exKs.Key, k.isNil = false) ∧ exKs.Key.length < 9223372036854775808
    ∧ (∀ k ∈ exKs.Key, 0 ≤ k.KeyData_KeyMaterialType) := by decide
example : (KeysetGo.Validate exKs).isSome = true ∧ Keyset.validate (pkeysetOf exKs [true, false]) = true := by decide
example : KeysetGo.hasSecrets exKs = true ∧ Keyset.hasSecrets (pkeysetOf exKs []) = true := by decide
/-- position independence: the secret key last or first -/
example : KeysetGo.hasSecrets { exKs with Key := exKs.Key.reverse } = true := by decide
/-- only public / remote material: no secrets -/
example : KeysetGo.hasSecrets { exKs with Key := [exKey 3 2 3 3, exKey 7 1 1 4] } = false := by decide

/-- rejected on both sides: duplicate id; disabled primary; no primary; unknown / NEGATIVE status; negative prefix -/
example : KeysetGo.Validate { exKs with Key := [exKey 7 2 3 3, exKey 7 1 1 1] } = none
    ∧ Keyset.validate (pkeysetOf { exKs with Key := [exKey 7 2 3 3, exKey 7 1 1 1] } []) = false := by decide
example : KeysetGo.Validate { exKs with Key := [exKey 3 1 3 3, exKey 7 2 1 1] } = none
    ∧ Keyset.validate (pkeysetOf { exKs with Key := [exKey 3 1 3 3, exKey 7 2 1 1] } []) = false := by decide
example : KeysetGo.Validate { exKs with PrimaryKeyId := 8 } = none
    ∧ Keyset.validate (pkeysetOf { exKs with PrimaryKeyId := 8 } []) = false := by decide
example : KeysetGo.Validate { exKs with Key := [exKey 3 (-2) 3 3, exKey 7 1 1 1] } = none
    ∧ Keyset.validate (pkeysetOf { exKs with Key := [exKey 3 (-2) 3 3, exKey 7 1 1 1] } []) = false := by decide
example : KeysetGo.Validate { exKs with Key := [exKey 3 2 (-1) 3, exKey 7 1 1 1] } = none
    ∧ Keyset.validate (pkeysetOf { exKs with Key := [exKey 3 2 (-1) 3, exKey 7 1 1 1] } []) = false := by decide
example : KeysetGo.Validate { exKs with Key := [] } = none
    ∧ Keyset.validate (pkeysetOf { exKs with Key := [] } []) = false := by decide
/-- a nil entry -/
example : KeysetGo.Validate { exKs with Key := [{ exKey 3 2 3 3 with isNil := true }, exKey 7 1 1 1] } = none := by
  decide

/-- COUNTEREXAMPLE to `keyset_hasSecrets_eq` without `hmat`: KeyMaterialType = -1 (possible in a hostile proto; the
    keyset is valid for `Validate`): Go says "no secrets", the `toNat` abstraction says UNKNOWN_KEYMATERIAL = secret -/
example : (KeysetGo.Validate { exKs with Key := [exKey 7 1 1 (-1)] }).isSome = true
    ∧ KeysetGo.hasSecrets { exKs with Key := [exKey 7 1 1 (-1)] } = false
    ∧ Keyset.hasSecrets (pkeysetOf { exKs with Key := [exKey 7 1 1 (-1)] } []) = true := by decide

example : (KeysetGo.ValidateKeyVersion 0 0).isSome = true ∧ (KeysetGo.ValidateKeyVersion 1 0).isSome = false := by
  decide

end Examples

section AxiomAudit
#print axioms keyset_ValidateKeyVersion_eq
#print axioms keyset_constants
#print axioms keyset_constants_status
#print axioms keyset_validateKey_nil
#print axioms keyset_validateKey_eq
#print axioms keyset_Validate_nil
#print axioms keyset_Validate_eq
#print axioms keyset_Validate_nilKey
#print axioms keyset_hasSecrets_eq
#print axioms keyset_hasSecrets_imp
end AxiomAudit

end TinkVerif.GlueTie
