import TinkVerif.Gen.GlueFactoryDaead
import TinkVerif.Props.GlueTie.FactoryCommon
/-
  GLUE TIE (whole functions), daead/daead_factory.go wrappedDAEAD.DecryptDeterministically / EncryptDeterministically — regenerated into Gen/GlueFactoryDaead.lean on every check run.
  What is abstract, the iterator contract `IterSpec` and the helper lemmas: see Props/GlueTie/FactoryCommon.lean.
-/
namespace TinkVerif.GlueTie
open TinkVerif

/-! ### deterministic AEAD -/

theorem factory_daead_decrypt_tie (Iter PMap Prim : Type) (fuel : Nat) (dec : Prim → Bytes → Bytes → Option Bytes)
    (matching : PMap → Bytes → Iter) (next : Iter → Prim × Bool × Iter) (rest : Iter → List Prim)
    (hs : IterSpec next rest) (m : PMap) (ct ad : Bytes) (hf : (rest (matching m ct)).length < fuel) :
    Gen.GlueFactoryDaead.DaeadFactory.DecryptDeterministically Iter PMap Prim fuel dec matching next m ct ad
      = (rest (matching m ct)).findSome? (fun p => dec p ct ad) := by
  have h := factory_loop_gen next rest hs (fun p => (dec p ct ad).map some)
    (fun s1 => Gen.GlueFactoryDaead.DaeadFactory.DecryptDeterministically.loop1.body Iter PMap Prim fuel dec matching next m ct ad s1)
    (by
      intro s h
      simp only [Gen.GlueFactoryDaead.DaeadFactory.DecryptDeterministically.loop1.body, h, Bool.false_eq_true, if_false])
    (by
      intro s h
      simp only [Gen.GlueFactoryDaead.DaeadFactory.DecryptDeterministically.loop1.body, Gen.GlueFactoryDaead.DaeadFactory.DecryptDeterministically.loop1.v6, Gen.GlueFactoryDaead.DaeadFactory.DecryptDeterministically.loop1.v7, Gen.GlueFactoryDaead.DaeadFactory.DecryptDeterministically.loop1.v8, Gen.GlueFactoryDaead.DaeadFactory.DecryptDeterministically.loop1.v9, Gen.GlueFactoryDaead.DaeadFactory.DecryptDeterministically.loop1.v10, h, if_true]
      cases dec s.2.1 ct ad <;> rfl)
    _ (matching m ct) fuel rfl hf
  simp only [Gen.GlueFactoryDaead.DaeadFactory.DecryptDeterministically, Gen.GlueFactoryDaead.DaeadFactory.DecryptDeterministically.loop1, Gen.GlueFactoryDaead.DaeadFactory.DecryptDeterministically.v5, Gen.GlueFactoryDaead.DaeadFactory.DecryptDeterministically.v4, Gen.GlueFactoryDaead.DaeadFactory.DecryptDeterministically.v3, Gen.GlueFactoryDaead.DaeadFactory.DecryptDeterministically.v2, Gen.GlueFactoryDaead.DaeadFactory.DecryptDeterministically.v1]
  rw [h, factory_findSome_map_some]
  cases List.findSome? (fun p => dec p ct ad) (rest (matching m ct)) <;> rfl

theorem factory_daead_decrypt_accept {κ : Type} (Iter PMap : Type) (fuel : Nat) (dec : Wrap.WEntry κ → Bytes → Bytes → Option Bytes)
    (matching : PMap → Bytes → Iter) (next : Iter → Wrap.WEntry κ × Bool × Iter) (rest : Iter → List (Wrap.WEntry κ))
    (hs : IterSpec next rest) (m : PMap) (es : List (Wrap.WEntry κ)) (accepts : κ → Bytes → Bytes → Bool) (ct ad : Bytes)
    (hm : rest (matching m ct) = Wrap.candidates es ct)
    (hd : ∀ e, (dec e ct ad).isSome = accepts e.key ct ad)
    (hf : (Wrap.candidates es ct).length < fuel) :
    Gen.GlueFactoryDaead.DaeadFactory.DecryptDeterministically Iter PMap (Wrap.WEntry κ) fuel dec matching next m ct ad
        = ((Wrap.candidates es ct).find? (fun e => accepts e.key ct ad)).bind (fun e => dec e ct ad)
    ∧ (Gen.GlueFactoryDaead.DaeadFactory.DecryptDeterministically Iter PMap (Wrap.WEntry κ) fuel dec matching next m ct ad).isSome
        = (Wrap.accept accepts es ct ad).isSome := by
  have h := factory_daead_decrypt_tie Iter PMap (Wrap.WEntry κ) fuel dec matching next rest hs m ct ad (by rw [hm]; exact hf)
  rw [h, hm]
  refine ⟨factory_find_bind _ _ hd _, ?_⟩
  rw [factory_find_isSome _ _ hd]
  simp only [Wrap.accept, Option.isSome_map]

theorem factory_daead_encrypt_tie (Iter PMap Prim : Type) (enc : Prim → Bytes → Bytes → Option Bytes) (primary : Prim) (kid : Nat)
    (pt ad : Bytes) :
    Gen.GlueFactoryDaead.DaeadFactory.EncryptDeterministically Iter PMap Prim enc primary kid pt ad = enc primary pt ad := by
  simp only [Gen.GlueFactoryDaead.DaeadFactory.EncryptDeterministically, Gen.GlueFactoryDaead.DaeadFactory.EncryptDeterministically.v1]
  cases enc primary pt ad <;> rfl


end TinkVerif.GlueTie

section AxiomAudit
#print axioms TinkVerif.GlueTie.factory_daead_decrypt_tie
#print axioms TinkVerif.GlueTie.factory_daead_decrypt_accept
#print axioms TinkVerif.GlueTie.factory_daead_encrypt_tie
end AxiomAudit
