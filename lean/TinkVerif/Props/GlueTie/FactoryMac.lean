import TinkVerif.Gen.GlueFactoryMac
import TinkVerif.Props.GlueTie.FactoryCommon
/-
  GLUE TIE (whole functions), mac/mac_factory.go wrappedMAC.VerifyMAC / tryVerifyMAC / ComputeMAC — regenerated into Gen/GlueFactoryMac.lean on every check run.
  What is abstract, the iterator contract `IterSpec` and the helper lemmas: see Props/GlueTie/FactoryCommon.lean.
-/
namespace TinkVerif.GlueTie
open TinkVerif

/-! ### MAC -/

theorem factory_slice5 (b : Bytes) (h : 5 < b.length) : GoSem.slice b (0 : Int) (5 : Int) = b.take 5 := by
  have := GoSem.slice_nat b 0 5 (by omega) (by omega)
  simpa using this

theorem factory_candidates_take5 {κ : Type} (es : List (Wrap.WEntry κ)) (y : Bytes) (h : 5 < y.length) :
    Wrap.candidates es (y.take 5) = Wrap.candidates es y := by
  have h1 : 5 ≤ (y.take 5).length := by rw [List.length_take]; omega
  have h2 : 5 ≤ y.length := by omega
  simp only [Wrap.candidates, if_pos h1, if_pos h2, List.take_take, Nat.min_self]

theorem factory_candidates_nil {κ : Type} (es : List (Wrap.WEntry κ)) :
    Wrap.candidates es [] = Wrap.bucket es [] := by
  simp [Wrap.candidates]

theorem factory_bucket_le_candidates {κ : Type} (es : List (Wrap.WEntry κ)) (y : Bytes) :
    (Wrap.bucket es []).length ≤ (Wrap.candidates es y).length := by
  simp only [Wrap.candidates, List.length_append]
  omega


theorem factory_mac_try_tie (Iter PMap Prim : Type) (fuel : Nat) (ver : Prim → Bytes → Bytes → Option Unit)
    (next : Iter → Prim × Bool × Iter) (rest : Iter → List Prim) (hs : IterSpec next rest)
    (mac data : Bytes) (it : Iter) (hf : (rest it).length < fuel) :
    Gen.GlueFactoryMac.MacFactory.tryVerifyMAC Iter PMap Prim fuel ver next mac data it
      = (rest it).any (fun p => (ver p mac data).isSome) := by
  have h := factory_loop_gen next rest hs (fun p => if (ver p mac data).isNone = false then some true else none)
    (fun s1 => Gen.GlueFactoryMac.MacFactory.tryVerifyMAC.loop1.body Iter PMap Prim fuel ver next mac data it s1)
    (by
      intro s h
      simp only [Gen.GlueFactoryMac.MacFactory.tryVerifyMAC.loop1.body, h, Bool.false_eq_true, if_false])
    (by
      intro s h
      simp only [Gen.GlueFactoryMac.MacFactory.tryVerifyMAC.loop1.body, h, if_true]
      by_cases hx : (ver s.2.1 mac data).isNone = false
      · have hx2 : Gen.GlueFactoryMac.MacFactory.tryVerifyMAC.loop1.v5 Iter PMap Prim fuel ver next mac data it s = false := hx
        rw [if_pos hx2, if_pos hx]
      · have hx2 : ¬ Gen.GlueFactoryMac.MacFactory.tryVerifyMAC.loop1.v5 Iter PMap Prim fuel ver next mac data it s = false := hx
        rw [if_neg hx2, if_neg hx]
        rfl)
    _ it fuel rfl hf
  simp only [Gen.GlueFactoryMac.MacFactory.tryVerifyMAC, Gen.GlueFactoryMac.MacFactory.tryVerifyMAC.loop1, Gen.GlueFactoryMac.MacFactory.tryVerifyMAC.v4, Gen.GlueFactoryMac.MacFactory.tryVerifyMAC.v3, Gen.GlueFactoryMac.MacFactory.tryVerifyMAC.v2, Gen.GlueFactoryMac.MacFactory.tryVerifyMAC.v1]
  rw [h, factory_findSome_bool]
  by_cases hany : (rest it).any (fun p => (ver p mac data).isSome) = true
  · rw [if_pos hany, hany]
  · rw [if_neg hany]
    simp only [Bool.not_eq_true] at hany
    rw [hany]

theorem factory_mac_verify_short (Iter PMap Prim : Type) (fuel : Nat) (ver : Prim → Bytes → Bytes → Option Unit)
    (matching : PMap → Bytes → Iter) (next : Iter → Prim × Bool × Iter) (m : PMap) (mac data : Bytes)
    (hl : mac.length ≤ 5) :
    Gen.GlueFactoryMac.MacFactory.VerifyMAC Iter PMap Prim matching fuel ver next m mac data = none := by
  unfold Gen.GlueFactoryMac.MacFactory.VerifyMAC
  have hc : GoSem.len mac ≤ Gen.GlueFactoryMac.MacFactory.VerifyMAC.v1 Iter PMap Prim matching fuel ver next m mac data := by
    show (mac.length : Int) ≤ 5
    omega
  rw [if_pos hc]

theorem factory_mac_verify_tie (Iter PMap Prim : Type) (fuel : Nat) (ver : Prim → Bytes → Bytes → Option Unit)
    (matching : PMap → Bytes → Iter) (next : Iter → Prim × Bool × Iter) (rest : Iter → List Prim) (hs : IterSpec next rest)
    (m : PMap) (mac data : Bytes)
    (hf1 : (rest (matching m (mac.take 5))).length < fuel) (hf2 : (rest (matching m [])).length < fuel) :
    Gen.GlueFactoryMac.MacFactory.VerifyMAC Iter PMap Prim matching fuel ver next m mac data
      = if mac.length ≤ 5 then none
        else if (rest (matching m (mac.take 5)) ++ rest (matching m [])).any (fun p => (ver p mac data).isSome) then some ()
        else none := by
  unfold Gen.GlueFactoryMac.MacFactory.VerifyMAC
  by_cases hl : mac.length ≤ 5
  · have hc : GoSem.len mac ≤ Gen.GlueFactoryMac.MacFactory.VerifyMAC.v1 Iter PMap Prim matching fuel ver next m mac data := by
      show (mac.length : Int) ≤ 5
      omega
    rw [if_pos hc, if_pos hl]
  · have hc : ¬ GoSem.len mac ≤ Gen.GlueFactoryMac.MacFactory.VerifyMAC.v1 Iter PMap Prim matching fuel ver next m mac data := by
      show ¬ (mac.length : Int) ≤ 5
      omega
    have e2 : Gen.GlueFactoryMac.MacFactory.VerifyMAC.v2 Iter PMap Prim matching fuel ver next m mac data = matching m (mac.take 5) := by
      show matching m (GoSem.slice mac (0 : Int) (5 : Int)) = _
      rw [factory_slice5 mac (by omega)]
    have e3 : Gen.GlueFactoryMac.MacFactory.VerifyMAC.v3 Iter PMap Prim matching fuel ver next m mac data = matching m [] := rfl
    rw [if_neg hc, if_neg hl, e2, e3,
      factory_mac_try_tie Iter PMap Prim fuel ver next rest hs mac data _ hf1,
      factory_mac_try_tie Iter PMap Prim fuel ver next rest hs mac data _ hf2, List.any_append]
    cases (rest (matching m (mac.take 5))).any (fun p => (ver p mac data).isSome) <;>
      cases (rest (matching m [])).any (fun p => (ver p mac data).isSome) <;> rfl

theorem factory_mac_verify_accept {κ : Type} (Iter PMap : Type) (fuel : Nat) (ver : Wrap.WEntry κ → Bytes → Bytes → Option Unit)
    (matching : PMap → Bytes → Iter) (next : Iter → Wrap.WEntry κ × Bool × Iter) (rest : Iter → List (Wrap.WEntry κ))
    (hs : IterSpec next rest) (m : PMap) (es : List (Wrap.WEntry κ)) (accepts : κ → Bytes → Bytes → Bool) (mac data : Bytes)
    (hm : ∀ y, rest (matching m y) = Wrap.candidates es y)
    (hd : ∀ e, (ver e mac data).isSome = accepts e.key mac data)
    (hf : (Wrap.candidates es mac).length < fuel) :
    (Gen.GlueFactoryMac.MacFactory.VerifyMAC Iter PMap (Wrap.WEntry κ) matching fuel ver next m mac data).isSome
        = (Wrap.macAccept accepts es mac data).isSome := by
  by_cases hl : mac.length ≤ 5
  · rw [factory_mac_verify_short Iter PMap (Wrap.WEntry κ) fuel ver matching next m mac data hl]
    rw [Wrap.macAccept, if_pos hl]
    rfl
  · have hl5 : 5 < mac.length := by omega
    have hf1 : (rest (matching m (mac.take 5))).length < fuel := by
      rw [hm, factory_candidates_take5 es mac hl5]; exact hf
    have hf2 : (rest (matching m [])).length < fuel := by
      rw [hm, factory_candidates_nil]
      exact Nat.lt_of_le_of_lt (factory_bucket_le_candidates es mac) hf
    rw [factory_mac_verify_tie Iter PMap (Wrap.WEntry κ) fuel ver matching next rest hs m mac data hf1 hf2]
    rw [if_neg hl, hm, hm, factory_candidates_take5 es mac hl5, factory_candidates_nil,
      factory_any_find_isSome _ _ hd]
    simp only [Wrap.macAccept, if_neg hl, Option.isSome_map]

theorem factory_mac_compute_tie (Iter PMap Prim : Type) (comp : Prim → Bytes → Option Bytes) (primary : Prim) (kid : Nat) (data : Bytes) :
    Gen.GlueFactoryMac.MacFactory.ComputeMAC Iter PMap Prim comp primary kid data = comp primary data := by
  simp only [Gen.GlueFactoryMac.MacFactory.ComputeMAC, Gen.GlueFactoryMac.MacFactory.ComputeMAC.v1]
  cases comp primary data <;> rfl


end TinkVerif.GlueTie

section AxiomAudit
#print axioms TinkVerif.GlueTie.factory_mac_try_tie
#print axioms TinkVerif.GlueTie.factory_mac_verify_tie
#print axioms TinkVerif.GlueTie.factory_mac_verify_accept
#print axioms TinkVerif.GlueTie.factory_mac_compute_tie
end AxiomAudit
