import TinkVerif.Lemmas.GlueSem
import TinkVerif.Gen.GlueMacWrap
import TinkVerif.Model.Mac
/-
  Tie: the MAC wrappers regenerated from /repo (Gen/GlueMacWrap.lean, produced by go/harness/gluetr on every
  check run) equal the hand models of Model/Mac.lean / Model/Framing.lean.

  * mac/aescmac/mac.go and mac/hmac/mac.go (the two files are line-for-line the same glue):
      `fullMAC.message`     (whole function) = `legacyMsg`   (LEGACY appends one 0x00; any other code: unchanged)
      `fullMAC.ComputeMAC`  (whole function) = `Mac.FullMac.compute`   (prefix ‖ raw tag over `legacyMsg`)
      `fullMAC.VerifyMAC`   (whole function) = `Mac.FullMac.verify`    (length guard, prefix comparison, raw verify)
    Abstracted as parameters: `raw` = `m.rawMAC.ComputeMAC` (mac/subtle: HMAC / AES-CMAC truncated to the tag
    size, never fails on the model's domain), `rawVerify` = `m.rawMAC.VerifyMAC` (succeeds iff the presented tag
    equals the recomputed one — this is `macsubtle_VerifyMAC_eq` below for CMAC); the variant is the generated
    integer constant (`macVariantCode`).  No length bound is needed: the functions do no integer arithmetic.
  * mac/subtle/cmac.go:
      `AESCMAC.ComputeMAC` (whole function) = first `tagLength` bytes of the CMAC
      `AESCMAC.VerifyMAC`  (whole function) = constant-time comparison with that truncation (lengths included)
      `ValidateCMACParams` (whole function) = `Mac.validCmacParams`
    Abstracted as a parameter: `cmac : Bytes → Bytes` = `a.cmac.Compute(data)` of the internal
    AES-CMAC (tied to `Cmac.compute` in Props/GlueTie/CmacFull.lean); only "returns 16 bytes" is used.  The
    hypothesis `t ≤ 16` is what `NewAESCMAC` enforces through `ValidateCMACParams`; it is needed because
    `computed[:tagLength]` panics otherwise.
-/
namespace TinkVerif.GlueTie
open TinkVerif TinkVerif.GoSem
open TinkVerif.Gen.GlueMacWrap

/-- the integer the Go code stores for a variant (`VariantTink` … `VariantNoPrefix` of mac/aescmac, mac/hmac).
    NOT the proto enum `OutputPrefixType` (TINK 1, LEGACY 2, RAW 3, CRUNCHY 4), which is `GlueTie.variantCode`
    of Props/GlueTie/Framing.lean — hence the different name. -/
def macVariantCode : Variant → Int
  | .tink => 1
  | .crunchy => 2
  | .legacy => 3
  | .raw => 4

theorem macwrap_variant_constants :
    AescmacMac.VariantTink = macVariantCode .tink ∧ AescmacMac.VariantCrunchy = macVariantCode .crunchy ∧
    AescmacMac.VariantLegacy = macVariantCode .legacy ∧ AescmacMac.VariantNoPrefix = macVariantCode .raw ∧
    HmacMac.VariantTink = macVariantCode .tink ∧ HmacMac.VariantCrunchy = macVariantCode .crunchy ∧
    HmacMac.VariantLegacy = macVariantCode .legacy ∧ HmacMac.VariantNoPrefix = macVariantCode .raw := by
  refine ⟨rfl, rfl, rfl, rfl, rfl, rfl, rfl, rfl⟩

private theorem slice_pre (b : Bytes) (hi : Nat) (h : hi ≤ b.length) : slice b 0 (hi : Int) = b.take hi := by
  have := slice_nat b 0 hi (Nat.zero_le _) h
  simpa using this

private theorem slice_suf (b : Bytes) (lo : Nat) (h : lo ≤ b.length) : slice b (lo : Int) (b.length : Int) = b.drop lo := by
  rw [slice_nat b lo b.length h (Nat.le_refl _), List.take_of_length_le (Nat.le_refl _)]

/-! ### mac/aescmac -/

theorem aescmac_message_eq (v : Variant) (msg : Bytes) : AescmacMac.message (macVariantCode v) msg = legacyMsg v msg := by
  cases v <;> simp [AescmacMac.message, macVariantCode, legacyMsg]

theorem aescmac_message_other (c : Int) (hc : c ≠ 3) (msg : Bytes) : AescmacMac.message c msg = msg := by
  simp only [AescmacMac.message]; rw [if_neg hc]

theorem aescmac_ComputeMAC_eq (m : Mac.FullMac) (raw : Bytes → Option Bytes) (h : ∀ x, raw x = some (m.raw x))
    (data : Bytes) :
    AescmacMac.ComputeMAC raw m.pre (macVariantCode m.variant) data = some (m.compute data) := by
  simp only [AescmacMac.ComputeMAC, AescmacMac.ComputeMAC.v1, aescmac_message_eq, h, Option.bind_some,
    Mac.FullMac.compute]

theorem aescmac_VerifyMAC_eq (m : Mac.FullMac) (rawVerify : Bytes → Bytes → Option Unit)
    (h : ∀ t x, rawVerify t x = if t = m.raw x then some () else none) (mac data : Bytes) :
    (AescmacMac.VerifyMAC rawVerify m.pre (macVariantCode m.variant) mac data).isSome = m.verify mac data := by
  simp only [AescmacMac.VerifyMAC, AescmacMac.VerifyMAC.v1, aescmac_message_eq, len_eq, Mac.FullMac.verify,
    Int.ofNat_lt]
  by_cases h1 : mac.length < m.pre.length
  · rw [if_pos h1, if_pos h1]; rfl
  · have e1 := slice_pre mac m.pre.length (by omega)
    have e2 := slice_suf mac m.pre.length (by omega)
    rw [if_neg h1, if_neg h1]
    simp only [e1, e2]
    by_cases h2 : mac.take m.pre.length = m.pre
    · simp only [h2, decide_true, not_true_eq_false, ↓reduceIte, ne_eq, h]
      by_cases h3 : mac.drop m.pre.length = m.raw (legacyMsg m.variant data)
      · simp [h3]
      · simp [h3]
    · simp [h2]

/-! ### mac/hmac (the same glue) -/

theorem hmac_message_eq (v : Variant) (msg : Bytes) : HmacMac.message (macVariantCode v) msg = legacyMsg v msg := by
  cases v <;> simp [HmacMac.message, macVariantCode, legacyMsg]

theorem hmac_message_other (c : Int) (hc : c ≠ 3) (msg : Bytes) : HmacMac.message c msg = msg := by
  simp only [HmacMac.message]; rw [if_neg hc]

theorem hmac_ComputeMAC_eq (m : Mac.FullMac) (raw : Bytes → Option Bytes) (h : ∀ x, raw x = some (m.raw x))
    (data : Bytes) :
    HmacMac.ComputeMAC raw m.pre (macVariantCode m.variant) data = some (m.compute data) := by
  simp only [HmacMac.ComputeMAC, HmacMac.ComputeMAC.v1, hmac_message_eq, h, Option.bind_some,
    Mac.FullMac.compute]

theorem hmac_VerifyMAC_eq (m : Mac.FullMac) (rawVerify : Bytes → Bytes → Option Unit)
    (h : ∀ t x, rawVerify t x = if t = m.raw x then some () else none) (mac data : Bytes) :
    (HmacMac.VerifyMAC rawVerify m.pre (macVariantCode m.variant) mac data).isSome = m.verify mac data := by
  simp only [HmacMac.VerifyMAC, HmacMac.VerifyMAC.v1, hmac_message_eq, len_eq, Mac.FullMac.verify,
    Int.ofNat_lt]
  by_cases h1 : mac.length < m.pre.length
  · rw [if_pos h1, if_pos h1]; rfl
  · have e1 := slice_pre mac m.pre.length (by omega)
    have e2 := slice_suf mac m.pre.length (by omega)
    rw [if_neg h1, if_neg h1]
    simp only [e1, e2]
    by_cases h2 : mac.take m.pre.length = m.pre
    · simp only [h2, decide_true, not_true_eq_false, ↓reduceIte, ne_eq, h]
      by_cases h3 : mac.drop m.pre.length = m.raw (legacyMsg m.variant data)
      · simp [h3]
      · simp [h3]
    · simp [h2]

/-! ### mac/subtle/cmac.go -/

theorem macsubtle_ComputeMAC_eq (cmac : Bytes → Bytes) (t : Nat) (ht : t ≤ 16) (hc : ∀ x, (cmac x).length = 16)
    (data : Bytes) : MacSubtle.ComputeMAC cmac t data = some ((cmac data).take t) := by
  simp only [MacSubtle.ComputeMAC, Int.ofNat_eq_natCast]
  rw [slice_pre (cmac data) t (by rw [hc]; exact ht)]

theorem macsubtle_VerifyMAC_eq (cmac : Bytes → Bytes) (t : Nat) (ht : t ≤ 16) (hc : ∀ x, (cmac x).length = 16)
    (mac data : Bytes) : (MacSubtle.VerifyMAC cmac t mac data).isSome ↔ mac = (cmac data).take t := by
  have e := slice_pre (cmac data) t (by rw [hc]; exact ht)
  simp only [MacSubtle.VerifyMAC, MacSubtle.VerifyMAC.v1, Int.ofNat_eq_natCast, ctCompare, e]
  by_cases h : mac = (cmac data).take t
  · simp [h]
  · simp [h]

theorem macsubtle_ValidateCMACParams_eq (k t : Nat) :
    (MacSubtle.ValidateCMACParams k t).isSome = Mac.validCmacParams k t := by
  simp only [MacSubtle.ValidateCMACParams, Mac.validCmacParams]
  by_cases h1 : k = 32
  · by_cases h2 : t < 10
    · have : ¬ 10 ≤ t := by omega
      simp [h1, h2, this]
    · have h2' : 10 ≤ t := by omega
      by_cases h3 : t > 16
      · have : ¬ t ≤ 16 := by omega
        simp [h1, h2, h3, this]
      · have : t ≤ 16 := by omega
        simp [h1, h2, h2', h3, this]
  · simp [h1]

/-! ### non-vacuity of the hypotheses -/

/-- a raw MAC that never fails, and the verifier that compares with it -/
example (m : Mac.FullMac) : ∀ x, (fun x => some (m.raw x)) x = some (m.raw x) := fun _ => rfl
example (m : Mac.FullMac) : ∀ t x, (fun t x => if t = m.raw x then some () else none) t x
    = if t = m.raw x then some () else none := fun _ _ => rfl
/-- a 16-byte valued `cmac` and an admissible tag length exist -/
example : (10 : Nat) ≤ 16 ∧ ∀ x : Bytes, ((fun _ => Bytes.zeros 16) x).length = 16 := by
  refine ⟨by omega, ?_⟩; intro x; simp
/-- the verify theorems are not trivially `false = false`: a computed tag verifies -/
example : (Mac.FullMac.mk [1] .legacy (fun x => x)).verify ((Mac.FullMac.mk [1] .legacy (fun x => x)).compute [7]) [7] = true := by
  decide

section AxiomAudit
#print axioms macwrap_variant_constants
#print axioms aescmac_message_eq
#print axioms aescmac_message_other
#print axioms aescmac_ComputeMAC_eq
#print axioms aescmac_VerifyMAC_eq
#print axioms hmac_message_eq
#print axioms hmac_message_other
#print axioms hmac_ComputeMAC_eq
#print axioms hmac_VerifyMAC_eq
#print axioms macsubtle_ComputeMAC_eq
#print axioms macsubtle_VerifyMAC_eq
#print axioms macsubtle_ValidateCMACParams_eq
end AxiomAudit

end TinkVerif.GlueTie
