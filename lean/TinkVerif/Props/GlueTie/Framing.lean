import TinkVerif.Lemmas.GlueSem
import TinkVerif.Gen.GlueFraming
import TinkVerif.Model.Framing
/-
  Tie: the output-prefix code regenerated from /repo (internal/outputprefix, core/cryptofmt; file
  Gen/GlueFraming.lean, produced by go/harness/gluetr on every check run) equals the hand-written
  model `TinkVerif.outputPrefix` (Model/Framing.lean) for every key id and every variant.
  A changed start byte, byte order, offset or size in /repo changes the regenerated definitions and
  breaks these proofs.  (`Bytes.be32 id` encodes `id mod 2^32`, so no bound on `id` is needed; Go's
  `uint32` ids are < 2^32 anyway.)
-/
namespace TinkVerif.GlueTie
open TinkVerif TinkVerif.GoSem
open TinkVerif.Gen.GlueFraming

/-- `outputprefix.calculatePrefixBytes(startByte, id)` = startByte ‖ be32(id) -/
theorem calculatePrefixBytes_eq (s : UInt8) (id : Nat) :
    Outputprefix.calculatePrefixBytes s id = s :: Bytes.be32 id := by
  simp [Outputprefix.calculatePrefixBytes, Outputprefix.calculatePrefixBytes.v3,
    Outputprefix.calculatePrefixBytes.v2, Outputprefix.calculatePrefixBytes.v1, makeBytes, setAt, putBE, Bytes.be32]

/-- `outputprefix.Tink` is the model's TINK prefix -/
theorem outputprefix_Tink_eq (id : Nat) : Outputprefix.Tink id = outputPrefix .tink id := by
  simp [Outputprefix.Tink, calculatePrefixBytes_eq, outputPrefix]

/-- `outputprefix.Legacy` is the model's LEGACY and CRUNCHY prefix -/
theorem outputprefix_Legacy_eq (id : Nat) :
    Outputprefix.Legacy id = outputPrefix .legacy id ∧ Outputprefix.Legacy id = outputPrefix .crunchy id := by
  simp [Outputprefix.Legacy, calculatePrefixBytes_eq, outputPrefix]

/-- the proto enum value `key.OutputPrefixType` of a model variant (constants regenerated from tink_go_proto) -/
def variantCode : Variant → Int
  | .tink => Cryptofmt.OutputPrefixType_TINK
  | .legacy => Cryptofmt.OutputPrefixType_LEGACY
  | .raw => Cryptofmt.OutputPrefixType_RAW
  | .crunchy => Cryptofmt.OutputPrefixType_CRUNCHY

/-- `cryptofmt.OutputPrefix(key)` = the model's prefix, for every variant and key id -/
theorem cryptofmt_OutputPrefix_eq (v : Variant) (id : Nat) :
    Cryptofmt.OutputPrefix (variantCode v) id = some (outputPrefix v id) := by
  cases v <;>
    simp [Cryptofmt.OutputPrefix, variantCode, Cryptofmt.OutputPrefixType_TINK, Cryptofmt.OutputPrefixType_LEGACY,
      Cryptofmt.OutputPrefixType_RAW, Cryptofmt.OutputPrefixType_CRUNCHY, outputprefix_Tink_eq, (outputprefix_Legacy_eq id).1,
      outputPrefix]

/-- every other enum value is refused -/
theorem cryptofmt_OutputPrefix_unknown (c : Int) (id : Nat) (h : ∀ v, c ≠ variantCode v) :
    Cryptofmt.OutputPrefix c id = none := by
  have h1 := h .tink; have h2 := h .legacy; have h3 := h .raw; have h4 := h .crunchy
  simp only [variantCode, Cryptofmt.OutputPrefixType_TINK, Cryptofmt.OutputPrefixType_LEGACY,
    Cryptofmt.OutputPrefixType_RAW, Cryptofmt.OutputPrefixType_CRUNCHY] at h1 h2 h3 h4
  simp [Cryptofmt.OutputPrefix, h1, h2, h3, h4]

/-- the constants cryptofmt exports agree with what the shared package uses -/
theorem cryptofmt_constants :
    Cryptofmt.TinkStartByte = 1 ∧ Cryptofmt.LegacyStartByte = 0 ∧ Cryptofmt.NonRawPrefixSize = 5 ∧
    (∀ id, (Outputprefix.Tink id).length = Cryptofmt.NonRawPrefixSize.toNat) ∧
    (∀ id, (Outputprefix.Legacy id).length = Cryptofmt.NonRawPrefixSize.toNat) := by
  refine ⟨rfl, rfl, rfl, ?_, ?_⟩ <;> intro id <;>
    simp [Outputprefix.Tink, Outputprefix.Legacy, calculatePrefixBytes_eq, Bytes.be32, Cryptofmt.NonRawPrefixSize]

example : variantCode .tink = 1 := rfl
example : (7 : Int) ≠ variantCode .raw := by decide

section AxiomAudit
#print axioms calculatePrefixBytes_eq
#print axioms outputprefix_Tink_eq
#print axioms outputprefix_Legacy_eq
#print axioms cryptofmt_OutputPrefix_eq
#print axioms cryptofmt_OutputPrefix_unknown
#print axioms cryptofmt_constants
end AxiomAudit

end TinkVerif.GlueTie
