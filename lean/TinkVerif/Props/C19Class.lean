import TinkVerif.Gen.SliceFacts
/-!
# C19 — regenerated slice facts

`Gen/SliceFacts.lean` is regenerated on every run from all non-test packages of /repo. The extractor computes,
by a fixpoint over the call graph of the whole module, a summary of every function: what happens to the memory
behind each `[]byte` parameter (by position), behind `[]byte` fields of struct / options parameters and of the
receiver — written within its length, appended to, used as the destination of a stdlib writer, kept by an
object that outlives the call (retention), handed to a container (escape), returned as (part of) the result —
and whether a result aliases library-internal memory (a pooled / package-level / receiver-held buffer).
Summaries of helpers are applied at their call sites; a fact is the summary of an ENTRY POINT: an exported
function, a method with an exported (or interface) name, or a function whose value is used. A helper that
appends to its `dst` parameter matters only if some entry point passes memory derived from ITS OWN parameter
there; a fresh `make` / `append([]byte{}, …)` / `Clone` / `Concat` buffer is nobody's memory. So the fact set does
not depend on how the code is cut into helpers, nor (canonical naming: positions `#i`, `recv`, field / type /
package-level names) on the names of parameters and locals; `info` carries those names and the helper chain for
the reader and is not compared.

Taint follows slicing (incl. `p[:n:n]`), conversions between byte-slice types, `bytes.Trim*/TrimLeft/TrimRight/
TrimPrefix/TrimSuffix/TrimSpace/TrimFunc`, `bytes.Fields/Split*/Cut*` (and ranging over / indexing their
results), `slices.Clip/Grow`, `bytes.NewBuffer(p)` / `bytes.NewReader(p)` (holders; a `Write` on the buffer is
an append into `p`), `append(p[:k], …)` (a view when the result fits; `append(p[:0:0], …)` and
`append(p[:n:n], …)` are copies), composite literals and field stores (the object then holds the memory: it
counts as retained when the object is returned, stored into something that outlives the call, or passed to a
callee that keeps it / cannot be seen), `Store/Swap/Put` of a container.
Pointers to generated proto messages count as the caller's memory too (`#i*`: they carry the caller's bytes; the
generated getters `x.GetF()` are field reads): an entry point that keeps such a message gets `retain-param … =#i*`.
`return-internal`: an entry point returns `x.Bytes()` of a `bytes.Buffer`, or a (re)slice of a buffer / array /
`*[]byte`, that was obtained from a package-level variable (`pool.Get()`, a global) or is held by the receiver.

Each fact on the current tree is classified below, by hand, with a reason. The theorem says the regenerated
fact set is within that classification; a new `append(data, 0)` reachable from an entry point with the caller's
slice, an accessor returning its field, or a constructor keeping the caller's slice adds a fact and the
obligation fails (the report `Reports/C19.lean` then names the fact). An allowance that no longer has a fact is
reported as a NOTE and fails nothing. The current tree has no `return-internal`, `return-field`,
`append-to-param`, `store-to-param` or `escape-param` fact at all.
-/
namespace TinkVerif.Gen.SliceFacts

inductive Why
  | dstContract      -- explicit destination-buffer parameter of an internal API (callers pass their own buffers)
  | ioReader         -- `io.Reader.Read(p)` writes `p` by contract
  | inputView        -- function of a Go-internal package returning (a sub-slice of) its input to its internal callers; a caller
                     -- that keeps or hands out the view gets a fact of its own (summaries are applied across packages)
  | protoMarshalled  -- stored into a proto message that is parsed into a key / parameters object (which copies) before the function returns
  | internalOwned    -- constructor of a Go-internal package whose (public) callers pass library-owned copies; the public
                     -- entry points are exercised by the guard-region harness
  | callerObject     -- the parameter is a POINTER to a proto message (`#i*`): the caller hands over an object, not a byte slice
                     -- (aead.NewKMSEnvelopeAEAD2 / …WithContext keep the caller's *KeyTemplate); observation, see the report
  | writerSink       -- keyset.MemReaderWriter is the caller's own sink: Write stores the keyset the library hands to it
  deriving DecidableEq, Repr

/-- (package, entry point, kind, canonical what) with the reason -/
def allowed : List (String × String × String × String × Why) := [
  ("aead", "NewKMSEnvelopeAEAD2", "retain-param", "KMSEnvelopeAEAD{dekTemplate}=#0*", .callerObject),
  ("aead", "NewKMSEnvelopeAEADWithContext", "retain-param", "KMSEnvelopeAEADWithContext{dekTemplate}=#0*", .callerObject),
  ("hybrid/internal/hpke", "NewEncrypt", "retain-param", "Encrypt{#0}=#0", .internalOwned),
  ("internal/aead", "AESCTR.Decrypt", "return-param", "#0", .dstContract),
  ("internal/aead", "AESCTR.Decrypt", "write-into-param", "XORKeyStream:#0", .dstContract),
  ("internal/aead", "AESCTR.Encrypt", "return-param", "#0", .dstContract),
  ("internal/aead", "AESCTR.Encrypt", "write-into-param", "Read:#0", .dstContract),
  ("internal/aead", "AESCTR.Encrypt", "write-into-param", "XORKeyStream:#0", .dstContract),
  ("internal/aead", "AESGCMSIV.Encrypt", "return-param", "#0", .dstContract),
  ("internal/aead", "AESGCMSIV.Encrypt", "write-into-param", "Read:#0", .dstContract),
  ("internal/aead", "AESGCMSIV.Encrypt", "write-into-param", "XORBytes:#0", .dstContract),
  ("internal/ec", "BigIntBytesToFixedSizeBuffer", "return-param", "#0", .inputView),
  ("internal/legacykeymanager", "KeyManager.NewKey", "retain-param", "tinkpb.KeyTemplate{Value}=#0", .protoMarshalled),
  ("internal/legacykeymanager", "KeyManager.NewKeyData", "retain-param", "tinkpb.KeyTemplate{Value}=#0", .protoMarshalled),
  ("internal/legacykeymanager", "KeyManager.Primitive", "retain-param", "tinkpb.KeyData{Value}=#0", .protoMarshalled),
  ("internal/legacykeymanager", "PrivateKeyManager.PublicKeyData", "retain-param", "tinkpb.KeyData{Value}=#0", .protoMarshalled),
  ("internal/protoserialization", "NewKeySerialization", "retain-param", "KeySerialization{keyData}=#0*", .internalOwned),
  ("internal/random", "MustRand", "write-into-param", "Read:#0", .dstContract),
  ("internal/signature", "AdjustEncodingLengths", "return-param", "#3", .inputView),
  ("internal/signature", "AdjustEncodingLengths", "return-param", "#4", .inputView),
  ("internal/signature", "AdjustEncodingLengths", "return-param", "#5", .inputView),
  ("internal/signature", "AdjustEncodingLengths", "return-param", "#6", .inputView),
  ("internal/signature", "Pad", "return-param", "#0", .inputView),
  ("internal/signature/slhdsa", "params.DecodePublicKey", "retain-param", "PublicKey{#0}=#0", .internalOwned),
  ("internal/signature/slhdsa", "params.DecodePublicKey", "retain-param", "PublicKey{#1}=#0", .internalOwned),
  ("internal/signature/slhdsa", "params.DecodeSecretKey", "retain-param", "SecretKey{#0}=#0", .internalOwned),
  ("internal/signature/slhdsa", "params.DecodeSecretKey", "retain-param", "SecretKey{#1}=#0", .internalOwned),
  ("internal/signature/slhdsa", "params.DecodeSecretKey", "retain-param", "SecretKey{#2}=#0", .internalOwned),
  ("internal/signature/slhdsa", "params.DecodeSecretKey", "retain-param", "SecretKey{#3}=#0", .internalOwned),
  ("keyderivation/internal/streamingprf", "NewHKDFStreamingPRF", "retain-param", "HKDFStreamingPRF{key}=#1", .internalOwned),
  ("keyderivation/internal/streamingprf", "NewHKDFStreamingPRF", "retain-param", "HKDFStreamingPRF{salt}=#2", .internalOwned),
  ("keyderivation/prfbasedkeyderivation", "keyManager.NewKey", "retain-param", "tinkpb.KeyTemplate{Value}=#0", .protoMarshalled),
  ("keyderivation/prfbasedkeyderivation", "keyManager.NewKeyData", "retain-param", "tinkpb.KeyTemplate{Value}=#0", .protoMarshalled),
  ("keyset", "MemReaderWriter.Write", "retain-param", "MemReaderWriter.Keyset=#0*", .writerSink),
  ("keyset", "MemReaderWriter.WriteEncrypted", "retain-param", "MemReaderWriter.EncryptedKeyset=#0*", .writerSink),
  ("streamingaead", "decryptReader.Read", "write-into-param", "Read:#0", .ioReader),
  ("streamingaead", "unreader.Read", "copy-into-param", "#0", .ioReader),
  ("streamingaead", "unreader.Read", "write-into-param", "Read:#0", .ioReader),
  ("streamingaead/subtle", "aesCTRHMACSegmentDecrypter.DecryptSegmentWithDst", "return-param", "#0", .dstContract),
  ("streamingaead/subtle", "aesCTRHMACSegmentDecrypter.DecryptSegmentWithDst", "write-into-param", "XORKeyStream:#0", .dstContract),
  ("streamingaead/subtle", "aesCTRHMACSegmentEncrypter.EncryptSegmentWithDst", "copy-into-param", "#0", .dstContract),
  ("streamingaead/subtle", "aesCTRHMACSegmentEncrypter.EncryptSegmentWithDst", "return-param", "#0", .dstContract),
  ("streamingaead/subtle", "aesCTRHMACSegmentEncrypter.EncryptSegmentWithDst", "write-into-param", "XORKeyStream:#0", .dstContract),
  ("streamingaead/subtle", "aesGCMHKDFSegmentDecrypter.DecryptSegmentWithDst", "aead-dst-param", "Open:#0", .dstContract),
  ("streamingaead/subtle", "aesGCMHKDFSegmentEncrypter.EncryptSegmentWithDst", "aead-dst-param", "Seal:#0", .dstContract),
  ("streamingaead/subtle/noncebased", "Reader.Read", "copy-into-param", "#0", .ioReader)
]

/-- genuine defects present in the tree that are recorded in /verif/known_findings.json rather than
    repaired (kept in step with that file; empty when everything found has been fixed): (pkg, fn, kind, what) -/
def recordedDefects : List (String × String × String × String) := []

def key (f : Fact) : String × String × String × String := (f.pkg, f.fn, f.kind, f.what)

def classified (f : Fact) : Bool :=
  allowed.any (fun (pkg, fn, kind, what, _) => pkg == f.pkg && fn == f.fn && kind == f.kind && what == f.what)
    || recordedDefects.contains (key f)

def unexpected : List Fact := facts.filter fun f => !classified f

/-- allowances without a fact (informational) -/
def staleAllowances : List (String × String × String × String × Why) :=
  allowed.filter fun (pkg, fn, kind, what, _) => !facts.any fun f => pkg == f.pkg && fn == f.fn && kind == f.kind && what == f.what

end TinkVerif.Gen.SliceFacts
