import TinkVerif.Gen.SliceFacts
/-!
# C19 — regenerated slice facts

`Gen/SliceFacts.lean` is regenerated on every run from all non-test packages of /repo: for every
function, each place where a `[]byte` parameter (or a local re-slice of it) is appended to, stored
into, passed as the destination of a stdlib writer, stored into a struct without `Clone`
(retention), or returned; and each method returning a `[]byte` field of its receiver as is.
Taint follows the slice-preserving operations: slicing (incl. `p[:n:n]`), `bytes.Trim*/TrimLeft/TrimRight/
TrimPrefix/TrimSuffix/TrimSpace/TrimFunc`, `bytes.Fields/Split*/Cut*` (and ranging over / indexing their
results), `slices.Clip/Grow`, `bytes.NewBuffer(p)` / `bytes.NewReader(p)` (holders; a `Write` on the buffer is
an append into `p`), `append(p[:k], …)` (a view when the result fits; `append(p[:0:0], …)` and
`append(p[:n:n], …)` are copies), handing a (pointer to a) parameter slice to `Store/Swap/Put` of a container.
`return-internal`: a function returns `x.Bytes()` of a `bytes.Buffer`, or a (re)slice of a buffer / array /
`*[]byte`, that was obtained from a package-level variable (`pool.Get()`, a global) or is a receiver field —
the caller's result then shares memory with something the library keeps and will write again.
The current tree has no `return-internal` fact and no parameter reaching a struct through a trimming function.

Each fact on the current tree is classified below, by hand, into `allowed` with a reason.  The theorem
says the regenerated fact set is within that classification; a new `append(data, 0)`, an accessor
returning its field, or a constructor keeping the caller's slice adds a fact and the obligation
fails (the report `Reports/C19.lean` then names the fact).
-/
namespace TinkVerif.Gen.SliceFacts

inductive Why
  | dstContract      -- explicit destination-buffer parameter of an internal API (callers pass their own buffers)
  | ioReader         -- `io.Reader.Read(p)` writes `p` by contract
  | internalScratch  -- unexported helper working on a buffer the calling method allocated
  | inputView        -- internal function returning (a sub-slice of) its input to its internal caller, which does not hand it out
  | protoMarshalled  -- stored into a proto message that is marshalled / parsed before the function returns
  | perCall          -- stored into an object that lives only for the duration of the call
  | internalOwned    -- constructor of a Go-internal package whose (public) callers pass library-owned copies; the public
                     -- entry points are exercised by the guard-region harness
  deriving DecidableEq, Repr

def allowed : List (Fact × Why) := [
  (⟨"aead", "parseEnvelope", "return-param", "ciphertext"⟩, .inputView),
  (⟨"daead/subtle", "AESSIV.ctrCrypt", "write-into-param", "XORKeyStream:out"⟩, .internalScratch),
  (⟨"daead/subtle", "multiplyByX", "store-to-param", "block"⟩, .internalScratch),
  (⟨"hybrid", "createECIESAEADHKDFKeyTemplate", "retain-param", "eciespb.EciesHkdfKemParams{HkdfSalt}=salt"⟩, .protoMarshalled),
  (⟨"hybrid/internal/hpke", "createContext", "retain-param", "context{encapsulatedKey}=encapsulatedKey"⟩, .perCall),
  (⟨"internal/aead", "AESCTR.Decrypt", "return-param", "dst"⟩, .dstContract),
  (⟨"internal/aead", "AESCTR.Decrypt", "write-into-param", "XORKeyStream:dst"⟩, .dstContract),
  (⟨"internal/aead", "AESCTR.Encrypt", "return-param", "dst"⟩, .dstContract),
  (⟨"internal/aead", "AESCTR.Encrypt", "write-into-param", "XORKeyStream:dst"⟩, .dstContract),
  (⟨"internal/aead", "AESGCMSIV.Encrypt", "return-param", "dst"⟩, .dstContract),
  (⟨"internal/aead", "AESGCMSIV.computeTag", "store-to-param", "polyval"⟩, .internalScratch),
  (⟨"internal/aead", "AESGCMSIV.computeTag", "write-into-param", "XORBytes:polyval"⟩, .internalScratch),
  (⟨"internal/aead", "aesCTR", "write-into-param", "XORBytes:out"⟩, .internalScratch),
  (⟨"internal/ec", "BigIntBytesToFixedSizeBuffer", "return-param", "bigIntBytes"⟩, .inputView),
  (⟨"internal/legacykeymanager", "KeyManager.NewKeyData", "retain-param", "tinkpb.KeyTemplate{Value}=serializedKeyFormat"⟩, .protoMarshalled),
  (⟨"internal/legacykeymanager", "KeyManager.Primitive", "retain-param", "tinkpb.KeyData{Value}=serializedKey"⟩, .protoMarshalled),
  (⟨"internal/legacykeymanager", "PrivateKeyManager.PublicKeyData", "retain-param", "tinkpb.KeyData{Value}=serializedPrivKey"⟩, .protoMarshalled),
  (⟨"internal/mac/aescmac", "mulByX", "store-to-param", "block"⟩, .internalScratch),
  (⟨"internal/random", "MustRand", "write-into-param", "Read:b"⟩, .dstContract),
  (⟨"internal/signature", "AdjustEncodingLengths", "return-param", "crt"⟩, .inputView),
  (⟨"internal/signature", "AdjustEncodingLengths", "return-param", "d"⟩, .inputView),
  (⟨"internal/signature", "AdjustEncodingLengths", "return-param", "dp"⟩, .inputView),
  (⟨"internal/signature", "AdjustEncodingLengths", "return-param", "dq"⟩, .inputView),
  (⟨"internal/signature", "Pad", "return-param", "toPad"⟩, .inputView),
  (⟨"internal/signature/slhdsa", "params.chain", "return-param", "x"⟩, .inputView),
  (⟨"hybrid/internal/hpke", "NewEncrypt", "retain-param", "Encrypt{#0}=recipientPubKeyBytes"⟩, .internalOwned),
  (⟨"internal/signature/slhdsa", "params.DecodePublicKey", "retain-param", "PublicKey{#0}=pkEnc"⟩, .internalOwned),
  (⟨"internal/signature/slhdsa", "params.DecodePublicKey", "retain-param", "PublicKey{#1}=pkEnc"⟩, .internalOwned),
  (⟨"internal/signature/slhdsa", "params.DecodeSecretKey", "retain-param", "SecretKey{#0}=skEnc"⟩, .internalOwned),
  (⟨"internal/signature/slhdsa", "params.DecodeSecretKey", "retain-param", "SecretKey{#1}=skEnc"⟩, .internalOwned),
  (⟨"internal/signature/slhdsa", "params.DecodeSecretKey", "retain-param", "SecretKey{#2}=skEnc"⟩, .internalOwned),
  (⟨"internal/signature/slhdsa", "params.DecodeSecretKey", "retain-param", "SecretKey{#3}=skEnc"⟩, .internalOwned),
  (⟨"internal/signature/slhdsa", "params.slhKeygenInternal", "retain-param", "PublicKey{#0}=pkSeed"⟩, .internalOwned),
  (⟨"internal/signature/slhdsa", "params.slhKeygenInternal", "retain-param", "SecretKey{#0}=skSeed"⟩, .internalOwned),
  (⟨"internal/signature/slhdsa", "params.slhKeygenInternal", "retain-param", "SecretKey{#1}=skPrf"⟩, .internalOwned),
  (⟨"internal/signature/slhdsa", "params.slhKeygenInternal", "retain-param", "SecretKey{#2}=pkSeed"⟩, .internalOwned),
  (⟨"keyderivation/internal/streamingprf", "NewHKDFStreamingPRF", "retain-param", "HKDFStreamingPRF{key}=key"⟩, .internalOwned),
  (⟨"keyderivation/internal/streamingprf", "NewHKDFStreamingPRF", "retain-param", "HKDFStreamingPRF{salt}=salt"⟩, .internalOwned),
  (⟨"keyderivation/prfbasedkeyderivation", "keyManager.NewKeyData", "retain-param", "tinkpb.KeyTemplate{Value}=serializedKeyFormat"⟩, .protoMarshalled),
  (⟨"mac", "fullMACAdapter.data", "return-param", "data"⟩, .inputView),
  (⟨"mac/aescmac", "fullMAC.message", "return-param", "msg"⟩, .inputView),
  (⟨"mac/hmac", "fullMAC.message", "return-param", "msg"⟩, .inputView),
  (⟨"prf", "createHKDFPRFKeyTemplate", "retain-param", "hkdfpb.HkdfPrfParams{Salt}=salt"⟩, .protoMarshalled),
  (⟨"streamingaead", "decryptReader.Read", "write-into-param", "Read:p"⟩, .ioReader),
  (⟨"streamingaead", "unreader.Read", "copy-into-param", "buf"⟩, .ioReader),
  (⟨"streamingaead", "unreader.Read", "write-into-param", "Read:buf"⟩, .ioReader),
  (⟨"streamingaead/subtle", "aesCTRHMACSegmentDecrypter.DecryptSegmentWithDst", "return-param", "dst"⟩, .dstContract),
  (⟨"streamingaead/subtle", "aesCTRHMACSegmentDecrypter.DecryptSegmentWithDst", "write-into-param", "XORKeyStream:dst"⟩, .dstContract),
  (⟨"streamingaead/subtle", "aesCTRHMACSegmentEncrypter.EncryptSegmentWithDst", "copy-into-param", "dst"⟩, .dstContract),
  (⟨"streamingaead/subtle", "aesCTRHMACSegmentEncrypter.EncryptSegmentWithDst", "return-param", "dst"⟩, .dstContract),
  (⟨"streamingaead/subtle", "aesCTRHMACSegmentEncrypter.EncryptSegmentWithDst", "write-into-param", "XORKeyStream:dst"⟩, .dstContract),
  (⟨"streamingaead/subtle", "aesGCMHKDFSegmentDecrypter.DecryptSegmentWithDst", "aead-dst-param", "Open:dst"⟩, .dstContract),
  (⟨"streamingaead/subtle", "aesGCMHKDFSegmentEncrypter.EncryptSegmentWithDst", "aead-dst-param", "Seal:dst"⟩, .dstContract),
  (⟨"streamingaead/subtle/noncebased", "Reader.Read", "copy-into-param", "p"⟩, .ioReader)
]

/-- genuine defects present in the tree that are recorded in /verif/known_findings.json rather than
    repaired (kept in step with that file; empty when everything found has been fixed) -/
def recordedDefects : List Fact := []

def classified (f : Fact) : Bool := allowed.any (fun p => p.1 == f) || recordedDefects.contains f

def unexpected : List Fact := facts.filter fun f => !classified f

end TinkVerif.Gen.SliceFacts
