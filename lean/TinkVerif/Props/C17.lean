import TinkVerif.Model.Derive
import TinkVerif.Props.C11
import TinkVerif.Props.C15

/-!
# C17 — keyset derivation is a deterministic standard function of (keyset, salt)

`DeriveKeyset` is literally composed from the keyset manager's `step` (C11), so its structure
theorem is proved over every well-formed deriver keyset of any size.
-/
namespace TinkVerif.Derive
open TinkVerif TinkVerif.Manager

/-- well-formed deriver keyset (what handles guarantee, C11/C14) plus consistent id requirements -/
structure WFD (es : List DEntry) : Prop where
  nodup : (es.map (·.id)).Nodup
  onePrimary : (es.filter (·.isPrimary)).length = 1
  primEnabled : ∀ e ∈ es, e.isPrimary = true → e.status = .enabled
  idReq : ∀ e ∈ es, e.idReq = none ∨ e.idReq = some e.id

def target (pid : Nat) (e : DEntry) : MEntry :=
  { key := e.key, id := e.id, status := .enabled, isPrimary := e.id == pid }

theorem addFixed (s : MState) (e : DEntry) (hreq : e.idReq = none ∨ e.idReq = some e.id) (hfree : e.id ∉ s.unavail) :
    step s (.addKeyOpts false e.key e.idReq [.withFixedID e.id] []) =
      ({ entries := s.entries ++ [{ key := e.key, id := e.id, status := .enabled, isPrimary := false }],
         unavail := e.id :: s.unavail }, .okId e.id) := by
  rcases hreq with h | h
  · simp [step, addKeyWithOpts, applyOpts, applyOpt, h, hfree]
  · simp [step, addKeyWithOpts, applyOpts, applyOpt, h, hfree]

/-- the loop invariant: after processing a prefix `L` (ids distinct, none equal to a later id), the
    manager holds exactly the target entries of `L` -/
theorem deriveLoop_spec (pid : Nat) (L rest : List DEntry) (s : MState)
    (hs : s.entries = L.map (target pid)) (hu : ∀ x, x ∈ s.unavail ↔ x ∈ L.map (·.id))
    (hnd : ((L ++ rest).map (·.id)).Nodup) (hreq : ∀ e ∈ rest, e.idReq = none ∨ e.idReq = some e.id) :
    ∃ s', deriveLoop pid s rest = some s' ∧ s'.entries = (L ++ rest).map (target pid) := by
  induction rest generalizing L s with
  | nil => exact ⟨s, rfl, by simpa using hs⟩
  | cons e rest ih =>
    have hfree : e.id ∉ s.unavail := by
      intro hm
      have := (hu e.id).mp hm
      simp only [List.map_append, List.map_cons] at hnd
      have := (List.nodup_append.mp hnd).2.2 e.id this e.id (List.mem_cons_self ..)
      exact this rfl
    have hadd := addFixed s e (hreq e (List.mem_cons_self ..)) hfree
    simp only [deriveLoop, deriveStep, hadd, Out.isErr, Bool.false_eq_true, ↓reduceIte]
    have hnd' : (((L ++ [e]) ++ rest).map (·.id)).Nodup := by simpa using hnd
    have hun : ∀ x, x ∈ e.id :: s.unavail ↔ x ∈ (L ++ [e]).map (·.id) := by
      intro x
      simp only [List.mem_cons, hu, List.map_append, List.map_cons, List.map_nil, List.mem_append,
        List.not_mem_nil, or_false]
      exact Or.comm
    by_cases hp : e.id = pid
    · -- the primary: SetPrimary right after adding it
      subst hp
      simp only [↓reduceIte]
      have hfind : findEntry (s.entries ++ [({ key := e.key, id := e.id, status := .enabled, isPrimary := false } : MEntry)]) e.id
          = some { key := e.key, id := e.id, status := .enabled, isPrimary := false } := by
        unfold findEntry
        rw [List.find?_append]
        have : s.entries.find? (·.id == e.id) = none := by
          rw [List.find?_eq_none]
          intro x hx
          rw [hs] at hx
          obtain ⟨y, hy, rfl⟩ := List.mem_map.mp hx
          simp only [target, beq_iff_eq]
          intro heq
          have : e.id ∈ L.map (·.id) := heq ▸ List.mem_map_of_mem hy
          exact hfree ((hu e.id).mpr this)
        rw [this]; simp
      simp only [step, hfind, ne_eq, not_true_eq_false, ↓reduceIte, Out.isErr, Bool.false_eq_true]
      let s2 : MState :=
        { entries := (s.entries ++ [({ key := e.key, id := e.id, status := .enabled, isPrimary := false } : MEntry)]).map
            fun (x : MEntry) => { x with isPrimary := x.id == e.id },
          unavail := e.id :: s.unavail }
      have hs2 : s2.entries = (L ++ [e]).map (target e.id) := by
        simp only [s2, List.map_append, hs, List.map_cons, List.map_nil, List.map_map]
        congr 1
      obtain ⟨s', h1, h2⟩ := ih (L ++ [e]) s2 hs2 hun hnd' (fun x hx => hreq x (List.mem_cons_of_mem _ hx))
      exact ⟨s', h1, by simpa using h2⟩
    · simp only [hp, ↓reduceIte]
      let s1 : MState :=
        { entries := s.entries ++ [({ key := e.key, id := e.id, status := .enabled, isPrimary := false } : MEntry)],
          unavail := e.id :: s.unavail }
      have hs1 : s1.entries = (L ++ [e]).map (target pid) := by
        simp only [s1, List.map_append, hs, List.map_cons, List.map_nil]
        congr 1
        simp [target, hp]
      obtain ⟨s', h1, h2⟩ := ih (L ++ [e]) s1 hs1 hun hnd' (fun x hx => hreq x (List.mem_cons_of_mem _ hx))
      exact ⟨s', h1, by simpa using h2⟩

theorem enabled_sub (es : List DEntry) : (enabled es).Sublist es := List.filter_sublist

/-- the primary id computed by the factory is the id of the keyset's unique primary entry -/
theorem primaryId_spec (es : List DEntry) (wf : WFD es) :
    ∃ p ∈ enabled es, p.isPrimary = true ∧ primaryId es = p.id := by
  obtain ⟨p, hp⟩ := List.length_eq_one_iff.mp wf.onePrimary
  have hpm : p ∈ es.filter (·.isPrimary) := by rw [hp]; simp
  obtain ⟨hpe, hpp⟩ := List.mem_filter.mp hpm
  have hen : p ∈ enabled es := List.mem_filter.mpr ⟨hpe, by simpa using wf.primEnabled p hpe hpp⟩
  unfold primaryId
  cases hf : (enabled es).reverse.find? (·.isPrimary) with
  | none =>
    have := List.find?_eq_none.mp hf p (List.mem_reverse.mpr hen)
    simp [hpp] at this
  | some q =>
    have hq := List.mem_reverse.mp (List.mem_of_find?_eq_some hf)
    have hqp : q.isPrimary = true := by simpa using List.find?_some hf
    have hqe : q ∈ es := (enabled_sub es).subset hq
    have : q ∈ es.filter (·.isPrimary) := List.mem_filter.mpr ⟨hqe, hqp⟩
    rw [hp] at this
    have : q = p := by simpa using this
    subst this
    exact ⟨q, hq, hqp, rfl⟩

/-- **Structure theorem.** For every well-formed deriver keyset, `DeriveKeyset` succeeds and returns
    a keyset holding exactly one ENABLED key per ENABLED deriver key, in order, with the same key id
    and the same primary designation. -/
theorem deriveKeyset_spec (es : List DEntry) (wf : WFD es) :
    deriveKeyset es = some ((enabled es).map (target (primaryId es))) ∧
    ∀ e ∈ enabled es, (target (primaryId es) e).isPrimary = e.isPrimary := by
  obtain ⟨p, hpen, hpp, hpid⟩ := primaryId_spec es wf
  have hnd : ((enabled es).map (·.id)).Nodup := ((enabled_sub es).map _).nodup wf.nodup
  obtain ⟨s', h1, h2⟩ := deriveLoop_spec (primaryId es) [] (enabled es) init (by simp [init]) (by simp [init])
    (by simpa using hnd) (fun e he => wf.idReq e ((enabled_sub es).subset he))
  constructor
  · unfold deriveKeyset
    simp only [h1]
    unfold Manager.handle
    simp only [List.nil_append] at h2
    rw [h2]
    have hnu : ((enabled es).map (target (primaryId es))).any (fun x => decide (x.status = Status.unknown)) = false := by
      simp [List.any_eq_false, target]
    have hany : ((enabled es).map (target (primaryId es))).any (·.isPrimary) = true := by
      rw [List.any_eq_true]
      exact ⟨target (primaryId es) p, List.mem_map_of_mem hpen, by simp [target, hpid]⟩
    simp [hnu, hany]
  · intro e he
    simp only [target]
    have hee : e ∈ es := (enabled_sub es).subset he
    by_cases hep : e.isPrimary = true
    · -- e is the unique primary
      obtain ⟨q, hq⟩ := List.length_eq_one_iff.mp wf.onePrimary
      have h1 : e ∈ es.filter (·.isPrimary) := List.mem_filter.mpr ⟨hee, hep⟩
      have h2 : p ∈ es.filter (·.isPrimary) := List.mem_filter.mpr ⟨(enabled_sub es).subset hpen, hpp⟩
      rw [hq] at h1 h2
      have : e = p := by simp at h1 h2; rw [h1, h2]
      subst this
      simp [hpid, hep]
    · have hne : e.id ≠ primaryId es := by
        intro heq
        rw [hpid] at heq
        have := Manager.eq_of_id_eq (es := es.map fun d => ({ key := d.key, id := d.id, status := d.status, isPrimary := d.isPrimary } : MEntry))
          (by simpa [List.map_map, Function.comp_def] using wf.nodup)
          (List.mem_map_of_mem (f := fun d => ({ key := d.key, id := d.id, status := d.status, isPrimary := d.isPrimary } : MEntry)) hee)
          (List.mem_map_of_mem (f := fun d => ({ key := d.key, id := d.id, status := d.status, isPrimary := d.isPrimary } : MEntry)) ((enabled_sub es).subset hpen)) heq
        have hpr : e.isPrimary = p.isPrimary := by
          have := congrArg MEntry.isPrimary this; simpa using this
        rw [hpp] at hpr; exact hep hpr
      simp only [Bool.not_eq_true] at hep
      simp [hne, hep]

/-- the derived keyset is well-formed in the sense of C11 -/
theorem deriveKeyset_wf (es : List DEntry) (wf : WFD es) (h : Handle) (hh : deriveKeyset es = some h) : WFHandle h := by
  unfold deriveKeyset at hh
  cases hl : deriveLoop (primaryId es) init (enabled es) with
  | none => simp [hl] at hh
  | some s =>
    simp only [hl] at hh
    -- the loop is a run of manager steps from the empty manager, so the invariant of C11 applies
    have key : ∀ (pid : Nat) (l : List DEntry) (s0 s1 : MState), Inv s0 → deriveLoop pid s0 l = some s1 → Inv s1 := by
      intro pid l
      induction l with
      | nil => intro s0 s1 hi h; simp only [deriveLoop, Option.some.injEq] at h; exact h ▸ hi
      | cons e l ih =>
        intro s0 s1 hi h
        simp only [deriveLoop] at h
        cases hs : deriveStep pid s0 e with
        | none => simp [hs] at h
        | some s2 =>
          simp only [hs] at h
          refine ih s2 s1 ?_ h
          unfold deriveStep at hs
          dsimp only at hs
          split at hs
          · cases hs
          · split at hs
            · split at hs
              · cases hs
              · cases hs; exact inv_step _ (inv_step _ hi _) _
            · cases hs; exact inv_step _ hi _
    exact handle_wf s (key _ _ _ _ inv_init hl) h hh

/-- determinism: equal (deriver keyset, salt) give equal derived keysets and equal material — the
    derivation is a function; and the material is the leading bytes of the RFC 5869 stream, so a
    shorter request is a prefix of a longer one (C15's prefix law). -/
theorem material_prefix (mac : Bytes → Bytes → Bytes) (hashLen : Nat) (hpos : 0 < hashLen)
    (hmac : ∀ k x, (mac k x).length = hashLen) (prfKey prfSalt salt : Bytes) (n m : Nat) (h : n ≤ m) :
    material mac hashLen prfKey prfSalt salt n = (material mac hashLen prfKey prfSalt salt m).take n :=
  Hmac.expand_prefix mac _ salt hashLen hpos hmac n m h

/-! non-vacuity -/
def exD : List DEntry :=
  [ { id := 5, status := .enabled, isPrimary := false, idReq := some 5, key := 1 },
    { id := 9, status := .disabled, isPrimary := false, idReq := none, key := 2 },
    { id := 7, status := .enabled, isPrimary := true, idReq := none, key := 3 } ]
example : (deriveKeyset exD).map (·.map fun e => (e.id, e.isPrimary)) = some [(5, false), (7, true)] := by decide

end TinkVerif.Derive

section AxiomAudit
open TinkVerif.Derive
#print axioms deriveKeyset_spec
#print axioms deriveKeyset_wf
#print axioms primaryId_spec
#print axioms material_prefix
end AxiomAudit
