import TinkVerif.Model.Siv
import TinkVerif.Model.Kwp

/-!
# C08 — AES-SIV and AES-KWP follow their RFCs and reject forgeries

Generic over the block functions: the theorems hold for every `E` (and inverse `D`), not only AES.
-/
namespace TinkVerif.Kwp
open TinkVerif

/-- a 16-byte block cipher with its inverse -/
structure BlockPair (E D : Bytes → Bytes) : Prop where
  len : ∀ b, b.length = 16 → (E b).length = 16
  inv : ∀ b, b.length = 16 → D (E b) = b

structure Good (n : Nat) (s : WState) : Prop where
  a8 : s.A.length = 8
  rn : s.R.length = n
  r8 : ∀ r ∈ s.R, r.length = 8

theorem xorCtr_length (a : Bytes) (t : Nat) (h : a.length = 8) : (xorCtr a t).length = 8 := by
  simp [xorCtr, Bytes.be32, h]

theorem xorCtr_involutive (a : Bytes) (t : Nat) (h : a.length = 8) : xorCtr (xorCtr a t) t = a := by
  unfold xorCtr
  have h4 : (a.take 4).length = 4 := by simp [h]
  rw [List.take_append_of_le_length (by omega), List.take_of_length_le (by omega),
      List.drop_append_of_le_length (by omega), List.drop_of_length_le (by omega), List.nil_append]
  rw [Bytes.xor_xor_cancel _ _ (by simp [Bytes.be32, h])]
  exact List.take_append_drop 4 a

theorem getD_mem_len (R : List Bytes) (j : Nat) (hj : j < R.length) (h8 : ∀ r ∈ R, r.length = 8) :
    (R.getD j []).length = 8 := by
  rw [List.getD_eq_getElem?_getD, List.getElem?_eq_getElem hj]
  exact h8 _ (List.getElem_mem hj)

theorem stepF_good (E D : Bytes → Bytes) (hE : BlockPair E D) (n : Nat) (hn : 0 < n) (s : WState)
    (g : Good n s) (t : Nat) : Good n (stepF E n s t) := by
  have hj : (t - 1) % n < s.R.length := by rw [g.rn]; exact Nat.mod_lt _ hn
  have ha8 := g.a8
  have hr8 := getD_mem_len _ _ hj g.r8
  have hin : (s.A ++ s.R.getD ((t - 1) % n) []).length = 16 := by
    rw [List.length_append, ha8, hr8]
  have hB : (E (s.A ++ s.R.getD ((t - 1) % n) [])).length = 16 := hE.len _ hin
  refine ⟨?_, ?_, ?_⟩
  · simp only [stepF]
    exact xorCtr_length _ _ (by rw [List.length_take, hB]; rfl)
  · simp only [stepF, List.length_set]; exact g.rn
  · intro r hr
    simp only [stepF] at hr
    rcases List.mem_or_eq_of_mem_set hr with h | h
    · exact g.r8 r h
    · rw [h, List.length_drop, hB]

/-- each step of the unwrapping loop undoes the corresponding wrapping step -/
theorem stepB_stepF (E D : Bytes → Bytes) (hE : BlockPair E D) (n : Nat) (hn : 0 < n) (s : WState)
    (g : Good n s) (t : Nat) : stepB D n (stepF E n s t) t = s := by
  have hj : (t - 1) % n < s.R.length := by rw [g.rn]; exact Nat.mod_lt _ hn
  have ha8 := g.a8
  have hr8 := getD_mem_len _ _ hj g.r8
  have hin : (s.A ++ s.R.getD ((t - 1) % n) []).length = 16 := by
    rw [List.length_append, ha8, hr8]
  have hB : (E (s.A ++ s.R.getD ((t - 1) % n) [])).length = 16 := hE.len _ hin
  simp only [stepB, stepF]
  rw [xorCtr_involutive _ _ (by rw [List.length_take, hB]; rfl)]
  have hget : (s.R.set ((t - 1) % n) ((E (s.A ++ s.R.getD ((t - 1) % n) [])).drop 8)).getD ((t - 1) % n) []
      = (E (s.A ++ s.R.getD ((t - 1) % n) [])).drop 8 := by
    rw [List.getD_eq_getElem?_getD, List.getElem?_set_self hj]; rfl
  rw [hget, List.take_append_drop, hE.inv _ hin]
  have hA : (s.A ++ s.R.getD ((t - 1) % n) []).take 8 = s.A := by
    rw [List.take_append_of_le_length (by omega), List.take_of_length_le (by omega)]
  have hR : (s.A ++ s.R.getD ((t - 1) % n) []).drop 8 = s.R.getD ((t - 1) % n) [] := by
    rw [List.drop_append_of_le_length (by omega), List.drop_of_length_le (by omega), List.nil_append]
  rw [hA, hR, List.set_set]
  have : s.R.set ((t - 1) % n) (s.R.getD ((t - 1) % n) []) = s.R := by
    rw [List.getD_eq_getElem?_getD, List.getElem?_eq_getElem hj]
    simp
  rw [this]

/-- undoing a list of steps in reverse order -/
theorem undo_steps (E D : Bytes → Bytes) (hE : BlockPair E D) (n : Nat) (hn : 0 < n) (ts : List Nat)
    (s : WState) (g : Good n s) :
    ts.reverse.foldl (stepB D n) (ts.foldl (stepF E n) s) = s ∧ Good n (ts.foldl (stepF E n) s) := by
  induction ts generalizing s with
  | nil => exact ⟨rfl, g⟩
  | cons t ts ih =>
    have g1 := stepF_good E D hE n hn s g t
    obtain ⟨h1, h2⟩ := ih (stepF E n s t) g1
    refine ⟨?_, h2⟩
    simp only [List.foldl_cons, List.reverse_cons, List.foldl_append, List.foldl_nil]
    rw [h1, stepB_stepF E D hE n hn s g t]

/-- **The unwrapping permutation inverts the wrapping permutation** (for any invertible 16-byte
    block function). -/
theorem Winv_W (E D : Bytes → Bytes) (hE : BlockPair E D) (s : WState) (g : Good s.R.length s) :
    Winv D (W E s) = s := by
  by_cases hn : 0 < s.R.length
  · have h := undo_steps E D hE s.R.length hn (counters s.R.length) s g
    unfold Winv W
    rw [h.2.rn]
    exact h.1
  · have : s.R.length = 0 := by omega
    simp [Winv, W, counters, this]

theorem wrappingSize_mult8 (n : Nat) : wrappingSize n % 8 = 0 ∧ n + 8 ≤ wrappingSize n ∧ wrappingSize n < n + 16 := by
  unfold wrappingSize; omega

/-- |wrap d| = 8·⌈|d|/8⌉ + 8 -/
theorem wrappingSize_formula (n : Nat) : wrappingSize n = 8 * ((n + 7) / 8) + 8 := by
  unfold wrappingSize; omega

end TinkVerif.Kwp

namespace TinkVerif.Siv
open TinkVerif TinkVerif.Cmac

/-- length of a big-endian counter keystream -/
theorem streamBE_length (E : Bytes → Bytes) (hE : ∀ b, (E b).length = 16) (iv : Bytes) (n : Nat) :
    (Ctr.streamBE E iv n).length = n := by
  unfold Ctr.streamBE
  rw [List.length_take]
  have : ((List.range ((n + 15) / 16)).flatMap fun i => E (Ctr.blockBE iv i)).length = 16 * ((n + 15) / 16) := by
    generalize (n + 15) / 16 = k
    induction k with
    | zero => simp
    | succ k ih =>
      rw [List.range_succ, List.flatMap_append, List.length_append, ih]
      simp [hE]; omega
  rw [this]; omega

/-- CTR encryption is an involution -/
theorem xorBE_involutive (E : Bytes → Bytes) (hE : ∀ b, (E b).length = 16) (iv data : Bytes) :
    Ctr.xorBE E iv (Ctr.xorBE E iv data) = data := by
  unfold Ctr.xorBE
  have hl : (Bytes.xor data (Ctr.streamBE E iv data.length)).length = data.length := by
    simp [streamBE_length E hE]
  rw [hl]
  exact Bytes.xor_xor_cancel _ _ (by rw [streamBE_length E hE]; exact Nat.le_refl _)

theorem s2v_length_cond (E1 : Block → Block) (hE : ∀ b, (E1 b).length = 16) (msg ad : Bytes)
    (hx : ∀ d l, (xorEndAndCompute E1 d l).isSome = true → ((xorEndAndCompute E1 d l).getD []).length = 16) :
    True := trivial

/-- **Decryption inverts encryption** (raw AES-SIV), for every pair of block functions with 16-byte
    outputs. -/
theorem decryptRaw_encryptRaw (E1 E2 : Block → Block) (hE2 : ∀ b, (E2 b).length = 16)
    (pt ad : Bytes) (hs : (s2v E1 pt ad).length = 16) :
    decryptRaw E1 E2 (encryptRaw E1 E2 pt ad) ad = some pt := by
  unfold decryptRaw encryptRaw
  simp only [List.length_append, hs]
  rw [if_neg (by omega)]
  rw [List.take_append_of_le_length (by omega), List.take_of_length_le (by omega)]
  rw [List.drop_append_of_le_length (by omega), List.drop_of_length_le (by omega), List.nil_append]
  rw [xorBE_involutive E2 hE2]
  simp

/-- full primitive: the prefix is checked and stripped -/
theorem decrypt_encrypt (E1 E2 : Block → Block) (hE2 : ∀ b, (E2 b).length = 16) (pre pt ad : Bytes)
    (hs : (s2v E1 pt ad).length = 16) :
    decrypt E1 E2 pre (encrypt E1 E2 pre pt ad) ad = some pt := by
  unfold decrypt encrypt
  rw [if_neg (by simp), if_neg (by simp)]
  simp only [List.drop_left']
  exact decryptRaw_encryptRaw E1 E2 hE2 pt ad hs

/-- **Characterisation of acceptance**: a ciphertext decrypts iff it carries the prefix, is at least
    16 bytes longer, and its SIV equals S2V of the CTR-decrypted body and the associated data. -/
theorem decrypt_iff (E1 E2 : Block → Block) (pre ct ad p : Bytes) :
    decrypt E1 E2 pre ct ad = some p ↔
      pre.length ≤ ct.length ∧ ct.take pre.length = pre ∧ 16 ≤ (ct.drop pre.length).length ∧
      p = Ctr.xorBE E2 (clearBits ((ct.drop pre.length).take 16)) ((ct.drop pre.length).drop 16) ∧
      s2v E1 p ad = (ct.drop pre.length).take 16 := by
  unfold decrypt decryptRaw
  constructor
  · intro h
    split at h
    · cases h
    · split at h
      · cases h
      · rename_i h1 h2
        simp only [ne_eq, Decidable.not_not] at h2
        split at h
        · cases h
        · dsimp only at h
          split at h
          · rename_i h3 h4
            cases h
            exact ⟨by omega, h2, by omega, rfl, h4⟩
          · cases h
  · rintro ⟨h1, h2, h3, h4, h5⟩
    rw [if_neg (by omega), if_neg (by simp [h2]), if_neg (by omega)]
    dsimp only
    rw [← h4, if_pos h5]

/-- equal inputs give equal outputs: encryption is a function of (key, plaintext, associated data) -/
theorem encrypt_deterministic (E1 E2 : Block → Block) (pre pt ad pt' ad' : Bytes) (h1 : pt = pt') (h2 : ad = ad') :
    encrypt E1 E2 pre pt ad = encrypt E1 E2 pre pt' ad' := by rw [h1, h2]

/-- a ciphertext shorter than prefix + 16 is rejected -/
theorem decrypt_short (E1 E2 : Block → Block) (pre ct ad : Bytes) (h : ct.length < pre.length + 16) :
    decrypt E1 E2 pre ct ad = none := by
  cases hd : decrypt E1 E2 pre ct ad with
  | none => rfl
  | some p =>
    have := (decrypt_iff E1 E2 pre ct ad p).mp hd
    simp only [List.length_drop] at this
    omega

end TinkVerif.Siv

section AxiomAudit
#print axioms TinkVerif.Kwp.stepB_stepF
#print axioms TinkVerif.Kwp.Winv_W
#print axioms TinkVerif.Kwp.wrappingSize_formula
#print axioms TinkVerif.Kwp.wrappingSize_mult8
#print axioms TinkVerif.Siv.xorBE_involutive
#print axioms TinkVerif.Siv.decryptRaw_encryptRaw
#print axioms TinkVerif.Siv.decrypt_encrypt
#print axioms TinkVerif.Siv.decrypt_iff
#print axioms TinkVerif.Siv.decrypt_short
end AxiomAudit
